"""Per-property configuration of bin/check."""

KERNEL = "Lean 4.33.0 kernel and elaborator (leanchecker re-check in the thorough tier)"
AXIOMS = "axioms allowed in property theorems: propext, Classical.choice, Quot.sound (audited with #print axioms on every run); no native_decide, no bv_decide, no sorry/admit, no axioms of my own"
HARNESS = "the Rust correspondence harness /verif/harness (generators, serialisers, canonicalisers) and the compiled Lean driver zvdriver (Lean code generator); rustc/cargo"

props = {}

props["C05"] = {
    "harness": "c05",
    "level": "proof",
    "model_is_oracle": True,
    "exhaustive": False,
    "nontrivial": r"^c05 (arith|cmp|row8|tostr|lit|f32|f64|fnarrow) ",
    "extra_eval_counters": ["exhaustive8_pairs"],
    "rule": "cases = (type, operation, operand tuple) requests answered by the real Prim step of the interpreter / IntegerLiteral::with_type and by the Lean model; all 2x8x65,536 8-bit pairs are enumerated (256 per row8 request, counted in input_distribution.exhaustive8_pairs), boundary grids and seeded random operands for the wider types, literals at lo-3..lo+3 / hi-3..hi+3 of every type, float cases by bit pattern. distinct_nontrivial counts distinct request lines other than the 8 type-table rows.",
    "explanation": "Integer half: kernel-checked theorems for all operands of all eight types (add/sub/mul = wrap of the exact result, div/rem = truncated division with the single zero-divisor trap and MIN/-1 wrapping, comparisons by signedness, literal accepted iff in range and value preserved, to_string parses back to the exact value); the model is tied to impls.rs/lib.rs by the differential run. Float half: correspondence only (no IEEE-754 development exists in this image).",
    "trusted_base": [KERNEL, AXIOMS, HARNESS,
                     "modelled, not verified: lang/dynamics/src/impls.rs integer_* and lang/syntax/src/lib.rs IntegerLiteral::with_type are mirrored by ZV/Model/Numeric.lean and compared on every run; float arithmetic and float to_string are compared with Lean's native Float/Float32 (same hardware operations), not proved"],
    "assumptions": ["Rust's wrapping_* on iN/uN is two's-complement arithmetic (what the differential run observes)",
                    "literal source text -> i128 parsing is covered under C10/C11, not here"],
}
