"""Per-property configuration of bin/check."""

KERNEL = "Lean 4.33.0 kernel and elaborator (leanchecker re-check in the thorough tier)"
AXIOMS = "axioms allowed in property theorems: propext, Classical.choice, Quot.sound (audited with #print axioms on every run); no native_decide, no bv_decide, no sorry/admit, no axioms of my own"
HARNESS = "the Rust correspondence harness /verif/harness (generators, serialisers, canonicalisers) and the compiled Lean driver zvdriver (Lean code generator); rustc/cargo"

props = {}
PENDING_REASONS = {}

props["C05"] = {
    "harness": "c05",
    "level": "proof",
    "model_is_oracle": True,
    "exhaustive": False,
    "nontrivial": r"^c05 (arith|cmp|row8|tostr|lit|f32|f64|fnarrow) ",
    "extra_eval_counters": ["exhaustive8_pairs"],
    "rule": "cases = (type, operation, operand tuple) requests answered by the real Prim step of the interpreter / IntegerLiteral::with_type and by the Lean model; all 2x8x65,536 8-bit pairs are enumerated (256 per row8 request, counted in input_distribution.exhaustive8_pairs), boundary grids and seeded random operands for the wider types, literals at lo-3..lo+3 / hi-3..hi+3 of every type, float cases by bit pattern. distinct_nontrivial counts distinct request lines other than the 8 type-table rows.",
    "explanation": "Integer half: kernel-checked theorems for all operands of all eight types (add/sub/mul = wrap of the exact result, div/rem = truncated division with the single zero-divisor trap and MIN/-1 wrapping, comparisons by signedness, literal accepted iff in range and value preserved, to_string parses back to the exact value); the model is tied to impls.rs/lib.rs by the differential run. Float half: correspondence only (no IEEE-754 development exists in this image).",
    "trusted_base": [KERNEL, AXIOMS, HARNESS,
                     "modelled, not verified: lang/dynamics/src/impls.rs integer_* and lang/syntax/src/lib.rs IntegerLiteral::with_type are mirrored by ZV/Model/Numeric.lean and compared on every run; float arithmetic and float to_string are compared with Lean's native Float/Float32 (same hardware operations), not proved"],
    "assumptions": ["Rust's wrapping_* on iN/uN is two's-complement arithmetic (what the differential run observes)",
                    "literal source text -> i128 parsing is covered under C10/C11, not here"],
}

props["C05"]["manifest"] = {
    "text": "Integer semantics of all eight types and the literal range check are Lean theorems over all operands (unbounded quantifiers, omega/BitVec lemmas, no enumeration); the model mirrors impls.rs/IntegerLiteral::with_type and is compared with the real Prim step on all 2x8x65,536 8-bit pairs, boundary grids and random wide operands, and through the whole front end for literals at every range boundary. Float arithmetic is correspondence-only (stated, not proved).",
    "note": "Trusted: Lean kernel; axioms propext/Classical.choice/Quot.sound; the harness and compiled driver; Rust's wrapping_* being two's complement. Not proved: IEEE-754 float behaviour (no float library in this image), literal text -> i128 parsing (C10/C11).",
    "technique": "Lean 4 theorems about a BitVec model + differential correspondence with the interpreter's primitives",
}

props["C11"] = {
    "harness": "c11",
    "level": "proof",
    "nontrivial": r"^c11 (lex|tool) [A-Z]*[OCU][A-Z]*$",
    "extra_eval_counters": ["parse_accept", "parse_reject", "parse_panic"],
    "rule": "each case is the raw logos token stream of one text (a repository source, a repository source with a lexical irregularity - stray terminator, unknown character, unterminated opener, malformed literal - spliced at a token gap, or a random lexeme soup); the real Lexer's emitted set and the real LexicalTokens view are compared with the Lean model, and every accepted text's root span is compared with the end of its last token outside comments. Non-trivial = distinct raw streams containing a comment bracket or an unknown token.",
    "explanation": "Kernel-checked: the mirror of `impl Iterator for Lexer` hands the parser exactly the program tokens outside comments, in order (lexer_complete, lexer_ordered, stray_close_reaches_parser), and the tooling lexer agrees with it (lexers_agree), for every raw stream. Tied to lexer.rs by running both real lexers on every case. The step from 'every token was handed over' to 'every token is in the parsed term' is the trusted LALRPOP fact that an Ok parse consumed its whole iterator, additionally observed through the root span on every accepted text.",
    "trusted_base": [KERNEL, AXIOMS, HARNESS,
                     "trusted, not modelled: logos' regex classification of characters into raw tokens (an input of the model, taken from the repository's own token definitions - a change to those definitions changes the model's input with it; for the comment delimiters this is covered independently by block comments closed by the documented rules, written out in the harness, after which text must still be program text); LALRPOP returns Ok only after consuming every token its iterator yields",
                     "modelled, not verified: lang/surface/src/textual/lexer.rs `impl Iterator for Lexer` and `LexicalTokens` are mirrored by ZV/Model/Lexer.lean and compared on every run"],
    "assumptions": ["logos yields no Err item for this token set (catch-all rule); the model has the arm anyway and the harness counts Err items (input_distribution.raw_err_items)"],
}

props["C11"]["manifest"] = {
    "text": "For every raw token stream, the mirrored parser-side lexer hands over exactly the program tokens outside comments, in order, and the tooling lexer agrees (Lean theorems by induction over the stream, no bound). The mirror is compared with both real lexers on every repository source, on each of them with lexical irregularities spliced at token gaps, and on random lexeme soups; accepted texts are additionally checked to be consumed up to their last token.",
    "note": "Trusted: Lean kernel and the three standard axioms; logos' character classification (an input of the model); LALRPOP consuming its whole iterator before returning Ok; the harness and compiled driver.",
    "technique": "Lean 4 theorems about a mirrored lexer loop + differential correspondence with Lexer/LexicalTokens + root-span oracle",
}

props["C04"] = {
    "harness": "c04",
    "level": "proof",
    "nontrivial": r"^c04 (match|comatch) .* R [1-9]",
    "rule": "each case is a generated signature (1-4 data types: empty, single, sums, recursive, with unit / product / named-field / opaque arguments, declared transparently or sealed), a scrutinee type and 0-10 arms (random typed patterns, or a covering split with arms dropped / added / shuffled, n-ary product patterns in random groupings); the real checker's CoverageError (exact witness list and truncation flag) is compared with the Lean mirror of coverage.rs, and the verdict is cross-checked against enumeration of the scrutinee's values. Non-trivial = distinct requests with at least one arm.",
    "explanation": "Kernel-checked: termination of the mirrored matrix algorithm (well-founded on (non-wildcard nodes, columns)), the 9-row bound, comatch completeness, and the semantic theorems listed under `theorems` (statements whose proof has not landed yet are kept as `Statement.*` propositions in ZV/Props/C04.lean and are NOT counted as obligations). The mirror is compared with the real checker on every generated program (exact witnesses), and the verdict with value enumeration.",
    "trusted_base": [KERNEL, AXIOMS, HARNESS,
                     "modelled, not verified: lang/statics/src/validate/coverage.rs is mirrored by ZV/Model/Coverage.lean (binary products only, as from_typed produces) and compared on every run; the hints recorded during checking (data_hints, data_pat_hints) and the typed-pattern construction are exercised through source programs, not modelled"],
    "assumptions": ["run-time arm selection (eval.rs Assign) agrees with MPat.matches: covered by the C01/C02 machine correspondence"],
}

props["C04"]["manifest"] = {
    "text": "The matrix algorithm of coverage.rs is mirrored definition for definition in Lean (its termination proof is itself an obligation) and compared with the real checker's CoverageError output - exact witness lists and truncation flag - on generated match/comatch/copattern programs; the semantic theorems (soundness of acceptance unconditionally, witness soundness and completeness under AllInhabited) are proved in ZV/Props/C04.lean; the verdict is additionally cross-checked against enumeration of the scrutinee's values on every case.",
    "note": "Trusted: Lean kernel and the three standard axioms; the harness/driver. Not modelled: the hints recorded during type checking and copattern elaboration (exercised through source programs). Known finding: matches over types with uninhabited components are over-rejected (known-findings.json).",
    "technique": "Lean 4 mirror of the pattern-matrix algorithm with kernel-checked termination and semantic theorems + differential correspondence on generated programs",
}

props["C07"] = {
    "harness": "c07",
    "level": "proof",
    "nontrivial": r"^(zc (alpha|run) |# probe )",
    "timeout": {"quick": 900, "thorough": 7200},
    "rule": "(a) every generated well-typed ZCore program (700 quick / 12,000 thorough; data, codata, products, thunks, functions, fix, primitives) is printed under four namings of its bound variables - as generated (all distinct), two maximal-shadowing namings drawn from a pool of four names (a binder takes any pool name that no use inside its scope needs from an outer binder, so unrelated outer binders are shadowed wherever possible), and a permutation of the names - and run through the real pipeline: verdict class, exit code and output must be identical; the Lean model decides that each naming has the same canonical form as the original (`zc alpha`) and runs each naming itself (`zc run`). (b) 120 / 600 importer-capture probes: an import of a source whose only free name is zfree, wrapped in 1-4 nested binder forms (let, do, fn, pair pattern, block `that` before and after its use, fix, def) that bind zfree, must be an unbound-variable error naming zfree; 8 controls import a closed source under the same wrappers and must be accepted. (c) 7 `that` locality probes (visible to an earlier contribution, shadows an outer let for contributions and tail, invisible after its block and in a sibling block, an inner block sees an outer `that`, an inner `that` shadows an outer one) with their exact exit codes.",
    "explanation": "On ZCore the property is a theorem: a closed program and any renaming of its bound variables that has the same canonical form (every binder renamed to its depth, every occurrence to its innermost enclosing binder) are accepted together and have the same reference behaviour, hence (C02) the same machine behaviour; all five statements of ZV/Props/C07Statements.lean are proved (canonical renaming preserves acceptance, reference behaviour at every fuel, is idempotent; accepted programs are closed). The surface resolver (resolver.rs, blocks.rs) is tied to this by the metamorphic runs and the probes, not mirrored: begin-blocks, `that`, and source boundaries are outside ZCore.",
    "trusted_base": [KERNEL, AXIOMS, HARNESS,
                     "modelled, not verified: the surface resolver's environment threading is represented by ZCore's scoping (inferC / evalRC look names up innermost-first); the real resolver is compared through acceptance and behaviour of every naming, not occurrence by occurrence",
                     "NOT modelled: BlockScope / candidate collection (blocks.rs), source and signature boundaries (Local::for_body), provider cloning (program.rs, clone.rs): covered by probes (b) and (c) only",
                     "the renamer in the harness (its output is checked by the Lean canonical form on every case, so a capturing renaming cannot pass as a violation of the code)"],
    "assumptions": [],
}
props["C07"]["manifest"] = {
    "text": "Renaming invariance is a Lean theorem on ZCore (canonical renaming; acceptance and reference behaviour depend only on the canonical form) and is tested on the real pipeline by printing every generated program under shadow-maximising and permuted namings - same verdict, exit code and output - with the Lean model certifying that each pair of namings is alpha-equivalent. Import hygiene and `that` locality, which live outside ZCore, are decided by probes over every binder form at depths 1-4 around an import with a free name, and by block-locality probes with exact expected outcomes.",
    "note": "Proof on the ZCore fragment; blocks, `that` and source boundaries are covered by probes, not by a mirror of blocks.rs.",
    "technique": "Lean theorem (canonical renaming invariance of typing and reference semantics on ZCore) + metamorphic naming runs certified alpha-equivalent by the model + importer-capture and block-locality probes",
}

props["C08"] = {
    "harness": "c08",
    "level": "proof",
    "nontrivial": r"^c08 (scc|ctx) \S+ .*G [2-9]",
    "rule": "(a) every digraph on <= 3 (quick) / <= 4 (thorough) nodes with self-loops, each also with its edge-less nodes absent from the map (dependency targets only), plus random graphs up to 12 / 40 nodes; each graph is run through the real DepGraph/Kosaraju/SccGraph several times (std HashMap RandomState differs per map instance) and drained by top/release in three modes (whole round, one group, one id = piecemeal); the canonicalised sequence of top() answers is compared with the Lean mirror run under a different iteration scheduler each time, and an independent oracle checks that nothing is offered before its dependencies or twice and that everything is released. (b) generated begin/end blocks whose `that` definitions realise a random dependency graph (acyclic, or cyclic through value definitions), printed under all (<= 4 definitions) or sampled permutations: acceptance + behaviour must be identical across permutations and BindingContext::topological_order must equal the model's. Non-trivial = distinct requests on graphs with at least two entries.",
    "explanation": "The dependency analysis (Kosaraju, SccGraph bookkeeping, BindingContext ordering) is mirrored in Lean with hash-map iteration order as an explicit scheduler parameter, and compared with the real structures on exhaustively enumerated small graphs under real hash randomisation; property theorems proved so far are listed under `theorems`; statements not yet proved are kept as `Statement.*` propositions in ZV/Props/C08.lean and are not counted as obligations.",
    "trusted_base": [KERNEL, AXIOMS, HARNESS,
                     "modelled, not verified: lang/utils/src/graph.rs (DepGraph, SrcGraph, Kosaraju, SccGraph::{new,top,release}) and scoped/arena.rs BindingContext::{from_bindings, ready, topological_order} are mirrored by ZV/Model/Graph.lean with hash iteration order as a parameter, and compared on every run; obliviate/keep_only are not used by the block pipeline and not modelled; the checker's treatment of RecGroup is exercised through programs only"],
    "assumptions": ["std::collections::HashMap iteration order is arbitrary but a permutation of the contents (the scheduler parameter of the model)"],
}

props["C08"]["manifest"] = {
    "text": "graph.rs (DepGraph/Kosaraju/SccGraph) and BindingContext ordering are mirrored in Lean with hash iteration order as a parameter; the mirror is compared with the real structures on all small digraphs (incl. self-loops and target-only nodes) in three release disciplines under real hash randomisation, and with BindingContext::topological_order on permuted generated blocks, whose acceptance and behaviour must also be permutation-invariant. Kernel-checked theorems about the mirror are listed in the evidence; the remaining statements (Kosaraju correctness, drain order, scheduler independence) are kept in full in ZV/Props/C08.lean until proved.",
    "note": "Trusted: Lean kernel and the three standard axioms; the harness/driver; HashMap iteration being a permutation. Not modelled: SccGraph::{obliviate, keep_only} (unused by blocks), the checker's RecGroup handling.",
    "technique": "Lean 4 mirror with scheduler-parametrised iteration + kernel-checked theorems + exhaustive small-graph differential correspondence + permutation metamorphic oracle",
}

props["C06"] = {
    "model_oracle_prefixes": ["c06 "],
    "harness": "c06",
    "level": "proof",
    "tables": ["roles"],
    "nontrivial": r"^c06 seq ",
    "rule": "the role table (126 rows: source name, host name, arity, ABI classifier) is regenerated from the code into ZV/Generated/Roles.lean and the table theorems are re-checked; each sequence case runs 1-12 host operations on ONE real Runtime (handle table persists) with arguments drawn from the role's own ABI classifier (boundary integers and indices around string lengths, code points around the surrogate gap, Unicode strings mixing 1-4 byte scalars, valid / truncated / overlong / surrogate / out-of-range UTF-8 buffers, open, closed and never-issued handles, missing and fresh paths in a scratch directory, several stdin and argv contents) and compares every step's outcome, the output sink and the final files with the Lean model. Non-trivial = distinct sequences.",
    "explanation": "Kernel-checked over the table regenerated from the code: arity = number of ABI value parameters for all 126 roles, names unique; plus the theorems listed under `theorems` about the mirrored operations (statements not yet proved stay as `Statement.*` in ZV/Props/C06.lean and are not counted). The mirror is compared with the real interpreter on sequences of operations over one runtime.",
    "trusted_base": [KERNEL, AXIOMS, HARNESS,
                     "regenerated on every run: the role table (BuiltinValueRole::{all, source_name, host_name, arity}, BuiltinOperationAbi::for_role)",
                     "modelled, not verified: lang/dynamics/src/impls.rs, host.rs and lang/syntax/src/text.rs are mirrored by ZV/Model/Host.lean and compared on every run; the operating system behind file operations (only regular files and missing paths are modelled; permission errors, directories, and one path aliased by two writers or by a reader and a writer are outside the model); random_int's value; float operations and float to_string (compared with Lean's native floats, not proved); the Builtin signature validator is exercised by the C01/C03 mutant streams, not here"],
    "assumptions": ["Lean's core UTF-8 decoder (ByteArray.utf8Decode?, proved against List.utf8Encode in core) and Rust's str::from_utf8 accept the same byte strings (observed on every generated buffer)"],
}

props["C06"]["manifest"] = {
    "text": "The 126-row role table (names, arities, ABI classifiers) is regenerated from the code on every run and the table theorems re-checked by the kernel (arity = ABI parameter count, unique names); impls.rs / host.rs / text.rs are mirrored role by role in Lean, with the handle table and a small file system as state, and compared with the real interpreter on sequences of operations over one runtime with arguments drawn from each role's own classifier; contract theorems (every role honours its classifier for all argument values, scalar-indexed text operations, code points, integer parsing, UTF-8 round trip, handle-table invariant, closed handles stay closed, line reads selecting end of input only when nothing is left) are proved in ZV/Props/C06.lean.",
    "note": "Trusted: Lean kernel and the three standard axioms; the harness/driver/table dumper. Not modelled: OS behaviour beyond regular files and missing paths, random_int's value, float arithmetic/rendering (correspondence only), signature validation (C01/C03 streams).",
    "technique": "regenerated table + decide over the whole table, Lean mirror of the host operations with kernel-checked contract theorems, sequence-level differential correspondence",
}

props["C09"] = {
    "harness": "c09",
    "level": "proof",
    "nontrivial": r"^c09 load 0 [2-9]",
    "rule": "each case is a materialised directory: every import edge set on <= 3 (quick) / <= 4 (thorough) files under every companion layout (no companions, f0.zyi beside f0.zy, a companion further down, two companions, a program root), plus random worlds up to 6 / 12 files with repeated imports and missing targets; every import is spelled at random as relative, ./, sub/../, absolute, through a symlinked file or through a symlinked directory. CompilerSession::graph's answer (sources, import and signature edges, provider order, or the reported cycle, or the missing-import error) is compared with the Lean mirror of loader.rs/graph.rs, and an independent oracle checks that no file is loaded twice, providers precede consumers and reported cycle steps are real edges forming a closed walk. Non-trivial = distinct worlds with at least two files.",
    "explanation": "loader.rs (dedup map filled before recursion, import and signature edges) and graph.rs (cycle detector with explicit path stacks, provider order) are mirrored in Lean and compared with CompilerSession::graph on every materialised world; kernel-checked theorems about the mirror are listed under `theorems` (statements not yet proved stay in ZV/Props/C09Statements.lean and are not counted).",
    "trusted_base": [KERNEL, AXIOMS, HARNESS,
                     "modelled, not verified: lang/session/src/source/loader.rs and graph.rs (SourceCycleDetector, ProviderOrder) are mirrored by ZV/Model/SourceGraph.lean and compared on every run; the file system and Path::canonicalize are inputs of the model (observed through mixed spellings and symlinks); the semantic half of C09 (an import means the provider's closed term; fresh copy per occurrence; companion = ascription) is exercised by generated multi-file programs, not modelled here"],
    "assumptions": ["Path::canonicalize maps every spelling of a file (relative, absolute, ./, ../, symlinked file or directory) to one identity"],
}

props["C09"]["manifest"] = {
    "text": "Source-graph loading (dedup by canonical identity, import and companion-signature edges), the cycle detector and the provider order are mirrored in Lean and compared with CompilerSession::graph on every import edge set over a few files under several companion layouts and on random larger worlds, with each import spelled relative / absolute / through ./, ../ and symlinks; an independent oracle checks single loading, providers-first and that reported cycle steps are real edges forming a closed walk. Theorems (cycle soundness and completeness, provider order is topological, loading is total and deduplicating) are proved in ZV/Props/C09.lean.",
    "note": "Trusted: Lean kernel and the three standard axioms; the harness/driver; Path::canonicalize giving one identity per file. The semantic half (import = inlining of the closed provider term, fresh copy per occurrence, companion = ascription) is covered by the program-level checks of C07/C02, not by this model.",
    "technique": "Lean mirror of the loader, cycle detector and provider order with kernel-checked graph theorems + exhaustive small-world differential correspondence over a real file system",
}

props["C10"] = {
    "harness": "c10",
    "level": "other",
    "nontrivial": r"^c10 (span2|spanshow|intlit|metaint) ",
    "extra_eval_counters": ["search_inputs"],
    "timeout": {"quick": 900, "thorough": 7200},
    "rule": "modelled glue: every offset (or boundary + random offsets for long texts) of texts with CR/LF/multi-byte content, very long lines and very many lines through FileInfo::trans_span2 and Span display; integer and metadata literals at every representable boundary. Failing-input search (input_distribution.<stream>_<outcome>): token soups over the lexer's vocabulary with extreme literals and metadata, generated syntactically valid ill-formed terms over the whole grammar, token-level mutations (delete / duplicate / swap / replace / insert, incl. metadata) of every repository source analysed as an overlay at its own path so imports still resolve, and arbitrary character strings; every input goes through CompilerSession::analyze and the CLI's diagnostic rendering under catch_unwind with a 20 s watchdog, and every location a report mentions is checked to lie inside the file it names. distinct_nontrivial counts distinct requests of the modelled slices only (search inputs are counted in evaluations).",
    "explanation": "Totality of ~20,000 lines of Rust is not a theorem about a model. Kernel-checked: the modelled glue sites (literal text to i128 / i64, span arithmetic and cursor packing) cannot panic on in-range input and lose nothing. Decisive evidence for the rest is the failing-input search: any panic, hang or out-of-file location is reported with the input as replay. Three panics found this way on the pinned tree were repaired by fix: commits (known-findings.json, status fixed).",
    "trusted_base": [KERNEL, AXIOMS, HARNESS,
                     "modelled, not verified: FileInfo::trans_span2 / CompactCursor2 (utils/span.rs) and the Integer / Meta literal actions (parser.lalrpop) are mirrored by ZV/Model/FrontGlue.lean and compared on every run",
                     "NOT modelled: the LALRPOP runtime, desugarer, resolver, checker and renderer internals (several hundred unwrap/expect/unreachable sites justified by invariants of earlier phases): only the search can exhibit a panic there"],
    "assumptions": ["nesting depth of generated inputs is bounded (the property excludes unbounded depth)"],
}
props["C10"]["manifest"] = {
    "text": "Partial by nature: the theorems cover the glue sites that can be modelled (literal sizes, span arithmetic, cursor packing); the property's main content - no panic, hang or out-of-file location anywhere in the front end - is decided by a failing-input search over four adversarial input streams through CompilerSession::analyze and the CLI's rendering, under catch_unwind and a watchdog. Three input-dependent panics found on the pinned tree were fixed (fix: commits).",
    "note": "Level `other`: the kernel-checked part does not carry the property; the search explores, it does not prove. Trusted: harness, catch_unwind catching every panic (stack overflow and allocation failure abort the process and are reported as harness crashes).",
    "technique": "Lean theorems on modelled failure sites + failing-input search (token soups, grammar-directed ill-formed terms, corpus token mutations, arbitrary strings) with panic/hang/location oracles",
}

FORMATTER_STREAMS = ("every maintained .zy/.zyi/.zydeco source as it is; per file 4 (quick) / 40 (thorough) variants - white space and blank lines inserted at token gaps, comments of six kinds (line, tail, own-line, block, nested block, multi-line block) inserted at 1-4 random token gaps, or the file unchanged - two thirds of them under a random @[format(width(1..200), indent(1..8), layout(preserve|blank_lines|ignore), parentheses(minimal|preserve), verbatim)] directive; horizontal-spacing pairs; every literal spelling of a 40-entry table in three positions; sources broken by one inserted token. Each input is formatted in-process by PrettyFormatter (30 s watchdog, catch_unwind) and, as a real file, by the CLI's SourceFormatter")

props["C12"] = {
    "harness": "c12",
    "harness_args": ["--only", "c12"],
    "level": "other",
    "nontrivial": r"^(c12 (spell|read) |grp (gram|elide|derives|tree) |# (comment|space|plain|corpus|literal|broken|hbase|hspace):)",
    "timeout": {"quick": 1500, "thorough": 10800},
    "rule": "inputs: " + FORMATTER_STREAMS + ". Oracles for C12: the formatter returns (no panic, no hang); its output parses; SourceUnitDesugarer output of input and output is identical (the repository's own structural printer); a file that does not parse is byte-for-byte unchanged after `fmt` and the error is reported; the file written is the text rendered. String literal spelling is compared with the Lean model on random strings over an alphabet of special characters (`c12 spell`, `c12 read`).",
    "explanation": "pretty.rs is a 4,500-line combinator printer over an external layout library; it is not modelled, so totality and meaning preservation are decided by search with an exact oracle (desugared structure equal), not by a theorem. Kernel-checked: the one place where the printer invents text rather than copying tokens - string literal spelling - round-trips through the lexer's reader for every string (this is the defect repaired by fix: 9aa2731 and 69bbb8b, found by this check).",
    "trusted_base": [KERNEL, AXIOMS, HARNESS,
                     "modelled, not verified: PrettyFormatter::string_literal / Display for Meta strings and escape::apply_string_escapes + the StrLit token regex are mirrored by ZV/Model/Escape.lean and compared on every run",
                     "modelled, not verified: the grammar's child levels (parser.lalrpop under lalrpop 0.23.1's #[assoc] substitution), the formatter's requirement at every child position (pretty.rs) and context.rs's classes / accepts are transcribed into ZV/Model/Grouping.lean and compared with the real parser and formatter exhaustively over the finite table (43 positions x 41 children) and on random trees on every run; trusted there: the LALR(1) grammar is unambiguous (lalrpop's construction succeeds when /repo builds), so the text of a derivation parses back to it",
                     "NOT modelled: the layout algebra (boundaries, guards, RcDoc::fail), patterns, punning, telescope merging, directive scoping - only the search can exhibit a failure there",
                     "the meaning oracle trusts the repository's parser and desugarer (both sides of the comparison go through them)"],
    "assumptions": ["a formatter call that has not returned after 30 s is reported as not terminating"],
}
props["C12"]["manifest"] = {
    "text": "Partial by nature: the layout engine is not modelled. Every maintained source and thousands of white-space / comment / directive variants are formatted; the output must parse and desugar to the identical structure, an unparseable file must be left untouched, and the CLI must write exactly the rendered text; any panic, hang, parse failure or structural difference is a violation with the input as replay. String literal spelling (where the printer does not copy tokens) is proved to round-trip for every string in Lean and compared with the real printer and reader. Which redundant parentheses are dropped is modelled (grammar levels, formatter requirements, acceptance): for every requirement table within the grammar's and every layout decision the printed tree is a derivation of the grammar with the same parenthesis-free tree (theorem), the real tables satisfy the hypothesis (theorem over the transcribed tables), and both tables are compared with the real parser and formatter exhaustively on every run. Defects found on the pinned tree: several fixed (string spelling, existential parameters, a comment glued to a constructor name), three recorded as known findings (render failure on comments in unconventional gaps, exponential layout search at narrow widths, nested existential parentheses).",
    "note": "Level `other`: search with exact oracles, plus two kernel-checked slices (string literal spelling; grouping elision). Trusted: harness, the repository's parser/desugarer as the meaning oracle.",
    "technique": "failing-input search over corpus variants and directive combinations with reparse + desugared-structure oracle and CLI file oracle; Lean theorems + correspondence for string literal spelling and for the elision of redundant parentheses (grammar table and requirement table, exhaustive)",
}

props["C13"] = {
    "harness": "c12",
    "harness_args": ["--only", "c13"],
    "level": "other",
    "model_is_oracle": True,
    "nontrivial": r"^c13 accounts ",
    "timeout": {"quick": 1500, "thorough": 10800},
    "rule": "inputs: " + FORMATTER_STREAMS + ". For every formatted input, input and output are scanned by the harness (raw token boundaries from the logos stream, comment nesting counted independently of trivia.rs) into content tokens, keywords, punctuation and comments; the Lean oracle ZV.Account.accounts decides whether, after the documented rewrites (redundant parentheses, pun spelling, layout, re-indented block comment continuation lines), the output has exactly the input's comments (kind and text, in order: none lost, duplicated, altered or reordered), exactly its content tokens in order, and no comment moved in front of a content token it used to follow.",
    "explanation": "The Lean definition `accounts` IS the decision for each file (model_is_oracle): a verdict other than ok is a violation with the file as replay. Theorems say what the verdict means (ok iff same comment list, same content list, no backward move; layout tokens never matter; a dropped or duplicated comment is always reported) and that comment capture as written in trivia/comment.rs partitions the comments (nothing lost or invented at capture; the expect cannot fire). Forward displacement of a comment to the front of the next entity is the formatter's anchoring rule and is accepted; this is the weakest reading of `same side of the same syntactic element` that the code's design supports.",
    "trusted_base": [KERNEL, AXIOMS, HARNESS,
                     "the harness's scanner (fmt.rs items): token boundaries come from the repository's logos token definitions",
                     "modelled, not verified: CommentCapture::new (anchoring) is mirrored by ZV/Model/Capture.lean but not compared at run time (its types are crate-private); the end-to-end accounting covers it",
                     "NOT modelled: comment emission in pretty.rs (with_leading_comments / with_before_arm_comments / with_trailing_comments), attached text blocks, verbatim copying - covered by the accounting of every formatted file only"],
    "assumptions": [],
}
props["C13"]["manifest"] = {
    "text": "Every formatted file (corpus, white-space / comment / directive variants with comments at random token gaps) is accounted for by a Lean oracle: same comments with the same text in the same order, same content tokens, no comment moved in front of a token it followed. The oracle's meaning is kernel-checked (what ok implies, that dropped / duplicated comments are always reported, that layout tokens never matter) together with a mirror of comment capture (partition, anchor is the next entity). One defect class on the pinned tree is a known finding (a line comment glued to the preceding token is swallowed by it).",
    "note": "Level `other`: the printer's emission code is not modelled; each run decides only the files it formats. Trusted: harness scanner.",
    "technique": "Lean accounting oracle (decides every formatted file) + theorems about the oracle and comment capture + failing-input search over comment placements and directives",
}

props["C14"] = {
    "needs_cli": True,
    "harness": "c12",
    "harness_args": ["--only", "c14"],
    "level": "other",
    "nontrivial": r"^# (comment|space|plain|corpus|literal|broken|hbase|hspace):",
    "timeout": {"quick": 1500, "thorough": 10800},
    "rule": "inputs: " + FORMATTER_STREAMS + ". Oracles for C14: format(format(x)) = format(x) byte for byte (on failure the third pass tells creep from a two-step convergence); the output ends with exactly one newline; a source and its horizontally re-spaced twin (outside verbatim regions) format to the same text; on a real file `check_path` reports changed exactly when `format_path` modifies the file, never writes, and both agree with the in-process rendering; the rebuilt `zydeco` binary is run with one to three files on one command line in every order of to-be-rewritten and already-formatted files: `fmt --check` exits 1 exactly when some file would change and lists exactly those files, `fmt` exits 0, leaves every file as the rendered text, and `fmt --check` afterwards exits 0.",
    "explanation": "The printer is not modelled, so idempotence and canonicity are decided by search with exact byte oracles. Kernel-checked: the command-line adapter (format.rs / format_sources in main.rs) over an abstract renderer - `--check` reports changed iff `fmt` would modify, never writes, unparseable files are untouched, exit status.",
    "trusted_base": [KERNEL, AXIOMS, HARNESS,
                     "modelled, not verified: SourceFormatter::{format_path, check_path} and format_sources are mirrored by ZV/Model/FmtCli.lean; the real SourceFormatter is exercised on every input and compared with the byte oracles, not with the model line by line",
                     "NOT modelled: layout intentions, line separation, directive scoping in pretty.rs / intention.rs"],
    "assumptions": [],
}
props["C14"]["manifest"] = {
    "text": "Partial by nature: idempotence, the single trailing newline, spacing-insensitivity and check/write agreement are tested byte for byte on every maintained source and thousands of white-space / comment / directive variants; the CLI adapter's decision logic is proved in Lean over an abstract renderer. Non-idempotence found on the pinned tree is recorded as known findings by class (block comment continuation lines re-indented further on every pass; narrow explicit widths converge only on the second pass; verbatim directive with comments; glued line comment).",
    "note": "Level `other`: search with exact oracles plus a kernel-checked adapter model.",
    "technique": "failing-input search with byte-exact idempotence / canonicity / check-vs-write oracles; Lean theorems for the CLI adapter",
}

props["C20"] = {
    "harness": "c20",
    "level": "other",
    "model_oracle_prefixes": ["zc run "],
    "nontrivial": r"^(zc run |ck run |# c20 body )",
    "timeout": {"quick": 900, "thorough": 7200},
    "rule": "400 (quick) / 8,000 (thorough) generated closed returning computations of ZCore (ret, do, let, pair patterns, functions and application, thunks and force, data constructors and match, references to zero to two global function definitions - the same one called two or three times in sequence - at result types Int64 and String; core types come from the intrinsic files so that globals can be inlined; bodies with host operations, comparison, fix or codata are skipped because the checker refuses to inline sealed definitions into a monadic block or the translation is not specified for them - counted under skipped_*) are emitted twice over the real lib/std/control/monad.zy: plain (`def ! plain : Ret A = body`) and translated (`def ! translated = @[monadic] begin body end`, run as `! translated Ret { ! ret_monad }` with the identity instance return = ret, bind = run then continue); both are checked and run by the real pipeline and must give the same exit code and output whenever the translated block is accepted (a rejected translated block is outside the property and is counted, with samples in the evidence). The Lean reference semantics runs the same body (`zc run`) and must give the same answer as both real runs; the machine mirror runs the real linked translated program (`ck run`).",
    "explanation": "The type-directed construction in elaborate/monadic (2,800 lines: environment lifting, structure terms, basis resolution) is not mirrored. What is kernel-checked is the identity instance itself on ZCore: the translation with the identity instance inlined (`liftIdC`: ret v becomes (fn value => ret value) v, do x <- m; n becomes idBind {m} {fn x => n}) preserves the reference behaviour in both directions for every ZCore computation (ground results, exit, trap; goes wrong only where the plain term does) and satisfies the left unit law. The real translation is tied to this by the three-way agreement on every generated body.",
    "trusted_base": [KERNEL, AXIOMS, HARNESS,
                     "modelled, not verified: the shape of the translation at the identity instance (ZV/Model/Monadic.lean) follows the published algebra translation the code cites; it is not compared term by term with the elaborator's output - the linked translated program is run on the machine mirror and compared by behaviour",
                     "NOT modelled: elaborate/monadic/{mod,construct}.rs, MonadicBasisElaboration, translation at function and codata result types (Str(B)), typing of the translated block"],
    "assumptions": ["only pure bodies reach the comparison (host operations cannot appear inside a monadic block on this tree)"],
}
props["C20"]["manifest"] = {
    "text": "Every generated supported body is run plain and as a monadic block at the identity instance through the real pipeline (same exit code and output required whenever the block is accepted), and both runs are compared with the Lean reference semantics of the body and with the machine mirror on the real translated program. The identity instance of the translation is modelled on ZCore and its behaviour preservation is proved (forward, backward, never wrong, left unit); the elaborator's construction itself is exercised, not modelled.",
    "note": "Level `other` (partial): the well-typedness of the translated block at the translated type is not modelled; only pure bodies are reachable.",
    "technique": "metamorphic run (plain vs monadic at the identity instance) + Lean reference semantics and machine mirror as third and fourth opinion + Lean theorem on the identity-instance translation of ZCore",
}

SPS_STREAMS = ("every executable repository program (all .zy/.zydeco sources that check accepts and the interpreter's linker takes; stdin `7\\nhello world\\n42\\n`, argv one two); generated programs of the typed core language (zcore.rs: closures capturing values of every type, nested continuations, recursive data, codata dispatch with multi-parameter destructors, fix, products of every arity and grouping; 600 quick / 20,000 thorough, each also printed with multi-parameter abstractions and copattern spines); token- and line-level mutants (same-shape token replacement, identifier to wildcard and back, arm swap / drop / duplication, literal replacement, token deletion / duplication / swap; 24 quick / 400 thorough per fixture) of the 100 fixtures under lib/tests/{compile,compile-more,exec,pack} that check still accepts, analysed as overlays next to the original; 16 hand-written probes of what the generator cannot produce (polymorphic functions and existential packages over products, constructor patterns in let / fn / do binders and nested in arms, wildcard and variable arms, host callbacks, argument fold, standard input)")
SPS_TB = [KERNEL, AXIOMS, HARNESS,
          "the serialiser harness/src/spsser.rs (walks SpsLowProgram's public arena from its root; a node reached twice is reported)",
          "modelled, not verified: the first-order language of lang/stackir/src/sps_low/syntax.rs has no executable semantics in the repository (lang/assembly/src/interp.rs leaves extern calls, intrinsics and context allocation as todo!()); ZV/Model/SpsLow.lean defines one from the syntax's doc comments, convert.rs, assembly/src/lower.rs (stack discipline, flat product layout with spliced suffix) and amd64/src/emit.rs (extern calling convention: arity arguments popped first-argument-first, Returning = result to the continuation on top of the stack, Control = host-selected closure entered with the host's arguments); host operations are ZV/Model/Host.lean (C06), shared with the interpreter model",
          "NOT modelled: sps/lower.rs, sps_low/convert.rs, assembly lowering, stack analysis, unboxing, the emitters: no theorem says anything about them; they are exercised, not verified"]

props["C19"] = {
    "harness": "c19",
    "harness_args": ["--only", "c19"],
    "level": "other",
    "model_oracle_prefixes": ["sps run "],
    "nontrivial": r"^sps run ",
    "timeout": {"quick": 1500, "thorough": 14400},
    "rule": "inputs: " + SPS_STREAMS + ". Each accepted executable is run by the real interpreter (zydeco_dynamics::Runtime, one public Eval::step at a time) and lowered by the real compiler (BackendProgram::lower; when a later stage fails, BuiltinRootLowerer + SpsLowPipeline on their own); the produced SpsLowProgram is serialised and run by the Lean reference machine of the first-order stack-passing language with the same stdin / argv and the same host-operation model; expected answer = the interpreter's end (exit code, trap, return) and output bytes. A model answer `stuck:<kind>` means the lowered program reaches an undefined state of the intermediate language (e.g. `stuck:layout`: a product with a number of fields its consumer's layout does not say), any other different answer means it computes something else. Runs that do not finish within the interpreter's step budget, programs containing a hole and runs using operations whose value the model does not determine (random_int, float to_string) are recorded, not compared. The third column of a case carries the source (or repository path) the request was produced from.",
    "explanation": "Behaviour preservation is decided by running, not proved: the lowering passes are not mirrored in Lean. Kernel-checked is what the comparison rests on: the reference machine is a function and its result does not depend on the step bound (so `the` behaviour of a lowered program is well defined), and a program satisfying the first-order invariants never looks up a missing code address or variable (so such an answer on a compiler-produced program is a violated invariant, not a machine artefact). The machine agrees with the interpreter on every executable repository program and every generated program; on the unchanged tree it disagrees exactly on polymorphic code over products (see findings).",
    "trusted_base": SPS_TB,
    "assumptions": ["native execution (nasm + runtime crate) is not available offline: the reference machine, not the emitted machine code, stands for the lowered program's behaviour; assembly lowering and the emitters are covered by C18's structural checks only",
                    "the reference semantics chooses the first matching arm of a coproduct match and matches constructor patterns at any depth (what the interpreter does); assembly lowering supports less (C18 findings)"],
}
props["C19"]["manifest"] = {
    "text": "Every accepted executable (repository programs, 600 / 20,000 generated typed core programs in two spellings, accepted mutants of 100 fixtures, hand-written probes) is run by the real interpreter and, after the real lowering to first-order stack-passing form, by a Lean reference machine of that intermediate language with the same host-operation model; exit code / trap and output bytes must agree. The machine's determinism, fuel-independence and freedom from lookup failures on valid programs are Lean theorems; the lowering itself is not modelled. Finding on the pinned tree: flat product layouts are chosen per site from the static type and are not stable under type instantiation, so polymorphic code over `A * B` with B instantiated to a product reads the wrong field.",
    "note": "Level `other`: differential search against a reference semantics I defined for an IR that has none in the repository; theorems cover the reference machine only. Trusted: harness + serialiser, the reading of the IR's semantics (cross-checked against assembly lowering and the amd64 emitter's calling convention, and by agreement with the interpreter on ~2,400 programs per quick run).",
    "technique": "Lean reference machine for the compiler IR + differential execution against the source interpreter on corpus, generated programs, accepted fixture mutants and probes",
}

props["C18"] = {
    "harness": "c19",
    "harness_args": ["--only", "c18"],
    "level": "other",
    "model_oracle_prefixes": ["sps validate "],
    "nontrivial": r"^sps validate ",
    "timeout": {"quick": 1500, "thorough": 14400},
    "rule": "inputs: " + SPS_STREAMS + ". For every accepted program the interpreter's linker takes, BackendProgram::lower, render_sps_low, render_assembly (every corpus / mutant / probe program, every third mutant, every tenth generated program: the annotated listing is by far the slowest stage), emit_amd64 and emit_llvm run under catch_unwind: a panic or an error other than the LLVM emitter's declared LlvmUnsupportedLocal limit is a violation carrying the source. The produced first-order program is re-validated by the Lean validator through the driver (`sps validate` must answer `valid`: unique labels, closed root, no implicit capture, joins only at coproduct branches) and, in Rust, checked for one lexical occurrence per node and product layouts (arity > 0, arity >= items, one field class per word); the assembly program is checked independently of the repository's own checks: root, every successor / jump / branch target and every symbol pushed as code is a defined program, no symbol is left Undefined, every extern call is declared, one label per labelled program, product layouts have elements >= 1 and arity >= elements.",
    "explanation": "Totality of ~6,000 lines of backend Rust is not a theorem about a model; it is decided by search with the panic / error oracle. Kernel-checked: the validator run on every produced program decides exactly the invariants sps_low/check.rs states, over an independent free-variable specification (validate_iff_invariants, scope_iff_free), and these invariants are what the reference machine needs never to look up a missing code address or variable (validated_no_lookup_failure, validated_block_lookup).",
    "trusted_base": SPS_TB,
    "assumptions": ["stack overflow / allocation failure abort the process and are reported as harness crashes, not caught",
                    "LLVM: `where supported` is read as the emitter's own validate_llvm_locals guard; on the pinned tree the guard rejects every program that binds the Builtin package (input_distribution.*_llvm_unsupported-local), so LLVM text is never produced for an executable"],
}
props["C18"]["manifest"] = {
    "text": "Every accepted executable of four streams (repository programs, generated typed core programs, accepted mutants of 100 fixtures, probes) goes through BackendProgram::lower, both renderers and both emitters under catch_unwind; the first-order program is re-validated by a Lean validator proved to decide exactly the stated invariants, and the assembly program is checked for defined targets / symbols, unique labels and product layouts independently of the repository's checks. Findings on the pinned tree: assembly lowering panics on accepted programs with a constructor pattern anywhere but the top of a match arm (let / fn / do binder, nested pattern) and on matches with a wildcard or variable arm next to constructor arms.",
    "note": "Level `other`: failing-input search with exact oracles plus kernel-checked validator theorems. Trusted: harness, catch_unwind catching every panic.",
    "technique": "failing-input search (generated programs, accepted fixture mutants, probes) with panic / internal-error oracle + Lean validator with soundness theorems + independent structural checks of the assembly arena",
}

props["C17"] = {
    "harness": "c17",
    "level": "other",
    "needs_cajun": True,
    "nontrivial": r"^# c17 (sched|lsp|resolved|alloc) ",
    "extra_eval_counters": ["jobs", "alloc_identifiers_issued", "lsp_publications_for_the_root"],
    "timeout": {"quick": 1500, "thorough": 10800},
    "rule": "(sched) 4,000 (quick) / 96,000 (thorough) schedules of one CompilerSession with an owner thread and k = 2/4/8/16 worker threads over six interdependent files (two roots, one of them sometimes opening the whole Builtin prelude so that a check takes tens of milliseconds; imports a, b, c; a companion signature): every round the owner hands 1..2k snapshots to the workers, waits a random 0-40,000 microseconds and installs an edit (set_overlay, the same overlay again, clear_overlay, disk write or removal + refresh_disk, a disk write the session is not told about under an overlay, LRU eviction, reverting to an earlier text). Workers do on a snapshot what the language server does (graph, analyze, optionally materialize_arena / reports / coverage / per-term facts, one or two roots, once or twice), catch the unwind, drop the snapshot first and only then report; allocator threads race beside them. Every completed analysis (sources with per-version text and offsets, outcome, every report with file, span and message, counts) must equal the answer of a fresh session over a fresh directory holding exactly the contents recorded for the snapshot's round; a result explained by no state of the schedule is `mixed-revisions`, by an earlier one `stale-*`. Also: two passes over one snapshot agree, all snapshots of one revision agree, no panic other than salsa::Cancelled, no writer blocked for 120 s (the guard prints owner, workers and live handles), and a result accepted by the replayed commit rule belongs to the document text current at the commit. Three quarters of the schedules register every file with the owner first (warm), one quarter let the snapshots discover files as the server does (cold). (alloc) 48 / 400 rounds of 2-16 threads racing IdAllocator::new / ArenaDense::new and alloc: key spaces non-zero and pairwise distinct in a process-wide ledger (also against the key spaces found inside analysis results), raw slots sequential, CompactKeySpaceId and ArenaIdIdentity round trips. (resolved) check_resolved on 2-16 snapshots of one session, each with its own program. (lsp) the real cajun binary, rebuilt from the tree, over stdio: 48 / 900 generated scripts of didOpen / didChange / didSave / hover on a slow root, the file it imports and an unrelated document with 0-250 ms between messages; every publishDiagnostics for the root must be the answer a fresh server gives for a root text at or after the labelled version with a text the imported file has had so far (18 truths, one fresh server each); scripts whose messages never overlap must end on exactly the truth of the final texts; shutdown must be answered.",
    "explanation": "Kernel-checked (ZV/Props/C17.lean, invariants over ALL reachable states of three transition systems, no bounded search): (1) KeySpaceId::fresh modelled at the granularity of fetch_update's load / compare-exchange (incl. spurious failure) for any number of threads: the identities returned are pairwise distinct, non-zero, exactly 1..counter, and at u64::MAX nothing more is issued (keyspace_unique, keyspace_exhaustion); allocators on top of it issue pairwise distinct (key space, raw) pairs (id_injective); the compact split/expand is the identity (compact_roundtrip). (2) The snapshot protocol (revisioned inputs, frozen snapshots, tasks that complete against their own snapshot or are cancelled, writes, the editor's commit rule with the revision read before the snapshot): a completed task holds the analysis of exactly one revision (snapshot_isolation); a committed result is the analysis of one revision in which an open document has its current text, and would be fully current had the rule compared session revisions (commit_consistent; a Demo shows the document-only rule committing a result older than a dependency). (3) The path-to-input registry with memoised analyses validated against the inputs they read: exact when every handle shares one registry (registry_shared_consistent), NOT exact when snapshot() copies it, as the code does (registry_copied_stale: a reachable state with a wrong answer). None of this says the Rust code refines the models; that is what the schedules and the server scripts test. Defects found on the pinned tree are listed in known-findings.json.",
    "trusted_base": [KERNEL, AXIOMS, HARNESS,
                     "modelled, not verified: KeySpaceId::fresh / IdAllocator::alloc / CompactKeySpaceId (lang/utils/src/arena.rs) as the transition system Ks / Sys; CompilerSession::snapshot + set_overlay + the editor's refresh / commit_analysis (session query.rs, cajun lib.rs) as Proto; files: DashMap + memo validation as Reg",
                     "NOT modelled: the operating system's scheduler, salsa's storage (cancellation flag, waiting for handles, memo verification, LRU), dashmap, memory ordering (one atomic location), tokio / tower-lsp; the checker itself (`analyze` is a parameter)",
                     "the sequential oracle trusts a fresh single-threaded CompilerSession (and, for lsp, a fresh cajun process) on the same contents",
                     "schedules are sampled, not enumerated: the interleavings explored are those the OS produces under 2-3x oversubscription"],
    "assumptions": ["a writer blocked for 120 s is reported as a deadlock",
                    "in cold schedules no snapshot is alive while the harness changes a file on disk (the owner cancels and waits first): what a lazily loading snapshot would read from a changing disk is outside the property"],
}
props["C17"]["manifest"] = {
    "text": "Partial by nature: isolation of concurrent analyses is a property of running threads. Decisive evidence is a randomised stress of one session (owner installing edits, 2-16 workers analysing snapshots the way the language server does, allocator threads beside them) in which every completed analysis is compared with a fresh sequential session on exactly the contents its snapshot saw, with a wall-clock guard for deadlock, plus generated scripts against the real cajun binary whose every publication must be the sequential answer for one revision. Kernel-checked: uniqueness of key spaces and identifiers under every interleaving of the compare-exchange loop, snapshot isolation and consistency of the editor's commit rule for every history of the protocol, and exactness of memoised analyses when the input registry is shared - together with a counterexample for the registry copied per snapshot, which is what the code does. Defects found on the pinned tree (stale analyses after a snapshot registered an import, cancelled analyses published as `no diagnostics` or as task failures, check_resolved answering for an earlier program, refresh_disk failing for files first seen missing) are known findings.",
    "note": "Level `other`: the theorems are about models, the search explores schedules, it does not prove. Not modelled: OS scheduling, salsa / dashmap internals, memory ordering.",
    "technique": "randomised multi-threaded stress with an exact sequential oracle and deadlock guard + protocol-level scripts against the real language server + Lean transition systems with invariants over all interleavings (allocator, snapshot protocol, input registry)",
}


props["C15"] = {
    "harness": "c15",
    "level": "proof",
    "model_is_oracle": True,
    "nontrivial": r"^c15 eff [01]+ \S+ .*\b[ocwd]\d",
    "timeout": {"quick": 900, "thorough": 7200},
    "rule": "each case is a HISTORY over a scratch directory with five interdependent files (root.zy importing a.zy / b.zy / c.zy in nine variants - plain, self-contained Builtin executable exiting with a.zy + b.zy, executable over the whole surface prelude, non-exhaustive match, local type error, syntax error, no imports -; a.zy with its optional companion a.zyi; b.zy importing a.zy (diamond), root.zy (cycle) or c.zy; c.zy importing b.zy; every file also absent, a syntax error, or a value of the wrong type): an initial disk state plus operations set_overlay, clear_overlay, write + refresh_disk, delete + refresh_disk, write / delete + clear_overlay, bare refresh_disk and queries (graph, analyze, reports, coverage, per-node facts = annotation_of_def / type_definition_of_def / annotation_of_term / normalized_type printed against materialize_arena, executable_program + run) on any of four roots, optionally through a snapshot(). Streams: ~3,900 scripted risky shapes (file looked up while absent then created / overlaid / removed, overlay before first lookup, overlay identical to disk, A -> B -> A by overlay and on disk, disk change under an overlay, disk change announced by clear_overlay only, imported file deleted and restored, cycle introduced and removed, two roots alternating around unrelated edits so that the lru = 1 check memo is evicted between analyze and executable_program); all histories of 3 (quick) / 4 (thorough) edits over two 10-11 operation alphabets from five initial states with a query after every edit; random histories of 6-24 and 25-60 operations concentrating on two roots, with reverts to earlier contents; histories with the prelude root; histories whose queries go through snapshots. ORACLE: at every query, and for all 24 (root, query) pairs at the end of every history, the long-lived session's rendered answer must equal the answer of a CompilerSession::default() that was given exactly the current overlays over the same directory (graph shape with ordered import targets and spans, signature edges, provider order, load error text; verdict, every rendered diagnostic with its span, source texts, fact listings with source locations, exit code and output); arena identities are masked. A difference is shrunk by deleting operations and reported with the replayable history. MODEL: after every history the effective text of every file, as far as graph() shows it, is compared with the Lean model of the input side (`c15 eff`). Non-trivial = distinct histories containing at least one edit.",
    "explanation": "Kernel-checked: on the input side (files map created lazily from the disk at first lookup, overlays, refresh_disk, clear_overlay re-reading the disk) the long-lived session shows for every path exactly what a fresh session over the final disk and the same overlays shows, after EVERY history in which each disk change is followed by refresh_disk or clear_overlay of that path (induction over the history with the invariant that every known input's disk text is current; lookups are proved invisible); and a revisioned memo table with recorded dependencies, verified-at stamps and eviction at any time answers every query with the from-scratch result after ANY history, provided the recorded dependencies are all the computation reads (the hypothesis whose failure is exactly a missed invalidation; a Demo example shows the stale answer when it fails). The salsa storage and the checker are not modelled: that every query of query.rs records what it reads is decided by the differential oracle against a fresh session on every history.",
    "trusted_base": [KERNEL, AXIOMS, HARNESS,
                     "modelled, not verified: CompilerSession::{source_input, set_overlay, refresh_disk, clear_overlay} and source_text (lang/session/src/source/query.rs) are mirrored by ZV/Model/Session.lean and compared on every history through the texts graph() reports",
                     "NOT modelled: the salsa runtime (revisions, dependency recording, LRU), the tracked queries of session/query.rs and statics/query.rs, the checker; ZV/Model/Memo.lean is a generic memo table whose hypothesis ReadsRecorded stands for 'every read of a query goes through a tracked input' - only the differential oracle can show a query violating it",
                     "the fresh session is the reference: a defect that a fresh session shares (a wrong answer that does not depend on history) is invisible here and belongs to the other properties",
                     "the harness's fresh-oracle cache (answers keyed by effective contents + which files exist on disk; one hit in eight recomputed and compared; every reported difference is re-run without the cache)"],
    "assumptions": ["every disk change is announced to the session by refresh_disk or clear_overlay of that path before the next operation (the well-formedness predicate WF of the model; the harness generates only such histories)",
                    "histories are sequential: a snapshot is dropped before the next edit (salsa blocks a write while a snapshot is alive)"],
}
props["C15"]["manifest"] = {
    "text": "Differential check of a long-lived CompilerSession against a fresh one: scripted, small-exhaustive and random edit histories (overlays, disk writes / deletes with refresh, clears, snapshots) over five interdependent files with valid, ill-typed, syntactically broken, cyclic and missing variants; after every query and for every (root, query) pair at the end of each history the rendered graph, verdict, diagnostics with locations, per-node facts and run outcome must equal those of a fresh session given the same overlays; differences are shrunk to a minimal replayable history. Lean: the input side (lazy creation, overlay, refresh) is modelled and proved equal to a fresh session after every well-formed history, and a revisioned memo table with recorded dependencies and arbitrary eviction is proved to answer every query from scratch; the model's effective texts are compared with the real session after every history.",
    "note": "Proof covers the input side and an abstract memo table; that the real tracked queries record every read is decided by the differential search, not by a theorem. Findings on the pinned tree: (1) the identity of a path that does not exist ends in a separator, so refresh_disk of a file that was first looked up while absent (every companion .zyi is) fails with ENOTDIR once the file exists and the session never sees it; (2) snapshot() deep-copies the path -> input map, so inputs first created inside a snapshot are unknown to the session, and a later overlay or refresh of such a file creates a second input that memoised graphs do not depend on.",
    "technique": "history-based differential testing against a fresh session (scripted + bounded-exhaustive + random, with shrinking) + Lean theorems on a model of the input side and on a revisioned memo table + model/implementation correspondence of effective texts",
}


props["C16"] = {
    "harness": "c16",
    "level": "other",
    "needs_cli": True,
    "nontrivial": r"^# c16_(check|run|zir|zasm|asm|llvm|fmt-check)_",
    "extra_eval_counters": ["processes"],
    "timeout": {"quick": 1500, "thorough": 7200},
    "rule": "the zydeco binary is rebuilt from the current tree; a seeded stride through the repository's sources (36 quick / 240 thorough files, accepted and rejected) plus six synthetic programs built to provoke hash-order effects (several coverage errors, duplicate binders inside one pattern, many unsolved holes, several unbound names, a three-way recursive type group, independent definitions with scrambled names) are each run through check, run, fmt --check and build --target zir|zasm|asm|llvm in 6 (quick) / 12 (thorough) fresh processes; exit status, stdout and stderr must be byte-identical. Each (command, file) pair is one case; evaluations also counts the processes.",
    "explanation": "Kernel-checked: the discipline that makes an emitter independent of hash iteration order (sorting by an injective key gives one sequence for every permutation, hence one emitted text) and the scheduler-independence of block elaboration order (C08). The property's main content - no hash order, address or scheduling leaks into any output of the real tool - lives in the running processes; the decisive evidence is the repetition of fresh processes. One such leak on the pinned tree (Stack IR builtin table) was repaired by a fix: commit.",
    "trusted_base": [KERNEL, AXIOMS, HARNESS,
                     "NOT modelled: process-level sources of nondeterminism other than hash order (addresses, time, thread scheduling); only the repetition can show them"],
    "assumptions": ["fresh processes get fresh SipHash keys and ASLR (std RandomState; kernel default)"],
}
props["C16"]["manifest"] = {
    "text": "Partial by nature: theorems cover order-independence of sorted emission and of block elaboration; byte-identity of the real tool's output across fresh processes is explored by repetition (7 commands x files x processes) with replay of any differing pair. The hash-order leak found on the pinned tree (zir/asm declaration order) was fixed.",
    "note": "Level `other`: the kernel-checked part does not carry the property. Trusted: the harness; process repetition explores, it does not prove.",
    "technique": "Lean theorems on sorted emission and scheduler-independent ordering + N-process byte comparison of every CLI command",
}

PROGRAM_RULE = "(1) every repository source that check accepts as an executable (154 programs, most of them over the whole standard library) is linked by the real BuiltinRootLinker, the linked DynamicsProgram is serialised, the real Runtime is driven one public Eval::step at a time under a fuel bound with catch_unwind (a panic is classified into the stuck kinds of eval.rs/impls.rs, the arithmetic trap, or a host failure), and the Lean CK machine runs the same serialised program: outcome and output bytes are compared. (2) type-directed generated ZCore programs (nominal recursive data, codata, products, thunks, higher-order functions, fix, all of arith/compare/to_string at four integer widths, strings, write_line/exit; pairwise distinct literals and a digest of every bound integer and string; sizes 8-40) are printed as Zydeco source over the real lib/std/builtin.zy and as a token stream: the real pipeline's verdict, output and exit code are compared with the Lean ZCore model (checker + erasure + machine), and the real linked program is also run on the Lean machine. (3) two typed mutants per program from seven operators (argument type, returned type, unknown constructor, dropped arm, unknown destructor, branch type, non-integer operand) must be rejected by the real checker with the error class the model predicts; an accepted mutant is reported and run. Non-trivial = distinct requests."
PROGRAM_TB = [KERNEL, AXIOMS, HARNESS,
    "modelled, not verified: lang/dynamics/src/eval.rs (the CK machine, Assign, product flattening) is mirrored by ZV/Model/Machine.lean and compared step-budget for step-budget on every run; link.rs erasure is modelled on the ZCore fragment by ZV.ZCore.eraseC and tied behaviourally; the real checker (inference holes, F-omega normalisation, sealing, existential escape checks, copattern elaboration, packages) is compared with the model checker on the generated fragment, not proved sound",
    "host operations: ZV/Model/Host.lean (C06)"]
props["C01"] = {
    "harness": "c01", "level": "proof", "nontrivial": r"^(ck|zc) run ",
    "timeout": {"quick": 2700, "thorough": 10800},
    "rule": PROGRAM_RULE,
    "explanation": "Type safety is proved on the model: the statement `accepted_never_stuck` (every program the ZCore checker accepts never reaches an undefined state of the mirrored CK machine, for every input and every finite prefix) is kept in ZV/Props/C01Statements.lean and proved in ZV/Props/C01.lean when listed under `theorems`. The mirror machine is tied to eval.rs by running both on the same linked programs (all executable repository programs and generated ones); the model checker is tied to the real checker by acceptance/rejection classes on generated programs and typed mutants; every accepted program is run under the stuck-state monitor.",
    "trusted_base": PROGRAM_TB,
    "assumptions": ["programs outside ZCore (polymorphism, existentials, packages, blocks) are covered by the execution correspondence and the stuck-state monitor only"],
}
props["C01"]["manifest"] = {
    "text": "The interpreter (eval.rs) is mirrored as a Lean CK machine whose undefined states are explicit, and validated against the real Runtime on every executable repository program and on generated programs (same linked program, same outcome and output). Type safety of accepted programs (checker sound, an accepted program never reaches a stuck state at any step count, an OS program that halts does so by exit or trap) is proved for ZCore (typed CBPV core: data, codata, products, thunks, functions, fix, integer and string primitives) over that machine; the real checker is tied to the ZCore checker by verdict classes on generated programs and typed mutants, and every accepted program runs under a stuck-state monitor. The same monitor runs every shape-preserving mutant of the executable repository programs (one name, constructor, destructor or literal replaced by another of the same lexical shape, or a literal changing its kind) that the checker still accepts, which reaches the rules for polymorphism, parametrised data, records and packages that ZCore lacks.",
    "note": "Trusted: Lean kernel and the three standard axioms; the harness/driver. The real 8,200-line checker is compared with the model checker on the generated fragment, not proved sound; features outside ZCore are covered by execution correspondence and the monitor only.",
    "technique": "Lean CK-machine mirror + progress/preservation-style safety theorem on a typed core + three-way differential correspondence (real interpreter, Lean machine on the real linked program, Lean typed model) + typed mutants",
}
props["C02"] = {
    "model_oracle_prefixes": ["zc run "],
    "harness_args": ["--skip-corpus-mutants"],
    "harness": "c01", "level": "proof", "nontrivial": r"^(ck|zc) run ",
    "timeout": {"quick": 1500, "thorough": 7200},
    "rule": PROGRAM_RULE,
    "explanation": "The reference call-by-push-value semantics (big-step, environments, ZV.ZCore.evalRC) and the statements relating it to the mirrored machine after erasure (ref_to_machine, machine_to_ref, product flattening, fuel monotonicity) are kept in ZV/Props/C02Statements.lean and proved in ZV/Props/C02.lean when listed under `theorems`. The glue the theorems do not cover (desugaring of spines, binding sugar, copattern and block elaboration, real erasure) is covered by the end-to-end run of every generated program through the whole real pipeline against the model's result.",
    "trusted_base": PROGRAM_TB,
    "assumptions": ["host reads/writes go through in-memory streams; real file descriptors are not in the model"],
}
props["C02"]["manifest"] = {
    "text": "Observable behaviour (output bytes, exit code / trap) of the real pipeline equals the Lean model's on every generated ZCore program and the mirrored machine equals the real interpreter on every executable repository program; a reference big-step CBPV semantics is defined independently of the machine, and both directions of agreement between it and the machine run on the type-erased program (same exit code or trap, same output bytes), that the reference semantics of an accepted program never goes wrong, fuel monotonicity and the product-field round trip are kernel-checked theorems for every ZCore program.",
    "note": "Trusted: Lean kernel and the three standard axioms; the harness/driver. Desugarer, resolver and checker elaboration are exercised end to end, not modelled.",
    "technique": "Lean reference semantics + simulation theorem against the mirrored CK machine + end-to-end behavioural correspondence with order-sensitive generated programs",
}
props["C03"] = {
    "harness": "c01", "level": "proof", "nontrivial": r"^zc run ",
    "harness_args": ["--skip-corpus-mutants"],
    "timeout": {"quick": 1500, "thorough": 7200},
    "rule": PROGRAM_RULE,
    "explanation": "The declared typing rules of the core language are an inductive relation (ZV.ZCore.HasTyC); the statements that the model checker is sound and complete for them, that types are unique and that whatever it rejects has no derivation are kept in ZV/Props/C03Statements.lean and proved in ZV/Props/C03.lean when listed under `theorems`. The model checker is tied to the real checker by comparing accept / reject-with-class on every generated well-typed program and every typed mutant.",
    "trusted_base": PROGRAM_TB,
    "assumptions": ["features outside ZCore (monadic blocks, package-dependent arrows, manifest kinds, polymorphism, existentials) are not covered by C03's model; generated programs are fully annotated"],
}
props["C03"]["manifest"] = {
    "text": "On the ZCore fragment the checker's verdict is compared, program by program, with a Lean checker that is stated (and proved, as listed in the evidence) to decide exactly the declared rules: every generated well-typed program must be accepted and every typed mutant rejected with the predicted error class. Type equality under binders (lub.rs's level discipline) is mirrored separately and proved to decide exactly alpha-equivalence for all pairs of types; generated pairs of polymorphic types (renamed, one variable occurrence swapped, one leaf changed) are put where the checker must compare them - directly, under abstract types of an enclosing function, and through a transparent alias seen both as a function's annotation and inside its body. The same mirror covers structural data and codata types (arms looked up by name): proved to decide equivalence up to the order of arms on declarations without repeated names, with generated declaration pairs under ten mutation kinds; probes cover what lies outside both models (labelled products, literal kinds at every primitive type, catch-all arms at sealed types, synthesis positions, existential witnesses).",
    "note": "Trusted: Lean kernel and the three standard axioms; the harness/driver. The correspondence, not a proof, relates the real 8,200-line checker to the model checker.",
    "technique": "Lean declarative typing + sound/complete executable checker + acceptance correspondence on generated programs and typed mutants",
}
