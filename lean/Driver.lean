/- `zvdriver`: one request per line on stdin, one canonical answer per line on stdout.
   Imports only model files (core Lean), so it links as a native executable. -/
import ZV.Driver.C04
import ZV.Driver.C05
import ZV.Driver.C06
import ZV.Driver.C08
import ZV.Driver.C09
import ZV.Driver.C10
import ZV.Driver.C11
import ZV.Driver.C12
import ZV.Driver.C13
import ZV.Driver.Lub
import ZV.Driver.CK
import ZV.Driver.ZCore
import ZV.Driver.Sps
import ZV.Driver.C15
import ZV.Driver.Grouping

def dispatch (line : String) : String :=
  match line.trimAscii.toString.splitOn " " with
  | "c04" :: ws => ZV.Driver.C04.handle ws
  | "c05" :: ws => ZV.Driver.C05.handle ws
  | "c06" :: ws => ZV.Driver.C06.handle ws
  | "c08" :: ws => ZV.Driver.C08.handle ws
  | "c09" :: ws => ZV.Driver.C09.handle ws
  | "c10" :: ws => ZV.Driver.C10.handle ws
  | "lub" :: ws => ZV.Driver.Lub.handle ws
  | "zc" :: ws => ZV.Driver.ZCore.handle ws
  | "c12" :: ws => ZV.Driver.C12.handle ws
  | "c13" :: ws => ZV.Driver.C13.handle ws
  | "ck" :: ws => ZV.Driver.CK.handle ws
  | "c11" :: ws => ZV.Driver.C11.handle ws
  | "c15" :: ws => ZV.Driver.C15.handle ws
  | "sps" :: ws => ZV.Driver.Sps.handle ws
  | "grp" :: ws => ZV.Driver.Grouping.handle ws
  | _ => "bad-op"

partial def loop (h : IO.FS.Stream) (out : IO.FS.Stream) : IO Unit := do
  let line ← h.getLine
  if line.isEmpty then return ()
  out.putStrLn (dispatch line)
  loop h out

def main : IO Unit := do
  let out ← IO.getStdout
  loop (← IO.getStdin) out
  out.flush
