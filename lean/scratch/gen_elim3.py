import re
# (name, [(type, pattern-format)])
S=("List Char",".str {v}"); C=("Char",".chr {v}"); I=("BitVec IntTy.i64.width",".int .i64 {v}")
T=("Nat",".thunk {v}"); B=("Bytes",".bytes {v}"); R=("Nat",".reader {v}"); W=("Nat",".writer {v}")
A=("HV","{v}")
arms = [
 ("str_scalar_length", [S]),
 ("str_byte_length", [S]),
 ("str_append", [S,S]),
 ("str_split_once", [S,C,T,T]),
 ("str_split_at", [S,I,T,T]),
 ("str_eq", [S,S,T,T]),
 ("str_get", [S,I,T,T]),
 ("char_to_str", [C]),
 ("char_codepoint", [C]),
 ("char_from_codepoint", [I,T,T]),
 ("str_parse_int", [S,T,T]),
 ("bytes_empty", None),
 ("bytes_length", [B]),
 ("bytes_append", [B,B]),
 ("bytes_from_str", [S]),
 ("bytes_to_str", [B,T,T]),
 ("stdin", None),
 ("stdout", None),
 ("stderr", None),
 ("io_read", [R,I,T,T]),
 ("io_read_line", [R,T,T,T]),
 ("io_read_all", [R,T,T]),
 ("io_write_all", [W,B,T,T]),
 ("io_flush", [W,T,T]),
 ("io_close_reader", [R,T,T]),
 ("io_close_writer", [W,T,T]),
 ("fs_open_reader", [S,T,T]),
 ("fs_create_writer", [S,T,T]),
 ("fs_append_writer", [S,T,T]),
 ("write_str", [S,T]),
 ("write_int", [I,T]),
 ("write_line", [S,T]),
 ("read_line", [T]),
 ("read_line_as_int", [T,T]),
 ("read_till_eof", [T]),
 ("arg_list", [T,T]),
 ("random_int", [A]),
 ("exit", [I]),
]
abis={}
for line in open('/tmp/c06p/lean/ZV/Generated/Roles.lean'):
    m=re.search(r'source := "([a-z_0-9]+)".*abi := (.*) \},?\s*$', line)
    if m: abis[m.group(1)]=m.group(2)
out=[]
out.append("/-- Position of a role among the arms of `hostOp`'s big match (`0`: none, the numeric fall-through). -/")
out.append("def armIndex (role : String) : Nat :=")
for i,(n,_) in enumerate(arms,1):
    out.append(f"  {'if' if i==1 else 'else if'} role = \"{n}\" then {i}")
out.append("  else 0")
out.append("")
out.append("/-- The classifier each non-numeric arm was proved against (checked against the regenerated table")
out.append("in `ZV/Props/C06.lean`). -/")
out.append("def armAbi : Nat → Option VC")
for i,(n,_) in enumerate(arms,1):
    out.append(f"  | {i} => some {abis[n]}")
out.append("  | _ => none")
out.append("")
out.append('''/-- Do the arguments have the classes the arm for `role` was proved against? -/
def shapeMatch (role : String) (args : List HV) : Bool :=
  match (armAbi (armIndex role)).bind VC.opParams with
  | some ps => argsHaveClass args ps
  | none => false

theorem shapeMatch_of_index {role : String} {args : List HV} {k : Nat} {b : Bool} (hi : armIndex role = k)
    (h : (match (armAbi k).bind VC.opParams with
      | some ps => argsHaveClass args ps
      | none => false) = b) : shapeMatch role args = b := by
  unfold shapeMatch; rw [hi]; exact h

/-- Case analysis on the remaining argument pattern of one arm of `hostOp`'s big match. -/
syntax "zv_peel_arm " term:max ident ident : tactic
macro_rules
  | `(tactic| zv_peel_arm $H:term $F:ident $hi:ident) => `(tactic|
      repeat' (first
        | exact $F (shapeMatch_of_index $hi rfl) _ _
        | exact $H
        | cases ‹IntTy›
        | cases ‹HV›
        | cases ‹List HV›))
''')
out.append("/-- Elimination principle for `hostOp`'s big match: a property holds of the result if it holds of")
out.append("every arm; the arms know which role and argument shape selected them, the fall-through arm knows")
out.append("that no special role with well-classified arguments selected it. -/")
out.append("theorem match20_elim {α : Type} (P : α → Prop) (role : String) (args : List HV)")
for i,(n,ts) in enumerate(arms,1):
    tys = ["Unit"] if ts is None else [t for t,_ in ts]
    out.append(f"    (h_{i} : {' → '.join(tys)} → α)")
out.append("    (h_39 : String → List HV → α)")
for i,(n,ts) in enumerate(arms,1):
    if ts is None:
        out.append(f"    (H_{i} : armIndex role = {i} → role = \"{n}\" → ∀ x0, args = [] → P (h_{i} x0))")
    else:
        vs=' '.join(f"x{j}" for j in range(len(ts)))
        pat=', '.join(p.format(v=f"x{j}") for j,(t,p) in enumerate(ts))
        out.append(f"    (H_{i} : armIndex role = {i} → role = \"{n}\" → ∀ {vs}, args = [{pat}] → P (h_{i} {vs}))")
out.append("    (H_39 : shapeMatch role args = false → ∀ x y, P (h_39 x y)) :")
hs=' '.join(f"h_{i}" for i in range(1,40))
out.append(f"    P (hostOp.match_20 (fun _ _ => α) role args {hs}) := by")
out.append("  unfold hostOp.match_20")
for i,(n,ts) in enumerate(arms,1):
    k = 1 if ts is None else len(ts)
    negs=', '.join([f"if_neg c{j}" for j in range(1,i)]+[f"if_pos c{i}"])
    out.append(f"  by_cases c{i} : role = \"{n}\"")
    out.append(f"  · have hi : armIndex role = {i} := by unfold armIndex; rw [{negs}]")
    out.append(f"    rw [dif_pos c{i}]; subst c{i}; peel (H_{i} hi rfl {' '.join(['_']*k)} rfl) H_39 hi")
    out.append(f"  rw [dif_neg c{i}]")
negs=', '.join([f"if_neg c{j}" for j in range(1,39)])
out.append(f"  have hi : armIndex role = 0 := by unfold armIndex; rw [{negs}]")
out.append("  exact H_39 (shapeMatch_of_index hi rfl) _ _")
print('\n'.join(out))
