/-
Proofs for C03, type equality under binders: the level discipline of `lubEq` decides exactly
equality of the nameless forms.  The key observation is that the context reached below a stack of
binders is a function of that stack (`mk`), and that looking an identity up in it returns the level
of its first (innermost) occurrence, which is what `List.idxOf?` computes for `toDB`.
The general statement (`lubEq_iff_toDB`) needs no naming discipline at all.
-/
import ZV.Props.C03LubStatements

namespace ZV.Lub

/-- the identity-to-level map reached under a stack of binders (innermost first) -/
def mk : List Nat → List (Nat × Nat)
  | [] => []
  | x :: env => (x, env.length) :: mk env

/-- the context reached under two stacks of binders -/
def ctxOf (envL envR : List Nat) : Ctx :=
  { level := envL.length, lhs := mk envL, rhs := mk envR }

theorem ctxOf_nil : ctxOf [] [] = {} := rfl

theorem ctxOf_insert (envL envR : List Nat) (h : envL.length = envR.length) (x y : Nat) :
    (ctxOf envL envR).insert x y = ctxOf (x :: envL) (y :: envR) := by
  simp [ctxOf, Ctx.insert, mk, h]

theorem idxOf?_lt {env : List Nat} {x i : Nat} (h : env.idxOf? x = some i) : i < env.length := by
  induction env generalizing i with
  | nil => simp [List.idxOf?] at h
  | cons y env ih =>
    rw [List.idxOf?_cons] at h
    split at h
    · simp at h; subst h; simp
    · cases h' : env.idxOf? x with
      | none => simp [h'] at h
      | some j =>
        have := ih h'
        simp [h'] at h
        simp; omega

theorem lookup_mk (env : List Nat) (x : Nat) :
    lookup (mk env) x = (env.idxOf? x).map (fun i => env.length - 1 - i) := by
  induction env with
  | nil => simp [lookup, mk, List.idxOf?]
  | cons y env ih =>
    rw [List.idxOf?_cons]
    by_cases hyx : y = x
    · subst hyx
      simp [lookup, mk]
    · have hb : (y == x) = false := by simpa using hyx
      have ih' := ih
      simp only [lookup] at ih'
      simp only [lookup, mk, List.find?_cons, hb]
      rw [ih']
      cases h' : env.idxOf? x with
      | none => simp
      | some j =>
        have := idxOf?_lt h'
        simp
        omega

theorem var_case (envL envR : List Nat) (h : envL.length = envR.length) (a b : Nat) :
    lubEq (ctxOf envL envR) (.var a) (.var b) = true ↔ toDB envL (.var a) = toDB envR (.var b) := by
  simp only [lubEq, toDB, ctxOf, lookup_mk]
  cases hl : envL.idxOf? a with
  | none =>
    cases hr : envR.idxOf? b with
    | none => simp
    | some j => simp
  | some i =>
    cases hr : envR.idxOf? b with
    | none => simp
    | some j =>
      have h1 := idxOf?_lt hl
      have h2 := idxOf?_lt hr
      simp
      omega

/-- The general statement: below any two binder stacks of equal length, the comparison succeeds
iff the nameless forms are equal.  No naming discipline is needed: later insertions win in the
maps just as inner binders shadow outer ones in `toDB`. -/
theorem lubEq_iff_toDB (a b : Ty) (envL envR : List Nat) (h : envL.length = envR.length) :
    lubEq (ctxOf envL envR) a b = true ↔ toDB envL a = toDB envR b := by
  induction a generalizing b envL envR with
  | var x =>
    cases b with
    | var y => exact var_case envL envR h x y
    | _ => simp [lubEq, toDB] <;> (split <;> simp)
  | int => cases b <;> simp [lubEq, toDB] <;> (split <;> simp)
  | str => cases b <;> simp [lubEq, toDB] <;> (split <;> simp)
  | unit => cases b <;> simp [lubEq, toDB] <;> (split <;> simp)
  | prod a1 a2 ih1 ih2 =>
    cases b with
    | prod b1 b2 => simp [lubEq, toDB, ih1 b1 envL envR h, ih2 b2 envL envR h]
    | var y => simp [lubEq, toDB]; split <;> simp
    | _ => simp [lubEq, toDB]
  | arr a1 a2 ih1 ih2 =>
    cases b with
    | arr b1 b2 => simp [lubEq, toDB, ih1 b1 envL envR h, ih2 b2 envL envR h]
    | var y => simp [lubEq, toDB]; split <;> simp
    | _ => simp [lubEq, toDB]
  | thk a1 ih1 =>
    cases b with
    | thk b1 => simp [lubEq, toDB, ih1 b1 envL envR h]
    | var y => simp [lubEq, toDB]; split <;> simp
    | _ => simp [lubEq, toDB]
  | ret a1 ih1 =>
    cases b with
    | ret b1 => simp [lubEq, toDB, ih1 b1 envL envR h]
    | var y => simp [lubEq, toDB]; split <;> simp
    | _ => simp [lubEq, toDB]
  | all k x body ih =>
    cases b with
    | all k' x' body' =>
      have h' : (x :: envL).length = (x' :: envR).length := by simp [h]
      simp [lubEq, toDB, ctxOf_insert envL envR h, ih body' (x :: envL) (x' :: envR) h']
    | var y => simp [lubEq, toDB]; split <;> simp
    | _ => simp [lubEq, toDB]
  | ex k x body ih =>
    cases b with
    | ex k' x' body' =>
      have h' : (x :: envL).length = (x' :: envR).length := by simp [h]
      simp [lubEq, toDB, ctxOf_insert envL envR h, ih body' (x :: envL) (x' :: envR) h']
    | var y => simp [lubEq, toDB]; split <;> simp
    | _ => simp [lubEq, toDB]

/-- top level, unconditionally -/
theorem lubEq_iff_alphaEq (a b : Ty) : lubEq {} a b = true ↔ alphaEq a b = true := by
  have := lubEq_iff_toDB a b [] [] rfl
  rw [ctxOf_nil] at this
  simp [alphaEq, this]

theorem lub_iff_alpha_pf : ZV.Props.C03.LubStatement.lub_iff_alpha :=
  fun a b _ _ _ _ => lubEq_iff_alphaEq a b

theorem lub_refl_pf : ZV.Props.C03.LubStatement.lub_refl := by
  intro a _
  rw [lubEq_iff_alphaEq]
  simp [alphaEq]

theorem alpha_equiv_pf : ZV.Props.C03.LubStatement.alpha_equiv := by
  refine ⟨?_, ?_, ?_⟩
  · intro a; simp [alphaEq]
  · intro a b h
    simp only [alphaEq, beq_iff_eq] at h ⊢
    exact h.symm
  · intro a b c h1 h2
    simp only [alphaEq, beq_iff_eq] at h1 h2 ⊢
    exact h1.trans h2

theorem permuted_binders_differ_pf : ZV.Props.C03.LubStatement.permuted_binders_differ := by
  intro k₁ k₂ x y x' y' hxy _
  have hb : (y == x) = false := by simpa using (Ne.symm hxy)
  simp [lubEq, Ctx.insert, lookup, hb]

theorem bound_vs_free_differ_pf : ZV.Props.C03.LubStatement.bound_vs_free_differ := by
  intro k x y a hay
  have hb : (y == a) = false := by simpa using (Ne.symm hay)
  simp [lubEq, Ctx.insert, lookup, hb]

end ZV.Lub

#print axioms ZV.Lub.lub_iff_alpha_pf
#print axioms ZV.Lub.lub_refl_pf
#print axioms ZV.Lub.alpha_equiv_pf
#print axioms ZV.Lub.permuted_binders_differ_pf
#print axioms ZV.Lub.bound_vs_free_differ_pf
