/-
Proofs for C03, type equality under binders and of structural declarations: the level discipline
of `lubEq` together with its by-name comparison of arms decides exactly equality of the nameless
forms.  Two observations: (1) the context reached below a stack of binders is a function of that
stack (`mk`), and looking an identity up in it returns the level of its first (innermost)
occurrence, which is what `List.idxOf?` computes for `toDB`; (2) a declaration without repeated
names is a finite map from names to types, the loop of the code establishes agreement of the two
maps (equal number of arms + every left name found on the right + no repeated names = same set of
names), and the sorted nameless form of a declaration is a normal form of that map.
The statement under binders (`lubEq_iff_toDB`) needs no naming discipline for variables; it needs
`WF` (no repeated names) on both sides.
-/
import ZV.Props.C03LubStatements

namespace ZV.Lub

/-- the identity-to-level map reached under a stack of binders (innermost first) -/
def mk : List Nat → List (Nat × Nat)
  | [] => []
  | x :: env => (x, env.length) :: mk env

/-- the context reached under two stacks of binders -/
def ctxOf (envL envR : List Nat) : Ctx :=
  { level := envL.length, lhs := mk envL, rhs := mk envR }

theorem ctxOf_nil : ctxOf [] [] = {} := rfl

theorem ctxOf_insert (envL envR : List Nat) (h : envL.length = envR.length) (x y : Nat) :
    (ctxOf envL envR).insert x y = ctxOf (x :: envL) (y :: envR) := by
  simp [ctxOf, Ctx.insert, mk, h]

theorem idxOf?_lt {env : List Nat} {x i : Nat} (h : env.idxOf? x = some i) : i < env.length := by
  induction env generalizing i with
  | nil => simp [List.idxOf?] at h
  | cons y env ih =>
    rw [List.idxOf?_cons] at h
    split at h
    · simp at h; subst h; simp
    · cases h' : env.idxOf? x with
      | none => simp [h'] at h
      | some j =>
        have := ih h'
        simp [h'] at h
        simp; omega

theorem lookup_mk (env : List Nat) (x : Nat) :
    lookup (mk env) x = (env.idxOf? x).map (fun i => env.length - 1 - i) := by
  induction env with
  | nil => simp [lookup, mk, List.idxOf?]
  | cons y env ih =>
    rw [List.idxOf?_cons]
    by_cases hyx : y = x
    · subst hyx
      simp [lookup, mk]
    · have hb : (y == x) = false := by simpa using hyx
      have ih' := ih
      simp only [lookup] at ih'
      simp only [lookup, mk, List.find?_cons, hb]
      rw [ih']
      cases h' : env.idxOf? x with
      | none => simp
      | some j =>
        have := idxOf?_lt h'
        simp
        omega

theorem var_case (envL envR : List Nat) (h : envL.length = envR.length) (a b : Nat) :
    lubEq (ctxOf envL envR) (.var a) (.var b) = true ↔ toDB envL (.var a) = toDB envR (.var b) := by
  simp only [lubEq, toDB, ctxOf, lookup_mk]
  cases hl : envL.idxOf? a with
  | none =>
    cases hr : envR.idxOf? b with
    | none => simp
    | some j => simp
  | some i =>
    cases hr : envR.idxOf? b with
    | none => simp
    | some j =>
      have h1 := idxOf?_lt hl
      have h2 := idxOf?_lt hr
      simp
      omega

/-! ### declarations as finite maps -/

theorem Arms.names_eq_map : ∀ as : Arms, as.names = as.toList.map (·.1)
  | .nil => rfl
  | .cons n t rest => by simp [Arms.names, Arms.toList, Arms.names_eq_map rest]

theorem Arms.length_eq : ∀ as : Arms, as.length = as.names.length
  | .nil => rfl
  | .cons n t rest => by simp [Arms.names, Arms.length, Arms.length_eq rest]

theorem Arms.get_eq_none : ∀ (as : Arms) (m : Nat), as.get m = none ↔ m ∉ as.names
  | .nil, m => by simp [Arms.get, Arms.names]
  | .cons n t rest, m => by
    have ih := Arms.get_eq_none rest m
    simp only [Arms.get, Arms.names]
    split <;> simp_all

theorem Arms.mem_of_get : ∀ (as : Arms) (m : Nat) (t : Ty), as.get m = some t → (m, t) ∈ as.toList
  | .nil, m, t => by simp [Arms.get]
  | .cons n u rest, m, t => by
    have ih := Arms.mem_of_get rest m t
    simp only [Arms.get, Arms.toList]
    split
    · intro h; simp_all
    · intro h; simp [ih h]

theorem Arms.mem_names_of_mem {as : Arms} {m : Nat} {t : Ty} (h : (m, t) ∈ as.toList) : m ∈ as.names := by
  rw [Arms.names_eq_map]
  exact List.mem_map.2 ⟨(m, t), h, rfl⟩

theorem Arms.get_of_mem : ∀ (as : Arms) (m : Nat) (t : Ty), as.names.Nodup → (m, t) ∈ as.toList →
    as.get m = some t
  | .nil, m, t => by simp [Arms.toList]
  | .cons n u rest, m, t => by
    intro hn hm
    have ih := Arms.get_of_mem rest m t
    simp only [Arms.names, List.nodup_cons] at hn
    simp only [Arms.toList, List.mem_cons, Prod.mk.injEq] at hm
    simp only [Arms.get]
    rcases hm with ⟨rfl, rfl⟩ | hm
    · simp
    · have : m ≠ n := fun e => hn.1 (e ▸ Arms.mem_names_of_mem hm)
      simp [this, ih hn.2 hm]

theorem Arms.toList_ofList : ∀ l : List (Nat × Ty), (Arms.ofList l).toList = l
  | [] => rfl
  | (n, t) :: rest => by simp [Arms.ofList, Arms.toList, Arms.toList_ofList rest]

theorem WFArms_iff : ∀ as : Arms, WFArms as = true ↔ as.names.Nodup ∧ ∀ p ∈ as.toList, WF p.2 = true
  | .nil => by simp [WFArms, Arms.names, Arms.toList]
  | .cons n t rest => by
    have ih := WFArms_iff rest
    simp only [WFArms, Arms.names, Arms.toList, Bool.and_eq_true, ih, List.nodup_cons,
      List.mem_cons, forall_eq_or_imp]
    simp
    constructor
    · rintro ⟨⟨h1, h2⟩, h3, h4⟩; exact ⟨⟨h1, h3⟩, h2, h4⟩
    · rintro ⟨⟨h1, h3⟩, h2, h4⟩; exact ⟨⟨h1, h2⟩, h3, h4⟩

theorem WF_of_get {as : Arms} {m : Nat} {t : Ty} (h : WFArms as = true) (hg : as.get m = some t) :
    WF t = true :=
  ((WFArms_iff as).1 h).2 (m, t) (Arms.mem_of_get as m t hg)

theorem DBArms.get_insert (n : Nat) (d : DB) : ∀ (ds : DBArms) (m : Nat),
    (DBArms.insert n d ds).get m = if m = n then some d else ds.get m
  | .nil, m => by simp [DBArms.insert, DBArms.get]
  | .cons k e rest, m => by
    have ih := DBArms.get_insert n d rest m
    simp only [DBArms.insert]
    split
    · simp [DBArms.get]
    · simp only [DBArms.get, ih]
      rename_i hle
      by_cases h1 : m = k
      · have h2 : ¬ m = n := by omega
        simp [h1]
        intro h3; omega
      · simp [h1]

theorem DBArms.mem_names_insert (n : Nat) (d : DB) : ∀ (ds : DBArms) (m : Nat),
    m ∈ (DBArms.insert n d ds).names ↔ m = n ∨ m ∈ ds.names
  | .nil, m => by simp [DBArms.insert, DBArms.names]
  | .cons k e rest, m => by
    have ih := DBArms.mem_names_insert n d rest m
    simp only [DBArms.insert]
    split
    · simp [DBArms.names]
    · simp only [DBArms.names, List.mem_cons, ih]
      constructor
      · rintro (h | h | h) <;> simp [h]
      · rintro (h | h | h) <;> simp [h]

theorem DBArms.get_eq_none : ∀ (ds : DBArms) (m : Nat), ds.get m = none ↔ m ∉ ds.names
  | .nil, m => by simp [DBArms.get, DBArms.names]
  | .cons n t rest, m => by
    have ih := DBArms.get_eq_none rest m
    simp only [DBArms.get, DBArms.names]
    split <;> simp_all

/-- names strictly increasing -/
def DBArms.Sorted : DBArms → Prop
  | .nil => True
  | .cons n _ rest => (∀ m ∈ rest.names, n < m) ∧ rest.Sorted

theorem DBArms.sorted_insert (n : Nat) (d : DB) : ∀ (ds : DBArms), ds.Sorted → n ∉ ds.names →
    (DBArms.insert n d ds).Sorted
  | .nil => by simp [DBArms.insert, DBArms.Sorted, DBArms.names]
  | .cons k e rest => by
    intro hs hn
    have ih := DBArms.sorted_insert n d rest hs.2
    simp only [DBArms.names, List.mem_cons, not_or] at hn
    simp only [DBArms.insert]
    split
    · rename_i hle
      refine ⟨?_, hs⟩
      intro m hm
      simp only [DBArms.names, List.mem_cons] at hm
      rcases hm with rfl | hm
      · omega
      · have := hs.1 m hm; omega
    · rename_i hle
      refine ⟨?_, ih hn.2⟩
      intro m hm
      rcases (DBArms.mem_names_insert n d rest m).1 hm with rfl | hm
      · omega
      · exact hs.1 m hm

/-- two declarations with strictly increasing names that agree as maps are equal -/
theorem DBArms.ext : ∀ (ds es : DBArms), ds.Sorted → es.Sorted → (∀ m, ds.get m = es.get m) → ds = es
  | .nil, .nil => by simp
  | .nil, .cons k e s => by
    intro _ _ h
    have := h k
    simp [DBArms.get] at this
  | .cons n d r, .nil => by
    intro _ _ h
    have := h n
    simp [DBArms.get] at this
  | .cons n d r, .cons k e s => by
    intro hd he h
    have hnr : n ∉ r.names := fun hm => Nat.lt_irrefl _ (hd.1 n hm)
    have hks : k ∉ s.names := fun hm => Nat.lt_irrefl _ (he.1 k hm)
    have hnk : n = k := by
      have h1 := h n
      have h2 := h k
      simp only [DBArms.get, if_true] at h1 h2
      by_cases hnk : n = k
      · exact hnk
      · have hkn : ¬ k = n := fun e => hnk e.symm
        simp only [hnk, hkn, if_false] at h1 h2
        -- n occurs in s and k occurs in r
        have hn : n ∈ s.names := by
          apply Classical.byContradiction; intro hc
          rw [(DBArms.get_eq_none s n).2 hc] at h1; simp at h1
        have hk : k ∈ r.names := by
          apply Classical.byContradiction; intro hc
          rw [(DBArms.get_eq_none r k).2 hc] at h2; simp at h2
        have := he.1 n hn
        have := hd.1 k hk
        omega
    subst hnk
    have hde : d = e := by
      have := h n
      simpa [DBArms.get] using this
    subst hde
    have hrs : r = s := by
      apply DBArms.ext r s hd.2 he.2
      intro m
      by_cases hm : m = n
      · subst hm
        rw [(DBArms.get_eq_none r m).2 hnr, (DBArms.get_eq_none s m).2 hks]
      · have := h m
        simpa [DBArms.get, hm] using this
    rw [hrs]

/-! ### the nameless form of a declaration -/

theorem get_toDBArms (env : List Nat) : ∀ (as : Arms) (m : Nat),
    (toDBArms env as).get m = (as.get m).map (toDB env)
  | .nil, m => by simp [toDBArms, DBArms.get, Arms.get]
  | .cons n t rest, m => by
    have ih := get_toDBArms env rest m
    simp only [toDBArms, DBArms.get_insert, Arms.get, ih]
    split <;> simp

theorem mem_names_toDBArms (env : List Nat) (as : Arms) (m : Nat) :
    m ∈ (toDBArms env as).names ↔ m ∈ as.names := by
  have h1 := DBArms.get_eq_none (toDBArms env as) m
  have h2 := Arms.get_eq_none as m
  rw [get_toDBArms] at h1
  simp only [Option.map_eq_none_iff] at h1
  constructor
  · intro h; apply Classical.byContradiction; intro hc; exact (h1.1 (h2.2 hc)) h
  · intro h; apply Classical.byContradiction; intro hc; exact (h2.1 (h1.2 hc)) h

theorem sorted_toDBArms (env : List Nat) : ∀ (as : Arms), as.names.Nodup → (toDBArms env as).Sorted
  | .nil => by simp [toDBArms, DBArms.Sorted]
  | .cons n t rest => by
    intro hn
    simp only [Arms.names, List.nodup_cons] at hn
    simp only [toDBArms]
    apply DBArms.sorted_insert _ _ _ (sorted_toDBArms env rest hn.2)
    rw [mem_names_toDBArms]
    exact hn.1

/-- equal nameless forms = equal as maps from names to nameless forms -/
theorem toDBArms_eq_iff (envL envR : List Nat) (as bs : Arms)
    (ha : as.names.Nodup) (hb : bs.names.Nodup) :
    toDBArms envL as = toDBArms envR bs ↔
      ∀ m, (as.get m).map (toDB envL) = (bs.get m).map (toDB envR) := by
  constructor
  · intro h m
    rw [← get_toDBArms, ← get_toDBArms, h]
  · intro h
    apply DBArms.ext _ _ (sorted_toDBArms envL as ha) (sorted_toDBArms envR bs hb)
    intro m
    rw [get_toDBArms, get_toDBArms, h]

/-- the pigeonhole step: a duplicate-free list of names inside a list that is not longer fills it -/
theorem subset_of_nodup_subset_length {l₁ l₂ : List Nat} (h₁ : l₁.Nodup) (hs : l₁ ⊆ l₂)
    (hl : l₂.length ≤ l₁.length) : l₂ ⊆ l₁ := by
  intro x hx
  apply Classical.byContradiction
  intro hc
  have hsub : l₁ ⊆ l₂.erase x := by
    intro y hy
    have hyx : y ≠ x := fun e => hc (e ▸ hy)
    exact (List.mem_erase_of_ne hyx).2 (hs hy)
  have := h₁.length_le_of_subset hsub
  have hlen : (l₂.erase x).length = l₂.length - 1 := by rw [List.length_erase]; simp [hx]
  have hpos : 1 ≤ l₂.length := List.length_pos_of_mem hx
  omega

/-- what the loop of the code establishes (left: number of arms and by-name lookups from the left
declaration) is agreement as maps (right), for declarations without repeated names -/
theorem arms_loop_iff (envL envR : List Nat) (as bs : Arms)
    (ha : as.names.Nodup) (hb : bs.names.Nodup) :
    (as.length = bs.length ∧
      ∀ n t, (n, t) ∈ as.toList → ∃ t', bs.get n = some t' ∧ toDB envL t = toDB envR t') ↔
      ∀ m, (as.get m).map (toDB envL) = (bs.get m).map (toDB envR) := by
  constructor
  · rintro ⟨hlen, hall⟩ m
    cases hg : as.get m with
    | some t =>
      obtain ⟨t', h1, h2⟩ := hall m t (Arms.mem_of_get as m t hg)
      simp [h1, h2]
    | none =>
      have hsub : as.names ⊆ bs.names := by
        intro n hn
        rw [Arms.names_eq_map] at hn
        obtain ⟨⟨n', t⟩, hp, rfl⟩ := List.mem_map.1 hn
        obtain ⟨t', h1, _⟩ := hall n' t hp
        apply Classical.byContradiction; intro hc
        rw [(Arms.get_eq_none bs n').2 hc] at h1; simp at h1
      have hsup := subset_of_nodup_subset_length ha hsub
        (by rw [← Arms.length_eq, ← Arms.length_eq, hlen]; exact Nat.le_refl _)
      have hm : m ∉ bs.names := fun h => (Arms.get_eq_none as m).1 hg (hsup h)
      simp [(Arms.get_eq_none bs m).2 hm]
  · intro h
    have hmem : ∀ m, m ∈ as.names ↔ m ∈ bs.names := by
      intro m
      have h1 := Arms.get_eq_none as m
      have h2 := Arms.get_eq_none bs m
      have hm := h m
      constructor
      · intro hx; apply Classical.byContradiction; intro hc
        rw [h2.2 hc] at hm
        simp only [Option.map_none, Option.map_eq_none_iff] at hm
        exact h1.1 hm hx
      · intro hx; apply Classical.byContradiction; intro hc
        rw [h1.2 hc] at hm
        simp only [Option.map_none] at hm
        have hm := hm.symm
        simp only [Option.map_eq_none_iff] at hm
        exact h2.1 hm hx
    refine ⟨?_, ?_⟩
    · rw [Arms.length_eq, Arms.length_eq]
      exact ((List.perm_ext_iff_of_nodup ha hb).2 hmem).length_eq
    · intro n t hp
      have hg := Arms.get_of_mem as n t ha hp
      have hm := h n
      rw [hg] at hm
      cases hg' : bs.get n with
      | none => rw [hg'] at hm; simp at hm
      | some t' =>
        rw [hg'] at hm
        simp only [Option.map_some, Option.some.injEq] at hm
        exact ⟨t', rfl, hm⟩

/-! ### the comparison decides equality of nameless forms -/

mutual
/-- The general statement: below any two binder stacks of equal length, the comparison succeeds
iff the nameless forms are equal.  No naming discipline is needed for variables: later insertions
win in the maps just as inner binders shadow outer ones in `toDB`. -/
theorem lubEq_iff_toDB : ∀ (a b : Ty) (envL envR : List Nat), envL.length = envR.length →
    WF a = true → WF b = true →
    (lubEq (ctxOf envL envR) a b = true ↔ toDB envL a = toDB envR b)
  | .var x, b, envL, envR, h, _, _ => by
    cases b with
    | var y => exact var_case envL envR h x y
    | _ => simp [lubEq, toDB] <;> (split <;> simp)
  | .int, b, envL, envR, _, _, _ => by cases b <;> simp [lubEq, toDB] <;> (split <;> simp)
  | .str, b, envL, envR, _, _, _ => by cases b <;> simp [lubEq, toDB] <;> (split <;> simp)
  | .unit, b, envL, envR, _, _, _ => by cases b <;> simp [lubEq, toDB] <;> (split <;> simp)
  | .prod a1 a2, b, envL, envR, h, wa, wb => by
    cases b with
    | prod b1 b2 =>
      simp only [WF, Bool.and_eq_true] at wa wb
      simp [lubEq, toDB, lubEq_iff_toDB a1 b1 envL envR h wa.1 wb.1,
        lubEq_iff_toDB a2 b2 envL envR h wa.2 wb.2]
    | var y => simp [lubEq, toDB]; split <;> simp
    | _ => simp [lubEq, toDB]
  | .arr a1 a2, b, envL, envR, h, wa, wb => by
    cases b with
    | arr b1 b2 =>
      simp only [WF, Bool.and_eq_true] at wa wb
      simp [lubEq, toDB, lubEq_iff_toDB a1 b1 envL envR h wa.1 wb.1,
        lubEq_iff_toDB a2 b2 envL envR h wa.2 wb.2]
    | var y => simp [lubEq, toDB]; split <;> simp
    | _ => simp [lubEq, toDB]
  | .thk a1, b, envL, envR, h, wa, wb => by
    cases b with
    | thk b1 =>
      simp only [WF] at wa wb
      simp [lubEq, toDB, lubEq_iff_toDB a1 b1 envL envR h wa wb]
    | var y => simp [lubEq, toDB]; split <;> simp
    | _ => simp [lubEq, toDB]
  | .ret a1, b, envL, envR, h, wa, wb => by
    cases b with
    | ret b1 =>
      simp only [WF] at wa wb
      simp [lubEq, toDB, lubEq_iff_toDB a1 b1 envL envR h wa wb]
    | var y => simp [lubEq, toDB]; split <;> simp
    | _ => simp [lubEq, toDB]
  | .all k x body, b, envL, envR, h, wa, wb => by
    cases b with
    | all k' x' body' =>
      have h' : (x :: envL).length = (x' :: envR).length := by simp [h]
      simp only [WF] at wa wb
      simp [lubEq, toDB, ctxOf_insert envL envR h,
        lubEq_iff_toDB body body' (x :: envL) (x' :: envR) h' wa wb]
    | var y => simp [lubEq, toDB]; split <;> simp
    | _ => simp [lubEq, toDB]
  | .ex k x body, b, envL, envR, h, wa, wb => by
    cases b with
    | ex k' x' body' =>
      have h' : (x :: envL).length = (x' :: envR).length := by simp [h]
      simp only [WF] at wa wb
      simp [lubEq, toDB, ctxOf_insert envL envR h,
        lubEq_iff_toDB body body' (x :: envL) (x' :: envR) h' wa wb]
    | var y => simp [lubEq, toDB]; split <;> simp
    | _ => simp [lubEq, toDB]
  | .data as, b, envL, envR, h, wa, wb => by
    cases b with
    | data bs =>
      simp only [WF] at wa wb
      have na := ((WFArms_iff as).1 wa).1
      have nb := ((WFArms_iff bs).1 wb).1
      simp only [lubEq, toDB, Bool.and_eq_true, beq_iff_eq, DB.data.injEq,
        lubArms_iff as bs envL envR h wa wb, toDBArms_eq_iff envL envR as bs na nb]
      exact arms_loop_iff envL envR as bs na nb
    | var y => simp [lubEq, toDB]; split <;> simp
    | _ => simp [lubEq, toDB]
  | .codata as, b, envL, envR, h, wa, wb => by
    cases b with
    | codata bs =>
      simp only [WF] at wa wb
      have na := ((WFArms_iff as).1 wa).1
      have nb := ((WFArms_iff bs).1 wb).1
      simp only [lubEq, toDB, Bool.and_eq_true, beq_iff_eq, DB.codata.injEq,
        lubArms_iff as bs envL envR h wa wb, toDBArms_eq_iff envL envR as bs na nb]
      exact arms_loop_iff envL envR as bs na nb
    | var y => simp [lubEq, toDB]; split <;> simp
    | _ => simp [lubEq, toDB]
/-- the loop over the left arms: every left arm finds its name on the right, with a type of equal
nameless form -/
theorem lubArms_iff : ∀ (as bs : Arms) (envL envR : List Nat), envL.length = envR.length →
    WFArms as = true → WFArms bs = true →
    (lubArms (ctxOf envL envR) as bs = true ↔
      ∀ n t, (n, t) ∈ as.toList → ∃ t', bs.get n = some t' ∧ toDB envL t = toDB envR t')
  | .nil, bs, envL, envR, _, _, _ => by simp [lubArms, Arms.toList]
  | .cons n t rest, bs, envL, envR, h, wa, wb => by
    simp only [WFArms, Bool.and_eq_true] at wa
    have ihr := lubArms_iff rest bs envL envR h wa.2 wb
    simp only [lubArms, Bool.and_eq_true, ihr, Arms.toList, List.mem_cons, Prod.mk.injEq]
    cases hg : bs.get n with
    | none =>
      simp only [Bool.false_eq_true, false_and, false_iff]
      intro hall
      obtain ⟨t', h1, _⟩ := hall n t (Or.inl ⟨rfl, rfl⟩)
      rw [hg] at h1
      cases h1
    | some t' =>
      have iht := lubEq_iff_toDB t t' envL envR h wa.1.2 (WF_of_get wb hg)
      simp only [iht]
      constructor
      · rintro ⟨h1, h2⟩ m u (⟨rfl, rfl⟩ | hm)
        · exact ⟨t', hg, h1⟩
        · exact h2 m u hm
      · intro hall
        refine ⟨?_, fun m u hm => hall m u (Or.inr hm)⟩
        obtain ⟨t'', h1, h2⟩ := hall n t (Or.inl ⟨rfl, rfl⟩)
        rw [hg] at h1
        cases h1
        exact h2
end

/-- top level, for declarations without repeated names -/
theorem lubEq_iff_alphaEq (a b : Ty) (wa : WF a = true) (wb : WF b = true) :
    lubEq {} a b = true ↔ alphaEq a b = true := by
  have := lubEq_iff_toDB a b [] [] rfl wa wb
  rw [ctxOf_nil] at this
  simp [alphaEq, this]

theorem lub_iff_alpha_pf : ZV.Props.C03.LubStatement.lub_iff_alpha :=
  fun a b wa wb _ _ _ _ => lubEq_iff_alphaEq a b wa wb

theorem lub_refl_pf : ZV.Props.C03.LubStatement.lub_refl := by
  intro a wa _
  rw [lubEq_iff_alphaEq a a wa wa]
  simp [alphaEq]

theorem lub_not_refl_on_repeated_name_pf : ZV.Props.C03.LubStatement.lub_not_refl_on_repeated_name := by
  unfold ZV.Props.C03.LubStatement.lub_not_refl_on_repeated_name
  decide

theorem alpha_equiv_pf : ZV.Props.C03.LubStatement.alpha_equiv := by
  refine ⟨?_, ?_, ?_⟩
  · intro a; simp [alphaEq]
  · intro a b h
    simp only [alphaEq, beq_iff_eq] at h ⊢
    exact h.symm
  · intro a b c h1 h2
    simp only [alphaEq, beq_iff_eq] at h1 h2 ⊢
    exact h1.trans h2


/-! ### the specification read without any order of arms -/

/-- agreement as maps = same set of names and, name by name, agreement -/
theorem maps_agree_iff {β : Type} (f g : Ty → β) (as bs : Arms) :
    (∀ m, (as.get m).map f = (bs.get m).map g) ↔
      (∀ n, n ∈ as.names ↔ n ∈ bs.names) ∧
      (∀ n t u, as.get n = some t → bs.get n = some u → f t = g u) := by
  constructor
  · intro h
    refine ⟨?_, ?_⟩
    · intro m
      have h1 := Arms.get_eq_none as m
      have h2 := Arms.get_eq_none bs m
      have hm := h m
      constructor
      · intro hx; apply Classical.byContradiction; intro hc
        rw [h2.2 hc] at hm
        simp only [Option.map_none, Option.map_eq_none_iff] at hm
        exact h1.1 hm hx
      · intro hx; apply Classical.byContradiction; intro hc
        rw [h1.2 hc] at hm
        simp only [Option.map_none] at hm
        have hm := hm.symm
        simp only [Option.map_eq_none_iff] at hm
        exact h2.1 hm hx
    · intro n t u h1 h2
      have hm := h n
      rw [h1, h2] at hm
      simpa using hm
  · rintro ⟨hn, hp⟩ m
    cases h1 : as.get m with
    | none =>
      have : m ∉ bs.names := fun hx => (Arms.get_eq_none as m).1 h1 ((hn m).2 hx)
      simp [(Arms.get_eq_none bs m).2 this]
    | some t =>
      cases h2 : bs.get m with
      | none =>
        have hx : m ∈ as.names := Arms.mem_names_of_mem (Arms.mem_of_get as m t h1)
        exact absurd ((hn m).1 hx) ((Arms.get_eq_none bs m).1 h2)
      | some u => simp [hp m t u h1 h2]

theorem alpha_decl_spec_pf : ZV.Props.C03.LubStatement.alpha_decl_spec := by
  intro env₁ env₂ as bs wa wb
  have na := ((WFArms_iff as).1 wa).1
  have nb := ((WFArms_iff bs).1 wb).1
  have key := (toDBArms_eq_iff env₁ env₂ as bs na nb).trans
    (maps_agree_iff (toDB env₁) (toDB env₂) as bs)
  exact ⟨by simpa [toDB] using key, by simpa [toDB] using key⟩

theorem alpha_decl_spec_top_pf : ZV.Props.C03.LubStatement.alpha_decl_spec_top := by
  intro as bs wa wb
  have := alpha_decl_spec_pf [] [] as bs wa wb
  simpa [alphaEq] using this

/-! ### permuted arms -/

theorem get_eq_of_perm {as bs : Arms} (hp : as.toList.Perm bs.toList) (_ha : as.names.Nodup)
    (hb : bs.names.Nodup) (m : Nat) : as.get m = bs.get m := by
  have hnames : as.names.Perm bs.names := by
    rw [Arms.names_eq_map, Arms.names_eq_map]; exact hp.map _
  cases h1 : as.get m with
  | none =>
    have : m ∉ bs.names := fun hx => (Arms.get_eq_none as m).1 h1 (hnames.symm.subset hx)
    exact ((Arms.get_eq_none bs m).2 this).symm
  | some t =>
    exact (Arms.get_of_mem bs m t hb (hp.subset (Arms.mem_of_get as m t h1))).symm

theorem armPerm_toDB {a b : Ty} (h : ArmPerm a b) :
    WF a = true → WF b = true ∧ ∀ env, toDB env a = toDB env b := by
  induction h with
  | refl a => exact fun w => ⟨w, fun _ => rfl⟩
  | trans _ _ ih1 ih2 =>
    intro w
    have h1 := ih1 w
    have h2 := ih2 h1.1
    exact ⟨h2.1, fun env => (h1.2 env).trans (h2.2 env)⟩
  | prod _ _ ih1 ih2 =>
    intro w
    simp only [WF, Bool.and_eq_true] at w
    have h1 := ih1 w.1
    have h2 := ih2 w.2
    exact ⟨by simp [WF, h1.1, h2.1], fun env => by simp [toDB, h1.2 env, h2.2 env]⟩
  | arr _ _ ih1 ih2 =>
    intro w
    simp only [WF, Bool.and_eq_true] at w
    have h1 := ih1 w.1
    have h2 := ih2 w.2
    exact ⟨by simp [WF, h1.1, h2.1], fun env => by simp [toDB, h1.2 env, h2.2 env]⟩
  | thk _ ih =>
    intro w
    simp only [WF] at w
    have h1 := ih w
    exact ⟨by simp [WF, h1.1], fun env => by simp [toDB, h1.2 env]⟩
  | ret _ ih =>
    intro w
    simp only [WF] at w
    have h1 := ih w
    exact ⟨by simp [WF, h1.1], fun env => by simp [toDB, h1.2 env]⟩
  | all _ ih =>
    intro w
    simp only [WF] at w
    have h1 := ih w
    exact ⟨by simp [WF, h1.1], fun env => by simp [toDB, h1.2 _]⟩
  | ex _ ih =>
    intro w
    simp only [WF] at w
    have h1 := ih w
    exact ⟨by simp [WF, h1.1], fun env => by simp [toDB, h1.2 _]⟩
  | @data_perm as bs hp =>
    intro w
    simp only [WF] at w
    have wa := (WFArms_iff as).1 w
    have hnames : as.names.Perm bs.names := by
      rw [Arms.names_eq_map, Arms.names_eq_map]; exact hp.map _
    have nb : bs.names.Nodup := hnames.nodup wa.1
    have wb : WFArms bs = true :=
      (WFArms_iff bs).2 ⟨nb, fun q hq => wa.2 q (hp.symm.subset hq)⟩
    refine ⟨by simpa [WF] using wb, fun env => ?_⟩
    simp only [toDB, DB.data.injEq]
    rw [toDBArms_eq_iff env env as bs wa.1 nb]
    intro m
    rw [get_eq_of_perm hp wa.1 nb m]
  | @codata_perm as bs hp =>
    intro w
    simp only [WF] at w
    have wa := (WFArms_iff as).1 w
    have hnames : as.names.Perm bs.names := by
      rw [Arms.names_eq_map, Arms.names_eq_map]; exact hp.map _
    have nb : bs.names.Nodup := hnames.nodup wa.1
    have wb : WFArms bs = true :=
      (WFArms_iff bs).2 ⟨nb, fun q hq => wa.2 q (hp.symm.subset hq)⟩
    refine ⟨by simpa [WF] using wb, fun env => ?_⟩
    simp only [toDB, DB.codata.injEq]
    rw [toDBArms_eq_iff env env as bs wa.1 nb]
    intro m
    rw [get_eq_of_perm hp wa.1 nb m]
  | data_head _ ih =>
    intro w
    simp only [WF, WFArms, Bool.and_eq_true] at w
    have h1 := ih w.1.2
    have hn := w.1.1
    exact ⟨by simp only [WF, WFArms, h1.1, hn, w.2, Bool.and_self],
      fun env => by simp [toDB, toDBArms, h1.2 env]⟩
  | codata_head _ ih =>
    intro w
    simp only [WF, WFArms, Bool.and_eq_true] at w
    have h1 := ih w.1.2
    have hn := w.1.1
    exact ⟨by simp only [WF, WFArms, h1.1, hn, w.2, Bool.and_self],
      fun env => by simp [toDB, toDBArms, h1.2 env]⟩

theorem arm_order_irrelevant_pf : ZV.Props.C03.LubStatement.arm_order_irrelevant := by
  intro a b wa h
  have hb := armPerm_toDB h wa
  rw [lubEq_iff_alphaEq a b wa hb.1, lubEq_iff_alphaEq b a hb.1 wa]
  simp [alphaEq, hb.2 []]

/-! ### the comparison is by name, not by position -/

mutual
/-- The positional variant, for `positional_comparison_differs` only: as `lubEq`, but the arms of
two declarations are compared position by position (after the check of the number of arms and of
the sets of names) instead of by name.  This is NOT what the code does. -/
def lubEqZip (c : Ctx) : Ty → Ty → Bool
  | .var a, .var b =>
    match lookup c.lhs a, lookup c.rhs b with
    | some l, some r => l == r
    | none, none => a == b
    | _, _ => false
  | .int, .int => true
  | .str, .str => true
  | .unit, .unit => true
  | .prod a b, .prod a' b' => lubEqZip c a a' && lubEqZip c b b'
  | .thk b, .thk b' => lubEqZip c b b'
  | .ret a, .ret a' => lubEqZip c a a'
  | .arr a b, .arr a' b' => lubEqZip c a a' && lubEqZip c b b'
  | .all k x body, .all k' x' body' => k == k' && lubEqZip (c.insert x x') body body'
  | .ex k x body, .ex k' x' body' => k == k' && lubEqZip (c.insert x x') body body'
  | .data as, .data bs =>
    as.length == bs.length && as.names.all (bs.names.contains ·) && lubArmsZip c as bs
  | .codata as, .codata bs =>
    as.length == bs.length && as.names.all (bs.names.contains ·) && lubArmsZip c as bs
  | _, _ => false
def lubArmsZip (c : Ctx) : Arms → Arms → Bool
  | .nil, .nil => true
  | .cons _ t rest, .cons _ u rest' => lubEqZip c t u && lubArmsZip c rest rest'
  | _, _ => false
end

theorem positional_comparison_differs_pf : ZV.Props.C03.LubStatement.positional_comparison_differs := by
  unfold ZV.Props.C03.LubStatement.positional_comparison_differs
  refine ⟨by decide, by decide, ?_, by decide, by decide, by decide, by decide, by decide⟩
  intro n; simp [or_comm]

/-- the positional variant accepts the pair that `lubEq` (and the specification) tell apart -/
theorem positional_variant_accepts :
    lubEqZip {} ZV.Props.C03.LubStatement.personL ZV.Props.C03.LubStatement.personR = true := by
  decide

theorem permuted_binders_differ_pf : ZV.Props.C03.LubStatement.permuted_binders_differ := by
  intro k₁ k₂ x y x' y' hxy _
  have hb : (y == x) = false := by simpa using (Ne.symm hxy)
  simp [lubEq, Ctx.insert, lookup, hb]

theorem bound_vs_free_differ_pf : ZV.Props.C03.LubStatement.bound_vs_free_differ := by
  intro k x y a hay
  have hb : (y == a) = false := by simpa using (Ne.symm hay)
  simp [lubEq, Ctx.insert, lookup, hb]

end ZV.Lub

#print axioms ZV.Lub.lub_iff_alpha_pf
#print axioms ZV.Lub.lub_refl_pf
#print axioms ZV.Lub.lub_not_refl_on_repeated_name_pf
#print axioms ZV.Lub.alpha_equiv_pf
#print axioms ZV.Lub.alpha_decl_spec_pf
#print axioms ZV.Lub.alpha_decl_spec_top_pf
#print axioms ZV.Lub.arm_order_irrelevant_pf
#print axioms ZV.Lub.positional_comparison_differs_pf
#print axioms ZV.Lub.positional_variant_accepts
#print axioms ZV.Lub.permuted_binders_differ_pf
#print axioms ZV.Lub.bound_vs_free_differ_pf
