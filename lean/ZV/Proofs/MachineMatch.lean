/-
The arm loop of the mirrored interpreter's `match` transition (`eval.rs`, `Computation::Match`):
first-match semantics.
-/
import ZV.Model.Machine

namespace ZV.Machine

/-- The arm loop of `match`: the first arm whose pattern the scrutinee matches is taken, and no
later arm is looked at. -/
theorem go_first (st : State) (sv : SemVal) (env env' : Env) (p : Pat) (tail : Comp)
    (rest : List (Pat × Comp)) (h : assign p sv env = .ok env') :
    step.go st sv env ((p, tail) :: rest) = .next tail { st with env := env' } := by
  simp [step.go, h]

/-- An arm whose pattern does not match is skipped (its partial bindings stay). -/
theorem go_skip (st : State) (sv : SemVal) (env : Env) (p : Pat) (tail : Comp)
    (rest : List (Pat × Comp)) (h : assign p sv env = .fail) :
    step.go st sv env ((p, tail) :: rest) = step.go st sv env rest := by
  simp [step.go, h]

theorem go_nil (st : State) (sv : SemVal) (env : Env) :
    step.go st sv env [] = .done (.stuck .noArm) { st with env } := by
  simp [step.go]

/-- The whole transition: with the scrutinee evaluated to `sv`, earlier arms failing and the arm
`(p, tail)` matching, the machine continues with `tail` whatever arms follow. -/
theorem match_takes_first (st : State) (scrut : Val) (sv : SemVal) (env' : Env)
    (before rest : List (Pat × Comp)) (p : Pat) (tail : Comp)
    (hv : evalV (valFuel scrut) st.env scrut = .ok sv)
    (hb : ∀ q ∈ before, assign q.1 sv st.env = .fail)
    (hp : assign p sv st.env = .ok env') :
    step (.cmatch scrut (before ++ (p, tail) :: rest)) st = .next tail { st with env := env' } := by
  have : step (.cmatch scrut (before ++ (p, tail) :: rest)) st
      = step.go st sv st.env (before ++ (p, tail) :: rest) := by
    simp [step, hv]
  rw [this]
  clear this
  induction before with
  | nil => simpa using go_first st sv st.env env' p tail rest hp
  | cons q qs ih =>
    have hq : assign q.1 sv st.env = .fail := hb q (by simp)
    have : step.go st sv st.env ((q :: qs) ++ (p, tail) :: rest)
        = step.go st sv st.env (qs ++ (p, tail) :: rest) := by
      obtain ⟨q1, q2⟩ := q
      simpa using go_skip st sv st.env q1 q2 (qs ++ (p, tail) :: rest) hq
    rw [this]
    exact ih (fun r hr => hb r (by simp [hr]))

end ZV.Machine
