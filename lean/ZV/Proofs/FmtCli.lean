/- Proofs of the C14 statements (`fmt --check` against `fmt`, exit status). -/
import ZV.Props.C14Statements

namespace ZV.FmtCli
open ZV.Props.C14.Statement

theorem check_iff_write_pf : check_iff_write := by
  intro render file
  unfold checkPath formatPath
  cases h : render file with
  | none => simp
  | some formatted =>
    by_cases hf : formatted = file
    · simp [hf]
    · simp [hf]

theorem unparseable_untouched_pf : unparseable_untouched := by
  intro render file h
  simp [formatPath, checkPath, h]

theorem written_is_rendered_pf : written_is_rendered := by
  intro render file out h
  unfold formatPath
  rw [h]
  by_cases hf : out = file
  · simp [hf]
  · simp [hf]

theorem format_then_check_pf : format_then_check := by
  intro render file hidem hsome
  cases h : render file with
  | none => simp [formatPath, h] at hsome
  | some formatted =>
    have h2 := hidem file formatted h
    by_cases hf : formatted = file
    · subst hf
      simp [formatPath, checkPath, h]
    · simp [formatPath, checkPath, h, hf, h2]

/-- `--check` over files that all parse: exit status and files, for any accumulated flag. -/
theorem formatSources_check (render : String → Option String) (files : List String)
    (hp : ∀ f ∈ files, (render f).isSome) (changed : Bool) :
    formatSources render true files changed =
      (some (if (changed || files.any fun f => (checkPath render f).1 == some .changed)
        then 1 else 0), files) := by
  induction files generalizing changed with
  | nil => simp [formatSources]
  | cons f rest ih =>
    have hf : (render f).isSome := hp f (by simp)
    have hrest : ∀ g ∈ rest, (render g).isSome := fun g hg => hp g (by simp [hg])
    obtain ⟨out, hout⟩ := Option.isSome_iff_exists.mp hf
    unfold formatSources
    simp only [if_true]
    by_cases ho : out = f
    · simp [checkPath, hout, ho, ih hrest]
    · simp [checkPath, hout, ho, ih hrest]

/-- plain `fmt` over files that all parse exits 0. -/
theorem formatSources_write (render : String → Option String) (files : List String)
    (hp : ∀ f ∈ files, (render f).isSome) (changed : Bool) :
    (formatSources render false files changed).1 = some 0 := by
  induction files generalizing changed with
  | nil => simp [formatSources]
  | cons f rest ih =>
    have hf : (render f).isSome := hp f (by simp)
    have hrest : ∀ g ∈ rest, (render g).isSome := fun g hg => hp g (by simp [hg])
    obtain ⟨out, hout⟩ := Option.isSome_iff_exists.mp hf
    unfold formatSources
    by_cases ho : out = f
    · simp [formatPath, hout, ho, ih hrest]
    · simp [formatPath, hout, ho, ih hrest]

theorem exit_status_pf : exit_status := by
  intro render files hp
  refine ⟨?_, ?_, formatSources_write render files hp false⟩
  · rw [formatSources_check render files hp false]; simp
  · rw [formatSources_check render files hp false]

end ZV.FmtCli

#print axioms ZV.FmtCli.check_iff_write_pf
#print axioms ZV.FmtCli.unparseable_untouched_pf
#print axioms ZV.FmtCli.written_is_rendered_pf
#print axioms ZV.FmtCli.format_then_check_pf
#print axioms ZV.FmtCli.exit_status_pf
