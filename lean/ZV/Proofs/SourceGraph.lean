/-
C09 — source-graph loading, cycle detection and provider order.

Proof outline.
* Detector: a call of `detectVisit` that reports nothing restores the DFS path and the dependency
  stack and leaves the state of every marked node alone (`Frame`). The path and the dependency
  stack form a chain of real dependency edges (`Chain`), so a slice starting at an active target is
  a closed walk (`cycle_sound_pf`). Complete nodes are closed under edges and carry no cycle, and
  the fuel plus the length of the (duplicate-free, in-range) path stays above the number of nodes
  (`cycle_complete_pf`).
* Provider order: visited-but-unlisted nodes all reach the node being visited, so on an acyclic
  graph a visited dependency target is already listed (`provider_order_topo_pf`).
* Loader: `seen` mirrors `sources`; a nested load only appends; nodes that are finished stay
  finished.
Core Lean only.
-/
import ZV.Model.SourceGraph
import ZV.Model.SourceGraphSpec
import ZV.Props.C09Statements

namespace ZV.SourceGraph

/-! ### Graph facts -/

theorem mem_dependencies {g : Graph} {s : Nat} {dep : Dep} :
    dep ∈ g.dependencies s ↔
      ∃ n, g.sources[s]? = some n ∧
        ((∃ t, n.signature = some t ∧ dep = Dep.signature s t) ∨ ∃ i ∈ n.imports, dep = Dep.import i) := by
  unfold Graph.dependencies
  cases hs : g.sources[s]? with
  | none => simp
  | some n =>
    simp only [List.mem_append, List.mem_map, Option.some.injEq, exists_eq_left']
    constructor
    · rintro (h | ⟨i, hi, rfl⟩)
      · left
        cases hsig : n.signature with
        | none => simp [hsig] at h
        | some t =>
          simp only [hsig, List.mem_singleton] at h
          exact ⟨t, rfl, h⟩
      · exact Or.inr ⟨i, hi, rfl⟩
    · rintro (⟨t, ht, rfl⟩ | ⟨i, hi, rfl⟩)
      · left; simp [ht]
      · exact Or.inr ⟨i, hi, rfl⟩

theorem origin_of_mem_dependencies {g : Graph} (hw : g.Wf) {s : Nat} {dep : Dep}
    (h : dep ∈ g.dependencies s) : g.origin dep = s := by
  obtain ⟨n, hn, h | ⟨i, hi, rfl⟩⟩ := mem_dependencies.1 h
  · obtain ⟨t, _, rfl⟩ := h
    rfl
  · obtain ⟨b, hb⟩ := hw.listed_range s n hn i hi
    simp [Graph.origin, hb]

theorem target_lt_of_mem_dependencies {g : Graph} (hw : g.Wf) {s : Nat} {dep : Dep}
    (h : dep ∈ g.dependencies s) : g.target dep < g.sources.length := by
  obtain ⟨n, hn, h | ⟨i, hi, rfl⟩⟩ := mem_dependencies.1 h
  · obtain ⟨t, ht, rfl⟩ := h
    exact hw.sig_range s n t hn ht
  · obtain ⟨b, hb⟩ := hw.listed_range s n hn i hi
    have := (hw.import_range i s b hb).2
    simpa [Graph.target, hb] using this

theorem Graph.Reach.snoc {g : Graph} {a b c : Nat} (h : g.Reach a b) (e : g.Edge b c) : g.Reach a c := by
  induction h with
  | refl a => exact .step e (.refl _)
  | step e' _ ih => exact .step e' (ih e)

theorem Graph.Reach.snoc1 {g : Graph} {a b c : Nat} (h : g.Reach a b) (e : g.Edge b c) : g.Reach1 a c := by
  induction h with
  | refl a => exact .one e
  | step e' _ ih => exact .step e' (ih e)

theorem Graph.Reach1.reach {g : Graph} {a b : Nat} (h : g.Reach1 a b) : g.Reach a b := by
  induction h with
  | one e => exact .step e (.refl _)
  | step e _ ih => exact .step e ih

theorem Graph.Reach1.first {g : Graph} {a b : Nat} (h : g.Reach1 a b) : ∃ y, g.Edge a y ∧ g.Reach y b := by
  cases h with
  | one e => exact ⟨_, e, .refl _⟩
  | step e h' => exact ⟨_, e, h'.reach⟩

/-! ### Detector: state bookkeeping -/

theorem state_setState (d : Detector) (s : Nat) (v : VisitState) (x : Nat) :
    (d.setState s v).state x = if x = s then some v else d.state x := by
  unfold Detector.state Detector.setState
  by_cases hx : x = s
  · subst hx
    simp
  · have hne : (s == x) = false := by simpa using fun h => hx h.symm
    simp only [List.find?_cons, hne, if_neg hx]
    rw [List.find?_filter]
    congr 2
    funext a
    by_cases ha : a.1 = x
    · subst ha; simp [hx]
    · simp [ha]

theorem state_empty (x : Nat) : ({} : Detector).state x = none := rfl

/-- entering a node -/
def Detector.enter (d : Detector) (s : Nat) : Detector :=
  { (d.setState s .active) with sources := d.sources ++ [s] }

/-- leaving a node -/
def Detector.leave (d : Detector) (s : Nat) : Detector :=
  { (d.setState s .complete) with sources := d.sources.dropLast }

def Detector.pushDep (d : Detector) (dep : Dep) : Detector := { d with deps := d.deps ++ [dep] }

def Detector.popDep (d : Detector) : Detector := { d with deps := d.deps.dropLast }

@[simp] theorem enter_sources (d : Detector) (s : Nat) : (d.enter s).sources = d.sources ++ [s] := rfl
@[simp] theorem enter_deps (d : Detector) (s : Nat) : (d.enter s).deps = d.deps := rfl
theorem enter_state (d : Detector) (s x : Nat) :
    (d.enter s).state x = if x = s then some .active else d.state x := state_setState d s .active x
@[simp] theorem leave_sources (d : Detector) (s : Nat) : (d.leave s).sources = d.sources.dropLast := rfl
@[simp] theorem leave_deps (d : Detector) (s : Nat) : (d.leave s).deps = d.deps := rfl
theorem leave_state (d : Detector) (s x : Nat) :
    (d.leave s).state x = if x = s then some .complete else d.state x := state_setState d s .complete x
@[simp] theorem pushDep_sources (d : Detector) (dep : Dep) : (d.pushDep dep).sources = d.sources := rfl
@[simp] theorem pushDep_deps (d : Detector) (dep : Dep) : (d.pushDep dep).deps = d.deps ++ [dep] := rfl
@[simp] theorem pushDep_state (d : Detector) (dep : Dep) (x : Nat) : (d.pushDep dep).state x = d.state x := rfl
@[simp] theorem popDep_sources (d : Detector) : d.popDep.sources = d.sources := rfl
@[simp] theorem popDep_deps (d : Detector) : d.popDep.deps = d.deps.dropLast := rfl
@[simp] theorem popDep_state (d : Detector) (x : Nat) : d.popDep.state x = d.state x := rfl

/-! ### Detector: inversion of the two functions -/

theorem detectVisit_zero (g : Graph) (d : Detector) (s : Nat) : detectVisit g 0 d s = (d, none) := by
  rw [detectVisit]

theorem detectVisit_succ (g : Graph) (n : Nat) (d : Detector) (s : Nat) :
    detectVisit g (n + 1) d s =
      match detectDeps g n (d.enter s) (g.dependencies s) with
      | (d2, some c) => (d2, some c)
      | (d2, none) => (d2.leave s, none) := by
  rw [detectVisit]
  rfl

theorem detectVisit_inv {g : Graph} {n : Nat} {d d' : Detector} {s : Nat} {r : Option (List Dep)}
    (h : detectVisit g (n + 1) d s = (d', r)) :
    (∃ c, detectDeps g n (d.enter s) (g.dependencies s) = (d', some c) ∧ r = some c) ∨
    (∃ d2, detectDeps g n (d.enter s) (g.dependencies s) = (d2, none) ∧ d' = d2.leave s ∧ r = none) := by
  rw [detectVisit_succ] at h
  rcases hd : detectDeps g n (d.enter s) (g.dependencies s) with ⟨d2, _ | c⟩
  · rw [hd] at h
    simp only [Prod.mk.injEq] at h
    exact Or.inr ⟨d2, rfl, h.1.symm, h.2.symm⟩
  · rw [hd] at h
    simp only [Prod.mk.injEq] at h
    exact Or.inl ⟨c, by rw [h.1], h.2.symm⟩

theorem detectDeps_nil (g : Graph) (n : Nat) (d : Detector) : detectDeps g n d [] = (d, none) := by
  rw [detectDeps]

theorem detectDeps_cons (g : Graph) (n : Nat) (d : Detector) (dep : Dep) (rest : List Dep) :
    detectDeps g n d (dep :: rest) =
      match d.state (g.target dep) with
      | some .active =>
        (d, some (d.deps.drop ((d.sources.findIdx? (· == g.target dep)).getD 0) ++ [dep]))
      | some .complete => detectDeps g n d rest
      | none =>
        match detectVisit g n (d.pushDep dep) (g.target dep) with
        | (d2, some c) => (d2, some c)
        | (d2, none) => detectDeps g n d2.popDep rest := by
  rw [detectDeps]
  rfl

theorem detectDeps_inv {g : Graph} {n : Nat} {d d' : Detector} {dep : Dep} {rest : List Dep}
    {r : Option (List Dep)} (h : detectDeps g n d (dep :: rest) = (d', r)) :
    (d.state (g.target dep) = some .active ∧ d' = d ∧
      r = some (d.deps.drop ((d.sources.findIdx? (· == g.target dep)).getD 0) ++ [dep])) ∨
    (d.state (g.target dep) = some .complete ∧ detectDeps g n d rest = (d', r)) ∨
    (d.state (g.target dep) = none ∧
      ((∃ c, detectVisit g n (d.pushDep dep) (g.target dep) = (d', some c) ∧ r = some c) ∨
       (∃ d2, detectVisit g n (d.pushDep dep) (g.target dep) = (d2, none) ∧
          detectDeps g n d2.popDep rest = (d', r)))) := by
  rw [detectDeps_cons] at h
  cases hs : d.state (g.target dep) with
  | none =>
    rw [hs] at h
    simp only at h
    refine Or.inr (Or.inr ⟨rfl, ?_⟩)
    rcases hv : detectVisit g n (d.pushDep dep) (g.target dep) with ⟨d2, _ | c⟩
    · rw [hv] at h
      exact Or.inr ⟨d2, rfl, h⟩
    · rw [hv] at h
      simp only [Prod.mk.injEq] at h
      exact Or.inl ⟨c, by rw [h.1], h.2.symm⟩
  | some v =>
    rw [hs] at h
    cases v with
    | active =>
      simp only [Prod.mk.injEq] at h
      exact Or.inl ⟨rfl, h.1.symm, h.2.symm⟩
    | complete => exact Or.inr (Or.inl ⟨rfl, h⟩)

/-! ### Detector: a quiet call restores the path -/

structure Frame (d d' : Detector) : Prop where
  sources : d'.sources = d.sources
  deps : d'.deps = d.deps
  marked : ∀ x, d.state x ≠ none → d'.state x = d.state x
  active : ∀ x, d'.state x = some .active → d.state x = some .active

theorem Frame.refl (d : Detector) : Frame d d := ⟨rfl, rfl, fun _ _ => rfl, fun _ h => h⟩

theorem Frame.trans {a b c : Detector} (h₁ : Frame a b) (h₂ : Frame b c) : Frame a c where
  sources := h₂.sources.trans h₁.sources
  deps := h₂.deps.trans h₁.deps
  marked x hx := by
    have := h₁.marked x hx
    rw [h₂.marked x (by rw [this]; exact hx), this]
  active x hx := h₁.active x (h₂.active x hx)

theorem frame_deps_of {g : Graph} {n : Nat}
    (hV : ∀ d s d', d.state s = none → detectVisit g n d s = (d', none) → Frame d d') :
    ∀ (l : List Dep) (d d' : Detector), detectDeps g n d l = (d', none) → Frame d d' := by
  intro l
  induction l with
  | nil =>
    intro d d' h
    rw [detectDeps_nil] at h
    cases h
    exact Frame.refl _
  | cons dep rest ih =>
    intro d d' h
    rcases detectDeps_inv h with ⟨_, _, h3⟩ | ⟨_, h2⟩ | ⟨hs, ⟨c, _, h3⟩ | ⟨d2, hv, hr⟩⟩
    · cases h3
    · exact ih d d' h2
    · cases h3
    · have f1 : Frame (d.pushDep dep) d2 := hV _ _ _ (by simpa using hs) hv
      have f2 : Frame d2.popDep d' := ih _ _ hr
      refine Frame.trans ⟨?_, ?_, ?_, ?_⟩ f2
      · simpa using f1.sources
      · simp [f1.deps]
      · intro x hx
        simpa using f1.marked x (by simpa using hx)
      · intro x hx
        simpa using f1.active x (by simpa using hx)

theorem frame_visit (g : Graph) : ∀ (n : Nat) (d : Detector) (s : Nat) (d' : Detector),
    d.state s = none → detectVisit g n d s = (d', none) → Frame d d' := by
  intro n
  induction n with
  | zero =>
    intro d s d' _ h
    rw [detectVisit_zero] at h
    cases h
    exact Frame.refl _
  | succ n ih =>
    intro d s d' hs h
    rcases detectVisit_inv h with ⟨c, _, h2⟩ | ⟨d2, hd, rfl, _⟩
    · cases h2
    · have f : Frame (d.enter s) d2 := frame_deps_of ih _ _ _ hd
      refine ⟨?_, ?_, ?_, ?_⟩
      · simp [f.sources]
      · simp [f.deps]
      · intro x hx
        have hxs : x ≠ s := fun e => hx (e ▸ hs)
        have h1 : (d.enter s).state x = d.state x := by rw [enter_state, if_neg hxs]
        rw [leave_state, if_neg hxs, f.marked x (by rw [h1]; exact hx), h1]
      · intro x hx
        rw [leave_state] at hx
        by_cases hxs : x = s
        · rw [if_pos hxs] at hx
          cases hx
        · rw [if_neg hxs] at hx
          have := f.active x hx
          rwa [enter_state, if_neg hxs] at this

theorem frame_deps (g : Graph) (n : Nat) (l : List Dep) (d d' : Detector)
    (h : detectDeps g n d l = (d', none)) : Frame d d' :=
  frame_deps_of (frame_visit g n) l d d' h

/-! ### Walks -/

/-- `e` is a real dependency edge from `a` to `b`. -/
def Link (g : Graph) (e : Dep) (a b : Nat) : Prop :=
  g.origin e = a ∧ g.target e = b ∧ e ∈ g.dependencies a

inductive Walk (g : Graph) : Nat → List Dep → Nat → Prop
  | nil (a : Nat) : Walk g a [] a
  | cons {e : Dep} {a b c : Nat} {l : List Dep} : Link g e a b → Walk g b l c → Walk g a (e :: l) c

theorem Walk.snoc {g : Graph} {a b c : Nat} {l : List Dep} {e : Dep} (h : Walk g a l b)
    (hl : Link g e b c) : Walk g a (l ++ [e]) c := by
  induction h with
  | nil a => exact .cons hl (.nil _)
  | cons hl' _ ih => exact .cons hl' (ih hl)

theorem Walk.mem_dependencies {g : Graph} {a b : Nat} {l : List Dep} (h : Walk g a l b) :
    ∀ d ∈ l, d ∈ g.dependencies (g.origin d) := by
  induction h with
  | nil a => intro d hd; cases hd
  | cons hl _ ih =>
    intro d hd
    rcases List.mem_cons.1 hd with rfl | hd
    · rw [hl.1]; exact hl.2.2
    · exact ih d hd

theorem Walk.head_origin {g : Graph} {a b : Nat} {l : List Dep} (h : Walk g a l b) :
    ∀ e, l.head? = some e → g.origin e = a := by
  cases h with
  | nil a => intro e he; cases he
  | cons hl _ =>
    intro e he
    simp only [List.head?_cons, Option.some.injEq] at he
    subst he
    exact hl.1

theorem Walk.last_target {g : Graph} {a b : Nat} {l : List Dep} (h : Walk g a l b) :
    ∀ e, l.getLast? = some e → g.target e = b := by
  induction h with
  | nil a => intro e he; cases he
  | @cons e' a b c l hl hw ih =>
    intro e he
    cases l with
    | nil =>
      simp only [List.getLast?_singleton, Option.some.injEq] at he
      subst he
      cases hw
      exact hl.2.1
    | cons x xs =>
      rw [List.getLast?_cons_cons] at he
      exact ih e he

theorem Walk.consecutive {g : Graph} {a b : Nat} {l : List Dep} (h : Walk g a l b) :
    ∀ (i : Nat) (d e : Dep), l[i]? = some d → l[i + 1]? = some e → g.target d = g.origin e := by
  induction h with
  | nil a => intro i d e hd; cases hd
  | @cons e' a b c l hl hw ih =>
    intro i d e hd he
    cases i with
    | zero =>
      simp only [List.getElem?_cons_zero, Option.some.injEq] at hd
      subst hd
      simp only [Nat.zero_add, List.getElem?_cons_succ] at he
      rw [hl.2.1]
      exact (hw.head_origin e (by rw [List.head?_eq_getElem?]; exact he)).symm
    | succ i =>
      simp only [List.getElem?_cons_succ] at hd he
      exact ih i d e hd he

theorem Walk.isCycle {g : Graph} {a : Nat} {l : List Dep} (h : Walk g a l a) (hne : l ≠ []) :
    g.IsCycle l := by
  refine ⟨hne, h.mem_dependencies, h.consecutive, ?_⟩
  intro d e hd he
  rw [h.last_target d hd, h.head_origin e he]

/-- the DFS path and the dependency stack fit together -/
def Chain (g : Graph) (srcs : List Nat) (deps : List Dep) : Prop :=
  deps.length + 1 = srcs.length ∧
    ∀ k t, srcs[k]? = some t → ∃ last, srcs.getLast? = some last ∧ Walk g t (deps.drop k) last

theorem Chain.single (g : Graph) (a : Nat) : Chain g [a] [] := by
  refine ⟨rfl, ?_⟩
  intro k t hk
  cases k with
  | zero =>
    simp only [List.getElem?_cons_zero, Option.some.injEq] at hk
    subst hk
    exact ⟨_, rfl, .nil _⟩
  | succ k => simp at hk

theorem Chain.snoc {g : Graph} {srcs : List Nat} {deps : List Dep} {cur b : Nat} {e : Dep}
    (h : Chain g srcs deps) (hlast : srcs.getLast? = some cur) (hl : Link g e cur b) :
    Chain g (srcs ++ [b]) (deps ++ [e]) := by
  refine ⟨by simp [h.1], ?_⟩
  intro k t hk
  refine ⟨b, by simp, ?_⟩
  by_cases hlt : k < srcs.length
  · rw [List.getElem?_append_left hlt] at hk
    obtain ⟨last, hl1, hw⟩ := h.2 k t hk
    rw [hlast] at hl1
    cases hl1
    have hle : k ≤ deps.length := by have := h.1; omega
    rw [List.drop_append_of_le_length hle]
    exact hw.snoc hl
  · have hk' : k = srcs.length := by
      have := (List.getElem?_eq_some_iff.1 hk).1
      simp only [List.length_append, List.length_singleton] at this
      omega
    subst hk'
    simp only [List.getElem?_concat_length, Option.some.injEq] at hk
    subst hk
    have : List.drop srcs.length (deps ++ [e]) = [] := by
      apply List.drop_eq_nil_of_le
      simp only [List.length_append, List.length_singleton]
      have := h.1
      omega
    rw [this]
    exact .nil _

theorem findIdx_of_mem (t : Nat) : ∀ (l : List Nat), t ∈ l →
    ∃ k, l.findIdx? (· == t) = some k ∧ l[k]? = some t := by
  intro l
  induction l with
  | nil => intro h; cases h
  | cons a l ih =>
    intro h
    rw [List.findIdx?_cons]
    by_cases hat : a = t
    · subst hat
      exact ⟨0, by simp, rfl⟩
    · have hm : t ∈ l := by
        rcases List.mem_cons.1 h with h | h
        · exact absurd h.symm hat
        · exact h
      obtain ⟨k, hk1, hk2⟩ := ih hm
      refine ⟨k + 1, ?_, by simpa using hk2⟩
      have : (a == t) = false := by simpa using hat
      simp [this, hk1]

/-! ### Detector: soundness -/

def ActiveOnPath (d : Detector) : Prop := ∀ x, d.state x = some .active → x ∈ d.sources

theorem sound_deps_of {g : Graph} {n : Nat}
    (hV : ∀ d s d' c, d.state s = none → Chain g (d.sources ++ [s]) d.deps → ActiveOnPath d →
      detectVisit g n d s = (d', some c) → g.IsCycle c) :
    ∀ (l : List Dep) (d d' : Detector) (c : List Dep) (cur : Nat), Chain g d.sources d.deps →
      d.sources.getLast? = some cur → (∀ dep ∈ l, Link g dep cur (g.target dep)) → ActiveOnPath d →
      detectDeps g n d l = (d', some c) → g.IsCycle c := by
  intro l
  induction l with
  | nil =>
    intro d d' c cur _ _ _ _ h
    rw [detectDeps_nil] at h
    cases h
  | cons dep rest ih =>
    intro d d' c cur hch hlast hlink hact h
    have hl : Link g dep cur (g.target dep) := hlink dep (List.mem_cons_self ..)
    have hlink' : ∀ dep ∈ rest, Link g dep cur (g.target dep) :=
      fun x hx => hlink x (List.mem_cons_of_mem _ hx)
    rcases detectDeps_inv h with ⟨hs, _, h3⟩ | ⟨_, h2⟩ | ⟨hs, ⟨c', hv, h3⟩ | ⟨d2, hv, hr⟩⟩
    · obtain ⟨k, hk1, hk2⟩ := findIdx_of_mem _ _ (hact _ hs)
      rw [hk1] at h3
      simp only [Option.getD_some, Option.some.injEq] at h3
      subst h3
      obtain ⟨last, hl1, hw⟩ := hch.2 k _ hk2
      rw [hlast] at hl1
      cases hl1
      exact (hw.snoc hl).isCycle (by simp)
    · exact ih d d' c cur hch hlast hlink' hact h2
    · cases h3
      exact hV _ _ _ _ (by simpa using hs) (by simpa using hch.snoc hlast hl) (fun x hx => by simpa using hact x (by simpa using hx)) hv
    · have f : Frame (d.pushDep dep) d2 := frame_visit g n _ _ _ (by simpa using hs) hv
      have hsrc : d2.popDep.sources = d.sources := by simpa using f.sources
      have hdeps : d2.popDep.deps = d.deps := by simp [f.deps]
      refine ih d2.popDep d' c cur (by rw [hsrc, hdeps]; exact hch) (by rw [hsrc]; exact hlast) hlink' ?_ hr
      intro x hx
      rw [hsrc]
      exact hact x (by simpa using f.active x (by simpa using hx))

theorem sound_visit {g : Graph} (hw : g.Wf) : ∀ (n : Nat) (d : Detector) (s : Nat) (d' : Detector)
    (c : List Dep), d.state s = none → Chain g (d.sources ++ [s]) d.deps → ActiveOnPath d →
      detectVisit g n d s = (d', some c) → g.IsCycle c := by
  intro n
  induction n with
  | zero =>
    intro d s d' c _ _ _ h
    rw [detectVisit_zero] at h
    cases h
  | succ n ih =>
    intro d s d' c hs hch hact h
    rcases detectVisit_inv h with ⟨c', hd, h2⟩ | ⟨d2, _, _, h2⟩
    · cases h2
      refine sound_deps_of ih _ (d.enter s) d' c s (by simpa using hch) (by simp) ?_ ?_ hd
      · intro dep hdep
        exact ⟨origin_of_mem_dependencies hw hdep, rfl, hdep⟩
      · intro x hx
        rw [enter_state] at hx
        by_cases hxs : x = s
        · simp [hxs]
        · rw [if_neg hxs] at hx
          simpa using Or.inl (hact x hx)
    · cases h2

theorem cycle_sound_pf : ZV.Props.C09.Statement.cycle_sound := by
  intro g root steps hw _ h
  unfold detectCycle at h
  rcases hv : detectVisit g (g.sources.length + 1) {} root with ⟨d', r⟩
  rw [hv] at h
  simp only at h
  subst h
  refine sound_visit hw _ {} root d' steps rfl ?_ ?_ hv
  · exact Chain.single g root
  · intro x hx
    cases hx

/-! ### Detector: completeness -/

theorem length_le_of_nodup_lt {l : List Nat} {n : Nat} (hn : l.Nodup) (hr : ∀ x ∈ l, x < n) :
    l.length ≤ n := by
  have := hn.length_le_of_subset (l₂ := List.range n) (fun x hx => List.mem_range.2 (hr x hx))
  simpa using this

structure CInv (g : Graph) (d : Detector) : Prop where
  closed : ∀ x y, d.state x = some .complete → g.Edge x y → d.state y = some .complete
  nocyc : ∀ x, d.state x = some .complete → ¬ g.Reach1 x x
  path_active : ∀ x ∈ d.sources, d.state x = some .active
  path_nodup : d.sources.Nodup
  path_range : ∀ x ∈ d.sources, x < g.sources.length

theorem CInv.congr {g : Graph} {d₁ d₂ : Detector} (h : CInv g d₁) (hs : d₂.sources = d₁.sources)
    (hst : ∀ x, d₂.state x = d₁.state x) : CInv g d₂ where
  closed x y hx e := by rw [hst] at hx ⊢; exact h.closed x y hx e
  nocyc x hx := by rw [hst] at hx; exact h.nocyc x hx
  path_active x hx := by rw [hs] at hx; rw [hst]; exact h.path_active x hx
  path_nodup := by rw [hs]; exact h.path_nodup
  path_range x hx := by rw [hs] at hx; exact h.path_range x hx

theorem CInv.reach_complete {g : Graph} {d : Detector} (h : CInv g d) {x y : Nat}
    (hr : g.Reach x y) : d.state x = some .complete → d.state y = some .complete := by
  induction hr with
  | refl a => exact id
  | step e _ ih => exact fun hx => ih (h.closed _ _ hx e)

theorem CInv.enter {g : Graph} {d : Detector} (h : CInv g d) {s : Nat} (hs : d.state s = none)
    (hlt : s < g.sources.length) : CInv g (d.enter s) := by
  have hnot : s ∉ d.sources := fun hm => by
    have := h.path_active s hm
    rw [hs] at this
    cases this
  have hcomp : ∀ x, (d.enter s).state x = some .complete ↔ d.state x = some .complete := by
    intro x
    rw [enter_state]
    by_cases hxs : x = s
    · subst hxs; simp [hs]
    · rw [if_neg hxs]
  refine ⟨?_, ?_, ?_, ?_, ?_⟩
  · intro x y hx e
    exact (hcomp y).2 (h.closed x y ((hcomp x).1 hx) e)
  · intro x hx
    exact h.nocyc x ((hcomp x).1 hx)
  · intro x hx
    rw [enter_state]
    by_cases hxs : x = s
    · rw [if_pos hxs]
    · rw [if_neg hxs]
      simp only [enter_sources, List.mem_append, List.mem_singleton] at hx
      rcases hx with hx | hx
      · exact h.path_active x hx
      · exact absurd hx hxs
  · simp only [enter_sources]
    rw [List.nodup_append]
    refine ⟨h.path_nodup, by simp, ?_⟩
    intro a ha b hb
    simp only [List.mem_singleton] at hb
    subst hb
    intro hab
    exact hnot (hab ▸ ha)
  · intro x hx
    simp only [enter_sources, List.mem_append, List.mem_singleton] at hx
    rcases hx with hx | hx
    · exact h.path_range x hx
    · exact hx ▸ hlt

theorem complete_deps_of {g : Graph} {n : Nat}
    (hV : ∀ d s d', CInv g d → d.state s = none → s < g.sources.length →
      g.sources.length + 1 ≤ n + d.sources.length → detectVisit g n d s = (d', none) →
      CInv g d' ∧ d'.state s = some .complete) :
    ∀ (l : List Dep) (d d' : Detector), CInv g d → (∀ dep ∈ l, g.target dep < g.sources.length) →
      g.sources.length + 1 ≤ n + d.sources.length → detectDeps g n d l = (d', none) →
      CInv g d' ∧ ∀ dep ∈ l, d'.state (g.target dep) = some .complete := by
  intro l
  induction l with
  | nil =>
    intro d d' hinv _ _ h
    rw [detectDeps_nil] at h
    cases h
    exact ⟨hinv, fun _ h => by cases h⟩
  | cons dep rest ih =>
    intro d d' hinv hrange hfuel h
    have hrange' : ∀ dep ∈ rest, g.target dep < g.sources.length :=
      fun x hx => hrange x (List.mem_cons_of_mem _ hx)
    rcases detectDeps_inv h with ⟨_, _, h3⟩ | ⟨hs, h2⟩ | ⟨hs, ⟨c, _, h3⟩ | ⟨d2, hv, hr⟩⟩
    · cases h3
    · obtain ⟨hinv', hall⟩ := ih d d' hinv hrange' hfuel h2
      refine ⟨hinv', ?_⟩
      intro x hx
      rcases List.mem_cons.1 hx with rfl | hx
      · have f := frame_deps g n rest d d' h2
        rw [f.marked _ (by rw [hs]; simp), hs]
      · exact hall x hx
    · cases h3
    · have hinvp : CInv g (d.pushDep dep) := hinv.congr rfl (fun _ => rfl)
      obtain ⟨hinv2, hc2⟩ := hV _ _ d2 hinvp (by simpa using hs)
        (hrange dep (List.mem_cons_self ..)) (by simpa using hfuel) hv
      have f1 : Frame (d.pushDep dep) d2 := frame_visit g n _ _ _ (by simpa using hs) hv
      have hinv2p : CInv g d2.popDep := hinv2.congr rfl (fun _ => rfl)
      have hfuel2 : g.sources.length + 1 ≤ n + d2.popDep.sources.length := by
        have := f1.sources
        simp only [pushDep_sources] at this
        simpa [this] using hfuel
      obtain ⟨hinv', hall⟩ := ih d2.popDep d' hinv2p hrange' hfuel2 hr
      refine ⟨hinv', ?_⟩
      intro x hx
      rcases List.mem_cons.1 hx with rfl | hx
      · have f2 := frame_deps g n rest _ d' hr
        have hc2' : d2.popDep.state (g.target x) = some .complete := by simpa using hc2
        rw [f2.marked _ (by rw [hc2']; simp), hc2']
      · exact hall x hx

theorem complete_visit {g : Graph} (hw : g.Wf) : ∀ (n : Nat) (d : Detector) (s : Nat) (d' : Detector),
    CInv g d → d.state s = none → s < g.sources.length →
      g.sources.length + 1 ≤ n + d.sources.length → detectVisit g n d s = (d', none) →
      CInv g d' ∧ d'.state s = some .complete := by
  intro n
  induction n with
  | zero =>
    intro d s d' hinv _ _ hfuel _
    have := length_le_of_nodup_lt hinv.path_nodup hinv.path_range
    omega
  | succ n ih =>
    intro d s d' hinv hs hlt hfuel h
    rcases detectVisit_inv h with ⟨c, _, h2⟩ | ⟨d2, hd, rfl, _⟩
    · cases h2
    · have hinv1 : CInv g (d.enter s) := hinv.enter hs hlt
      have hfuel1 : g.sources.length + 1 ≤ n + (d.enter s).sources.length := by
        simp only [enter_sources, List.length_append, List.length_singleton]
        omega
      obtain ⟨hinv2, hall⟩ := complete_deps_of ih _ (d.enter s) d2 hinv1
        (fun dep hdep => target_lt_of_mem_dependencies hw hdep) hfuel1 hd
      have f : Frame (d.enter s) d2 := frame_deps g n _ _ _ hd
      have hsrc : d2.sources = d.sources ++ [s] := by simpa using f.sources
      have hsact : d2.state s = some .active := hinv2.path_active s (by simp [hsrc])
      have hsucc : ∀ y, g.Edge s y → d2.state y = some .complete := by
        rintro y ⟨dep, hdep, rfl⟩
        exact hall dep hdep
      have hcomp : ∀ x, (d2.leave s).state x = some .complete ↔ x = s ∨ d2.state x = some .complete := by
        intro x
        rw [leave_state]
        by_cases hxs : x = s
        · simp [hxs]
        · simp [hxs]
      refine ⟨⟨?_, ?_, ?_, ?_, ?_⟩, ?_⟩
      · intro x y hx e
        refine (hcomp y).2 (Or.inr ?_)
        rcases (hcomp x).1 hx with rfl | hx
        · exact hsucc y e
        · exact hinv2.closed x y hx e
      · intro x hx
        rcases (hcomp x).1 hx with rfl | hx
        · intro hcyc
          obtain ⟨y, e, hr⟩ := hcyc.first
          have := hinv2.reach_complete hr (hsucc y e)
          rw [hsact] at this
          cases this
        · exact hinv2.nocyc x hx
      · intro x hx
        have hx' : x ∈ d.sources := by simpa [hsrc] using hx
        have hxs : x ≠ s := by
          intro e
          have := hinv.path_active x hx'
          rw [e, hs] at this
          cases this
        rw [leave_state, if_neg hxs]
        exact hinv2.path_active x (by simp [hsrc, hx'])
      · simpa [hsrc] using hinv.path_nodup
      · intro x hx
        exact hinv.path_range x (by simpa [hsrc] using hx)
      · exact (hcomp s).2 (Or.inl rfl)

theorem cycle_complete_pf : ZV.Props.C09.Statement.cycle_complete := by
  intro g root hw hlt h
  unfold detectCycle at h
  rcases hv : detectVisit g (g.sources.length + 1) {} root with ⟨d', r⟩
  rw [hv] at h
  simp only at h
  subst h
  have hinv0 : CInv g {} := by
    refine ⟨?_, ?_, ?_, List.nodup_nil, ?_⟩
    · intro x y hx; cases hx
    · intro x hx; cases hx
    · intro x hx; cases hx
    · intro x hx; cases hx
  obtain ⟨hinv, hroot⟩ := complete_visit hw _ {} root d' hinv0 rfl hlt (by simp) hv
  rintro ⟨a, hr, hc⟩
  exact hinv.nocyc a (hinv.reach_complete hr hroot) hc

/-! ### Provider order -/

theorem orderVisit_zero (g : Graph) (st : List Nat × List Nat) (s : Nat) : orderVisit g 0 st s = st := by
  rw [orderVisit]

theorem orderVisit_succ_mem (g : Graph) (n : Nat) (v o : List Nat) (s : Nat) (h : s ∈ v) :
    orderVisit g (n + 1) (v, o) s = (v, o) := by
  rw [orderVisit]
  simp [h]

theorem orderVisit_succ_not_mem (g : Graph) (n : Nat) (v o : List Nat) (s : Nat) (h : s ∉ v) :
    orderVisit g (n + 1) (v, o) s =
      ((orderDeps g n (s :: v, o) (g.dependencies s)).1,
       (orderDeps g n (s :: v, o) (g.dependencies s)).2 ++ [s]) := by
  rw [orderVisit]
  simp [h]

theorem orderDeps_nil (g : Graph) (n : Nat) (st : List Nat × List Nat) : orderDeps g n st [] = st := by
  rw [orderDeps]

theorem orderDeps_cons (g : Graph) (n : Nat) (st : List Nat × List Nat) (dep : Dep) (rest : List Dep) :
    orderDeps g n st (dep :: rest) = orderDeps g n (orderVisit g n st (g.target dep)) rest := by
  rw [orderDeps]

structure OInv (g : Graph) (root : Nat) (st : List Nat × List Nat) : Prop where
  sub : ∀ x ∈ st.2, x ∈ st.1
  v_nodup : st.1.Nodup
  v_range : ∀ x ∈ st.1, x < g.sources.length
  v_reach : ∀ x ∈ st.1, g.Reach root x
  o_nodup : st.2.Nodup
  o_closed : ∀ (i x : Nat), st.2[i]? = some x → ∀ y, g.Edge x y → ∃ j : Nat, j < i ∧ st.2[j]? = some y

/-- what a call may change -/
structure OStep (st st' : List Nat × List Nat) : Prop where
  grey : ∀ x, (x ∈ st'.1 ∧ x ∉ st'.2) ↔ (x ∈ st.1 ∧ x ∉ st.2)
  o_mono : ∀ x ∈ st.2, x ∈ st'.2
  v_mono : ∀ x ∈ st.1, x ∈ st'.1

theorem OStep.refl (st : List Nat × List Nat) : OStep st st :=
  ⟨fun _ => Iff.rfl, fun _ h => h, fun _ h => h⟩

theorem OStep.trans {a b c : List Nat × List Nat} (h₁ : OStep a b) (h₂ : OStep b c) : OStep a c :=
  ⟨fun x => (h₂.grey x).trans (h₁.grey x), fun x hx => h₂.o_mono x (h₁.o_mono x hx),
   fun x hx => h₂.v_mono x (h₁.v_mono x hx)⟩

theorem order_deps_of {g : Graph} {root n : Nat}
    (hV : ∀ st s, OInv g root st → g.Reach root s → s < g.sources.length →
      (∀ x ∈ st.1, x ∉ st.2 → g.Reach1 x s) → g.sources.length + 1 ≤ n + st.1.length →
      OInv g root (orderVisit g n st s) ∧ s ∈ (orderVisit g n st s).2 ∧ OStep st (orderVisit g n st s)) :
    ∀ (l : List Dep) (st : List Nat × List Nat) (cur : Nat), OInv g root st → g.Reach root cur →
      (∀ dep ∈ l, g.Edge cur (g.target dep)) → (∀ dep ∈ l, g.target dep < g.sources.length) →
      (∀ x ∈ st.1, x ∉ st.2 → g.Reach x cur) → g.sources.length + 1 ≤ n + st.1.length →
      OInv g root (orderDeps g n st l) ∧ (∀ dep ∈ l, g.target dep ∈ (orderDeps g n st l).2) ∧
        OStep st (orderDeps g n st l) := by
  intro l
  induction l with
  | nil =>
    intro st cur hinv _ _ _ _ _
    rw [orderDeps_nil]
    exact ⟨hinv, fun _ h => (by cases h), OStep.refl _⟩
  | cons dep rest ih =>
    intro st cur hinv hcur hedge hrange hgrey hfuel
    rw [orderDeps_cons]
    have he : g.Edge cur (g.target dep) := hedge dep (List.mem_cons_self ..)
    obtain ⟨hinv1, hmem1, hstep1⟩ := hV st (g.target dep) hinv (hcur.snoc he)
      (hrange dep (List.mem_cons_self ..)) (fun x hx hxo => (hgrey x hx hxo).snoc1 he) hfuel
    have hlen : st.1.length ≤ (orderVisit g n st (g.target dep)).1.length :=
      hinv.v_nodup.length_le_of_subset (fun x hx => hstep1.v_mono x hx)
    obtain ⟨hinv2, hall, hstep2⟩ := ih (orderVisit g n st (g.target dep)) cur hinv1 hcur
      (fun x hx => hedge x (List.mem_cons_of_mem _ hx))
      (fun x hx => hrange x (List.mem_cons_of_mem _ hx))
      (fun x hx hxo => by
        have := (hstep1.grey x).1 ⟨hx, hxo⟩
        exact hgrey x this.1 this.2)
      (by omega)
    refine ⟨hinv2, ?_, hstep1.trans hstep2⟩
    intro x hx
    rcases List.mem_cons.1 hx with rfl | hx
    · exact hstep2.o_mono _ hmem1
    · exact hall x hx

theorem order_visit {g : Graph} (hw : g.Wf) {root : Nat}
    (hac : ∀ a, g.Reach root a → ¬ g.Reach1 a a) :
    ∀ (n : Nat) (st : List Nat × List Nat) (s : Nat), OInv g root st → g.Reach root s →
      s < g.sources.length → (∀ x ∈ st.1, x ∉ st.2 → g.Reach1 x s) →
      g.sources.length + 1 ≤ n + st.1.length →
      OInv g root (orderVisit g n st s) ∧ s ∈ (orderVisit g n st s).2 ∧ OStep st (orderVisit g n st s) := by
  intro n
  induction n with
  | zero =>
    rintro ⟨v, o⟩ s hinv hs hlt hgrey hfuel
    rw [orderVisit_zero]
    by_cases hm : s ∈ v
    · refine ⟨hinv, ?_, OStep.refl _⟩
      apply Classical.byContradiction
      intro hso
      exact hac s hs (hgrey s hm hso)
    · exfalso
      have hnd : (s :: v).Nodup := List.nodup_cons.2 ⟨hm, hinv.v_nodup⟩
      have := length_le_of_nodup_lt hnd (n := g.sources.length) (by
        intro x hx
        rcases List.mem_cons.1 hx with rfl | hx
        · exact hlt
        · exact hinv.v_range x hx)
      simp only [List.length_cons] at this
      simp only at hfuel
      omega
  | succ n ih =>
    rintro ⟨v, o⟩ s hinv hs hlt hgrey hfuel
    by_cases hm : s ∈ v
    · rw [orderVisit_succ_mem g n v o s hm]
      refine ⟨hinv, ?_, OStep.refl _⟩
      apply Classical.byContradiction
      intro hso
      exact hac s hs (hgrey s hm hso)
    · rw [orderVisit_succ_not_mem g n v o s hm]
      have hso : s ∉ o := fun h => hm (hinv.sub s h)
      have hinv1 : OInv g root (s :: v, o) := by
        refine ⟨?_, ?_, ?_, ?_, hinv.o_nodup, hinv.o_closed⟩
        · intro x hx
          exact List.mem_cons_of_mem _ (hinv.sub x hx)
        · exact List.nodup_cons.2 ⟨hm, hinv.v_nodup⟩
        · intro x hx
          rcases List.mem_cons.1 hx with rfl | hx
          · exact hlt
          · exact hinv.v_range x hx
        · intro x hx
          rcases List.mem_cons.1 hx with rfl | hx
          · exact hs
          · exact hinv.v_reach x hx
      obtain ⟨hinv2, hall, hstep⟩ := order_deps_of ih (g.dependencies s) (s :: v, o) s hinv1 hs
        (fun dep hdep => ⟨dep, hdep, rfl⟩)
        (fun dep hdep => target_lt_of_mem_dependencies hw hdep)
        (fun x hx hxo => by
          rcases List.mem_cons.1 hx with rfl | hx
          · exact .refl _
          · exact (hgrey x hx hxo).reach)
        (by simp only [List.length_cons]; simp only at hfuel; omega)
      generalize orderDeps g n (s :: v, o) (g.dependencies s) = st2 at hinv2 hall hstep
      obtain ⟨v2, o2⟩ := st2
      have hs2 : s ∈ v2 ∧ s ∉ o2 := (hstep.grey s).2 ⟨List.mem_cons_self .., hso⟩
      refine ⟨⟨?_, hinv2.v_nodup, hinv2.v_range, hinv2.v_reach, ?_, ?_⟩, by simp, ⟨?_, ?_, ?_⟩⟩
      · intro x hx
        simp only [List.mem_append, List.mem_singleton] at hx
        rcases hx with hx | rfl
        · exact hinv2.sub x hx
        · exact hs2.1
      · show (o2 ++ [s]).Nodup
        rw [List.nodup_append]
        refine ⟨hinv2.o_nodup, by simp, ?_⟩
        intro a ha b hb
        simp only [List.mem_singleton] at hb
        subst hb
        intro hab
        exact hs2.2 (hab ▸ ha)
      · intro i x hi y e
        show ∃ j, j < i ∧ (o2 ++ [s])[j]? = some y
        have hi' : (o2 ++ [s])[i]? = some x := hi
        by_cases hlt' : i < o2.length
        · rw [List.getElem?_append_left hlt'] at hi'
          obtain ⟨j, hj, hjy⟩ := hinv2.o_closed i x hi' y e
          exact ⟨j, hj, by rw [List.getElem?_append_left (by omega)]; exact hjy⟩
        · have hi2 : i = o2.length := by
            have := (List.getElem?_eq_some_iff.1 hi').1
            simp only [List.length_append, List.length_singleton] at this
            omega
          subst hi2
          simp only [List.getElem?_concat_length, Option.some.injEq] at hi'
          subst hi'
          obtain ⟨dep, hdep, rfl⟩ := e
          have hy : g.target dep ∈ o2 := hall dep hdep
          obtain ⟨j, hj, hjy⟩ := List.getElem_of_mem hy
          refine ⟨j, hj, ?_⟩
          rw [List.getElem?_append_left hj, List.getElem?_eq_getElem hj, hjy]
      · intro x
        show (x ∈ v2 ∧ x ∉ o2 ++ [s]) ↔ (x ∈ v ∧ x ∉ o)
        have hg := hstep.grey x
        simp only [List.mem_cons] at hg
        simp only [List.mem_append, List.mem_singleton, not_or]
        constructor
        · rintro ⟨h1, h2, h3⟩
          rcases hg.1 ⟨h1, h2⟩ with ⟨h4 | h4, h5⟩
          · exact absurd h4 h3
          · exact ⟨h4, h5⟩
        · rintro ⟨h1, h2⟩
          have := hg.2 ⟨Or.inr h1, h2⟩
          exact ⟨this.1, this.2, fun e => hm (e ▸ h1)⟩
      · intro x hx
        show x ∈ o2 ++ [s]
        exact List.mem_append_left _ (hstep.o_mono x hx)
      · intro x hx
        exact hstep.v_mono x (List.mem_cons_of_mem _ hx)

theorem provider_order_topo_pf : ZV.Props.C09.Statement.provider_order_topo := by
  intro g root hw hlt hnone
  have hac : ∀ a, g.Reach root a → ¬ g.Reach1 a a :=
    fun a hr hc => cycle_complete_pf g root hw hlt hnone ⟨a, hr, hc⟩
  have hinv0 : OInv g root ([], []) := by
    refine ⟨?_, List.nodup_nil, ?_, ?_, List.nodup_nil, ?_⟩
    · intro x hx; cases hx
    · intro x hx; cases hx
    · intro x hx; cases hx
    · intro i x hx; simp at hx
  obtain ⟨hinv, hroot, -⟩ := order_visit hw hac (g.sources.length + 1) ([], []) root hinv0 (.refl _) hlt
    (fun x hx => by cases hx) (by simp)
  have hlast : (providerOrder g root).getLast? = some root := by
    unfold providerOrder
    rw [orderVisit_succ_not_mem g _ [] [] root (by simp)]
    simp
  show (providerOrder g root).Nodup ∧ (∀ a, a ∈ providerOrder g root ↔ g.Reach root a) ∧
    (providerOrder g root).getLast? = some root ∧
    ∀ (i j : Nat) (a b : Nat), (providerOrder g root)[i]? = some a → (providerOrder g root)[j]? = some b →
      g.Edge a b → j < i
  have hclosed : ∀ x ∈ providerOrder g root, ∀ y, g.Edge x y → y ∈ providerOrder g root := by
    intro x hx y e
    obtain ⟨i, hi, hix⟩ := List.getElem_of_mem hx
    obtain ⟨j, _, hj⟩ := hinv.o_closed i x (by
      show (providerOrder g root)[i]? = some x
      rw [List.getElem?_eq_getElem hi, hix]) y e
    exact List.mem_of_getElem? hj
  refine ⟨hinv.o_nodup, ?_, hlast, ?_⟩
  · intro a
    constructor
    · intro ha
      exact hinv.v_reach a (hinv.sub a ha)
    · intro hr
      have : ∀ x y, g.Reach x y → x ∈ providerOrder g root → y ∈ providerOrder g root := by
        intro x y hxy
        induction hxy with
        | refl a => exact id
        | step e _ ih => exact fun hx => ih (hclosed _ hx _ e)
      exact this root a hr hroot
  · intro i j a b hi hj e
    obtain ⟨j', hj', hjb⟩ := hinv.o_closed i a hi b e
    have hjlt : j < (providerOrder g root).length := (List.getElem?_eq_some_iff.1 hj).1
    have : j = j' := (List.getElem?_inj hjlt hinv.o_nodup).1 (by
      show (providerOrder g root)[j]? = (providerOrder g root)[j']?
      rw [hj]; exact hjb.symm)
    omega

/-! ### Loader: the steps and inversion of the two functions -/

def Graph.files (g : Graph) : List Nat := g.sources.map (·.file)

def Graph.alloc (g : Graph) (file : Nat) : Graph :=
  { g with sources := g.sources ++ [{ file }], seen := g.seen ++ [(file, g.sources.length)] }

def Graph.addImport (g : Graph) (sid imported : Nat) : Graph :=
  { g with imports := g.imports ++ [(sid, imported)] }

def Graph.finish (g : Graph) (sid : Nat) (ids : List Nat) (sig : Option Nat) : Graph :=
  g.setNode sid fun n => { n with imports := ids, signature := sig }

theorem loadFile_zero (w : World) (g : Graph) (file : Nat) : loadFile w 0 g file = .error .fuel := by
  rw [loadFile]

theorem loadFile_succ (w : World) (n : Nat) (g : Graph) (file : Nat) :
    loadFile w (n + 1) g file =
      match g.lookupSeen file with
      | some sid => .ok (g, sid)
      | none =>
        match w[file]? with
        | none => .error .missingRoot
        | some spec =>
          match loadImports w n (g.alloc file) g.sources.length spec.imports 0 [] with
          | .error e => .error e
          | .ok (g2, ids) =>
            match spec.companion with
            | none => .ok (g2.finish g.sources.length ids none, g.sources.length)
            | some c =>
              match g2.lookupSeen c with
              | some s => .ok (g2.finish g.sources.length ids (some s), g.sources.length)
              | none =>
                match loadFile w n g2 c with
                | .error e => .error e
                | .ok (g3, s) => .ok (g3.finish g.sources.length ids (some s), g.sources.length) := by
  rw [loadFile]
  rfl

/-- how a successful allocation continued after the imports -/
inductive SigStep (w : World) (n : Nat) (g2 : Graph) (spec : FileSpec) : Graph → Option Nat → Prop
  | none : spec.companion = none → SigStep w n g2 spec g2 none
  | seen (c s : Nat) : spec.companion = some c → g2.lookupSeen c = some s → SigStep w n g2 spec g2 (some s)
  | load (c s : Nat) (g3 : Graph) : spec.companion = some c → g2.lookupSeen c = none →
      loadFile w n g2 c = .ok (g3, s) → SigStep w n g2 spec g3 (some s)

theorem loadFile_ok_inv {w : World} {n : Nat} {g g' : Graph} {file sid' : Nat}
    (h : loadFile w (n + 1) g file = .ok (g', sid')) :
    (g.lookupSeen file = some sid' ∧ g' = g) ∨
    (g.lookupSeen file = none ∧ sid' = g.sources.length ∧ ∃ spec g2 ids g3 sig, w[file]? = some spec ∧
      loadImports w n (g.alloc file) g.sources.length spec.imports 0 [] = .ok (g2, ids) ∧
      SigStep w n g2 spec g3 sig ∧ g' = g3.finish g.sources.length ids sig) := by
  rw [loadFile_succ] at h
  cases hs : g.lookupSeen file with
  | some sid =>
    rw [hs] at h
    simp only [Except.ok.injEq, Prod.mk.injEq] at h
    exact Or.inl ⟨by rw [h.2], h.1.symm⟩
  | none =>
    rw [hs] at h
    simp only at h
    cases hw : w[file]? with
    | none => rw [hw] at h; cases h
    | some spec =>
      rw [hw] at h
      simp only at h
      cases hi : loadImports w n (g.alloc file) g.sources.length spec.imports 0 [] with
      | error e => rw [hi] at h; cases h
      | ok p =>
        obtain ⟨g2, ids⟩ := p
        rw [hi] at h
        simp only at h
        cases hc : spec.companion with
        | none =>
          rw [hc] at h
          simp only [Except.ok.injEq, Prod.mk.injEq] at h
          exact Or.inr ⟨rfl, h.2.symm, spec, g2, ids, g2, none, rfl, hi, .none hc, h.1.symm⟩
        | some c =>
          rw [hc] at h
          simp only at h
          cases hl : g2.lookupSeen c with
          | some s =>
            rw [hl] at h
            simp only [Except.ok.injEq, Prod.mk.injEq] at h
            exact Or.inr ⟨rfl, h.2.symm, spec, g2, ids, g2, some s, rfl, hi, .seen c s hc hl, h.1.symm⟩
          | none =>
            rw [hl] at h
            simp only at h
            cases hf : loadFile w n g2 c with
            | error e => rw [hf] at h; cases h
            | ok q =>
              obtain ⟨g3, s⟩ := q
              rw [hf] at h
              simp only [Except.ok.injEq, Prod.mk.injEq] at h
              exact Or.inr ⟨rfl, h.2.symm, spec, g2, ids, g3, some s, rfl, hi, .load c s g3 hc hl hf, h.1.symm⟩

theorem loadFile_error_inv {w : World} {n : Nat} {g : Graph} {file : Nat} {e : LoadError}
    (h : loadFile w (n + 1) g file = .error e) :
    (w[file]? = none ∧ e = .missingRoot) ∨
    (∃ spec, w[file]? = some spec ∧
      (loadImports w n (g.alloc file) g.sources.length spec.imports 0 [] = .error e ∨
       ∃ g2 ids c, loadImports w n (g.alloc file) g.sources.length spec.imports 0 [] = .ok (g2, ids) ∧
         spec.companion = some c ∧ loadFile w n g2 c = .error e)) := by
  rw [loadFile_succ] at h
  cases hs : g.lookupSeen file with
  | some sid => rw [hs] at h; cases h
  | none =>
    rw [hs] at h
    simp only at h
    cases hw : w[file]? with
    | none =>
      rw [hw] at h
      simp only [Except.error.injEq] at h
      exact Or.inl ⟨rfl, h.symm⟩
    | some spec =>
      rw [hw] at h
      simp only at h
      refine Or.inr ⟨spec, rfl, ?_⟩
      cases hi : loadImports w n (g.alloc file) g.sources.length spec.imports 0 [] with
      | error e' =>
        rw [hi] at h
        simp only [Except.error.injEq] at h
        exact Or.inl (by rw [h])
      | ok p =>
        obtain ⟨g2, ids⟩ := p
        rw [hi] at h
        simp only at h
        cases hc : spec.companion with
        | none => rw [hc] at h; cases h
        | some c =>
          rw [hc] at h
          simp only at h
          cases hl : g2.lookupSeen c with
          | some s => rw [hl] at h; cases h
          | none =>
            rw [hl] at h
            simp only at h
            cases hf : loadFile w n g2 c with
            | error e' =>
              rw [hf] at h
              simp only [Except.error.injEq] at h
              exact Or.inr ⟨g2, ids, c, rfl, rfl, h ▸ hf⟩
            | ok q =>
              obtain ⟨g3, s⟩ := q
              rw [hf] at h
              cases h

theorem loadImports_nil (w : World) (n : Nat) (g : Graph) (sid pos : Nat) (acc : List Nat) :
    loadImports w n g sid [] pos acc = .ok (g, acc) := by
  rw [loadImports]

theorem loadImports_none (w : World) (n : Nat) (g : Graph) (sid pos : Nat) (acc : List Nat)
    (rest : List (Option Nat)) :
    loadImports w n g sid (none :: rest) pos acc =
      .error (.missingImport ((g.sources[sid]?.map (·.file)).getD 0) pos) := by
  rw [loadImports]

theorem loadImports_some (w : World) (n : Nat) (g : Graph) (sid pos : Nat) (acc : List Nat)
    (t : Nat) (rest : List (Option Nat)) :
    loadImports w n g sid (some t :: rest) pos acc =
      match (if w[t]?.isSome then loadFile w n g t
             else .error (.missingImport ((g.sources[sid]?.map (·.file)).getD 0) pos)) with
      | .error .missingRoot => .error (.missingImport ((g.sources[sid]?.map (·.file)).getD 0) pos)
      | .error e => .error e
      | .ok (g1, imported) =>
        loadImports w n (g1.addImport sid imported) sid rest (pos + 1) (acc ++ [g1.imports.length]) := by
  rw [loadImports]
  rfl

theorem loadImports_ok_inv {w : World} {n : Nat} {g g' : Graph} {sid pos : Nat} {acc ids : List Nat}
    {t : Nat} {rest : List (Option Nat)}
    (h : loadImports w n g sid (some t :: rest) pos acc = .ok (g', ids)) :
    ∃ g1 imported, loadFile w n g t = .ok (g1, imported) ∧
      loadImports w n (g1.addImport sid imported) sid rest (pos + 1) (acc ++ [g1.imports.length]) =
        .ok (g', ids) := by
  rw [loadImports_some] at h
  by_cases hw : w[t]?.isSome
  · rw [if_pos hw] at h
    cases hf : loadFile w n g t with
    | error e =>
      rw [hf] at h
      cases e <;> cases h
    | ok q =>
      obtain ⟨g1, imported⟩ := q
      rw [hf] at h
      exact ⟨g1, imported, rfl, h⟩
  · rw [if_neg hw] at h
    cases h

theorem loadImports_error_inv {w : World} {n : Nat} {g : Graph} {sid pos : Nat} {acc : List Nat}
    {t : Nat} {rest : List (Option Nat)} {e : LoadError}
    (h : loadImports w n g sid (some t :: rest) pos acc = .error e) :
    (∃ f p, e = .missingImport f p) ∨ (t < w.length ∧ loadFile w n g t = .error e) ∨
    (∃ g1 imported, loadFile w n g t = .ok (g1, imported) ∧
      loadImports w n (g1.addImport sid imported) sid rest (pos + 1) (acc ++ [g1.imports.length]) =
        .error e) := by
  rw [loadImports_some] at h
  by_cases hw : w[t]?.isSome
  · rw [if_pos hw] at h
    have hlt : t < w.length := by
      cases hx : w[t]? with
      | none => simp [hx] at hw
      | some x => exact (List.getElem?_eq_some_iff.1 hx).1
    cases hf : loadFile w n g t with
    | error e' =>
      rw [hf] at h
      cases e' with
      | missingRoot =>
        simp only [Except.error.injEq] at h
        exact Or.inl ⟨_, _, h.symm⟩
      | missingImport a b =>
        simp only [Except.error.injEq] at h
        exact Or.inl ⟨_, _, h.symm⟩
      | fuel =>
        simp only [Except.error.injEq] at h
        exact Or.inr (Or.inl ⟨hlt, by rw [← h]⟩)
    | ok q =>
      obtain ⟨g1, imported⟩ := q
      rw [hf] at h
      exact Or.inr (Or.inr ⟨g1, imported, rfl, h⟩)
  · rw [if_neg hw] at h
    simp only [Except.error.injEq] at h
    exact Or.inl ⟨_, _, h.symm⟩

/-! ### Loader: bookkeeping of the three steps -/

theorem files_getElem? (g : Graph) (i : Nat) : g.files[i]? = g.sources[i]?.map (·.file) := by
  unfold Graph.files
  rw [List.getElem?_map]

theorem files_length (g : Graph) : g.files.length = g.sources.length := by
  unfold Graph.files
  rw [List.length_map]

@[simp] theorem alloc_sources (g : Graph) (file : Nat) :
    (g.alloc file).sources = g.sources ++ [{ file }] := rfl
@[simp] theorem alloc_imports (g : Graph) (file : Nat) : (g.alloc file).imports = g.imports := rfl
@[simp] theorem alloc_files (g : Graph) (file : Nat) : (g.alloc file).files = g.files ++ [file] := by
  simp [Graph.files]

theorem lookupSeen_alloc (g : Graph) (file f : Nat) :
    (g.alloc file).lookupSeen f =
      (g.lookupSeen f).or (if file = f then some g.sources.length else none) := by
  unfold Graph.lookupSeen Graph.alloc
  simp only [List.find?_append]
  cases List.find? (fun x => x.1 == f) g.seen with
  | some p => simp
  | none =>
    by_cases hf : file = f
    · simp [hf]
    · simp [hf]

@[simp] theorem addImport_sources (g : Graph) (a b : Nat) : (g.addImport a b).sources = g.sources := rfl
@[simp] theorem addImport_imports (g : Graph) (a b : Nat) :
    (g.addImport a b).imports = g.imports ++ [(a, b)] := rfl
@[simp] theorem addImport_files (g : Graph) (a b : Nat) : (g.addImport a b).files = g.files := rfl
@[simp] theorem lookupSeen_addImport (g : Graph) (a b f : Nat) :
    (g.addImport a b).lookupSeen f = g.lookupSeen f := rfl

@[simp] theorem finish_imports (g : Graph) (sid : Nat) (ids : List Nat) (sig : Option Nat) :
    (g.finish sid ids sig).imports = g.imports := rfl
@[simp] theorem lookupSeen_finish (g : Graph) (sid : Nat) (ids : List Nat) (sig : Option Nat) (f : Nat) :
    (g.finish sid ids sig).lookupSeen f = g.lookupSeen f := rfl
@[simp] theorem finish_length (g : Graph) (sid : Nat) (ids : List Nat) (sig : Option Nat) :
    (g.finish sid ids sig).sources.length = g.sources.length := by
  simp [Graph.finish, Graph.setNode]

theorem finish_getElem? (g : Graph) (sid : Nat) (ids : List Nat) (sig : Option Nat) (i : Nat) :
    (g.finish sid ids sig).sources[i]? =
      if i = sid then g.sources[i]?.map (fun n => { n with imports := ids, signature := sig })
      else g.sources[i]? := by
  unfold Graph.finish Graph.setNode
  simp only [List.getElem?_mapIdx]
  by_cases h : i = sid
  · simp [h]
  · simp [h]

theorem finish_getElem?_file (g : Graph) (sid : Nat) (ids : List Nat) (sig : Option Nat) (i : Nat) :
    (g.finish sid ids sig).sources[i]?.map (·.file) = g.sources[i]?.map (·.file) := by
  rw [finish_getElem?]
  by_cases h : i = sid
  · rw [if_pos h]
    cases g.sources[i]? <;> rfl
  · rw [if_neg h]

@[simp] theorem finish_files (g : Graph) (sid : Nat) (ids : List Nat) (sig : Option Nat) :
    (g.finish sid ids sig).files = g.files := by
  apply List.ext_getElem?
  intro i
  rw [files_getElem?, files_getElem?, finish_getElem?_file]

/-- the canonical identity an import id leads to -/
def Graph.impFile (g : Graph) (i : Nat) : Option Nat :=
  g.imports[i]?.bind fun e => g.sources[e.2]?.map (·.file)

theorem impFile_finish (g : Graph) (sid : Nat) (ids : List Nat) (sig : Option Nat) :
    (g.finish sid ids sig).impFile = g.impFile := by
  funext i
  unfold Graph.impFile
  simp only [finish_imports, finish_getElem?_file]

/-! ### Loader: invariants -/

structure SInv (w : World) (g : Graph) : Prop where
  seen_some : ∀ f s, g.lookupSeen f = some s → g.files[s]? = some f
  seen_none : ∀ f, g.lookupSeen f = none → f ∉ g.files
  files_nodup : g.files.Nodup
  files_range : ∀ f ∈ g.files, f < w.length

theorem SInv.congr {w : World} {g g' : Graph} (h : SInv w g) (hf : g'.files = g.files)
    (hl : ∀ f, g'.lookupSeen f = g.lookupSeen f) : SInv w g' where
  seen_some f s hs := by rw [hf]; exact h.seen_some f s (by rw [← hl]; exact hs)
  seen_none f hs := by rw [hf]; exact h.seen_none f (by rw [← hl]; exact hs)
  files_nodup := by rw [hf]; exact h.files_nodup
  files_range f hm := h.files_range f (by rw [← hf]; exact hm)

theorem SInv.length_le {w : World} {g : Graph} (h : SInv w g) : g.sources.length ≤ w.length := by
  rw [← files_length]
  exact length_le_of_nodup_lt h.files_nodup h.files_range

theorem SInv.empty (w : World) : SInv w {} where
  seen_some f s hs := by cases hs
  seen_none f _ hm := by cases hm
  files_nodup := List.nodup_nil
  files_range f hm := by cases hm

theorem SInv.alloc {w : World} {g : Graph} (h : SInv w g) {file : Nat}
    (hs : g.lookupSeen file = none) (hlt : file < w.length) : SInv w (g.alloc file) where
  seen_some f s hfs := by
    rw [lookupSeen_alloc] at hfs
    rw [alloc_files]
    cases hl : g.lookupSeen f with
    | some s' =>
      rw [hl] at hfs
      simp only [Option.some_or, Option.some.injEq] at hfs
      subst hfs
      have := h.seen_some f s' hl
      rw [List.getElem?_append_left (List.getElem?_eq_some_iff.1 this).1]
      exact this
    | none =>
      rw [hl] at hfs
      simp only [Option.none_or] at hfs
      by_cases hf : file = f
      · rw [if_pos hf] at hfs
        cases hfs
        rw [← files_length, List.getElem?_concat_length, hf]
      · rw [if_neg hf] at hfs
        cases hfs
  seen_none f hfs := by
    rw [lookupSeen_alloc] at hfs
    rw [alloc_files]
    cases hl : g.lookupSeen f with
    | some s' =>
      rw [hl] at hfs
      simp at hfs
    | none =>
      rw [hl] at hfs
      simp only [Option.none_or] at hfs
      by_cases hf : file = f
      · rw [if_pos hf] at hfs
        cases hfs
      · intro hm
        rcases List.mem_append.1 hm with hm | hm
        · exact h.seen_none f hl hm
        · simp only [List.mem_singleton] at hm
          exact hf hm.symm
  files_nodup := by
    rw [alloc_files, List.nodup_append]
    refine ⟨h.files_nodup, by simp, ?_⟩
    intro a ha b hb
    simp only [List.mem_singleton] at hb
    subst hb
    intro hab
    exact h.seen_none _ hs (hab ▸ ha)
  files_range f hm := by
    rw [alloc_files] at hm
    rcases List.mem_append.1 hm with hm | hm
    · exact h.files_range f hm
    · simp only [List.mem_singleton] at hm
      exact hm ▸ hlt

/-- `g'` extends `g` -/
structure Ext (g g' : Graph) : Prop where
  src : ∀ i, i < g.sources.length → g'.sources[i]? = g.sources[i]?
  len : g.sources.length ≤ g'.sources.length
  imp : ∀ i, i < g.imports.length → g'.imports[i]? = g.imports[i]?
  imp_len : g.imports.length ≤ g'.imports.length

theorem Ext.refl (g : Graph) : Ext g g := ⟨fun _ _ => rfl, Nat.le_refl _, fun _ _ => rfl, Nat.le_refl _⟩

theorem Ext.trans {a b c : Graph} (h₁ : Ext a b) (h₂ : Ext b c) : Ext a c where
  src i hi := by rw [h₂.src i (Nat.lt_of_lt_of_le hi h₁.len), h₁.src i hi]
  len := Nat.le_trans h₁.len h₂.len
  imp i hi := by rw [h₂.imp i (Nat.lt_of_lt_of_le hi h₁.imp_len), h₁.imp i hi]
  imp_len := Nat.le_trans h₁.imp_len h₂.imp_len

theorem Ext.alloc (g : Graph) (file : Nat) : Ext g (g.alloc file) where
  src i hi := by rw [alloc_sources, List.getElem?_append_left hi]
  len := by simp
  imp i _ := rfl
  imp_len := Nat.le_refl _

theorem Ext.addImport (g : Graph) (a b : Nat) : Ext g (g.addImport a b) where
  src i _ := rfl
  len := Nat.le_refl _
  imp i hi := by rw [addImport_imports, List.getElem?_append_left hi]
  imp_len := by simp

theorem Ext.imp_some {g g' : Graph} (h : Ext g g') {i : Nat} {e : Nat × Nat}
    (he : g.imports[i]? = some e) : g'.imports[i]? = some e := by
  rw [h.imp i (List.getElem?_eq_some_iff.1 he).1, he]

theorem Ext.src_some {g g' : Graph} (h : Ext g g') {i : Nat} {n : Node}
    (he : g.sources[i]? = some n) : g'.sources[i]? = some n := by
  rw [h.src i (List.getElem?_eq_some_iff.1 he).1, he]

theorem Ext.impFile {g g' : Graph} (h : Ext g g') (hw : g.Wf) {i a b : Nat}
    (he : g.imports[i]? = some (a, b)) : g'.impFile i = g.impFile i := by
  unfold Graph.impFile
  rw [h.imp_some he, he]
  simp only [Option.bind_some]
  rw [h.src b (hw.import_range i a b he).2]

theorem Wf.empty : ({} : Graph).Wf where
  import_range i a b h := by simp at h
  listed_range s n h := by simp at h
  sig_range s n t h := by simp at h

theorem Wf.alloc {g : Graph} (h : g.Wf) (file : Nat) : (g.alloc file).Wf where
  import_range i a b he := by
    have := h.import_range i a b he
    simp only [alloc_sources, List.length_append, List.length_singleton]
    omega
  listed_range s n hs := by
    by_cases hlt : s < g.sources.length
    · rw [alloc_sources, List.getElem?_append_left hlt] at hs
      exact h.listed_range s n hs
    · have : s = g.sources.length := by
        have := (List.getElem?_eq_some_iff.1 hs).1
        simp only [alloc_sources, List.length_append, List.length_singleton] at this
        omega
      subst this
      simp only [alloc_sources, List.getElem?_concat_length, Option.some.injEq] at hs
      subst hs
      intro i hi
      cases hi
  sig_range s n t hs ht := by
    by_cases hlt : s < g.sources.length
    · rw [alloc_sources, List.getElem?_append_left hlt] at hs
      have := h.sig_range s n t hs ht
      simp only [alloc_sources, List.length_append, List.length_singleton]
      omega
    · have : s = g.sources.length := by
        have := (List.getElem?_eq_some_iff.1 hs).1
        simp only [alloc_sources, List.length_append, List.length_singleton] at this
        omega
      subst this
      simp only [alloc_sources, List.getElem?_concat_length, Option.some.injEq] at hs
      subst hs
      cases ht

theorem Wf.addImport {g : Graph} (h : g.Wf) {a b : Nat} (ha : a < g.sources.length)
    (hb : b < g.sources.length) : (g.addImport a b).Wf where
  import_range i x y he := by
    by_cases hlt : i < g.imports.length
    · rw [addImport_imports, List.getElem?_append_left hlt] at he
      exact h.import_range i x y he
    · have : i = g.imports.length := by
        have := (List.getElem?_eq_some_iff.1 he).1
        simp only [addImport_imports, List.length_append, List.length_singleton] at this
        omega
      subst this
      simp only [addImport_imports, List.getElem?_concat_length, Option.some.injEq, Prod.mk.injEq] at he
      obtain ⟨rfl, rfl⟩ := he
      exact ⟨ha, hb⟩
  listed_range s n hs i hi := by
    obtain ⟨y, hy⟩ := h.listed_range s n hs i hi
    exact ⟨y, (Ext.addImport g a b).imp_some hy⟩
  sig_range s n t hs ht := h.sig_range s n t hs ht

/-- node `s` says what its file says -/
def Finished (w : World) (g : Graph) (s : Nat) : Prop :=
  ∃ n spec, g.sources[s]? = some n ∧ w[n.file]? = some spec ∧ n.imports.map g.impFile = spec.imports ∧
    (n.signature.bind fun t => g.sources[t]?.map (·.file)) = spec.companion

theorem Finished.ext {w : World} {g g' : Graph} {s : Nat} (h : Finished w g s) (hw : g.Wf)
    (he : Ext g g') : Finished w g' s := by
  obtain ⟨n, spec, hn, hspec, himp, hsig⟩ := h
  refine ⟨n, spec, he.src_some hn, hspec, ?_, ?_⟩
  · rw [← himp]
    apply List.map_congr_left
    intro i hi
    obtain ⟨b, hb⟩ := hw.listed_range s n hn i hi
    exact he.impFile hw hb
  · rw [← hsig]
    cases ht : n.signature with
    | none => rfl
    | some t =>
      simp only [Option.bind_some]
      rw [he.src t (hw.sig_range s n t hn ht)]

theorem Finished.finish {w : World} {g : Graph} {s : Nat} (h : Finished w g s) {sid : Nat}
    (hne : s ≠ sid) (ids : List Nat) (sig : Option Nat) : Finished w (g.finish sid ids sig) s := by
  obtain ⟨n, spec, hn, hspec, himp, hsig⟩ := h
  refine ⟨n, spec, ?_, hspec, ?_, ?_⟩
  · rw [finish_getElem?, if_neg hne, hn]
  · rw [impFile_finish]; exact himp
  · simp only [finish_getElem?_file]; exact hsig

/-! ### Loader: what a successful call establishes -/

structure FilePost (w : World) (g : Graph) (file : Nat) (g' : Graph) (sid' : Nat) : Prop where
  sinv : SInv w g'
  wf : g'.Wf
  ext : Ext g g'
  file_at : g'.sources[sid']?.map (·.file) = some file
  fin : ∀ s, g.sources.length ≤ s → s < g'.sources.length → Finished w g' s

structure ImportsPost (w : World) (g : Graph) (sid : Nat) (l : List (Option Nat)) (acc : List Nat)
    (g' : Graph) (ids : List Nat) : Prop where
  sinv : SInv w g'
  wf : g'.Wf
  ext : Ext g g'
  fin : ∀ s, g.sources.length ≤ s → s < g'.sources.length → Finished w g' s
  ids : ∃ newids, ids = acc ++ newids ∧ (∀ i ∈ newids, ∃ b, g'.imports[i]? = some (sid, b)) ∧
    newids.map g'.impFile = l

theorem lt_of_file_at {g : Graph} {s f : Nat} (h : g.sources[s]?.map (·.file) = some f) :
    s < g.sources.length := by
  cases hs : g.sources[s]? with
  | none => rw [hs] at h; cases h
  | some n => exact (List.getElem?_eq_some_iff.1 hs).1

theorem load_imports_of {w : World} {n : Nat}
    (hF : ∀ g file g' sid', SInv w g → g.Wf → w.length + 1 ≤ n + g.sources.length →
      loadFile w n g file = .ok (g', sid') → FilePost w g file g' sid') :
    ∀ (l : List (Option Nat)) (g : Graph) (sid pos : Nat) (acc : List Nat) (g' : Graph) (ids : List Nat),
      SInv w g → g.Wf → w.length + 1 ≤ n + g.sources.length → sid < g.sources.length →
      loadImports w n g sid l pos acc = .ok (g', ids) → ImportsPost w g sid l acc g' ids := by
  intro l
  induction l with
  | nil =>
    intro g sid pos acc g' ids hs hw _ _ h
    rw [loadImports_nil] at h
    simp only [Except.ok.injEq, Prod.mk.injEq] at h
    obtain ⟨rfl, rfl⟩ := h
    exact ⟨hs, hw, Ext.refl _, fun s h1 h2 => absurd h2 (Nat.not_lt.2 h1), [], by simp, fun _ h => (by cases h), rfl⟩
  | cons o rest ih =>
    intro g sid pos acc g' ids hs hw hfuel hsid h
    cases o with
    | none => rw [loadImports_none] at h; cases h
    | some t =>
      obtain ⟨g1, imported, hf, hr⟩ := loadImports_ok_inv h
      have P1 := hF g t g1 imported hs hw hfuel hf
      have himp : imported < g1.sources.length := lt_of_file_at P1.file_at
      have hsid1 : sid < g1.sources.length := Nat.lt_of_lt_of_le hsid P1.ext.len
      have hs2 : SInv w (g1.addImport sid imported) := P1.sinv.congr rfl (fun _ => rfl)
      have hw2 : (g1.addImport sid imported).Wf := Wf.addImport P1.wf hsid1 himp
      have he2 : Ext g1 (g1.addImport sid imported) := Ext.addImport _ _ _
      have IP := ih (g1.addImport sid imported) sid (pos + 1) (acc ++ [g1.imports.length]) g' ids hs2 hw2
        (by have := P1.ext.len; simp only [addImport_sources]; omega) hsid1 hr
      have he1' : Ext g1 g' := he2.trans IP.ext
      refine ⟨IP.sinv, IP.wf, P1.ext.trans he1', ?_, ?_⟩
      · intro s h1 h2
        by_cases hlt : s < g1.sources.length
        · exact (P1.fin s h1 hlt).ext P1.wf he1'
        · exact IP.fin s (by simpa using Nat.not_lt.1 hlt) h2
      · obtain ⟨newids, hids, hedge, hmap⟩ := IP.ids
        have hiid : (g1.addImport sid imported).imports[g1.imports.length]? = some (sid, imported) := by
          simp
        refine ⟨g1.imports.length :: newids, by rw [hids, List.append_assoc]; rfl, ?_, ?_⟩
        · intro i hi
          rcases List.mem_cons.1 hi with rfl | hi
          · exact ⟨imported, IP.ext.imp_some hiid⟩
          · exact hedge i hi
        · rw [List.map_cons, hmap, IP.ext.impFile hw2 hiid]
          unfold Graph.impFile
          rw [hiid]
          simp only [Option.bind_some, addImport_sources]
          rw [P1.file_at]

theorem sigStep_post {w : World} {n : Nat}
    (hF : ∀ g file g' sid', SInv w g → g.Wf → w.length + 1 ≤ n + g.sources.length →
      loadFile w n g file = .ok (g', sid') → FilePost w g file g' sid')
    {g2 g3 : Graph} {spec : FileSpec} {sig : Option Nat} (hs : SInv w g2) (hw : g2.Wf)
    (hfuel : w.length + 1 ≤ n + g2.sources.length) (h : SigStep w n g2 spec g3 sig) :
    SInv w g3 ∧ g3.Wf ∧ Ext g2 g3 ∧
      (∀ s, g2.sources.length ≤ s → s < g3.sources.length → Finished w g3 s) ∧
      (sig.bind fun t => g3.sources[t]?.map (·.file)) = spec.companion ∧
      (∀ t, sig = some t → t < g3.sources.length) := by
  cases h with
  | none hc =>
    exact ⟨hs, hw, Ext.refl _, fun s h1 h2 => absurd h2 (Nat.not_lt.2 h1), hc.symm, fun t ht => by cases ht⟩
  | seen c s hc hl =>
    have := hs.seen_some c s hl
    rw [files_getElem?] at this
    refine ⟨hs, hw, Ext.refl _, fun s h1 h2 => absurd h2 (Nat.not_lt.2 h1), ?_, ?_⟩
    · rw [hc]; exact this
    · intro t ht
      cases ht
      exact lt_of_file_at this
  | load c s g3 hc _ hf =>
    have P := hF g2 c g3 s hs hw hfuel hf
    refine ⟨P.sinv, P.wf, P.ext, P.fin, ?_, ?_⟩
    · rw [hc]; exact P.file_at
    · intro t ht
      cases ht
      exact lt_of_file_at P.file_at

theorem load_file (w : World) : ∀ (n : Nat) (g : Graph) (file : Nat) (g' : Graph) (sid' : Nat),
    SInv w g → g.Wf → w.length + 1 ≤ n + g.sources.length →
    loadFile w n g file = .ok (g', sid') → FilePost w g file g' sid' := by
  intro n
  induction n with
  | zero =>
    intro g file g' sid' _ _ _ h
    rw [loadFile_zero] at h
    cases h
  | succ n ih =>
    intro g file g' sid' hs hw hfuel h
    rcases loadFile_ok_inv h with ⟨hl, rfl⟩ | ⟨hl, rfl, spec, g2, ids, g3, sig, hspec, hi, hstep, rfl⟩
    · have := hs.seen_some file sid' hl
      rw [files_getElem?] at this
      exact ⟨hs, hw, Ext.refl _, this, fun s h1 h2 => absurd h2 (Nat.not_lt.2 h1)⟩
    · have hflt : file < w.length := (List.getElem?_eq_some_iff.1 hspec).1
      have hs1 : SInv w (g.alloc file) := hs.alloc hl hflt
      have hw1 : (g.alloc file).Wf := Wf.alloc hw file
      have hlen1 : (g.alloc file).sources.length = g.sources.length + 1 := by simp
      have IP := load_imports_of ih spec.imports (g.alloc file) g.sources.length 0 [] g2 ids hs1 hw1
        (by omega) (by omega) hi
      have hlen2 := IP.ext.len
      obtain ⟨hs3, hw3, he23, hfin3, hsig, hsiglt⟩ := sigStep_post ih IP.sinv IP.wf (by omega) hstep
      have hlen3 := he23.len
      have he13 : Ext (g.alloc file) g3 := IP.ext.trans he23
      have he03 : Ext g g3 := (Ext.alloc g file).trans he13
      have hnode : g3.sources[g.sources.length]? = some { file } :=
        he13.src_some (by simp)
      obtain ⟨newids, hids, hedge, hmap⟩ := IP.ids
      rw [List.nil_append] at hids
      subst hids
      have hedge3 : ∀ i ∈ ids, ∃ b, g3.imports[i]? = some (g.sources.length, b) := by
        intro i hi
        obtain ⟨b, hb⟩ := hedge i hi
        exact ⟨b, he23.imp_some hb⟩
      have hmap3 : ids.map g3.impFile = spec.imports := by
        rw [← hmap]
        apply List.map_congr_left
        intro i hi
        obtain ⟨b, hb⟩ := hedge i hi
        exact he23.impFile IP.wf hb
      have hnode' : (g3.finish g.sources.length ids sig).sources[g.sources.length]? =
          some { file := file, imports := ids, signature := sig } := by
        rw [finish_getElem?, if_pos rfl, hnode]
        rfl
      refine ⟨hs3.congr (by simp) (fun _ => rfl), ⟨?_, ?_, ?_⟩, ⟨?_, ?_, ?_, ?_⟩, ?_, ?_⟩
      · intro i a b he
        rw [finish_length]
        exact hw3.import_range i a b he
      · intro s nd hnd i hi
        by_cases hsid : s = g.sources.length
        · subst hsid
          rw [hnode'] at hnd
          cases hnd
          exact hedge3 i hi
        · rw [finish_getElem?, if_neg hsid] at hnd
          exact hw3.listed_range s nd hnd i hi
      · intro s nd t hnd ht
        rw [finish_length]
        by_cases hsid : s = g.sources.length
        · subst hsid
          rw [hnode'] at hnd
          cases hnd
          exact hsiglt t ht
        · rw [finish_getElem?, if_neg hsid] at hnd
          exact hw3.sig_range s nd t hnd ht
      · intro i hi
        rw [finish_getElem?, if_neg (Nat.ne_of_lt hi)]
        exact he03.src i hi
      · rw [finish_length]; exact he03.len
      · intro i hi
        exact he03.imp i hi
      · exact he03.imp_len
      · rw [hnode']; rfl
      · intro s h1 h2
        rw [finish_length] at h2
        by_cases hsid : s = g.sources.length
        · subst hsid
          refine ⟨_, spec, hnode', hspec, ?_, ?_⟩
          · rw [impFile_finish]; exact hmap3
          · simp only [finish_getElem?_file]; exact hsig
        · refine Finished.finish ?_ hsid ids sig
          by_cases hlt : s < g2.sources.length
          · exact (IP.fin s (by omega) hlt).ext IP.wf he23
          · exact hfin3 s (by omega) h2

/-! ### Loader: failures -/

theorem total_imports_of {w : World} {n : Nat}
    (hE : ∀ g file e, SInv w g → g.Wf → w.length + 1 ≤ n + g.sources.length → file < w.length →
      loadFile w n g file = .error e → ∃ f p, e = .missingImport f p) :
    ∀ (l : List (Option Nat)) (g : Graph) (sid pos : Nat) (acc : List Nat) (e : LoadError),
      SInv w g → g.Wf → w.length + 1 ≤ n + g.sources.length → sid < g.sources.length →
      loadImports w n g sid l pos acc = .error e → ∃ f p, e = .missingImport f p := by
  intro l
  induction l with
  | nil =>
    intro g sid pos acc e _ _ _ _ h
    rw [loadImports_nil] at h
    cases h
  | cons o rest ih =>
    intro g sid pos acc e hs hw hfuel hsid h
    cases o with
    | none =>
      rw [loadImports_none] at h
      simp only [Except.error.injEq] at h
      exact ⟨_, _, h.symm⟩
    | some t =>
      rcases loadImports_error_inv h with hm | ⟨hlt, hf⟩ | ⟨g1, imported, hf, hr⟩
      · exact hm
      · exact hE g t e hs hw hfuel hlt hf
      · have P1 := load_file w n g t g1 imported hs hw hfuel hf
        have himp : imported < g1.sources.length := lt_of_file_at P1.file_at
        have hsid1 : sid < g1.sources.length := Nat.lt_of_lt_of_le hsid P1.ext.len
        exact ih (g1.addImport sid imported) sid (pos + 1) (acc ++ [g1.imports.length]) e
          (P1.sinv.congr rfl (fun _ => rfl)) (Wf.addImport P1.wf hsid1 himp)
          (by have := P1.ext.len; simp only [addImport_sources]; omega) hsid1 hr

theorem total_file {w : World}
    (hc : ∀ (f : Nat) (spec : FileSpec), w[f]? = some spec → ∀ c, spec.companion = some c → c < w.length) :
    ∀ (n : Nat) (g : Graph) (file : Nat) (e : LoadError), SInv w g → g.Wf →
      w.length + 1 ≤ n + g.sources.length → file < w.length →
      loadFile w n g file = .error e → ∃ f p, e = .missingImport f p := by
  intro n
  induction n with
  | zero =>
    intro g file e hs _ hfuel _ _
    have := hs.length_le
    omega
  | succ n ih =>
    intro g file e hs hw hfuel hlt h
    have hs1 : ∀ (hl : g.lookupSeen file = none), SInv w (g.alloc file) := fun hl => hs.alloc hl hlt
    rcases loadFile_error_inv h with ⟨hnone, _⟩ | ⟨spec, hspec, hi | ⟨g2, ids, c, hi, hcomp, hf⟩⟩
    · rw [List.getElem?_eq_none_iff] at hnone
      omega
    · by_cases hl : g.lookupSeen file = none
      · exact total_imports_of ih spec.imports (g.alloc file) g.sources.length 0 [] e (hs1 hl)
          (Wf.alloc hw file) (by simp only [alloc_sources, List.length_append, List.length_singleton]; omega)
          (by simp) hi
      · exfalso
        rw [loadFile_succ] at h
        cases hl' : g.lookupSeen file with
        | none => exact hl hl'
        | some s => rw [hl'] at h; cases h
    · by_cases hl : g.lookupSeen file = none
      · have IP := load_imports_of (load_file w n) spec.imports (g.alloc file) g.sources.length 0 [] g2 ids
          (hs1 hl) (Wf.alloc hw file)
          (by simp only [alloc_sources, List.length_append, List.length_singleton]; omega) (by simp) hi
        have hlen2 := IP.ext.len
        simp only [alloc_sources, List.length_append, List.length_singleton] at hlen2
        exact ih g2 c e IP.sinv IP.wf (by omega) (hc file spec hspec c hcomp) hf
      · exfalso
        rw [loadFile_succ] at h
        cases hl' : g.lookupSeen file with
        | none => exact hl hl'
        | some s => rw [hl'] at h; cases h

theorem load_total_pf : ZV.Props.C09.Statement.load_total := by
  intro w root e hc hlt h
  exact total_file hc (w.length + 1) {} root e (SInv.empty w) Wf.empty (by simp) hlt h

theorem load_spec_pf : ZV.Props.C09.Statement.load_spec := by
  intro w root g r _ h
  have P := load_file w (w.length + 1) {} root g r (SInv.empty w) Wf.empty (by simp) h
  refine ⟨P.wf, P.sinv.files_nodup, P.file_at, ?_⟩
  intro s n hn
  obtain ⟨n', spec, hn', hspec, himp, hsig⟩ := P.fin s (Nat.zero_le _) (List.getElem?_eq_some_iff.1 hn).1
  rw [hn] at hn'
  cases hn'
  exact ⟨spec, hspec, himp, hsig⟩

end ZV.SourceGraph
