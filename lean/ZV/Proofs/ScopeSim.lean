/-
C07, part three: the reference semantics cannot tell a term from its canonical form. Values,
terminal forms and results are related up to the renaming of the code inside closures; the two
evaluations proceed in lockstep at every fuel.
-/
import ZV.Proofs.ScopeAccept

namespace ZV.ZCore.Sc
open ZV.ZCore ZV.Numeric ZV.Machine

theorem renv_get_cons (E : REnv) (x : Nat) (v : RVal) (y : Nat) :
    REnv.get? ((x, v) :: E) y = if x = y then some v else REnv.get? E y := by
  simp only [REnv.get?, List.find?_cons]
  by_cases h : x = y
  · simp [h]
  · have : (x == y) = false := by simpa using h
    simp [h, this]

/-- Values up to renaming of the code they capture. A closure over `m` in environment `E` is
related to one over `m'` in `E'` when `m'` is the canonical form of `m` under some renaming through
which the environments agree. -/
inductive VRel : RVal → RVal → Prop
  | unit : VRel .unit .unit
  | int (t : IntTy) (x : BitVec t.width) : VRel (.int t x) (.int t x)
  | str (s : List Char) : VRel (.str s) (.str s)
  | pair {a a' b b' : RVal} : VRel a a' → VRel b b' → VRel (.pair a b) (.pair a' b')
  | ctor (k : String) {a a' : RVal} : VRel a a' → VRel (.ctor k a) (.ctor k a')
  | thunk {n : Nat} {ρ : Ren} {m m' : C} {E E' : REnv} : canonC n ρ m = some m' → RenBound n ρ →
      (∀ x k, ρ.get? x = some k → (REnv.get? E x).isSome ∧ (REnv.get? E' k).isSome) →
      (∀ x k v v', ρ.get? x = some k → REnv.get? E x = some v → REnv.get? E' k = some v' →
        VRel v v') →
      VRel (.thunk m E) (.thunk m' E')

/-- environments agree through the renaming -/
def EnvRel (ρ : Ren) (E E' : REnv) : Prop :=
  ∀ x k, ρ.get? x = some k → ∃ v v', REnv.get? E x = some v ∧ REnv.get? E' k = some v' ∧ VRel v v'

theorem EnvRel.nil : EnvRel [] [] [] := by
  intro x k h; simp [ren_get_nil] at h

theorem EnvRel.cons {n : Nat} {ρ : Ren} {E E' : REnv} (hb : RenBound n ρ) (h : EnvRel ρ E E')
    (x : Nat) {v v' : RVal} (hv : VRel v v') :
    EnvRel ((x, n) :: ρ) ((x, v) :: E) ((n, v') :: E') := by
  intro y k hy
  rw [ren_get_cons] at hy
  rw [renv_get_cons, renv_get_cons]
  by_cases hxy : x = y
  · simp only [hxy, if_true, Option.some.injEq] at hy
    exact ⟨v, v', by simp [hxy], by simp [hy], hv⟩
  · simp only [hxy, if_false] at hy ⊢
    have hk := hb y k hy
    have hnk : ¬ n = k := by omega
    simp only [hnk, if_false]
    exact h y k hy

theorem EnvRel.of_raw {ρ : Ren} {E E' : REnv}
    (h1 : ∀ x k, ρ.get? x = some k → (REnv.get? E x).isSome ∧ (REnv.get? E' k).isSome)
    (h2 : ∀ x k v v', ρ.get? x = some k → REnv.get? E x = some v → REnv.get? E' k = some v' →
      VRel v v') : EnvRel ρ E E' := by
  intro x k hk
  obtain ⟨a, b⟩ := h1 x k hk
  obtain ⟨v, hv⟩ := Option.isSome_iff_exists.1 a
  obtain ⟨v', hv'⟩ := Option.isSome_iff_exists.1 b
  exact ⟨v, v', hv, hv', h2 x k v v' hk hv hv'⟩

theorem VRel.mkThunk {n : Nat} {ρ : Ren} {m m' : C} {E E' : REnv} (hm : canonC n ρ m = some m')
    (hb : RenBound n ρ) (he : EnvRel ρ E E') : VRel (.thunk m E) (.thunk m' E') := by
  refine .thunk hm hb ?_ ?_
  · intro x k hk
    obtain ⟨v, v', h1, h2, _⟩ := he x k hk
    simp [h1, h2]
  · intro x k v v' hk h1 h2
    obtain ⟨w, w', g1, g2, hw⟩ := he x k hk
    rw [h1] at g1; rw [h2] at g2
    cases g1; cases g2; exact hw

/-- values of a term and of its canonical form, in related environments -/
theorem relV : ∀ (v : V) (n : Nat) (ρ : Ren) (E E' : REnv) (v' : V), canonV n ρ v = some v' →
    RenBound n ρ → EnvRel ρ E E' →
    ∃ a a', evalRV E v = some a ∧ evalRV E' v' = some a' ∧ VRel a a'
  | .var x, n, ρ, E, E', v', h, hb, he => by
    simp only [canonV, Option.map_eq_some_iff] at h
    obtain ⟨k, hk, rfl⟩ := h
    obtain ⟨a, a', h1, h2, hr⟩ := he x k hk
    exact ⟨a, a', by simp [evalRV, h1], by simp [evalRV, h2], hr⟩
  | .unit, n, ρ, E, E', v', h, hb, he => by
    simp only [canonV] at h; cases h; exact ⟨_, _, rfl, rfl, .unit⟩
  | .int t x, n, ρ, E, E', v', h, hb, he => by
    simp only [canonV] at h; cases h; exact ⟨_, _, rfl, rfl, .int t x⟩
  | .str s, n, ρ, E, E', v', h, hb, he => by
    simp only [canonV] at h; cases h; exact ⟨_, _, rfl, rfl, .str s⟩
  | .pair p q, n, ρ, E, E', v', h, hb, he => by
    simp only [canonV] at h
    obtain ⟨p', hp, h⟩ := obind h
    obtain ⟨q', hq, h⟩ := obind h
    cases h
    obtain ⟨a, a', h1, h2, hr⟩ := relV p n ρ E E' p' hp hb he
    obtain ⟨b, b', g1, g2, gr⟩ := relV q n ρ E E' q' hq hb he
    exact ⟨_, _, by simp [evalRV, h1, g1], by simp [evalRV, h2, g2], .pair hr gr⟩
  | .ctor d k arg, n, ρ, E, E', v', h, hb, he => by
    simp only [canonV] at h
    obtain ⟨p', hp, h⟩ := obind h
    cases h
    obtain ⟨a, a', h1, h2, hr⟩ := relV arg n ρ E E' p' hp hb he
    exact ⟨_, _, by simp [evalRV, h1], by simp [evalRV, h2], .ctor k hr⟩
  | .thunk m b, n, ρ, E, E', v', h, hb, he => by
    simp only [canonV] at h
    obtain ⟨m', hm, h⟩ := obind h
    cases h
    exact ⟨_, _, rfl, rfl, .mkThunk hm hb he⟩

/-- terminal forms up to renaming of captured code -/
inductive TRel : RTerm → RTerm → Prop
  | ret {v v' : RVal} : VRel v v' → TRel (.ret v) (.ret v')
  | lam {n : Nat} {ρ : Ren} {x : Nat} {m m' : C} {E E' : REnv} :
      canonC (n + 1) ((x, n) :: ρ) m = some m' → RenBound n ρ → EnvRel ρ E E' →
      TRel (.lam x m E) (.lam n m' E')
  | cocase {n : Nat} {ρ : Ren} {arms arms' : List (String × C)} {E E' : REnv} :
      canonCoArms n ρ arms = some arms' → RenBound n ρ → EnvRel ρ E E' →
      TRel (.cocase arms E) (.cocase arms' E')
  | exit (code : Int) : TRel (.exit code) (.exit code)
  | trap : TRel .trap .trap
  | wrong : TRel .wrong .wrong

/-- results: both out of fuel, or related terminal forms with the same output -/
inductive ResRel : Option (RTerm × Host.Bytes) → Option (RTerm × Host.Bytes) → Prop
  | none : ResRel none none
  | some {t t' : RTerm} {o : Host.Bytes} : TRel t t' → ResRel (some (t, o)) (some (t', o))

/-- the simulation at one fuel -/
def Sim (fuel : Nat) : Prop :=
  ∀ (n : Nat) (ρ : Ren) (E E' : REnv) (m m' : C) (out : Host.Bytes), canonC n ρ m = some m' →
    RenBound n ρ → EnvRel ρ E E' → ResRel (evalRC fuel E m out) (evalRC fuel E' m' out)

theorem arms_find : ∀ (arms : List (String × Nat × C)) (n : Nat) (ρ : Ren)
    (arms' : List (String × Nat × C)), canonArms n ρ arms = some arms' → ∀ k : String,
    (arms.find? (·.1 == k) = none ∧ arms'.find? (·.1 == k) = none) ∨
    ∃ k0 x m m', arms.find? (·.1 == k) = some (k0, x, m) ∧
      arms'.find? (·.1 == k) = some (k0, n, m') ∧ canonC (n + 1) ((x, n) :: ρ) m = some m'
  | [], n, ρ, arms', h, k => by simp only [canonArms] at h; cases h; exact .inl ⟨rfl, rfl⟩
  | (k0, x, m) :: rest, n, ρ, arms', h, k => by
    simp only [canonArms] at h
    obtain ⟨m', hm, h⟩ := obind h
    obtain ⟨rest', hr, h⟩ := obind h
    cases h
    simp only [List.find?_cons]
    by_cases hk : (k0 == k) = true
    · simp only [hk]
      exact .inr ⟨k0, x, m, m', rfl, rfl, hm⟩
    · have hk' : (k0 == k) = false := by simpa using hk
      simp only [hk']
      exact arms_find rest n ρ rest' hr k

theorem coarms_find : ∀ (arms : List (String × C)) (n : Nat) (ρ : Ren)
    (arms' : List (String × C)), canonCoArms n ρ arms = some arms' → ∀ k : String,
    (arms.find? (·.1 == k) = none ∧ arms'.find? (·.1 == k) = none) ∨
    ∃ k0 m m', arms.find? (·.1 == k) = some (k0, m) ∧
      arms'.find? (·.1 == k) = some (k0, m') ∧ canonC n ρ m = some m'
  | [], n, ρ, arms', h, k => by simp only [canonCoArms] at h; cases h; exact .inl ⟨rfl, rfl⟩
  | (k0, m) :: rest, n, ρ, arms', h, k => by
    simp only [canonCoArms] at h
    obtain ⟨m', hm, h⟩ := obind h
    obtain ⟨rest', hr, h⟩ := obind h
    cases h
    simp only [List.find?_cons]
    by_cases hk : (k0 == k) = true
    · simp only [hk]
      exact .inr ⟨k0, m, m', rfl, rfl, hm⟩
    · have hk' : (k0 == k) = false := by simpa using hk
      simp only [hk']
      exact coarms_find rest n ρ rest' hr k

/-! ### One step of the simulation, constructor by constructor -/

section cases
variable {fuel n : Nat} {ρ : Ren} {E E' : REnv} {c : C} {out : Host.Bytes}

theorem sim_ret {v : V} (h : canonC n ρ (.ret v) = some c) (hb : RenBound n ρ)
    (he : EnvRel ρ E E') : ResRel (evalRC (fuel + 1) E (.ret v) out) (evalRC (fuel + 1) E' c out) := by
  simp only [canonC] at h
  obtain ⟨v', hv, h⟩ := obind h
  cases h
  obtain ⟨a, a', h1, h2, hr⟩ := relV v n ρ E E' v' hv hb he
  simp only [evalRC, h1, h2]
  exact .some (.ret hr)

theorem sim_bind (ih : Sim fuel) {x : Nat} {a : VTy} {m k : C}
    (h : canonC n ρ (.bind x a m k) = some c) (hb : RenBound n ρ) (he : EnvRel ρ E E') :
    ResRel (evalRC (fuel + 1) E (.bind x a m k) out) (evalRC (fuel + 1) E' c out) := by
  simp only [canonC] at h
  obtain ⟨m', hm, h⟩ := obind h
  obtain ⟨k', hk, h⟩ := obind h
  cases h
  simp only [evalRC]
  have h1 := ih n ρ E E' m m' out hm hb he
  generalize evalRC fuel E m out = r at h1
  generalize evalRC fuel E' m' out = r' at h1
  cases h1 with
  | none => exact .none
  | some ht =>
    cases ht with
    | ret hv => exact ih (n + 1) _ _ _ k k' _ hk (hb.cons x) (he.cons hb x hv)
    | lam _ _ _ => exact .some .wrong
    | cocase _ _ _ => exact .some .wrong
    | exit code => exact .some (.exit code)
    | trap => exact .some .trap
    | wrong => exact .some .wrong

theorem sim_clet (ih : Sim fuel) {x : Nat} {v : V} {m : C}
    (h : canonC n ρ (.clet x v m) = some c) (hb : RenBound n ρ) (he : EnvRel ρ E E') :
    ResRel (evalRC (fuel + 1) E (.clet x v m) out) (evalRC (fuel + 1) E' c out) := by
  simp only [canonC] at h
  obtain ⟨v', hv, h⟩ := obind h
  obtain ⟨m', hm, h⟩ := obind h
  cases h
  obtain ⟨a, a', h1, h2, hr⟩ := relV v n ρ E E' v' hv hb he
  simp only [evalRC, h1, h2]
  exact ih (n + 1) _ _ _ m m' _ hm (hb.cons x) (he.cons hb x hr)

theorem sim_letPair (ih : Sim fuel) {x y : Nat} {v : V} {m : C}
    (h : canonC n ρ (.letPair x y v m) = some c) (hb : RenBound n ρ) (he : EnvRel ρ E E') :
    ResRel (evalRC (fuel + 1) E (.letPair x y v m) out) (evalRC (fuel + 1) E' c out) := by
  simp only [canonC] at h
  obtain ⟨v', hv, h⟩ := obind h
  obtain ⟨m', hm, h⟩ := obind h
  cases h
  obtain ⟨a, a', h1, h2, hr⟩ := relV v n ρ E E' v' hv hb he
  simp only [evalRC, h1, h2]
  cases hr with
  | pair hp hq =>
    exact ih (n + 2) _ _ _ m m' _ hm ((hb.cons x).cons y) ((he.cons hb x hp).cons (hb.cons x) y hq)
  | unit => exact .some .wrong
  | int _ _ => exact .some .wrong
  | str _ => exact .some .wrong
  | ctor _ _ => exact .some .wrong
  | thunk _ _ _ _ => exact .some .wrong

theorem sim_fn {x : Nat} {a : VTy} {m : C}
    (h : canonC n ρ (.fn x a m) = some c) (hb : RenBound n ρ) (he : EnvRel ρ E E') :
    ResRel (evalRC (fuel + 1) E (.fn x a m) out) (evalRC (fuel + 1) E' c out) := by
  simp only [canonC] at h
  obtain ⟨m', hm, h⟩ := obind h
  cases h
  simp only [evalRC]
  exact .some (.lam hm hb he)

theorem sim_app (ih : Sim fuel) {m : C} {v : V}
    (h : canonC n ρ (.app m v) = some c) (hb : RenBound n ρ) (he : EnvRel ρ E E') :
    ResRel (evalRC (fuel + 1) E (.app m v) out) (evalRC (fuel + 1) E' c out) := by
  simp only [canonC] at h
  obtain ⟨m', hm, h⟩ := obind h
  obtain ⟨v', hv, h⟩ := obind h
  cases h
  obtain ⟨a, a', h1, h2, hr⟩ := relV v n ρ E E' v' hv hb he
  simp only [evalRC, h1, h2]
  have g := ih n ρ E E' m m' out hm hb he
  generalize evalRC fuel E m out = r at g
  generalize evalRC fuel E' m' out = r' at g
  cases g with
  | none => exact .none
  | some ht =>
    cases ht with
    | ret _ => exact .some .wrong
    | lam hbody hb0 he0 => exact ih _ _ _ _ _ _ _ hbody (hb0.cons _) (he0.cons hb0 _ hr)
    | cocase _ _ _ => exact .some .wrong
    | exit code => exact .some (.exit code)
    | trap => exact .some .trap
    | wrong => exact .some .wrong

theorem sim_force (ih : Sim fuel) {v : V}
    (h : canonC n ρ (.force v) = some c) (hb : RenBound n ρ) (he : EnvRel ρ E E') :
    ResRel (evalRC (fuel + 1) E (.force v) out) (evalRC (fuel + 1) E' c out) := by
  simp only [canonC] at h
  obtain ⟨v', hv, h⟩ := obind h
  cases h
  obtain ⟨a, a', h1, h2, hr⟩ := relV v n ρ E E' v' hv hb he
  simp only [evalRC, h1, h2]
  cases hr with
  | thunk hm hb0 r1 r2 => exact ih _ _ _ _ _ _ _ hm hb0 (EnvRel.of_raw r1 r2)
  | unit => exact .some .wrong
  | int _ _ => exact .some .wrong
  | str _ => exact .some .wrong
  | ctor _ _ => exact .some .wrong
  | pair _ _ => exact .some .wrong

theorem sim_fix (ih : Sim fuel) {f : Nat} {b : CTy} {m : C}
    (h : canonC n ρ (.fix f b m) = some c) (hb : RenBound n ρ) (he : EnvRel ρ E E') :
    ResRel (evalRC (fuel + 1) E (.fix f b m) out) (evalRC (fuel + 1) E' c out) := by
  have h0 := h
  simp only [canonC] at h
  obtain ⟨m', hm, h⟩ := obind h
  cases h
  simp only [evalRC]
  exact ih (n + 1) _ _ _ m m' _ hm (hb.cons f) (he.cons hb f (.mkThunk h0 hb he))

theorem sim_case (ih : Sim fuel) {v : V} {d : Nat} {arms : List (String × Nat × C)} {b : CTy}
    (h : canonC n ρ (.case v d arms b) = some c) (hb : RenBound n ρ) (he : EnvRel ρ E E') :
    ResRel (evalRC (fuel + 1) E (.case v d arms b) out) (evalRC (fuel + 1) E' c out) := by
  simp only [canonC] at h
  obtain ⟨v', hv, h⟩ := obind h
  obtain ⟨arms', ha, h⟩ := obind h
  cases h
  obtain ⟨a, a', h1, h2, hr⟩ := relV v n ρ E E' v' hv hb he
  simp only [evalRC, h1, h2]
  cases hr with
  | ctor k hp =>
    rcases arms_find arms n ρ arms' ha k with ⟨f1, f2⟩ | ⟨k0, x, m, m', f1, f2, hm⟩
    · simp only [f1, f2]; exact .some .wrong
    · simp only [f1, f2]
      exact ih (n + 1) _ _ _ m m' _ hm (hb.cons x) (he.cons hb x hp)
  | unit => exact .some .wrong
  | int _ _ => exact .some .wrong
  | str _ => exact .some .wrong
  | pair _ _ => exact .some .wrong
  | thunk _ _ _ _ => exact .some .wrong

theorem sim_comatch {c0 : Nat} {arms : List (String × C)}
    (h : canonC n ρ (.comatch c0 arms) = some c) (hb : RenBound n ρ) (he : EnvRel ρ E E') :
    ResRel (evalRC (fuel + 1) E (.comatch c0 arms) out) (evalRC (fuel + 1) E' c out) := by
  simp only [canonC] at h
  obtain ⟨arms', ha, h⟩ := obind h
  cases h
  simp only [evalRC]
  exact .some (.cocase ha hb he)

theorem sim_dtor (ih : Sim fuel) {m : C} {k : String}
    (h : canonC n ρ (.dtor m k) = some c) (hb : RenBound n ρ) (he : EnvRel ρ E E') :
    ResRel (evalRC (fuel + 1) E (.dtor m k) out) (evalRC (fuel + 1) E' c out) := by
  simp only [canonC] at h
  obtain ⟨m', hm, h⟩ := obind h
  cases h
  simp only [evalRC]
  have g := ih n ρ E E' m m' out hm hb he
  generalize evalRC fuel E m out = r at g
  generalize evalRC fuel E' m' out = r' at g
  cases g with
  | none => exact .none
  | some ht =>
    cases ht with
    | ret _ => exact .some .wrong
    | lam _ _ _ => exact .some .wrong
    | cocase ha hb0 he0 =>
      rcases coarms_find _ _ _ _ ha k with ⟨f1, f2⟩ | ⟨k0, body, body', f1, f2, hbody⟩
      · simp only [f1, f2]; exact .some .wrong
      · simp only [f1, f2]
        exact ih _ _ _ _ _ _ _ hbody hb0 he0
    | exit code => exact .some (.exit code)
    | trap => exact .some .trap
    | wrong => exact .some .wrong

theorem sim_arith {t : IntTy} {op : ArithOp} {p q : V}
    (h : canonC n ρ (.arith t op p q) = some c) (hb : RenBound n ρ) (he : EnvRel ρ E E') :
    ResRel (evalRC (fuel + 1) E (.arith t op p q) out) (evalRC (fuel + 1) E' c out) := by
  simp only [canonC] at h
  obtain ⟨p', hp, h⟩ := obind h
  obtain ⟨q', hq, h⟩ := obind h
  cases h
  obtain ⟨a, a', h1, h2, hr⟩ := relV p n ρ E E' p' hp hb he
  obtain ⟨b, b', g1, g2, gr⟩ := relV q n ρ E E' q' hq hb he
  simp only [evalRC, h1, h2, g1, g2]
  cases hr with
  | int t1 x =>
    cases gr with
    | int t2 y =>
      by_cases e1 : t1 = t
      · by_cases e2 : t2 = t
        · subst e1; subst e2
          simp only [dite_true]
          generalize Numeric.arith _ _ x y = r
          cases r with
          | ok r => exact .some (.ret (.int _ _))
          | trap => exact .some .trap
        · simp only [e1, e2, dite_true, dite_false]; exact .some .wrong
      · simp only [e1, dite_false]; exact .some .wrong
    | unit => exact .some .wrong
    | str _ => exact .some .wrong
    | pair _ _ => exact .some .wrong
    | ctor _ _ => exact .some .wrong
    | thunk _ _ _ _ => exact .some .wrong
  | unit => exact .some .wrong
  | str _ => exact .some .wrong
  | pair _ _ => exact .some .wrong
  | ctor _ _ => exact .some .wrong
  | thunk _ _ _ _ => exact .some .wrong

theorem sim_cmp (ih : Sim fuel) {t : IntTy} {op : CmpOp} {p q : V} {res : CTy} {yes no : C}
    (h : canonC n ρ (.cmp t op p q res yes no) = some c) (hb : RenBound n ρ) (he : EnvRel ρ E E') :
    ResRel (evalRC (fuel + 1) E (.cmp t op p q res yes no) out) (evalRC (fuel + 1) E' c out) := by
  simp only [canonC] at h
  obtain ⟨p', hp, h⟩ := obind h
  obtain ⟨q', hq, h⟩ := obind h
  obtain ⟨y', hy, h⟩ := obind h
  obtain ⟨n', hn, h⟩ := obind h
  cases h
  obtain ⟨a, a', h1, h2, hr⟩ := relV p n ρ E E' p' hp hb he
  obtain ⟨b, b', g1, g2, gr⟩ := relV q n ρ E E' q' hq hb he
  simp only [evalRC, h1, h2, g1, g2]
  cases hr with
  | int t1 x =>
    cases gr with
    | int t2 y =>
      by_cases e1 : t1 = t
      · by_cases e2 : t2 = t
        · subst e1; subst e2
          simp only [dite_true]
          generalize Numeric.cmp _ _ x y = r
          cases r with
          | true => exact ih n ρ E E' yes y' out hy hb he
          | false => exact ih n ρ E E' no n' out hn hb he
        · simp only [e1, e2, dite_true, dite_false]; exact .some .wrong
      · simp only [e1, dite_false]; exact .some .wrong
    | unit => exact .some .wrong
    | str _ => exact .some .wrong
    | pair _ _ => exact .some .wrong
    | ctor _ _ => exact .some .wrong
    | thunk _ _ _ _ => exact .some .wrong
  | unit => exact .some .wrong
  | str _ => exact .some .wrong
  | pair _ _ => exact .some .wrong
  | ctor _ _ => exact .some .wrong
  | thunk _ _ _ _ => exact .some .wrong

theorem sim_toStr {t : IntTy} {p : V}
    (h : canonC n ρ (.toStr t p) = some c) (hb : RenBound n ρ) (he : EnvRel ρ E E') :
    ResRel (evalRC (fuel + 1) E (.toStr t p) out) (evalRC (fuel + 1) E' c out) := by
  simp only [canonC] at h
  obtain ⟨p', hp, h⟩ := obind h
  cases h
  obtain ⟨a, a', h1, h2, hr⟩ := relV p n ρ E E' p' hp hb he
  simp only [evalRC, h1, h2]
  cases hr with
  | int t1 x =>
    by_cases e1 : t1 = t
    · subst e1
      simp only [dite_true]
      exact .some (.ret (.str _))
    · simp only [e1, dite_false]; exact .some .wrong
  | unit => exact .some .wrong
  | str _ => exact .some .wrong
  | pair _ _ => exact .some .wrong
  | ctor _ _ => exact .some .wrong
  | thunk _ _ _ _ => exact .some .wrong

theorem sim_strAppend {p q : V}
    (h : canonC n ρ (.strAppend p q) = some c) (hb : RenBound n ρ) (he : EnvRel ρ E E') :
    ResRel (evalRC (fuel + 1) E (.strAppend p q) out) (evalRC (fuel + 1) E' c out) := by
  simp only [canonC] at h
  obtain ⟨p', hp, h⟩ := obind h
  obtain ⟨q', hq, h⟩ := obind h
  cases h
  obtain ⟨a, a', h1, h2, hr⟩ := relV p n ρ E E' p' hp hb he
  obtain ⟨b, b', g1, g2, gr⟩ := relV q n ρ E E' q' hq hb he
  simp only [evalRC, h1, h2, g1, g2]
  cases hr with
  | str s1 =>
    cases gr with
    | str s2 => exact .some (.ret (.str _))
    | unit => exact .some .wrong
    | int _ _ => exact .some .wrong
    | pair _ _ => exact .some .wrong
    | ctor _ _ => exact .some .wrong
    | thunk _ _ _ _ => exact .some .wrong
  | unit => exact .some .wrong
  | int _ _ => exact .some .wrong
  | pair _ _ => exact .some .wrong
  | ctor _ _ => exact .some .wrong
  | thunk _ _ _ _ => exact .some .wrong

theorem sim_writeLine (ih : Sim fuel) {p : V} {k : C}
    (h : canonC n ρ (.writeLine p k) = some c) (hb : RenBound n ρ) (he : EnvRel ρ E E') :
    ResRel (evalRC (fuel + 1) E (.writeLine p k) out) (evalRC (fuel + 1) E' c out) := by
  simp only [canonC] at h
  obtain ⟨p', hp, h⟩ := obind h
  obtain ⟨k', hk, h⟩ := obind h
  cases h
  obtain ⟨a, a', h1, h2, hr⟩ := relV p n ρ E E' p' hp hb he
  simp only [evalRC, h1, h2]
  cases hr with
  | str s1 => exact ih n ρ E E' k k' _ hk hb he
  | unit => exact .some .wrong
  | int _ _ => exact .some .wrong
  | pair _ _ => exact .some .wrong
  | ctor _ _ => exact .some .wrong
  | thunk _ _ _ _ => exact .some .wrong

theorem sim_exit {p : V}
    (h : canonC n ρ (.exit p) = some c) (hb : RenBound n ρ) (he : EnvRel ρ E E') :
    ResRel (evalRC (fuel + 1) E (.exit p) out) (evalRC (fuel + 1) E' c out) := by
  simp only [canonC] at h
  obtain ⟨p', hp, h⟩ := obind h
  cases h
  obtain ⟨a, a', h1, h2, hr⟩ := relV p n ρ E E' p' hp hb he
  simp only [evalRC, h1, h2]
  cases hr with
  | int t1 x =>
    cases t1 <;> first | exact .some (.exit _) | exact .some .wrong
  | unit => exact .some .wrong
  | str _ => exact .some .wrong
  | pair _ _ => exact .some .wrong
  | ctor _ _ => exact .some .wrong
  | thunk _ _ _ _ => exact .some .wrong

end cases

/-- **Lockstep simulation**: at every fuel a term and its canonical form, run in environments
that agree through the renaming, both run out of fuel or both stop with related terminal forms
and the same output. -/
theorem sim : ∀ fuel : Nat, Sim fuel
  | 0 => by
    intro n ρ E E' m m' out _ _ _
    simp only [evalRC]
    exact .none
  | fuel + 1 => by
    have ih := sim fuel
    intro n ρ E E' m m' out h hb he
    cases m with
    | ret v => exact sim_ret h hb he
    | bind x a m k => exact sim_bind ih h hb he
    | clet x v m => exact sim_clet ih h hb he
    | letPair x y v m => exact sim_letPair ih h hb he
    | fn x a m => exact sim_fn h hb he
    | app m v => exact sim_app ih h hb he
    | force v => exact sim_force ih h hb he
    | fix f b m => exact sim_fix ih h hb he
    | case v d arms b => exact sim_case ih h hb he
    | comatch c0 arms => exact sim_comatch h hb he
    | dtor m k => exact sim_dtor ih h hb he
    | arith t op p q => exact sim_arith h hb he
    | cmp t op p q res yes no => exact sim_cmp ih h hb he
    | toStr t p => exact sim_toStr h hb he
    | strAppend p q => exact sim_strAppend h hb he
    | writeLine p k => exact sim_writeLine ih h hb he
    | exit p => exact sim_exit h hb he

/-- what related results have in common -/
theorem resrel_observe {r r' : Option (RTerm × Host.Bytes)} (h : ResRel r r') (out : Host.Bytes) :
    (∀ code, r = some (.exit code, out) ↔ r' = some (.exit code, out)) ∧
    (r = some (.trap, out) ↔ r' = some (.trap, out)) ∧
    (r = some (.wrong, out) ↔ r' = some (.wrong, out)) := by
  cases h with
  | none => simp
  | some ht => cases ht <;> simp

theorem eval_canon (m m' : C) (fuel : Nat) (h : canon m = some m') :
    ResRel (evalRC fuel [] m []) (evalRC fuel [] m' []) :=
  sim fuel 0 [] [] [] m m' [] h (RenBound.nil 0) EnvRel.nil

end ZV.ZCore.Sc
