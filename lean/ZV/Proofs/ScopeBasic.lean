/-
C07, part one: the canonical renaming is idempotent, accepted programs have a canonical form,
and the checker gives the same answer on a term and on its canonical form.
-/
import ZV.Props.C07Statements

namespace ZV.ZCore.Sc
open ZV.ZCore

/-! ### Lookup in extended association lists -/

theorem ren_get_cons (ρ : Ren) (x c y : Nat) :
    Ren.get? ((x, c) :: ρ) y = if x = y then some c else Ren.get? ρ y := by
  simp only [Ren.get?, List.find?_cons]
  by_cases h : x = y
  · simp [h]
  · have : (x == y) = false := by simpa using h
    simp [h, this]

theorem ctx_get_cons (Γ : Ctx) (x : Nat) (a : VTy) (y : Nat) :
    Ctx.get? ((x, a) :: Γ) y = if x = y then some a else Ctx.get? Γ y := by
  simp only [Ctx.get?, List.find?_cons]
  by_cases h : x = y
  · simp [h]
  · have : (x == y) = false := by simpa using h
    simp [h, this]

theorem ren_get_nil (y : Nat) : Ren.get? [] y = none := rfl

/-- unpacking one monadic step of `canon` -/
theorem obind {α β : Type} {x : Option α} {f : α → Option β} {b : β}
    (h : (x >>= f) = some b) : ∃ a, x = some a ∧ f a = some b := by
  cases x with
  | none => cases h
  | some a => exact ⟨a, rfl, h⟩

/-! ### Idempotence -/

/-- `σ` is the identity on every canonical name `ρ` produces -/
def IdOn (ρ σ : Ren) : Prop := ∀ x k, ρ.get? x = some k → σ.get? k = some k

theorem IdOn.cons {ρ σ : Ren} (h : IdOn ρ σ) (x n : Nat) : IdOn ((x, n) :: ρ) ((n, n) :: σ) := by
  intro y k hy
  rw [ren_get_cons] at hy ⊢
  by_cases hxy : x = y
  · simp only [hxy, if_true, Option.some.injEq] at hy
    simp [hy]
  · simp only [hxy, if_false] at hy
    have := h y k hy
    by_cases hnk : n = k
    · simp [hnk]
    · simp [hnk, this]

theorem IdOn.nil : IdOn [] [] := by
  intro x k h; simp [ren_get_nil] at h

mutual
  theorem idemV : ∀ (v : V) (n : Nat) (ρ σ : Ren) (v' : V), canonV n ρ v = some v' → IdOn ρ σ →
      canonV n σ v' = some v'
    | .var x, n, ρ, σ, v', h, hid => by
      simp only [canonV, Option.map_eq_some_iff] at h
      obtain ⟨k, hk, rfl⟩ := h
      simp [canonV, hid x k hk]
    | .unit, n, ρ, σ, v', h, hid => by simp only [canonV] at h; cases h; simp [canonV]
    | .int t x, n, ρ, σ, v', h, hid => by simp only [canonV] at h; cases h; simp [canonV]
    | .str s, n, ρ, σ, v', h, hid => by simp only [canonV] at h; cases h; simp [canonV]
    | .pair a b, n, ρ, σ, v', h, hid => by
      simp only [canonV] at h
      obtain ⟨a', ha, h⟩ := obind h
      obtain ⟨b', hb, h⟩ := obind h
      cases h
      simp [canonV, idemV a n ρ σ a' ha hid, idemV b n ρ σ b' hb hid]
    | .ctor d k arg, n, ρ, σ, v', h, hid => by
      simp only [canonV] at h
      obtain ⟨a', ha, h⟩ := obind h
      cases h
      simp [canonV, idemV arg n ρ σ a' ha hid]
    | .thunk m b, n, ρ, σ, v', h, hid => by
      simp only [canonV] at h
      obtain ⟨m', hm, h⟩ := obind h
      cases h
      simp [canonV, idemC m n ρ σ m' hm hid]
  theorem idemC : ∀ (m : C) (n : Nat) (ρ σ : Ren) (m' : C), canonC n ρ m = some m' → IdOn ρ σ →
      canonC n σ m' = some m'
    | .ret v, n, ρ, σ, c, h, hid => by
      simp only [canonC] at h
      obtain ⟨v', hv, h⟩ := obind h
      cases h
      simp [canonC, idemV v n ρ σ v' hv hid]
    | .bind x a m k, n, ρ, σ, c, h, hid => by
      simp only [canonC] at h
      obtain ⟨m', hm, h⟩ := obind h
      obtain ⟨k', hk, h⟩ := obind h
      cases h
      simp [canonC, idemC m n ρ σ m' hm hid, idemC k (n + 1) _ _ k' hk (hid.cons x n)]
    | .clet x v m, n, ρ, σ, c, h, hid => by
      simp only [canonC] at h
      obtain ⟨v', hv, h⟩ := obind h
      obtain ⟨m', hm, h⟩ := obind h
      cases h
      simp [canonC, idemV v n ρ σ v' hv hid, idemC m (n + 1) _ _ m' hm (hid.cons x n)]
    | .letPair x y v m, n, ρ, σ, c, h, hid => by
      simp only [canonC] at h
      obtain ⟨v', hv, h⟩ := obind h
      obtain ⟨m', hm, h⟩ := obind h
      cases h
      simp [canonC, idemV v n ρ σ v' hv hid,
        idemC m (n + 2) _ _ m' hm ((hid.cons x n).cons y (n + 1))]
    | .fn x a m, n, ρ, σ, c, h, hid => by
      simp only [canonC] at h
      obtain ⟨m', hm, h⟩ := obind h
      cases h
      simp [canonC, idemC m (n + 1) _ _ m' hm (hid.cons x n)]
    | .app m v, n, ρ, σ, c, h, hid => by
      simp only [canonC] at h
      obtain ⟨m', hm, h⟩ := obind h
      obtain ⟨v', hv, h⟩ := obind h
      cases h
      simp [canonC, idemV v n ρ σ v' hv hid, idemC m n _ _ m' hm hid]
    | .force v, n, ρ, σ, c, h, hid => by
      simp only [canonC] at h
      obtain ⟨v', hv, h⟩ := obind h
      cases h
      simp [canonC, idemV v n ρ σ v' hv hid]
    | .fix f b m, n, ρ, σ, c, h, hid => by
      simp only [canonC] at h
      obtain ⟨m', hm, h⟩ := obind h
      cases h
      simp [canonC, idemC m (n + 1) _ _ m' hm (hid.cons f n)]
    | .case v d arms b, n, ρ, σ, c, h, hid => by
      simp only [canonC] at h
      obtain ⟨v', hv, h⟩ := obind h
      obtain ⟨arms', ha, h⟩ := obind h
      cases h
      simp [canonC, idemV v n ρ σ v' hv hid, idemArms arms n ρ σ arms' ha hid]
    | .comatch c0 arms, n, ρ, σ, c, h, hid => by
      simp only [canonC] at h
      obtain ⟨arms', ha, h⟩ := obind h
      cases h
      simp [canonC, idemCoArms arms n ρ σ arms' ha hid]
    | .dtor m k, n, ρ, σ, c, h, hid => by
      simp only [canonC] at h
      obtain ⟨m', hm, h⟩ := obind h
      cases h
      simp [canonC, idemC m n _ _ m' hm hid]
    | .arith t op a b, n, ρ, σ, c, h, hid => by
      simp only [canonC] at h
      obtain ⟨a', ha, h⟩ := obind h
      obtain ⟨b', hb, h⟩ := obind h
      cases h
      simp [canonC, idemV a n ρ σ a' ha hid, idemV b n ρ σ b' hb hid]
    | .cmp t op a b res yes no, n, ρ, σ, c, h, hid => by
      simp only [canonC] at h
      obtain ⟨a', ha, h⟩ := obind h
      obtain ⟨b', hb, h⟩ := obind h
      obtain ⟨y', hy, h⟩ := obind h
      obtain ⟨n', hn, h⟩ := obind h
      cases h
      simp [canonC, idemV a n ρ σ a' ha hid, idemV b n ρ σ b' hb hid,
        idemC yes n _ _ y' hy hid, idemC no n _ _ n' hn hid]
    | .toStr t a, n, ρ, σ, c, h, hid => by
      simp only [canonC] at h
      obtain ⟨a', ha, h⟩ := obind h
      cases h
      simp [canonC, idemV a n ρ σ a' ha hid]
    | .strAppend a b, n, ρ, σ, c, h, hid => by
      simp only [canonC] at h
      obtain ⟨a', ha, h⟩ := obind h
      obtain ⟨b', hb, h⟩ := obind h
      cases h
      simp [canonC, idemV a n ρ σ a' ha hid, idemV b n ρ σ b' hb hid]
    | .writeLine s k, n, ρ, σ, c, h, hid => by
      simp only [canonC] at h
      obtain ⟨s', hs, h⟩ := obind h
      obtain ⟨k', hk, h⟩ := obind h
      cases h
      simp [canonC, idemV s n ρ σ s' hs hid, idemC k n _ _ k' hk hid]
    | .exit code, n, ρ, σ, c, h, hid => by
      simp only [canonC] at h
      obtain ⟨v', hv, h⟩ := obind h
      cases h
      simp [canonC, idemV code n ρ σ v' hv hid]
  theorem idemArms : ∀ (arms : List (String × Nat × C)) (n : Nat) (ρ σ : Ren)
      (arms' : List (String × Nat × C)), canonArms n ρ arms = some arms' → IdOn ρ σ →
      canonArms n σ arms' = some arms'
    | [], n, ρ, σ, arms', h, hid => by simp only [canonArms] at h; cases h; simp [canonArms]
    | (k, x, m) :: rest, n, ρ, σ, arms', h, hid => by
      simp only [canonArms] at h
      obtain ⟨m', hm, h⟩ := obind h
      obtain ⟨rest', hr, h⟩ := obind h
      cases h
      simp [canonArms, idemC m (n + 1) _ _ m' hm (hid.cons x n), idemArms rest n ρ σ rest' hr hid]
  theorem idemCoArms : ∀ (arms : List (String × C)) (n : Nat) (ρ σ : Ren)
      (arms' : List (String × C)), canonCoArms n ρ arms = some arms' → IdOn ρ σ →
      canonCoArms n σ arms' = some arms'
    | [], n, ρ, σ, arms', h, hid => by simp only [canonCoArms] at h; cases h; simp [canonCoArms]
    | (k, m) :: rest, n, ρ, σ, arms', h, hid => by
      simp only [canonCoArms] at h
      obtain ⟨m', hm, h⟩ := obind h
      obtain ⟨rest', hr, h⟩ := obind h
      cases h
      simp [canonCoArms, idemC m n _ _ m' hm hid, idemCoArms rest n ρ σ rest' hr hid]
end

/-! ### Accepted terms have a canonical form -/

theorem ebind {ε α β : Type} {x : Except ε α} {f : α → Except ε β} {b : β}
    (h : (x >>= f) = .ok b) : ∃ a, x = .ok a ∧ f a = .ok b := by
  cases x with
  | error e => cases h
  | ok a => exact ⟨a, rfl, h⟩

/-- every name the context binds is renamed -/
def Dom (Γ : Ctx) (ρ : Ren) : Prop := ∀ x a, Γ.get? x = some a → ∃ k, ρ.get? x = some k

theorem Dom.cons {Γ : Ctx} {ρ : Ren} (h : Dom Γ ρ) (x : Nat) (a : VTy) (n : Nat) :
    Dom ((x, a) :: Γ) ((x, n) :: ρ) := by
  intro y b hy
  rw [ctx_get_cons] at hy
  rw [ren_get_cons]
  by_cases hxy : x = y
  · exact ⟨n, by simp [hxy]⟩
  · simp only [hxy, if_false] at hy ⊢
    exact h y b hy

theorem Dom.nil : Dom [] [] := by
  intro x a h; simp [Ctx.get?] at h

mutual
  theorem closedV (Δ : Sig) : ∀ (v : V) (Γ : Ctx) (a : VTy) (n : Nat) (ρ : Ren),
      inferV Δ Γ v = .ok a → Dom Γ ρ → ∃ v', canonV n ρ v = some v'
    | .var x, Γ, a, n, ρ, h, hd => by
      simp only [inferV] at h
      split at h
      · rename_i a0 hx
        obtain ⟨k, hk⟩ := hd x a0 hx
        simp [canonV, hk]
      · cases h
    | .unit, Γ, a, n, ρ, h, hd => by simp [canonV]
    | .int t x, Γ, a, n, ρ, h, hd => by simp [canonV]
    | .str s, Γ, a, n, ρ, h, hd => by simp [canonV]
    | .pair p q, Γ, a, n, ρ, h, hd => by
      simp only [inferV] at h
      obtain ⟨ta, h1, h⟩ := ebind h
      obtain ⟨tb, h2, h⟩ := ebind h
      obtain ⟨p', hp⟩ := closedV Δ p Γ ta n ρ h1 hd
      obtain ⟨q', hq⟩ := closedV Δ q Γ tb n ρ h2 hd
      simp [canonV, hp, hq]
    | .ctor d k arg, Γ, a, n, ρ, h, hd => by
      simp only [inferV] at h
      split at h
      · cases h
      · obtain ⟨ta, h1, h⟩ := ebind h
        obtain ⟨p', hp⟩ := closedV Δ arg Γ ta n ρ h1 hd
        simp [canonV, hp]
    | .thunk m b, Γ, a, n, ρ, h, hd => by
      simp only [inferV] at h
      obtain ⟨b', h1, h⟩ := ebind h
      obtain ⟨m', hm⟩ := closedC Δ m Γ b' n ρ h1 hd
      simp [canonV, hm]
  theorem closedC (Δ : Sig) : ∀ (m : C) (Γ : Ctx) (b : CTy) (n : Nat) (ρ : Ren),
      inferC Δ Γ m = .ok b → Dom Γ ρ → ∃ m', canonC n ρ m = some m'
    | .ret v, Γ, b, n, ρ, h, hd => by
      simp only [inferC] at h
      obtain ⟨a, h1, h⟩ := ebind h
      obtain ⟨v', hv⟩ := closedV Δ v Γ a n ρ h1 hd
      simp [canonC, hv]
    | .bind x a m k, Γ, b, n, ρ, h, hd => by
      simp only [inferC] at h
      obtain ⟨tm, h1, h2⟩ := ebind h
      split at h2
      · obtain ⟨m', hm⟩ := closedC Δ m Γ _ n ρ h1 hd
        obtain ⟨k', hk⟩ := closedC Δ k _ _ (n + 1) _ h2 (hd.cons x a n)
        simp [canonC, hm, hk]
      · cases h2
    | .clet x v m, Γ, b, n, ρ, h, hd => by
      simp only [inferC] at h
      obtain ⟨a, h1, h2⟩ := ebind h
      obtain ⟨v', hv⟩ := closedV Δ v Γ a n ρ h1 hd
      obtain ⟨m', hm⟩ := closedC Δ m _ _ (n + 1) _ h2 (hd.cons x a n)
      simp [canonC, hv, hm]
    | .letPair x y v m, Γ, b, n, ρ, h, hd => by
      simp only [inferC] at h
      obtain ⟨a, h1, h2⟩ := ebind h
      obtain ⟨v', hv⟩ := closedV Δ v Γ a n ρ h1 hd
      split at h2
      · rename_i ta tb
        obtain ⟨m', hm⟩ := closedC Δ m _ _ (n + 2) _ h2 ((hd.cons x ta n).cons y tb (n + 1))
        simp [canonC, hv, hm]
      · cases h2
    | .fn x a m, Γ, b, n, ρ, h, hd => by
      simp only [inferC] at h
      obtain ⟨b0, h1, h2⟩ := ebind h
      obtain ⟨m', hm⟩ := closedC Δ m _ _ (n + 1) _ h1 (hd.cons x a n)
      simp [canonC, hm]
    | .app m v, Γ, b, n, ρ, h, hd => by
      simp only [inferC] at h
      obtain ⟨tm, h1, h2⟩ := ebind h
      obtain ⟨tv, h3, h4⟩ := ebind h2
      obtain ⟨m', hm⟩ := closedC Δ m Γ _ n ρ h1 hd
      obtain ⟨v', hv⟩ := closedV Δ v Γ _ n ρ h3 hd
      simp [canonC, hv, hm]
    | .force v, Γ, b, n, ρ, h, hd => by
      simp only [inferC] at h
      obtain ⟨a, h1, h2⟩ := ebind h
      obtain ⟨v', hv⟩ := closedV Δ v Γ _ n ρ h1 hd
      simp [canonC, hv]
    | .fix f b0 m, Γ, b, n, ρ, h, hd => by
      simp only [inferC] at h
      obtain ⟨tb, h1, h2⟩ := ebind h
      obtain ⟨m', hm⟩ := closedC Δ m _ _ (n + 1) _ h1 (hd.cons f _ n)
      simp [canonC, hm]
    | .case v d arms b0, Γ, b, n, ρ, h, hd => by
      simp only [inferC] at h
      obtain ⟨a, h1, h2⟩ := ebind h
      obtain ⟨v', hv⟩ := closedV Δ v Γ _ n ρ h1 hd
      split at h2
      · split at h2
        · cases h2
        · split at h2
          · cases h2
          · split at h2
            · cases h2
            · split at h2
              · cases h2
              · obtain ⟨u, h3, h4⟩ := ebind h2
                obtain ⟨arms', ha⟩ := closedArms Δ arms Γ d b0 n ρ h3 hd
                simp [canonC, hv, ha]
      · cases h2
    | .comatch c arms, Γ, b, n, ρ, h, hd => by
      simp only [inferC] at h
      split at h
      · cases h
      · split at h
        · cases h
        · split at h
          · cases h
          · obtain ⟨u, h3, h4⟩ := ebind h
            obtain ⟨arms', ha⟩ := closedCoArms Δ arms Γ c n ρ h3 hd
            simp [canonC, ha]
    | .dtor m k, Γ, b, n, ρ, h, hd => by
      simp only [inferC] at h
      obtain ⟨tm, h1, h2⟩ := ebind h
      obtain ⟨m', hm⟩ := closedC Δ m Γ _ n ρ h1 hd
      simp [canonC, hm]
    | .arith t op p q, Γ, b, n, ρ, h, hd => by
      simp only [inferC] at h
      obtain ⟨ta, h1, h2⟩ := ebind h
      obtain ⟨tb, h3, h4⟩ := ebind h2
      obtain ⟨p', hp⟩ := closedV Δ p Γ _ n ρ h1 hd
      obtain ⟨q', hq⟩ := closedV Δ q Γ _ n ρ h3 hd
      simp [canonC, hp, hq]
    | .cmp t op p q res yes no, Γ, b, n, ρ, h, hd => by
      simp only [inferC] at h
      obtain ⟨ta, h1, h2⟩ := ebind h
      obtain ⟨tb, h3, h4⟩ := ebind h2
      obtain ⟨ty, h5, h6⟩ := ebind h4
      obtain ⟨tn, h7, h8⟩ := ebind h6
      obtain ⟨p', hp⟩ := closedV Δ p Γ _ n ρ h1 hd
      obtain ⟨q', hq⟩ := closedV Δ q Γ _ n ρ h3 hd
      obtain ⟨y', hy⟩ := closedC Δ yes Γ _ n ρ h5 hd
      obtain ⟨n', hn⟩ := closedC Δ no Γ _ n ρ h7 hd
      simp [canonC, hp, hq, hy, hn]
    | .toStr t p, Γ, b, n, ρ, h, hd => by
      simp only [inferC] at h
      obtain ⟨ta, h1, h2⟩ := ebind h
      obtain ⟨p', hp⟩ := closedV Δ p Γ _ n ρ h1 hd
      simp [canonC, hp]
    | .strAppend p q, Γ, b, n, ρ, h, hd => by
      simp only [inferC] at h
      obtain ⟨ta, h1, h2⟩ := ebind h
      obtain ⟨tb, h3, h4⟩ := ebind h2
      obtain ⟨p', hp⟩ := closedV Δ p Γ _ n ρ h1 hd
      obtain ⟨q', hq⟩ := closedV Δ q Γ _ n ρ h3 hd
      simp [canonC, hp, hq]
    | .writeLine p k, Γ, b, n, ρ, h, hd => by
      simp only [inferC] at h
      obtain ⟨ta, h1, h2⟩ := ebind h
      obtain ⟨tk, h3, h4⟩ := ebind h2
      obtain ⟨p', hp⟩ := closedV Δ p Γ _ n ρ h1 hd
      obtain ⟨k', hk⟩ := closedC Δ k Γ _ n ρ h3 hd
      simp [canonC, hp, hk]
    | .exit p, Γ, b, n, ρ, h, hd => by
      simp only [inferC] at h
      obtain ⟨ta, h1, h2⟩ := ebind h
      obtain ⟨p', hp⟩ := closedV Δ p Γ _ n ρ h1 hd
      simp [canonC, hp]
  theorem closedArms (Δ : Sig) : ∀ (arms : List (String × Nat × C)) (Γ : Ctx) (d : Nat) (b : CTy)
      (n : Nat) (ρ : Ren), checkArms Δ Γ d arms b = .ok () → Dom Γ ρ →
      ∃ arms', canonArms n ρ arms = some arms'
    | [], Γ, d, b, n, ρ, h, hd => by simp [canonArms]
    | (k, x, m) :: rest, Γ, d, b, n, ρ, h, hd => by
      simp only [checkArms] at h
      split at h
      · cases h
      · rename_i a hk
        obtain ⟨b', h1, h2⟩ := ebind h
        split at h2
        · obtain ⟨m', hm⟩ := closedC Δ m _ _ (n + 1) _ h1 (hd.cons x a n)
          obtain ⟨rest', hr⟩ := closedArms Δ rest Γ d b n ρ h2 hd
          simp [canonArms, hm, hr]
        · cases h2
  theorem closedCoArms (Δ : Sig) : ∀ (arms : List (String × C)) (Γ : Ctx) (c : Nat)
      (n : Nat) (ρ : Ren), checkCoArms Δ Γ c arms = .ok () → Dom Γ ρ →
      ∃ arms', canonCoArms n ρ arms = some arms'
    | [], Γ, c, n, ρ, h, hd => by simp [canonCoArms]
    | (k, m) :: rest, Γ, c, n, ρ, h, hd => by
      simp only [checkCoArms] at h
      split at h
      · cases h
      · obtain ⟨b', h1, h2⟩ := ebind h
        split at h2
        · obtain ⟨m', hm⟩ := closedC Δ m _ _ n _ h1 hd
          obtain ⟨rest', hr⟩ := closedCoArms Δ rest Γ c n ρ h2 hd
          simp [canonCoArms, hm, hr]
        · cases h2
end

end ZV.ZCore.Sc
