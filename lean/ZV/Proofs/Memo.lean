/-
Proofs about the revisioned memo table (`ZV/Model/Memo.lean`).
-/
import ZV.Model.Memo
import ZV.Props.C15Statements

set_option linter.unusedSectionVars false

namespace ZV.Memo

section
variable {K V R Q : Type} [DecidableEq K] [DecidableEq V] [DecidableEq Q]

/-- No input is stamped with a future revision; every cached result was verified at a past or
the present revision and is the from-scratch answer on some input assignment that agrees with
the current one on every input unchanged since that verification. -/
def Inv (compute : Q → (K → V) → List K × R) (db : Db K V R Q) : Prop :=
  (∀ k, (db.inputs k).changedAt ≤ db.rev) ∧
  ∀ (q : Q) (e : Entry K R), db.cache q = some e →
    e.verifiedAt ≤ db.rev ∧
    ∃ old : K → V, compute q old = (e.deps, e.result) ∧
      ∀ k, (db.inputs k).changedAt ≤ e.verifiedAt → old k = values db k

theorem inv_init (compute : Q → (K → V) → List K × R) (v0 : K → V) :
    Inv compute (init v0 : Db K V R Q) := by
  refine ⟨fun k => Nat.le_refl _, ?_⟩
  intro q e h
  simp [init] at h

theorem inv_set (compute : Q → (K → V) → List K × R) (db : Db K V R Q) (k : K) (v : V)
    (hi : Inv compute db) : Inv compute (set db k v) := by
  unfold set
  split
  · exact hi
  · obtain ⟨h1, h2⟩ := hi
    refine ⟨?_, ?_⟩
    · intro k'
      simp only []
      split
      · exact Nat.le_refl _
      · exact Nat.le_succ_of_le (h1 k')
    · intro q e he
      obtain ⟨hv, old, hc, hag⟩ := h2 q e he
      refine ⟨Nat.le_succ_of_le hv, old, hc, ?_⟩
      intro k' hk'
      simp only [values] at hk' ⊢
      by_cases hkk : k' = k
      · subst hkk
        simp only [if_true] at hk'
        exact absurd (Nat.le_trans hk' hv) (Nat.not_succ_le_self _)
      · simp only [hkk, if_false] at hk' ⊢
        exact hag k' hk'

theorem inv_evict (compute : Q → (K → V) → List K × R) (db : Db K V R Q) (q : Q)
    (hi : Inv compute db) : Inv compute (evict db q) := by
  obtain ⟨h1, h2⟩ := hi
  refine ⟨h1, ?_⟩
  intro q' e he
  simp only [evict] at he
  split at he
  · cases he
  · exact h2 q' e he

theorem inv_store (compute : Q → (K → V) → List K × R) (db : Db K V R Q) (q : Q) (e : Entry K R)
    (hi : Inv compute db) (hv : e.verifiedAt ≤ db.rev)
    (he : ∃ old : K → V, compute q old = (e.deps, e.result) ∧
      ∀ k, (db.inputs k).changedAt ≤ e.verifiedAt → old k = values db k) :
    Inv compute (store db q e) := by
  obtain ⟨h1, h2⟩ := hi
  refine ⟨h1, ?_⟩
  intro q' e' he'
  simp only [store] at he'
  split at he'
  · rename_i hq
    cases he'
    subst hq
    exact ⟨hv, he⟩
  · exact h2 q' e' he'

/-- A query answers the from-scratch result and keeps the invariant. -/
theorem query_spec (compute : Q → (K → V) → List K × R) (hr : ReadsRecorded compute)
    (db : Db K V R Q) (q : Q) (hi : Inv compute db) :
    (query compute db q).1 = (compute q (values db)).2 ∧ Inv compute (query compute db q).2 ∧
      values (query compute db q).2 = values db := by
  have hrec : (recompute compute db q).1 = (compute q (values db)).2 ∧
      Inv compute (recompute compute db q).2 ∧ values (recompute compute db q).2 = values db := by
    refine ⟨rfl, ?_, rfl⟩
    exact inv_store compute db q _ hi (Nat.le_refl _) ⟨values db, rfl, fun _ _ => rfl⟩
  unfold query
  cases hc : db.cache q with
  | none => simpa using hrec
  | some e =>
    simp only []
    split
    · rename_i hall
      obtain ⟨_, old, hcomp, hag⟩ := hi.2 q e hc
      have hsame : compute q (values db) = compute q old := by
        apply hr q old (values db)
        intro k hk
        rw [hcomp] at hk
        have := List.all_eq_true.mp hall k hk
        exact hag k (by simpa using this)
      refine ⟨by rw [hsame, hcomp], ?_, rfl⟩
      refine inv_store compute db q _ hi (Nat.le_refl _) ⟨values db, ?_, fun _ _ => rfl⟩
      rw [hsame, hcomp]
    · exact hrec

theorem inv_step (compute : Q → (K → V) → List K × R) (hr : ReadsRecorded compute)
    (db : Db K V R Q) (op : Op K V Q) (hi : Inv compute db) : Inv compute (step compute db op) := by
  cases op with
  | set k v => exact inv_set compute db k v hi
  | query q => exact (query_spec compute hr db q hi).2.1
  | evict q => exact inv_evict compute db q hi

theorem inv_run (compute : Q → (K → V) → List K × R) (hr : ReadsRecorded compute)
    (h : List (Op K V Q)) : ∀ (db : Db K V R Q), Inv compute db → Inv compute (run compute db h) := by
  induction h with
  | nil => intro db hi; exact hi
  | cons op r ih =>
    intro db hi
    have : run compute db (op :: r) = run compute (step compute db op) r := by simp [run]
    rw [this]
    exact ih _ (inv_step compute hr db op hi)

theorem values_set (db : Db K V R Q) (k : K) (v : V) :
    values (set db k v) = fun k' => if k' = k then v else values db k' := by
  funext k'
  unfold set
  split
  · rename_i h
    by_cases hk : k' = k
    · subst hk; simp [values, h]
    · simp [hk]
  · by_cases hk : k' = k
    · simp [values, hk]
    · simp [values, hk]

theorem values_query (compute : Q → (K → V) → List K × R) (db : Db K V R Q) (q : Q) :
    values (query compute db q).2 = values db := by
  unfold query
  cases db.cache q with
  | none => rfl
  | some e => simp only []; split <;> rfl

theorem values_run (compute : Q → (K → V) → List K × R) (h : List (Op K V Q)) :
    ∀ (db : Db K V R Q), values (run compute db h) = specValues (values db) h := by
  induction h with
  | nil => intro db; rfl
  | cons op r ih =>
    intro db
    have : run compute db (op :: r) = run compute (step compute db op) r := by simp [run]
    rw [this, ih]
    cases op with
    | set k v => simp only [step, specValues, values_set]
    | query q => simp only [step, specValues, values_query]
    | evict q => rfl

end

theorem values_spec_pf : ZV.Props.C15.MemoStatement.values_spec := by
  intro K V R Q _ _ _ compute v0 h
  rw [values_run]
  rfl

theorem memo_sound_pf : ZV.Props.C15.MemoStatement.memo_sound := by
  intro K V R Q _ _ _ compute hr v0 h q
  exact (query_spec compute hr _ q (inv_run compute hr h _ (inv_init compute v0))).1

end ZV.Memo
