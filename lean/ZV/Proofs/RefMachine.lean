/-
C02 proofs: the interpreter model (`ZV/Model/Machine.lean`) computes what the reference
call-by-push-value semantics (`ZV/Model/ZCoreSpec.lean`) prescribes for erased ZCore programs.
-/
import ZV.Proofs.Host
import ZV.Props.C02Statements

namespace ZV.ZCore.RM
open ZV.Numeric ZV.Machine ZV.Host

/-! ### Runs -/

theorem runFrom_mono : ∀ (n m : Nat) (c : Comp) (st : State) (k0 : Nat) (o : Outcome) (st' : State) (k : Nat),
    runFrom n c st k0 = (some o, st', k) → n ≤ m → runFrom m c st k0 = (some o, st', k) := by
  intro n
  induction n with
  | zero => intro m c st k0 o st' k h; simp [runFrom] at h
  | succ n ih =>
    intro m c st k0 o st' k h hle
    cases m with
    | zero => omega
    | succ m =>
      unfold runFrom at h ⊢
      cases hs : step c st with
      | next c' st1 =>
        rw [hs] at h
        exact ih m c' st1 (k0 + 1) o st' k h (by omega)
      | done o1 st1 =>
        rw [hs] at h
        exact h

theorem run_mono_pf : ZV.Props.C02.Statement.run_mono := by
  intro n m c st o st' k h hle
  exact runFrom_mono n m c st 0 o st' k h hle

/-! ### Product fields -/

theorem intoProductFields_vcons_nonvcons (items : List SemVal) (t : SemVal)
    (h : ∀ i t', t ≠ .vcons i t') : intoProductFields (.vcons items t) = some (items ++ [t]) := by
  rw [intoProductFields.eq_2]
  intro i t' e
  exact h i t' e

theorem fromProductFields_two (v w : SemVal) (vs : List SemVal) :
    fromProductFields (v :: w :: vs) =
      .vcons (v :: w :: vs).dropLast ((v :: w :: vs).getLast?.getD .triv) := by
  rfl

/-- `fromProductFields` then `intoProductFields` is the identity on at least two fields of which the
last is not itself a product. -/
theorem into_from_fields (vs : List SemVal) (last : SemVal) (hne : vs ≠ [])
    (hlast : ∀ i t, last ≠ .vcons i t) :
    intoProductFields (fromProductFields (vs ++ [last])) = some (vs ++ [last]) := by
  cases vs with
  | nil => exact absurd rfl hne
  | cons v vs =>
    have hfp : fromProductFields ((v :: vs) ++ [last]) = .vcons (v :: vs) last := by
      cases vs with
      | nil => rfl
      | cons w ws =>
        show fromProductFields (v :: w :: (ws ++ [last])) = _
        rw [fromProductFields_two]
        have : (v :: w :: (ws ++ [last])) = (v :: w :: ws) ++ [last] := rfl
        rw [this, List.dropLast_concat, List.getLast?_concat]
        rfl
    rw [hfp]
    exact intoProductFields_vcons_nonvcons _ _ hlast

theorem product_fields_roundtrip_pf : ZV.Props.C02.Statement.product_fields_roundtrip := by
  intro vs last hne hlast _
  exact into_from_fields vs last hne hlast

/-- the last field of a flattened product is never a product -/
theorem intoProductFields_last (sv : SemVal) : ∀ fs, intoProductFields sv = some fs →
    ∃ init last, fs = init ++ [last] ∧ ∀ i t, last ≠ .vcons i t := by
  induction sv using intoProductFields.induct with
  | case1 i1 i2 t2 ih =>
    intro fs h
    rw [intoProductFields.eq_1] at h
    cases h2 : intoProductFields (.vcons i2 t2) with
    | none => rw [h2] at h; cases h
    | some fs' =>
      rw [h2] at h
      obtain ⟨init, last, e, hl⟩ := ih fs' h2
      refine ⟨i1 ++ init, last, ?_, hl⟩
      simp only [Option.map_some, Option.some.injEq] at h
      rw [← h, e, List.append_assoc]
  | case2 i t hnv =>
    intro fs h
    rw [intoProductFields.eq_2 _ _ hnv] at h
    cases h
    exact ⟨i, t, rfl, fun i' t' e => hnv i' t' e⟩
  | case3 t hnv =>
    intro fs h
    cases t <;> first | (simp [intoProductFields] at h; done) | exact absurd rfl (fun e => hnv _ _ e)

theorem intoProductFields_some_vcons {sv : SemVal} {fs : List SemVal}
    (h : intoProductFields sv = some fs) : ∃ i t, sv = .vcons i t := by
  cases sv <;> first | (simp [intoProductFields] at h; done) | exact ⟨_, _, rfl⟩

/-- a flattened product with at least two fields is rebuilt by `fromProductFields` -/
theorem into_from_of_into {sv : SemVal} {f : SemVal} {fs : List SemVal}
    (h : intoProductFields sv = some (f :: fs)) (hne : fs ≠ []) :
    intoProductFields (fromProductFields (f :: fs)) = some (f :: fs) := by
  obtain ⟨init, last, e, hl⟩ := intoProductFields_last sv _ h
  have hi : init ≠ [] := by
    intro hi; subst hi
    simp at e
    exact hne e.2
  rw [e]
  exact into_from_fields init last hi hl

/-! ### Relating reference values and machine values -/

/-- A reference value is represented by a machine value: base values are equal, constructors
agree by name, thunks are erased code closed over a lookup-wise related environment, and products
are related field by field along the right spine, whatever the grouping. -/
inductive VRel : RVal → SemVal → Prop
  | unit : VRel .unit .triv
  | int (t : IntTy) (x : BitVec t.width) : VRel (.int t x) (.lit (.int t x))
  | str (s : List Char) : VRel (.str s) (.lit (.str s))
  | ctor {k : String} {a : RVal} {a' : SemVal} : VRel a a' → VRel (.ctor k a) (.ctor k a')
  | pair {a b : RVal} {sv f : SemVal} {fs : List SemVal} :
      intoProductFields sv = some (f :: fs) → fs ≠ [] → VRel a f → VRel b (fromProductFields fs) →
      VRel (.pair a b) sv
  | thunk {m : C} {ρ : REnv} {env : Env} :
      (∀ x rv, REnv.get? ρ x = some rv → (Env.get? env x).isSome = true) →
      (∀ x rv sv, REnv.get? ρ x = some rv → Env.get? env x = some sv → VRel rv sv) →
      VRel (.thunk m ρ) (.thunk (eraseC m) env)

/-- environments are related lookup-wise (both lookups are first-match, so shadowing agrees) -/
def EnvRel (ρ : REnv) (env : Env) : Prop :=
  ∀ x rv, REnv.get? ρ x = some rv → ∃ sv, Env.get? env x = some sv ∧ VRel rv sv

theorem EnvRel.nil : EnvRel [] [] := by
  intro x rv h; simp [REnv.get?] at h

theorem EnvRel.cons {ρ : REnv} {env : Env} (h : EnvRel ρ env) (x : Nat) {rv : RVal} {sv : SemVal}
    (hv : VRel rv sv) : EnvRel ((x, rv) :: ρ) (Env.bind env x sv) := by
  intro y r hy
  unfold REnv.get? at hy
  unfold Env.get? Env.bind
  rw [List.find?_cons] at hy ⊢
  by_cases hxy : (x == y) = true
  · simp only [hxy] at hy ⊢
    simp only [Option.map_some, Option.some.injEq] at hy
    subst hy
    exact ⟨sv, rfl, hv⟩
  · simp only [hxy] at hy ⊢
    exact h y r hy

theorem VRel.mkThunk {m : C} {ρ : REnv} {env : Env} (h : EnvRel ρ env) :
    VRel (.thunk m ρ) (.thunk (eraseC m) env) := by
  refine .thunk ?_ ?_
  · intro x rv hx
    obtain ⟨sv, hs, _⟩ := h x rv hx
    rw [hs]; rfl
  · intro x rv sv hx hs
    obtain ⟨sv', hs', hv⟩ := h x rv hx
    rw [hs] at hs'; cases hs'; exact hv

theorem VRel.thunk_inv {m : C} {ρ : REnv} {sv : SemVal} (h : VRel (.thunk m ρ) sv) :
    ∃ env, sv = .thunk (eraseC m) env ∧ EnvRel ρ env := by
  cases h with
  | thunk h1 h2 =>
    refine ⟨_, rfl, ?_⟩
    intro x rv hx
    have := h1 x rv hx
    cases hg : Env.get? _ x with
    | none => rw [hg] at this; cases this
    | some sv => exact ⟨sv, rfl, h2 x rv sv hx hg⟩

/-- the product case only looks at the flattened fields -/
theorem VRel.pair_congr {a b : RVal} {sv sv' : SemVal} (h : VRel (.pair a b) sv)
    (e : intoProductFields sv' = intoProductFields sv) : VRel (.pair a b) sv' := by
  cases h with
  | pair h1 h2 h3 h4 => exact .pair (e.trans h1) h2 h3 h4

theorem VRel.mkPair {a b : RVal} {sa sb : SemVal} (ha : VRel a sa) (hb : VRel b sb) :
    VRel (.pair a b) (.vcons [sa] sb) := by
  have base : (∀ i t, sb ≠ .vcons i t) → VRel (.pair a b) (.vcons [sa] sb) := by
    intro hn
    exact .pair (f := sa) (fs := [sb]) (intoProductFields_vcons_nonvcons _ _ hn) (by simp) ha hb
  cases hb with
  | unit => exact base (by intro i t e; cases e)
  | int t x => exact base (by intro i t e; cases e)
  | str s => exact base (by intro i t e; cases e)
  | ctor h => exact base (by intro i t e; cases e)
  | thunk h1 h2 => exact base (by intro i t e; cases e)
  | @pair b1 b2 _ g gs h1 h2 h3 h4 =>
    obtain ⟨i2, t2, rfl⟩ := intoProductFields_some_vcons h1
    have hrt := into_from_of_into h1 h2
    refine .pair (f := sa) (fs := g :: gs) ?_ (by simp) ha ?_
    · rw [intoProductFields.eq_1, h1]; rfl
    · exact .pair hrt h2 h3 h4

/-! ### Values -/

theorem evalVs_one (n : Nat) (env : Env) (v : Val) :
    evalVs n env [v] = (evalV n env v).map (fun x => [x]) := by
  rw [evalVs.eq_2, evalVs.eq_1]
  cases evalV n env v <;> rfl

/-- Erased values evaluate (with fuel their size) to a related machine value. -/
theorem evalV_erase : ∀ (v : V) (ρ : REnv) (env : Env) (rv : RVal), evalRV ρ v = some rv →
    EnvRel ρ env → ∃ sv, VRel rv sv ∧ ∀ n, (eraseV v).size ≤ n → evalV n env (eraseV v) = .ok sv
  | .var x, ρ, env, rv, h, he => by
    simp only [evalRV] at h
    obtain ⟨sv, hs, hv⟩ := he x rv h
    refine ⟨sv, hv, ?_⟩
    intro n hn
    simp only [eraseV, Val.size] at hn ⊢
    obtain ⟨n, rfl⟩ : ∃ k, n = k + 1 := ⟨n - 1, by omega⟩
    simp only [evalV, hs]
  | .unit, ρ, env, rv, h, he => by
    simp only [evalRV, Option.some.injEq] at h
    subst h
    refine ⟨.triv, .unit, ?_⟩
    intro n hn
    simp only [eraseV, Val.size] at hn ⊢
    obtain ⟨n, rfl⟩ : ∃ k, n = k + 1 := ⟨n - 1, by omega⟩
    simp only [evalV]
  | .int t x, ρ, env, rv, h, he => by
    simp only [evalRV, Option.some.injEq] at h
    subst h
    refine ⟨_, .int t x, ?_⟩
    intro n hn
    simp only [eraseV, Val.size] at hn ⊢
    obtain ⟨n, rfl⟩ : ∃ k, n = k + 1 := ⟨n - 1, by omega⟩
    simp only [evalV]
  | .str s, ρ, env, rv, h, he => by
    simp only [evalRV, Option.some.injEq] at h
    subst h
    refine ⟨_, .str s, ?_⟩
    intro n hn
    simp only [eraseV, Val.size] at hn ⊢
    obtain ⟨n, rfl⟩ : ∃ k, n = k + 1 := ⟨n - 1, by omega⟩
    simp only [evalV]
  | .pair a b, ρ, env, rv, h, he => by
    simp only [evalRV] at h
    cases ha : evalRV ρ a with
    | none => rw [ha] at h; simp at h
    | some ra =>
      cases hb : evalRV ρ b with
      | none => rw [ha, hb] at h; simp at h
      | some rb =>
        rw [ha, hb] at h
        simp only [Option.some.injEq] at h
        subst h
        obtain ⟨sa, hva, hea⟩ := evalV_erase a ρ env ra ha he
        obtain ⟨sb, hvb, heb⟩ := evalV_erase b ρ env rb hb he
        refine ⟨_, VRel.mkPair hva hvb, ?_⟩
        intro n hn
        simp only [eraseV, Val.size, Val.sizes] at hn ⊢
        obtain ⟨n, rfl⟩ : ∃ k, n = k + 1 := ⟨n - 1, by omega⟩
        rw [evalV.eq_10, evalVs_one, hea n (by omega), heb n (by omega)]
        rfl
  | .ctor d k arg, ρ, env, rv, h, he => by
    simp only [evalRV] at h
    cases ha : evalRV ρ arg with
    | none => rw [ha] at h; simp at h
    | some ra =>
      rw [ha] at h
      simp only [Option.map_some, Option.some.injEq] at h
      subst h
      obtain ⟨sa, hva, hea⟩ := evalV_erase arg ρ env ra ha he
      refine ⟨_, VRel.ctor hva, ?_⟩
      intro n hn
      simp only [eraseV, Val.size] at hn ⊢
      obtain ⟨n, rfl⟩ : ∃ k, n = k + 1 := ⟨n - 1, by omega⟩
      simp only [evalV, hea n (by omega)]
      rfl
  | .thunk m b, ρ, env, rv, h, he => by
    simp only [evalRV, Option.some.injEq] at h
    subst h
    refine ⟨_, VRel.mkThunk he, ?_⟩
    intro n hn
    simp only [eraseV, Val.size] at hn ⊢
    obtain ⟨n, rfl⟩ : ∃ k, n = k + 1 := ⟨n - 1, by omega⟩
    simp only [evalV]

/-- the value evaluation `step` performs (`valFuel`) -/
theorem evalV_erase_valFuel {v : V} {ρ : REnv} {env : Env} {rv : RVal} (h : evalRV ρ v = some rv)
    (he : EnvRel ρ env) : ∃ sv, VRel rv sv ∧ evalV (valFuel (eraseV v)) env (eraseV v) = .ok sv := by
  obtain ⟨sv, hv, hn⟩ := evalV_erase v ρ env rv h he
  exact ⟨sv, hv, hn _ (by unfold valFuel; omega)⟩

/-! ### Halting runs -/

/-- The machine, started in `(c, st)`, ends with outcome `o` having written `out`. -/
inductive Halts : Comp → State → Outcome → Bytes → Prop
  | done {c : Comp} {st : State} {o : Outcome} {st' : State} :
      step c st = .done o st' → Halts c st o st'.host.output
  | next {c : Comp} {st : State} {c' : Comp} {st' : State} {o : Outcome} {out : Bytes} :
      step c st = .next c' st' → Halts c' st' o out → Halts c st o out

theorem Halts.done' {c : Comp} {st : State} {o : Outcome} {st' : State} {out : Bytes}
    (h : step c st = .done o st') (e : st'.host.output = out) : Halts c st o out := e ▸ Halts.done h

theorem Halts.congr_step {c c' : Comp} {st st' : State} {o : Outcome} {out : Bytes}
    (e : step c st = step c' st') (h : Halts c' st' o out) : Halts c st o out := by
  cases h with
  | done hs => exact .done (e.trans hs)
  | next hs hn => exact .next (e.trans hs) hn

theorem Halts.runFrom {c : Comp} {st : State} {o : Outcome} {out : Bytes} (h : Halts c st o out) :
    ∀ k0, ∃ n st' k, runFrom n c st k0 = (some o, st', k) ∧ st'.host.output = out := by
  induction h with
  | done hs =>
    intro k0
    exact ⟨1, _, k0 + 1, by simp [Machine.runFrom, hs], rfl⟩
  | next hs _ ih =>
    intro k0
    obtain ⟨n, st', k, hr, ho⟩ := ih (k0 + 1)
    exact ⟨n + 1, st', k, by simp [Machine.runFrom, hs, hr], ho⟩

/-! ### Single steps -/

theorem step_bind (p : Pat) (b t : Comp) (st : State) :
    step (.bind p b t) st = .next b { st with stack := .kont t st.env p :: st.stack } := rfl

theorem step_dtor (b : Comp) (name : String) (st : State) :
    step (.dtor b name) st = .next b { st with stack := .dtor name :: st.stack } := rfl

theorem step_vapp {f : Comp} {a : Val} {st : State} {sv : SemVal}
    (h : evalV (valFuel a) st.env a = .ok sv) :
    step (.vapp f a) st = .next f { st with stack := .app sv :: st.stack } := by
  simp only [step, h]

theorem step_ret_eq {v : Val} {st : State} {sv : SemVal} (h : evalV (valFuel v) st.env v = .ok sv) :
    step (.ret v) st = step (.retSem sv) st := by
  simp only [step, h]

theorem step_retSem_kont {sv : SemVal} {st : State} {tail : Comp} {env : Env} {x : Nat}
    {rest : List Frame} (hs : st.stack = .kont tail env (.var x) :: rest) :
    step (.retSem sv) st = .next tail { st with env := env.bind x sv, stack := rest } := by
  simp only [step, hs, assignExpect, assign]

theorem step_vabs_app {x : Nat} {body : Comp} {st : State} {arg : SemVal} {rest : List Frame}
    (hs : st.stack = .app arg :: rest) :
    step (.vabs (.var x) body) st = .next body { st with env := st.env.bind x arg, stack := rest } := by
  simp only [step, hs, assignExpect, assign]

theorem step_force_thunk {v : Val} {st : State} {body : Comp} {env : Env}
    (h : evalV (valFuel v) st.env v = .ok (.thunk body env)) :
    step (.force v) st = .next body { st with env := env } := by
  simp only [step, h]

theorem step_clet_var {x : Nat} {v : Val} {tail : Comp} {st : State} {sv : SemVal}
    (h : evalV (valFuel v) st.env v = .ok sv) :
    step (.clet (.var x) v tail) st = .next tail { st with env := st.env.bind x sv } := by
  simp only [step, h, assignExpect, assign]

theorem step_fix (f : Nat) (body : Comp) (st : State) :
    step (.fix (.var f) body) st =
      .next body { st with env := st.env.bind f (.thunk (.fix (.var f) body) st.env) } := by
  simp only [step, assignExpect, assign]

theorem step_comatch {arms : List (String × Comp)} {st : State} {name : String} {rest : List Frame}
    {n' : String} {tail : Comp} (hs : st.stack = .dtor name :: rest)
    (hf : arms.find? (·.1 == name) = some (n', tail)) :
    step (.comatch arms) st = .next tail { st with stack := rest } := by
  simp only [step, hs, hf]

theorem step_callSem_thunk (body : Comp) (env : Env) (args : List SemVal) (st : State) :
    step (.callSem (.thunk body env) args) st =
      .next body { st with env := env, stack := args.map Frame.app ++ st.stack } := rfl

theorem step_letPair {x y : Nat} {v : Val} {tail : Comp} {st : State} {sv f : SemVal}
    {fs : List SemVal} (h : evalV (valFuel v) st.env v = .ok sv)
    (hf : intoProductFields sv = some (f :: fs)) (hne : fs ≠ []) :
    step (.clet (.vcons [.var x] (.var y)) v tail) st =
      .next tail { st with env := (st.env.bind x f).bind y (fromProductFields fs) } := by
  obtain ⟨vi, vt, rfl⟩ := intoProductFields_some_vcons hf
  cases fs with
  | nil => exact absurd rfl hne
  | cons g gs =>
    simp only [step, h, assignExpect, assign, hf, assignZip, List.length_cons, List.length_nil,
      List.take, List.drop]
    simp

theorem step_cmatch {scrut : Val} {arms : List (Pat × Comp)} {st : State} {sv : SemVal}
    (h : evalV (valFuel scrut) st.env scrut = .ok sv) :
    step (.cmatch scrut arms) st = step.go st sv st.env arms := by
  simp only [step, h]

theorem step_go_arms (st : State) (k : String) (a' : SemVal) (env : Env) :
    ∀ (arms : List (String × Nat × C)) (k' : String) (x : Nat) (m : C),
      arms.find? (·.1 == k) = some (k', x, m) →
      step.go st (.ctor k a') env (eraseArms arms) = .next (eraseC m) { st with env := env.bind x a' } := by
  intro arms
  induction arms with
  | nil => intro k' x m h; simp at h
  | cons arm rest ih =>
    intro k' x m h
    obtain ⟨k1, x1, m1⟩ := arm
    rw [List.find?_cons] at h
    by_cases hk : (k1 == k) = true
    · simp only [hk] at h
      simp only [Option.some.injEq, Prod.mk.injEq] at h
      obtain ⟨rfl, rfl, rfl⟩ := h
      have : k1 = k := by simpa using hk
      subst this
      simp only [eraseArms, step.go, assign, if_true]
    · simp only [hk] at h
      have hne : ¬ k1 = k := by simpa using hk
      simp only [eraseArms, step.go, assign, hne, if_false]
      exact ih k' x m h

theorem find_eraseCoArms (k : String) : ∀ (arms : List (String × C)) (k' : String) (m : C),
    arms.find? (·.1 == k) = some (k', m) →
    (eraseCoArms arms).find? (·.1 == k) = some (k', eraseC m) := by
  intro arms
  induction arms with
  | nil => intro k' m h; simp at h
  | cons arm rest ih =>
    intro k' m h
    obtain ⟨k1, m1⟩ := arm
    rw [List.find?_cons] at h
    simp only [eraseCoArms]
    rw [List.find?_cons]
    by_cases hk : (k1 == k) = true
    · simp only [hk] at h ⊢
      simp only [Option.some.injEq, Prod.mk.injEq] at h
      obtain ⟨rfl, rfl⟩ := h
      rfl
    · simp only [hk] at h ⊢
      exact ih k' m h

/-! ### Primitive steps -/

theorem step_prim_ret {role : String} {arity : Nat} {st : State} {args : List SemVal}
    {rest : List Frame} {hargs : List HV} {host' : Host} {v : HV}
    (hp : step.pop arity st.stack [] = some (args, rest)) (ha : argsToHV 0 args = some hargs)
    (hh : hostOp role hargs st.host = (host', .ret v)) :
    ∃ u, step (.prim role arity) st =
      .next (.retSem (ofHV v)) { st with stack := rest, host := host', unmodelled := u } := by
  refine ⟨st.unmodelled || (role == "random_int" || role == "float32_to_string" ||
    role == "float64_to_string"), ?_⟩
  simp only [step, hp, ha, hh]

theorem step_prim_call {role : String} {arity : Nat} {st : State} {args : List SemVal}
    {rest : List Frame} {hargs : List HV} {host' : Host} {i : Nat} {cargs : List HV} {k : SemVal}
    (hp : step.pop arity st.stack [] = some (args, rest)) (ha : argsToHV 0 args = some hargs)
    (hh : hostOp role hargs st.host = (host', .call i cargs)) (hk : args[i]? = some k) :
    ∃ u, step (.prim role arity) st =
      .next (.callSem k (cargs.map ofHV)) { st with stack := rest, host := host', unmodelled := u } := by
  refine ⟨st.unmodelled || (role == "random_int" || role == "float32_to_string" ||
    role == "float64_to_string"), ?_⟩
  simp only [step, hp, ha, hh, hk]

theorem step_prim_exit {role : String} {arity : Nat} {st : State} {args : List SemVal}
    {rest : List Frame} {hargs : List HV} {host' : Host} {code : Int}
    (hp : step.pop arity st.stack [] = some (args, rest)) (ha : argsToHV 0 args = some hargs)
    (hh : hostOp role hargs st.host = (host', .exit code)) :
    ∃ u, step (.prim role arity) st =
      .done (.exit code) { st with stack := rest, host := host', unmodelled := u } := by
  refine ⟨st.unmodelled || (role == "random_int" || role == "float32_to_string" ||
    role == "float64_to_string"), ?_⟩
  simp only [step, hp, ha, hh]

theorem step_prim_trap {role : String} {arity : Nat} {st : State} {args : List SemVal}
    {rest : List Frame} {hargs : List HV} {host' : Host}
    (hp : step.pop arity st.stack [] = some (args, rest)) (ha : argsToHV 0 args = some hargs)
    (hh : hostOp role hargs st.host = (host', .trap)) :
    ∃ u, step (.prim role arity) st =
      .done .trap { st with stack := rest, host := host', unmodelled := u } := by
  refine ⟨st.unmodelled || (role == "random_int" || role == "float32_to_string" ||
    role == "float64_to_string"), ?_⟩
  simp only [step, hp, ha, hh]

theorem step_force_prim (role : String) (arity : Nat) (st : State) :
    step (.force (primThunk role arity)) st = .next (.prim role arity) st := by
  have : evalV (valFuel (primThunk role arity)) st.env (primThunk role arity) =
      .ok (.thunk (.prim role arity) st.env) := by
    unfold valFuel vmFuel primThunk
    simp only [Val.size]
    have e : max 100000 (1 + 1) = 99999 + 1 := by omega
    rw [e, evalV]
  rw [step_force_thunk this]

/-! ### What the six role families compute -/

theorem hostOp_int {role ty : String} {opParts : List String} {op : String} {t : IntTy}
    (h0 : armIndex role = 0) (hsp : splitRole role = ty :: opParts) (ht : parseIntTy ty = some t)
    (hop : "_".intercalate opParts = op) (args : List HV) (σ : Host) :
    hostOp role args σ = (σ, intOp t op args) := by
  have hsp' : role.splitOn "_" = ty :: opParts := by rw [splitOn_underscore]; exact hsp
  rw [hostOp_numeric h0, numericOp_int hsp' ht, hop]

theorem arith_role_facts (t : IntTy) (op : ArithOp) :
    armIndex (t.sourceName ++ "_" ++ op.name) = 0 ∧
    splitRole (t.sourceName ++ "_" ++ op.name) = [t.sourceName, op.name] ∧
    parseIntTy t.sourceName = some t ∧ "_".intercalate [op.name] = op.name := by
  cases t <;> cases op <;> decide +kernel

theorem cmp_role_facts (t : IntTy) (op : CmpOp) :
    armIndex (t.sourceName ++ "_" ++ op.name) = 0 ∧
    splitRole (t.sourceName ++ "_" ++ op.name) = [t.sourceName, op.name] ∧
    parseIntTy t.sourceName = some t ∧ "_".intercalate [op.name] = op.name := by
  cases t <;> cases op <;> decide +kernel

theorem toStr_role_facts (t : IntTy) :
    armIndex (t.sourceName ++ "_to_string") = 0 ∧
    splitRole (t.sourceName ++ "_to_string") = [t.sourceName, "to", "string"] ∧
    parseIntTy t.sourceName = some t ∧ "_".intercalate ["to", "string"] = "to_string" := by
  cases t <;> decide +kernel

theorem hostOp_arith (t : IntTy) (op : ArithOp) (x y : BitVec t.width) (σ : Host) :
    hostOp (t.sourceName ++ "_" ++ op.name) [.int t x, .int t y] σ =
      (σ, match Numeric.arith t (match op with
            | .add => .add | .sub => .sub | .mul => .mul | .div => .div | .rem => .rem) x y with
          | .ok r => .ret (.int t r)
          | .trap => .trap) := by
  obtain ⟨h0, hsp, ht, hop⟩ := arith_role_facts t op
  rw [hostOp_int h0 hsp ht hop]
  cases op <;> simp [intOp, ArithOp.name] <;>
    (first | (cases Numeric.arith t AOp.add x y <;> rfl) | (cases Numeric.arith t AOp.sub x y <;> rfl)
           | (cases Numeric.arith t AOp.mul x y <;> rfl) | (cases Numeric.arith t AOp.div x y <;> rfl)
           | (cases Numeric.arith t AOp.rem x y <;> rfl))

theorem hostOp_cmp (t : IntTy) (op : CmpOp) (x y : BitVec t.width) (i j : Nat) (σ : Host) :
    hostOp (t.sourceName ++ "_" ++ op.name) [.int t x, .int t y, .thunk i, .thunk j] σ =
      (σ, if Numeric.cmp t (match op with | .eq => .eq | .lt => .lt | .gt => .gt) x y
          then .call 2 [] else .call 3 []) := by
  obtain ⟨h0, hsp, ht, hop⟩ := cmp_role_facts t op
  rw [hostOp_int h0 hsp ht hop]
  cases op <;> simp [intOp, CmpOp.name]

theorem hostOp_toStr (t : IntTy) (x : BitVec t.width) (σ : Host) :
    hostOp (t.sourceName ++ "_to_string") [.int t x] σ = (σ, .ret (.str (Numeric.toStr t x))) := by
  obtain ⟨h0, hsp, ht, hop⟩ := toStr_role_facts t
  rw [hostOp_int h0 hsp ht hop]
  simp [intOp]

theorem hostOp_strAppend (a b : List Char) (σ : Host) :
    hostOp "str_append" [.str a, .str b] σ = (σ, .ret (.str (a ++ b))) := rfl

theorem hostOp_writeLine (s : List Char) (i : Nat) (σ : Host) :
    hostOp "write_line" [.str s, .thunk i] σ =
      ({ σ with output := σ.output ++ encodeUtf8 s ++ [10] }, .call 1 []) := rfl

theorem hostOp_exit (n : BitVec IntTy.i64.width) (σ : Host) :
    hostOp "exit" [.int .i64 n] σ = (σ, .exit ((BitVec.ofInt 32 (Numeric.val .i64 n)).toInt)) := rfl

theorem evalV_thunk_valFuel (body : Comp) (env : Env) :
    evalV (valFuel (.thunk body)) env (.thunk body) = .ok (.thunk body env) := by
  unfold valFuel vmFuel
  simp only [Val.size]
  have e : max 100000 (1 + 1) = 99999 + 1 := by omega
  rw [e, evalV]

/-! ### The simulation: reference evaluation to machine runs -/

/-- "Returning the terminal form `t` (with `out'` written so far) to the stack `K` makes the
machine end with outcome `o` and output `outF`". -/
def KHalts (t : RTerm) (out' : Bytes) (K : List Frame) (o : Outcome) (outF : Bytes) : Prop :=
  match t with
  | .ret rv => ∀ (sv : SemVal) (st' : State), VRel rv sv → st'.stack = K → st'.host.output = out' →
      Halts (.retSem sv) st' o outF
  | .lam x body ρ' => ∀ (st' : State), EnvRel ρ' st'.env → st'.stack = K → st'.host.output = out' →
      Halts (.vabs (.var x) (eraseC body)) st' o outF
  | .cocase arms ρ' => ∀ (st' : State), EnvRel ρ' st'.env → st'.stack = K → st'.host.output = out' →
      Halts (.comatch (eraseCoArms arms)) st' o outF
  | .exit code => o = .exit code ∧ outF = out'
  | .trap => o = .trap ∧ outF = out'
  | .wrong => False

syntax "zv_rm_wrong " ident ident : tactic
set_option hygiene false in
macro_rules
  | `(tactic| zv_rm_wrong $h:ident $hk:ident) => `(tactic|
      (simp only [Option.some.injEq, Prod.mk.injEq] at $h:ident
       obtain ⟨rfl, rfl⟩ := $h
       exact False.elim $hk))

/-- **Key lemma.** If the reference evaluation of `m` in `ρ` yields the terminal form `t`, then the
machine started on the erasure of `m` in a related environment, under ANY stack, does whatever
returning `t` to that stack does. -/
theorem sim : ∀ (fuel : Nat) (ρ : REnv) (m : C) (out : Bytes) (t : RTerm) (out' : Bytes),
    evalRC fuel ρ m out = some (t, out') →
    ∀ (st : State) (o : Outcome) (outF : Bytes), EnvRel ρ st.env → st.host.output = out →
      KHalts t out' st.stack o outF → Halts (eraseC m) st o outF := by
  intro fuel
  induction fuel with
  | zero => intro ρ m out t out' h; simp [evalRC] at h
  | succ fuel ih =>
    intro ρ m out t out' h st o outF he ho hk
    subst ho
    cases m with
    | ret v =>
      simp only [evalRC] at h
      simp only [eraseC]
      cases hv : evalRV ρ v with
      | none => rw [hv] at h; zv_rm_wrong h hk
      | some rv =>
        rw [hv] at h
        simp only [Option.some.injEq, Prod.mk.injEq] at h
        obtain ⟨rfl, rfl⟩ := h
        obtain ⟨sv, hvr, hev⟩ := evalV_erase_valFuel hv he
        exact Halts.congr_step (step_ret_eq hev) (hk sv st hvr rfl rfl)
    | bind x a m n =>
      simp only [evalRC] at h
      simp only [eraseC]
      refine .next (step_bind _ _ _ _) ?_
      cases hm : evalRC fuel ρ m st.host.output with
      | none => rw [hm] at h; simp at h
      | some r =>
        obtain ⟨t1, out1⟩ := r
        rw [hm] at h
        cases t1 with
        | ret v =>
          simp only at h
          refine ih ρ m _ _ _ hm _ o outF he rfl ?_
          intro sv st' hvr hst hout
          refine .next (step_retSem_kont hst) ?_
          exact ih _ n out1 t out' h _ o outF (he.cons x hvr) hout hk
        | trap =>
          simp only [Option.some.injEq, Prod.mk.injEq] at h
          obtain ⟨rfl, rfl⟩ := h
          exact ih ρ m _ _ _ hm _ o outF he rfl hk
        | exit c =>
          simp only [Option.some.injEq, Prod.mk.injEq] at h
          obtain ⟨rfl, rfl⟩ := h
          exact ih ρ m _ _ _ hm _ o outF he rfl hk
        | lam _ _ _ => zv_rm_wrong h hk
        | cocase _ _ => zv_rm_wrong h hk
        | wrong => zv_rm_wrong h hk
    | clet x v m =>
      simp only [evalRC] at h
      simp only [eraseC]
      cases hv : evalRV ρ v with
      | none => rw [hv] at h; zv_rm_wrong h hk
      | some rv =>
        rw [hv] at h
        simp only at h
        obtain ⟨sv, hvr, hev⟩ := evalV_erase_valFuel hv he
        refine .next (step_clet_var hev) ?_
        exact ih _ m _ t out' h _ o outF (he.cons x hvr) rfl hk
    | letPair x y v m =>
      simp only [evalRC] at h
      simp only [eraseC]
      split at h
      · next ra rb hv =>
        obtain ⟨sv, hvr, hev⟩ := evalV_erase_valFuel hv he
        cases hvr with
        | pair h1 h2 h3 h4 =>
          refine .next (step_letPair hev h1 h2) ?_
          exact ih _ m _ t out' h _ o outF ((he.cons x h3).cons y h4) rfl hk
      · zv_rm_wrong h hk
    | fn x a m =>
      simp only [evalRC, Option.some.injEq, Prod.mk.injEq] at h
      obtain ⟨rfl, rfl⟩ := h
      simp only [eraseC]
      exact hk st he rfl rfl
    | app m v =>
      simp only [evalRC] at h
      simp only [eraseC]
      cases hv : evalRV ρ v with
      | none => rw [hv] at h; zv_rm_wrong h hk
      | some a =>
        rw [hv] at h
        simp only at h
        obtain ⟨sv, hvr, hev⟩ := evalV_erase_valFuel hv he
        refine .next (step_vapp hev) ?_
        cases hm : evalRC fuel ρ m st.host.output with
        | none => rw [hm] at h; simp at h
        | some r =>
          obtain ⟨t1, out1⟩ := r
          rw [hm] at h
          cases t1 with
          | lam x body ρ' =>
            simp only at h
            refine ih ρ m _ _ _ hm _ o outF he rfl ?_
            intro st' he' hst hout
            refine .next (step_vabs_app hst) ?_
            exact ih _ body out1 t out' h _ o outF (he'.cons x hvr) hout hk
          | trap =>
            simp only [Option.some.injEq, Prod.mk.injEq] at h
            obtain ⟨rfl, rfl⟩ := h
            exact ih ρ m _ _ _ hm _ o outF he rfl hk
          | exit c =>
            simp only [Option.some.injEq, Prod.mk.injEq] at h
            obtain ⟨rfl, rfl⟩ := h
            exact ih ρ m _ _ _ hm _ o outF he rfl hk
          | ret _ => zv_rm_wrong h hk
          | cocase _ _ => zv_rm_wrong h hk
          | wrong => zv_rm_wrong h hk
    | force v =>
      simp only [evalRC] at h
      simp only [eraseC]
      split at h
      · next m' ρ' hv =>
        obtain ⟨sv, hvr, hev⟩ := evalV_erase_valFuel hv he
        obtain ⟨env', rfl, he'⟩ := hvr.thunk_inv
        refine .next (step_force_thunk hev) ?_
        exact ih ρ' m' _ t out' h _ o outF he' rfl hk
      · zv_rm_wrong h hk
    | fix f b m =>
      simp only [evalRC] at h
      simp only [eraseC]
      refine .next (step_fix _ _ _) ?_
      refine ih _ m _ t out' h _ o outF ?_ rfl hk
      have hth : VRel (.thunk (.fix f b m) ρ) (.thunk (eraseC (.fix f b m)) st.env) := VRel.mkThunk he
      simp only [eraseC] at hth
      exact he.cons f hth
    | case v d arms b =>
      simp only [evalRC] at h
      simp only [eraseC]
      split at h
      · next k a hv =>
        split at h
        · next k' x m' hf =>
          obtain ⟨sv, hvr, hev⟩ := evalV_erase_valFuel hv he
          cases hvr with
          | ctor ha =>
            refine .next ((step_cmatch hev).trans (step_go_arms st k _ st.env arms k' x m' hf)) ?_
            exact ih _ m' _ t out' h _ o outF (he.cons x ha) rfl hk
        · zv_rm_wrong h hk
      · zv_rm_wrong h hk
    | comatch c arms =>
      simp only [evalRC, Option.some.injEq, Prod.mk.injEq] at h
      obtain ⟨rfl, rfl⟩ := h
      simp only [eraseC]
      exact hk st he rfl rfl
    | dtor m k =>
      simp only [evalRC] at h
      simp only [eraseC]
      refine .next (step_dtor _ _ _) ?_
      cases hm : evalRC fuel ρ m st.host.output with
      | none => rw [hm] at h; simp at h
      | some r =>
        obtain ⟨t1, out1⟩ := r
        rw [hm] at h
        cases t1 with
        | cocase arms ρ' =>
          simp only at h
          split at h
          · next k' body hf =>
            refine ih ρ m _ _ _ hm _ o outF he rfl ?_
            intro st' he' hst hout
            refine .next (step_comatch hst (find_eraseCoArms k arms k' body hf)) ?_
            exact ih ρ' body out1 t out' h _ o outF he' hout hk
          · zv_rm_wrong h hk
        | trap =>
          simp only [Option.some.injEq, Prod.mk.injEq] at h
          obtain ⟨rfl, rfl⟩ := h
          exact ih ρ m _ _ _ hm _ o outF he rfl hk
        | exit c =>
          simp only [Option.some.injEq, Prod.mk.injEq] at h
          obtain ⟨rfl, rfl⟩ := h
          exact ih ρ m _ _ _ hm _ o outF he rfl hk
        | ret _ => zv_rm_wrong h hk
        | lam _ _ _ => zv_rm_wrong h hk
        | wrong => zv_rm_wrong h hk
    | arith ty op a b =>
      simp only [eraseC]
      have hh0 := fun (x y : BitVec ty.width) => hostOp_arith ty op x y st.host
      cases op
      all_goals
        simp only [evalRC] at h
        simp only [ArithOp.name] at hh0 ⊢
        split at h
        · next t1 x t2 y ha hb =>
          by_cases h1 : t1 = ty
          · subst h1
            by_cases h2 : t2 = t1
            · subst h2
              rw [dif_pos rfl, dif_pos rfl] at h
              obtain ⟨sa, hva, hea⟩ := evalV_erase_valFuel ha he
              obtain ⟨sb, hvb, heb⟩ := evalV_erase_valFuel hb he
              cases hva; cases hvb
              refine .next (step_vapp heb) ?_
              refine .next (step_vapp hea) ?_
              refine .next (step_force_prim _ _ _) ?_
              have hh := hh0 x y
              split at h
              · next r hr =>
                rw [hr] at hh
                simp only [Option.some.injEq, Prod.mk.injEq] at h
                obtain ⟨rfl, rfl⟩ := h
                obtain ⟨u, hs⟩ := step_prim_ret (arity := 2)
                  (st := { st with stack := .app (.lit (.int t2 x)) :: .app (.lit (.int t2 y)) :: st.stack })
                  (args := [.lit (.int t2 x), .lit (.int t2 y)]) (rest := st.stack)
                  (hargs := [.int t2 x, .int t2 y]) rfl rfl hh
                refine .next hs ?_
                exact hk _ _ (VRel.int t2 r) rfl rfl
              · next hr =>
                rw [hr] at hh
                simp only [Option.some.injEq, Prod.mk.injEq] at h
                obtain ⟨rfl, rfl⟩ := h
                obtain ⟨u, hs⟩ := step_prim_trap (arity := 2)
                  (st := { st with stack := .app (.lit (.int t2 x)) :: .app (.lit (.int t2 y)) :: st.stack })
                  (args := [.lit (.int t2 x), .lit (.int t2 y)]) (rest := st.stack)
                  (hargs := [.int t2 x, .int t2 y]) rfl rfl hh
                obtain ⟨rfl, rfl⟩ := hk
                exact Halts.done' hs rfl
            · rw [dif_pos rfl, dif_neg h2] at h; zv_rm_wrong h hk
          · rw [dif_neg h1] at h; zv_rm_wrong h hk
        · zv_rm_wrong h hk
    | cmp ty op a b res yes no =>
      simp only [eraseC]
      have hh0 := fun (x y : BitVec ty.width) => hostOp_cmp ty op x y 2 3 st.host
      cases op
      all_goals
        simp only [evalRC] at h
        simp only [CmpOp.name] at hh0 ⊢
        split at h
        · next t1 x t2 y ha hb =>
          by_cases h1 : t1 = ty
          · subst h1
            by_cases h2 : t2 = t1
            · subst h2
              rw [dif_pos rfl, dif_pos rfl] at h
              obtain ⟨sa, hva, hea⟩ := evalV_erase_valFuel ha he
              obtain ⟨sb, hvb, heb⟩ := evalV_erase_valFuel hb he
              cases hva; cases hvb
              refine .next (step_vapp (evalV_thunk_valFuel _ _)) ?_
              refine .next (step_vapp (evalV_thunk_valFuel _ _)) ?_
              refine .next (step_vapp heb) ?_
              refine .next (step_vapp hea) ?_
              refine .next (step_force_prim _ _ _) ?_
              have hh := hh0 x y
              split at h
              · next hc =>
                rw [if_pos hc] at hh
                obtain ⟨u, hs⟩ := step_prim_call (arity := 4)
                  (st := { st with stack := Frame.app (.lit (.int t2 x)) :: Frame.app (.lit (.int t2 y)) :: Frame.app (.thunk (eraseC yes) st.env) :: Frame.app (.thunk (eraseC no) st.env) :: st.stack })
                  (args := [.lit (.int t2 x), .lit (.int t2 y), .thunk (eraseC yes) st.env, .thunk (eraseC no) st.env])
                  (rest := st.stack)
                  (hargs := [.int t2 x, .int t2 y, .thunk 2, .thunk 3]) (k := .thunk (eraseC yes) st.env)
                  rfl rfl hh rfl
                refine .next hs ?_
                refine .next (step_callSem_thunk _ _ _ _) ?_
                exact ih ρ yes _ t out' h _ o outF he rfl hk
              · next hc =>
                rw [if_neg hc] at hh
                obtain ⟨u, hs⟩ := step_prim_call (arity := 4)
                  (st := { st with stack := Frame.app (.lit (.int t2 x)) :: Frame.app (.lit (.int t2 y)) :: Frame.app (.thunk (eraseC yes) st.env) :: Frame.app (.thunk (eraseC no) st.env) :: st.stack })
                  (args := [.lit (.int t2 x), .lit (.int t2 y), .thunk (eraseC yes) st.env, .thunk (eraseC no) st.env])
                  (rest := st.stack)
                  (hargs := [.int t2 x, .int t2 y, .thunk 2, .thunk 3]) (k := .thunk (eraseC no) st.env)
                  rfl rfl hh rfl
                refine .next hs ?_
                refine .next (step_callSem_thunk _ _ _ _) ?_
                exact ih ρ no _ t out' h _ o outF he rfl hk
            · rw [dif_pos rfl, dif_neg h2] at h; zv_rm_wrong h hk
          · rw [dif_neg h1] at h; zv_rm_wrong h hk
        · zv_rm_wrong h hk
    | toStr ty a =>
      simp only [eraseC]
      simp only [evalRC] at h
      split at h
      · next t1 x ha =>
        by_cases h1 : t1 = ty
        · subst h1
          rw [dif_pos rfl] at h
          simp only [Option.some.injEq, Prod.mk.injEq] at h
          obtain ⟨rfl, rfl⟩ := h
          obtain ⟨sa, hva, hea⟩ := evalV_erase_valFuel ha he
          cases hva
          refine .next (step_vapp hea) ?_
          refine .next (step_force_prim _ _ _) ?_
          obtain ⟨u, hs⟩ := step_prim_ret (arity := 1)
            (st := { st with stack := .app (.lit (.int t1 x)) :: st.stack })
            (args := [.lit (.int t1 x)]) (rest := st.stack) (hargs := [.int t1 x]) rfl rfl
            (hostOp_toStr t1 x st.host)
          refine .next hs ?_
          exact hk _ _ (VRel.str _) rfl rfl
        · rw [dif_neg h1] at h; zv_rm_wrong h hk
      · zv_rm_wrong h hk
    | strAppend a b =>
      simp only [eraseC]
      simp only [evalRC] at h
      split at h
      · next x y ha hb =>
        simp only [Option.some.injEq, Prod.mk.injEq] at h
        obtain ⟨rfl, rfl⟩ := h
        obtain ⟨sa, hva, hea⟩ := evalV_erase_valFuel ha he
        obtain ⟨sb, hvb, heb⟩ := evalV_erase_valFuel hb he
        cases hva; cases hvb
        refine .next (step_vapp heb) ?_
        refine .next (step_vapp hea) ?_
        refine .next (step_force_prim _ _ _) ?_
        obtain ⟨u, hs⟩ := step_prim_ret (arity := 2)
          (st := { st with stack := .app (.lit (.str x)) :: .app (.lit (.str y)) :: st.stack })
          (args := [.lit (.str x), .lit (.str y)]) (rest := st.stack) (hargs := [.str x, .str y]) rfl rfl
          (hostOp_strAppend x y st.host)
        refine .next hs ?_
        exact hk _ _ (VRel.str _) rfl rfl
      · zv_rm_wrong h hk
    | writeLine s k =>
      simp only [eraseC]
      simp only [evalRC] at h
      split at h
      · next x hs' =>
        obtain ⟨sa, hva, hea⟩ := evalV_erase_valFuel hs' he
        cases hva
        refine .next (step_vapp (evalV_thunk_valFuel _ _)) ?_
        refine .next (step_vapp hea) ?_
        refine .next (step_force_prim _ _ _) ?_
        obtain ⟨u, hs⟩ := step_prim_call (arity := 2)
          (st := { st with stack := .app (.lit (.str x)) :: .app (.thunk (eraseC k) st.env) :: st.stack })
          (args := [.lit (.str x), .thunk (eraseC k) st.env]) (rest := st.stack)
          (hargs := [.str x, .thunk 1]) (k := .thunk (eraseC k) st.env) rfl rfl
          (hostOp_writeLine x 1 st.host) rfl
        refine .next hs ?_
        refine .next (step_callSem_thunk _ _ _ _) ?_
        exact ih ρ k _ t out' h _ o outF he rfl hk
      · zv_rm_wrong h hk
    | exit code =>
      simp only [eraseC]
      simp only [evalRC] at h
      split at h
      · next x hc =>
        simp only [Option.some.injEq, Prod.mk.injEq] at h
        obtain ⟨rfl, rfl⟩ := h
        obtain ⟨sa, hva, hea⟩ := evalV_erase_valFuel hc he
        cases hva
        refine .next (step_vapp hea) ?_
        refine .next (step_force_prim _ _ _) ?_
        obtain ⟨u, hs⟩ := step_prim_exit (arity := 1)
          (st := { st with stack := .app (.lit (.int .i64 x)) :: st.stack })
          (args := [.lit (.int .i64 x)]) (rest := st.stack) (hargs := [.int .i64 x]) rfl rfl
          (hostOp_exit x st.host)
        obtain ⟨rfl, rfl⟩ := hk
        exact Halts.done' hs rfl
      · zv_rm_wrong h hk

/-- **Reference to machine.** -/
theorem ref_to_machine_pf : ZV.Props.C02.Statement.ref_to_machine := by
  intro Δ body fuel out _ _
  refine ⟨?_, ?_⟩
  · intro code h
    have hh := sim fuel [] body [] _ _ h { host := { stdin := [], argv := [] } } (.exit code) out
      EnvRel.nil rfl ⟨rfl, rfl⟩
    obtain ⟨n, st', k, hr, ho⟩ := hh.runFrom 0
    exact ⟨n, st', k, hr, ho⟩
  · intro h
    have hh := sim fuel [] body [] _ _ h { host := { stdin := [], argv := [] } } .trap out
      EnvRel.nil rfl ⟨rfl, rfl⟩
    obtain ⟨n, st', k, hr, ho⟩ := hh.runFrom 0
    exact ⟨n, st', k, hr, ho⟩


/-! ### Type soundness of the reference semantics -/

/-- typing of reference values (a thunk is typed by SOME context its environment inhabits) -/
inductive RValTy (Δ : Sig) : RVal → VTy → Prop
  | unit : RValTy Δ .unit .unit
  | int (t : IntTy) (x : BitVec t.width) : RValTy Δ (.int t x) (.int t)
  | str (s : List Char) : RValTy Δ (.str s) .str
  | pair {a b : RVal} {ta tb : VTy} : RValTy Δ a ta → RValTy Δ b tb → RValTy Δ (.pair a b) (.prod ta tb)
  | ctor {d : Nat} {k : String} {arg : RVal} {a : VTy} : Δ.ctor? d k = some a → RValTy Δ arg a →
      RValTy Δ (.ctor k arg) (.data d)
  | thunk {m : C} {ρ : REnv} {Γ : Ctx} {b : CTy} :
      (∀ x a, Ctx.get? Γ x = some a → (REnv.get? ρ x).isSome = true) →
      (∀ x a rv, Ctx.get? Γ x = some a → REnv.get? ρ x = some rv → RValTy Δ rv a) →
      HasTyC Δ Γ m b → RValTy Δ (.thunk m ρ) (.thk b)

def EnvTy (Δ : Sig) (ρ : REnv) (Γ : Ctx) : Prop :=
  ∀ x a, Ctx.get? Γ x = some a → ∃ rv, REnv.get? ρ x = some rv ∧ RValTy Δ rv a

theorem EnvTy.nil (Δ : Sig) : EnvTy Δ [] [] := by
  intro x a h; simp [Ctx.get?] at h

theorem EnvTy.cons {Δ : Sig} {ρ : REnv} {Γ : Ctx} (h : EnvTy Δ ρ Γ) (x : Nat) {rv : RVal} {a : VTy}
    (hv : RValTy Δ rv a) : EnvTy Δ ((x, rv) :: ρ) ((x, a) :: Γ) := by
  intro y r hy
  unfold Ctx.get? at hy
  unfold REnv.get?
  rw [List.find?_cons] at hy ⊢
  by_cases hxy : (x == y) = true
  · simp only [hxy] at hy ⊢
    simp only [Option.map_some, Option.some.injEq] at hy
    subst hy
    exact ⟨rv, rfl, hv⟩
  · simp only [hxy] at hy ⊢
    exact h y r hy

theorem RValTy.mkThunk {Δ : Sig} {m : C} {ρ : REnv} {Γ : Ctx} {b : CTy} (h : EnvTy Δ ρ Γ)
    (hm : HasTyC Δ Γ m b) : RValTy Δ (.thunk m ρ) (.thk b) := by
  refine .thunk ?_ ?_ hm
  · intro x a hx
    obtain ⟨rv, hs, _⟩ := h x a hx
    rw [hs]; rfl
  · intro x a rv hx hs
    obtain ⟨rv', hs', hv⟩ := h x a hx
    rw [hs] at hs'; cases hs'; exact hv

theorem RValTy.thunk_inv {Δ : Sig} {rv : RVal} {b : CTy} (h : RValTy Δ rv (.thk b)) :
    ∃ m ρ Γ, rv = .thunk m ρ ∧ EnvTy Δ ρ Γ ∧ HasTyC Δ Γ m b := by
  cases h with
  | thunk h1 h2 hm =>
    refine ⟨_, _, _, rfl, ?_, hm⟩
    intro x a hx
    have := h1 x a hx
    cases hg : REnv.get? _ x with
    | none => rw [hg] at this; cases this
    | some rv => exact ⟨rv, rfl, h2 x a rv hx hg⟩

/-- typing of terminal forms: `exit` only at `OS`, `trap` anywhere, `wrong` nowhere -/
inductive RTermTy (Δ : Sig) : RTerm → CTy → Prop
  | ret {rv : RVal} {a : VTy} : RValTy Δ rv a → RTermTy Δ (.ret rv) (.ret a)
  | lam {x : Nat} {m : C} {ρ : REnv} {Γ : Ctx} {a : VTy} {b : CTy} : EnvTy Δ ρ Γ →
      HasTyC Δ ((x, a) :: Γ) m b → RTermTy Δ (.lam x m ρ) (.arr a b)
  | cocase {arms : List (String × C)} {ρ : REnv} {Γ : Ctx} {c : Nat} {dtors : List (String × CTy)} :
      EnvTy Δ ρ Γ → Δ.codatas[c]? = some dtors →
      (∀ k b, (k, b) ∈ dtors → (arms.filter (·.1 == k)).length = 1) → CoArmsTy Δ Γ c arms →
      RTermTy Δ (.cocase arms ρ) (.codata c)
  | exit (code : Int) : RTermTy Δ (.exit code) .os
  | trap (b : CTy) : RTermTy Δ .trap b

/-- well-typed values evaluate, to a value of their type -/
theorem evalRV_typed (Δ : Sig) : ∀ (v : V) (Γ : Ctx) (a : VTy) (ρ : REnv), HasTyV Δ Γ v a → EnvTy Δ ρ Γ →
    ∃ rv, evalRV ρ v = some rv ∧ RValTy Δ rv a
  | .var x, Γ, a, ρ, h, he => by
    cases h with
    | var hx =>
      obtain ⟨rv, hr, hv⟩ := he x a hx
      exact ⟨rv, by simp only [evalRV, hr], hv⟩
  | .unit, Γ, a, ρ, h, he => by
    cases h; exact ⟨_, rfl, .unit⟩
  | .int t x, Γ, a, ρ, h, he => by
    cases h; exact ⟨_, rfl, .int t x⟩
  | .str s, Γ, a, ρ, h, he => by
    cases h; exact ⟨_, rfl, .str s⟩
  | .pair v w, Γ, a, ρ, h, he => by
    cases h with
    | pair hv hw =>
      obtain ⟨rv, hr, hvt⟩ := evalRV_typed Δ v Γ _ ρ hv he
      obtain ⟨rw', hr', hwt⟩ := evalRV_typed Δ w Γ _ ρ hw he
      exact ⟨_, by simp only [evalRV, hr, hr'], .pair hvt hwt⟩
  | .ctor d k arg, Γ, a, ρ, h, he => by
    cases h with
    | ctor hc ha =>
      obtain ⟨rv, hr, hvt⟩ := evalRV_typed Δ arg Γ _ ρ ha he
      exact ⟨_, by simp only [evalRV, hr, Option.map_some], .ctor hc hvt⟩
  | .thunk m b, Γ, a, ρ, h, he => by
    cases h with
    | thunk hm => exact ⟨_, rfl, RValTy.mkThunk he hm⟩

theorem ArmsTy.of_mem {Δ : Sig} {Γ : Ctx} {d : Nat} {b : CTy} :
    ∀ {arms : List (String × Nat × C)}, ArmsTy Δ Γ d arms b → ∀ k x m, (k, x, m) ∈ arms →
      ∃ a, Δ.ctor? d k = some a ∧ HasTyC Δ ((x, a) :: Γ) m b := by
  intro arms
  induction arms with
  | nil => intro _ k x m hm; cases hm
  | cons arm rest ih =>
    intro h k x m hm
    cases h with
    | cons hc hty hrest =>
      rcases List.mem_cons.1 hm with e | hm'
      · cases e; exact ⟨_, hc, hty⟩
      · exact ih hrest k x m hm'

theorem CoArmsTy.of_mem {Δ : Sig} {Γ : Ctx} {c : Nat} :
    ∀ {arms : List (String × C)}, CoArmsTy Δ Γ c arms → ∀ k m, (k, m) ∈ arms →
      ∃ b, Δ.dtor? c k = some b ∧ HasTyC Δ Γ m b := by
  intro arms
  induction arms with
  | nil => intro _ k m hm; cases hm
  | cons arm rest ih =>
    intro h k m hm
    cases h with
    | cons hc hty hrest =>
      rcases List.mem_cons.1 hm with e | hm'
      · cases e; exact ⟨_, hc, hty⟩
      · exact ih hrest k m hm'

theorem find_of_filter_length {α : Type} (p : α → Bool) (l : List α) (h : (l.filter p).length = 1) :
    ∃ a, l.find? p = some a := by
  cases hf : l.find? p with
  | some a => exact ⟨a, rfl⟩
  | none =>
    rw [List.find?_eq_none] at hf
    have : l.filter p = [] := List.filter_eq_nil_iff.2 (by intro a ha; simpa using hf a ha)
    rw [this] at h; cases h

theorem Sig.ctor?_mem {Δ : Sig} {d : Nat} {k : String} {a : VTy} (h : Δ.ctor? d k = some a) :
    ∃ ctors, Δ.datas[d]? = some ctors ∧ (k, a) ∈ ctors := by
  unfold Sig.ctor? at h
  cases hd : Δ.datas[d]? with
  | none => rw [hd] at h; cases h
  | some ctors =>
    rw [hd] at h
    simp only [Option.bind_some] at h
    cases hf : ctors.find? (·.1 == k) with
    | none => rw [hf] at h; cases h
    | some e =>
      rw [hf] at h
      simp only [Option.map_some, Option.some.injEq] at h
      have hm := List.mem_of_find?_eq_some hf
      have hk := List.find?_some hf
      have : e.1 = k := by simpa using hk
      refine ⟨ctors, rfl, ?_⟩
      obtain ⟨e1, e2⟩ := e
      simp only at this h
      subst this; subst h
      exact hm

theorem Sig.dtor?_mem {Δ : Sig} {c : Nat} {k : String} {b : CTy} (h : Δ.dtor? c k = some b) :
    ∃ dtors, Δ.codatas[c]? = some dtors ∧ (k, b) ∈ dtors := by
  unfold Sig.dtor? at h
  cases hd : Δ.codatas[c]? with
  | none => rw [hd] at h; cases h
  | some dtors =>
    rw [hd] at h
    simp only [Option.bind_some] at h
    cases hf : dtors.find? (·.1 == k) with
    | none => rw [hf] at h; cases h
    | some e =>
      rw [hf] at h
      simp only [Option.map_some, Option.some.injEq] at h
      have hm := List.mem_of_find?_eq_some hf
      have hk := List.find?_some hf
      have : e.1 = k := by simpa using hk
      refine ⟨dtors, rfl, ?_⟩
      obtain ⟨e1, e2⟩ := e
      simp only at this h
      subst this; subst h
      exact hm

/-- **Preservation** for the reference semantics: the terminal form of a well-typed computation has
its type; in particular it is never `wrong`. -/
theorem preservation (Δ : Sig) : ∀ (fuel : Nat) (ρ : REnv) (m : C) (out : Bytes) (t : RTerm) (out' : Bytes)
    (Γ : Ctx) (b : CTy), HasTyC Δ Γ m b → EnvTy Δ ρ Γ → evalRC fuel ρ m out = some (t, out') →
    RTermTy Δ t b := by
  intro fuel
  induction fuel with
  | zero => intro ρ m out t out' Γ b _ _ h; simp [evalRC] at h
  | succ fuel ih =>
    intro ρ m out t out' Γ b hty he h
    cases hty with
    | ret hv =>
      obtain ⟨rv, hr, hvt⟩ := evalRV_typed Δ _ _ _ ρ hv he
      simp only [evalRC, hr, Option.some.injEq, Prod.mk.injEq] at h
      obtain ⟨rfl, rfl⟩ := h
      exact .ret hvt
    | bind hm hn =>
      simp only [evalRC] at h
      cases hmr : evalRC fuel ρ _ out with
      | none => rw [hmr] at h; simp at h
      | some r =>
        obtain ⟨t1, out1⟩ := r
        rw [hmr] at h
        have h1 := ih ρ _ out t1 out1 Γ _ hm he hmr
        cases h1 with
        | ret hvt =>
          simp only at h
          exact ih _ _ out1 t out' _ b hn (he.cons _ hvt) h
        | trap _ =>
          simp only [Option.some.injEq, Prod.mk.injEq] at h
          obtain ⟨rfl, rfl⟩ := h
          exact .trap b
    | clet hv hm =>
      obtain ⟨rv, hr, hvt⟩ := evalRV_typed Δ _ _ _ ρ hv he
      simp only [evalRC, hr] at h
      exact ih _ _ out t out' _ b hm (he.cons _ hvt) h
    | letPair hv hm =>
      obtain ⟨rv, hr, hvt⟩ := evalRV_typed Δ _ _ _ ρ hv he
      cases hvt with
      | pair ha hb =>
        simp only [evalRC, hr] at h
        exact ih _ _ out t out' _ b hm ((he.cons _ ha).cons _ hb) h
    | fn hm =>
      simp only [evalRC, Option.some.injEq, Prod.mk.injEq] at h
      obtain ⟨rfl, rfl⟩ := h
      exact .lam he hm
    | app hm hv =>
      obtain ⟨rv, hr, hvt⟩ := evalRV_typed Δ _ _ _ ρ hv he
      simp only [evalRC, hr] at h
      cases hmr : evalRC fuel ρ _ out with
      | none => rw [hmr] at h; simp at h
      | some r =>
        obtain ⟨t1, out1⟩ := r
        rw [hmr] at h
        have h1 := ih ρ _ out t1 out1 Γ _ hm he hmr
        cases h1 with
        | lam he' hbody =>
          simp only at h
          exact ih _ _ out1 t out' _ b hbody (he'.cons _ hvt) h
        | trap _ =>
          simp only [Option.some.injEq, Prod.mk.injEq] at h
          obtain ⟨rfl, rfl⟩ := h
          exact .trap b
    | force hv =>
      obtain ⟨rv, hr, hvt⟩ := evalRV_typed Δ _ _ _ ρ hv he
      obtain ⟨m', ρ', Γ', rfl, he', hm'⟩ := hvt.thunk_inv
      simp only [evalRC, hr] at h
      exact ih _ _ out t out' _ b hm' he' h
    | fix hm =>
      simp only [evalRC] at h
      exact ih _ _ out t out' _ b hm (he.cons _ (RValTy.mkThunk he (.fix hm))) h
    | case hv hd hcov harms =>
      obtain ⟨rv, hr, hvt⟩ := evalRV_typed Δ _ _ _ ρ hv he
      cases hvt with
      | ctor hc ha =>
        simp only [evalRC, hr] at h
        obtain ⟨ctors', hd', hmem⟩ := Sig.ctor?_mem hc
        rw [hd] at hd'; cases hd'
        obtain ⟨arm, hf⟩ := find_of_filter_length _ _ (hcov _ _ hmem)
        obtain ⟨k', x, m'⟩ := arm
        rw [hf] at h
        simp only at h
        have hk := List.find?_some hf
        have hk' := eq_of_beq hk
        simp only at hk'
        subst hk'
        obtain ⟨a', hc', hty'⟩ := ArmsTy.of_mem harms _ _ _ (List.mem_of_find?_eq_some hf)
        rw [hc] at hc'; cases hc'
        exact ih _ _ out t out' _ b hty' (he.cons _ ha) h
    | comatch hd hcov harms =>
      simp only [evalRC, Option.some.injEq, Prod.mk.injEq] at h
      obtain ⟨rfl, rfl⟩ := h
      exact .cocase he hd hcov harms
    | dtor hm hd =>
      simp only [evalRC] at h
      cases hmr : evalRC fuel ρ _ out with
      | none => rw [hmr] at h; simp at h
      | some r =>
        obtain ⟨t1, out1⟩ := r
        rw [hmr] at h
        have h1 := ih ρ _ out t1 out1 Γ _ hm he hmr
        cases h1 with
        | cocase he' hd' hcov harms =>
          simp only at h
          obtain ⟨dtors', hd'', hmem⟩ := Sig.dtor?_mem hd
          rw [hd'] at hd''; cases hd''
          obtain ⟨arm, hf⟩ := find_of_filter_length _ _ (hcov _ _ hmem)
          obtain ⟨k', body⟩ := arm
          rw [hf] at h
          simp only at h
          have hk := List.find?_some hf
          have hk' := eq_of_beq hk
          simp only at hk'
          subst hk'
          obtain ⟨b', hc', hty'⟩ := CoArmsTy.of_mem harms _ _ (List.mem_of_find?_eq_some hf)
          rw [hd] at hc'; cases hc'
          exact ih _ _ out1 t out' _ b hty' he' h
        | trap _ =>
          simp only [Option.some.injEq, Prod.mk.injEq] at h
          obtain ⟨rfl, rfl⟩ := h
          exact .trap b
    | arith ty op ha hb =>
      obtain ⟨ra, hra, hat⟩ := evalRV_typed Δ _ _ _ ρ ha he
      obtain ⟨rb, hrb, hbt⟩ := evalRV_typed Δ _ _ _ ρ hb he
      cases hat; cases hbt
      simp only [evalRC, hra, hrb, dite_true] at h
      split at h
      · simp only [Option.some.injEq, Prod.mk.injEq] at h
        obtain ⟨rfl, rfl⟩ := h
        exact .ret (.int _ _)
      · simp only [Option.some.injEq, Prod.mk.injEq] at h
        obtain ⟨rfl, rfl⟩ := h
        exact .trap _
    | cmp ty op ha hb hy hn =>
      obtain ⟨ra, hra, hat⟩ := evalRV_typed Δ _ _ _ ρ ha he
      obtain ⟨rb, hrb, hbt⟩ := evalRV_typed Δ _ _ _ ρ hb he
      cases hat; cases hbt
      simp only [evalRC, hra, hrb, dite_true] at h
      split at h <;> (split at h <;>
        first | exact ih _ _ out t out' _ b hy he h | exact ih _ _ out t out' _ b hn he h)
    | toStr ty ha =>
      obtain ⟨ra, hra, hat⟩ := evalRV_typed Δ _ _ _ ρ ha he
      cases hat
      simp only [evalRC, hra, dite_true, Option.some.injEq, Prod.mk.injEq] at h
      obtain ⟨rfl, rfl⟩ := h
      exact .ret (.str _)
    | strAppend ha hb =>
      obtain ⟨ra, hra, hat⟩ := evalRV_typed Δ _ _ _ ρ ha he
      obtain ⟨rb, hrb, hbt⟩ := evalRV_typed Δ _ _ _ ρ hb he
      cases hat; cases hbt
      simp only [evalRC, hra, hrb, Option.some.injEq, Prod.mk.injEq] at h
      obtain ⟨rfl, rfl⟩ := h
      exact .ret (.str _)
    | writeLine hs hk =>
      obtain ⟨ra, hra, hat⟩ := evalRV_typed Δ _ _ _ ρ hs he
      cases hat
      simp only [evalRC, hra] at h
      exact ih _ _ _ t out' _ _ hk he h
    | exit hc =>
      obtain ⟨ra, hra, hat⟩ := evalRV_typed Δ _ _ _ ρ hc he
      cases hat
      simp only [evalRC, hra, Option.some.injEq, Prod.mk.injEq] at h
      obtain ⟨rfl, rfl⟩ := h
      exact .exit _

/-- The reference semantics never goes `wrong` on an accepted program, given the soundness of
the checker w.r.t. the declared typing rules (C03 `check_sound`). -/
theorem ref_never_wrong_of_sound
    (hs : ∀ (Δ : Sig) (Γ : Ctx) (m : C) (b : CTy), Δ.Wf → inferC Δ Γ m = .ok b → HasTyC Δ Γ m b) :
    ZV.Props.C02.Statement.ref_never_wrong := by
  intro Δ body fuel out hwf hchk h
  have hty : HasTyC Δ [] body .os := by
    unfold checkProgram at hchk
    split at hchk
    · next e => exact hs Δ [] body .os hwf e
    · cases hchk
    · cases hchk
  have := preservation Δ fuel [] body [] _ _ [] .os hty (EnvTy.nil Δ) h
  cases this

/-! ### Soundness of the checker w.r.t. the declared rules -/

theorem Except.bind_eq_ok {ε α β : Type} {x : Except ε α} {f : α → Except ε β} {b : β}
    (h : (x >>= f) = .ok b) : ∃ a, x = .ok a ∧ f a = .ok b := by
  cases x with
  | error e => cases h
  | ok a => exact ⟨a, rfl, h⟩

mutual
  theorem VTy.eq_of_beq' : ∀ (a b : VTy), VTy.beq a b = true → a = b
    | .unit, b, h => by cases b <;> simp [VTy.beq] at h ⊢
    | .int t, b, h => by cases b <;> simp [VTy.beq] at h ⊢; exact h
    | .str, b, h => by cases b <;> simp [VTy.beq] at h ⊢
    | .prod a1 a2, b, h => by
      cases b <;> simp [VTy.beq] at h ⊢
      exact ⟨VTy.eq_of_beq' _ _ h.1, VTy.eq_of_beq' _ _ h.2⟩
    | .data d, b, h => by cases b <;> simp [VTy.beq] at h ⊢; exact h
    | .thk c, b, h => by
      cases b <;> simp [VTy.beq] at h ⊢
      exact CTy.eq_of_beq' _ _ h
  theorem CTy.eq_of_beq' : ∀ (a b : CTy), CTy.beq a b = true → a = b
    | .ret a, b, h => by
      cases b <;> simp [CTy.beq] at h ⊢
      exact VTy.eq_of_beq' _ _ h
    | .arr a1 a2, b, h => by
      cases b <;> simp [CTy.beq] at h ⊢
      exact ⟨VTy.eq_of_beq' _ _ h.1, CTy.eq_of_beq' _ _ h.2⟩
    | .codata c, b, h => by cases b <;> simp [CTy.beq] at h ⊢; exact h
    | .os, b, h => by cases b <;> simp [CTy.beq] at h ⊢
end

theorem vty_eq {a b : VTy} (h : (a == b) = true) : a = b := VTy.eq_of_beq' a b h
theorem cty_eq {a b : CTy} (h : (a == b) = true) : a = b := CTy.eq_of_beq' a b h


mutual
  theorem inferV_sound (Δ : Sig) : ∀ (Γ : Ctx) (v : V) (a : VTy), inferV Δ Γ v = .ok a → HasTyV Δ Γ v a
    | Γ, .var x, a, h => by
      simp only [inferV] at h
      split at h
      · next a' hx => cases h; exact .var hx
      · cases h
    | Γ, .unit, a, h => by simp only [inferV] at h; cases h; exact .unit
    | Γ, .int t x, a, h => by simp only [inferV] at h; cases h; exact .int t x
    | Γ, .str s, a, h => by simp only [inferV] at h; cases h; exact .str s
    | Γ, .pair v w, a, h => by
      simp only [inferV] at h
      obtain ⟨ta, hta, h⟩ := Except.bind_eq_ok h
      obtain ⟨tb, htb, h⟩ := Except.bind_eq_ok h
      cases h
      exact .pair (inferV_sound Δ Γ v ta hta) (inferV_sound Δ Γ w tb htb)
    | Γ, .ctor d k arg, a, h => by
      simp only [inferV] at h
      split at h
      · cases h
      · next a' hc =>
        obtain ⟨ta, hta, h⟩ := Except.bind_eq_ok h
        split at h
        · next e =>
          cases h
          have := vty_eq e
          subst this
          exact .ctor hc (inferV_sound Δ Γ arg ta hta)
        · cases h
    | Γ, .thunk m b, a, h => by
      simp only [inferV] at h
      obtain ⟨b', hb', h⟩ := Except.bind_eq_ok h
      split at h
      · next e =>
        cases h
        have := cty_eq e
        subst this
        exact .thunk (inferC_sound Δ Γ m b' hb')
      · cases h
  theorem inferC_sound (Δ : Sig) : ∀ (Γ : Ctx) (m : C) (b : CTy), inferC Δ Γ m = .ok b → HasTyC Δ Γ m b
    | Γ, .ret v, b, h => by
      simp only [inferC] at h
      obtain ⟨a, ha, h⟩ := Except.bind_eq_ok h
      cases h
      exact .ret (inferV_sound Δ Γ v a ha)
    | Γ, .bind x a m n, b, h => by
      simp only [inferC] at h
      obtain ⟨tm, htm, h⟩ := Except.bind_eq_ok h
      split at h
      · next e =>
        have := cty_eq e
        subst this
        exact .bind (inferC_sound Δ Γ m _ htm) (inferC_sound Δ _ n b h)
      · cases h
    | Γ, .clet x v m, b, h => by
      simp only [inferC] at h
      obtain ⟨a, ha, h⟩ := Except.bind_eq_ok h
      exact .clet (inferV_sound Δ Γ v a ha) (inferC_sound Δ _ m b h)
    | Γ, .letPair x y v m, b, h => by
      simp only [inferC] at h
      obtain ⟨a, ha, h⟩ := Except.bind_eq_ok h
      split at h
      · next ta tb => exact .letPair (inferV_sound Δ Γ v _ ha) (inferC_sound Δ _ m b h)
      · cases h
    | Γ, .fn x a m, b, h => by
      simp only [inferC] at h
      obtain ⟨b', hb', h⟩ := Except.bind_eq_ok h
      cases h
      exact .fn (inferC_sound Δ _ m b' hb')
    | Γ, .app m v, b, h => by
      simp only [inferC] at h
      obtain ⟨tm, htm, h⟩ := Except.bind_eq_ok h
      obtain ⟨tv, htv, h⟩ := Except.bind_eq_ok h
      split at h
      · next a b' =>
        split at h
        · next e =>
          cases h
          have := vty_eq e
          subst this
          exact .app (inferC_sound Δ Γ m _ htm) (inferV_sound Δ Γ v _ htv)
        · cases h
      · cases h
    | Γ, .force v, b, h => by
      simp only [inferC] at h
      obtain ⟨a, ha, h⟩ := Except.bind_eq_ok h
      split at h
      · cases h; exact .force (inferV_sound Δ Γ v _ ha)
      · cases h
    | Γ, .fix f b0 m, b, h => by
      simp only [inferC] at h
      obtain ⟨tb, htb, h⟩ := Except.bind_eq_ok h
      split at h
      · next e =>
        cases h
        have := cty_eq e
        subst this
        exact .fix (inferC_sound Δ _ m _ htb)
      · cases h
    | Γ, .case v d arms b0, b, h => by
      simp only [inferC] at h
      obtain ⟨a, ha, h⟩ := Except.bind_eq_ok h
      split at h
      · next d' =>
        split at h
        · cases h
        · next hd =>
          have hdd : d' = d := by simpa using hd
          subst hdd
          split at h
          · cases h
          · next ctors hctors =>
            split at h
            · cases h
            · next hcov =>
              split at h
              · cases h
              · obtain ⟨u, hu, h⟩ := Except.bind_eq_ok h
                cases h
                cases u
                refine .case (inferV_sound Δ Γ v _ ha) hctors ?_ (checkArms_sound Δ Γ d' arms _ hu)
                intro k a hka
                simp only [Bool.not_eq_true, Bool.not_eq_false', List.all_eq_true] at hcov
                have := hcov (k, a) hka
                simpa using this
      · cases h
    | Γ, .comatch c arms, b, h => by
      simp only [inferC] at h
      split at h
      · cases h
      · next dtors hdtors =>
        split at h
        · cases h
        · next hcov =>
          split at h
          · cases h
          · obtain ⟨u, hu, h⟩ := Except.bind_eq_ok h
            cases h
            cases u
            refine .comatch hdtors ?_ (checkCoArms_sound Δ Γ c arms hu)
            intro k b hkb
            simp only [Bool.not_eq_true, Bool.not_eq_false', List.all_eq_true] at hcov
            have := hcov (k, b) hkb
            simpa using this
    | Γ, .dtor m k, b, h => by
      simp only [inferC] at h
      obtain ⟨tm, htm, h⟩ := Except.bind_eq_ok h
      split at h
      · next c =>
        split at h
        · next b' hd => cases h; exact .dtor (inferC_sound Δ Γ m _ htm) hd
        · cases h
      · cases h
    | Γ, .arith t op a1 a2, b, h => by
      simp only [inferC] at h
      obtain ⟨ta, hta, h⟩ := Except.bind_eq_ok h
      obtain ⟨tb, htb, h⟩ := Except.bind_eq_ok h
      split at h
      · next e =>
        cases h
        simp only [Bool.and_eq_true] at e
        have e1 := vty_eq e.1
        have e2 := vty_eq e.2
        subst e1; subst e2
        exact .arith t op (inferV_sound Δ Γ a1 _ hta) (inferV_sound Δ Γ a2 _ htb)
      · cases h
    | Γ, .cmp t op a1 a2 res yes no, b, h => by
      simp only [inferC] at h
      obtain ⟨ta, hta, h⟩ := Except.bind_eq_ok h
      obtain ⟨tb, htb, h⟩ := Except.bind_eq_ok h
      obtain ⟨ty, hty, h⟩ := Except.bind_eq_ok h
      obtain ⟨tn, htn, h⟩ := Except.bind_eq_ok h
      split at h
      · next e =>
        cases h
        simp only [Bool.and_eq_true] at e
        have e1 := vty_eq e.1.1.1
        have e2 := vty_eq e.1.1.2
        have e3 := cty_eq e.1.2
        have e4 := cty_eq e.2
        subst e1; subst e2; subst e3; subst e4
        exact .cmp t op (inferV_sound Δ Γ a1 _ hta) (inferV_sound Δ Γ a2 _ htb)
          (inferC_sound Δ Γ yes _ hty) (inferC_sound Δ Γ no _ htn)
      · cases h
    | Γ, .toStr t a1, b, h => by
      simp only [inferC] at h
      obtain ⟨ta, hta, h⟩ := Except.bind_eq_ok h
      split at h
      · next e =>
        cases h
        have e1 := vty_eq e
        subst e1
        exact .toStr t (inferV_sound Δ Γ a1 _ hta)
      · cases h
    | Γ, .strAppend a1 a2, b, h => by
      simp only [inferC] at h
      obtain ⟨ta, hta, h⟩ := Except.bind_eq_ok h
      obtain ⟨tb, htb, h⟩ := Except.bind_eq_ok h
      split at h
      · next e =>
        cases h
        simp only [Bool.and_eq_true] at e
        have e1 := vty_eq e.1
        have e2 := vty_eq e.2
        subst e1; subst e2
        exact .strAppend (inferV_sound Δ Γ a1 _ hta) (inferV_sound Δ Γ a2 _ htb)
      · cases h
    | Γ, .writeLine s k, b, h => by
      simp only [inferC] at h
      obtain ⟨ts, hts, h⟩ := Except.bind_eq_ok h
      obtain ⟨tk, htk, h⟩ := Except.bind_eq_ok h
      split at h
      · next e =>
        cases h
        simp only [Bool.and_eq_true] at e
        have e1 := vty_eq e.1
        have e2 := cty_eq e.2
        subst e1; subst e2
        exact .writeLine (inferV_sound Δ Γ s _ hts) (inferC_sound Δ Γ k _ htk)
      · cases h
    | Γ, .exit code, b, h => by
      simp only [inferC] at h
      obtain ⟨tc, htc, h⟩ := Except.bind_eq_ok h
      split at h
      · next e =>
        cases h
        have e1 := vty_eq e
        subst e1
        exact .exit (inferV_sound Δ Γ code _ htc)
      · cases h
  theorem checkArms_sound (Δ : Sig) : ∀ (Γ : Ctx) (d : Nat) (arms : List (String × Nat × C)) (b : CTy),
      checkArms Δ Γ d arms b = .ok () → ArmsTy Δ Γ d arms b
    | Γ, d, [], b, h => .nil
    | Γ, d, (k, x, m) :: rest, b, h => by
      simp only [checkArms] at h
      split at h
      · cases h
      · next a hc =>
        obtain ⟨b', hb', h2⟩ := Except.bind_eq_ok h
        split at h2
        · next e =>
          have := cty_eq e
          subst this
          exact .cons hc (inferC_sound Δ _ m _ hb') (checkArms_sound Δ Γ d rest _ h2)
        · cases h2
  theorem checkCoArms_sound (Δ : Sig) : ∀ (Γ : Ctx) (c : Nat) (arms : List (String × C)),
      checkCoArms Δ Γ c arms = .ok () → CoArmsTy Δ Γ c arms
    | Γ, c, [], h => .nil
    | Γ, c, (k, m) :: rest, h => by
      simp only [checkCoArms] at h
      split at h
      · cases h
      · next b hc =>
        obtain ⟨tb, htb, h2⟩ := Except.bind_eq_ok h
        split at h2
        · next e =>
          have := cty_eq e
          subst this
          exact .cons hc (inferC_sound Δ Γ m _ htb) (checkCoArms_sound Δ Γ c rest h2)
        · cases h2
end

/-- The checker is sound for the declared rules (no well-formedness of the signature needed). -/
theorem check_sound : ∀ (Δ : Sig) (Γ : Ctx), Δ.Wf →
    (∀ v a, inferV Δ Γ v = .ok a → HasTyV Δ Γ v a) ∧ (∀ m b, inferC Δ Γ m = .ok b → HasTyC Δ Γ m b) :=
  fun Δ Γ _ => ⟨inferV_sound Δ Γ, inferC_sound Δ Γ⟩

/-- **The reference semantics never goes `wrong` on an accepted program.** -/
theorem ref_never_wrong_pf : ZV.Props.C02.Statement.ref_never_wrong :=
  ref_never_wrong_of_sound (fun Δ Γ m b _ h => inferC_sound Δ Γ m b h)

/-! ### More fuel never changes a finished reference evaluation -/

theorem evalRC_mono : ∀ (f f' : Nat) (ρ : REnv) (m : C) (out : Bytes) (r : RTerm × Bytes),
    evalRC f ρ m out = some r → f ≤ f' → evalRC f' ρ m out = some r := by
  intro f
  induction f with
  | zero => intro f' ρ m out r h; simp [evalRC] at h
  | succ f ih =>
    intro f' ρ m out r h hle
    obtain ⟨f', rfl⟩ : ∃ k, f' = k + 1 := ⟨f' - 1, by omega⟩
    have hle' : f ≤ f' := by omega
    cases m with
    | ret v => simp only [evalRC] at h ⊢; exact h
    | bind x a m n =>
      simp only [evalRC] at h ⊢
      cases hm : evalRC f ρ m out with
      | none => rw [hm] at h; simp at h
      | some r1 =>
        rw [hm] at h
        rw [ih f' ρ m out r1 hm hle']
        obtain ⟨t1, out1⟩ := r1
        cases t1 <;> simp only at h ⊢ <;> first | exact h | exact ih f' _ _ _ r h hle'
    | clet x v m =>
      simp only [evalRC] at h ⊢
      split at h
      · exact ih f' _ _ _ r h hle'
      · exact h
    | letPair x y v m =>
      simp only [evalRC] at h ⊢
      split at h
      · exact ih f' _ _ _ r h hle'
      · exact h
    | fn x a m => simp only [evalRC] at h ⊢; exact h
    | app m v =>
      simp only [evalRC] at h ⊢
      split at h
      · exact h
      · cases hm : evalRC f ρ m out with
        | none => rw [hm] at h; simp at h
        | some r1 =>
          rw [hm] at h
          rw [ih f' ρ m out r1 hm hle']
          obtain ⟨t1, out1⟩ := r1
          cases t1 <;> simp only at h ⊢ <;> first | exact h | exact ih f' _ _ _ r h hle'
    | force v =>
      simp only [evalRC] at h ⊢
      split at h
      · exact ih f' _ _ _ r h hle'
      · exact h
    | fix g b m =>
      simp only [evalRC] at h ⊢
      exact ih f' _ _ _ r h hle'
    | case v d arms b =>
      simp only [evalRC] at h ⊢
      split at h
      · split at h
        · exact ih f' _ _ _ r h hle'
        · exact h
      · exact h
    | comatch c arms => simp only [evalRC] at h ⊢; exact h
    | dtor m k =>
      simp only [evalRC] at h ⊢
      cases hm : evalRC f ρ m out with
      | none => rw [hm] at h; simp at h
      | some r1 =>
        rw [hm] at h
        rw [ih f' ρ m out r1 hm hle']
        obtain ⟨t1, out1⟩ := r1
        cases t1 <;> simp only at h ⊢ <;> first | exact h | skip
        split at h
        · exact ih f' _ _ _ r h hle'
        · exact h
    | arith t op a b => simp only [evalRC] at h ⊢; exact h
    | cmp t op a b res yes no =>
      cases op <;> simp only [evalRC] at h ⊢ <;> (
        split at h
        · next t1 x t2 y ha hb =>
          by_cases h1 : t1 = t
          · by_cases h2 : t2 = t
            · rw [dif_pos h1, dif_pos h2] at h ⊢
              split at h
              · next hc => rw [if_pos hc]; exact ih f' _ _ _ r h hle'
              · next hc => rw [if_neg hc]; exact ih f' _ _ _ r h hle'
            · rw [dif_pos h1, dif_neg h2] at h ⊢; exact h
          · rw [dif_neg h1] at h ⊢; exact h
        · exact h)
    | toStr t a => simp only [evalRC] at h ⊢; exact h
    | strAppend a b => simp only [evalRC] at h ⊢; exact h
    | writeLine s k =>
      simp only [evalRC] at h ⊢
      split at h
      · exact ih f' _ _ _ r h hle'
      · exact h
    | exit code => simp only [evalRC] at h ⊢; exact h


/-! ### Halting runs, counted -/

/-- `HaltsN n c st o out`: the machine started in `(c, st)` takes `n` steps and then ends with `o`. -/
inductive HaltsN : Nat → Comp → State → Outcome → Bytes → Prop
  | done {c : Comp} {st : State} {o : Outcome} {st' : State} :
      step c st = .done o st' → HaltsN 0 c st o st'.host.output
  | next {n : Nat} {c : Comp} {st : State} {c' : Comp} {st' : State} {o : Outcome} {out : Bytes} :
      step c st = .next c' st' → HaltsN n c' st' o out → HaltsN (n + 1) c st o out

theorem HaltsN.of_next {n : Nat} {c c' : Comp} {st st' : State} {o : Outcome} {out : Bytes}
    (h : HaltsN n c st o out) (hs : step c st = .next c' st') :
    ∃ n', n = n' + 1 ∧ HaltsN n' c' st' o out := by
  cases h with
  | done hd => rw [hs] at hd; cases hd
  | next hs' hn => rw [hs] at hs'; cases hs'; exact ⟨_, rfl, hn⟩

theorem HaltsN.of_done {n : Nat} {c : Comp} {st st' : State} {o o' : Outcome} {out : Bytes}
    (h : HaltsN n c st o out) (hs : step c st = .done o' st') : o = o' ∧ out = st'.host.output := by
  cases h with
  | done hd => rw [hs] at hd; cases hd; exact ⟨rfl, rfl⟩
  | next hs' hn => rw [hs] at hs'; cases hs'

theorem HaltsN.congr_step {n : Nat} {c c' : Comp} {st st' : State} {o : Outcome} {out : Bytes}
    (e : step c st = step c' st') (h : HaltsN n c' st' o out) : HaltsN n c st o out := by
  cases h with
  | done hs => exact .done (e.trans hs)
  | next hs hn => exact .next (e.trans hs) hn

theorem HaltsN.of_runFrom : ∀ (n : Nat) (c : Comp) (st : State) (k0 : Nat) (o : Outcome) (st' : State)
    (k : Nat), runFrom n c st k0 = (some o, st', k) → ∃ n', HaltsN n' c st o st'.host.output := by
  intro n
  induction n with
  | zero => intro c st k0 o st' k h; simp [Machine.runFrom] at h
  | succ n ih =>
    intro c st k0 o st' k h
    unfold Machine.runFrom at h
    cases hs : step c st with
    | next c1 st1 =>
      rw [hs] at h
      obtain ⟨n', hn'⟩ := ih c1 st1 (k0 + 1) o st' k h
      exact ⟨n' + 1, .next hs hn'⟩
    | done o1 st1 =>
      rw [hs] at h
      simp only [Prod.mk.injEq, Option.some.injEq] at h
      obtain ⟨rfl, rfl, _⟩ := h
      exact ⟨0, .done hs⟩

/-- Where the machine is, and how many steps it still takes, once the terminal form `t` has been
returned to the stack `K` (the converse of `KHalts`). -/
def KBack (n : Nat) (t : RTerm) (out' : Bytes) (K : List Frame) (o : Outcome) (outF : Bytes) : Prop :=
  match t with
  | .ret rv => ∃ (sv : SemVal) (st' : State) (n' : Nat), n' ≤ n ∧ VRel rv sv ∧ st'.stack = K ∧
      st'.host.output = out' ∧ HaltsN n' (.retSem sv) st' o outF
  | .lam x body ρ' => ∃ (st' : State) (n' : Nat), n' ≤ n ∧ EnvRel ρ' st'.env ∧ st'.stack = K ∧
      st'.host.output = out' ∧ HaltsN n' (.vabs (.var x) (eraseC body)) st' o outF
  | .cocase arms ρ' => ∃ (st' : State) (n' : Nat), n' ≤ n ∧ EnvRel ρ' st'.env ∧ st'.stack = K ∧
      st'.host.output = out' ∧ HaltsN n' (.comatch (eraseCoArms arms)) st' o outF
  | .exit code => o = .exit code ∧ outF = out'
  | .trap => o = .trap ∧ outF = out'
  | .wrong => True

theorem KBack.mono {n n' : Nat} {t : RTerm} {out' : Bytes} {K : List Frame} {o : Outcome} {outF : Bytes}
    (h : KBack n t out' K o outF) (hle : n ≤ n') : KBack n' t out' K o outF := by
  cases t with
  | ret rv =>
    obtain ⟨sv, st', k, hk, rest⟩ := h
    exact ⟨sv, st', k, Nat.le_trans hk hle, rest⟩
  | lam x body ρ' =>
    obtain ⟨st', k, hk, rest⟩ := h
    exact ⟨st', k, Nat.le_trans hk hle, rest⟩
  | cocase arms ρ' =>
    obtain ⟨st', k, hk, rest⟩ := h
    exact ⟨st', k, Nat.le_trans hk hle, rest⟩
  | exit c => exact h
  | trap => exact h
  | wrong => exact h

theorem evalRC_bind_ret {f1 f2 : Nat} {ρ : REnv} {x : Nat} {a : VTy} {m n : C} {out out1 : Bytes}
    {rv : RVal} {r : RTerm × Bytes} (h1 : evalRC f1 ρ m out = some (.ret rv, out1))
    (h2 : evalRC f2 ((x, rv) :: ρ) n out1 = some r) :
    evalRC (max f1 f2 + 1) ρ (.bind x a m n) out = some r := by
  simp only [evalRC]
  rw [evalRC_mono _ _ _ _ _ _ h1 (Nat.le_max_left _ _)]
  exact evalRC_mono _ _ _ _ _ _ h2 (Nat.le_max_right _ _)

theorem evalRC_app_lam {f1 f2 : Nat} {ρ ρ' : REnv} {x : Nat} {m body : C} {v : V} {out out1 : Bytes}
    {a : RVal} {r : RTerm × Bytes} (hv : evalRV ρ v = some a)
    (h1 : evalRC f1 ρ m out = some (.lam x body ρ', out1))
    (h2 : evalRC f2 ((x, a) :: ρ') body out1 = some r) :
    evalRC (max f1 f2 + 1) ρ (.app m v) out = some r := by
  simp only [evalRC, hv]
  rw [evalRC_mono _ _ _ _ _ _ h1 (Nat.le_max_left _ _)]
  exact evalRC_mono _ _ _ _ _ _ h2 (Nat.le_max_right _ _)

theorem evalRC_dtor_cocase {f1 f2 : Nat} {ρ ρ' : REnv} {m body : C} {k k' : String}
    {arms : List (String × C)} {out out1 : Bytes} {r : RTerm × Bytes}
    (h1 : evalRC f1 ρ m out = some (.cocase arms ρ', out1))
    (hf : arms.find? (·.1 == k) = some (k', body))
    (h2 : evalRC f2 ρ' body out1 = some r) :
    evalRC (max f1 f2 + 1) ρ (.dtor m k) out = some r := by
  simp only [evalRC]
  rw [evalRC_mono _ _ _ _ _ _ h1 (Nat.le_max_left _ _)]
  simp only [hf]
  exact evalRC_mono _ _ _ _ _ _ h2 (Nat.le_max_right _ _)


def aop : ArithOp → AOp
  | .add => .add | .sub => .sub | .mul => .mul | .div => .div | .rem => .rem
def cop : CmpOp → COp
  | .eq => .eq | .lt => .lt | .gt => .gt

theorem evalRC_arith_ok {f : Nat} {ρ : REnv} {t : IntTy} {op : ArithOp} {a b : V} {x y r : BitVec t.width}
    {out : Bytes} (ha : evalRV ρ a = some (.int t x)) (hb : evalRV ρ b = some (.int t y))
    (hr : Numeric.arith t (aop op) x y = .ok r) :
    evalRC (f + 1) ρ (.arith t op a b) out = some (.ret (.int t r), out) := by
  cases op <;> simp only [evalRC, ha, hb, dite_true, aop] at hr ⊢ <;> rw [hr]

theorem evalRC_arith_trap {f : Nat} {ρ : REnv} {t : IntTy} {op : ArithOp} {a b : V} {x y : BitVec t.width}
    {out : Bytes} (ha : evalRV ρ a = some (.int t x)) (hb : evalRV ρ b = some (.int t y))
    (hr : Numeric.arith t (aop op) x y = .trap) :
    evalRC (f + 1) ρ (.arith t op a b) out = some (.trap, out) := by
  cases op <;> simp only [evalRC, ha, hb, dite_true, aop] at hr ⊢ <;> rw [hr]

theorem hostOp_arith_ok {t : IntTy} {op : ArithOp} {x y r : BitVec t.width}
    (hr : Numeric.arith t (aop op) x y = .ok r) (σ : Host) :
    hostOp (t.sourceName ++ "_" ++ op.name) [.int t x, .int t y] σ = (σ, .ret (.int t r)) := by
  have := hostOp_arith t op x y σ
  cases op <;> simp only [aop] at hr <;> simp only [hr] at this <;> exact this

theorem hostOp_arith_trap {t : IntTy} {op : ArithOp} {x y : BitVec t.width}
    (hr : Numeric.arith t (aop op) x y = .trap) (σ : Host) :
    hostOp (t.sourceName ++ "_" ++ op.name) [.int t x, .int t y] σ = (σ, .trap) := by
  have := hostOp_arith t op x y σ
  cases op <;> simp only [aop] at hr <;> simp only [hr] at this <;> exact this

theorem evalRC_cmp_true {f : Nat} {ρ : REnv} {t : IntTy} {op : CmpOp} {a b : V} {x y : BitVec t.width}
    {res : CTy} {yes no : C} {out : Bytes} (ha : evalRV ρ a = some (.int t x))
    (hb : evalRV ρ b = some (.int t y)) (hc : Numeric.cmp t (cop op) x y = true) :
    evalRC (f + 1) ρ (.cmp t op a b res yes no) out = evalRC f ρ yes out := by
  cases op <;> simp only [evalRC, ha, hb, dite_true, cop] at hc ⊢ <;> rw [if_pos hc]

theorem evalRC_cmp_false {f : Nat} {ρ : REnv} {t : IntTy} {op : CmpOp} {a b : V} {x y : BitVec t.width}
    {res : CTy} {yes no : C} {out : Bytes} (ha : evalRV ρ a = some (.int t x))
    (hb : evalRV ρ b = some (.int t y)) (hc : ¬ Numeric.cmp t (cop op) x y = true) :
    evalRC (f + 1) ρ (.cmp t op a b res yes no) out = evalRC f ρ no out := by
  cases op <;> simp only [evalRC, ha, hb, dite_true, cop] at hc ⊢ <;> rw [if_neg hc]

theorem hostOp_cmp_true {t : IntTy} {op : CmpOp} {x y : BitVec t.width}
    (hc : Numeric.cmp t (cop op) x y = true) (i j : Nat) (σ : Host) :
    hostOp (t.sourceName ++ "_" ++ op.name) [.int t x, .int t y, .thunk i, .thunk j] σ =
      (σ, .call 2 []) := by
  have := hostOp_cmp t op x y i j σ
  cases op <;> simp only [cop] at hc <;> simp only [hc, if_true] at this <;> exact this

theorem hostOp_cmp_false {t : IntTy} {op : CmpOp} {x y : BitVec t.width}
    (hc : ¬ Numeric.cmp t (cop op) x y = true) (i j : Nat) (σ : Host) :
    hostOp (t.sourceName ++ "_" ++ op.name) [.int t x, .int t y, .thunk i, .thunk j] σ =
      (σ, .call 3 []) := by
  have := hostOp_cmp t op x y i j σ
  cases op <;> simp only [cop] at hc <;> simp only [hc] at this <;> exact this


syntax "zv_rm_wrongone " : tactic
set_option hygiene false in
macro_rules
  | `(tactic| zv_rm_wrongone) => `(tactic|
      exact ⟨1, RTerm.wrong, st.host.output, by simp only [evalRC, dite_true, dite_false, *], trivial⟩)

/-- **Key lemma of the converse.** A halting machine run on the erasure of `m`, in an environment
related to `ρ` and under ANY stack, contains a complete reference evaluation of `m`: the reference
semantics yields a terminal form `t` (possibly `wrong`), and the run continues, in no more steps,
from "`t` returned to the stack". -/
theorem conv : ∀ (n : Nat) (m : C) (ρ : REnv) (st : State) (o : Outcome) (outF : Bytes),
    EnvRel ρ st.env → HaltsN n (eraseC m) st o outF →
    ∃ fuel t out', evalRC fuel ρ m st.host.output = some (t, out') ∧ KBack n t out' st.stack o outF := by
  intro n
  induction n using Nat.strongRecOn with
  | ind n ih =>
    intro m ρ st o outF he hN
    cases m with
    | ret v =>
      simp only [eraseC] at hN
      cases hv : evalRV ρ v with
      | none => zv_rm_wrongone
      | some rv =>
        obtain ⟨sv, hvr, hev⟩ := evalV_erase_valFuel hv he
        refine ⟨1, .ret rv, st.host.output, by simp only [evalRC, hv], ?_⟩
        exact ⟨sv, st, n, Nat.le_refl _, hvr, rfl, rfl, HaltsN.congr_step (step_ret_eq hev).symm hN⟩
    | bind x a m1 m2 =>
      simp only [eraseC] at hN
      obtain ⟨n1, rfl, hN1⟩ := hN.of_next (step_bind _ _ _ _)
      obtain ⟨f1, t1, out1, he1, hk1⟩ := ih n1 (by omega) m1 ρ _ o outF (by exact he) hN1
      cases t1 with
      | ret rv =>
        obtain ⟨sv, st', n', hle, hvr, hst, hout, hN'⟩ := hk1
        obtain ⟨n'', rfl, hN''⟩ := hN'.of_next (step_retSem_kont hst)
        obtain ⟨f2, t, out', he2, hk2⟩ := ih n'' (by omega) m2 ((x, rv) :: ρ) _ o outF (by exact he.cons x hvr) hN''
        simp only [hout] at he2
        exact ⟨_, t, out', evalRC_bind_ret he1 he2, hk2.mono (by omega)⟩
      | trap => exact ⟨f1 + 1, .trap, out1, by simp only [evalRC, he1], hk1⟩
      | exit c => exact ⟨f1 + 1, .exit c, out1, by simp only [evalRC, he1], hk1⟩
      | lam _ _ _ => exact ⟨f1 + 1, .wrong, out1, by simp only [evalRC, he1], trivial⟩
      | cocase _ _ => exact ⟨f1 + 1, .wrong, out1, by simp only [evalRC, he1], trivial⟩
      | wrong => exact ⟨f1 + 1, .wrong, out1, by simp only [evalRC, he1], trivial⟩
    | clet x v m1 =>
      simp only [eraseC] at hN
      cases hv : evalRV ρ v with
      | none => zv_rm_wrongone
      | some rv =>
        obtain ⟨sv, hvr, hev⟩ := evalV_erase_valFuel hv he
        obtain ⟨n1, rfl, hN1⟩ := hN.of_next (step_clet_var hev)
        obtain ⟨f1, t, out', he1, hk1⟩ := ih n1 (by omega) m1 ((x, rv) :: ρ) _ o outF (by exact he.cons x hvr) hN1
        exact ⟨f1 + 1, t, out', by simp only [evalRC, hv]; exact he1, hk1.mono (by omega)⟩
    | letPair x y v m1 =>
      simp only [eraseC] at hN
      cases hv : evalRV ρ v with
      | none => zv_rm_wrongone
      | some rv =>
        cases rv with
        | pair ra rb =>
          obtain ⟨sv, hvr, hev⟩ := evalV_erase_valFuel hv he
          cases hvr with
          | pair h1 h2 h3 h4 =>
            obtain ⟨n1, rfl, hN1⟩ := hN.of_next (step_letPair hev h1 h2)
            obtain ⟨f1, t, out', he1, hk1⟩ := ih n1 (by omega) m1 ((y, rb) :: (x, ra) :: ρ) _ o outF
              (by exact (he.cons x h3).cons y h4) hN1
            exact ⟨f1 + 1, t, out', by simp only [evalRC, hv]; exact he1, hk1.mono (by omega)⟩
        | _ => zv_rm_wrongone
    | fn x a m1 =>
      simp only [eraseC] at hN
      exact ⟨1, .lam x m1 ρ, st.host.output, by simp only [evalRC], st, n, Nat.le_refl _, he, rfl, rfl, hN⟩
    | app m1 v =>
      simp only [eraseC] at hN
      cases hv : evalRV ρ v with
      | none => zv_rm_wrongone
      | some ra =>
        obtain ⟨sv, hvr, hev⟩ := evalV_erase_valFuel hv he
        obtain ⟨n1, rfl, hN1⟩ := hN.of_next (step_vapp hev)
        obtain ⟨f1, t1, out1, he1, hk1⟩ := ih n1 (by omega) m1 ρ _ o outF (by exact he) hN1
        cases t1 with
        | lam x body ρ' =>
          obtain ⟨st', n', hle, he', hst, hout, hN'⟩ := hk1
          obtain ⟨n'', rfl, hN''⟩ := hN'.of_next (step_vabs_app hst)
          obtain ⟨f2, t, out', he2, hk2⟩ := ih n'' (by omega) body ((x, ra) :: ρ') _ o outF
            (by exact he'.cons x hvr) hN''
          simp only [hout] at he2
          exact ⟨_, t, out', evalRC_app_lam hv he1 he2, hk2.mono (by omega)⟩
        | trap => exact ⟨f1 + 1, .trap, out1, by simp only [evalRC, hv, he1], hk1⟩
        | exit c => exact ⟨f1 + 1, .exit c, out1, by simp only [evalRC, hv, he1], hk1⟩
        | ret _ => exact ⟨f1 + 1, .wrong, out1, by simp only [evalRC, hv, he1], trivial⟩
        | cocase _ _ => exact ⟨f1 + 1, .wrong, out1, by simp only [evalRC, hv, he1], trivial⟩
        | wrong => exact ⟨f1 + 1, .wrong, out1, by simp only [evalRC, hv, he1], trivial⟩
    | force v =>
      simp only [eraseC] at hN
      cases hv : evalRV ρ v with
      | none => zv_rm_wrongone
      | some rv =>
        cases rv with
        | thunk m' ρ' =>
          obtain ⟨sv, hvr, hev⟩ := evalV_erase_valFuel hv he
          obtain ⟨env', rfl, he'⟩ := hvr.thunk_inv
          obtain ⟨n1, rfl, hN1⟩ := hN.of_next (step_force_thunk hev)
          obtain ⟨f1, t, out', he1, hk1⟩ := ih n1 (by omega) m' ρ' _ o outF (by exact he') hN1
          exact ⟨f1 + 1, t, out', by simp only [evalRC, hv]; exact he1, hk1.mono (by omega)⟩
        | _ => zv_rm_wrongone
    | fix g b m1 =>
      simp only [eraseC] at hN
      obtain ⟨n1, rfl, hN1⟩ := hN.of_next (step_fix _ _ _)
      have hth : VRel (.thunk (.fix g b m1) ρ) (.thunk (eraseC (.fix g b m1)) st.env) := VRel.mkThunk he
      simp only [eraseC] at hth
      obtain ⟨f1, t, out', he1, hk1⟩ := ih n1 (by omega) m1 ((g, .thunk (.fix g b m1) ρ) :: ρ) _ o outF
        (by exact he.cons g hth) hN1
      exact ⟨f1 + 1, t, out', by simp only [evalRC]; exact he1, hk1.mono (by omega)⟩
    | case v d arms b =>
      simp only [eraseC] at hN
      cases hv : evalRV ρ v with
      | none => zv_rm_wrongone
      | some rv =>
        cases rv with
        | ctor k ra =>
          cases hf : arms.find? (·.1 == k) with
          | none => zv_rm_wrongone
          | some arm =>
            obtain ⟨k', x, m'⟩ := arm
            obtain ⟨sv, hvr, hev⟩ := evalV_erase_valFuel hv he
            cases hvr with
            | ctor ha =>
              obtain ⟨n1, rfl, hN1⟩ := hN.of_next
                ((step_cmatch hev).trans (step_go_arms st k _ st.env arms k' x m' hf))
              obtain ⟨f1, t, out', he1, hk1⟩ := ih n1 (by omega) m' ((x, ra) :: ρ) _ o outF
                (by exact he.cons x ha) hN1
              exact ⟨f1 + 1, t, out', by simp only [evalRC, hv, hf]; exact he1, hk1.mono (by omega)⟩
        | _ => zv_rm_wrongone
    | comatch c arms =>
      simp only [eraseC] at hN
      exact ⟨1, .cocase arms ρ, st.host.output, by simp only [evalRC], st, n, Nat.le_refl _, he, rfl, rfl, hN⟩
    | dtor m1 k =>
      simp only [eraseC] at hN
      obtain ⟨n1, rfl, hN1⟩ := hN.of_next (step_dtor _ _ _)
      obtain ⟨f1, t1, out1, he1, hk1⟩ := ih n1 (by omega) m1 ρ _ o outF (by exact he) hN1
      cases t1 with
      | cocase arms ρ' =>
        cases hf : arms.find? (·.1 == k) with
        | none => exact ⟨f1 + 1, .wrong, out1, by simp only [evalRC, he1, hf], trivial⟩
        | some arm =>
          obtain ⟨k', body⟩ := arm
          obtain ⟨st', n', hle, he', hst, hout, hN'⟩ := hk1
          obtain ⟨n'', rfl, hN''⟩ := hN'.of_next (step_comatch hst (find_eraseCoArms k arms k' body hf))
          obtain ⟨f2, t, out', he2, hk2⟩ := ih n'' (by omega) body ρ' _ o outF (by exact he') hN''
          simp only [hout] at he2
          exact ⟨_, t, out', evalRC_dtor_cocase he1 hf he2, hk2.mono (by omega)⟩
      | trap => exact ⟨f1 + 1, .trap, out1, by simp only [evalRC, he1], hk1⟩
      | exit c => exact ⟨f1 + 1, .exit c, out1, by simp only [evalRC, he1], hk1⟩
      | ret _ => exact ⟨f1 + 1, .wrong, out1, by simp only [evalRC, he1], trivial⟩
      | lam _ _ _ => exact ⟨f1 + 1, .wrong, out1, by simp only [evalRC, he1], trivial⟩
      | wrong => exact ⟨f1 + 1, .wrong, out1, by simp only [evalRC, he1], trivial⟩
    | arith ty op a b =>
      simp only [eraseC] at hN
      cases ha : evalRV ρ a with
      | none => zv_rm_wrongone
      | some ra =>
        cases ra with
        | int t1 x =>
          cases hb : evalRV ρ b with
          | none => zv_rm_wrongone
          | some rb =>
            cases rb with
            | int t2 y =>
              by_cases h1 : t1 = ty
              · by_cases h2 : t2 = ty
                · subst h1; subst h2
                  obtain ⟨sa, hva, hea⟩ := evalV_erase_valFuel ha he
                  obtain ⟨sb, hvb, heb⟩ := evalV_erase_valFuel hb he
                  cases hva; cases hvb
                  obtain ⟨n1, rfl, hN1⟩ := hN.of_next (step_vapp heb)
                  obtain ⟨n2, rfl, hN2⟩ := hN1.of_next (step_vapp hea)
                  obtain ⟨n3, rfl, hN3⟩ := hN2.of_next (step_force_prim _ _ _)
                  cases hr : Numeric.arith t2 (aop op) x y with
                  | ok r =>
                    obtain ⟨u, hs⟩ := step_prim_ret (arity := 2)
                      (st := { st with stack := .app (.lit (.int t2 x)) :: .app (.lit (.int t2 y)) :: st.stack })
                      (args := [.lit (.int t2 x), .lit (.int t2 y)]) (rest := st.stack)
                      (hargs := [.int t2 x, .int t2 y]) rfl rfl (hostOp_arith_ok hr st.host)
                    obtain ⟨n4, rfl, hN4⟩ := hN3.of_next hs
                    exact ⟨1, .ret (.int t2 r), st.host.output, evalRC_arith_ok ha hb hr,
                      _, _, n4, by omega, VRel.int t2 r, by rfl, by rfl, hN4⟩
                  | trap =>
                    obtain ⟨u, hs⟩ := step_prim_trap (arity := 2)
                      (st := { st with stack := .app (.lit (.int t2 x)) :: .app (.lit (.int t2 y)) :: st.stack })
                      (args := [.lit (.int t2 x), .lit (.int t2 y)]) (rest := st.stack)
                      (hargs := [.int t2 x, .int t2 y]) rfl rfl (hostOp_arith_trap hr st.host)
                    obtain ⟨rfl, rfl⟩ := hN3.of_done hs
                    exact ⟨1, .trap, st.host.output, evalRC_arith_trap ha hb hr, rfl, rfl⟩
                · zv_rm_wrongone
              · zv_rm_wrongone
            | _ => zv_rm_wrongone
        | _ => zv_rm_wrongone
    | cmp ty op a b res yes no =>
      simp only [eraseC] at hN
      cases ha : evalRV ρ a with
      | none => zv_rm_wrongone
      | some ra =>
        cases ra with
        | int t1 x =>
          cases hb : evalRV ρ b with
          | none => zv_rm_wrongone
          | some rb =>
            cases rb with
            | int t2 y =>
              by_cases h1 : t1 = ty
              · by_cases h2 : t2 = ty
                · subst h1; subst h2
                  obtain ⟨sa, hva, hea⟩ := evalV_erase_valFuel ha he
                  obtain ⟨sb, hvb, heb⟩ := evalV_erase_valFuel hb he
                  cases hva; cases hvb
                  obtain ⟨n1, rfl, hN1⟩ := hN.of_next (step_vapp (evalV_thunk_valFuel _ _))
                  obtain ⟨n2, rfl, hN2⟩ := hN1.of_next (step_vapp (evalV_thunk_valFuel _ _))
                  obtain ⟨n3, rfl, hN3⟩ := hN2.of_next (step_vapp heb)
                  obtain ⟨n4, rfl, hN4⟩ := hN3.of_next (step_vapp hea)
                  obtain ⟨n5, rfl, hN5⟩ := hN4.of_next (step_force_prim _ _ _)
                  by_cases hc : Numeric.cmp t2 (cop op) x y = true
                  · obtain ⟨u, hs⟩ := step_prim_call (arity := 4)
                      (st := { st with stack := Frame.app (.lit (.int t2 x)) :: Frame.app (.lit (.int t2 y)) :: Frame.app (.thunk (eraseC yes) st.env) :: Frame.app (.thunk (eraseC no) st.env) :: st.stack })
                      (args := [.lit (.int t2 x), .lit (.int t2 y), .thunk (eraseC yes) st.env, .thunk (eraseC no) st.env])
                      (rest := st.stack)
                      (hargs := [.int t2 x, .int t2 y, .thunk 2, .thunk 3]) (k := .thunk (eraseC yes) st.env)
                      rfl rfl (hostOp_cmp_true hc 2 3 st.host) rfl
                    obtain ⟨n6, rfl, hN6⟩ := hN5.of_next hs
                    obtain ⟨n7, rfl, hN7⟩ := hN6.of_next (step_callSem_thunk _ _ _ _)
                    obtain ⟨f1, t, out', he1, hk1⟩ := ih n7 (by omega) yes ρ _ o outF (by exact he) hN7
                    exact ⟨f1 + 1, t, out', (evalRC_cmp_true ha hb hc).trans he1, hk1.mono (by omega)⟩
                  · obtain ⟨u, hs⟩ := step_prim_call (arity := 4)
                      (st := { st with stack := Frame.app (.lit (.int t2 x)) :: Frame.app (.lit (.int t2 y)) :: Frame.app (.thunk (eraseC yes) st.env) :: Frame.app (.thunk (eraseC no) st.env) :: st.stack })
                      (args := [.lit (.int t2 x), .lit (.int t2 y), .thunk (eraseC yes) st.env, .thunk (eraseC no) st.env])
                      (rest := st.stack)
                      (hargs := [.int t2 x, .int t2 y, .thunk 2, .thunk 3]) (k := .thunk (eraseC no) st.env)
                      rfl rfl (hostOp_cmp_false hc 2 3 st.host) rfl
                    obtain ⟨n6, rfl, hN6⟩ := hN5.of_next hs
                    obtain ⟨n7, rfl, hN7⟩ := hN6.of_next (step_callSem_thunk _ _ _ _)
                    obtain ⟨f1, t, out', he1, hk1⟩ := ih n7 (by omega) no ρ _ o outF (by exact he) hN7
                    exact ⟨f1 + 1, t, out', (evalRC_cmp_false ha hb hc).trans he1, hk1.mono (by omega)⟩
                · zv_rm_wrongone
              · zv_rm_wrongone
            | _ => zv_rm_wrongone
        | _ => zv_rm_wrongone
    | toStr ty a =>
      simp only [eraseC] at hN
      cases ha : evalRV ρ a with
      | none => zv_rm_wrongone
      | some ra =>
        cases ra with
        | int t1 x =>
          by_cases h1 : t1 = ty
          · subst h1
            obtain ⟨sa, hva, hea⟩ := evalV_erase_valFuel ha he
            cases hva
            obtain ⟨n1, rfl, hN1⟩ := hN.of_next (step_vapp hea)
            obtain ⟨n2, rfl, hN2⟩ := hN1.of_next (step_force_prim _ _ _)
            obtain ⟨u, hs⟩ := step_prim_ret (arity := 1)
              (st := { st with stack := .app (.lit (.int t1 x)) :: st.stack })
              (args := [.lit (.int t1 x)]) (rest := st.stack) (hargs := [.int t1 x]) rfl rfl
              (hostOp_toStr t1 x st.host)
            obtain ⟨n3, rfl, hN3⟩ := hN2.of_next hs
            exact ⟨1, .ret (.str (Numeric.toStr t1 x)), st.host.output,
              by simp only [evalRC, ha, dite_true],
              _, _, n3, by omega, VRel.str _, by rfl, by rfl, hN3⟩
          · zv_rm_wrongone
        | _ => zv_rm_wrongone
    | strAppend a b =>
      simp only [eraseC] at hN
      cases ha : evalRV ρ a with
      | none => zv_rm_wrongone
      | some ra =>
        cases ra with
        | str x =>
          cases hb : evalRV ρ b with
          | none => zv_rm_wrongone
          | some rb =>
            cases rb with
            | str y =>
              obtain ⟨sa, hva, hea⟩ := evalV_erase_valFuel ha he
              obtain ⟨sb, hvb, heb⟩ := evalV_erase_valFuel hb he
              cases hva; cases hvb
              obtain ⟨n1, rfl, hN1⟩ := hN.of_next (step_vapp heb)
              obtain ⟨n2, rfl, hN2⟩ := hN1.of_next (step_vapp hea)
              obtain ⟨n3, rfl, hN3⟩ := hN2.of_next (step_force_prim _ _ _)
              obtain ⟨u, hs⟩ := step_prim_ret (arity := 2)
                (st := { st with stack := .app (.lit (.str x)) :: .app (.lit (.str y)) :: st.stack })
                (args := [.lit (.str x), .lit (.str y)]) (rest := st.stack) (hargs := [.str x, .str y])
                rfl rfl (hostOp_strAppend x y st.host)
              obtain ⟨n4, rfl, hN4⟩ := hN3.of_next hs
              exact ⟨1, .ret (.str (x ++ y)), st.host.output, by simp only [evalRC, ha, hb],
                _, _, n4, by omega, VRel.str _, by rfl, by rfl, hN4⟩
            | _ => zv_rm_wrongone
        | _ => zv_rm_wrongone
    | writeLine s k =>
      simp only [eraseC] at hN
      cases hs' : evalRV ρ s with
      | none => zv_rm_wrongone
      | some rs =>
        cases rs with
        | str x =>
          obtain ⟨sa, hva, hea⟩ := evalV_erase_valFuel hs' he
          cases hva
          obtain ⟨n1, rfl, hN1⟩ := hN.of_next (step_vapp (evalV_thunk_valFuel _ _))
          obtain ⟨n2, rfl, hN2⟩ := hN1.of_next (step_vapp hea)
          obtain ⟨n3, rfl, hN3⟩ := hN2.of_next (step_force_prim _ _ _)
          obtain ⟨u, hs⟩ := step_prim_call (arity := 2)
            (st := { st with stack := .app (.lit (.str x)) :: .app (.thunk (eraseC k) st.env) :: st.stack })
            (args := [.lit (.str x), .thunk (eraseC k) st.env]) (rest := st.stack)
            (hargs := [.str x, .thunk 1]) (k := .thunk (eraseC k) st.env) rfl rfl
            (hostOp_writeLine x 1 st.host) rfl
          obtain ⟨n4, rfl, hN4⟩ := hN3.of_next hs
          obtain ⟨n5, rfl, hN5⟩ := hN4.of_next (step_callSem_thunk _ _ _ _)
          obtain ⟨f1, t, out', he1, hk1⟩ := ih n5 (by omega) k ρ _ o outF (by exact he) hN5
          exact ⟨f1 + 1, t, out', by simp only [evalRC, hs']; exact he1, hk1.mono (by omega)⟩
        | _ => zv_rm_wrongone
    | exit code =>
      simp only [eraseC] at hN
      cases hc : evalRV ρ code with
      | none => zv_rm_wrongone
      | some rc =>
        cases rc with
        | int t1 x =>
          cases t1 with
          | i64 =>
            obtain ⟨sa, hva, hea⟩ := evalV_erase_valFuel hc he
            cases hva
            obtain ⟨n1, rfl, hN1⟩ := hN.of_next (step_vapp hea)
            obtain ⟨n2, rfl, hN2⟩ := hN1.of_next (step_force_prim _ _ _)
            obtain ⟨u, hs⟩ := step_prim_exit (arity := 1)
              (st := { st with stack := .app (.lit (.int .i64 x)) :: st.stack })
              (args := [.lit (.int .i64 x)]) (rest := st.stack) (hargs := [.int .i64 x]) rfl rfl
              (hostOp_exit x st.host)
            obtain ⟨rfl, rfl⟩ := hN2.of_done hs
            exact ⟨1, .exit _, st.host.output, by simp only [evalRC, hc], rfl, rfl⟩
          | _ => zv_rm_wrongone
        | _ => zv_rm_wrongone


theorem checkProgram_sound {Δ : Sig} {body : C} (h : checkProgram Δ body = .ok ()) :
    HasTyC Δ [] body .os := by
  unfold checkProgram at h
  split at h
  · next e => exact inferC_sound Δ [] body .os e
  · cases h
  · cases h

/-- **Machine to reference** (converse). -/
theorem machine_to_ref_pf : ZV.Props.C02.Statement.machine_to_ref := by
  intro Δ body n st k _ hchk
  have hty := checkProgram_sound hchk
  refine ⟨?_, ?_⟩
  · intro code hrun
    unfold runProgram Machine.run at hrun
    obtain ⟨n', hN⟩ := HaltsN.of_runFrom _ _ _ _ _ _ _ hrun
    obtain ⟨fuel, t, out', he, hk⟩ := conv n' body [] _ _ _ EnvRel.nil hN
    have hrt := preservation Δ fuel [] body _ t out' [] .os hty (EnvTy.nil Δ) he
    cases hrt with
    | exit c =>
      obtain ⟨ho, hout⟩ := hk
      cases ho
      exact ⟨fuel, by rw [hout]; exact he⟩
    | trap _ =>
      obtain ⟨ho, hout⟩ := hk
      cases ho
  · intro hrun
    unfold runProgram Machine.run at hrun
    obtain ⟨n', hN⟩ := HaltsN.of_runFrom _ _ _ _ _ _ _ hrun
    obtain ⟨fuel, t, out', he, hk⟩ := conv n' body [] _ _ _ EnvRel.nil hN
    have hrt := preservation Δ fuel [] body _ t out' [] .os hty (EnvTy.nil Δ) he
    cases hrt with
    | exit c =>
      obtain ⟨ho, hout⟩ := hk
      cases ho
    | trap _ =>
      obtain ⟨ho, hout⟩ := hk
      exact ⟨fuel, by rw [hout]; exact he⟩

end ZV.ZCore.RM

/-! ### The C02 statements -/

namespace ZV.ZCore

/-- The machine is deterministic and more fuel never changes a finished outcome. -/
theorem run_mono_pf : ZV.Props.C02.Statement.run_mono := RM.run_mono_pf

/-- n-ary products are matched by position along the right spine, whatever the grouping. -/
theorem product_fields_roundtrip_pf : ZV.Props.C02.Statement.product_fields_roundtrip :=
  RM.product_fields_roundtrip_pf

/-- **Reference to machine.** -/
theorem ref_to_machine_pf : ZV.Props.C02.Statement.ref_to_machine := RM.ref_to_machine_pf

/-- The reference semantics never goes `wrong` on an accepted program. -/
theorem ref_never_wrong_pf : ZV.Props.C02.Statement.ref_never_wrong := RM.ref_never_wrong_pf

/-- **Machine to reference.** -/
theorem machine_to_ref_pf : ZV.Props.C02.Statement.machine_to_ref := RM.machine_to_ref_pf

end ZV.ZCore
