/- Proof for C12, grouping elision: formatting twice with every acceptable parenthesis dropped is
   formatting once (`Statement.elide_idempotent`). Holds for every requirement table. Core Lean only. -/
import ZV.Props.C12GroupingStatements
import ZV.Proofs.Grouping

namespace ZV.Grouping
open ZV.Props.C12.Grouping

theorem dropAll_sub (i : Nat) : dropAll.sub i = dropAll := rfl

/-- a singleton parenthesis when every acceptable one is dropped -/
theorem elideAt_paren (tbl : Pos → Req) (c : Ctx) (t : T) :
    elideAt tbl dropAll c (.paren t)
      = if c.accepts (cls t) then elideAt tbl dropAll c t
        else .paren (elideAt tbl dropAll (.req .annotated) t) := by
  simp only [elideAt, dropAll_sub]
  simp [dropAll]

/-- every requirement accepts an atom -/
theorem accepts_atom (r : Req) : accepts r (.term .atom) = true := by
  cases r with
  | any => rfl
  | annotated => rfl
  | through m => cases m <;> rfl

theorem accepts_annotated (k : Class) : accepts .annotated k = true := by
  cases k <;> rfl

/-- `Annotated` never adds parentheses -/
theorem close_annotated (u : T) : close (.req .annotated) u = u := by
  by_cases hu : ∀ a b, u ≠ .ann a b
  · rw [close_req_of_not_ann _ u hu, accepts_annotated]; rfl
  · have : ∃ a b, u = .ann a b := by
      apply Classical.byContradiction
      intro hne; apply hu; intro a b hab; exact hne ⟨a, b, hab⟩
    obtain ⟨a, b, rfl⟩ := this
    rfl

/-- A tree whose formatting is just closing it (`hfix`: it is not a singleton parenthesis and its
children are already formatted): closing it and formatting the result gives the closed tree back. -/
theorem close_step (tbl : Pos → Req) (c : Ctx) (u : T)
    (hfix : ∀ c', elideAt tbl dropAll c' u = close c' u) :
    elideAt tbl dropAll c (close c u) = close c u := by
  cases c with
  | group =>
    rcases close_group u with ⟨h1, _⟩ | h1
    · rw [h1, hfix, h1]
    · rw [h1, elideAt_paren, hfix (.req .annotated), close_annotated]
      simp [Ctx.accepts]
  | req r =>
    by_cases hu : ∀ a b, u ≠ .ann a b
    · rw [close_req_of_not_ann r u hu]
      split
      · next hacc => rw [hfix, close_req_of_not_ann r u hu, if_pos hacc]
      · next hacc =>
        have hacc' : (Ctx.req r).accepts (cls u) = false := by
          cases h : accepts r (cls u) with
          | true => exact absurd h hacc
          | false => exact h
        rw [elideAt_paren, hacc', hfix (.req .annotated), close_annotated]
        simp
    · have : ∃ a b, u = .ann a b := by
        apply Classical.byContradiction
        intro hne; apply hu; intro a b hab; exact hne ⟨a, b, hab⟩
      obtain ⟨a, b, rfl⟩ := this
      by_cases hc : Ctx.req r = .req .annotated
      · cases hc
        rw [close_annotated, hfix, close_annotated]
      · have hcl : close (.req r) (.ann a b) = .paren (.ann a b) := by
          rw [close_req_ann, if_neg hc]
        have h1 : (Ctx.req r).accepts (cls (.ann a b)) = true := accepts_atom r
        rw [hcl, elideAt_paren, h1, if_pos rfl, hfix, hcl]

/-- a parenthesis that the place does not accept is still not accepted after its inside has been
formatted -/
theorem not_accepts_elide (tbl : Pos → Req) (c : Ctx) (t : T) (h : c.accepts (cls t) = false) :
    c.accepts (cls (elideAt tbl dropAll (.req .annotated) t)) = false := by
  cases c with
  | group => rfl
  | req r =>
    have ha := accepts_atom r
    cases t <;> first
      | (have h' : accepts r (.term .atom) = false := h
         rw [ha] at h'; cases h')
      | (simp only [elideAt, close_annotated]; exact h)

theorem elide_idem (tbl : Pos → Req) : ∀ (t : T) (c : Ctx),
    elideAt tbl dropAll c (elideAt tbl dropAll c t) = elideAt tbl dropAll c t := by
  intro t
  induction t with
  | paren t ih =>
    intro c
    cases hacc : c.accepts (cls t) with
    | true =>
      have e : elideAt tbl dropAll c (.paren t) = elideAt tbl dropAll c t := by
        rw [elideAt_paren, hacc, if_pos rfl]
      rw [e]; exact ih c
    | false =>
      have e : elideAt tbl dropAll c (.paren t)
          = .paren (elideAt tbl dropAll (.req .annotated) t) := by
        rw [elideAt_paren, hacc]; simp
      rw [e]
      have h2 := not_accepts_elide tbl c t hacc
      rw [elideAt_paren, h2, ih]; simp
  | leaf k =>
    intro c
    simp only [elideAt]
    apply close_step tbl c
    intro c'
    simp only [elideAt]
  | box k t ih | block t ih | pre k t ih | ctor t ih | proj t ih | dtor t ih | quant k t ih
  | ex t ih | tail k t ih | named k t ih =>
    intro c
    simp only [elideAt, dropAll_sub]
    apply close_step tbl c
    intro c'
    simp only [elideAt, dropAll_sub, ih]
  | pair a b iha ihb | mtch a b iha ihb | app a b iha ihb | prod a b iha ihb | arrow a b iha ihb
  | doB a b iha ihb | letB k a b iha ihb | ann a b iha ihb =>
    intro c
    simp only [elideAt, dropAll_sub]
    apply close_step tbl c
    intro c'
    simp only [elideAt, dropAll_sub, iha, ihb]
  | letT a b d iha ihb ihd =>
    intro c
    simp only [elideAt, dropAll_sub]
    apply close_step tbl c
    intro c'
    simp only [elideAt, dropAll_sub, iha, ihb, ihd]

theorem elide_idempotent_pf : Statement.elide_idempotent :=
  fun c t => elide_idem reqOf t c

end ZV.Grouping
