/-
Proofs of the C19 statements about the reference machine of the first-order stack-passing
language (`ZV/Model/SpsLow.lean`). Core Lean only.
-/
import ZV.Props.C19Statements

namespace ZV.SpsLow
open ZV.Props.C19

/-! ### Determinism and fuel -/

theorem low_deterministic_pf : Statement.low_deterministic := by
  intro tbl st r₁ r₂ h₁ h₂
  rw [← h₁, ← h₂]

theorem runFrom_succ_of_done (tbl : Table) :
    ∀ (n : Nat) (st : State) (k : Nat) (o : Outcome) (st' : State) (k' : Nat),
      runFrom tbl n st k = (some o, st', k') → runFrom tbl (n + 1) st k = (some o, st', k') := by
  intro n
  induction n with
  | zero =>
    intro st k o st' k' h
    simp [runFrom] at h
  | succ n ih =>
    intro st k o st' k' h
    rw [runFrom] at h
    rw [runFrom]
    cases hs : step tbl st with
    | next st₁ =>
      rw [hs] at h
      simp only at h ⊢
      exact ih _ _ _ _ _ h
    | done o₁ st₁ =>
      rw [hs] at h
      simpa using h

theorem run_fuel_mono_pf : Statement.run_fuel_mono := by
  intro tbl n m st k o st' k' hnm h
  induction hnm with
  | refl => exact h
  | step _ ih => exact runFrom_succ_of_done tbl _ _ _ _ _ _ ih

theorem run_deterministic_pf : Statement.run_deterministic := by
  intro p host n m o₁ o₂ s₁ s₂ k₁ k₂ h₁ h₂
  unfold Program.run at h₁ h₂
  have h₁' := run_fuel_mono_pf _ n (max n m) _ _ _ _ _ (Nat.le_max_left _ _) h₁
  have h₂' := run_fuel_mono_pf _ m (max n m) _ _ _ _ _ (Nat.le_max_right _ _) h₂
  rw [h₁'] at h₂'
  simp only [Prod.mk.injEq, Option.some.injEq] at h₂'
  exact h₂'

/-! ### Unique labels: looking a block up returns its body -/

theorem find_of_nodup :
    ∀ (t : Table), nodupNat t.labels = true → ∀ (l : Nat) (b : Comp), (l, b) ∈ t →
      t.find? (·.1 == l) = some (l, b) := by
  intro t
  induction t with
  | nil => intro _ l b h; cases h
  | cons hd tl ih =>
    intro hnd l b hmem
    simp only [Table.labels, List.map_cons, nodupNat, Bool.and_eq_true, Bool.not_eq_true'] at hnd
    rcases List.mem_cons.1 hmem with h | h
    · subst h
      simp
    · have hne : hd.1 ≠ l := by
        intro heq
        have hc : (List.map (fun x => x.fst) tl).contains hd.fst = true := by
          rw [heq]
          exact List.contains_iff_mem.2 (List.mem_map.2 ⟨(l, b), h, rfl⟩)
        rw [hnd.1] at hc
        cases hc
      have : (hd.1 == l) = false := by simpa using hne
      rw [List.find?_cons, this]
      exact ih hnd.2 l b h

theorem validated_block_lookup_pf : Statement.validated_block_lookup := by
  intro p hv l b hmem
  have hnd : nodupNat p.blocks.labels = true := by
    unfold validate at hv
    simp only [Bool.and_eq_true] at hv
    exact hv.1.1.1.1
  unfold Table.get?
  rw [find_of_nodup _ hnd l b hmem]
  rfl

/-! ### Well-formed run-time values -/

mutual
  /-- every code address inside the value has a block in the table -/
  def wfRV (tbl : Table) : RV → Prop
    | .code l => l ∈ tbl.labels
    | .haltCode => True
    | .foldCode => True
    | .foldEnv _ ke ki => wfRV tbl ke ∧ wfRV tbl ki
    | .closure e c => wfRV tbl e ∧ wfRV tbl c
    | .ctor _ a => wfRV tbl a
    | .triv => True
    | .prod fs => wfRVs tbl fs
    | .lit _ => True
    | .bytes _ => True
    | .reader _ => True
    | .writer _ => True
  def wfRVs (tbl : Table) : List RV → Prop
    | [] => True
    | v :: vs => wfRV tbl v ∧ wfRVs tbl vs
end

theorem wfRVs_iff (tbl : Table) : ∀ vs, wfRVs tbl vs ↔ ∀ v ∈ vs, wfRV tbl v := by
  intro vs
  induction vs with
  | nil => simp [wfRVs]
  | cons v vs ih => simp [wfRVs, ih]

def wfFrame (tbl : Table) : Frame → Prop
  | .arg v => wfRV tbl v
  | .tag _ => True
  | .kont c => wfRV tbl c

def wfStack (tbl : Table) (σ : RStack) : Prop := ∀ f ∈ σ, wfFrame tbl f
def wfEnv (tbl : Table) (ρ : Env) : Prop := ∀ xv ∈ ρ, wfRV tbl xv.2
def Bound (ρ : Env) (bound : List Nat) : Prop := ∀ x ∈ bound, x ∈ ρ.map (·.1)
def labelsIn (tbl : Table) (t : Table) : Prop := ∀ lb ∈ t, lb.1 ∈ tbl.labels

theorem labelsIn_append (tbl a b) : labelsIn tbl (a ++ b) ↔ labelsIn tbl a ∧ labelsIn tbl b := by
  unfold labelsIn
  constructor
  · intro h
    exact ⟨fun lb hl => h lb (List.mem_append_left _ hl), fun lb hl => h lb (List.mem_append_right _ hl)⟩
  · intro h lb hl
    rcases List.mem_append.1 hl with h' | h'
    · exact h.1 lb h'
    · exact h.2 lb h'

theorem labelsIn_nil (tbl) : labelsIn tbl [] := by
  intro lb h; cases h

/-- neither of the two lookup failures -/
def NotLookup (s : Stuck) : Prop := (∀ l, s ≠ .unknownLabel l) ∧ (∀ x, s ≠ .unbound x)

def ExGood {α : Type} (P : α → Prop) : Except Stuck α → Prop
  | .ok a => P a
  | .error s => NotLookup s

theorem ExGood.bind {α β : Type} {P : α → Prop} {Q : β → Prop} {x : Except Stuck α}
    {f : α → Except Stuck β} (hx : ExGood P x) (hf : ∀ a, P a → ExGood Q (f a)) :
    ExGood Q (x >>= f) := by
  cases x with
  | ok a => exact hf a hx
  | error e => exact hx

theorem ExGood.mono {α : Type} {P Q : α → Prop} {x : Except Stuck α}
    (hx : ExGood P x) (hf : ∀ a, P a → Q a) : ExGood Q x := by
  cases x with
  | ok a => exact hf a hx
  | error e => exact hx

/-! ### Environments -/

theorem Env.get?_of_mem_dom {ρ : Env} {x : Nat} (h : x ∈ ρ.map (·.1)) : ∃ v, ρ.get? x = some v := by
  obtain ⟨xv, hm, rfl⟩ := List.mem_map.1 h
  unfold Env.get?
  cases hf : ρ.find? (·.1 == xv.1) with
  | some a => exact ⟨a.2, rfl⟩
  | none =>
    have := List.find?_eq_none.1 hf xv hm
    simp at this

theorem Env.mem_of_get? {ρ : Env} {x : Nat} {v : RV} (h : ρ.get? x = some v) : ∃ xv ∈ ρ, xv.2 = v := by
  unfold Env.get? at h
  cases hf : ρ.find? (·.1 == x) with
  | some a =>
    rw [hf] at h
    simp only [Option.map_some, Option.some.injEq] at h
    exact ⟨a, List.mem_of_find?_eq_some hf, h⟩
  | none =>
    rw [hf] at h
    cases h

theorem Table.get?_of_mem_labels {t : Table} {l : Nat} (h : l ∈ t.labels) :
    ∃ b, t.get? l = some b ∧ (l, b) ∈ t := by
  obtain ⟨lb, hm, rfl⟩ := List.mem_map.1 h
  unfold Table.get?
  cases hf : t.find? (·.1 == lb.1) with
  | some a =>
    refine ⟨a.2, rfl, ?_⟩
    have h1 := List.find?_some hf
    have h2 := List.mem_of_find?_eq_some hf
    have h3 : a.1 = lb.1 := by simpa using h1
    rw [← h3]
    exact h2
  | none =>
    have := List.find?_eq_none.1 hf lb hm
    simp at this

/-! ### Evaluation of values and stacks -/

theorem packFields_good (tbl : Table) (vs : List RV) (n : Nat) (h : wfRVs tbl vs) :
    ExGood (wfRVs tbl) (packFields vs n) := by
  unfold packFields
  split
  · exact h
  · split
    · split
      · rename_i fs hl
        split
        · show wfRVs tbl _
          rw [wfRVs_iff] at h ⊢
          intro v hv
          rcases List.mem_append.1 hv with h' | h'
          · exact h v (List.dropLast_subset _ h')
          · have := h _ (List.mem_of_getLast? hl)
            simp only [wfRV] at this
            exact (wfRVs_iff tbl fs).1 this v h'
        · exact ⟨fun _ h => Stuck.noConfusion h, fun _ h => Stuck.noConfusion h⟩
      · exact ⟨fun _ h => Stuck.noConfusion h, fun _ h => Stuck.noConfusion h⟩
    · exact ⟨fun _ h => Stuck.noConfusion h, fun _ h => Stuck.noConfusion h⟩

theorem notLookup_of_ne {s : Stuck} (h1 : ∀ l, s ≠ .unknownLabel l) (h2 : ∀ x, s ≠ .unbound x) :
    NotLookup s := ⟨h1, h2⟩

macro "notlookup" : tactic =>
  `(tactic| exact ⟨fun _ h => Stuck.noConfusion h, fun _ h => Stuck.noConfusion h⟩)

theorem evalVal_good (tbl : Table) (ρ : Env) (bound : List Nat) (hb : Bound ρ bound)
    (hρ : wfEnv tbl ρ) :
    ∀ v, scopeV bound v = true → labelsIn tbl (blocksV v) → ExGood (wfRV tbl) (evalVal ρ v) := by
  intro v
  refine evalVal.induct ρ
    (motive_1 := fun v => scopeV bound v = true → labelsIn tbl (blocksV v) →
      ExGood (wfRV tbl) (evalVal ρ v))
    (motive_2 := fun vs => scopeVs bound vs = true → labelsIn tbl (blocksVs vs) →
      ExGood (wfRVs tbl) (evalVals ρ vs))
    ?_ ?_ ?_ ?_ ?_ ?_ ?_ ?_ ?_ ?_ ?_ ?_ v
  · intro _ _
    rw [evalVal]; notlookup
  · intro x w hg _ _
    rw [evalVal, hg]
    obtain ⟨xv, hm, rfl⟩ := Env.mem_of_get? hg
    exact hρ xv hm
  · intro x hg hs _
    rw [scopeV] at hs
    obtain ⟨w, hw⟩ := Env.get?_of_mem_dom (hb x (List.contains_iff_mem.1 hs))
    rw [hg] at hw; cases hw
  · intro l body _ hl
    rw [evalVal]
    show wfRV tbl (.code l)
    rw [wfRV]
    rw [blocksV] at hl
    exact hl (l, body) (List.mem_cons_self ..)
  · intro e c ihe ihc hs hl
    rw [scopeV, Bool.and_eq_true] at hs
    rw [blocksV, labelsIn_append] at hl
    rw [evalVal]
    refine ExGood.bind (ihe hs.1 hl.1) fun e' he' => ?_
    refine ExGood.bind (ihc hs.2 hl.2) fun c' hc' => ?_
    show wfRV tbl (.closure e' c')
    rw [wfRV]; exact ⟨he', hc'⟩
  · intro idx a iha hs hl
    rw [scopeV] at hs
    rw [blocksV] at hl
    rw [evalVal]
    refine ExGood.bind (iha hs hl) fun a' ha' => ?_
    show wfRV tbl (.ctor idx a')
    rw [wfRV]; exact ha'
  · intro _ _
    rw [evalVal]; show wfRV tbl .triv; rw [wfRV]; trivial
  · intro items n ih hs hl
    rw [scopeV] at hs
    rw [blocksV] at hl
    rw [evalVal]
    refine ExGood.bind (ih hs hl) fun vs hvs => ?_
    refine ExGood.bind (packFields_good tbl vs n hvs) fun fs hfs => ?_
    show wfRV tbl (.prod fs)
    rw [wfRV]; exact hfs
  · intro l _ _
    rw [evalVal]; show wfRV tbl (.lit l); rw [wfRV]; trivial
  · intro op args _ _
    rw [evalVal]; notlookup
  · intro _ _
    rw [evalVals]; show wfRVs tbl []; rw [wfRVs]; trivial
  · intro v vs ihv ihvs hs hl
    rw [scopeVs, Bool.and_eq_true] at hs
    rw [blocksVs, labelsIn_append] at hl
    rw [evalVals]
    refine ExGood.bind (ihv hs.1 hl.1) fun x hx => ?_
    refine ExGood.bind (ihvs hs.2 hl.2) fun xs hxs => ?_
    show wfRVs tbl (x :: xs)
    rw [wfRVs]; exact ⟨hx, hxs⟩

theorem evalStk_good (tbl : Table) (ρ : Env) (σ : RStack) (bound : List Nat) (hb : Bound ρ bound)
    (hρ : wfEnv tbl ρ) (hσ : wfStack tbl σ) :
    ∀ s, scopeS bound s = true → labelsIn tbl (blocksS s) →
      ExGood (wfStack tbl) (evalStk ρ σ s) := by
  intro s
  induction s using evalStk.induct with
  | case1 => intro _ _; rw [evalStk]; exact hσ
  | case2 v rest ih =>
    intro hs hl
    rw [scopeS, Bool.and_eq_true] at hs
    rw [blocksS, labelsIn_append] at hl
    rw [evalStk]
    refine ExGood.bind (evalVal_good tbl ρ bound hb hρ v hs.1 hl.1) fun x hx => ?_
    refine ExGood.bind (ih hs.2 hl.2) fun r hr => ?_
    show wfStack tbl (.arg x :: r)
    intro f hf
    rcases List.mem_cons.1 hf with rfl | hf
    · exact hx
    · exact hr f hf
  | case3 idx rest ih =>
    intro hs hl
    rw [scopeS] at hs
    rw [blocksS] at hl
    rw [evalStk]
    refine ExGood.bind (ih hs hl) fun r hr => ?_
    show wfStack tbl (.tag idx :: r)
    intro f hf
    rcases List.mem_cons.1 hf with rfl | hf
    · trivial
    · exact hr f hf
  | case4 c rest ih =>
    intro hs hl
    rw [scopeS, Bool.and_eq_true] at hs
    rw [blocksS, labelsIn_append] at hl
    rw [evalStk]
    refine ExGood.bind (evalVal_good tbl ρ bound hb hρ c hs.1 hl.1) fun x hx => ?_
    refine ExGood.bind (ih hs.2 hl.2) fun r hr => ?_
    show wfStack tbl (.kont x :: r)
    intro f hf
    rcases List.mem_cons.1 hf with rfl | hf
    · exact hx
    · exact hr f hf

/-! ### Pattern matching -/

/-- what a match result guarantees: bindings are only added, the pattern's variables are bound, the
environment stays well formed, and no lookup failure is reported -/
def MatchGood (tbl : Table) (vars : List Nat) (ρ : Env) (vwf : Prop) : MatchRes → Prop
  | .ok ρ' => (∀ x, x ∈ ρ.map (·.1) → x ∈ ρ'.map (·.1)) ∧ (∀ x ∈ vars, x ∈ ρ'.map (·.1)) ∧
      (vwf → wfEnv tbl ρ → wfEnv tbl ρ')
  | .fail => True
  | .stuck s => NotLookup s

theorem MatchGood.trans {tbl : Table} {vars₁ vars₂ : List Nat} {ρ ρ' : Env} {P Q R : Prop}
    {r : MatchRes} (hP : R → P) (hQ : R → Q)
    (h1 : MatchGood tbl vars₁ ρ P (.ok ρ')) (h2 : MatchGood tbl vars₂ ρ' Q r) :
    MatchGood tbl (vars₁ ++ vars₂) ρ R r := by
  cases r with
  | ok ρ'' =>
    obtain ⟨a1, b1, c1⟩ := h1
    obtain ⟨a2, b2, c2⟩ := h2
    refine ⟨fun x hx => a2 x (a1 x hx), ?_, fun hr hw => c2 (hQ hr) (c1 (hP hr) hw)⟩
    intro x hx
    rcases List.mem_append.1 hx with h | h
    · exact a2 x (b1 x h)
    · exact b2 x h
  | fail => trivial
  | stuck s => exact h2

theorem MatchGood.of_not_ok {tbl : Table} {vars vars' : List Nat} {ρ : Env} {P Q : Prop}
    {r : MatchRes} (hno : ∀ ρ', r = .ok ρ' → False) (h : MatchGood tbl vars ρ P r) :
    MatchGood tbl vars' ρ Q r := by
  cases r with
  | ok ρ' => exact (hno ρ' rfl).elim
  | fail => trivial
  | stuck s => exact h

theorem matchPat_good (tbl : Table) (p : Pat) (v : RV) (ρ : Env) :
    MatchGood tbl p.vars ρ (wfRV tbl v) (matchPat p v ρ) := by
  refine matchPat.induct
    (motive_1 := fun p v ρ => MatchGood tbl p.vars ρ (wfRV tbl v) (matchPat p v ρ))
    (motive_2 := fun ps fs ρ => MatchGood tbl (Pat.varsL ps) ρ (wfRVs tbl fs) (matchFields ps fs ρ))
    (motive_3 := fun ps v ρ => MatchGood tbl (Pat.varsL ps) ρ (wfRV tbl v) (matchAll ps v ρ))
    ?_ ?_ ?_ ?_ ?_ ?_ ?_ ?_ ?_ ?_ ?_ ?_ ?_ ?_ ?_ ?_ ?_ ?_ ?_ ?_ ?_ p v ρ
  · intro x ρ
    rw [matchPat]
    exact ⟨fun _ h => h, fun _ h => by simp [Pat.vars] at h, fun _ h => h⟩
  · intro x v ρ
    rw [matchPat]
    refine ⟨fun y h => ?_, fun y h => ?_, fun hv hw => ?_⟩
    · simp only [Env.bind, List.map_cons, List.mem_cons]; exact Or.inr h
    · simp only [Pat.vars, List.mem_singleton] at h
      simp only [Env.bind, List.map_cons, List.mem_cons]; exact Or.inl h
    · intro xv hm
      rcases List.mem_cons.1 hm with rfl | hm
      · exact hv
      · exact hw xv hm
  · intro p ρ idx' w ih
    rw [matchPat]
    simp only [if_true, Pat.vars, wfRV]
    exact ih
  · intro idx p ρ idx' w hne
    rw [matchPat]
    simp only [if_neg hne]
    trivial
  · intro idx p v ρ hno
    rw [matchPat]
    · notlookup
    · exact hno
  · intro items v ρ ih
    rw [matchPat, Pat.vars]
    exact ih
  · intro ρ
    rw [matchPat]
    exact ⟨fun _ h => h, fun _ h => by simp [Pat.vars] at h, fun _ h => h⟩
  · intro v ρ hno
    rw [matchPat]
    · trivial
    · exact hno
  · intro items ρ fields ih
    rw [matchPat]
    simp only [if_true, Pat.vars, wfRV]
    exact ih
  · intro items arity ρ fields hne
    rw [matchPat]
    simp only [if_neg hne]
    notlookup
  · intro items arity v ρ hno
    rw [matchPat]
    · notlookup
    · exact hno
  · intro ρ
    rw [matchFields]
    exact ⟨fun _ h => h, fun _ h => by simp [Pat.varsL] at h, fun _ h => h⟩
  · intro f fs ρ
    rw [matchFields]; notlookup
  · intro p ps ρ
    rw [matchFields]; notlookup
  · intro p f ρ ih
    rw [matchFields]
    simp only [Pat.varsL, List.append_nil, wfRVs, and_true]
    exact ih
  · intro p f g fs ρ ih
    rw [matchFields]
    simp only [Pat.varsL, List.append_nil]
    simp only [wfRV] at ih
    exact ih
  · intro p q ps f fs ρ ρ' hok ih1 ih2
    rw [matchFields, hok]
    rw [hok] at ih1
    rw [Pat.varsL]
    refine MatchGood.trans ?_ ?_ ih1 ih2
    · intro h; rw [wfRVs] at h; exact h.1
    · intro h; rw [wfRVs] at h; exact h.2
  · intro p q ps f fs ρ hno ih
    rw [matchFields]
    split
    · rename_i ρ' hok; exact (hno ρ' hok).elim
    · exact MatchGood.of_not_ok hno ih
  · intro v ρ
    rw [matchAll]
    exact ⟨fun _ h => h, fun _ h => by simp [Pat.varsL] at h, fun _ h => h⟩
  · intro p ps v ρ ρ' hok ih1 ih2
    rw [matchAll, hok]
    rw [hok] at ih1
    rw [Pat.varsL]
    exact MatchGood.trans id id ih1 ih2
  · intro p ps v ρ hno ih
    rw [matchAll]
    split
    · rename_i ρ' hok; exact (hno ρ' hok).elim
    · exact MatchGood.of_not_ok hno ih

theorem Bound.extend {ρ ρ' : Env} {bound vars : List Nat} (hb : Bound ρ bound)
    (h1 : ∀ x, x ∈ ρ.map (·.1) → x ∈ ρ'.map (·.1)) (h2 : ∀ x ∈ vars, x ∈ ρ'.map (·.1)) :
    Bound ρ' (vars ++ bound) := by
  intro x hx
  rcases List.mem_append.1 hx with h | h
  · exact h2 x h
  · exact h1 x (hb x h)

theorem matchExpect_good (tbl : Table) (p : Pat) (v : RV) (ρ : Env) (bound : List Nat)
    (hb : Bound ρ bound) (hρ : wfEnv tbl ρ) (hv : wfRV tbl v) :
    ExGood (fun ρ' => Bound ρ' (p.vars ++ bound) ∧ wfEnv tbl ρ') (matchExpect p v ρ) := by
  have h := matchPat_good tbl p v ρ
  unfold matchExpect
  cases hm : matchPat p v ρ with
  | ok ρ' =>
    rw [hm] at h
    exact ⟨hb.extend h.1 h.2.1, h.2.2 hv hρ⟩
  | fail => show NotLookup _; notlookup
  | stuck s =>
    rw [hm] at h
    exact h

/-- the static invariant of a running computation -/
def CompInv (tbl : Table) (c : Comp) (ρ : Env) : Prop :=
  ∃ bound, scopeC bound c = true ∧ Bound ρ bound ∧ labelsIn tbl (blocksC c) ∧ wfEnv tbl ρ

theorem findArm_good (tbl : Table) (v : RV) (ρ : Env) (bound : List Nat)
    (hb : Bound ρ bound) (hρ : wfEnv tbl ρ) (hv : wfRV tbl v) :
    ∀ arms, scopeArms bound arms = true → labelsIn tbl (blocksArms arms) →
      ExGood (fun r => CompInv tbl r.1 r.2) (findArm v ρ arms) := by
  intro arms
  induction arms with
  | nil => intro _ _; rw [findArm]; notlookup
  | cons arm rest ih =>
    obtain ⟨p, body⟩ := arm
    intro hs hl
    rw [scopeArms, Bool.and_eq_true] at hs
    rw [blocksArms, labelsIn_append] at hl
    rw [findArm]
    have h := matchPat_good tbl p v ρ
    cases hm : matchPat p v ρ with
    | ok ρ' =>
      rw [hm] at h
      exact ⟨p.vars ++ bound, hs.1, hb.extend h.1 h.2.1, hl.1, h.2.2 hv hρ⟩
    | fail => exact ih hs.2 hl.2
    | stuck s =>
      rw [hm] at h
      exact h

theorem coArm_scope (bound : List Nat) :
    ∀ (arms : List (Nat × Comp)) (ib : Nat × Comp), ib ∈ arms → scopeCoArms bound arms = true →
      scopeC bound ib.2 = true := by
  intro arms
  induction arms with
  | nil => intro _ h; cases h
  | cons a rest ih =>
    obtain ⟨i, b⟩ := a
    intro ib hm hs
    rw [scopeCoArms, Bool.and_eq_true] at hs
    rcases List.mem_cons.1 hm with rfl | hm
    · exact hs.1
    · exact ih ib hm hs.2

theorem coArm_labels (tbl : Table) :
    ∀ (arms : List (Nat × Comp)) (ib : Nat × Comp), ib ∈ arms → labelsIn tbl (blocksCoArms arms) →
      labelsIn tbl (blocksC ib.2) := by
  intro arms
  induction arms with
  | nil => intro _ h; cases h
  | cons a rest ih =>
    obtain ⟨i, b⟩ := a
    intro ib hm hl
    rw [blocksCoArms, labelsIn_append] at hl
    rcases List.mem_cons.1 hm with rfl | hm
    · exact hl.1
    · exact ih ib hm hl.2

/-! ### Host calls -/

theorem wfRV_ofHV (tbl : Table) (h : ZV.Host.HV) : wfRV tbl (ofHV h) := by
  cases h <;> simp [ofHV, wfRV]

theorem popArgs_good (tbl : Table) :
    ∀ (n : Nat) (σ : RStack) (acc args : List RV) (rest : RStack),
      wfStack tbl σ → (∀ v ∈ acc, wfRV tbl v) → popArgs n σ acc = some (args, rest) →
      (∀ v ∈ args, wfRV tbl v) ∧ wfStack tbl rest := by
  intro n
  induction n with
  | zero =>
    intro σ acc args rest hσ hacc h
    rw [popArgs] at h
    simp only [Option.some.injEq, Prod.mk.injEq] at h
    obtain ⟨rfl, rfl⟩ := h
    exact ⟨fun v hv => hacc v (List.mem_reverse.1 hv), hσ⟩
  | succ n ih =>
    intro σ acc args rest hσ hacc h
    cases σ with
    | nil => simp [popArgs] at h
    | cons f σ' =>
      cases f with
      | arg v =>
        rw [popArgs] at h
        refine ih σ' (v :: acc) args rest (fun f hf => hσ f (List.mem_cons_of_mem _ hf)) ?_ h
        intro w hw
        rcases List.mem_cons.1 hw with rfl | hw
        · exact hσ (.arg w) (List.mem_cons_self ..)
        · exact hacc w hw
      | tag i => simp [popArgs] at h
      | kont c => simp [popArgs] at h

/-! ### The invariant and its preservation -/

def CtrlInv (tbl : Table) : Ctrl → Prop
  | .comp c ρ => CompInv tbl c ρ
  | .enter v => wfRV tbl v
  | .force k => wfRV tbl k

def Inv (tbl : Table) (st : State) : Prop := CtrlInv tbl st.ctrl ∧ wfStack tbl st.stack

/-- what `validate` says about every block of the table -/
def TableOK (tbl : Table) : Prop :=
  ∀ l b, (l, b) ∈ tbl → scopeC [l] b = true ∧ labelsIn tbl (blocksC b)

def OutcomeGood : Outcome → Prop
  | .stuck s => NotLookup s
  | _ => True

def StepGood (tbl : Table) : StepResult → Prop
  | .next st' => Inv tbl st'
  | .done o _ => OutcomeGood o

theorem wfStack_cons {tbl : Table} {f : Frame} {σ : RStack} :
    wfStack tbl (f :: σ) ↔ wfFrame tbl f ∧ wfStack tbl σ := by
  unfold wfStack
  simp

theorem step_enter_good (tbl : Table) (ht : TableOK tbl) (code : RV) (σ : RStack)
    (host : ZV.Host.Host) (um : Bool) (hc : wfRV tbl code) (hσ : wfStack tbl σ) :
    StepGood tbl (step tbl ⟨.enter code, σ, host, um⟩) := by
  cases code with
  | code l =>
    rw [wfRV] at hc
    obtain ⟨b, hg, hm⟩ := Table.get?_of_mem_labels hc
    simp only [step, hg]
    refine ⟨⟨[l], (ht l b hm).1, ?_, (ht l b hm).2, ?_⟩, hσ⟩
    · intro x hx; simpa using hx
    · intro xv hxv
      simp only [List.mem_singleton] at hxv
      subst hxv
      show wfRV tbl (.code l)
      rw [wfRV]; exact hc
  | haltCode =>
    simp only [step]
    split
    · trivial
    · show NotLookup _; notlookup
  | foldCode =>
    simp only [step]
    split
    · rename_i argv ke ki rest
      rw [wfStack_cons] at hσ
      have hfe : wfRV tbl (.foldEnv argv ke ki) := hσ.1
      rw [wfRV] at hfe
      split
      · exact ⟨hfe.1, hσ.2⟩
      · rename_i a more
        refine ⟨hfe.2, ?_⟩
        rw [wfStack_cons, wfStack_cons]
        refine ⟨?_, ?_, hσ.2⟩
        · show wfRV tbl (.lit (.str a)); rw [wfRV]; trivial
        · show wfRV tbl (.closure (.foldEnv more ke ki) .foldCode)
          simp only [wfRV]; exact ⟨hfe, trivial⟩
    · show NotLookup _; notlookup
  | _ => simp only [step]; show NotLookup _; notlookup

theorem step_force_good (tbl : Table) (k : RV) (σ : RStack)
    (host : ZV.Host.Host) (um : Bool) (hc : wfRV tbl k) (hσ : wfStack tbl σ) :
    StepGood tbl (step tbl ⟨.force k, σ, host, um⟩) := by
  cases k with
  | closure e c =>
    simp only [step]
    rw [wfRV] at hc
    exact ⟨hc.2, wfStack_cons.2 ⟨hc.1, hσ⟩⟩
  | _ => simp only [step]; show NotLookup _; notlookup

theorem step_comp_good (tbl : Table) (c : Comp) (ρ : Env) (σ : RStack)
    (host : ZV.Host.Host) (um : Bool) (hc : CompInv tbl c ρ) (hσ : wfStack tbl σ) :
    StepGood tbl (step tbl ⟨.comp c ρ, σ, host, um⟩) := by
  obtain ⟨bound, hs, hb, hl, hρ⟩ := hc
  cases c with
  | hole s => simp only [step]; show NotLookup _; notlookup
  | jump target s =>
    rw [scopeC, Bool.and_eq_true] at hs
    rw [blocksC, labelsIn_append] at hl
    have hv := evalVal_good tbl ρ bound hb hρ target hs.1 hl.1
    have hk := evalStk_good tbl ρ σ bound hb hρ hσ s hs.2 hl.2
    simp only [step]
    split
    · next v σ' h1 h2 => rw [h1] at hv; rw [h2] at hk; exact ⟨hv, hk⟩
    · next e h1 => rw [h1] at hv; exact hv
    · next e h2 _ => rw [h2] at hk; exact hk
  | prodMatch scrut p body =>
    rw [scopeC, Bool.and_eq_true] at hs
    rw [blocksC, labelsIn_append] at hl
    have hv := evalVal_good tbl ρ bound hb hρ scrut hs.1 hl.1
    simp only [step]
    split
    · next v h1 =>
      rw [h1] at hv
      have hm := matchExpect_good tbl p v ρ bound hb hρ hv
      split
      · next ρ' h2 => rw [h2] at hm; exact ⟨⟨_, hs.2, hm.1, hl.2, hm.2⟩, hσ⟩
      · next e h2 => rw [h2] at hm; exact hm
    · next e h1 => rw [h1] at hv; exact hv
  | coprodMatch scrut arms =>
    rw [scopeC, Bool.and_eq_true] at hs
    rw [blocksC, labelsIn_append] at hl
    have hv := evalVal_good tbl ρ bound hb hρ scrut hs.1 hl.1
    simp only [step]
    split
    · next v h1 =>
      rw [h1] at hv
      have hm := findArm_good tbl v ρ bound hb hρ hv arms hs.2 hl.2
      split
      · next body ρ' h2 => rw [h2] at hm; exact ⟨hm, hσ⟩
      · next e h2 => rw [h2] at hm; exact hm
    · next e h1 => rw [h1] at hv; exact hv
  | letValue p bindee body =>
    rw [scopeC, Bool.and_eq_true] at hs
    rw [blocksC, labelsIn_append] at hl
    have hv := evalVal_good tbl ρ bound hb hρ bindee hs.1 hl.1
    simp only [step]
    split
    · next v h1 =>
      rw [h1] at hv
      have hm := matchExpect_good tbl p v ρ bound hb hρ hv
      split
      · next ρ' h2 => rw [h2] at hm; exact ⟨⟨_, hs.2, hm.1, hl.2, hm.2⟩, hσ⟩
      · next e h2 => rw [h2] at hm; exact hm
    · next e h1 => rw [h1] at hv; exact hv
  | letStack bindee body =>
    rw [scopeC, Bool.and_eq_true] at hs
    rw [blocksC, labelsIn_append] at hl
    have hk := evalStk_good tbl ρ σ bound hb hρ hσ bindee hs.1 hl.1
    simp only [step]
    split
    · next σ' h1 => rw [h1] at hk; exact ⟨⟨_, hs.2, hb, hl.2, hρ⟩, hk⟩
    · next e h1 => rw [h1] at hk; exact hk
  | letArg p bindee body =>
    rw [scopeC, Bool.and_eq_true] at hs
    rw [blocksC, labelsIn_append] at hl
    have hk := evalStk_good tbl ρ σ bound hb hρ hσ bindee hs.1 hl.1
    simp only [step]
    split
    · next v rest h1 =>
      rw [h1] at hk
      have hk' := wfStack_cons.1 hk
      have hm := matchExpect_good tbl p v ρ bound hb hρ hk'.1
      split
      · next ρ' h2 => rw [h2] at hm; exact ⟨⟨_, hs.2, hm.1, hl.2, hm.2⟩, hk'.2⟩
      · next e h2 => rw [h2] at hm; exact hm
    · show NotLookup _; notlookup
    · next e h1 => rw [h1] at hk; exact hk
  | coCase scrut arms =>
    rw [scopeC, Bool.and_eq_true] at hs
    rw [blocksC, labelsIn_append] at hl
    have hk := evalStk_good tbl ρ σ bound hb hρ hσ scrut hs.1 hl.1
    simp only [step]
    split
    · next idx rest h1 =>
      rw [h1] at hk
      have hk' := wfStack_cons.1 hk
      split
      · next i body h2 =>
        have hmem := List.mem_of_find?_eq_some h2
        exact ⟨⟨bound, coArm_scope bound arms _ hmem hs.2, hb, coArm_labels tbl arms _ hmem hl.2, hρ⟩,
          hk'.2⟩
      · show NotLookup _; notlookup
    · show NotLookup _; notlookup
    · next e h1 => rw [h1] at hk; exact hk
  | openClosure package penv pcode body =>
    rw [scopeC, Bool.and_eq_true] at hs
    rw [blocksC, labelsIn_append] at hl
    have hv := evalVal_good tbl ρ bound hb hρ package hs.1 hl.1
    simp only [step]
    split
    · next e c h1 =>
      rw [h1] at hv
      have hv' : wfRV tbl (.closure e c) := hv
      rw [wfRV] at hv'
      have hm := matchExpect_good tbl penv e ρ bound hb hρ hv'.1
      split
      · next ρ₁ h2 =>
        rw [h2] at hm
        have hm2 := matchExpect_good tbl pcode c ρ₁ _ hm.1 hm.2 hv'.2
        split
        · next ρ₂ h3 => rw [h3] at hm2; exact ⟨⟨_, hs.2, hm2.1, hl.2, hm2.2⟩, hσ⟩
        · next e h3 => rw [h3] at hm2; exact hm2
      · next e h2 => rw [h2] at hm; exact hm
    · show NotLookup _; notlookup
    · next e h1 => rw [h1] at hv; exact hv
  | openKont package pcode body =>
    rw [scopeC, Bool.and_eq_true] at hs
    rw [blocksC, labelsIn_append] at hl
    have hk := evalStk_good tbl ρ σ bound hb hρ hσ package hs.1 hl.1
    simp only [step]
    split
    · next c rest h1 =>
      rw [h1] at hk
      have hk' := wfStack_cons.1 hk
      have hm := matchExpect_good tbl pcode c ρ bound hb hρ hk'.1
      split
      · next ρ' h2 => rw [h2] at hm; exact ⟨⟨_, hs.2, hm.1, hl.2, hm.2⟩, hk'.2⟩
      · next e h2 => rw [h2] at hm; exact hm
    · show NotLookup _; notlookup
    · next e h1 => rw [h1] at hk; exact hk
  | extern role arity s =>
    rw [scopeC] at hs
    rw [blocksC] at hl
    have hk := evalStk_good tbl ρ σ bound hb hρ hσ s hs hl
    simp only [step]
    split
    · next e h1 => rw [h1] at hk; exact hk
    · next σ' h1 =>
      rw [h1] at hk
      split
      · show NotLookup _; notlookup
      · next args rest h2 =>
        obtain ⟨hargs_wf, hrest⟩ :=
          popArgs_good tbl arity σ' [] args rest hk (fun _ h => by cases h) h2
        split
        · show NotLookup _; notlookup
        · next hargs h3 =>
          split
          · next v _ =>
            split
            · next c rest' =>
              have hr := wfStack_cons.1 hrest
              exact ⟨hr.1, wfStack_cons.2 ⟨wfRV_ofHV tbl v, hr.2⟩⟩
            · show NotLookup _; notlookup
          · next i cargs _ =>
            split
            · next k hk' =>
              refine ⟨hargs_wf k (List.mem_of_getElem? hk'), ?_⟩
              intro f hf
              rcases List.mem_append.1 hf with h | h
              · obtain ⟨a, _, rfl⟩ := List.mem_map.1 h
                exact wfRV_ofHV tbl a
              · exact hrest f h
            · show NotLookup _; notlookup
          · next argv e i _ =>
            split
            · next ke ki h4 h5 =>
              refine ⟨?_, wfStack_cons.2 ⟨?_, hrest⟩⟩
              · show wfRV tbl .foldCode
                rw [wfRV]; trivial
              · show wfRV tbl (.foldEnv argv ke ki)
                rw [wfRV]
                exact ⟨hargs_wf ke (List.mem_of_getElem? h4), hargs_wf ki (List.mem_of_getElem? h5)⟩
            · show NotLookup _; notlookup
          · trivial
          · trivial
          · trivial
          · show NotLookup _; notlookup

theorem step_good (tbl : Table) (ht : TableOK tbl) (st : State) (h : Inv tbl st) :
    StepGood tbl (step tbl st) := by
  obtain ⟨ctrl, σ, host, um⟩ := st
  obtain ⟨hc, hσ⟩ := h
  cases ctrl with
  | comp c ρ => exact step_comp_good tbl c ρ σ host um hc hσ
  | enter code => exact step_enter_good tbl ht code σ host um hc hσ
  | force k => exact step_force_good tbl k σ host um hc hσ

theorem runFrom_good (tbl : Table) (ht : TableOK tbl) :
    ∀ (n : Nat) (st : State) (k : Nat) (s : Stuck) (st' : State) (k' : Nat),
      Inv tbl st → runFrom tbl n st k = (some (.stuck s), st', k') → NotLookup s := by
  intro n
  induction n with
  | zero =>
    intro st k s st' k' _ h
    simp [runFrom] at h
  | succ n ih =>
    intro st k s st' k' hinv h
    have hg := step_good tbl ht st hinv
    rw [runFrom] at h
    cases hs : step tbl st with
    | next st₁ =>
      rw [hs] at h hg
      exact ih st₁ (k + 1) s st' k' hg h
    | done o st₁ =>
      rw [hs] at h hg
      simp only [Prod.mk.injEq, Option.some.injEq] at h
      rw [h.1] at hg
      exact hg

/-! ### What `validate` gives -/

theorem labelsIn_of_all (tbl t : Table)
    (h : (t.all fun lb' => tbl.labels.contains lb'.1) = true) : labelsIn tbl t := by
  intro lb hm
  exact List.contains_iff_mem.1 (List.all_eq_true.1 h lb hm)

theorem labelsIn_self (t : Table) : labelsIn t t := by
  intro lb hm
  exact List.mem_map.2 ⟨lb, hm, rfl⟩

theorem tableOK_of_validate (p : Program) (hv : validate p = true) : TableOK p.blocks := by
  unfold validate at hv
  simp only [Bool.and_eq_true] at hv
  obtain ⟨⟨⟨⟨_, _⟩, h3⟩, h4⟩, _⟩ := hv
  intro l b hm
  exact ⟨List.all_eq_true.1 h3 (l, b) hm, labelsIn_of_all _ _ (List.all_eq_true.1 h4 (l, b) hm)⟩

theorem init_inv (p : Program) (hv : validate p = true) (host : ZV.Host.Host) :
    Inv p.blocks (p.init host) := by
  have hroot : scopeC [] p.root = true := by
    unfold validate at hv
    simp only [Bool.and_eq_true] at hv
    exact hv.1.1.1.2
  refine ⟨⟨[], hroot, ?_, labelsIn_self _, ?_⟩, ?_⟩
  · intro x hx; cases hx
  · intro xv hx; cases hx
  · intro f hf
    simp only [Program.init, List.mem_singleton] at hf
    subst hf
    show wfRV p.blocks .haltCode
    rw [wfRV]; trivial

theorem validated_no_lookup_failure_pf : Statement.validated_no_lookup_failure := by
  intro p hv n host s st k hrun
  unfold Program.run at hrun
  exact runFrom_good p.blocks (tableOK_of_validate p hv) n _ _ s st k (init_inv p hv host) hrun

/-! ### The block table is closed under nesting -/

/-- a table that contains the blocks nested in the bodies of its own blocks -/
def Closed (t : Table) : Prop := ∀ lb ∈ t, ∀ lb' ∈ blocksC lb.2, lb' ∈ t

theorem Closed.nil : Closed [] := by
  intro lb h; cases h

theorem Closed.append {a b : Table} (ha : Closed a) (hb : Closed b) : Closed (a ++ b) := by
  intro lb h lb' h'
  rcases List.mem_append.1 h with h | h
  · exact List.mem_append_left _ (ha lb h lb' h')
  · exact List.mem_append_right _ (hb lb h lb' h')

theorem Closed.block {l : Nat} {body : Comp} (h : Closed (blocksC body)) :
    Closed ((l, body) :: blocksC body) := by
  intro lb hm lb' h'
  rcases List.mem_cons.1 hm with rfl | hm
  · exact List.mem_cons_of_mem _ h'
  · exact List.mem_cons_of_mem _ (h lb hm lb' h')

theorem blocksC_closed (c : Comp) : Closed (blocksC c) := by
  refine blocksC.induct
    (motive_1 := fun v => Closed (blocksV v))
    (motive_2 := fun vs => Closed (blocksVs vs))
    (motive_3 := fun c => Closed (blocksC c))
    (motive_4 := fun arms => Closed (blocksCoArms arms))
    (motive_5 := fun arms => Closed (blocksArms arms))
    (motive_6 := fun s => Closed (blocksS s))
    ?_ ?_ ?_ ?_ ?_ ?_ ?_ ?_ ?_ ?_ ?_ ?_ ?_ ?_ ?_ ?_ ?_ ?_ ?_ ?_ ?_ ?_ ?_ ?_ ?_ ?_ ?_ ?_ ?_ ?_ c
  all_goals intros
  all_goals simp only [blocksV, blocksVs, blocksS, blocksC, blocksArms, blocksCoArms]
  all_goals first
    | exact Closed.nil
    | assumption
    | (apply Closed.block; assumption)
    | (apply Closed.append <;> assumption)

theorem nested_blocks_in_table_pf : Statement.nested_blocks_in_table := by
  intro p lb hm lb' hm'
  exact blocksC_closed p.root lb hm lb' hm'

end ZV.SpsLow
