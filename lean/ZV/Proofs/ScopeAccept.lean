/-
C07, part two: the checker gives literally the same answer on a term and on its canonical form.
-/
import ZV.Proofs.ScopeBasic

namespace ZV.ZCore.Sc
open ZV.ZCore

/-- every canonical name in use is below the current depth -/
def RenBound (n : Nat) (ρ : Ren) : Prop := ∀ x k, ρ.get? x = some k → k < n

theorem RenBound.nil (n : Nat) : RenBound n [] := by
  intro x k h; simp [ren_get_nil] at h

theorem RenBound.cons {n : Nat} {ρ : Ren} (h : RenBound n ρ) (x : Nat) :
    RenBound (n + 1) ((x, n) :: ρ) := by
  intro y k hy
  rw [ren_get_cons] at hy
  by_cases hxy : x = y
  · simp only [hxy, if_true, Option.some.injEq] at hy; omega
  · simp only [hxy, if_false] at hy
    have := h y k hy; omega

/-- the two contexts agree through the renaming, on every renamed name -/
def CtxRel (ρ : Ren) (Γ Γ' : Ctx) : Prop :=
  ∀ x k, ρ.get? x = some k → ∃ a, Γ.get? x = some a ∧ Γ'.get? k = some a

theorem CtxRel.nil : CtxRel [] [] [] := by
  intro x k h; simp [ren_get_nil] at h

theorem CtxRel.cons {n : Nat} {ρ : Ren} {Γ Γ' : Ctx} (hb : RenBound n ρ) (h : CtxRel ρ Γ Γ')
    (x : Nat) (a : VTy) : CtxRel ((x, n) :: ρ) ((x, a) :: Γ) ((n, a) :: Γ') := by
  intro y k hy
  rw [ren_get_cons] at hy
  rw [ctx_get_cons, ctx_get_cons]
  by_cases hxy : x = y
  · simp only [hxy, if_true, Option.some.injEq] at hy
    exact ⟨a, by simp [hxy], by simp [hy]⟩
  · simp only [hxy, if_false] at hy ⊢
    have hk := hb y k hy
    have hnk : ¬ n = k := by omega
    simp only [hnk, if_false]
    exact h y k hy

/-! ### the arms keep their constructor names -/

theorem arms_filter : ∀ (arms : List (String × Nat × C)) (n : Nat) (ρ : Ren)
    (arms' : List (String × Nat × C)), canonArms n ρ arms = some arms' → ∀ k : String,
    (arms'.filter (·.1 == k)).length = (arms.filter (·.1 == k)).length
  | [], n, ρ, arms', h, k => by simp only [canonArms] at h; cases h; rfl
  | (k0, x, m) :: rest, n, ρ, arms', h, k => by
    simp only [canonArms] at h
    obtain ⟨m', hm, h⟩ := obind h
    obtain ⟨rest', hr, h⟩ := obind h
    cases h
    have ih := arms_filter rest n ρ rest' hr k
    simp only [List.filter_cons]
    by_cases hk : (k0 == k) = true
    · simp [hk, ih]
    · simp [hk, ih]

theorem arms_all : ∀ (arms : List (String × Nat × C)) (n : Nat) (ρ : Ren)
    (arms' : List (String × Nat × C)), canonArms n ρ arms = some arms' →
    ∀ f : String × Nat × C → Bool, (∀ k x m x' m', f (k, x, m) = f (k, x', m')) →
    arms'.all f = arms.all f
  | [], n, ρ, arms', h, f, hf => by simp only [canonArms] at h; cases h; rfl
  | (k0, x, m) :: rest, n, ρ, arms', h, f, hf => by
    simp only [canonArms] at h
    obtain ⟨m', hm, h⟩ := obind h
    obtain ⟨rest', hr, h⟩ := obind h
    cases h
    have ih := arms_all rest n ρ rest' hr f hf
    simp only [List.all_cons, ih, hf k0 n m' x m]

theorem coarms_filter : ∀ (arms : List (String × C)) (n : Nat) (ρ : Ren)
    (arms' : List (String × C)), canonCoArms n ρ arms = some arms' → ∀ k : String,
    (arms'.filter (·.1 == k)).length = (arms.filter (·.1 == k)).length
  | [], n, ρ, arms', h, k => by simp only [canonCoArms] at h; cases h; rfl
  | (k0, m) :: rest, n, ρ, arms', h, k => by
    simp only [canonCoArms] at h
    obtain ⟨m', hm, h⟩ := obind h
    obtain ⟨rest', hr, h⟩ := obind h
    cases h
    have ih := coarms_filter rest n ρ rest' hr k
    simp only [List.filter_cons]
    by_cases hk : (k0 == k) = true
    · simp [hk, ih]
    · simp [hk, ih]

theorem coarms_all : ∀ (arms : List (String × C)) (n : Nat) (ρ : Ren)
    (arms' : List (String × C)), canonCoArms n ρ arms = some arms' →
    ∀ f : String × C → Bool, (∀ k m m', f (k, m) = f (k, m')) →
    arms'.all f = arms.all f
  | [], n, ρ, arms', h, f, hf => by simp only [canonCoArms] at h; cases h; rfl
  | (k0, m) :: rest, n, ρ, arms', h, f, hf => by
    simp only [canonCoArms] at h
    obtain ⟨m', hm, h⟩ := obind h
    obtain ⟨rest', hr, h⟩ := obind h
    cases h
    have ih := coarms_all rest n ρ rest' hr f hf
    simp only [List.all_cons, ih, hf k0 m' m]

/-- the `match` rule, once its parts agree -/
theorem infer_case_congr (Δ : Sig) (Γ Γ' : Ctx) (v v' : V) (d : Nat)
    (arms arms' : List (String × Nat × C)) (b : CTy) (n : Nat) (ρ : Ren)
    (hv : inferV Δ Γ' v' = inferV Δ Γ v) (ha : canonArms n ρ arms = some arms')
    (hc : checkArms Δ Γ' d arms' b = checkArms Δ Γ d arms b) :
    inferC Δ Γ' (.case v' d arms' b) = inferC Δ Γ (.case v d arms b) := by
  simp only [inferC, hv, hc, arms_filter arms n ρ arms' ha]
  have := fun f hf => arms_all arms n ρ arms' ha f hf
  cases inferV Δ Γ v with
  | error e => rfl
  | ok a =>
    simp only [bind, Except.bind]
    split
    · split
      · rfl
      · split
        · rfl
        · rw [this _ (by intros; rfl)]
    · rfl

theorem infer_comatch_congr (Δ : Sig) (Γ Γ' : Ctx) (c : Nat)
    (arms arms' : List (String × C)) (n : Nat) (ρ : Ren)
    (ha : canonCoArms n ρ arms = some arms')
    (hc : checkCoArms Δ Γ' c arms' = checkCoArms Δ Γ c arms) :
    inferC Δ Γ' (.comatch c arms') = inferC Δ Γ (.comatch c arms) := by
  simp only [inferC, hc, coarms_filter arms n ρ arms' ha]
  have := fun f hf => coarms_all arms n ρ arms' ha f hf
  split
  · rfl
  · rw [this _ (by intros; rfl)]

/-! ### The checker cannot tell a term from its canonical form -/

mutual
  theorem accV (Δ : Sig) : ∀ (v : V) (n : Nat) (ρ : Ren) (Γ Γ' : Ctx) (v' : V),
      canonV n ρ v = some v' → RenBound n ρ → CtxRel ρ Γ Γ' → inferV Δ Γ' v' = inferV Δ Γ v
    | .var x, n, ρ, Γ, Γ', v', h, hb, hr => by
      simp only [canonV, Option.map_eq_some_iff] at h
      obtain ⟨k, hk, rfl⟩ := h
      obtain ⟨a, h1, h2⟩ := hr x k hk
      simp only [inferV, h1, h2]
    | .unit, n, ρ, Γ, Γ', v', h, hb, hr => by simp only [canonV] at h; cases h; simp only [inferV]
    | .int t x, n, ρ, Γ, Γ', v', h, hb, hr => by simp only [canonV] at h; cases h; simp only [inferV]
    | .str s, n, ρ, Γ, Γ', v', h, hb, hr => by simp only [canonV] at h; cases h; simp only [inferV]
    | .pair p q, n, ρ, Γ, Γ', v', h, hb, hr => by
      simp only [canonV] at h
      obtain ⟨p', hp, h⟩ := obind h
      obtain ⟨q', hq, h⟩ := obind h
      cases h
      simp only [inferV, accV Δ p n ρ Γ Γ' p' hp hb hr, accV Δ q n ρ Γ Γ' q' hq hb hr]
    | .ctor d k arg, n, ρ, Γ, Γ', v', h, hb, hr => by
      simp only [canonV] at h
      obtain ⟨p', hp, h⟩ := obind h
      cases h
      simp only [inferV, accV Δ arg n ρ Γ Γ' p' hp hb hr]
    | .thunk m b, n, ρ, Γ, Γ', v', h, hb, hr => by
      simp only [canonV] at h
      obtain ⟨m', hm, h⟩ := obind h
      cases h
      simp only [inferV, accC Δ m n ρ Γ Γ' m' hm hb hr]
  theorem accC (Δ : Sig) : ∀ (m : C) (n : Nat) (ρ : Ren) (Γ Γ' : Ctx) (m' : C),
      canonC n ρ m = some m' → RenBound n ρ → CtxRel ρ Γ Γ' → inferC Δ Γ' m' = inferC Δ Γ m
    | .ret v, n, ρ, Γ, Γ', c, h, hb, hr => by
      simp only [canonC] at h
      obtain ⟨v', hv, h⟩ := obind h
      cases h
      simp only [inferC, accV Δ v n ρ Γ Γ' v' hv hb hr]
    | .bind x a m k, n, ρ, Γ, Γ', c, h, hb, hr => by
      simp only [canonC] at h
      obtain ⟨m', hm, h⟩ := obind h
      obtain ⟨k', hk, h⟩ := obind h
      cases h
      simp only [inferC, accC Δ m n ρ Γ Γ' m' hm hb hr,
        accC Δ k (n + 1) _ _ _ k' hk (hb.cons x) (hr.cons hb x a)]
    | .clet x v m, n, ρ, Γ, Γ', c, h, hb, hr => by
      simp only [canonC] at h
      obtain ⟨v', hv, h⟩ := obind h
      obtain ⟨m', hm, h⟩ := obind h
      cases h
      have := fun a => accC Δ m (n + 1) _ _ _ m' hm (hb.cons x) (hr.cons hb x a)
      simp only [inferC, accV Δ v n ρ Γ Γ' v' hv hb hr, this]
    | .letPair x y v m, n, ρ, Γ, Γ', c, h, hb, hr => by
      simp only [canonC] at h
      obtain ⟨v', hv, h⟩ := obind h
      obtain ⟨m', hm, h⟩ := obind h
      cases h
      have := fun ta tb => accC Δ m (n + 2) _ _ _ m' hm ((hb.cons x).cons y)
        ((hr.cons hb x ta).cons (hb.cons x) y tb)
      simp only [inferC, accV Δ v n ρ Γ Γ' v' hv hb hr, this]
    | .fn x a m, n, ρ, Γ, Γ', c, h, hb, hr => by
      simp only [canonC] at h
      obtain ⟨m', hm, h⟩ := obind h
      cases h
      simp only [inferC, accC Δ m (n + 1) _ _ _ m' hm (hb.cons x) (hr.cons hb x a)]
    | .app m v, n, ρ, Γ, Γ', c, h, hb, hr => by
      simp only [canonC] at h
      obtain ⟨m', hm, h⟩ := obind h
      obtain ⟨v', hv, h⟩ := obind h
      cases h
      simp only [inferC, accV Δ v n ρ Γ Γ' v' hv hb hr, accC Δ m n ρ Γ Γ' m' hm hb hr]
    | .force v, n, ρ, Γ, Γ', c, h, hb, hr => by
      simp only [canonC] at h
      obtain ⟨v', hv, h⟩ := obind h
      cases h
      simp only [inferC, accV Δ v n ρ Γ Γ' v' hv hb hr]
    | .fix f b m, n, ρ, Γ, Γ', c, h, hb, hr => by
      simp only [canonC] at h
      obtain ⟨m', hm, h⟩ := obind h
      cases h
      simp only [inferC, accC Δ m (n + 1) _ _ _ m' hm (hb.cons f) (hr.cons hb f (.thk b))]
    | .case v d arms b, n, ρ, Γ, Γ', c, h, hb, hr => by
      simp only [canonC] at h
      obtain ⟨v', hv, h⟩ := obind h
      obtain ⟨arms', ha, h⟩ := obind h
      cases h
      exact infer_case_congr Δ Γ Γ' v v' d arms arms' b n ρ (accV Δ v n ρ Γ Γ' v' hv hb hr) ha
        (accArms Δ arms n ρ Γ Γ' arms' d b ha hb hr)
    | .comatch c0 arms, n, ρ, Γ, Γ', c, h, hb, hr => by
      simp only [canonC] at h
      obtain ⟨arms', ha, h⟩ := obind h
      cases h
      exact infer_comatch_congr Δ Γ Γ' c0 arms arms' n ρ ha
        (accCoArms Δ arms n ρ Γ Γ' arms' c0 ha hb hr)
    | .dtor m k, n, ρ, Γ, Γ', c, h, hb, hr => by
      simp only [canonC] at h
      obtain ⟨m', hm, h⟩ := obind h
      cases h
      simp only [inferC, accC Δ m n ρ Γ Γ' m' hm hb hr]
    | .arith t op p q, n, ρ, Γ, Γ', c, h, hb, hr => by
      simp only [canonC] at h
      obtain ⟨p', hp, h⟩ := obind h
      obtain ⟨q', hq, h⟩ := obind h
      cases h
      simp only [inferC, accV Δ p n ρ Γ Γ' p' hp hb hr, accV Δ q n ρ Γ Γ' q' hq hb hr]
    | .cmp t op p q res yes no, n, ρ, Γ, Γ', c, h, hb, hr => by
      simp only [canonC] at h
      obtain ⟨p', hp, h⟩ := obind h
      obtain ⟨q', hq, h⟩ := obind h
      obtain ⟨y', hy, h⟩ := obind h
      obtain ⟨n', hn, h⟩ := obind h
      cases h
      simp only [inferC, accV Δ p n ρ Γ Γ' p' hp hb hr, accV Δ q n ρ Γ Γ' q' hq hb hr,
        accC Δ yes n ρ Γ Γ' y' hy hb hr, accC Δ no n ρ Γ Γ' n' hn hb hr]
    | .toStr t p, n, ρ, Γ, Γ', c, h, hb, hr => by
      simp only [canonC] at h
      obtain ⟨p', hp, h⟩ := obind h
      cases h
      simp only [inferC, accV Δ p n ρ Γ Γ' p' hp hb hr]
    | .strAppend p q, n, ρ, Γ, Γ', c, h, hb, hr => by
      simp only [canonC] at h
      obtain ⟨p', hp, h⟩ := obind h
      obtain ⟨q', hq, h⟩ := obind h
      cases h
      simp only [inferC, accV Δ p n ρ Γ Γ' p' hp hb hr, accV Δ q n ρ Γ Γ' q' hq hb hr]
    | .writeLine p k, n, ρ, Γ, Γ', c, h, hb, hr => by
      simp only [canonC] at h
      obtain ⟨p', hp, h⟩ := obind h
      obtain ⟨k', hk, h⟩ := obind h
      cases h
      simp only [inferC, accV Δ p n ρ Γ Γ' p' hp hb hr, accC Δ k n ρ Γ Γ' k' hk hb hr]
    | .exit p, n, ρ, Γ, Γ', c, h, hb, hr => by
      simp only [canonC] at h
      obtain ⟨p', hp, h⟩ := obind h
      cases h
      simp only [inferC, accV Δ p n ρ Γ Γ' p' hp hb hr]
  theorem accArms (Δ : Sig) : ∀ (arms : List (String × Nat × C)) (n : Nat) (ρ : Ren) (Γ Γ' : Ctx)
      (arms' : List (String × Nat × C)) (d : Nat) (b : CTy),
      canonArms n ρ arms = some arms' → RenBound n ρ → CtxRel ρ Γ Γ' →
      checkArms Δ Γ' d arms' b = checkArms Δ Γ d arms b
    | [], n, ρ, Γ, Γ', arms', d, b, h, hb, hr => by
      simp only [canonArms] at h; cases h; simp only [checkArms]
    | (k, x, m) :: rest, n, ρ, Γ, Γ', arms', d, b, h, hb, hr => by
      simp only [canonArms] at h
      obtain ⟨m', hm, h⟩ := obind h
      obtain ⟨rest', hrest, h⟩ := obind h
      cases h
      have := fun a => accC Δ m (n + 1) _ _ _ m' hm (hb.cons x) (hr.cons hb x a)
      simp only [checkArms, this, accArms Δ rest n ρ Γ Γ' rest' d b hrest hb hr]
  theorem accCoArms (Δ : Sig) : ∀ (arms : List (String × C)) (n : Nat) (ρ : Ren) (Γ Γ' : Ctx)
      (arms' : List (String × C)) (c : Nat),
      canonCoArms n ρ arms = some arms' → RenBound n ρ → CtxRel ρ Γ Γ' →
      checkCoArms Δ Γ' c arms' = checkCoArms Δ Γ c arms
    | [], n, ρ, Γ, Γ', arms', c, h, hb, hr => by
      simp only [canonCoArms] at h; cases h; simp only [checkCoArms]
    | (k, m) :: rest, n, ρ, Γ, Γ', arms', c, h, hb, hr => by
      simp only [canonCoArms] at h
      obtain ⟨m', hm, h⟩ := obind h
      obtain ⟨rest', hrest, h⟩ := obind h
      cases h
      simp only [checkCoArms, accC Δ m n ρ Γ Γ' m' hm hb hr,
        accCoArms Δ rest n ρ Γ Γ' rest' c hrest hb hr]
end

theorem check_canon (Δ : Sig) (m m' : C) (h : canon m = some m') :
    checkProgram Δ m' = checkProgram Δ m := by
  unfold checkProgram
  rw [accC Δ m 0 [] [] [] m' h (RenBound.nil 0) CtxRel.nil]

end ZV.ZCore.Sc
