import ZV.Model.Lexer

namespace ZV.Lexer

@[simp] theorem depthBefore_zero (r : List Raw) (d : Nat) : depthBefore r d 0 = d := by
  simp [depthBefore]

@[simp] theorem depthBefore_succ (t : Raw) (r : List Raw) (d j : Nat) :
    depthBefore (t :: r) d (j + 1) = depthBefore r (stepDepth d t) j := by
  simp [depthBefore]

/-- What a position contributes: it is emitted iff it is significant and at depth 0. -/
def Emits (r : List Raw) (d j : Nat) : Prop :=
  ∃ t, r[j]? = some t ∧ significant t = true ∧ depthBefore r d j = 0

theorem emits_cons_succ (t : Raw) (r : List Raw) (d j : Nat) :
    Emits (t :: r) d (j + 1) ↔ Emits r (stepDepth d t) j := by
  simp [Emits]

theorem emits_cons_zero (t : Raw) (r : List Raw) (d : Nat) :
    Emits (t :: r) d 0 ↔ significant t = true ∧ d = 0 := by
  simp [Emits]

/-- Helper: membership in the shifted tail. -/
theorem ex_split (P : Nat → Prop) (i k : Nat) :
    (∃ j, k = i + j ∧ P j) ↔ (k = i ∧ P 0) ∨ (∃ j, k = (i + 1) + j ∧ P (j + 1)) := by
  constructor
  · rintro ⟨j, rfl, hj⟩
    cases j with
    | zero => exact Or.inl ⟨rfl, hj⟩
    | succ j => exact Or.inr ⟨j, by omega, hj⟩
  · rintro (⟨rfl, h⟩ | ⟨j, rfl, hj⟩)
    · exact ⟨0, rfl, h⟩
    · exact ⟨j + 1, by omega, hj⟩

theorem lexAux_mem_iff (r : List Raw) (i d k : Nat) (h : Raw.err ∉ r) :
    k ∈ lexAux r i d ↔ ∃ j, k = i + j ∧ Emits r d j := by
  induction r generalizing i d with
  | nil => simp [lexAux, Emits]
  | cons t r ih =>
    have hr : Raw.err ∉ r := fun hm => h (List.mem_cons_of_mem _ hm)
    rw [ex_split]
    simp only [emits_cons_succ, emits_cons_zero]
    cases t with
    | err => exact absurd (List.mem_cons_self) h
    | textLine => simp [lexAux, ih _ _ hr, significant, stepDepth]
    | commentLine => simp [lexAux, ih _ _ hr, significant, stepDepth]
    | commentOpen => simp [lexAux, ih _ _ hr, significant, stepDepth]
    | commentClose =>
      by_cases hd : d = 0
      · subst hd; simp [lexAux, ih _ _ hr, significant, stepDepth]
      · simp [lexAux, hd, ih _ _ hr, significant, stepDepth]
    | unknown =>
      by_cases hd : d = 0
      · subst hd; simp [lexAux, ih _ _ hr, significant, stepDepth]
      · have : d > 0 := by omega
        simp [lexAux, hd, this, ih _ _ hr, significant, stepDepth]
    | code =>
      by_cases hd : d = 0
      · subst hd; simp [lexAux, ih _ _ hr, significant, stepDepth]
      · have : d > 0 := by omega
        simp [lexAux, hd, this, ih _ _ hr, significant, stepDepth]

theorem lexAux_lower (r : List Raw) (i d k : Nat) (hk : k ∈ lexAux r i d) : i ≤ k := by
  induction r generalizing i d with
  | nil => simp [lexAux] at hk
  | cons t r ih =>
    cases t <;> simp only [lexAux] at hk
    all_goals first
      | (have := ih _ _ hk; omega)
      | (split at hk
         all_goals first
           | (have := ih _ _ hk; omega)
           | (rcases List.mem_cons.1 hk with rfl | hk'
              · omega
              · have := ih _ _ hk'; omega))
      | simp at hk

theorem lexAux_sorted (r : List Raw) (i d : Nat) : (lexAux r i d).Pairwise (· < ·) := by
  induction r generalizing i d with
  | nil => simp [lexAux]
  | cons t r ih =>
    cases t <;> simp only [lexAux]
    all_goals first
      | exact ih _ _
      | (split
         all_goals first
           | exact ih _ _
           | (refine List.pairwise_cons.2 ⟨?_, ih _ _⟩
              intro k hk
              have := lexAux_lower _ _ _ _ hk; omega))
      | simp

end ZV.Lexer

namespace ZV.Lexer

/-- The tooling view and the parser's view agree on which raw tokens are code. -/
theorem toolCode_toolAux (r : List Raw) (i d : Nat) (start : Option Nat) (h : Raw.err ∉ r) :
    toolCode (toolAux r i d start) = lexKnownAux r i d := by
  induction r generalizing i d start with
  | nil => cases start <;> simp [toolAux, toolCode, lexKnownAux]
  | cons t r ih =>
    have hr : Raw.err ∉ r := fun hm => h (List.mem_cons_of_mem _ hm)
    cases t with
    | err => exact absurd (List.mem_cons_self) h
    | textLine =>
      by_cases hd : d > 0
      · simp [toolAux, lexKnownAux, hd, ih _ _ _ hr]
      · have : d = 0 := by omega
        subst this
        simp [toolAux, lexKnownAux, classified, toolCode, ih _ _ _ hr]
    | commentLine =>
      by_cases hd : d > 0
      · simp [toolAux, lexKnownAux, hd, ih _ _ _ hr]
      · have : d = 0 := by omega
        subst this
        simp [toolAux, lexKnownAux, classified, toolCode, ih _ _ _ hr]
    | commentOpen =>
      by_cases hd : d > 0
      · simp [toolAux, lexKnownAux, hd, ih _ _ _ hr]
      · have : d = 0 := by omega
        subst this
        simp [toolAux, lexKnownAux, ih _ _ _ hr]
    | commentClose =>
      by_cases hd : d > 0
      · have hne : d ≠ 0 := by omega
        by_cases h1 : d - 1 = 0
        · cases start <;> simp [toolAux, lexKnownAux, hd, hne, h1, toolCode, ih _ _ _ hr]
        · simp [toolAux, lexKnownAux, hd, hne, h1, ih _ _ _ hr]
      · have : d = 0 := by omega
        subst this
        simp [toolAux, lexKnownAux, classified, toolCode, ih _ _ _ hr]
    | unknown =>
      by_cases hd : d > 0
      · simp [toolAux, lexKnownAux, hd, ih _ _ _ hr]
      · have : d = 0 := by omega
        subst this
        simp [toolAux, lexKnownAux, classified, ih _ _ _ hr]
    | code =>
      by_cases hd : d > 0
      · simp [toolAux, lexKnownAux, hd, ih _ _ _ hr]
      · have : d = 0 := by omega
        subst this
        simp [toolAux, lexKnownAux, classified, toolCode, ih _ _ _ hr]

/-- `lexKnownAux` is `lexAux` without the `Unknown` tokens. -/
theorem lexKnownAux_eq_filter (full r : List Raw) (i d : Nat)
    (hfull : ∀ j, full[i + j]? = r[j]?) :
    lexKnownAux r i d = (lexAux r i d).filter (fun k => full[k]? != some Raw.unknown) := by
  induction r generalizing i d with
  | nil => simp [lexKnownAux, lexAux]
  | cons t r ih =>
    have hnext : ∀ j, full[i + 1 + j]? = r[j]? := by
      intro j
      have := hfull (j + 1)
      simpa [Nat.add_assoc, Nat.add_comm 1 j] using this
    have hhead : full[i]? = some t := by simpa using hfull 0
    cases t <;> simp only [lexKnownAux, lexAux]
    all_goals first
      | exact ih _ _ hnext
      | rfl
      | (split
         all_goals first
           | exact ih _ _ hnext
           | (next hd => have : d = 0 := by omega
                         subst this; simp [hhead, ih _ _ hnext])
           | simp [hhead, ih _ _ hnext])
      | simp

end ZV.Lexer
