/- Proofs of the C13 statements about the accounting oracle (`ZV.Model.Account`). -/
import ZV.Props.C13Statements

namespace ZV.Account
open ZV.Props.C13.Statement

/-! ### `firstDiff`, `firstBack` -/

theorem firstDiff_none_iff_pf : firstDiff_none_iff := by
  intro a b i
  fun_induction firstDiff a b i with
  | case1 => simp
  | case2 as b bs i ih => simp [ih]
  | case3 a as b bs i h => simp [h]
  | case4 t x i h1 h2 =>
    constructor
    · intro h; cases h
    · intro h
      subst h
      cases t with
      | nil => exact absurd rfl (fun h => h1 h rfl)
      | cons a as => exact (h2 a as a as rfl rfl).elim

theorem firstDiff_self (l : List Item) (i : Nat) : firstDiff l l i = none :=
  (firstDiff_none_iff_pf l l i).mpr rfl

theorem firstBack_self (l : List Nat) (i : Nat) : firstBack l l i = none := by
  induction l generalizing i with
  | nil => simp [firstBack]
  | cons a as ih => simp [firstBack, ih]

/-! ### the verdict -/

theorem accounts_ok_iff_pf : accounts_ok_iff := by
  intro inp out
  unfold accounts
  simp only
  cases h1 : firstDiff (comments (normalize inp)) (comments (normalize out)) 0 with
  | some i =>
    have : comments (normalize inp) ≠ comments (normalize out) := by
      intro h; rw [(firstDiff_none_iff_pf _ _ 0).mpr h] at h1; cases h1
    simp [this]
  | none =>
    have e1 := (firstDiff_none_iff_pf _ _ 0).mp h1
    cases h2 : firstDiff (contents (normalize inp)) (contents (normalize out)) 0 with
    | some i =>
      have : contents (normalize inp) ≠ contents (normalize out) := by
        intro h; rw [(firstDiff_none_iff_pf _ _ 0).mpr h] at h2; cases h2
      simp [this]
    | none =>
      have e2 := (firstDiff_none_iff_pf _ _ 0).mp h2
      cases h3 : firstBack (offsets (normalize inp)) (offsets (normalize out)) 0 with
      | some i => simp
      | none => simp [e1, e2]

theorem accounts_refl_pf : accounts_refl := by
  intro l
  rw [accounts_ok_iff_pf]
  exact ⟨rfl, rfl, firstBack_self _ _⟩

/-! ### `essential` -/

theorem essential_append (l₁ l₂ : List Item) :
    essential (l₁ ++ l₂) = essential l₁ ++ essential l₂ := by
  fun_induction essential l₁ with
  | case1 => simp
  | case2 t rest ih => simp [essential, ih]
  | case3 t rest ih => simp [essential, ih]
  | case4 x rest h1 h2 ih =>
    rw [List.cons_append, essential.eq_4 x _ h1 h2, ih, List.cons_append]

theorem essential_ignores_layout_tokens_pf : essential_ignores_layout_tokens := by
  intro l₁ l₂ t
  constructor
  · rw [essential_append, essential_append]; simp [essential]
  · rw [essential_append, essential_append]; simp [essential]

/-! ### normalisation neither drops nor adds a comment -/

/-- the number of comments of a stream -/
def nc (l : List Item) : Nat := l.countP Item.isComment

@[simp] theorem nc_nil : nc [] = 0 := rfl

@[simp] theorem nc_cons (x : Item) (l : List Item) :
    nc (x :: l) = nc l + (if x.isComment then 1 else 0) := by
  simp [nc, List.countP_cons]

@[simp] theorem nc_append (l₁ l₂ : List Item) : nc (l₁ ++ l₂) = nc l₁ + nc l₂ := by
  simp [nc, List.countP_append]

theorem comments_length (l : List Item) : (comments l).length = nc l := by
  simp [comments, nc, List.countP_eq_length_filter]

theorem spanComments_append (l : List Item) :
    (spanComments l).1 ++ (spanComments l).2 = l := by
  induction l with
  | nil => rfl
  | cons x rest ih =>
    unfold spanComments
    split
    · simp [ih]
    · simp

theorem nc_markUnits (l : List Item) : nc (markUnits l) = nc l := by
  fun_induction markUnits l with
  | case1 => rfl
  | case2 rest cs tail h ih =>
    have e := spanComments_append rest
    rw [h] at e
    simp only at e
    rw [← e]
    simp [ih, Item.isComment]
  | case3 rest h ih => simp [ih]
  | case4 x rest h ih => simp [ih]

theorem nc_of_span (rest cs tail : List Item) (x : Item) (hx : x.isComment = false)
    (h : spanComments rest = (cs, x :: tail)) : nc rest = nc cs + nc tail := by
  have e := spanComments_append rest
  rw [h] at e
  simp only at e
  rw [← e]
  simp [hx]

theorem spanTrail_append (l : List Item) : (spanTrail l).1 ++ (spanTrail l).2 = l := by
  induction l with
  | nil => rfl
  | cons x rest ih =>
    unfold spanTrail
    split
    · simp [ih]
    · simp

theorem nc_of_trail (rest cs tail : List Item) (x : Item) (hx : x.isComment = false)
    (h : spanTrail rest = (cs, x :: tail)) : nc rest = nc cs + nc tail := by
  have e := spanTrail_append rest
  rw [h] at e
  simp only at e
  rw [← e]
  simp [hx]

theorem nc_collapsePuns (l : List Item) : nc (collapsePuns l) = nc l := by
  fun_induction collapsePuns l with
  | case1 => rfl
  | case2 a rest cs tail h hf ih =>
    have e1 := nc_of_trail rest cs tail (.punct "=") rfl h
    simp [ih, Item.isComment, e1]
  | case3 a rest cs tail h hf ih =>
    have e1 := nc_of_trail rest cs tail (.punct "=") rfl h
    simp [ih, Item.isComment, e1]
  | case4 a rest h ih => simp [ih, Item.isComment]
  | case5 x rest h ih => simp [ih]

theorem nc_essential (l : List Item) : nc (essential l) = nc l := by
  fun_induction essential l with
  | case1 => rfl
  | case2 t rest ih => simp [ih, Item.isComment]
  | case3 t rest ih => simp [ih, Item.isComment]
  | case4 x rest h1 h2 ih => simp [ih]

theorem isComment_canonComment (x : Item) : (canonComment x).isComment = x.isComment := by
  unfold canonComment
  split <;> rfl

theorem nc_map_canonComment (l : List Item) : nc (l.map canonComment) = nc l := by
  induction l with
  | nil => rfl
  | cons x rest ih => simp [ih, isComment_canonComment]

/-- normalisation never drops or adds a comment -/
theorem nc_normalize (l : List Item) : nc (normalize l) = nc l := by
  unfold normalize
  rw [nc_map_canonComment, nc_essential, nc_collapsePuns, nc_markUnits]

/-- streams with different numbers of comments are never accepted -/
theorem accounts_ne_ok_of_nc_ne (inp out : List Item) (h : nc inp ≠ nc out) :
    accounts inp out ≠ .ok := by
  intro hok
  have e := ((accounts_ok_iff_pf inp out).mp hok).1
  have := congrArg List.length e
  rw [comments_length, comments_length, nc_normalize, nc_normalize] at this
  exact h this

theorem dropped_comment_detected_pf : dropped_comment_detected := by
  intro l₁ l₂ k t
  apply accounts_ne_ok_of_nc_ne
  simp [Item.isComment]

theorem duplicated_comment_detected_pf : duplicated_comment_detected := by
  intro l₁ l₂ k t
  apply accounts_ne_ok_of_nc_ne
  simp [Item.isComment]

end ZV.Account

/-! ## Comment capture (`ZV.Model.Capture`) -/

namespace ZV.Capture
open ZV.Props.C13.Statement

/-! ### `minBy` under the `leading_key` order -/

theorem minBy_eq_none {lt : Entity → Entity → Bool} {l : List Entity}
    (h : minBy lt l = none) : l = [] := by
  cases l with
  | nil => rfl
  | cons e rest =>
    unfold minBy at h
    split at h
    · cases h
    · split at h <;> cases h

theorem leadingLt_start_le {a b : Entity} (h : leadingLt a b = true) : a.start ≤ b.start := by
  unfold leadingLt at h
  simp only [Bool.or_eq_true, Bool.and_eq_true, decide_eq_true_eq, beq_iff_eq] at h
  omega

theorem start_le_of_not_leadingLt {a b : Entity} (h : ¬ leadingLt a b = true) :
    b.start ≤ a.start := by
  unfold leadingLt at h
  simp only [Bool.or_eq_true, Bool.and_eq_true, decide_eq_true_eq, beq_iff_eq] at h
  omega

/-- the chosen entity is one of the candidates, and none of them starts earlier -/
theorem minBy_leadingLt_spec {l : List Entity} {m : Entity} (h : minBy leadingLt l = some m) :
    m ∈ l ∧ ∀ x ∈ l, m.start ≤ x.start := by
  induction l generalizing m with
  | nil => cases h
  | cons e rest ih =>
    unfold minBy at h
    split at h
    · rename_i hnone
      cases h
      have := minBy_eq_none hnone
      subst this
      simp
    · rename_i m' hsome
      obtain ⟨hmem, hmin⟩ := ih hsome
      split at h
      · rename_i hlt
        cases h
        refine ⟨List.mem_cons_of_mem _ hmem, ?_⟩
        intro x hx
        rcases List.mem_cons.mp hx with rfl | hx
        · exact leadingLt_start_le hlt
        · exact hmin x hx
      · rename_i hlt
        cases h
        refine ⟨List.mem_cons_self, ?_⟩
        intro x hx
        rcases List.mem_cons.mp hx with rfl | hx
        · exact Nat.le_refl _
        · exact Nat.le_trans (start_le_of_not_leadingLt hlt) (hmin x hx)

theorem leadingAnchor_spec {es : List Entity} {c : Comment} {e : Entity}
    (h : leadingAnchor es c = some e) :
    e ∈ es ∧ c.stop ≤ e.start ∧ ∀ e' ∈ es, c.stop ≤ e'.start → e.start ≤ e'.start := by
  unfold leadingAnchor at h
  obtain ⟨hmem, hmin⟩ := minBy_leadingLt_spec h
  rw [List.mem_filter] at hmem
  refine ⟨hmem.1, by simpa using hmem.2, ?_⟩
  intro e' he' hle
  exact hmin e' (List.mem_filter.mpr ⟨he', by simpa using hle⟩)

/-! ### the split at the first comment without an anchor -/

/-- the three components of `capture`, for the split index of `firstTrailing` -/
theorem capture_eq (es : List Entity) (cs : List Comment) :
    capture es cs =
      { leading := ((cs.take (firstTrailing es cs)).map fun c => (leadingAnchor es c, c)).filterMap
          fun (a, c) => a.map (·, c)
        trailing := cs.drop (firstTrailing es cs)
        panicked := ((cs.take (firstTrailing es cs)).map fun c => (leadingAnchor es c, c)).any
          fun (a, _) => a.isNone } := rfl

/-- every comment in front of the split has an anchor -/
theorem anchored_before_split (es : List Entity) (cs : List Comment) :
    ∀ c ∈ cs.take (firstTrailing es cs), (leadingAnchor es c).isSome = true := by
  induction cs with
  | nil => simp
  | cons c rest ih =>
    unfold firstTrailing
    split
    · simp
    · rename_i hc
      intro c' hc'
      rw [List.take_succ_cons, List.mem_cons] at hc'
      rcases hc' with rfl | hc'
      · cases ha : leadingAnchor es c' with
        | none => rw [ha] at hc; exact absurd rfl hc
        | some a => rfl
      · exact ih c' hc'

theorem any_isNone_of_anchored (es : List Entity) (l : List Comment)
    (h : ∀ c ∈ l, (leadingAnchor es c).isSome = true) :
    ((l.map fun c => (leadingAnchor es c, c)).any fun (a, _) => a.isNone) = false := by
  induction l with
  | nil => rfl
  | cons c rest ih =>
    have hc := h c (by simp)
    have hrest := ih fun c' hc' => h c' (by simp [hc'])
    obtain ⟨e, he⟩ := Option.isSome_iff_exists.mp hc
    simp only [List.map_cons, List.any_cons, hrest, he]
    rfl

theorem leading_comments_of_anchored (es : List Entity) (l : List Comment)
    (h : ∀ c ∈ l, (leadingAnchor es c).isSome = true) :
    (((l.map fun c => (leadingAnchor es c, c)).filterMap
        fun (a, c) => a.map (·, c)).map (·.2)) = l := by
  induction l with
  | nil => rfl
  | cons c rest ih =>
    have hc := h c (by simp)
    have hrest := ih fun c' hc' => h c' (by simp [hc'])
    obtain ⟨e, he⟩ := Option.isSome_iff_exists.mp hc
    rw [List.map_cons, List.filterMap_cons_some (b := (e, c)) (by simp [he]), List.map_cons, hrest]

theorem capture_partition_pf : capture_partition := by
  intro es cs
  rw [capture_eq]
  have h := anchored_before_split es cs
  refine ⟨any_isNone_of_anchored es _ h, ?_⟩
  simp only
  rw [leading_comments_of_anchored es _ h, List.take_append_drop]

theorem mem_leading {es : List Entity} {l : List Comment} {e : Entity} {c : Comment}
    (h : (e, c) ∈ (l.map fun c => (leadingAnchor es c, c)).filterMap fun (a, c) => a.map (·, c)) :
    leadingAnchor es c = some e := by
  rw [List.mem_filterMap] at h
  obtain ⟨⟨a, c'⟩, hmem, hmap⟩ := h
  rw [List.mem_map] at hmem
  obtain ⟨c'', _, heq⟩ := hmem
  cases heq
  simp only [Option.map_eq_some_iff, Prod.mk.injEq] at hmap
  obtain ⟨a, ha, rfl, rfl⟩ := hmap
  exact ha

theorem leading_anchor_is_next_pf : leading_anchor_is_next := by
  intro es cs e c h
  rw [capture_eq] at h
  exact leadingAnchor_spec (mem_leading h)

end ZV.Capture

#print axioms ZV.Account.firstDiff_none_iff_pf
#print axioms ZV.Account.accounts_refl_pf
#print axioms ZV.Account.accounts_ok_iff_pf
#print axioms ZV.Account.essential_ignores_layout_tokens_pf
#print axioms ZV.Account.dropped_comment_detected_pf
#print axioms ZV.Account.duplicated_comment_detected_pf
#print axioms ZV.Capture.capture_partition_pf
#print axioms ZV.Capture.leading_anchor_is_next_pf
