/-
Proofs of the C17 statements (`ZV/Props/C17Statements.lean`): invariants by induction over every
reachable state of the transition systems of `ZV/Model/Concurrency.lean`.
-/
import ZV.Model.Concurrency
import ZV.Props.C17Statements

namespace ZV.Concurrency
open ZV.Props.C17

/-! ## the key-space counter -/

/-- The invariant of the counter. -/
structure Ks.Inv (s : Ks) : Prop where
  le : s.counter ≤ u64Max
  dense : s.issued.map (·.2) = ((List.range s.counter).map (· + 1)).reverse

theorem Ks.inv_of_reach {s : Ks} (h : Ks.Reach s) : Ks.Inv s := by
  induction h with
  | init => exact ⟨Nat.zero_le _, by simp [Ks.init]⟩
  | step _ hstep ih =>
    cases hstep with
    | load t v h hv => exact ⟨ih.le, ih.dense⟩
    | casOk t v h hv hlt =>
      refine ⟨by simp only; omega, ?_⟩
      simp only [List.map_cons]
      rw [ih.dense, hv, List.range_succ, List.map_append, List.reverse_append]
      simp
    | casFail t v v' h hlt hv => exact ⟨ih.le, ih.dense⟩
    | exhausted t h => exact ⟨ih.le, ih.dense⟩

theorem mem_dense {n x : Nat} (h : x ∈ ((List.range n).map (· + 1)).reverse) : 0 < x ∧ x ≤ n := by
  simp only [List.mem_reverse, List.mem_map, List.mem_range] at h
  obtain ⟨a, ha, rfl⟩ := h
  omega

theorem nodup_dense (n : Nat) : (((List.range n).map (· + 1)).reverse).Nodup := by
  induction n with
  | zero => simp
  | succ n ih =>
    rw [List.range_succ, List.map_append, List.reverse_append]
    simp only [List.map_cons, List.map_nil, List.reverse_cons, List.reverse_nil, List.nil_append,
      List.singleton_append, List.nodup_cons]
    refine ⟨fun hmem => ?_, ih⟩
    have := (mem_dense hmem).2
    omega

theorem keyspace_unique_pf : Statement.keyspace_unique := by
  intro s h
  have inv := Ks.inv_of_reach h
  refine ⟨?_, ?_, inv.dense, inv.le⟩
  · rw [inv.dense]; exact nodup_dense _
  · intro x hx
    have hm : x.2 ∈ s.issued.map (·.2) := List.mem_map_of_mem hx
    rw [inv.dense] at hm
    have := mem_dense hm
    have := inv.le
    omega

theorem keyspace_exhaustion_pf : Statement.keyspace_exhaustion := by
  intro s s' hmax hstep
  cases hstep with
  | load t v h hv => exact ⟨hmax, rfl⟩
  | casOk t v h hv hlt => omega
  | casFail t v v' h hlt hv => exact ⟨hmax, rfl⟩
  | exhausted t h => exact ⟨hmax, rfl⟩

/-! ## allocators -/

theorem idx_inj_of_nodup_map {α β : Type} (f : α → β) :
    ∀ (l : List α), (l.map f).Nodup → ∀ (i j : Nat) (a b : α), l[i]? = some a → l[j]? = some b →
      f a = f b → i = j := by
  intro l
  induction l with
  | nil => intro _ i j a b hi; simp at hi
  | cons x xs ih =>
    intro hnd i j a b hi hj hab
    simp only [List.map_cons, List.nodup_cons] at hnd
    cases i with
    | zero =>
      cases j with
      | zero => rfl
      | succ j =>
        simp only [List.getElem?_cons_zero, Option.some.injEq] at hi
        simp only [List.getElem?_cons_succ] at hj
        subst hi
        exact absurd (hab ▸ List.mem_map_of_mem (List.mem_of_getElem? hj)) hnd.1
    | succ i =>
      cases j with
      | zero =>
        simp only [List.getElem?_cons_zero, Option.some.injEq] at hj
        simp only [List.getElem?_cons_succ] at hi
        subst hj
        exact absurd (hab ▸ List.mem_map_of_mem (List.mem_of_getElem? hi)) hnd.1
      | succ j =>
        simp only [List.getElem?_cons_succ] at hi hj
        exact congrArg Nat.succ (ih hnd.2 i j a b hi hj hab)

theorem nodup_reverse' {α : Type} {l : List α} (h : l.Nodup) : l.reverse.Nodup := by
  unfold List.Nodup at *
  rw [List.pairwise_reverse]
  exact h.imp (fun hab => fun hba => hab hba.symm)

/-- The invariant of the allocator system. -/
structure Sys.Inv (s : Sys) : Prop where
  ks : Ks.Reach s.ks
  spaces : s.allocs.map (·.keySpace) = (s.ks.issued.map (·.2)).reverse
  owned : ∀ e ∈ s.ids, ∃ al, s.allocs[e.1]? = some al ∧ al.keySpace = e.2.1 ∧ e.2.2 < al.next
  bound : ∀ al ∈ s.allocs, al.next ≤ u32Max
  nodup : (s.ids.map (fun e => (e.2.1, e.2.2))).Nodup

theorem Sys.Inv.spaces_nodup {s : Sys} (inv : Sys.Inv s) : (s.allocs.map (·.keySpace)).Nodup := by
  rw [inv.spaces]
  exact nodup_reverse' (keyspace_unique_pf s.ks inv.ks).1

theorem Sys.inv_of_reach {s : Sys} (h : Sys.Reach s) : Sys.Inv s := by
  induction h with
  | init => exact ⟨Ks.Reach.init, by simp [Sys.init, Ks.init], by simp [Sys.init], by simp [Sys.init],
      by simp [Sys.init]⟩
  | @step s0 s1 _ hstep ih =>
    cases hstep with
    | internal hk hsame =>
      exact ⟨Ks.Reach.step ih.ks hk, by simp only [hsame]; exact ih.spaces, ih.owned, ih.bound, ih.nodup⟩
    | @create k' t v hk hnew =>
      refine ⟨Ks.Reach.step ih.ks hk, ?_, ?_, ?_, ih.nodup⟩
      · simp only [hnew, List.map_append, List.map_cons, List.map_nil, List.reverse_cons, ih.spaces]
      · intro e he
        obtain ⟨al, hal, h1, h2⟩ := ih.owned e he
        refine ⟨al, ?_, h1, h2⟩
        have hlt : e.1 < _ := (List.getElem?_eq_some_iff.mp hal).1
        simp only [List.getElem?_append_left hlt, hal]
      · intro al hal
        simp only [List.mem_append, List.mem_singleton] at hal
        rcases hal with hal | rfl
        · exact ih.bound al hal
        · exact Nat.zero_le _
    | alloc a al hal hlt =>
      have hlen : a < _ := (List.getElem?_eq_some_iff.mp hal).1
      refine ⟨ih.ks, ?_, ?_, ?_, ?_⟩
      · -- key spaces unchanged by `set`
        have : (s0.allocs.set a { al with next := al.next + 1 }).map Allocator.keySpace =
            s0.allocs.map Allocator.keySpace := by
          rw [List.map_set]
          apply List.ext_getElem?
          intro j
          by_cases hj : a = j
          · subst hj
            have hget : s0.allocs[a] = al := (List.getElem?_eq_some_iff.mp hal).2
            simp [hlen, hget]
          · simp [hj]
        simp only [this]; exact ih.spaces
      · intro e he
        simp only [List.mem_cons] at he
        rcases he with rfl | he
        · exact ⟨{ al with next := al.next + 1 }, by simp [hlen], rfl, Nat.lt_succ_self _⟩
        · obtain ⟨al', hal', h1, h2⟩ := ih.owned e he
          by_cases hea : a = e.1
          · subst hea
            rw [hal] at hal'; cases hal'
            exact ⟨{ al with next := al.next + 1 }, by simp [hlen], h1, by simp only; omega⟩
          · exact ⟨al', by simp [hea, hal'], h1, h2⟩
      · intro al' hal'
        rcases List.mem_or_eq_of_mem_set hal' with h | rfl
        · exact ih.bound al' h
        · simp only; omega
      · simp only [List.map_cons, List.nodup_cons]
        refine ⟨fun hmem => ?_, ih.nodup⟩
        simp only [List.mem_map] at hmem
        obtain ⟨e, he, heq⟩ := hmem
        obtain ⟨al', hal', h1, h2⟩ := ih.owned e he
        have hk : al'.keySpace = al.keySpace := by
          have := congrArg Prod.fst heq; simp only at this; omega
        have hr : e.2.2 = al.next := by
          have := congrArg Prod.snd heq; simpa using this
        have hidx : e.1 = a := idx_inj_of_nodup_map (·.keySpace) _ ih.spaces_nodup _ _ _ _ hal' hal hk
        rw [hidx, hal] at hal'; cases hal'
        omega

theorem id_injective_pf : Statement.id_injective := by
  intro s h
  have inv := Sys.inv_of_reach h
  refine ⟨inv.nodup, ?_, ?_⟩
  · intro e he
    obtain ⟨al, hal, h1, h2⟩ := inv.owned e he
    have hmem : al ∈ s.allocs := List.mem_of_getElem? hal
    have hks : al.keySpace ∈ s.ks.issued.map (·.2) := by
      have : al.keySpace ∈ s.allocs.map (·.keySpace) := List.mem_map_of_mem hmem
      rw [inv.spaces] at this
      exact List.mem_reverse.mp this
    simp only [List.mem_map] at hks
    obtain ⟨x, hx, hxe⟩ := hks
    have := (keyspace_unique_pf s.ks inv.ks).2.1 x hx
    have := inv.bound al hmem
    refine ⟨by omega, by omega, by omega⟩
  · intro i j a b hi hj hab
    exact idx_inj_of_nodup_map (·.keySpace) _ inv.spaces_nodup i j a b hi hj hab

/-! ## `CompactKeySpaceId` -/

theorem compact_roundtrip_pf : Statement.compact_roundtrip := by
  intro v hv
  have hv' : v < 2 ^ 64 := by simp only [u64Max] at hv; omega
  have hhigh : v >>> 32 < 2 ^ 32 := by
    rw [Nat.shiftRight_eq_div_pow]
    exact Nat.div_lt_of_lt_mul (by omega)
  have hlow : v % 2 ^ 32 < 2 ^ 32 := Nat.mod_lt _ (by decide)
  refine ⟨?_, ?_, hlow⟩
  · simp only [compactExpand, compactHigh, compactLow, Nat.mod_eq_of_lt hhigh]
    rw [← Nat.shiftLeft_add_eq_or_of_lt hlow, Nat.shiftLeft_eq, Nat.shiftRight_eq_div_pow]
    have := Nat.div_add_mod v (2 ^ 32)
    omega
  · simp only [compactHigh]; exact Nat.mod_lt _ (by decide)

/-! ## the snapshot protocol -/

section Proto
variable {File Content Root Result : Type} [DecidableEq File]
variable (analyze : (File → Content) → Root → Result) (docOf : Root → File)

/-- What is known of a snapshot together with the document revision read before it was taken. -/
def SnapOk (s : St File Content Root Result) (snap : Snap File Content) (root : Root)
    (d : Option Nat) : Prop :=
  snap.rev ≤ s.rev ∧ snap.contents = s.hist snap.rev ∧ (∀ n, d = some n → n < s.nextDocRev) ∧
  (∀ n, d = some n → s.docRev (docOf root) = some n →
    snap.contents (docOf root) = s.inputs (docOf root))

def TaskOk (s : St File Content Root Result) : Task File Content Root Result → Prop
  | .requested _ d => ∀ n, d = some n → n < s.nextDocRev
  | .running snap root d => SnapOk docOf s snap root d
  | .completed snap root d res => SnapOk docOf s snap root d ∧ res = analyze snap.contents root
  | _ => True

def CommitOk (s : St File Content Root Result) (c : Commit File Content Root Result) : Prop :=
  c.snap.rev ≤ c.atRev ∧ c.atRev ≤ s.rev ∧ c.snap.contents = s.hist c.snap.rev ∧
  c.result = analyze c.snap.contents c.root ∧
  (∀ n, c.d = some n → c.snap.contents (docOf c.root) = s.hist c.atRev (docOf c.root))

structure Inv (s : St File Content Root Result) : Prop where
  hist : s.hist s.rev = s.inputs
  docs : ∀ f n, s.docRev f = some n → n < s.nextDocRev
  tasks : ∀ t ∈ s.tasks, TaskOk analyze docOf s t
  log : ∀ c ∈ s.log, CommitOk analyze docOf s c

/-- A write (with or without a new document revision) keeps what is known of every snapshot. -/
theorem SnapOk.write {s : St File Content Root Result} {snap : Snap File Content} {root : Root}
    {d : Option Nat} (h : SnapOk docOf s snap root d) (f : File) (c : Content) (nd : Option Nat)
    (next' : Nat) (hnext : s.nextDocRev ≤ next') (hnd : ∀ n, nd = some n → s.nextDocRev ≤ n) :
    SnapOk docOf { s with inputs := upd s.inputs f c, rev := s.rev + 1,
                          hist := upd s.hist (s.rev + 1) (upd s.inputs f c),
                          docRev := upd s.docRev f nd, nextDocRev := next' } snap root d := by
  obtain ⟨h1, h2, h3, h4⟩ := h
  refine ⟨Nat.le_succ_of_le h1, ?_, fun n hn => Nat.lt_of_lt_of_le (h3 n hn) hnext, ?_⟩
  · simp only
    rw [upd_other _ _ _ _ (by omega)]
    exact h2
  · intro n hn hdoc
    simp only at hdoc ⊢
    by_cases hf : docOf root = f
    · rw [hf, upd_same] at hdoc
      have := hnd n hdoc
      have := h3 n hn
      omega
    · rw [upd_other _ _ _ _ hf] at hdoc ⊢
      exact h4 n hn hdoc

theorem Inv.write {s : St File Content Root Result} (inv : Inv analyze docOf s) (f : File) (c : Content)
    (nd : Option Nat) (next' : Nat) (hnext : s.nextDocRev ≤ next')
    (hnd : ∀ n, nd = some n → s.nextDocRev ≤ n ∧ n < next') :
    Inv analyze docOf { s with inputs := upd s.inputs f c, rev := s.rev + 1,
                               hist := upd s.hist (s.rev + 1) (upd s.inputs f c),
                               docRev := upd s.docRev f nd, nextDocRev := next' } := by
  refine ⟨by simp, ?_, ?_, ?_⟩
  · intro g n hg
    simp only at hg ⊢
    by_cases hgf : g = f
    · rw [hgf, upd_same] at hg
      exact (hnd n hg).2
    · rw [upd_other _ _ _ _ hgf] at hg
      exact Nat.lt_of_lt_of_le (inv.docs g n hg) hnext
  · intro t ht
    have ok := inv.tasks t ht
    cases t with
    | requested root d => exact fun n hn => Nat.lt_of_lt_of_le (ok n hn) hnext
    | running snap root d => exact SnapOk.write docOf ok f c nd next' hnext (fun n hn => (hnd n hn).1)
    | completed snap root d res =>
      exact ⟨SnapOk.write docOf ok.1 f c nd next' hnext (fun n hn => (hnd n hn).1), ok.2⟩
    | cancelled => trivial
    | committed => trivial
    | superseded => trivial
  · intro cm hcm
    obtain ⟨h1, h2, h3, h4, h5⟩ := inv.log cm hcm
    refine ⟨h1, Nat.le_succ_of_le h2, ?_, h4, ?_⟩
    · simp only
      rw [upd_other _ _ _ _ (by omega)]
      exact h3
    · intro n hn
      simp only
      rw [upd_other _ _ _ _ (by omega)]
      exact h5 n hn

omit [DecidableEq File] in
/-- Replacing one task, everything else untouched. -/
theorem Inv.setTask {s : St File Content Root Result} (inv : Inv analyze docOf s) (i : Nat)
    (t : Task File Content Root Result) (ht : TaskOk analyze docOf s t) :
    Inv analyze docOf { s with tasks := s.tasks.set i t } := by
  refine ⟨inv.hist, inv.docs, ?_, inv.log⟩
  intro t' ht'
  rcases List.mem_or_eq_of_mem_set ht' with h | rfl
  · exact inv.tasks t' h
  · exact ht

theorem inv_of_reach {c0 : File → Content} {s : St File Content Root Result}
    (h : Reach analyze docOf c0 s) : Inv analyze docOf s := by
  induction h with
  | init => exact ⟨rfl, by simp [St.init], by simp [St.init], by simp [St.init]⟩
  | @step s0 s1 _ hstep ih =>
    cases hstep with
    | request root =>
      refine ⟨ih.hist, ih.docs, ?_, ih.log⟩
      intro t ht
      simp only [List.mem_append, List.mem_singleton] at ht
      rcases ht with ht | rfl
      · exact ih.tasks t ht
      · exact fun n hn => ih.docs _ n hn
    | snapshot i root d h =>
      have ok := ih.tasks _ (List.mem_of_getElem? h)
      exact Inv.setTask analyze docOf ih i _ ⟨Nat.le_refl _, ih.hist.symm, ok, fun _ _ _ => rfl⟩
    | edit f c hq =>
      exact Inv.write analyze docOf ih f c (some s0.nextDocRev) (s0.nextDocRev + 1) (Nat.le_succ _)
        (fun n hn => by cases hn; exact ⟨Nat.le_refl _, Nat.lt_succ_self _⟩)
    | close f c hq =>
      exact Inv.write analyze docOf ih f c none s0.nextDocRev (Nat.le_refl _) (fun n hn => by cases hn)
    | cancel i snap root d h => exact Inv.setTask analyze docOf ih i _ trivial
    | complete i snap root d h =>
      have ok := ih.tasks _ (List.mem_of_getElem? h)
      exact Inv.setTask analyze docOf ih i _ ⟨ok, rfl⟩
    | commit i snap root d res h hrev =>
      have ok := ih.tasks _ (List.mem_of_getElem? h)
      have base := Inv.setTask analyze docOf ih i .committed trivial
      refine ⟨base.hist, base.docs, base.tasks, ?_⟩
      intro cm hcm
      simp only [List.mem_cons] at hcm
      rcases hcm with rfl | hcm
      · obtain ⟨⟨h1, h2, _, h4⟩, h5⟩ := ok
        refine ⟨h1, Nat.le_refl _, h2, h5, ?_⟩
        intro n hn
        simp only at hn ⊢
        rw [ih.hist]
        exact h4 n hn (hrev.trans hn)
      · exact ih.log cm hcm
    | supersede i snap root d res h hrev => exact Inv.setTask analyze docOf ih i _ trivial

end Proto

/-! ## the input registry -/

section Reg
variable {Path Content Result : Type} [DecidableEq Path]
variable (analyze : (Path → Content) → Result) (reads : List Path)

/-- The invariant of the shared-registry variant. -/
structure RInv (s : RSt Path Content Result) : Prop where
  fresh : ∀ p i, s.owner p = some i → i < s.nextInput
  changed : ∀ i, s.changedAt i ≤ s.rev
  memoDeps : ∀ m, s.memo = some m → m.verifiedAt ≤ s.rev ∧
    (∀ p ∈ reads, ∃ e ∈ m.deps, e.1 = p) ∧ ∀ e ∈ m.deps, s.owner e.1 = some e.2
  memoValue : ∀ m, s.memo = some m → (∀ e ∈ m.deps, s.changedAt e.2 ≤ m.verifiedAt) →
    m.value = analyze (s.effective s.owner)
  seen : ∀ rs ∈ s.snaps, rs.2 = s.effective s.owner
  returned : ∀ rw ∈ s.returned, rw.1 = rw.2

variable (hlocal : ∀ c c' : Path → Content, (∀ p ∈ reads, c p = c' p) → analyze c = analyze c')

include hlocal in
theorem rinv_of_reach {disk : Path → Content} {c0 : Content} {s : RSt Path Content Result}
    (h : RReach analyze true reads disk c0 s) : RInv analyze reads s := by
  induction h with
  | init =>
    exact ⟨by simp [RSt.init], by simp [RSt.init], by simp [RSt.init], by simp [RSt.init],
      by simp [RSt.init], by simp [RSt.init]⟩
  | @step s0 s1 _ hstep ih =>
    cases hstep with
    | snapshot =>
      refine ⟨ih.fresh, ih.changed, ih.memoDeps, ih.memoValue, ?_, ih.returned⟩
      intro rs hrs
      simp only [List.mem_append, List.mem_singleton] at hrs
      rcases hrs with hrs | rfl
      · exact ih.seen rs hrs
      · rfl
    | editKnown p i c hq hp =>
      refine ⟨ih.fresh, ?_, ?_, ?_, by simp [hq], ih.returned⟩
      · intro j
        simp only
        by_cases hj : j = i
        · rw [hj, upd_same]; exact Nat.le_refl _
        · rw [upd_other _ _ _ _ hj]; exact Nat.le_succ_of_le (ih.changed j)
      · intro m hm
        obtain ⟨h1, h2, h3⟩ := ih.memoDeps m hm
        exact ⟨Nat.le_succ_of_le h1, h2, h3⟩
      · intro m hm hvalid
        obtain ⟨h1, h2, h3⟩ := ih.memoDeps m hm
        -- the edited input is not among the memo's dependencies
        have hni : ∀ e ∈ m.deps, e.2 ≠ i := by
          intro e he hei
          have := hvalid e he
          simp only [hei, upd_same] at this
          omega
        have hold : ∀ e ∈ m.deps, s0.changedAt e.2 ≤ m.verifiedAt := by
          intro e he
          have := hvalid e he
          simp only at this
          rwa [upd_other _ _ _ _ (hni e he)] at this
        rw [ih.memoValue m hm hold]
        apply hlocal
        intro q hq'
        obtain ⟨e, he, heq⟩ := h2 q hq'
        have hown := h3 e he
        rw [heq] at hown
        simp only [RSt.effective, hown]
        rw [upd_other _ _ _ _ (hni e he)]
    | editNew p c hq hp =>
      refine ⟨?_, ?_, ?_, ?_, by simp [hq], ih.returned⟩
      · intro q i hqi
        simp only at hqi ⊢
        by_cases hqp : q = p
        · rw [hqp, upd_same] at hqi; cases hqi; exact Nat.lt_succ_self _
        · rw [upd_other _ _ _ _ hqp] at hqi
          exact Nat.lt_succ_of_lt (ih.fresh q i hqi)
      · intro j
        simp only
        by_cases hj : j = s0.nextInput
        · rw [hj, upd_same]; exact Nat.le_refl _
        · rw [upd_other _ _ _ _ hj]; exact Nat.le_succ_of_le (ih.changed j)
      · intro m hm
        obtain ⟨h1, h2, h3⟩ := ih.memoDeps m hm
        refine ⟨Nat.le_succ_of_le h1, h2, ?_⟩
        intro e he
        have hown := h3 e he
        have hne : e.1 ≠ p := fun h => by rw [h, hp] at hown; cases hown
        simp only
        rw [upd_other _ _ _ _ hne]; exact hown
      · intro m hm hvalid
        obtain ⟨h1, h2, h3⟩ := ih.memoDeps m hm
        have hlt : ∀ e ∈ m.deps, e.2 < s0.nextInput := fun e he => ih.fresh _ _ (h3 e he)
        have hold : ∀ e ∈ m.deps, s0.changedAt e.2 ≤ m.verifiedAt := by
          intro e he
          have := hvalid e he
          simp only at this
          rwa [upd_other _ _ _ _ (Nat.ne_of_lt (hlt e he))] at this
        rw [ih.memoValue m hm hold]
        apply hlocal
        intro q hq'
        obtain ⟨e, he, heq⟩ := h2 q hq'
        have hown := h3 e he
        rw [heq] at hown
        have hne : q ≠ p := fun h => by rw [h, hp] at hown; cases hown
        simp only [RSt.effective, hown, upd_other _ _ _ _ hne]
        rw [upd_other _ _ _ _ (Nat.ne_of_lt (hlt e he))]
    | load k reg seen p hk hp hnone =>
      simp only [if_true] at hnone ⊢
      -- loading a path registers an input holding the disk text: nothing anybody sees changes
      have heff : ∀ q, RSt.effective
          { s0 with value := upd s0.value s0.nextInput (s0.disk p),
                    changedAt := upd s0.changedAt s0.nextInput s0.rev,
                    nextInput := s0.nextInput + 1,
                    owner := upd s0.owner p (some s0.nextInput) }
          (upd s0.owner p (some s0.nextInput)) q = s0.effective s0.owner q := by
        intro q
        by_cases hqp : q = p
        · simp only [RSt.effective, hqp, upd_same, hnone]
        · simp only [RSt.effective, upd_other _ _ _ _ hqp]
          cases hq : s0.owner q with
          | none => rfl
          | some j =>
            simp only
            rw [upd_other _ _ _ _ (Nat.ne_of_lt (ih.fresh q j hq))]
      have heff' := funext heff
      refine ⟨?_, ?_, ?_, ?_, ?_, ih.returned⟩
      · intro q i hqi
        simp only at hqi ⊢
        by_cases hqp : q = p
        · rw [hqp, upd_same] at hqi; cases hqi; exact Nat.lt_succ_self _
        · rw [upd_other _ _ _ _ hqp] at hqi
          exact Nat.lt_succ_of_lt (ih.fresh q i hqi)
      · intro j
        simp only
        by_cases hj : j = s0.nextInput
        · rw [hj, upd_same]; exact Nat.le_refl _
        · rw [upd_other _ _ _ _ hj]; exact ih.changed j
      · intro m hm
        obtain ⟨h1, h2, h3⟩ := ih.memoDeps m hm
        refine ⟨h1, h2, ?_⟩
        intro e he
        have hown := h3 e he
        have hne : e.1 ≠ p := fun h => by rw [h, hnone] at hown; cases hown
        simp only
        rw [upd_other _ _ _ _ hne]; exact hown
      · intro m hm hvalid
        obtain ⟨h1, h2, h3⟩ := ih.memoDeps m hm
        have hlt : ∀ e ∈ m.deps, e.2 < s0.nextInput := fun e he => ih.fresh _ _ (h3 e he)
        have hold : ∀ e ∈ m.deps, s0.changedAt e.2 ≤ m.verifiedAt := by
          intro e he
          have := hvalid e he
          simp only at this
          rwa [upd_other _ _ _ _ (Nat.ne_of_lt (hlt e he))] at this
        rw [ih.memoValue m hm hold]
        exact congrArg analyze heff'.symm
      · intro rs hrs
        rw [ih.seen rs hrs]
        exact heff'.symm
    | compute k reg seen ids hk hids hstale =>
      simp only [if_true] at hids ⊢
      have hseen : seen = s0.effective s0.owner := ih.seen _ (List.mem_of_getElem? hk)
      refine ⟨ih.fresh, ih.changed, ?_, ?_, ih.seen, ?_⟩
      · intro m hm
        simp only [Option.some.injEq] at hm
        subst hm
        refine ⟨Nat.le_refl _, ?_, hids.2⟩
        intro q hq'
        rw [← hids.1] at hq'
        simp only [List.mem_map] at hq'
        obtain ⟨e, he, heq⟩ := hq'
        exact ⟨e, he, heq⟩
      · intro m hm _
        simp only [Option.some.injEq] at hm
        subst hm
        rfl
      · intro rw hrw
        simp only [List.mem_cons] at hrw
        rcases hrw with rfl | hrw
        · simp only [hseen]
        · exact ih.returned rw hrw
    | reuse k reg seen m hk hm hvalid =>
      have hseen : seen = s0.effective s0.owner := ih.seen _ (List.mem_of_getElem? hk)
      obtain ⟨h1, h2, h3⟩ := ih.memoDeps m hm
      refine ⟨ih.fresh, ih.changed, ?_, ?_, ih.seen, ?_⟩
      · intro m' hm'
        simp only [Option.some.injEq] at hm'
        subst hm'
        exact ⟨Nat.le_refl _, h2, h3⟩
      · intro m' hm' _
        simp only [Option.some.injEq] at hm'
        subst hm'
        exact ih.memoValue m hm hvalid
      · intro rw hrw
        simp only [List.mem_cons] at hrw
        rcases hrw with rfl | hrw
        · simp only [hseen]
          exact ih.memoValue m hm hvalid
        · exact ih.returned rw hrw
    | drop k =>
      refine ⟨ih.fresh, ih.changed, ih.memoDeps, ih.memoValue, ?_, ih.returned⟩
      intro rs hrs
      exact ih.seen rs (List.mem_of_mem_eraseIdx hrs)

end Reg

theorem registry_shared_consistent_pf : Statement.registry_shared_consistent := by
  intro Path Content Result _ analyze reads disk c0 hlocal s h
  exact (rinv_of_reach analyze reads hlocal h).returned

/-- The failing history of the copying variant, step by step. -/
theorem registry_copied_stale_pf : Statement.registry_copied_stale := by
  have r0 : RReach (fun c : Unit → Nat => c ()) false [()] (fun _ => 0) 0 (RSt.init (fun _ => 0) 0) :=
    RReach.init
  -- a snapshot is taken; it loads the imported file itself (into ITS registry) and analyses
  have r1 := RReach.step r0 RStep.snapshot
  have r2 := RReach.step r1 (RStep.load 0 (fun _ => none) (fun _ => 0) () rfl (by simp) rfl)
  have r3 := RReach.step r2 (RStep.compute 0 (upd (fun _ => none) () (some 0)) (fun _ => 0) [((), 0)] rfl
    ⟨rfl, by simp [upd]⟩ (by intro m hm; cases hm))
  have r4 := RReach.step r3 (RStep.drop 0)
  -- the owner edits the file: it never registered it, so this is a NEW input
  have r5 := RReach.step r4 (RStep.editNew () 5 rfl rfl)
  -- the next snapshot sees 5, but the memo's dependency (input 0) did not change
  have r6 := RReach.step r5 RStep.snapshot
  have r7 := RReach.step r6 (RStep.reuse 0 _ _ _ rfl rfl (by simp [upd, RSt.init]))
  refine ⟨_, r7, _, List.mem_cons_self, ?_⟩
  simp [RSt.effective, RSt.init, upd]

theorem snapshot_isolation_pf : Statement.snapshot_isolation := by
  intro File Content Root Result _ analyze docOf c0 s h
  have inv := inv_of_reach analyze docOf h
  refine ⟨inv.hist, ?_⟩
  intro snap root d res hmem
  obtain ⟨⟨h1, h2, _, _⟩, h5⟩ := inv.tasks _ hmem
  exact ⟨h1, h2, by rw [h5, h2]⟩

theorem commit_consistent_pf : Statement.commit_consistent := by
  intro File Content Root Result _ analyze docOf c0 s h
  have inv := inv_of_reach analyze docOf h
  intro c hc
  obtain ⟨h1, h2, h3, h4, h5⟩ := inv.log c hc
  refine ⟨h1, h2, by rw [h4, h3], ?_, ?_⟩
  · intro n hn
    rw [← h3]
    exact h5 n hn
  · intro heq
    rw [h4, h3, heq]

end ZV.Concurrency
