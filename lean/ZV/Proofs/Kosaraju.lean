/-
C08 — Kosaraju: the fuel always suffices and the labelling is exactly the strongly connected
components, for every hash-map iteration order.

Proof outline.
* Forward pass: the invariant `FInv` says that every edge out of a finished node goes to a visited
  node, and that for finished `u`, `v` with `Reach u v` some node strongly connected to `u` sits
  at or before `v` in the finish stack, unless `u` reaches a node that is visited but unfinished.
* Backward pass: the labelled set stays closed under predecessors; a search from the first
  unlabelled stack element therefore only collects nodes strongly connected to it.
Core Lean only.
-/
import ZV.Model.Graph
import ZV.Model.GraphSpec
import ZV.Props.C08Statements

namespace ZV.Graph

/-! ### Sets, maps, schedulers -/

theorem IdSet.mem_insert {s : IdSet} {x y : Nat} : y ∈ IdSet.insert s x ↔ y ∈ s ∨ y = x := by
  unfold IdSet.insert
  split
  · rename_i h
    have hx : x ∈ s := by simpa using h
    constructor
    · exact Or.inl
    · rintro (h' | rfl)
      · exact h'
      · exact hx
  · simp

theorem IdSet.mem_union {s t : IdSet} {y : Nat} : y ∈ IdSet.union s t ↔ y ∈ s ∨ y ∈ t := by
  unfold IdSet.union
  induction t generalizing s with
  | nil => simp
  | cons a t ih =>
    rw [List.foldl_cons, ih, IdSet.mem_insert]
    simp only [List.mem_cons]
    constructor
    · rintro ((h | h) | h)
      · exact Or.inl h
      · exact Or.inr (Or.inl h)
      · exact Or.inr (Or.inr h)
    · rintro (h | h | h)
      · exact Or.inl (Or.inl h)
      · exact Or.inl (Or.inr h)
      · exact Or.inr h

theorem Sched.Valid.mem_iff {σ : Sched} (hσ : σ.Valid) {xs : List Nat} {x : Nat} :
    x ∈ σ xs ↔ x ∈ xs := (hσ xs).mem_iff

theorem mem_contains {s : List Nat} {x : Nat} : s.contains x = true ↔ x ∈ s := by simp

/-! ### `allNodes` -/

theorem mem_allNodes_foldl (l : AMap) (acc : IdSet) (x : Nat) :
    x ∈ l.foldl (fun acc (e : Nat × IdSet) => IdSet.union (IdSet.insert acc e.1) e.2) acc ↔
      x ∈ acc ∨ ∃ e ∈ l, x = e.1 ∨ x ∈ e.2 := by
  induction l generalizing acc with
  | nil => simp
  | cons a l ih =>
    rw [List.foldl_cons, ih, IdSet.mem_union, IdSet.mem_insert]
    simp only [List.mem_cons, exists_eq_or_imp]
    constructor
    · rintro ((((h | h) | h)) | h)
      · exact Or.inl h
      · exact Or.inr (Or.inl (Or.inl h))
      · exact Or.inr (Or.inl (Or.inr h))
      · exact Or.inr (Or.inr h)
    · rintro (h | (h | h) | h)
      · exact Or.inl (Or.inl (Or.inl h))
      · exact Or.inl (Or.inl (Or.inr h))
      · exact Or.inl (Or.inr h)
      · exact Or.inr h

theorem mem_allNodes {deps : AMap} {x : Nat} :
    x ∈ allNodes deps ↔ ∃ e ∈ deps, x = e.1 ∨ x ∈ e.2 := by
  have := mem_allNodes_foldl deps [] x
  simp only [List.not_mem_nil, false_or] at this
  exact this

/-! ### `query` -/

theorem AMap.mem_query {m : AMap} {k x : Nat} (h : x ∈ m.query k) : ∃ s, (k, s) ∈ m ∧ x ∈ s := by
  unfold AMap.query AMap.get? at h
  cases hf : m.find? (·.1 == k) with
  | none => rw [hf] at h; simp at h
  | some e =>
    rw [hf] at h
    have hmem := List.mem_of_find?_eq_some hf
    have hk := List.find?_some hf
    have hk' : e.1 = k := by simpa using hk
    refine ⟨e.2, ?_, by simpa using h⟩
    rw [← hk']
    exact hmem

theorem AMap.query_of_mem {m : AMap} {k : Nat} {s : IdSet} (hnd : m.keys.Nodup) (h : (k, s) ∈ m) :
    m.query k = s := by
  induction m with
  | nil => simp at h
  | cons e m ih =>
    unfold AMap.keys at hnd
    rw [List.map_cons, List.nodup_cons] at hnd
    rcases List.mem_cons.1 h with h | h
    · subst h
      simp [AMap.query, AMap.get?]
    · have hne : e.1 ≠ k := by
        intro he
        apply hnd.1
        rw [he]
        exact List.mem_map.2 ⟨(k, s), h, rfl⟩
      have := ih hnd.2 h
      unfold AMap.query AMap.get? at this ⊢
      rw [List.find?_cons_of_neg (by simpa using hne)]
      exact this

theorem edge_mem_allNodes_left {deps : AMap} {u v : Nat} (h : Edge deps u v) : u ∈ allNodes deps := by
  obtain ⟨s, hs, _⟩ := AMap.mem_query h
  exact mem_allNodes.2 ⟨(u, s), hs, Or.inl rfl⟩

theorem edge_mem_allNodes_right {deps : AMap} {u v : Nat} (h : Edge deps u v) : v ∈ allNodes deps := by
  obtain ⟨s, hs, hv⟩ := AMap.mem_query h
  exact mem_allNodes.2 ⟨(u, s), hs, Or.inr hv⟩

theorem edge_mem_keys {deps : AMap} {u v : Nat} (h : Edge deps u v) : u ∈ deps.keys := by
  obtain ⟨s, hs, _⟩ := AMap.mem_query h
  exact List.mem_map.2 ⟨(u, s), hs, rfl⟩

/-- With unique keys, a node is a key or the target of an edge. -/
theorem allNodes_cases {deps : AMap} (hwf : WfGraph deps) {x : Nat} (h : x ∈ allNodes deps) :
    x ∈ deps.keys ∨ ∃ k, k ∈ deps.keys ∧ Edge deps k x := by
  obtain ⟨e, he, hx | hx⟩ := mem_allNodes.1 h
  · exact Or.inl (List.mem_map.2 ⟨e, he, hx.symm⟩)
  · refine Or.inr ⟨e.1, List.mem_map.2 ⟨e, he, rfl⟩, ?_⟩
    unfold Edge
    rw [AMap.query_of_mem hwf.1 (s := e.2) he]
    exact hx

/-! ### `add` and `reverse` -/

theorem find?_map_key (m : AMap) (f : Nat × IdSet → Nat × IdSet) (hf : ∀ e, (f e).1 = e.1) (k : Nat) :
    (m.map f).find? (·.1 == k) = (m.find? (·.1 == k)).map f := by
  induction m with
  | nil => rfl
  | cons e m ih =>
    rw [List.map_cons]
    by_cases he : e.1 = k
    · rw [List.find?_cons_of_pos (by simpa [hf] using he), List.find?_cons_of_pos (by simpa using he)]
      rfl
    · rw [List.find?_cons_of_neg (by simpa [hf] using he), List.find?_cons_of_neg (by simpa using he)]
      exact ih

theorem AMap.hasKey_iff {m : AMap} {k : Nat} : m.hasKey k = true ↔ ∃ e, m.find? (·.1 == k) = some e := by
  unfold AMap.hasKey
  induction m with
  | nil => simp
  | cons e m ih =>
    by_cases he : e.1 = k
    · rw [List.find?_cons_of_pos (by simpa using he)]
      simp [he]
    · rw [List.find?_cons_of_neg (by simpa using he)]
      rw [← ih]
      simp [he]

theorem AMap.mem_query_add {m : AMap} {k : Nat} {vs : List Nat} {k' x : Nat} :
    x ∈ (m.add k vs).query k' ↔ x ∈ m.query k' ∨ (k' = k ∧ x ∈ vs) := by
  unfold AMap.add
  split
  · rename_i hk
    obtain ⟨e, he⟩ := AMap.hasKey_iff.1 hk
    unfold AMap.query AMap.get?
    rw [find?_map_key m _ (by intro e; split; split <;> rfl) k']
    by_cases hkk : k' = k
    · subst hkk
      have hek : e.1 = k' := by simpa using List.find?_some he
      rw [he]
      simp [hek, IdSet.mem_union]
    · cases hf : m.find? (·.1 == k') with
      | none => simp [hkk]
      | some e' =>
        have hek : e'.1 = k' := by simpa using List.find?_some hf
        have : e'.1 ≠ k := by rw [hek]; exact hkk
        simp [hkk, this]
  · rename_i hk
    have hnone : m.find? (·.1 == k) = none := by
      cases hf : m.find? (·.1 == k) with
      | none => rfl
      | some e => exact absurd (AMap.hasKey_iff.2 ⟨e, hf⟩) hk
    unfold AMap.query AMap.get?
    rw [List.find?_append]
    by_cases hkk : k' = k
    · subst hkk
      rw [hnone]
      simp [IdSet.mem_union]
    · have : ([(k, IdSet.union [] vs)] : AMap).find? (·.1 == k') = none := by
        rw [List.find?_cons_of_neg (by simpa using fun h => hkk h.symm)]
        rfl
      rw [this]
      simp [hkk]

theorem mem_query_foldl {α : Type} (f : AMap → α → AMap) (Q : α → Prop) (k' x : Nat) (l : List α)
    (h : ∀ r a, a ∈ l → (x ∈ (f r a).query k' ↔ x ∈ r.query k' ∨ Q a)) (r0 : AMap) :
    x ∈ (l.foldl f r0).query k' ↔ x ∈ r0.query k' ∨ ∃ a ∈ l, Q a := by
  induction l generalizing r0 with
  | nil => simp
  | cons a l ih =>
    rw [List.foldl_cons, ih (fun r b hb => h r b (List.mem_cons_of_mem _ hb)),
      h r0 a List.mem_cons_self]
    simp only [List.mem_cons, exists_eq_or_imp]
    exact or_assoc

theorem mem_query_reverse {σ : Sched} (hσ : σ.Valid) {deps : AMap} {u v : Nat} :
    u ∈ (reverse σ deps).query v ↔ Edge deps u v := by
  unfold reverse
  rw [mem_query_foldl _ (fun id => v ∈ deps.query id ∧ u = id) v u]
  · constructor
    · rintro (h | ⟨id, _, h, rfl⟩)
      · simp [AMap.query, AMap.get?] at h
      · exact h
    · intro h
      exact Or.inr ⟨u, hσ.mem_iff.2 (edge_mem_keys h), h, rfl⟩
  · intro r id _
    rw [mem_query_foldl _ (fun dep => v = dep ∧ u = id) v u]
    · rw [AMap.mem_query_add]
      constructor
      · rintro ((h | ⟨_, h⟩) | ⟨dep, hd, rfl, rfl⟩)
        · exact Or.inl h
        · simp at h
        · exact Or.inr ⟨hσ.mem_iff.1 hd, rfl⟩
      · rintro (h | ⟨h, rfl⟩)
        · exact Or.inl (Or.inl h)
        · exact Or.inr ⟨v, hσ.mem_iff.2 h, rfl, rfl⟩
    · intro r' dep _
      rw [AMap.mem_query_add]
      simp

/-! ### Reachability -/

theorem Reach.trans {deps : AMap} {u v w : Nat} (h1 : Reach deps u v) (h2 : Reach deps v w) :
    Reach deps u w := by
  induction h1 with
  | refl => exact h2
  | step e _ ih => exact Reach.step e (ih h2)

theorem Reach.single {deps : AMap} {u v : Nat} (h : Edge deps u v) : Reach deps u v :=
  Reach.step h (Reach.refl v)

theorem Reach.snoc {deps : AMap} {u v w : Nat} (h1 : Reach deps u v) (h2 : Edge deps v w) :
    Reach deps u w := h1.trans (Reach.single h2)

theorem Reach.mem_allNodes {deps : AMap} {u v : Nat} (h : Reach deps u v) (hv : v ∈ allNodes deps) :
    u ∈ allNodes deps := by
  cases h with
  | refl => exact hv
  | step e _ => exact edge_mem_allNodes_left e

theorem SameScc.refl (deps : AMap) (u : Nat) : SameScc deps u u := ⟨Reach.refl u, Reach.refl u⟩

theorem SameScc.symm {deps : AMap} {u v : Nat} (h : SameScc deps u v) : SameScc deps v u := ⟨h.2, h.1⟩

theorem SameScc.trans {deps : AMap} {u v w : Nat} (h1 : SameScc deps u v) (h2 : SameScc deps v w) :
    SameScc deps u w := ⟨h1.1.trans h2.1, h2.2.trans h1.2⟩

/-! ### Counting unmarked nodes (the fuel measure) -/

theorem filter_length_le (l : List Nat) (p q : Nat → Bool) (h : ∀ x, x ∈ l → p x = true → q x = true) :
    (l.filter p).length ≤ (l.filter q).length := by
  induction l with
  | nil => simp
  | cons a l ih =>
    have ih := ih (fun x hx => h x (List.mem_cons_of_mem _ hx))
    have ha := h a List.mem_cons_self
    rw [List.filter_cons, List.filter_cons]
    cases hp : p a with
    | false =>
      cases hq : q a with
      | false => simpa using ih
      | true => simp only [Bool.false_eq_true, if_false, if_true, List.length_cons]; omega
    | true =>
      rw [ha hp]
      simpa using ih

theorem filter_length_lt (l : List Nat) (p q : Nat → Bool) (h : ∀ x, x ∈ l → p x = true → q x = true)
    (a : Nat) (hal : a ∈ l) (hpa : p a = false) (hqa : q a = true) :
    (l.filter p).length < (l.filter q).length := by
  induction l with
  | nil => simp at hal
  | cons b l ih =>
    have hle := filter_length_le l p q (fun x hx => h x (List.mem_cons_of_mem _ hx))
    have hb := h b List.mem_cons_self
    rw [List.filter_cons, List.filter_cons]
    rcases List.mem_cons.1 hal with rfl | hal'
    · rw [hpa, hqa]
      simp only [Bool.false_eq_true, if_false, if_true, List.length_cons]
      omega
    · have ih := ih (fun x hx => h x (List.mem_cons_of_mem _ hx)) hal'
      cases hp : p b with
      | false =>
        cases hq : q b with
        | false => simpa using ih
        | true => simp only [Bool.false_eq_true, if_false, if_true, List.length_cons]; omega
      | true =>
        rw [hb hp]
        simpa using ih

/-- Number of nodes of the graph that are not in `vis`. -/
def cnt (deps : AMap) (vis : List Nat) : Nat :=
  ((allNodes deps).filter (fun x => !vis.contains x)).length

theorem cnt_mono {deps : AMap} {vis vis' : List Nat} (h : ∀ x, x ∈ vis → x ∈ vis') :
    cnt deps vis' ≤ cnt deps vis := by
  unfold cnt
  apply filter_length_le
  intro x _ hx
  have hx' : x ∉ vis' := by simpa using hx
  have : x ∉ vis := fun hv => hx' (h x hv)
  simpa using this

theorem cnt_lt {deps : AMap} {vis vis' : List Nat} (h : ∀ x, x ∈ vis → x ∈ vis') {a : Nat}
    (ha : a ∈ allNodes deps) (h1 : a ∉ vis) (h2 : a ∈ vis') : cnt deps vis' < cnt deps vis := by
  unfold cnt
  apply filter_length_lt _ _ _ _ a ha
  · simpa using h2
  · simpa using h1
  · intro x _ hx
    have hx' : x ∉ vis' := by simpa using hx
    have : x ∉ vis := fun hv => hx' (h x hv)
    simpa using this

theorem cnt_le_length (deps : AMap) (vis : List Nat) : cnt deps vis ≤ (allNodes deps).length :=
  List.length_filter_le _ _

/-! ### Forward pass -/

/-- Visited but not finished. -/
def Gray (st : Fwd) (g : Nat) : Prop := g ∈ st.visited ∧ g ∉ st.stack

structure FInv (deps : AMap) (st : Fwd) : Prop where
  sub : ∀ x, x ∈ st.stack → x ∈ st.visited
  nodes : ∀ x, x ∈ st.visited → x ∈ allNodes deps
  closed : ∀ x, x ∈ st.stack → ∀ y, Edge deps x y → y ∈ st.visited
  order : ∀ pre v post, st.stack = pre ++ v :: post → ∀ u, u ∈ st.stack → Reach deps u v →
    (∃ u', (u' ∈ pre ∨ u' = v) ∧ SameScc deps u u') ∨ (∃ g, Gray st g ∧ Reach deps u g)

/-- `st'` extends `st` by finished nodes satisfying `R` that were unvisited in `st`. -/
structure FExt (deps : AMap) (R : Nat → Prop) (st st' : Fwd) : Prop where
  fuel : st'.outOfFuel = st.outOfFuel
  stack : ∃ new, st'.stack = new ++ st.stack ∧ ∀ x, x ∈ new → R x ∧ x ∉ st.visited
  mono : ∀ x, x ∈ st.visited → x ∈ st'.visited
  fresh : ∀ x, x ∈ st'.visited → x ∈ st.visited ∨ x ∈ st'.stack
  inv : FInv deps st → FInv deps st'

theorem FExt.refl (deps : AMap) (R : Nat → Prop) (st : Fwd) : FExt deps R st st :=
  ⟨rfl, ⟨[], rfl, by simp⟩, fun _ h => h, fun _ h => Or.inl h, id⟩

theorem FExt.trans {deps : AMap} {R : Nat → Prop} {a b c : Fwd} (h1 : FExt deps R a b)
    (h2 : FExt deps R b c) : FExt deps R a c := by
  obtain ⟨n1, hs1, hn1⟩ := h1.stack
  obtain ⟨n2, hs2, hn2⟩ := h2.stack
  refine ⟨h2.fuel.trans h1.fuel, ⟨n2 ++ n1, by rw [hs2, hs1, List.append_assoc], ?_⟩,
    fun x h => h2.mono x (h1.mono x h), ?_, fun h => h2.inv (h1.inv h)⟩
  · intro x hx
    rcases List.mem_append.1 hx with hx | hx
    · exact ⟨(hn2 x hx).1, fun hv => (hn2 x hx).2 (h1.mono x hv)⟩
    · exact hn1 x hx
  · intro x hx
    rcases h2.fresh x hx with h | h
    · rcases h1.fresh x h with h | h
      · exact Or.inl h
      · refine Or.inr ?_
        rw [hs2]
        exact List.mem_append_right _ h
    · exact Or.inr h

theorem FExt.weaken {deps : AMap} {R R' : Nat → Prop} {a b : Fwd} (h : FExt deps R a b)
    (hR : ∀ x, R x → R' x) : FExt deps R' a b := by
  obtain ⟨n, hs, hn⟩ := h.stack
  exact ⟨h.fuel, ⟨n, hs, fun x hx => ⟨hR x (hn x hx).1, (hn x hx).2⟩⟩, h.mono, h.fresh, h.inv⟩

/-- From a finished node one stays among finished nodes or reaches a gray node. -/
theorem reach_black {deps : AMap} {st : Fwd}
    (closed : ∀ x, x ∈ st.stack → ∀ y, Edge deps x y → y ∈ st.visited) {u v : Nat}
    (h : Reach deps u v) (hu : u ∈ st.stack) :
    v ∈ st.stack ∨ ∃ g, Gray st g ∧ Reach deps u g := by
  induction h with
  | refl => exact Or.inl hu
  | @step u w v e _ ih =>
    by_cases hw : w ∈ st.stack
    · rcases ih hw with h | ⟨g, hg, hr⟩
      · exact Or.inl h
      · exact Or.inr ⟨g, hg, Reach.step e hr⟩
    · exact Or.inr ⟨w, ⟨closed u hu w e, hw⟩, Reach.single e⟩

/-- The loop over the successors (or over the keys at top level). -/
theorem fwd_loop {deps : AMap} {R : Nat → Prop} {f : Nat} (dfs : Fwd → Nat → Fwd)
    (IH : ∀ st id, id ∉ st.visited → id ∈ allNodes deps → cnt deps st.visited ≤ f → R id →
      FExt deps R st (dfs st id) ∧ id ∈ (dfs st id).visited)
    (l : List Nat) : ∀ st, (∀ n, n ∈ l → R n ∧ n ∈ allNodes deps) → cnt deps st.visited ≤ f →
      FExt deps R st
        (l.foldl (fun st next => if st.visited.contains next then st else dfs st next) st) ∧
      ∀ n, n ∈ l →
        n ∈ (l.foldl (fun st next => if st.visited.contains next then st else dfs st next) st).visited := by
  induction l with
  | nil => intro st _ _; exact ⟨FExt.refl _ _ _, by simp⟩
  | cons a l ih =>
    intro st hl hc
    rw [List.foldl_cons]
    have hl' : ∀ n, n ∈ l → R n ∧ n ∈ allNodes deps := fun n hn => hl n (List.mem_cons_of_mem _ hn)
    by_cases ha : a ∈ st.visited
    · rw [if_pos (mem_contains.2 ha)]
      obtain ⟨h1, h2⟩ := ih st hl' hc
      refine ⟨h1, ?_⟩
      intro n hn
      rcases List.mem_cons.1 hn with rfl | hn
      · exact h1.mono _ ha
      · exact h2 n hn
    · rw [if_neg (by simpa using ha)]
      obtain ⟨hR, hA⟩ := hl a List.mem_cons_self
      obtain ⟨e1, e2⟩ := IH st a ha hA hc hR
      obtain ⟨h1, h2⟩ := ih (dfs st a) hl' (Nat.le_trans (cnt_mono e1.mono) hc)
      refine ⟨e1.trans h1, ?_⟩
      intro n hn
      rcases List.mem_cons.1 hn with rfl | hn
      · exact h1.mono _ e2
      · exact h2 n hn

theorem dfsForward_succ (σ : Sched) (deps : AMap) (fuel : Nat) (st : Fwd) (id : Nat) :
    dfsForward σ deps (fuel + 1) st id =
      { (σ (deps.query id)).foldl
          (fun (st : Fwd) next =>
            if st.visited.contains next then st else dfsForward σ deps fuel st next)
          { st with visited := IdSet.insert st.visited id } with
        stack := id :: ((σ (deps.query id)).foldl
          (fun (st : Fwd) next =>
            if st.visited.contains next then st else dfsForward σ deps fuel st next)
          { st with visited := IdSet.insert st.visited id }).stack } := rfl

/-- Finishing `id` after its successors have been processed. -/
theorem finv_push {deps : AMap} {st st2 : Fwd} {id : Nat} (hid : id ∉ st.visited)
    (hA : id ∈ allNodes deps) (hst : FInv deps st)
    (hext : FExt deps (Reach deps id) { st with visited := IdSet.insert st.visited id } st2)
    (hsucc : ∀ y, Edge deps id y → y ∈ st2.visited) :
    FInv deps { st2 with stack := id :: st2.stack } := by
  have hst1 : FInv deps { st with visited := IdSet.insert st.visited id } := by
    refine ⟨fun x hx => IdSet.mem_insert.2 (Or.inl (hst.sub x hx)), ?_,
      fun x hx y e => IdSet.mem_insert.2 (Or.inl (hst.closed x hx y e)), ?_⟩
    · intro x hx
      rcases IdSet.mem_insert.1 hx with h | rfl
      · exact hst.nodes x h
      · exact hA
    · intro pre v post hs u hu hr
      rcases hst.order pre v post hs u hu hr with h | ⟨g, ⟨hg1, hg2⟩, hgr⟩
      · exact Or.inl h
      · exact Or.inr ⟨g, ⟨IdSet.mem_insert.2 (Or.inl hg1), hg2⟩, hgr⟩
  have hst2 : FInv deps st2 := hext.inv hst1
  obtain ⟨new, hs2, hnew⟩ := hext.stack
  have hs2 : st2.stack = new ++ st.stack := hs2
  have hidv : id ∈ st2.visited := hext.mono id (IdSet.mem_insert.2 (Or.inr rfl))
  have hnew' : ∀ x, x ∈ new → Reach deps id x ∧ x ≠ id ∧ x ∉ st.visited := by
    intro x hx
    obtain ⟨h1, h2⟩ := hnew x hx
    have h2 : x ∉ IdSet.insert st.visited id := h2
    rw [IdSet.mem_insert] at h2
    exact ⟨h1, fun h => h2 (Or.inr h), fun h => h2 (Or.inl h)⟩
  -- gray nodes of `st` stay gray
  have hgray : ∀ g, Gray st g → Gray { st2 with stack := id :: st2.stack } g := by
    intro g ⟨hg1, hg2⟩
    refine ⟨hext.mono g (IdSet.mem_insert.2 (Or.inl hg1)), ?_⟩
    show g ∉ id :: st2.stack
    rw [hs2]
    intro h
    rcases List.mem_cons.1 h with rfl | h
    · exact hid hg1
    · rcases List.mem_append.1 h with h | h
      · exact (hnew' g h).2.2 hg1
      · exact hg2 h
  -- a finished node that reaches `id`
  have H : ∀ u, u ∈ st2.stack → Reach deps u id →
      SameScc deps u id ∨ ∃ g, Gray { st2 with stack := id :: st2.stack } g ∧ Reach deps u g := by
    intro u hu hr
    rw [hs2] at hu
    rcases List.mem_append.1 hu with hu | hu
    · exact Or.inl ⟨hr, (hnew' u hu).1⟩
    · rcases reach_black hst.closed hr hu with h | ⟨g, hg, hgr⟩
      · exact absurd (hst.sub id h) hid
      · exact Or.inr ⟨g, hgray g hg, hgr⟩
  have G2 : ∀ g, Gray st2 g → g = id ∨ Gray { st2 with stack := id :: st2.stack } g := by
    intro g ⟨hg1, hg2⟩
    by_cases hgi : g = id
    · exact Or.inl hgi
    · refine Or.inr ⟨hg1, ?_⟩
      show g ∉ id :: st2.stack
      intro h
      rcases List.mem_cons.1 h with h | h
      · exact hgi h
      · exact hg2 h
  refine ⟨?_, hst2.nodes, ?_, ?_⟩
  · intro x hx
    rcases List.mem_cons.1 hx with rfl | hx
    · exact hidv
    · exact hst2.sub x hx
  · intro x hx y e
    rcases List.mem_cons.1 hx with rfl | hx
    · exact hsucc y e
    · exact hst2.closed x hx y e
  · intro pre v post hs u hu hr
    have hs : id :: st2.stack = pre ++ v :: post := hs
    cases pre with
    | nil =>
      rw [List.nil_append] at hs
      injection hs with hv hpost
      subst hv
      rcases List.mem_cons.1 hu with rfl | hu
      · exact Or.inl ⟨_, Or.inr rfl, SameScc.refl _ _⟩
      · rcases H u hu hr with h | h
        · exact Or.inl ⟨_, Or.inr rfl, h⟩
        · exact Or.inr h
    | cons p pre2 =>
      rw [List.cons_append] at hs
      injection hs with hp hrest
      subst hp
      rcases List.mem_cons.1 hu with rfl | hu
      · exact Or.inl ⟨_, Or.inl List.mem_cons_self, SameScc.refl _ _⟩
      · rcases hst2.order pre2 v post hrest u hu hr with ⟨u', hu', hs'⟩ | ⟨g, hg, hgr⟩
        · refine Or.inl ⟨u', ?_, hs'⟩
          rcases hu' with h | h
          · exact Or.inl (List.mem_cons_of_mem _ h)
          · exact Or.inr h
        · rcases G2 g hg with hgi | hg'
          · rw [hgi] at hgr
            rcases H u hu hgr with h | h
            · exact Or.inl ⟨_, Or.inl List.mem_cons_self, h⟩
            · exact Or.inr h
          · exact Or.inr ⟨g, hg', hgr⟩

theorem dfsForward_spec {σ : Sched} (hσ : σ.Valid) (deps : AMap) :
    ∀ fuel st id, id ∉ st.visited → id ∈ allNodes deps → cnt deps st.visited ≤ fuel →
      FExt deps (Reach deps id) st (dfsForward σ deps fuel st id) ∧
        id ∈ (dfsForward σ deps fuel st id).visited := by
  intro fuel
  induction fuel with
  | zero =>
    intro st id hid hA hc
    have := cnt_lt (deps := deps) (vis := st.visited) (vis' := id :: st.visited)
      (fun x hx => List.mem_cons_of_mem _ hx) hA hid List.mem_cons_self
    omega
  | succ fuel ih =>
    intro st id hid hA hc
    rw [dfsForward_succ]
    have hc1 : cnt deps (IdSet.insert st.visited id) ≤ fuel := by
      have := cnt_lt (deps := deps) (vis := st.visited) (vis' := IdSet.insert st.visited id)
        (fun x hx => IdSet.mem_insert.2 (Or.inl hx)) hA hid (IdSet.mem_insert.2 (Or.inr rfl))
      omega
    obtain ⟨hext, hvis⟩ := fwd_loop (deps := deps) (R := Reach deps id) (f := fuel)
      (dfsForward σ deps fuel)
      (fun st' n hn hnA hcn hR => by
        obtain ⟨h1, h2⟩ := ih st' n hn hnA hcn
        exact ⟨h1.weaken (fun x hx => hR.trans hx), h2⟩)
      (σ (deps.query id)) { st with visited := IdSet.insert st.visited id }
      (fun n hn => by
        have he : Edge deps id n := hσ.mem_iff.1 hn
        exact ⟨Reach.single he, edge_mem_allNodes_right he⟩)
      hc1
    generalize (σ (deps.query id)).foldl
      (fun st next => if st.visited.contains next then st else dfsForward σ deps fuel st next)
      { st with visited := IdSet.insert st.visited id } = st2 at hext hvis
    have hsucc : ∀ y, Edge deps id y → y ∈ st2.visited := fun y e => hvis y (hσ.mem_iff.2 e)
    obtain ⟨new, hs2, hnew⟩ := hext.stack
    have hs2 : st2.stack = new ++ st.stack := hs2
    have hidv : id ∈ st2.visited := hext.mono id (IdSet.mem_insert.2 (Or.inr rfl))
    refine ⟨⟨hext.fuel, ⟨id :: new, ?_, ?_⟩, ?_, ?_, ?_⟩, hidv⟩
    · show id :: st2.stack = id :: new ++ st.stack
      rw [hs2]; rfl
    · intro x hx
      rcases List.mem_cons.1 hx with rfl | hx
      · exact ⟨Reach.refl _, hid⟩
      · obtain ⟨h1, h2⟩ := hnew x hx
        exact ⟨h1, fun h => h2 (IdSet.mem_insert.2 (Or.inl h))⟩
    · intro x hx
      exact hext.mono x (IdSet.mem_insert.2 (Or.inl hx))
    · intro x hx
      show x ∈ st.visited ∨ x ∈ id :: st2.stack
      rcases hext.fresh x hx with h | h
      · rcases IdSet.mem_insert.1 h with h | rfl
        · exact Or.inl h
        · exact Or.inr List.mem_cons_self
      · exact Or.inr (List.mem_cons_of_mem _ h)
    · intro hst
      exact finv_push hid hA hst hext hsucc

/-- The state after the forward pass of `kosarajuBelongs`. -/
def fwdRun (σ : Sched) (deps : AMap) : Fwd :=
  (σ deps.keys).foldl
    (fun st id =>
      if st.visited.contains id then st else dfsForward σ deps ((allNodes deps).length + 1) st id)
    ({} : Fwd)

theorem fwdRun_spec {σ : Sched} (hσ : σ.Valid) {deps : AMap} (hwf : WfGraph deps) :
    (fwdRun σ deps).outOfFuel = false ∧
    (∀ x, x ∈ (fwdRun σ deps).stack ↔ x ∈ allNodes deps) ∧
    (∀ pre r post, (fwdRun σ deps).stack = pre ++ r :: post → ∀ x, x ∈ allNodes deps →
      Reach deps x r → ∃ x', (x' ∈ pre ∨ x' = r) ∧ SameScc deps x x') := by
  obtain ⟨hext, hvis⟩ := fwd_loop (deps := deps) (R := fun _ => True)
    (f := (allNodes deps).length + 1)
    (dfsForward σ deps ((allNodes deps).length + 1))
    (fun st' n hn hnA hcn _ => by
      obtain ⟨h1, h2⟩ := dfsForward_spec hσ deps _ st' n hn hnA hcn
      exact ⟨h1.weaken (fun _ _ => trivial), h2⟩)
    (σ deps.keys) ({} : Fwd)
    (fun n hn => by
      refine ⟨trivial, ?_⟩
      obtain ⟨e, he, hk⟩ := List.mem_map.1 (hσ.mem_iff.1 hn)
      exact mem_allNodes.2 ⟨e, he, Or.inl hk.symm⟩)
    (Nat.le_succ_of_le (cnt_le_length _ _))
  have hinv : FInv deps (fwdRun σ deps) := by
    apply hext.inv
    refine ⟨?_, ?_, ?_, ?_⟩
    · intro x hx; exact absurd hx List.not_mem_nil
    · intro x hx; exact absurd hx List.not_mem_nil
    · intro x hx; exact absurd hx List.not_mem_nil
    · intro pre v post hs
      have hs : ([] : List Nat) = pre ++ v :: post := hs
      cases pre <;> simp at hs
  have hnogray : ∀ x, x ∈ (fwdRun σ deps).visited → x ∈ (fwdRun σ deps).stack := by
    intro x hx
    rcases hext.fresh x hx with h | h
    · exact absurd h List.not_mem_nil
    · exact h
  have hall : ∀ x, x ∈ (fwdRun σ deps).stack ↔ x ∈ allNodes deps := by
    intro x
    constructor
    · intro hx
      exact hinv.nodes x (hinv.sub x hx)
    · intro hx
      rcases allNodes_cases hwf hx with h | ⟨k, hk, he⟩
      · exact hnogray x (hvis x (hσ.mem_iff.2 h))
      · exact hnogray x (hinv.closed k (hnogray k (hvis k (hσ.mem_iff.2 hk))) x he)
  refine ⟨hext.fuel, hall, ?_⟩
  intro pre r post hs x hx hr
  rcases hinv.order pre r post hs x ((hall x).2 hx) hr with h | ⟨g, ⟨hg1, hg2⟩, _⟩
  · exact h
  · exact absurd (hnogray g hg1) hg2

/-! ### Backward pass -/

/-- The labelled nodes. -/
def Bwd.keys (st : Bwd) : List Nat := st.belongs.map (·.1)

theorem Bwd.has_iff {st : Bwd} {id : Nat} : st.has id = true ↔ id ∈ st.keys := by
  unfold Bwd.has Bwd.keys
  simp only [List.any_eq_true, List.mem_map, beq_iff_eq]

/-- `st'` extends `st` by nodes labelled `idx` that satisfy `R`, were unlabelled in `st`, and whose
predecessors are all labelled in `st'`. -/
structure BExt (deps : AMap) (idx : Nat) (R : Nat → Prop) (st st' : Bwd) : Prop where
  fuel : st'.outOfFuel = st.outOfFuel
  ext : ∃ new : List Nat, st'.belongs = st.belongs ++ new.map (fun x => (x, idx)) ∧ new.Nodup ∧
    (∀ x, x ∈ new → R x ∧ x ∉ st.keys ∧ x ∈ allNodes deps) ∧
    (∀ x, x ∈ new → ∀ y, Edge deps y x → y ∈ st'.keys)

theorem keys_of_ext {st st' : Bwd} {new : List Nat} {idx : Nat}
    (h : st'.belongs = st.belongs ++ new.map (fun x => (x, idx))) : st'.keys = st.keys ++ new := by
  have hm : ∀ l : List Nat, List.map ((fun x : Nat × Nat => x.1) ∘ fun x => (x, idx)) l = l := by
    intro l
    induction l with
    | nil => rfl
    | cons a l ih => rw [List.map_cons, ih]; rfl
  unfold Bwd.keys
  rw [h, List.map_append, List.map_map, hm]

theorem BExt.mono {deps : AMap} {idx : Nat} {R : Nat → Prop} {st st' : Bwd}
    (h : BExt deps idx R st st') : ∀ x, x ∈ st.keys → x ∈ st'.keys := by
  obtain ⟨new, hb, _⟩ := h.ext
  intro x hx
  rw [keys_of_ext hb]
  exact List.mem_append_left _ hx

theorem BExt.refl (deps : AMap) (idx : Nat) (R : Nat → Prop) (st : Bwd) : BExt deps idx R st st :=
  ⟨rfl, ⟨[], by simp, List.nodup_nil, by simp, by simp⟩⟩

theorem BExt.trans {deps : AMap} {idx : Nat} {R : Nat → Prop} {a b c : Bwd}
    (h1 : BExt deps idx R a b) (h2 : BExt deps idx R b c) : BExt deps idx R a c := by
  obtain ⟨n1, hb1, hnd1, hp1, hc1⟩ := h1.ext
  obtain ⟨n2, hb2, hnd2, hp2, hc2⟩ := h2.ext
  have hk1 := keys_of_ext hb1
  refine ⟨h2.fuel.trans h1.fuel, ⟨n1 ++ n2, ?_, ?_, ?_, ?_⟩⟩
  · rw [hb2, hb1, List.map_append, List.append_assoc]
  · rw [List.nodup_append]
    refine ⟨hnd1, hnd2, ?_⟩
    intro x hx y hy hxy
    subst hxy
    apply (hp2 x hy).2.1
    rw [hk1]
    exact List.mem_append_right _ hx
  · intro x hx
    rcases List.mem_append.1 hx with hx | hx
    · exact hp1 x hx
    · obtain ⟨h, h', h''⟩ := hp2 x hx
      exact ⟨h, fun hk => h' (h1.mono x hk), h''⟩
  · intro x hx y e
    rcases List.mem_append.1 hx with hx | hx
    · exact h2.mono y (hc1 x hx y e)
    · exact hc2 x hx y e

theorem BExt.weaken {deps : AMap} {idx : Nat} {R R' : Nat → Prop} {a b : Bwd}
    (h : BExt deps idx R a b) (hR : ∀ x, R x → R' x) : BExt deps idx R' a b := by
  obtain ⟨n, hb, hnd, hp, hc⟩ := h.ext
  exact ⟨h.fuel, ⟨n, hb, hnd, fun x hx => ⟨hR x (hp x hx).1, (hp x hx).2⟩, hc⟩⟩

theorem bwd_loop {deps : AMap} {idx : Nat} {R : Nat → Prop} {f : Nat} (dfs : Bwd → Nat → Bwd)
    (IH : ∀ st id, id ∉ st.keys → id ∈ allNodes deps → cnt deps st.keys ≤ f → R id →
      BExt deps idx R st (dfs st id) ∧ id ∈ (dfs st id).keys)
    (l : List Nat) : ∀ st, (∀ n, n ∈ l → R n ∧ n ∈ allNodes deps) → cnt deps st.keys ≤ f →
      BExt deps idx R st
        (l.foldl (fun st next => if st.has next then st else dfs st next) st) ∧
      ∀ n, n ∈ l →
        n ∈ (l.foldl (fun st next => if st.has next then st else dfs st next) st).keys := by
  induction l with
  | nil => intro st _ _; exact ⟨BExt.refl _ _ _ _, by simp⟩
  | cons a l ih =>
    intro st hl hc
    rw [List.foldl_cons]
    have hl' : ∀ n, n ∈ l → R n ∧ n ∈ allNodes deps := fun n hn => hl n (List.mem_cons_of_mem _ hn)
    by_cases ha : a ∈ st.keys
    · rw [if_pos (Bwd.has_iff.2 ha)]
      obtain ⟨h1, h2⟩ := ih st hl' hc
      refine ⟨h1, ?_⟩
      intro n hn
      rcases List.mem_cons.1 hn with rfl | hn
      · exact h1.mono _ ha
      · exact h2 n hn
    · rw [if_neg (fun h => ha (Bwd.has_iff.1 h))]
      obtain ⟨hR, hA⟩ := hl a List.mem_cons_self
      obtain ⟨e1, e2⟩ := IH st a ha hA hc hR
      obtain ⟨h1, h2⟩ := ih (dfs st a) hl' (Nat.le_trans (cnt_mono e1.mono) hc)
      refine ⟨e1.trans h1, ?_⟩
      intro n hn
      rcases List.mem_cons.1 hn with rfl | hn
      · exact h1.mono _ e2
      · exact h2 n hn

theorem dfsBackward_succ (σ : Sched) (rdeps : AMap) (idx fuel : Nat) (st : Bwd) (id : Nat) :
    dfsBackward σ rdeps idx (fuel + 1) st id =
      (σ (rdeps.query id)).foldl
        (fun (st : Bwd) next => if st.has next then st else dfsBackward σ rdeps idx fuel st next)
        { st with belongs := st.belongs ++ [(id, idx)] } := rfl

theorem dfsBackward_spec {σ : Sched} (hσ : σ.Valid) (deps : AMap) (idx : Nat) :
    ∀ fuel st id, id ∉ st.keys → id ∈ allNodes deps → cnt deps st.keys ≤ fuel →
      BExt deps idx (fun x => Reach deps x id) st (dfsBackward σ (reverse σ deps) idx fuel st id) ∧
        id ∈ (dfsBackward σ (reverse σ deps) idx fuel st id).keys := by
  intro fuel
  induction fuel with
  | zero =>
    intro st id hid hA hc
    have := cnt_lt (deps := deps) (vis := st.keys) (vis' := id :: st.keys)
      (fun x hx => List.mem_cons_of_mem _ hx) hA hid List.mem_cons_self
    omega
  | succ fuel ih =>
    intro st id hid hA hc
    rw [dfsBackward_succ]
    have hk1 : Bwd.keys { st with belongs := st.belongs ++ [(id, idx)] } = st.keys ++ [id] :=
      keys_of_ext (new := [id]) rfl
    have hc1 : cnt deps (Bwd.keys { st with belongs := st.belongs ++ [(id, idx)] }) ≤ fuel := by
      rw [hk1]
      have := cnt_lt (deps := deps) (vis := st.keys) (vis' := st.keys ++ [id])
        (fun x hx => List.mem_append_left _ hx) hA hid (List.mem_append_right _ List.mem_cons_self)
      omega
    obtain ⟨hext, hvis⟩ := bwd_loop (deps := deps) (idx := idx) (R := fun x => Reach deps x id)
      (f := fuel) (dfsBackward σ (reverse σ deps) idx fuel)
      (fun st' n hn hnA hcn hR => by
        obtain ⟨h1, h2⟩ := ih st' n hn hnA hcn
        exact ⟨h1.weaken (fun x hx => Reach.trans hx hR), h2⟩)
      (σ ((reverse σ deps).query id)) { st with belongs := st.belongs ++ [(id, idx)] }
      (fun n hn => by
        have he : Edge deps n id := (mem_query_reverse hσ).1 (hσ.mem_iff.1 hn)
        exact ⟨Reach.single he, edge_mem_allNodes_left he⟩)
      hc1
    generalize (σ ((reverse σ deps).query id)).foldl
      (fun (st : Bwd) next =>
        if st.has next then st else dfsBackward σ (reverse σ deps) idx fuel st next)
      { st with belongs := st.belongs ++ [(id, idx)] } = st2 at hext hvis
    obtain ⟨new, hb, hnd, hp, hcl⟩ := hext.ext
    have hb : st2.belongs = (st.belongs ++ [(id, idx)]) ++ new.map (fun x => (x, idx)) := hb
    have hidk : id ∈ st2.keys := hext.mono id (by rw [hk1]; exact List.mem_append_right _ List.mem_cons_self)
    refine ⟨⟨hext.fuel, ⟨id :: new, ?_, ?_, ?_, ?_⟩⟩, hidk⟩
    · rw [hb, List.append_assoc]; rfl
    · rw [List.nodup_cons]
      refine ⟨?_, hnd⟩
      intro hin
      apply (hp id hin).2.1
      rw [hk1]
      exact List.mem_append_right _ List.mem_cons_self
    · intro x hx
      rcases List.mem_cons.1 hx with rfl | hx
      · exact ⟨Reach.refl _, hid, hA⟩
      · obtain ⟨h, h', h''⟩ := hp x hx
        refine ⟨h, fun hk => h' ?_, h''⟩
        rw [hk1]
        exact List.mem_append_left _ hk
    · intro x hx y e
      rcases List.mem_cons.1 hx with rfl | hx
      · exact hvis y (hσ.mem_iff.2 ((mem_query_reverse hσ).2 e))
      · exact hcl x hx y e

/-- One step of the loop over the finish stack in `kosarajuBelongs`. -/
def bwdStep (σ : Sched) (deps : AMap) (st : Bwd × Nat) (id : Nat) : Bwd × Nat :=
  if st.1.has id then st
  else (dfsBackward σ (reverse σ deps) st.2 ((allNodes deps).length + 1) st.1 id, st.2 + 1)

/-- The state after the backward pass of `kosarajuBelongs`. -/
def bwdRun (σ : Sched) (deps : AMap) : Bwd × Nat :=
  (fwdRun σ deps).stack.foldl (bwdStep σ deps) (({} : Bwd), 0)

/-- Invariant of the loop over the finish stack; `pre` is the processed prefix. -/
structure BInv (deps : AMap) (pre : List Nat) (st : Bwd × Nat) : Prop where
  fuel : st.1.outOfFuel = false
  nodup : st.1.keys.Nodup
  nodes : ∀ x, x ∈ st.1.keys → x ∈ allNodes deps
  done : ∀ x, x ∈ pre → x ∈ st.1.keys
  closed : ∀ y, y ∈ st.1.keys → ∀ x, Edge deps x y → x ∈ st.1.keys
  lt : ∀ e, e ∈ st.1.belongs → e.2 < st.2
  scc : ∀ e1, e1 ∈ st.1.belongs → ∀ e2, e2 ∈ st.1.belongs →
    (e1.2 = e2.2 ↔ SameScc deps e1.1 e2.1)

theorem closed_reach {deps : AMap} {L : List Nat}
    (closed : ∀ y, y ∈ L → ∀ x, Edge deps x y → x ∈ L) {x y : Nat} (h : Reach deps x y)
    (hy : y ∈ L) : x ∈ L := by
  induction h with
  | refl => exact hy
  | @step u w v e _ ih => exact closed w (ih hy) u e

theorem binv_skip {deps : AMap} {pre : List Nat} {st : Bwd × Nat} {r : Nat} (h : BInv deps pre st)
    (hr : r ∈ st.1.keys) : BInv deps (pre ++ [r]) st := by
  refine ⟨h.fuel, h.nodup, h.nodes, ?_, h.closed, h.lt, h.scc⟩
  intro x hx
  rcases List.mem_append.1 hx with hx | hx
  · exact h.done x hx
  · rw [List.mem_singleton.1 hx]; exact hr

theorem binv_call {σ : Sched} (hσ : σ.Valid) {deps : AMap} {pre : List Nat} {st : Bwd × Nat} {r : Nat}
    (h : BInv deps pre st) (hr : r ∉ st.1.keys) (hrA : r ∈ allNodes deps)
    (hK : ∀ x, x ∈ allNodes deps → Reach deps x r → ∃ x', (x' ∈ pre ∨ x' = r) ∧ SameScc deps x x') :
    BInv deps (pre ++ [r])
      (dfsBackward σ (reverse σ deps) st.2 ((allNodes deps).length + 1) st.1 r, st.2 + 1) := by
  obtain ⟨hext, hrk⟩ := dfsBackward_spec hσ deps st.2 ((allNodes deps).length + 1) st.1 r hr hrA
    (Nat.le_succ_of_le (cnt_le_length _ _))
  generalize dfsBackward σ (reverse σ deps) st.2 ((allNodes deps).length + 1) st.1 r = b' at hext hrk
  obtain ⟨new, hb, hnd, hp, hcl⟩ := hext.ext
  have hk := keys_of_ext hb
  have hsame : ∀ x, x ∈ new → SameScc deps x r := by
    intro x hx
    obtain ⟨hxr, hxk, hxA⟩ := hp x hx
    obtain ⟨x', hx', hs⟩ := hK x hxA hxr
    rcases hx' with hx' | rfl
    · exact absurd (closed_reach h.closed hs.1 (h.done x' hx')) hxk
    · exact hs
  have hmem : ∀ e, e ∈ b'.belongs → e ∈ st.1.belongs ∨ (e.1 ∈ new ∧ e.2 = st.2) := by
    intro e he
    rw [hb] at he
    rcases List.mem_append.1 he with he | he
    · exact Or.inl he
    · obtain ⟨x, hx, rfl⟩ := List.mem_map.1 he
      exact Or.inr ⟨hx, rfl⟩
  have hold : ∀ e, e ∈ st.1.belongs → e.1 ∈ st.1.keys := fun e he => List.mem_map.2 ⟨e, he, rfl⟩
  have hdiff : ∀ e1 e2 : Nat × Nat, e1 ∈ st.1.belongs → e2.1 ∈ new → ¬ SameScc deps e1.1 e2.1 := by
    intro e1 e2 h1 h2 hs
    exact (hp e2.1 h2).2.1 (closed_reach h.closed hs.2 (hold e1 h1))
  refine ⟨hext.fuel.trans h.fuel, ?_, ?_, ?_, ?_, ?_, ?_⟩
  · show b'.keys.Nodup
    rw [hk, List.nodup_append]
    refine ⟨h.nodup, hnd, ?_⟩
    intro x hx y hy hxy
    subst hxy
    exact (hp x hy).2.1 hx
  · intro x hx
    have hx : x ∈ b'.keys := hx
    rw [hk] at hx
    rcases List.mem_append.1 hx with hx | hx
    · exact h.nodes x hx
    · exact (hp x hx).2.2
  · intro x hx
    show x ∈ b'.keys
    rcases List.mem_append.1 hx with hx | hx
    · exact hext.mono x (h.done x hx)
    · rw [List.mem_singleton.1 hx]; exact hrk
  · intro y hy x e
    have hy : y ∈ b'.keys := hy
    show x ∈ b'.keys
    rw [hk] at hy
    rcases List.mem_append.1 hy with hy | hy
    · exact hext.mono x (h.closed y hy x e)
    · exact hcl y hy x e
  · intro e he
    show e.2 < st.2 + 1
    rcases hmem e he with he | ⟨_, he⟩
    · exact Nat.lt_succ_of_lt (h.lt e he)
    · omega
  · intro e1 he1 e2 he2
    rcases hmem e1 he1 with h1 | ⟨h1, h1'⟩ <;> rcases hmem e2 he2 with h2 | ⟨h2, h2'⟩
    · exact h.scc e1 h1 e2 h2
    · constructor
      · intro heq
        have := h.lt e1 h1
        omega
      · intro hs
        exact absurd hs (hdiff e1 e2 h1 h2)
    · constructor
      · intro heq
        have := h.lt e2 h2
        omega
      · intro hs
        exact absurd hs.symm (hdiff e2 e1 h2 h1)
    · constructor
      · intro _
        exact (hsame _ h1).trans (hsame _ h2).symm
      · intro _
        rw [h1', h2']

theorem bwd_fold {σ : Sched} (hσ : σ.Valid) {deps : AMap} (S : List Nat)
    (hS : ∀ x, x ∈ S → x ∈ allNodes deps)
    (hK : ∀ pre r post, S = pre ++ r :: post → ∀ x, x ∈ allNodes deps → Reach deps x r →
      ∃ x', (x' ∈ pre ∨ x' = r) ∧ SameScc deps x x') :
    ∀ post pre st, S = pre ++ post → BInv deps pre st →
      BInv deps S (post.foldl (bwdStep σ deps) st) := by
  intro post
  induction post with
  | nil =>
    intro pre st hs h
    rw [List.append_nil] at hs
    rw [hs]
    exact h
  | cons r post ih =>
    intro pre st hs h
    rw [List.foldl_cons]
    have hs' : S = (pre ++ [r]) ++ post := by rw [hs, List.append_assoc]; rfl
    apply ih (pre ++ [r]) _ hs'
    unfold bwdStep
    by_cases hr : r ∈ st.1.keys
    · rw [if_pos (Bwd.has_iff.2 hr)]
      exact binv_skip h hr
    · rw [if_neg (fun hh => hr (Bwd.has_iff.1 hh))]
      have hrS : r ∈ S := by rw [hs]; exact List.mem_append_right _ List.mem_cons_self
      exact binv_call hσ h hr (hS r hrS) (hK pre r post hs)

theorem bwdRun_spec {σ : Sched} (hσ : σ.Valid) {deps : AMap} (hwf : WfGraph deps) :
    BInv deps (fwdRun σ deps).stack (bwdRun σ deps) := by
  obtain ⟨_, hall, hK⟩ := fwdRun_spec hσ hwf
  unfold bwdRun
  apply bwd_fold hσ (fwdRun σ deps).stack (fun x hx => (hall x).1 hx) hK (fwdRun σ deps).stack []
    _ rfl
  refine ⟨rfl, List.nodup_nil, ?_, ?_, ?_, ?_, ?_⟩
  · intro x hx; exact absurd hx List.not_mem_nil
  · intro x hx; exact absurd hx List.not_mem_nil
  · intro x hx; exact absurd hx List.not_mem_nil
  · intro x hx; exact absurd hx List.not_mem_nil
  · intro x hx; exact absurd hx List.not_mem_nil

/-! ### `lookup` -/

theorem mem_of_lookup {b : List (Nat × Nat)} {u c : Nat} (h : lookup b u = some c) : (u, c) ∈ b := by
  unfold lookup at h
  cases hf : b.find? (·.1 == u) with
  | none => rw [hf] at h; simp at h
  | some e =>
    rw [hf] at h
    have hmem := List.mem_of_find?_eq_some hf
    have hk : e.1 = u := by simpa using List.find?_some hf
    have hc : e.2 = c := by simpa using h
    rw [← hk, ← hc]
    exact hmem

theorem lookup_isSome_iff {b : List (Nat × Nat)} {u : Nat} :
    (lookup b u).isSome = true ↔ u ∈ b.map (·.1) := by
  unfold lookup
  rw [Option.isSome_map, List.find?_isSome]
  simp only [beq_iff_eq, List.mem_map]

/-! ### The theorems -/

theorem kosarajuBelongs_eq (σ : Sched) (deps : AMap) :
    kosarajuBelongs σ deps =
      if (fwdRun σ deps).outOfFuel then .error "fuel"
      else if (bwdRun σ deps).1.outOfFuel then .error "fuel"
      else .ok (bwdRun σ deps).1.belongs := rfl

theorem kosaraju_master {σ : Sched} (hσ : σ.Valid) {deps : AMap} (hwf : WfGraph deps) :
    kosarajuBelongs σ deps = .ok (bwdRun σ deps).1.belongs ∧
      IsSccLabeling deps (bwdRun σ deps).1.belongs := by
  obtain ⟨hfuel, hall, _⟩ := fwdRun_spec hσ hwf
  have hinv := bwdRun_spec hσ hwf
  refine ⟨?_, hinv.nodup, ?_, ?_⟩
  · rw [kosarajuBelongs_eq, hfuel, hinv.fuel]
    rfl
  · intro u
    rw [lookup_isSome_iff]
    constructor
    · intro hu
      exact hinv.done u ((hall u).2 hu)
    · intro hu
      exact hinv.nodes u hu
  · intro u v cu cv hu hv
    exact hinv.scc (u, cu) (mem_of_lookup hu) (v, cv) (mem_of_lookup hv)

/-- The fuel of both searches suffices: `kosarajuBelongs` never fails. -/
theorem kosaraju_total_pf : ZV.Props.C08.Statement.kosaraju_total := by
  intro σ deps hσ hwf
  exact ⟨_, (kosaraju_master hσ hwf).1⟩

/-- The labelling is exactly the strongly connected components. -/
theorem kosaraju_correct_pf : ZV.Props.C08.Statement.kosaraju_correct := by
  intro σ deps b hσ hwf hb
  obtain ⟨h1, h2⟩ := kosaraju_master hσ hwf
  rw [h1] at hb
  injection hb with hb
  rw [← hb]
  exact h2

end ZV.Graph
