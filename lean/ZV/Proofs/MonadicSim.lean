/-
C20, part three: one step of the simulation, constructor by constructor, for any way of comparing
results that `Good` allows; then the two directions.
-/
import ZV.Proofs.MonadicRel

namespace ZV.ZCore.Mo
open ZV.ZCore ZV.Numeric ZV.Machine

/-- the plain run with fuel `n` and the translated run with fuel `k` are comparable -/
def SimAt (D : Res → Res → Prop) (n k : Nat) : Prop :=
  ∀ (E E' : REnv) (m : C) (out : Host.Bytes), EnvRel E E' →
    D (evalRC n E m out) (evalRC k E' (liftIdC m) out)

section cases
variable {D : Res → Res → Prop} (hD : Good D) {n k : Nat} {E E' : REnv} {out : Host.Bytes}
include hD

theorem sim_ret {v : V} (hz : k = 0 → ∀ x, D x none) (he : EnvRel E E') :
    D (evalRC (n + 1) E (.ret v) out) (evalRC (k + 1) E' (liftIdC (.ret v)) out) := by
  simp only [liftIdC]
  rcases relV v E E' he with ⟨h1, h2⟩ | ⟨a, a', h1, h2, hr⟩
  · rw [lret_none k E' _ out h2]
    simp only [evalRC, h1]
    exact hD.ok .wrong
  · cases k with
    | zero => rw [lret_one E' _ a' out h2]; exact hz rfl _
    | succ k =>
      rw [lret_some k E' _ a' out h2, evalRC_ret n E v a out h1]
      exact hD.ok (.ret hr)

theorem sim_bind {f : Nat} (hz : f = 0 → ∀ x, D x none) (ih : SimAt D n (f + 1)) {x : Nat} {a : VTy}
    {m n2 : C} (he : EnvRel E E') :
    D (evalRC (n + 1) E (.bind x a m n2) out) (evalRC (f + 4) E' (liftIdC (.bind x a m n2)) out) := by
  simp only [liftIdC]
  rw [evalRC_bind, ← lbind, lbind_eq]
  refine bindK_sim hD (ih E E' m out he) ?_
  intro v v' o hv
  cases f with
  | zero => exact hz rfl _
  | succ f => exact ih _ _ n2 o (he.cons x hv)

theorem sim_clet (ih : SimAt D n k) {x : Nat} {v : V} {m : C} (he : EnvRel E E') :
    D (evalRC (n + 1) E (.clet x v m) out) (evalRC (k + 1) E' (liftIdC (.clet x v m)) out) := by
  simp only [liftIdC]
  rcases relV v E E' he with ⟨h1, h2⟩ | ⟨a, a', h1, h2, hr⟩
  · simp only [evalRC, h1, h2]; exact hD.ok .wrong
  · simp only [evalRC, h1, h2]; exact ih _ _ m out (he.cons x hr)

theorem sim_letPair (ih : SimAt D n k) {x y : Nat} {v : V} {m : C} (he : EnvRel E E') :
    D (evalRC (n + 1) E (.letPair x y v m) out)
      (evalRC (k + 1) E' (liftIdC (.letPair x y v m)) out) := by
  simp only [liftIdC]
  rcases relV v E E' he with ⟨h1, h2⟩ | ⟨a, a', h1, h2, hr⟩
  · simp only [evalRC, h1, h2]; exact hD.ok .wrong
  · simp only [evalRC, h1, h2]
    cases hr with
    | pair hp hq => exact ih _ _ m out ((he.cons x hp).cons y hq)
    | unit => exact hD.ok .wrong
    | int _ _ => exact hD.ok .wrong
    | str _ => exact hD.ok .wrong
    | ctor _ _ => exact hD.ok .wrong
    | thunk _ _ => exact hD.ok .wrong

theorem sim_fn {x : Nat} {a : VTy} {m : C} (he : EnvRel E E') :
    D (evalRC (n + 1) E (.fn x a m) out) (evalRC (k + 1) E' (liftIdC (.fn x a m)) out) := by
  simp only [liftIdC, evalRC]
  exact hD.ok (.lam he)

theorem sim_app (ih : SimAt D n k) {m : C} {v : V} (he : EnvRel E E') :
    D (evalRC (n + 1) E (.app m v) out) (evalRC (k + 1) E' (liftIdC (.app m v)) out) := by
  simp only [liftIdC]
  rcases relV v E E' he with ⟨h1, h2⟩ | ⟨a, a', h1, h2, hr⟩
  · rw [evalRC_app_none _ _ _ _ _ h1, evalRC_app_none _ _ _ _ _ h2]
    exact hD.ok .wrong
  · rw [evalRC_app _ _ _ _ _ _ h1, evalRC_app _ _ _ _ _ _ h2]
    refine appK_sim hD (ih E E' m out he) ?_
    intro x body E1 E1' o he1
    exact ih _ _ body o (he1.cons x hr)

theorem sim_force (ih : SimAt D n k) {v : V} (he : EnvRel E E') :
    D (evalRC (n + 1) E (.force v) out) (evalRC (k + 1) E' (liftIdC (.force v)) out) := by
  simp only [liftIdC]
  rcases relV v E E' he with ⟨h1, h2⟩ | ⟨a, a', h1, h2, hr⟩
  · simp only [evalRC, h1, h2]; exact hD.ok .wrong
  · simp only [evalRC, h1, h2]
    cases hr with
    | thunk r1 r2 => exact ih _ _ _ out (EnvRel.of_raw r1 r2)
    | unit => exact hD.ok .wrong
    | int _ _ => exact hD.ok .wrong
    | str _ => exact hD.ok .wrong
    | ctor _ _ => exact hD.ok .wrong
    | pair _ _ => exact hD.ok .wrong

omit hD in
theorem sim_fix (ih : SimAt D n k) {f : Nat} {b : CTy} {m : C} (he : EnvRel E E') :
    D (evalRC (n + 1) E (.fix f b m) out) (evalRC (k + 1) E' (liftIdC (.fix f b m)) out) := by
  have hv : VRel (.thunk (.fix f b m) E) (.thunk (liftIdC (.fix f b m)) E') := .mkThunk he
  simp only [liftIdC] at hv ⊢
  simp only [evalRC]
  exact ih _ _ m out (he.cons f hv)

theorem sim_case (ih : SimAt D n k) {v : V} {d : Nat} {arms : List (String × Nat × C)} {b : CTy}
    (he : EnvRel E E') :
    D (evalRC (n + 1) E (.case v d arms b) out)
      (evalRC (k + 1) E' (liftIdC (.case v d arms b)) out) := by
  simp only [liftIdC]
  rcases relV v E E' he with ⟨h1, h2⟩ | ⟨a, a', h1, h2, hr⟩
  · simp only [evalRC, h1, h2]; exact hD.ok .wrong
  · simp only [evalRC, h1, h2]
    cases hr with
    | ctor c hp =>
      rcases arms_find arms c with ⟨f1, f2⟩ | ⟨k0, x, m, f1, f2⟩
      · simp only [f1, f2]; exact hD.ok .wrong
      · simp only [f1, f2]
        exact ih _ _ m out (he.cons x hp)
    | unit => exact hD.ok .wrong
    | int _ _ => exact hD.ok .wrong
    | str _ => exact hD.ok .wrong
    | pair _ _ => exact hD.ok .wrong
    | thunk _ _ => exact hD.ok .wrong

theorem sim_comatch {c0 : Nat} {arms : List (String × C)} (he : EnvRel E E') :
    D (evalRC (n + 1) E (.comatch c0 arms) out)
      (evalRC (k + 1) E' (liftIdC (.comatch c0 arms)) out) := by
  simp only [liftIdC, evalRC]
  exact hD.ok (.cocase he)

theorem sim_dtor (ih : SimAt D n k) {m : C} {c : String} (he : EnvRel E E') :
    D (evalRC (n + 1) E (.dtor m c) out) (evalRC (k + 1) E' (liftIdC (.dtor m c)) out) := by
  simp only [liftIdC]
  rw [evalRC_dtor, evalRC_dtor]
  refine dtorK_sim hD (ih E E' m out he) ?_
  intro arms E1 E1' o he1
  rcases coarms_find arms c with ⟨f1, f2⟩ | ⟨k0, body, f1, f2⟩
  · simp only [f1, f2]; exact hD.ok .wrong
  · simp only [f1, f2]
    exact ih _ _ body o he1

theorem sim_arith {t : IntTy} {op : ArithOp} {p q : V} (he : EnvRel E E') :
    D (evalRC (n + 1) E (.arith t op p q) out)
      (evalRC (k + 1) E' (liftIdC (.arith t op p q)) out) := by
  simp only [liftIdC]
  rcases relV p E E' he with ⟨h1, h2⟩ | ⟨a, a', h1, h2, hr⟩
  · simp only [evalRC, h1, h2]; exact hD.ok .wrong
  rcases relV q E E' he with ⟨g1, g2⟩ | ⟨b, b', g1, g2, gr⟩
  · simp only [evalRC, h1, h2, g1, g2]
    cases hr <;> exact hD.ok .wrong
  simp only [evalRC, h1, h2, g1, g2]
  cases hr with
  | int t1 x =>
    cases gr with
    | int t2 y =>
      by_cases e1 : t1 = t
      · by_cases e2 : t2 = t
        · subst e1; subst e2
          simp only [dite_true]
          generalize Numeric.arith _ _ x y = r
          cases r with
          | ok r => exact hD.ok (.ret (.int _ _))
          | trap => exact hD.ok .trap
        · simp only [e1, e2, dite_true, dite_false]; exact hD.ok .wrong
      · simp only [e1, dite_false]; exact hD.ok .wrong
    | unit => exact hD.ok .wrong
    | str _ => exact hD.ok .wrong
    | pair _ _ => exact hD.ok .wrong
    | ctor _ _ => exact hD.ok .wrong
    | thunk _ _ => exact hD.ok .wrong
  | unit => exact hD.ok .wrong
  | str _ => exact hD.ok .wrong
  | pair _ _ => exact hD.ok .wrong
  | ctor _ _ => exact hD.ok .wrong
  | thunk _ _ => exact hD.ok .wrong

theorem sim_cmp (ih : SimAt D n k) {t : IntTy} {op : CmpOp} {p q : V} {res : CTy} {yes no : C}
    (he : EnvRel E E') :
    D (evalRC (n + 1) E (.cmp t op p q res yes no) out)
      (evalRC (k + 1) E' (liftIdC (.cmp t op p q res yes no)) out) := by
  simp only [liftIdC]
  rcases relV p E E' he with ⟨h1, h2⟩ | ⟨a, a', h1, h2, hr⟩
  · simp only [evalRC, h1, h2]; exact hD.ok .wrong
  rcases relV q E E' he with ⟨g1, g2⟩ | ⟨b, b', g1, g2, gr⟩
  · simp only [evalRC, h1, h2, g1, g2]
    cases hr <;> exact hD.ok .wrong
  simp only [evalRC, h1, h2, g1, g2]
  cases hr with
  | int t1 x =>
    cases gr with
    | int t2 y =>
      by_cases e1 : t1 = t
      · by_cases e2 : t2 = t
        · subst e1; subst e2
          simp only [dite_true]
          generalize Numeric.cmp _ _ x y = r
          cases r with
          | true => exact ih E E' yes out he
          | false => exact ih E E' no out he
        · simp only [e1, e2, dite_true, dite_false]; exact hD.ok .wrong
      · simp only [e1, dite_false]; exact hD.ok .wrong
    | unit => exact hD.ok .wrong
    | str _ => exact hD.ok .wrong
    | pair _ _ => exact hD.ok .wrong
    | ctor _ _ => exact hD.ok .wrong
    | thunk _ _ => exact hD.ok .wrong
  | unit => exact hD.ok .wrong
  | str _ => exact hD.ok .wrong
  | pair _ _ => exact hD.ok .wrong
  | ctor _ _ => exact hD.ok .wrong
  | thunk _ _ => exact hD.ok .wrong

theorem sim_toStr {t : IntTy} {p : V} (he : EnvRel E E') :
    D (evalRC (n + 1) E (.toStr t p) out) (evalRC (k + 1) E' (liftIdC (.toStr t p)) out) := by
  simp only [liftIdC]
  rcases relV p E E' he with ⟨h1, h2⟩ | ⟨a, a', h1, h2, hr⟩
  · simp only [evalRC, h1, h2]; exact hD.ok .wrong
  simp only [evalRC, h1, h2]
  cases hr with
  | int t1 x =>
    by_cases e1 : t1 = t
    · subst e1
      simp only [dite_true]
      exact hD.ok (.ret (.str _))
    · simp only [e1, dite_false]; exact hD.ok .wrong
  | unit => exact hD.ok .wrong
  | str _ => exact hD.ok .wrong
  | pair _ _ => exact hD.ok .wrong
  | ctor _ _ => exact hD.ok .wrong
  | thunk _ _ => exact hD.ok .wrong

theorem sim_strAppend {p q : V} (he : EnvRel E E') :
    D (evalRC (n + 1) E (.strAppend p q) out)
      (evalRC (k + 1) E' (liftIdC (.strAppend p q)) out) := by
  simp only [liftIdC]
  rcases relV p E E' he with ⟨h1, h2⟩ | ⟨a, a', h1, h2, hr⟩
  · simp only [evalRC, h1, h2]; exact hD.ok .wrong
  rcases relV q E E' he with ⟨g1, g2⟩ | ⟨b, b', g1, g2, gr⟩
  · simp only [evalRC, h1, h2, g1, g2]
    cases hr <;> exact hD.ok .wrong
  simp only [evalRC, h1, h2, g1, g2]
  cases hr with
  | str s1 =>
    cases gr with
    | str s2 => exact hD.ok (.ret (.str _))
    | unit => exact hD.ok .wrong
    | int _ _ => exact hD.ok .wrong
    | pair _ _ => exact hD.ok .wrong
    | ctor _ _ => exact hD.ok .wrong
    | thunk _ _ => exact hD.ok .wrong
  | unit => exact hD.ok .wrong
  | int _ _ => exact hD.ok .wrong
  | pair _ _ => exact hD.ok .wrong
  | ctor _ _ => exact hD.ok .wrong
  | thunk _ _ => exact hD.ok .wrong

theorem sim_writeLine (ih : SimAt D n k) {p : V} {c : C} (he : EnvRel E E') :
    D (evalRC (n + 1) E (.writeLine p c) out)
      (evalRC (k + 1) E' (liftIdC (.writeLine p c)) out) := by
  simp only [liftIdC]
  rcases relV p E E' he with ⟨h1, h2⟩ | ⟨a, a', h1, h2, hr⟩
  · simp only [evalRC, h1, h2]; exact hD.ok .wrong
  simp only [evalRC, h1, h2]
  cases hr with
  | str s1 => exact ih E E' c _ he
  | unit => exact hD.ok .wrong
  | int _ _ => exact hD.ok .wrong
  | pair _ _ => exact hD.ok .wrong
  | ctor _ _ => exact hD.ok .wrong
  | thunk _ _ => exact hD.ok .wrong

theorem sim_exit {p : V} (he : EnvRel E E') :
    D (evalRC (n + 1) E (.exit p) out) (evalRC (k + 1) E' (liftIdC (.exit p)) out) := by
  simp only [liftIdC]
  rcases relV p E E' he with ⟨h1, h2⟩ | ⟨a, a', h1, h2, hr⟩
  · simp only [evalRC, h1, h2]; exact hD.ok .wrong
  simp only [evalRC, h1, h2]
  cases hr with
  | int t1 x =>
    cases t1 <;> first | exact hD.ok (.exit _) | exact hD.ok .wrong
  | unit => exact hD.ok .wrong
  | str _ => exact hD.ok .wrong
  | pair _ _ => exact hD.ok .wrong
  | ctor _ _ => exact hD.ok .wrong
  | thunk _ _ => exact hD.ok .wrong

/-- every constructor the translation maps to itself -/
theorem sim_hom (ih : SimAt D n k) (m : C) (hr : ∀ v, m ≠ .ret v) (hb : ∀ x a p q, m ≠ .bind x a p q)
    (he : EnvRel E E') : D (evalRC (n + 1) E m out) (evalRC (k + 1) E' (liftIdC m) out) := by
  cases m with
  | ret v => exact absurd rfl (hr v)
  | bind x a p q => exact absurd rfl (hb x a p q)
  | clet x v m => exact sim_clet hD ih he
  | letPair x y v m => exact sim_letPair hD ih he
  | fn x a m => exact sim_fn hD he
  | app m v => exact sim_app hD ih he
  | force v => exact sim_force hD ih he
  | fix f b m => exact sim_fix ih he
  | case v d arms b => exact sim_case hD ih he
  | comatch c0 arms => exact sim_comatch hD he
  | dtor m c => exact sim_dtor hD ih he
  | arith t op p q => exact sim_arith hD he
  | cmp t op p q res yes no => exact sim_cmp hD ih he
  | toStr t p => exact sim_toStr hD he
  | strAppend p q => exact sim_strAppend hD he
  | writeLine p c => exact sim_writeLine hD ih he
  | exit p => exact sim_exit hD he

end cases

/-- **Plain to translated**: three units of fuel per unit of the plain run, and two more, are
enough for the translated run. -/
theorem fwd : ∀ (n k : Nat), 3 * n + 2 ≤ k → SimAt Fwd n k
  | 0, k, _ => by
    intro E E' m out _
    simp only [evalRC]
    exact Fwd.none_left _
  | n + 1, k, hk => by
    obtain ⟨f, rfl⟩ : ∃ f, k = f + 4 := ⟨k - 4, by omega⟩
    have ih : SimAt Fwd n (f + 3) := fwd n (f + 3) (by omega)
    have ihb : SimAt Fwd n (f + 1) := fwd n (f + 1) (by omega)
    intro E E' m out he
    by_cases hr : ∃ v, m = .ret v
    · obtain ⟨v, rfl⟩ := hr
      exact sim_ret goodFwd (k := f + 3) (fun h => by omega) he
    by_cases hb : ∃ x a p q, m = .bind x a p q
    · obtain ⟨x, a, p, q, rfl⟩ := hb
      exact sim_bind goodFwd (fun h => by omega) ihb he
    exact sim_hom goodFwd (k := f + 3) ih m (fun v h => hr ⟨v, h⟩)
      (fun x a p q h => hb ⟨x, a, p, q, h⟩) he

/-- **Translated to plain**: the plain run needs no more fuel than the translated one. -/
theorem bwd : ∀ (n k : Nat), k ≤ n → SimAt Bwd n k
  | n, 0, _ => by
    intro E E' m out _
    simp only [evalRC]
    exact Bwd.none_right _
  | 0, k + 1, h => by omega
  | n + 1, k + 1, hk => by
    have ih : SimAt Bwd n k := bwd n k (by omega)
    intro E E' m out he
    by_cases hr : ∃ v, m = .ret v
    · obtain ⟨v, rfl⟩ := hr
      exact sim_ret goodBwd (fun _ => Bwd.none_right) he
    by_cases hb : ∃ x a p q, m = .bind x a p q
    · obtain ⟨x, a, p, q, rfl⟩ := hb
      by_cases hs : k + 1 < 4
      · simp only [liftIdC]
        rw [← lbind, lbind_small E' x a _ _ out (k + 1) hs]
        exact Bwd.none_right _
      · obtain ⟨f, rfl⟩ : ∃ f, k = f + 3 := ⟨k - 3, by omega⟩
        exact sim_bind goodBwd (fun _ => Bwd.none_right) (bwd n (f + 1) (by omega)) he
    exact sim_hom goodBwd ih m (fun v h => hr ⟨v, h⟩) (fun x a p q h => hb ⟨x, a, p, q, h⟩) he

end ZV.ZCore.Mo
