/-
C08 — the `top`/`release` drain of `SccGraph` and the context order of `BindingContext`
(`ZV/Model/Graph.lean`), proved against `ZV/Model/GraphSpec.lean`.

The two Kosaraju statements (`Statement.kosaraju_total`, `Statement.kosaraju_correct`) are
hypotheses of the four main theorems:

* `ZV.Graph.drain_deps_first_pf`
* `ZV.Graph.release_piecemeal_safe_pf`
* `ZV.Graph.context_order_valid_pf`
* `ZV.Graph.topo_deterministic_pf`

Core Lean only.
-/
import ZV.Model.Graph
import ZV.Model.GraphSpec
import ZV.Props.C08Statements

/-! ## Basic facts about the list-backed sets and maps -/

namespace ZV.Graph

/-! ### Schedulers -/

private theorem Sched.Valid.mem {σ : Sched} (hσ : σ.Valid) {x : Nat} {xs : List Nat} : x ∈ σ xs ↔ x ∈ xs :=
  (hσ xs).mem_iff

private theorem Sched.Valid.nodup {σ : Sched} (hσ : σ.Valid) {xs : List Nat} : (σ xs).Nodup ↔ xs.Nodup :=
  (hσ xs).nodup_iff

private theorem Sched.Valid.length {σ : Sched} (hσ : σ.Valid) {xs : List Nat} : (σ xs).length = xs.length :=
  (hσ xs).length_eq

private theorem Sched.Valid.eq_nil {σ : Sched} (hσ : σ.Valid) {xs : List Nat} : σ xs = [] ↔ xs = [] := by
  constructor
  · intro h
    have := hσ.length (xs := xs)
    rw [h] at this
    exact List.length_eq_zero_iff.mp this.symm
  · intro h
    subst h
    exact List.length_eq_zero_iff.mp (hσ.length (xs := []))

/-! ### Generic fold lemmas -/

private theorem foldl_inv {α β : Type} (P : β → Prop) (f : β → α → β)
    (l : List α) (acc : β) (h : ∀ acc, ∀ a ∈ l, P acc → P (f acc a)) (h0 : P acc) :
    P (l.foldl f acc) := by
  induction l generalizing acc with
  | nil => exact h0
  | cons a l ih =>
    simp only [List.foldl_cons]
    exact ih _ (fun acc a' ha' => h acc a' (List.mem_cons_of_mem _ ha')) (h acc a List.mem_cons_self h0)

private theorem foldl_rel {α β γ : Type} (R : β → γ → Prop) (S : α → γ → Prop) (f : β → α → β)
    (l : List α) (h : ∀ acc, ∀ a ∈ l, ∀ z, R (f acc a) z ↔ (R acc z ∨ S a z)) (acc : β) (z : γ) :
    R (l.foldl f acc) z ↔ (R acc z ∨ ∃ a ∈ l, S a z) := by
  induction l generalizing acc with
  | nil => simp
  | cons a l ih =>
    simp only [List.foldl_cons]
    rw [ih (fun acc a' ha' => h acc a' (List.mem_cons_of_mem _ ha')), h acc a List.mem_cons_self]
    simp only [List.mem_cons, exists_eq_or_imp, or_assoc]

private theorem foldlM_ok_of_forall {α β ε : Type} (f : β → α → Except ε β) (g : β → α → β)
    (l : List α) (acc : β) (h : ∀ acc, ∀ a ∈ l, f acc a = .ok (g acc a)) :
    l.foldlM f acc = .ok (l.foldl g acc) := by
  induction l generalizing acc with
  | nil => rfl
  | cons a l ih =>
    simp only [List.foldlM_cons, List.foldl_cons]
    rw [h acc a List.mem_cons_self]
    exact ih _ (fun acc a' ha' => h acc a' (List.mem_cons_of_mem _ ha'))

/-! ### `IdSet` -/

private theorem IdSet.mem_insert {s : IdSet} {x y : Nat} : y ∈ IdSet.insert s x ↔ (y ∈ s ∨ y = x) := by
  unfold IdSet.insert
  split
  · rename_i h
    have hx : x ∈ s := by simpa using h
    constructor
    · exact Or.inl
    · rintro (h | rfl)
      · exact h
      · exact hx
  · simp

private theorem IdSet.nodup_insert {s : IdSet} {x : Nat} (hs : s.Nodup) : (IdSet.insert s x).Nodup := by
  unfold IdSet.insert
  split
  · exact hs
  · rename_i h
    have hx : x ∉ s := by simpa using h
    rw [List.nodup_append]
    refine ⟨hs, by simp, ?_⟩
    intro a ha b hb
    simp at hb
    subst hb
    intro hab
    subst hab
    exact hx ha

private theorem IdSet.mem_union {s t : IdSet} {y : Nat} : y ∈ IdSet.union s t ↔ (y ∈ s ∨ y ∈ t) := by
  unfold IdSet.union
  induction t generalizing s with
  | nil => simp
  | cons a t ih =>
    simp only [List.foldl_cons]
    rw [ih, IdSet.mem_insert]
    simp only [List.mem_cons]
    constructor
    · rintro ((h | h) | h)
      · exact Or.inl h
      · exact Or.inr (Or.inl h)
      · exact Or.inr (Or.inr h)
    · rintro (h | h | h)
      · exact Or.inl (Or.inl h)
      · exact Or.inl (Or.inr h)
      · exact Or.inr h

private theorem IdSet.nodup_union {s t : IdSet} (hs : s.Nodup) : (IdSet.union s t).Nodup := by
  unfold IdSet.union
  induction t generalizing s with
  | nil => exact hs
  | cons a t ih =>
    simp only [List.foldl_cons]
    exact ih (IdSet.nodup_insert hs)

private theorem IdSet.mem_remove {s : IdSet} {x y : Nat} : y ∈ IdSet.remove s x ↔ (y ∈ s ∧ y ≠ x) := by
  unfold IdSet.remove
  simp

private theorem IdSet.nodup_remove {s : IdSet} {x : Nat} (hs : s.Nodup) : (IdSet.remove s x).Nodup := by
  unfold IdSet.remove
  exact hs.sublist List.filter_sublist

private theorem IdSet.mem_foldl_remove {s l : IdSet} {y : Nat} :
    y ∈ l.foldl IdSet.remove s ↔ (y ∈ s ∧ y ∉ l) := by
  induction l generalizing s with
  | nil => simp
  | cons a l ih =>
    simp only [List.foldl_cons]
    rw [ih, IdSet.mem_remove]
    simp only [List.mem_cons, not_or]
    constructor
    · rintro ⟨⟨h1, h2⟩, h3⟩
      exact ⟨h1, h2, h3⟩
    · rintro ⟨h1, h2, h3⟩
      exact ⟨⟨h1, h2⟩, h3⟩

private theorem IdSet.nodup_foldl_remove {s l : IdSet} (hs : s.Nodup) : (l.foldl IdSet.remove s).Nodup := by
  induction l generalizing s with
  | nil => exact hs
  | cons a l ih =>
    simp only [List.foldl_cons]
    exact ih (IdSet.nodup_remove hs)

/-! ### `AMap` -/

namespace AMap

private theorem get?_nil (k : Nat) : get? [] k = none := rfl

private theorem get?_cons (p : Nat × IdSet) (m : AMap) (k : Nat) :
    get? (p :: m) k = if p.1 = k then some p.2 else get? m k := by
  unfold get?
  simp only [List.find?_cons]
  by_cases h : p.1 = k
  · simp [h]
  · have : (p.1 == k) = false := by simpa using h
    simp [this, h]

private theorem hasKey_eq (m : AMap) (k : Nat) : m.hasKey k = (m.get? k).isSome := by
  induction m with
  | nil => rfl
  | cons p m ih =>
    rw [get?_cons]
    unfold hasKey at *
    simp only [List.any_cons]
    by_cases h : p.1 = k
    · simp [h]
    · have : (p.1 == k) = false := by simpa using h
      simp [this, h, ih]

private theorem mem_keys {m : AMap} {k : Nat} : k ∈ m.keys ↔ (m.get? k).isSome = true := by
  induction m with
  | nil => simp [keys, get?_nil]
  | cons p m ih =>
    rw [get?_cons]
    simp only [keys, List.map_cons, List.mem_cons] at *
    by_cases h : p.1 = k
    · simp [h]
    · simp [h, ih]
      intro h'
      exact absurd h'.symm h

private theorem query_eq_of_get? {m : AMap} {k : Nat} {s : IdSet} (h : m.get? k = some s) : m.query k = s := by
  unfold query; rw [h]; rfl

private theorem query_eq_nil_of_get? {m : AMap} {k : Nat} (h : m.get? k = none) : m.query k = [] := by
  unfold query; rw [h]; rfl

private theorem get?_mem {m : AMap} {k : Nat} {s : IdSet} (h : m.get? k = some s) : (k, s) ∈ m := by
  induction m with
  | nil => simp [get?_nil] at h
  | cons p m ih =>
    rw [get?_cons] at h
    by_cases hp : p.1 = k
    · simp [hp] at h
      subst hp; subst h
      exact List.mem_cons_self
    · simp [hp] at h
      exact List.mem_cons_of_mem _ (ih h)

private theorem get?_of_mem_nodup {m : AMap} {k : Nat} {s : IdSet} (hn : m.keys.Nodup) (h : (k, s) ∈ m) :
    m.get? k = some s := by
  induction m with
  | nil => simp at h
  | cons p m ih =>
    rw [get?_cons]
    simp only [keys, List.map_cons, List.nodup_cons] at hn
    rcases List.mem_cons.mp h with h | h
    · subst h; simp
    · have : p.1 ≠ k := by
        intro hp
        apply hn.1
        rw [hp]
        exact List.mem_map.mpr ⟨(k, s), h, rfl⟩
      simp [this]
      exact ih hn.2 h

/-- The map that updates the value at key `k` (all occurrences) with `f`. -/
private theorem get?_mapAt (m : AMap) (k : Nat) (f : IdSet → IdSet) (k' : Nat) :
    get? (m.map fun (p : Nat × IdSet) => if p.1 == k then (p.1, f p.2) else (p.1, p.2)) k' =
      if k' = k then (m.get? k').map f else m.get? k' := by
  induction m with
  | nil => simp [get?_nil]
  | cons p m ih =>
    simp only [List.map_cons]
    rw [get?_cons, get?_cons, ih]
    by_cases hpk : p.1 = k
    · have : (p.1 == k) = true := by simpa using hpk
      simp only [this, if_true]
      by_cases hp : p.1 = k'
      · have hk' : k' = k := by rw [← hp, hpk]
        simp [hp, hk']
      · simp [hp]
    · have : (p.1 == k) = false := by simpa using hpk
      simp only [this]
      by_cases hp : p.1 = k'
      · have hk' : k' ≠ k := by rw [← hp]; exact hpk
        simp [hp, hk']
      · simp [hp]

private theorem keys_mapAt (m : AMap) (k : Nat) (f : IdSet → IdSet) :
    keys (m.map fun (p : Nat × IdSet) => if p.1 == k then (p.1, f p.2) else (p.1, p.2)) = m.keys := by
  unfold keys
  rw [List.map_map]
  apply List.map_congr_left
  intro p _
  simp only [Function.comp]
  split <;> rfl

private theorem get?_append (m m' : AMap) (k : Nat) :
    get? (m ++ m') k = (get? m k).or (get? m' k) := by
  induction m with
  | nil => simp [get?_nil]
  | cons p m ih =>
    simp only [List.cons_append]
    rw [get?_cons, get?_cons, ih]
    split <;> simp

private theorem get?_add (m : AMap) (k : Nat) (vs : List Nat) (k' : Nat) :
    (m.add k vs).get? k' = if k' = k then some (IdSet.union (m.query k) vs) else m.get? k' := by
  unfold add
  split
  · rename_i h
    rw [hasKey_eq] at h
    have hf : (fun (x : Nat × IdSet) => match x with
        | (k', s) => if (k' == k) = true then (k', IdSet.union s vs) else (k', s)) =
        fun (p : Nat × IdSet) => if p.1 == k then (p.1, IdSet.union p.2 vs) else (p.1, p.2) := by
      funext ⟨a, b⟩; rfl
    rw [hf, get?_mapAt m k (fun s => IdSet.union s vs) k']
    by_cases hk : k' = k
    · subst hk
      obtain ⟨s, hs⟩ := Option.isSome_iff_exists.mp h
      simp [hs, query_eq_of_get? hs]
    · simp [hk]
  · rename_i h
    rw [hasKey_eq] at h
    have hnone : m.get? k = none := by simpa using h
    rw [get?_append, get?_cons, get?_nil]
    by_cases hk : k' = k
    · subst hk
      simp [hnone, query_eq_nil_of_get? hnone]
    · have : ¬ k = k' := fun h => hk h.symm
      simp [hk, this]

private theorem mem_query_add {m : AMap} {k : Nat} {vs : List Nat} {k' x : Nat} :
    x ∈ (m.add k vs).query k' ↔ (x ∈ m.query k' ∨ (k' = k ∧ x ∈ vs)) := by
  unfold query
  rw [get?_add]
  by_cases hk : k' = k
  · subst hk
    simp [IdSet.mem_union, query]
  · simp [hk]

private theorem isSome_get?_add {m : AMap} {k : Nat} {vs : List Nat} {k' : Nat} :
    ((m.add k vs).get? k').isSome = true ↔ ((m.get? k').isSome = true ∨ k' = k) := by
  rw [get?_add]
  by_cases hk : k' = k
  · simp [hk]
  · simp [hk]

private theorem keys_add (m : AMap) (k : Nat) (vs : List Nat) :
    (m.add k vs).keys = if m.hasKey k then m.keys else m.keys ++ [k] := by
  unfold add
  split
  · have hf : (fun (x : Nat × IdSet) => match x with
        | (k', s) => if (k' == k) = true then (k', IdSet.union s vs) else (k', s)) =
        fun (p : Nat × IdSet) => if p.1 == k then (p.1, IdSet.union p.2 vs) else (p.1, p.2) := by
      funext ⟨a, b⟩; rfl
    rw [hf]
    exact keys_mapAt m k (fun s => IdSet.union s vs)
  · simp [keys]

private theorem nodup_keys_add {m : AMap} {k : Nat} {vs : List Nat} (h : m.keys.Nodup) :
    (m.add k vs).keys.Nodup := by
  rw [keys_add]
  split
  · exact h
  · rename_i hk
    rw [hasKey_eq] at hk
    have : k ∉ m.keys := by rw [mem_keys]; exact hk
    rw [List.nodup_append]
    refine ⟨h, by simp, ?_⟩
    intro a ha b hb
    simp at hb
    subst hb
    intro hab
    subst hab
    exact this ha

private theorem get?_remove (m : AMap) (k k' : Nat) :
    (m.remove k).get? k' = if k' = k then none else m.get? k' := by
  induction m with
  | nil => simp [remove, get?_nil]
  | cons p m ih =>
    unfold remove at *
    simp only [List.filter_cons]
    by_cases hp : p.1 = k
    · have : (p.1 != k) = false := by simp [hp]
      simp only [this, Bool.false_eq_true, ↓reduceIte]
      rw [ih, get?_cons]
      by_cases hk : k' = k
      · simp [hk]
      · have : ¬ p.1 = k' := by rw [hp]; exact fun h => hk h.symm
        simp [hk, this]
    · have : (p.1 != k) = true := by simp [hp]
      simp only [this, if_true]
      rw [get?_cons, get?_cons, ih]
      by_cases hpk : p.1 = k'
      · have : ¬ k' = k := by rw [← hpk]; exact hp
        simp [hpk, this]
      · simp [hpk]

private theorem removeFrom?_eq (m : AMap) (k x : Nat) :
    m.removeFrom? k x =
      if (m.get? k).isSome then
        some (m.map fun (p : Nat × IdSet) => if p.1 == k then (p.1, IdSet.remove p.2 x) else (p.1, p.2))
      else none := by
  unfold removeFrom?
  rw [hasKey_eq]

end AMap

/-! ### `lookup` -/

private theorem lookup_nil (u : Nat) : lookup [] u = none := rfl

private theorem lookup_cons (p : Nat × Nat) (b : List (Nat × Nat)) (u : Nat) :
    lookup (p :: b) u = if p.1 = u then some p.2 else lookup b u := by
  unfold lookup
  simp only [List.find?_cons]
  by_cases h : p.1 = u
  · simp [h]
  · have : (p.1 == u) = false := by simpa using h
    simp [this, h]

private theorem lookup_isSome {b : List (Nat × Nat)} {u : Nat} :
    (lookup b u).isSome = true ↔ u ∈ b.map (·.1) := by
  induction b with
  | nil => simp [lookup_nil]
  | cons p b ih =>
    rw [lookup_cons]
    simp only [List.map_cons, List.mem_cons]
    by_cases h : p.1 = u
    · simp [h]
    · simp [h, ih]
      intro h'
      exact absurd h'.symm h

private theorem lookup_mem {b : List (Nat × Nat)} {u c : Nat} (h : lookup b u = some c) : (u, c) ∈ b := by
  induction b with
  | nil => simp [lookup_nil] at h
  | cons p b ih =>
    rw [lookup_cons] at h
    by_cases hp : p.1 = u
    · simp [hp] at h
      subst hp; subst h
      exact List.mem_cons_self
    · simp [hp] at h
      exact List.mem_cons_of_mem _ (ih h)

private theorem lookup_of_mem_nodup {b : List (Nat × Nat)} {u c : Nat} (hn : (b.map (·.1)).Nodup)
    (h : (u, c) ∈ b) : lookup b u = some c := by
  induction b with
  | nil => simp at h
  | cons p b ih =>
    rw [lookup_cons]
    simp only [List.map_cons, List.nodup_cons] at hn
    rcases List.mem_cons.mp h with h | h
    · subst h; simp
    · have : p.1 ≠ u := by
        intro hp
        apply hn.1
        rw [hp]
        exact List.mem_map.mpr ⟨(u, c), h, rfl⟩
      simp [this]
      exact ih hn.2 h

private theorem lookup_filter_ne (b : List (Nat × Nat)) (id u : Nat) :
    lookup (b.filter (·.1 != id)) u = if u = id then none else lookup b u := by
  induction b with
  | nil => simp [lookup_nil]
  | cons p b ih =>
    simp only [List.filter_cons]
    by_cases hp : p.1 = id
    · have : (p.1 != id) = false := by simp [hp]
      simp only [this, Bool.false_eq_true, ↓reduceIte]
      rw [ih, lookup_cons]
      by_cases hk : u = id
      · simp [hk]
      · have : ¬ p.1 = u := by rw [hp]; exact fun h => hk h.symm
        simp [hk, this]
    · have : (p.1 != id) = true := by simp [hp]
      simp only [this, if_true]
      rw [lookup_cons, lookup_cons, ih]
      by_cases hpk : p.1 = u
      · have : ¬ u = id := by rw [← hpk]; exact hp
        simp [hpk, this]
      · simp [hpk]

end ZV.Graph

/-! ## Characterisation of `Scc.new` on a labelling -/

namespace ZV.Graph

/-- `c` is the label of some node. -/
def IsComp (b : List (Nat × Nat)) (c : Nat) : Prop := ∃ u, lookup b u = some c

/-- Edge of the condensation: some member of `c` depends on some member of `d ≠ c`. -/
def CEdge (deps : AMap) (b : List (Nat × Nat)) (c d : Nat) : Prop :=
  c ≠ d ∧ ∃ u v, lookup b u = some c ∧ lookup b v = some d ∧ Edge deps u v

/-! ### `strongs` -/

def newStrongsStep (b : List (Nat × Nat)) (s : AMap) (id : Nat) : AMap :=
  match lookup b id with
  | some low => s.add low [id]
  | none => s

def newStrongs (σ : Sched) (b : List (Nat × Nat)) : AMap :=
  (σ (b.map (·.1))).foldl (newStrongsStep b) []

theorem newStrongsStep_query (b : List (Nat × Nat)) (s : AMap) (id c u : Nat) :
    u ∈ (newStrongsStep b s id).query c ↔ (u ∈ s.query c ∨ (u = id ∧ lookup b id = some c)) := by
  unfold newStrongsStep
  split
  · rename_i low h
    rw [AMap.mem_query_add, h]
    simp only [List.mem_singleton, Option.some.injEq]
    constructor
    · rintro (h | ⟨rfl, rfl⟩)
      · exact Or.inl h
      · exact Or.inr ⟨rfl, rfl⟩
    · rintro (h | ⟨rfl, rfl⟩)
      · exact Or.inl h
      · exact Or.inr ⟨rfl, rfl⟩
  · rename_i h
    simp [h]

theorem newStrongsStep_isSome (b : List (Nat × Nat)) (s : AMap) (id c : Nat) :
    ((newStrongsStep b s id).get? c).isSome = true ↔
      ((s.get? c).isSome = true ∨ lookup b id = some c) := by
  unfold newStrongsStep
  split
  · rename_i low h
    rw [AMap.isSome_get?_add, h]
    simp only [Option.some.injEq]
    constructor
    · rintro (h | rfl)
      · exact Or.inl h
      · exact Or.inr rfl
    · rintro (h | rfl)
      · exact Or.inl h
      · exact Or.inr rfl
  · rename_i h
    simp [h]

theorem newStrongsStep_nodup (b : List (Nat × Nat)) (s : AMap) (id : Nat)
    (h : ∀ c t, s.get? c = some t → t.Nodup) :
    ∀ c t, (newStrongsStep b s id).get? c = some t → t.Nodup := by
  unfold newStrongsStep
  split
  · rename_i low hl
    intro c t
    rw [AMap.get?_add]
    split
    · intro ht
      simp only [Option.some.injEq] at ht
      subst ht
      apply IdSet.nodup_union
      unfold AMap.query
      cases hq : s.get? low with
      | none => exact List.nodup_nil
      | some t' => exact h _ _ hq
    · exact h c t
  · exact h

theorem newStrongs_query {σ : Sched} (hσ : σ.Valid) (b : List (Nat × Nat)) (c u : Nat) :
    u ∈ (newStrongs σ b).query c ↔ lookup b u = some c := by
  unfold newStrongs
  rw [foldl_rel (fun (s : AMap) (z : Nat × Nat) => z.2 ∈ s.query z.1)
    (fun id (z : Nat × Nat) => z.2 = id ∧ lookup b id = some z.1) (newStrongsStep b) _
    (fun acc a _ z => newStrongsStep_query b acc a z.1 z.2) [] (c, u)]
  simp only [AMap.query, AMap.get?_nil, Option.getD_none, List.not_mem_nil, false_or]
  constructor
  · rintro ⟨a, _, rfl, h⟩
    exact h
  · intro h
    refine ⟨u, ?_, rfl, h⟩
    rw [hσ.mem, ← lookup_isSome, h]
    rfl

theorem newStrongs_isSome {σ : Sched} (hσ : σ.Valid) (b : List (Nat × Nat)) (c : Nat) :
    ((newStrongs σ b).get? c).isSome = true ↔ IsComp b c := by
  unfold newStrongs
  rw [foldl_rel (fun (s : AMap) (z : Nat) => (s.get? z).isSome = true)
    (fun id (z : Nat) => lookup b id = some z) (newStrongsStep b) _
    (fun acc a _ z => newStrongsStep_isSome b acc a z) [] c]
  simp only [AMap.get?_nil, Option.isSome_none, Bool.false_eq_true, false_or]
  constructor
  · rintro ⟨a, _, h⟩
    exact ⟨a, h⟩
  · rintro ⟨a, h⟩
    refine ⟨a, ?_, h⟩
    rw [hσ.mem, ← lookup_isSome, h]
    rfl

theorem newStrongs_nodup (σ : Sched) (b : List (Nat × Nat)) :
    ∀ c t, (newStrongs σ b).get? c = some t → t.Nodup := by
  unfold newStrongs
  apply foldl_inv (fun (s : AMap) => ∀ c t, s.get? c = some t → t.Nodup)
  · intro acc a _ h
    exact newStrongsStep_nodup b acc a h
  · intro c t h
    simp [AMap.get?_nil] at h

theorem newStrongs_keys_nodup (σ : Sched) (b : List (Nat × Nat)) :
    (newStrongs σ b).keys.Nodup := by
  unfold newStrongs
  apply foldl_inv (fun (s : AMap) => s.keys.Nodup)
  · intro acc a _ h
    unfold newStrongsStep
    split
    · exact AMap.nodup_keys_add h
    · exact h
  · exact List.nodup_nil

/-! ### `srcs` and `deps` -/

def newInit (σ : Sched) (strongs : AMap) : AMap × AMap :=
  (σ strongs.keys).foldl (fun (p : AMap × AMap) c => (p.1.add c [], p.2.add c [])) ([], [])

def newStepD (b : List (Nat × Nat)) (k : Nat) (acc : AMap × AMap) (d : Nat) : AMap × AMap :=
  match lookup b d with
  | none => acc
  | some r => if r != k then (acc.1.add r [k], acc.2.add k [r]) else acc

def newStepId (σ : Sched) (idDeps : AMap) (b : List (Nat × Nat)) (k : Nat) (acc : AMap × AMap)
    (id : Nat) : AMap × AMap :=
  (σ (idDeps.query id)).foldl (newStepD b k) acc

def newStepK (σ : Sched) (idDeps : AMap) (b : List (Nat × Nat)) (strongs : AMap)
    (acc : AMap × AMap) (k : Nat) : AMap × AMap :=
  (σ (strongs.query k)).foldl (newStepId σ idDeps b k) acc

def newEdges (σ : Sched) (idDeps : AMap) (b : List (Nat × Nat)) (strongs : AMap) : AMap × AMap :=
  (σ strongs.keys).foldl (newStepK σ idDeps b strongs) (newInit σ strongs)

theorem newFold_rel {γ : Type} (σ : Sched) (idDeps : AMap) (b : List (Nat × Nat)) (strongs : AMap)
    (R : AMap × AMap → γ → Prop) (S : Nat → Nat → γ → Prop)
    (hD : ∀ acc k d z, R (newStepD b k acc d) z ↔ (R acc z ∨ S k d z))
    (ks : List Nat) (acc : AMap × AMap) (z : γ) :
    R (ks.foldl (newStepK σ idDeps b strongs) acc) z ↔
      (R acc z ∨ ∃ k ∈ ks, ∃ id ∈ σ (strongs.query k), ∃ d ∈ σ (idDeps.query id), S k d z) := by
  apply foldl_rel R (fun k z => ∃ id ∈ σ (strongs.query k), ∃ d ∈ σ (idDeps.query id), S k d z)
  intro acc k _ z
  unfold newStepK
  apply foldl_rel R (fun id z => ∃ d ∈ σ (idDeps.query id), S k d z)
  intro acc id _ z
  unfold newStepId
  apply foldl_rel R (fun d z => S k d z)
  intro acc d _ z
  exact hD acc k d z

theorem newFold_inv (σ : Sched) (idDeps : AMap) (b : List (Nat × Nat)) (strongs : AMap)
    (P : AMap × AMap → Prop)
    (hD : ∀ acc k d, P acc → P (newStepD b k acc d))
    (ks : List Nat) (acc : AMap × AMap) (h0 : P acc) :
    P (ks.foldl (newStepK σ idDeps b strongs) acc) := by
  apply foldl_inv P _ _ _ _ h0
  intro acc k _ h
  unfold newStepK
  apply foldl_inv P _ _ _ _ h
  intro acc id _ h
  unfold newStepId
  apply foldl_inv P _ _ _ _ h
  intro acc d _ h
  exact hD acc k d h

/-! Step characterisations. -/

theorem newStepD_deps_query (b : List (Nat × Nat)) (acc : AMap × AMap) (k d : Nat) (z : Nat × Nat) :
    z.2 ∈ (newStepD b k acc d).2.query z.1 ↔
      (z.2 ∈ acc.2.query z.1 ∨ (lookup b d = some z.2 ∧ z.2 ≠ k ∧ z.1 = k)) := by
  unfold newStepD
  split
  · rename_i h; simp [h]
  · rename_i r h
    split
    · rename_i hr
      have hr' : r ≠ k := by simpa using hr
      simp only [AMap.mem_query_add, List.mem_singleton, h, Option.some.injEq]
      constructor
      · rintro (h | ⟨h1, h2⟩)
        · exact Or.inl h
        · exact Or.inr ⟨h2.symm, h2 ▸ hr', h1⟩
      · rintro (h | ⟨h1, h2, h3⟩)
        · exact Or.inl h
        · exact Or.inr ⟨h3, h1.symm⟩
    · rename_i hr
      have hr' : r = k := by simpa using hr
      simp only [h, Option.some.injEq]
      constructor
      · exact Or.inl
      · rintro (h | ⟨h1, h2, h3⟩)
        · exact h
        · exact absurd (h1.symm.trans hr') h2

theorem newStepD_srcs_query (b : List (Nat × Nat)) (acc : AMap × AMap) (k d : Nat) (z : Nat × Nat) :
    z.2 ∈ (newStepD b k acc d).1.query z.1 ↔
      (z.2 ∈ acc.1.query z.1 ∨ (lookup b d = some z.1 ∧ z.1 ≠ k ∧ z.2 = k)) := by
  unfold newStepD
  split
  · rename_i h; simp [h]
  · rename_i r h
    split
    · rename_i hr
      have hr' : r ≠ k := by simpa using hr
      simp only [AMap.mem_query_add, List.mem_singleton, h, Option.some.injEq]
      constructor
      · rintro (h | ⟨h1, h2⟩)
        · exact Or.inl h
        · exact Or.inr ⟨h1.symm, h1 ▸ hr', h2⟩
      · rintro (h | ⟨h1, h2, h3⟩)
        · exact Or.inl h
        · exact Or.inr ⟨h1.symm, h3⟩
    · rename_i hr
      have hr' : r = k := by simpa using hr
      simp only [h, Option.some.injEq]
      constructor
      · exact Or.inl
      · rintro (h | ⟨h1, h2, h3⟩)
        · exact h
        · exact absurd (h1.symm.trans hr') h2

theorem newStepD_deps_isSome (b : List (Nat × Nat)) (acc : AMap × AMap) (k d : Nat) (c : Nat) :
    ((newStepD b k acc d).2.get? c).isSome = true ↔
      ((acc.2.get? c).isSome = true ∨ (∃ r, lookup b d = some r ∧ r ≠ k ∧ c = k)) := by
  unfold newStepD
  split
  · rename_i h; simp [h]
  · rename_i r h
    split
    · rename_i hr
      have hr' : r ≠ k := by simpa using hr
      simp only [AMap.isSome_get?_add, h, Option.some.injEq]
      constructor
      · rintro (h | h)
        · exact Or.inl h
        · exact Or.inr ⟨r, rfl, hr', h⟩
      · rintro (h | ⟨_, _, _, h⟩)
        · exact Or.inl h
        · exact Or.inr h
    · rename_i hr
      have hr' : r = k := by simpa using hr
      simp only [h, Option.some.injEq]
      constructor
      · exact Or.inl
      · rintro (h | ⟨r', h1, h2, _⟩)
        · exact h
        · exact absurd (h1.symm.trans hr') h2

theorem newStepD_srcs_isSome (b : List (Nat × Nat)) (acc : AMap × AMap) (k d : Nat) (c : Nat) :
    ((newStepD b k acc d).1.get? c).isSome = true ↔
      ((acc.1.get? c).isSome = true ∨ (lookup b d = some c ∧ c ≠ k)) := by
  unfold newStepD
  split
  · rename_i h; simp [h]
  · rename_i r h
    split
    · rename_i hr
      have hr' : r ≠ k := by simpa using hr
      simp only [AMap.isSome_get?_add, h, Option.some.injEq]
      constructor
      · rintro (h | h)
        · exact Or.inl h
        · exact Or.inr ⟨h.symm, h ▸ hr'⟩
      · rintro (h | ⟨h, _⟩)
        · exact Or.inl h
        · exact Or.inr h.symm
    · rename_i hr
      have hr' : r = k := by simpa using hr
      simp only [h, Option.some.injEq]
      constructor
      · exact Or.inl
      · rintro (h | ⟨h1, h2⟩)
        · exact h
        · exact absurd (h1.symm.trans hr') h2

theorem newStepD_srcs_keys_nodup (b : List (Nat × Nat)) (acc : AMap × AMap) (k d : Nat)
    (h : acc.1.keys.Nodup) : (newStepD b k acc d).1.keys.Nodup := by
  unfold newStepD
  split
  · exact h
  · split
    · exact AMap.nodup_keys_add h
    · exact h

/-! The initial maps. -/

theorem newInit_query1 (σ : Sched) (strongs : AMap) (c x : Nat) :
    x ∉ (newInit σ strongs).1.query c := by
  unfold newInit
  apply foldl_inv (fun (p : AMap × AMap) => x ∉ p.1.query c)
  · intro acc a _ h
    simp only [AMap.mem_query_add, List.not_mem_nil, and_false, or_false]
    exact h
  · simp [AMap.query, AMap.get?_nil]

theorem newInit_query2 (σ : Sched) (strongs : AMap) (c x : Nat) :
    x ∉ (newInit σ strongs).2.query c := by
  unfold newInit
  apply foldl_inv (fun (p : AMap × AMap) => x ∉ p.2.query c)
  · intro acc a _ h
    simp only [AMap.mem_query_add, List.not_mem_nil, and_false, or_false]
    exact h
  · simp [AMap.query, AMap.get?_nil]

theorem newInit_isSome1 {σ : Sched} (hσ : σ.Valid) (strongs : AMap) (c : Nat) :
    ((newInit σ strongs).1.get? c).isSome = true ↔ (strongs.get? c).isSome = true := by
  unfold newInit
  rw [foldl_rel (fun (p : AMap × AMap) (z : Nat) => (p.1.get? z).isSome = true)
    (fun k (z : Nat) => z = k) _ _
    (fun acc a _ z => AMap.isSome_get?_add) ([], []) c]
  simp only [AMap.get?_nil, Option.isSome_none, Bool.false_eq_true, false_or, exists_eq_right']
  rw [hσ.mem, AMap.mem_keys]

theorem newInit_isSome2 {σ : Sched} (hσ : σ.Valid) (strongs : AMap) (c : Nat) :
    ((newInit σ strongs).2.get? c).isSome = true ↔ (strongs.get? c).isSome = true := by
  unfold newInit
  rw [foldl_rel (fun (p : AMap × AMap) (z : Nat) => (p.2.get? z).isSome = true)
    (fun k (z : Nat) => z = k) _ _
    (fun acc a _ z => AMap.isSome_get?_add) ([], []) c]
  simp only [AMap.get?_nil, Option.isSome_none, Bool.false_eq_true, false_or, exists_eq_right']
  rw [hσ.mem, AMap.mem_keys]

theorem newInit_keys_nodup (σ : Sched) (strongs : AMap) : (newInit σ strongs).1.keys.Nodup := by
  unfold newInit
  apply foldl_inv (fun (p : AMap × AMap) => p.1.keys.Nodup)
  · intro acc a _ h
    exact AMap.nodup_keys_add h
  · exact List.nodup_nil

/-! ### Unfolding `Scc.new` -/

def newStepDM (b : List (Nat × Nat)) (k : Nat) (acc : AMap × AMap) (d : Nat) :
    Except String (AMap × AMap) :=
  match lookup b d with
  | none => Except.error "belongs[&d]: dependency without a component"
  | some repr => if repr != k then pure (acc.1.add repr [k], acc.2.add k [repr]) else pure acc

def newFoldM (σ : Sched) (idDeps : AMap) (b : List (Nat × Nat)) (strongs : AMap)
    (init : AMap × AMap) (ks : List Nat) : Except String (AMap × AMap) :=
  ks.foldlM (fun (acc : AMap × AMap) k =>
    (σ (strongs.query k)).foldlM (fun (acc : AMap × AMap) id =>
      (σ (idDeps.query id)).foldlM (newStepDM b k) acc) acc) init

theorem Scc.new_unfold (σ : Sched) (idDeps : AMap) (b : List (Nat × Nat)) :
    Scc.new σ idDeps b =
      (newFoldM σ idDeps b (newStrongs σ b) (newInit σ (newStrongs σ b)) (σ (newStrongs σ b).keys)).bind
        (fun v => .ok { strongs := newStrongs σ b, belongs := b, srcs := v.1, deps := v.2,
                        roots := srcRoots σ v.1 }) := rfl

theorem newFoldM_eq (σ : Sched) (idDeps : AMap) (b : List (Nat × Nat)) (strongs : AMap)
    (init : AMap × AMap) (ks : List Nat)
    (h : ∀ k ∈ ks, ∀ id ∈ σ (strongs.query k), ∀ d ∈ σ (idDeps.query id), (lookup b d).isSome = true) :
    newFoldM σ idDeps b strongs init ks = Except.ok (ks.foldl (newStepK σ idDeps b strongs) init) := by
  unfold newFoldM
  apply foldlM_ok_of_forall
  intro acc k hk
  unfold newStepK
  apply foldlM_ok_of_forall
  intro acc id hid
  unfold newStepId
  apply foldlM_ok_of_forall
  intro acc d hd
  have := h k hk id hid d hd
  unfold newStepD newStepDM
  cases hl : lookup b d with
  | none => rw [hl] at this; simp at this
  | some r =>
    simp only []
    split <;> rfl

theorem Scc.new_eq {σ : Sched} (hσ : σ.Valid) (idDeps : AMap) (b : List (Nat × Nat))
    (hlab : ∀ u v c, lookup b u = some c → v ∈ idDeps.query u → (lookup b v).isSome = true) :
    Scc.new σ idDeps b = .ok
      { strongs := newStrongs σ b, belongs := b,
        srcs := (newEdges σ idDeps b (newStrongs σ b)).1,
        deps := (newEdges σ idDeps b (newStrongs σ b)).2,
        roots := srcRoots σ (newEdges σ idDeps b (newStrongs σ b)).1 } := by
  rw [Scc.new_unfold, newFoldM_eq]
  · rfl
  · intro k _ id hid d hd
    rw [hσ.mem] at hid hd
    rw [newStrongs_query hσ] at hid
    exact hlab id d k hid hd


/-! ### `srcRoots` -/

theorem mem_srcRoots {σ : Sched} (hσ : σ.Valid) (srcs : AMap) (x : Nat) :
    x ∈ srcRoots σ srcs ↔ (x ∈ srcs.keys ∧ ∀ k, x ∉ srcs.query k) := by
  have h := foldl_rel (fun (roots : IdSet) (z : Nat) => z ∉ roots)
    (fun k (z : Nat) => z ∈ σ (srcs.query k))
    (fun roots k => (σ (srcs.query k)).foldl IdSet.remove roots) (σ srcs.keys)
    (by
      intro acc a _ z
      rw [IdSet.mem_foldl_remove]
      constructor
      · intro h
        by_cases hz : z ∈ acc
        · right
          exact Classical.byContradiction fun hn => h ⟨hz, hn⟩
        · exact Or.inl hz
      · rintro (h | h) ⟨h1, h2⟩
        · exact h h1
        · exact h2 h) srcs.keys x
  unfold srcRoots
  constructor
  · intro hx
    have hn : ¬ (x ∉ srcs.keys ∨ ∃ a ∈ σ srcs.keys, x ∈ σ (srcs.query a)) := fun hh => (h.mpr hh) hx
    refine ⟨Classical.byContradiction fun hc => hn (Or.inl hc), ?_⟩
    intro k hk
    by_cases hkk : k ∈ srcs.keys
    · exact hn (Or.inr ⟨k, hσ.mem.mpr hkk, hσ.mem.mpr hk⟩)
    · rw [AMap.mem_keys] at hkk
      have : srcs.get? k = none := by simpa using hkk
      rw [AMap.query_eq_nil_of_get? this] at hk
      simp at hk
  · rintro ⟨h1, h2⟩
    apply Classical.byContradiction
    intro hx
    rcases h.mp hx with h' | ⟨a, _, ha⟩
    · exact h' h1
    · exact h2 a (hσ.mem.mp ha)

theorem nodup_srcRoots (σ : Sched) (srcs : AMap) (h : srcs.keys.Nodup) : (srcRoots σ srcs).Nodup := by
  unfold srcRoots
  apply foldl_inv (fun (r : IdSet) => r.Nodup) _ _ _ _ h
  intro acc a _ hacc
  exact IdSet.nodup_foldl_remove hacc

/-! ### The specification of `Scc.new` -/

theorem newEdges_deps_query {σ : Sched} (hσ : σ.Valid) (idDeps : AMap) (b : List (Nat × Nat))
    (c d : Nat) :
    d ∈ (newEdges σ idDeps b (newStrongs σ b)).2.query c ↔ CEdge idDeps b c d := by
  unfold newEdges
  rw [newFold_rel σ idDeps b (newStrongs σ b) (fun acc (z : Nat × Nat) => z.2 ∈ acc.2.query z.1)
    (fun k d z => lookup b d = some z.2 ∧ z.2 ≠ k ∧ z.1 = k)
    (fun acc k d z => newStepD_deps_query b acc k d z) _ _ (c, d)]
  simp only [newInit_query2, false_or]
  constructor
  · rintro ⟨k, _, id, hid, d', hd', h1, h2, h3⟩
    subst h3
    rw [hσ.mem] at hid hd'
    rw [newStrongs_query hσ] at hid
    exact ⟨fun h => h2 h.symm, id, d', hid, h1, hd'⟩
  · rintro ⟨hne, u, v, hu, hv, he⟩
    refine ⟨c, ?_, u, ?_, v, ?_, hv, fun h => hne h.symm, rfl⟩
    · rw [hσ.mem, AMap.mem_keys, newStrongs_isSome hσ]
      exact ⟨u, hu⟩
    · rw [hσ.mem, newStrongs_query hσ]
      exact hu
    · rw [hσ.mem]
      exact he

theorem newEdges_srcs_query {σ : Sched} (hσ : σ.Valid) (idDeps : AMap) (b : List (Nat × Nat))
    (c d : Nat) :
    c ∈ (newEdges σ idDeps b (newStrongs σ b)).1.query d ↔ CEdge idDeps b c d := by
  unfold newEdges
  rw [newFold_rel σ idDeps b (newStrongs σ b) (fun acc (z : Nat × Nat) => z.2 ∈ acc.1.query z.1)
    (fun k d z => lookup b d = some z.1 ∧ z.1 ≠ k ∧ z.2 = k)
    (fun acc k d z => newStepD_srcs_query b acc k d z) _ _ (d, c)]
  simp only [newInit_query1, false_or]
  constructor
  · rintro ⟨k, _, id, hid, d', hd', h1, h2, h3⟩
    subst h3
    rw [hσ.mem] at hid hd'
    rw [newStrongs_query hσ] at hid
    exact ⟨fun h => h2 h.symm, id, d', hid, h1, hd'⟩
  · rintro ⟨hne, u, v, hu, hv, he⟩
    refine ⟨c, ?_, u, ?_, v, ?_, hv, fun h => hne h.symm, rfl⟩
    · rw [hσ.mem, AMap.mem_keys, newStrongs_isSome hσ]
      exact ⟨u, hu⟩
    · rw [hσ.mem, newStrongs_query hσ]
      exact hu
    · rw [hσ.mem]
      exact he

theorem newEdges_deps_isSome {σ : Sched} (hσ : σ.Valid) (idDeps : AMap) (b : List (Nat × Nat))
    (c : Nat) (hc : IsComp b c) :
    ((newEdges σ idDeps b (newStrongs σ b)).2.get? c).isSome = true := by
  unfold newEdges
  rw [newFold_rel σ idDeps b (newStrongs σ b) (fun acc (z : Nat) => (acc.2.get? z).isSome = true)
    (fun k d z => ∃ r, lookup b d = some r ∧ r ≠ k ∧ z = k)
    (fun acc k d z => newStepD_deps_isSome b acc k d z) _ _ c]
  left
  rw [newInit_isSome2 hσ, newStrongs_isSome hσ]
  exact hc

theorem newEdges_srcs_isSome {σ : Sched} (hσ : σ.Valid) (idDeps : AMap) (b : List (Nat × Nat))
    (c : Nat) :
    ((newEdges σ idDeps b (newStrongs σ b)).1.get? c).isSome = true ↔ IsComp b c := by
  unfold newEdges
  rw [newFold_rel σ idDeps b (newStrongs σ b) (fun acc (z : Nat) => (acc.1.get? z).isSome = true)
    (fun k d z => lookup b d = some z ∧ z ≠ k)
    (fun acc k d z => newStepD_srcs_isSome b acc k d z) _ _ c]
  rw [newInit_isSome1 hσ, newStrongs_isSome hσ]
  constructor
  · rintro (h | ⟨k, _, id, _, d, _, h, _⟩)
    · exact h
    · exact ⟨d, h⟩
  · exact Or.inl

theorem newEdges_srcs_keys_nodup (σ : Sched) (idDeps : AMap) (b : List (Nat × Nat)) (strongs : AMap) :
    (newEdges σ idDeps b strongs).1.keys.Nodup := by
  unfold newEdges
  apply newFold_inv σ idDeps b strongs (fun acc => acc.1.keys.Nodup)
  · intro acc k d h
    exact newStepD_srcs_keys_nodup b acc k d h
  · exact newInit_keys_nodup σ strongs

end ZV.Graph

/-! ## The release invariant and `releaseOne`, computationally -/

namespace ZV.Graph

/-- Component `d` still has an unreleased member. -/
def Alive (b : List (Nat × Nat)) (gone : List Nat) (d : Nat) : Prop :=
  ∃ v, lookup b v = some d ∧ v ∉ gone

theorem not_alive_iff {b : List (Nat × Nat)} {gone : List Nat} {d : Nat} :
    ¬ Alive b gone d ↔ ∀ v, lookup b v = some d → v ∈ gone := by
  unfold Alive
  constructor
  · intro h v hv
    exact Classical.byContradiction fun hn => h ⟨v, hv, hn⟩
  · rintro h ⟨v, hv, hn⟩
    exact hn (h v hv)

theorem Alive.isComp {b : List (Nat × Nat)} {gone : List Nat} {d : Nat} (h : Alive b gone d) :
    IsComp b d := by
  obtain ⟨v, hv, _⟩ := h
  exact ⟨v, hv⟩

theorem Alive.mono {b : List (Nat × Nat)} {gone gone' : List Nat} {d : Nat}
    (hsub : ∀ x, x ∈ gone → x ∈ gone') (h : Alive b gone' d) : Alive b gone d := by
  obtain ⟨v, hv, hn⟩ := h
  exact ⟨v, hv, fun hg => hn (hsub v hg)⟩

structure Scc.Inv (deps : AMap) (b : List (Nat × Nat)) (gone : List Nat) (g : Scc) : Prop where
  gone_nodup : gone.Nodup
  gone_sub : ∀ u, u ∈ gone → (lookup b u).isSome = true
  belongs : ∀ u, lookup g.belongs u = if u ∈ gone then none else lookup b u
  strongs_query : ∀ c u, u ∈ g.strongs.query c ↔ (lookup b u = some c ∧ u ∉ gone)
  strongs_isSome : ∀ c, (g.strongs.get? c).isSome = true ↔ Alive b gone c
  strongs_nodup : ∀ c s, g.strongs.get? c = some s → s.Nodup
  deps_isSome : ∀ c, IsComp b c → (g.deps.get? c).isSome = true
  deps_query : ∀ c d, d ∈ g.deps.query c ↔ (CEdge deps b c d ∧ Alive b gone d)
  srcs_isSome : ∀ d, Alive b gone d → (g.srcs.get? d).isSome = true
  srcs_query : ∀ c d, Alive b gone d → (c ∈ g.srcs.query d ↔ CEdge deps b c d)
  roots_nodup : g.roots.Nodup
  roots : ∀ c, c ∈ g.roots ↔ (Alive b gone c ∧ ∀ d, CEdge deps b c d → ¬ Alive b gone d)
  closed : ∀ u c, u ∈ gone → lookup b u = some c → ∀ d, CEdge deps b c d → ¬ Alive b gone d

/-- `Scc.new` succeeds on a labelling that covers all dependency targets and establishes the
invariant with nothing released. -/
theorem Scc.new_spec {σ : Sched} (hσ : σ.Valid) (deps : AMap) (b : List (Nat × Nat))
    (hlab : ∀ u v c, lookup b u = some c → v ∈ deps.query u → (lookup b v).isSome = true) :
    ∃ g, Scc.new σ deps b = .ok g ∧ Scc.Inv deps b [] g := by
  refine ⟨_, Scc.new_eq hσ deps b hlab, ?_⟩
  have halive : ∀ c, Alive b [] c ↔ IsComp b c := by
    intro c
    unfold Alive IsComp
    simp
  constructor
  · exact List.nodup_nil
  · intro u hu; simp at hu
  · intro u; simp
  · intro c u
    simp only [List.not_mem_nil, not_false_eq_true, and_true]
    exact newStrongs_query hσ b c u
  · intro c
    rw [halive]
    exact newStrongs_isSome hσ b c
  · exact newStrongs_nodup σ b
  · intro c hc
    exact newEdges_deps_isSome hσ deps b c hc
  · intro c d
    simp only []
    rw [newEdges_deps_query hσ, halive]
    constructor
    · intro h
      have h' := h
      obtain ⟨_, u, v, _, hv, _⟩ := h'
      exact ⟨h, v, hv⟩
    · exact fun h => h.1
  · intro d hd
    simp only []
    rw [newEdges_srcs_isSome hσ, ← halive]
    exact hd
  · intro c d _
    exact newEdges_srcs_query hσ deps b c d
  · exact nodup_srcRoots σ _ (newEdges_srcs_keys_nodup σ deps b _)
  · intro c
    simp only []
    rw [mem_srcRoots hσ, AMap.mem_keys, newEdges_srcs_isSome hσ, halive]
    constructor
    · rintro ⟨h1, h2⟩
      refine ⟨h1, ?_⟩
      intro d hd _
      exact h2 d ((newEdges_srcs_query hσ deps b c d).mpr hd)
    · rintro ⟨h1, h2⟩
      refine ⟨h1, ?_⟩
      intro k hk
      have hce := (newEdges_srcs_query hσ deps b c k).mp hk
      apply h2 k hce
      rw [halive]
      obtain ⟨_, u, v, _, hv, _⟩ := hce
      exact ⟨v, hv⟩
  · intro u c hu; simp at hu


/-! ### `releaseOne`, computationally -/

private theorem foldlM_ok_of_inv {α β ε : Type} (P : β → Prop) (f : β → α → Except ε β) (g : β → α → β)
    (l : List α) (acc : β) (h : ∀ acc, ∀ a ∈ l, P acc → f acc a = .ok (g acc a) ∧ P (g acc a))
    (h0 : P acc) : l.foldlM f acc = .ok (l.foldl g acc) := by
  induction l generalizing acc with
  | nil => rfl
  | cons a l ih =>
    simp only [List.foldlM_cons, List.foldl_cons]
    rw [(h acc a List.mem_cons_self h0).1]
    exact ih _ (fun acc a' ha' => h acc a' (List.mem_cons_of_mem _ ha'))
      (h acc a List.mem_cons_self h0).2

/-- `deps.map.get_mut(n).unwrap().remove(c)` -/
def relDepsStep (c : Nat) (d : AMap) (n : Nat) : AMap :=
  d.map fun (p : Nat × IdSet) => if p.1 == n then (p.1, IdSet.remove p.2 c) else (p.1, p.2)

theorem relDepsStep_get? (c : Nat) (d : AMap) (n k : Nat) :
    (relDepsStep c d n).get? k =
      if k = n then (d.get? k).map (fun s => IdSet.remove s c) else d.get? k :=
  AMap.get?_mapAt d n (fun s => IdSet.remove s c) k

theorem relDepsStep_isSome (c : Nat) (d : AMap) (n k : Nat) :
    ((relDepsStep c d n).get? k).isSome = (d.get? k).isSome := by
  rw [relDepsStep_get?]
  split <;> simp

theorem relDepsStep_query (c : Nat) (d : AMap) (n k x : Nat) :
    x ∈ (relDepsStep c d n).query k ↔ (x ∈ d.query k ∧ (k = n → x ≠ c)) := by
  unfold AMap.query
  rw [relDepsStep_get?]
  by_cases hk : k = n
  · simp only [hk, if_true, forall_const]
    cases d.get? n with
    | none => simp
    | some s => simp [IdSet.mem_remove]
  · simp [hk]

theorem relDeps_fold_isSome (c : Nat) (l : List Nat) (d : AMap) (k : Nat) :
    ((l.foldl (relDepsStep c) d).get? k).isSome = (d.get? k).isSome := by
  induction l generalizing d with
  | nil => rfl
  | cons a l ih => simp only [List.foldl_cons]; rw [ih, relDepsStep_isSome]

theorem relDeps_fold_query (c : Nat) (l : List Nat) (d : AMap) (k x : Nat) :
    x ∈ (l.foldl (relDepsStep c) d).query k ↔ (x ∈ d.query k ∧ (k ∈ l → x ≠ c)) := by
  induction l generalizing d with
  | nil => simp
  | cons a l ih =>
    simp only [List.foldl_cons]
    rw [ih, relDepsStep_query]
    simp only [List.mem_cons]
    constructor
    · rintro ⟨⟨h1, h2⟩, h3⟩
      refine ⟨h1, ?_⟩
      rintro (h | h)
      · exact h2 h
      · exact h3 h
    · rintro ⟨h1, h2⟩
      exact ⟨⟨h1, fun h => h2 (Or.inl h)⟩, fun h => h2 (Or.inr h)⟩

theorem relDeps_foldM (c : Nat) (l : List Nat) (d : AMap)
    (h : ∀ n ∈ l, (d.get? n).isSome = true) :
    l.foldlM (fun (d : AMap) n =>
        match d.removeFrom? n c with
        | some d => pure d
        | none => Except.error "release: deps.map.get_mut(n).unwrap()") d
      = Except.ok (l.foldl (relDepsStep c) d) := by
  apply foldlM_ok_of_inv (fun (d : AMap) => ∀ n ∈ l, (d.get? n).isSome = true) _ _ _ _ _ h
  intro acc a ha hacc
  constructor
  · rw [AMap.removeFrom?_eq, hacc a ha]
    rfl
  · intro n hn
    rw [relDepsStep_isSome]
    exact hacc n hn

theorem Scc.releaseOne_partial (σ : Sched) (g : Scc) (id c : Nat) (s : IdSet)
    (h1 : lookup g.belongs id = some c) (h2 : g.strongs.get? c = some s)
    (h3 : IdSet.remove s id ≠ []) :
    g.releaseOne σ id = .ok
      { g with
        belongs := g.belongs.filter (·.1 != id),
        strongs := g.strongs.map fun (p : Nat × IdSet) =>
          if p.1 == c then (p.1, IdSet.remove s id) else (p.1, p.2) } := by
  unfold Scc.releaseOne
  simp only [h1, h2]
  have : (!List.isEmpty (IdSet.remove s id)) = true := by
    cases h : IdSet.remove s id with
    | nil => exact absurd h h3
    | cons a l => rfl
  rw [if_pos this]
  rfl

theorem Scc.releaseOne_last {σ : Sched} (hσ : σ.Valid) (g : Scc) (id c : Nat) (s next : IdSet)
    (h1 : lookup g.belongs id = some c) (h2 : g.strongs.get? c = some s)
    (h3 : IdSet.remove s id = []) (h4 : g.srcs.get? c = some next)
    (h5 : ∀ n ∈ next, (g.deps.get? n).isSome = true) :
    g.releaseOne σ id = .ok
      { strongs := g.strongs.remove c,
        belongs := g.belongs.filter (·.1 != id),
        srcs := g.srcs.remove c,
        deps := (σ next).foldl (relDepsStep c) g.deps,
        roots := IdSet.union (IdSet.remove g.roots c)
          (next.filter fun x => (((σ next).foldl (relDepsStep c) g.deps).query x).isEmpty) } := by
  unfold Scc.releaseOne
  simp only [h1, h2, h3, h4]
  rw [if_neg (by simp)]
  have key := relDeps_foldM c (σ next) g.deps (fun n hn => h5 n ((hσ next).mem_iff.mp hn))
  simp only [bind, Except.bind]
  generalize hX : List.foldlM (m := Except String) _ g.deps (σ next) = X
  have hX' : X = Except.ok (List.foldl (relDepsStep c) g.deps (σ next)) := hX.symm.trans key
  subst hX'
  rfl

end ZV.Graph

/-! ## `releaseOne` preserves the invariant -/

namespace ZV.Graph

private theorem lookup_ne_of_comp_ne {b : List (Nat × Nat)} {u v c d : Nat}
    (hu : lookup b u = some c) (hv : lookup b v = some d) (hne : c ≠ d) : u ≠ v := by
  intro h
  subst h
  rw [hu] at hv
  exact hne (Option.some.inj hv)

/-- Releasing a member that is not the last one of its component. -/
theorem Scc.Inv.release_partial {deps : AMap} {b : List (Nat × Nat)} {gone : List Nat} {g : Scc}
    (hinv : Scc.Inv deps b gone g) {id c : Nat} {s : IdSet}
    (hid : lookup b id = some c) (hng : id ∉ gone)
    (hroot : ∀ d, CEdge deps b c d → ¬ Alive b gone d)
    (hs : g.strongs.get? c = some s) (hrem : IdSet.remove s id ≠ []) :
    Scc.Inv deps b (id :: gone)
      { g with
        belongs := g.belongs.filter (·.1 != id),
        strongs := g.strongs.map fun (p : Nat × IdSet) =>
          if p.1 == c then (p.1, IdSet.remove s id) else (p.1, p.2) } := by
  have hsq : ∀ u, u ∈ s ↔ (lookup b u = some c ∧ u ∉ gone) := by
    intro u
    rw [← hinv.strongs_query c u, AMap.query_eq_of_get? hs]
  have halive : ∀ d, Alive b (id :: gone) d ↔ Alive b gone d := by
    intro d
    constructor
    · exact Alive.mono (fun x hx => List.mem_cons_of_mem _ hx)
    · rintro ⟨v, hv, hvn⟩
      by_cases hdc : d = c
      · subst hdc
        cases hr : IdSet.remove s id with
        | nil => exact absurd hr hrem
        | cons a l =>
          have ha : a ∈ IdSet.remove s id := by rw [hr]; exact List.mem_cons_self
          rw [IdSet.mem_remove, hsq] at ha
          refine ⟨a, ha.1.1, ?_⟩
          simp only [List.mem_cons, not_or]
          exact ⟨ha.2, ha.1.2⟩
      · refine ⟨v, hv, ?_⟩
        simp only [List.mem_cons, not_or]
        exact ⟨lookup_ne_of_comp_ne hv hid hdc, hvn⟩
  have hget : ∀ k, AMap.get? (g.strongs.map fun (p : Nat × IdSet) =>
      if p.1 == c then (p.1, IdSet.remove s id) else (p.1, p.2)) k =
      if k = c then some (IdSet.remove s id) else g.strongs.get? k := by
    intro k
    rw [AMap.get?_mapAt g.strongs c (fun _ => IdSet.remove s id) k]
    by_cases hk : k = c
    · subst hk; simp [hs]
    · simp [hk]
  constructor
  · exact List.nodup_cons.mpr ⟨hng, hinv.gone_nodup⟩
  · intro u hu
    rcases List.mem_cons.mp hu with rfl | hu
    · rw [hid]; rfl
    · exact hinv.gone_sub u hu
  · intro u
    simp only []
    rw [lookup_filter_ne, hinv.belongs]
    by_cases hu : u = id
    · simp [hu]
    · simp [hu]
  · intro c' u
    simp only []
    unfold AMap.query
    rw [hget]
    by_cases hc : c' = c
    · subst hc
      simp only [if_true, Option.getD_some, IdSet.mem_remove, hsq, List.mem_cons, not_or]
      constructor
      · rintro ⟨⟨h1, h2⟩, h3⟩; exact ⟨h1, h3, h2⟩
      · rintro ⟨h1, h3, h2⟩; exact ⟨⟨h1, h2⟩, h3⟩
    · simp only [hc, if_false]
      have := hinv.strongs_query c' u
      unfold AMap.query at this
      rw [this]
      simp only [List.mem_cons, not_or]
      constructor
      · rintro ⟨h1, h2⟩
        exact ⟨h1, lookup_ne_of_comp_ne h1 hid hc, h2⟩
      · rintro ⟨h1, _, h2⟩; exact ⟨h1, h2⟩
  · intro c'
    simp only []
    rw [hget, halive, ← hinv.strongs_isSome]
    by_cases hc : c' = c
    · subst hc; simp [hs]
    · simp [hc]
  · intro c' t
    simp only []
    rw [hget]
    by_cases hc : c' = c
    · subst hc
      simp only [if_true, Option.some.injEq]
      rintro rfl
      exact IdSet.nodup_remove (hinv.strongs_nodup _ _ hs)
    · simp only [hc, if_false]
      exact hinv.strongs_nodup c' t
  · exact hinv.deps_isSome
  · intro c' d
    rw [halive]
    exact hinv.deps_query c' d
  · intro d hd
    exact hinv.srcs_isSome d ((halive d).mp hd)
  · intro c' d hd
    exact hinv.srcs_query c' d ((halive d).mp hd)
  · exact hinv.roots_nodup
  · intro c'
    simp only [halive]
    exact hinv.roots c'
  · intro u c' hu hc' d hd
    rw [halive]
    rcases List.mem_cons.mp hu with rfl | hu
    · rw [hid] at hc'
      cases hc'
      exact hroot d hd
    · exact hinv.closed u c' hu hc' d hd


/-- Releasing the last member of a component. -/
theorem Scc.Inv.release_last {σ : Sched} (hσ : σ.Valid) {deps : AMap} {b : List (Nat × Nat)}
    {gone : List Nat} {g : Scc}
    (hinv : Scc.Inv deps b gone g) {id c : Nat} {s next : IdSet}
    (hid : lookup b id = some c) (hng : id ∉ gone)
    (hroot : ∀ d, CEdge deps b c d → ¬ Alive b gone d)
    (hs : g.strongs.get? c = some s) (hrem : IdSet.remove s id = [])
    (hnext : g.srcs.get? c = some next) :
    Scc.Inv deps b (id :: gone)
      { strongs := g.strongs.remove c,
        belongs := g.belongs.filter (·.1 != id),
        srcs := g.srcs.remove c,
        deps := (σ next).foldl (relDepsStep c) g.deps,
        roots := IdSet.union (IdSet.remove g.roots c)
          (next.filter fun x => (((σ next).foldl (relDepsStep c) g.deps).query x).isEmpty) } := by
  have hsq : ∀ u, u ∈ s ↔ (lookup b u = some c ∧ u ∉ gone) := by
    intro u
    rw [← hinv.strongs_query c u, AMap.query_eq_of_get? hs]
  have hcalive : Alive b gone c := ⟨id, hid, hng⟩
  have hcdead : ¬ Alive b (id :: gone) c := by
    rintro ⟨v, hv, hvn⟩
    simp only [List.mem_cons, not_or] at hvn
    have : v ∈ IdSet.remove s id := by
      rw [IdSet.mem_remove, hsq]
      exact ⟨⟨hv, hvn.2⟩, hvn.1⟩
    rw [hrem] at this
    simp at this
  have halive : ∀ d, Alive b (id :: gone) d ↔ (Alive b gone d ∧ d ≠ c) := by
    intro d
    constructor
    · intro h
      refine ⟨Alive.mono (fun x hx => List.mem_cons_of_mem _ hx) h, ?_⟩
      rintro rfl
      exact hcdead h
    · rintro ⟨⟨v, hv, hvn⟩, hdc⟩
      refine ⟨v, hv, ?_⟩
      simp only [List.mem_cons, not_or]
      exact ⟨lookup_ne_of_comp_ne hv hid hdc, hvn⟩
  have hnextq : ∀ n, n ∈ next ↔ CEdge deps b n c := by
    intro n
    rw [← hinv.srcs_query n c hcalive, AMap.query_eq_of_get? hnext]
  have hdq : ∀ k x, x ∈ ((σ next).foldl (relDepsStep c) g.deps).query k ↔
      (CEdge deps b k x ∧ Alive b (id :: gone) x) := by
    intro k x
    rw [relDeps_fold_query, hinv.deps_query, halive, hσ.mem, hnextq]
    constructor
    · rintro ⟨⟨h1, h2⟩, h3⟩
      refine ⟨h1, h2, ?_⟩
      rintro rfl
      exact h3 h1 rfl
    · rintro ⟨h1, h2, h3⟩
      exact ⟨⟨h1, h2⟩, fun _ => h3⟩
  constructor
  · exact List.nodup_cons.mpr ⟨hng, hinv.gone_nodup⟩
  · intro u hu
    rcases List.mem_cons.mp hu with rfl | hu
    · rw [hid]; rfl
    · exact hinv.gone_sub u hu
  · intro u
    simp only []
    rw [lookup_filter_ne, hinv.belongs]
    by_cases hu : u = id
    · simp [hu]
    · simp [hu]
  · intro c' u
    simp only []
    unfold AMap.query
    rw [AMap.get?_remove]
    by_cases hc : c' = c
    · subst hc
      simp only [if_true, Option.getD_none, List.not_mem_nil, false_iff]
      rintro ⟨h1, h2⟩
      exact hcdead ⟨u, h1, h2⟩
    · simp only [hc, if_false]
      have := hinv.strongs_query c' u
      unfold AMap.query at this
      rw [this]
      simp only [List.mem_cons, not_or]
      constructor
      · rintro ⟨h1, h2⟩
        exact ⟨h1, lookup_ne_of_comp_ne h1 hid hc, h2⟩
      · rintro ⟨h1, _, h2⟩; exact ⟨h1, h2⟩
  · intro c'
    simp only []
    rw [AMap.get?_remove, halive, ← hinv.strongs_isSome]
    by_cases hc : c' = c
    · subst hc; simp
    · simp [hc]
  · intro c' t
    simp only []
    rw [AMap.get?_remove]
    by_cases hc : c' = c
    · subst hc; simp
    · simp only [hc, if_false]
      exact hinv.strongs_nodup c' t
  · intro c' hc'
    simp only []
    rw [relDeps_fold_isSome]
    exact hinv.deps_isSome c' hc'
  · exact hdq
  · intro d hd
    simp only []
    rw [halive] at hd
    rw [AMap.get?_remove, if_neg hd.2]
    exact hinv.srcs_isSome d hd.1
  · intro c' d hd
    simp only []
    rw [halive] at hd
    unfold AMap.query
    rw [AMap.get?_remove, if_neg hd.2]
    exact hinv.srcs_query c' d hd.1
  · exact IdSet.nodup_union (IdSet.nodup_remove hinv.roots_nodup)
  · intro x
    simp only []
    rw [IdSet.mem_union, IdSet.mem_remove, List.mem_filter, hinv.roots, hnextq]
    have hempty : ∀ k, (((σ next).foldl (relDepsStep c) g.deps).query k).isEmpty = true ↔
        ∀ d, CEdge deps b k d → ¬ Alive b (id :: gone) d := by
      intro k
      rw [List.isEmpty_iff]
      constructor
      · intro h d hd ha
        have : d ∈ ((σ next).foldl (relDepsStep c) g.deps).query k := (hdq k d).mpr ⟨hd, ha⟩
        rw [h] at this
        simp at this
      · intro h
        apply List.eq_nil_iff_forall_not_mem.mpr
        intro d hd
        have := (hdq k d).mp hd
        exact h d this.1 this.2
    rw [hempty]
    constructor
    · rintro (⟨⟨h1, h2⟩, h3⟩ | ⟨h1, h2⟩)
      · refine ⟨(halive x).mpr ⟨h1, h3⟩, ?_⟩
        intro d hd ha
        exact h2 d hd ((halive d).mp ha).1
      · refine ⟨?_, h2⟩
        rw [halive]
        refine ⟨?_, h1.1⟩
        obtain ⟨hne, u, v, hu, hv, he⟩ := h1
        refine ⟨u, hu, ?_⟩
        intro hug
        exact hinv.closed u x hug hu c ⟨hne, u, v, hu, hv, he⟩ hcalive
    · rintro ⟨h1, h2⟩
      rw [halive] at h1
      by_cases hall : ∀ d, CEdge deps b x d → ¬ Alive b gone d
      · exact Or.inl ⟨⟨h1.1, hall⟩, h1.2⟩
      · right
        refine ⟨?_, h2⟩
        apply Classical.byContradiction
        intro hnc
        apply hall
        intro d hd ha
        apply h2 d hd
        rw [halive]
        refine ⟨ha, ?_⟩
        rintro rfl
        exact hnc hd
  · intro u c' hu hc' d hd ha
    rw [halive] at ha
    rcases List.mem_cons.mp hu with rfl | hu
    · rw [hid] at hc'
      cases hc'
      exact hroot d hd ha.1
    · exact hinv.closed u c' hu hc' d hd ha.1

/-- **`releaseOne` preserves the invariant** and never reaches an `unreachable!`/`unwrap` site,
provided the id is an unreleased member of a component all of whose dependencies are gone. -/
theorem Scc.releaseOne_preserves_inv {σ : Sched} (hσ : σ.Valid) {deps : AMap}
    {b : List (Nat × Nat)} {gone : List Nat} {g : Scc}
    (hinv : Scc.Inv deps b gone g) {id c : Nat}
    (hid : lookup b id = some c) (hng : id ∉ gone)
    (hroot : ∀ d, CEdge deps b c d → ¬ Alive b gone d) :
    ∃ g', g.releaseOne σ id = .ok g' ∧ Scc.Inv deps b (id :: gone) g' := by
  have hcalive : Alive b gone c := ⟨id, hid, hng⟩
  have h1 : lookup g.belongs id = some c := by
    rw [hinv.belongs, if_neg hng, hid]
  obtain ⟨s, hs⟩ := Option.isSome_iff_exists.mp ((hinv.strongs_isSome c).mpr hcalive)
  by_cases hrem : IdSet.remove s id = []
  · obtain ⟨next, hnext⟩ := Option.isSome_iff_exists.mp (hinv.srcs_isSome c hcalive)
    refine ⟨_, Scc.releaseOne_last hσ g id c s next h1 hs hrem hnext ?_, ?_⟩
    · intro n hn
      apply hinv.deps_isSome
      have : n ∈ g.srcs.query c := by rw [AMap.query_eq_of_get? hnext]; exact hn
      rw [hinv.srcs_query n c hcalive] at this
      obtain ⟨_, u, _, hu, _, _⟩ := this
      exact ⟨u, hu⟩
    · exact hinv.release_last hσ hid hng hroot hs hrem hnext
  · exact ⟨_, Scc.releaseOne_partial σ g id c s h1 hs hrem,
      hinv.release_partial hid hng hroot hs hrem⟩

end ZV.Graph

/-! ## Consequences of `IsSccLabeling`, `Scc.top`, piecemeal release -/

namespace ZV.Graph

/-! ### `allNodes` -/

private theorem mem_allNodes {deps : AMap} {u : Nat} :
    u ∈ allNodes deps ↔ ∃ p ∈ deps, (u = p.1 ∨ u ∈ p.2) := by
  unfold allNodes
  rw [foldl_rel (fun (acc : IdSet) (z : Nat) => z ∈ acc)
    (fun (p : Nat × IdSet) (z : Nat) => z = p.1 ∨ z ∈ p.2) _ deps
    (by
      intro acc a _ z
      obtain ⟨k, ds⟩ := a
      simp only [IdSet.mem_union, IdSet.mem_insert, or_assoc]) [] u]
  simp

private theorem Edge.mem_allNodes_right {deps : AMap} {u v : Nat} (h : Edge deps u v) : v ∈ allNodes deps := by
  unfold Edge AMap.query at h
  cases hq : deps.get? u with
  | none => rw [hq] at h; simp at h
  | some s =>
    rw [hq] at h
    exact mem_allNodes.mpr ⟨(u, s), AMap.get?_mem hq, Or.inr h⟩

private theorem Edge.mem_allNodes_left {deps : AMap} {u v : Nat} (h : Edge deps u v) : u ∈ allNodes deps := by
  unfold Edge AMap.query at h
  cases hq : deps.get? u with
  | none => rw [hq] at h; simp at h
  | some s =>
    exact mem_allNodes.mpr ⟨(u, s), AMap.get?_mem hq, Or.inl rfl⟩

/-! ### Consequences of `IsSccLabeling` -/

theorem IsSccLabeling.target_labelled {deps : AMap} {b : List (Nat × Nat)} (hb : IsSccLabeling deps b)
    (u v c : Nat) (_ : lookup b u = some c) (hv : v ∈ deps.query u) : (lookup b v).isSome = true :=
  (hb.2.1 v).mp (Edge.mem_allNodes_right (u := u) hv)

theorem IsSccLabeling.edge_labelled {deps : AMap} {b : List (Nat × Nat)} (hb : IsSccLabeling deps b)
    {u v : Nat} (h : Edge deps u v) : ∃ c d, lookup b u = some c ∧ lookup b v = some d := by
  obtain ⟨c, hc⟩ := Option.isSome_iff_exists.mp ((hb.2.1 u).mp h.mem_allNodes_left)
  obtain ⟨d, hd⟩ := Option.isSome_iff_exists.mp ((hb.2.1 v).mp h.mem_allNodes_right)
  exact ⟨c, d, hc, hd⟩

theorem IsSccLabeling.cedge_of_edge {deps : AMap} {b : List (Nat × Nat)} (hb : IsSccLabeling deps b)
    {u v c : Nat} (hu : lookup b u = some c) (h : Edge deps u v) (hns : ¬ SameScc deps u v) :
    ∃ d, lookup b v = some d ∧ CEdge deps b c d := by
  obtain ⟨c', d, hc', hd⟩ := hb.edge_labelled h
  rw [hu] at hc'
  cases hc'
  refine ⟨d, hd, ?_, u, v, hu, hd, h⟩
  intro hcd
  exact hns ((hb.2.2 u v c d hu hd).mp hcd)

/-! ### `Scc.top` -/

theorem Scc.mem_top {σ : Sched} (hσ : σ.Valid) {g : Scc} {grp : IdSet} :
    grp ∈ g.top σ ↔ ∃ root ∈ g.roots, ∃ s, g.strongs.get? root = some s ∧ grp = σ s := by
  unfold Scc.top
  rw [List.mem_filterMap]
  constructor
  · rintro ⟨root, hr, h⟩
    rw [hσ.mem] at hr
    cases hs : g.strongs.get? root with
    | none => rw [hs] at h; simp at h
    | some s =>
      rw [hs] at h
      simp only [Option.map_some, Option.some.injEq] at h
      exact ⟨root, hr, s, hs, h.symm⟩
  · rintro ⟨root, hr, s, hs, rfl⟩
    exact ⟨root, hσ.mem.mpr hr, by rw [hs]; rfl⟩

/-- What being on offer means under the invariant. -/
theorem Scc.Inv.of_mem_top {σ : Sched} (hσ : σ.Valid) {deps : AMap} {b : List (Nat × Nat)}
    {gone : List Nat} {g : Scc} (hinv : Scc.Inv deps b gone g) {grp : IdSet} (hgrp : grp ∈ g.top σ) :
    ∃ c, (∀ u, u ∈ grp ↔ (lookup b u = some c ∧ u ∉ gone)) ∧
      Alive b gone c ∧ (∀ d, CEdge deps b c d → ¬ Alive b gone d) ∧ grp.Nodup ∧ c ∈ g.roots := by
  obtain ⟨root, hr, s, hs, rfl⟩ := (Scc.mem_top hσ).mp hgrp
  refine ⟨root, ?_, ((hinv.roots root).mp hr).1, ((hinv.roots root).mp hr).2,
    hσ.nodup.mpr (hinv.strongs_nodup _ _ hs), hr⟩
  intro u
  rw [hσ.mem, ← hinv.strongs_query, AMap.query_eq_of_get? hs]

/-! ### kosaraju -/

private theorem kosaraju_ok {σ : Sched} {deps : AMap} {g : Scc} (h : kosaraju σ deps = .ok g) :
    ∃ b, kosarajuBelongs σ deps = .ok b ∧ Scc.new σ deps b = .ok g := by
  unfold kosaraju at h
  cases hb : kosarajuBelongs σ deps with
  | error e => rw [hb] at h; cases h
  | ok b => rw [hb] at h; exact ⟨b, rfl, h⟩

/-- The state built by `kosaraju` satisfies the invariant with nothing released. -/
theorem kosaraju_inv (hK : ZV.Props.C08.Statement.kosaraju_correct)
    {σ : Sched} (hσ : σ.Valid) {deps : AMap} (hwf : WfGraph deps) {g : Scc}
    (h : kosaraju σ deps = .ok g) :
    ∃ b, kosarajuBelongs σ deps = .ok b ∧ IsSccLabeling deps b ∧ Scc.Inv deps b [] g := by
  obtain ⟨b, hb, hnew⟩ := kosaraju_ok h
  have hlab := hK σ deps b hσ hwf hb
  obtain ⟨g', hg', hinv⟩ := Scc.new_spec hσ deps b hlab.target_labelled
  rw [hnew] at hg'
  cases hg'
  exact ⟨b, hb, hlab, hinv⟩

/-! ### Piecemeal release -/

private theorem foldlM_take_succ {α β : Type} (f : β → α → Except String β) (l : List α) (k : Nat) (a : α)
    (init g : β) (hk : l[k]? = some a) (h : (l.take k).foldlM f init = .ok g) :
    (l.take (k + 1)).foldlM f init = f g a := by
  rw [List.take_add_one, hk, List.foldlM_append, h]
  simp only [bind, Except.bind, Option.toList_some, List.foldlM_cons, List.foldlM_nil]
  cases f g a <;> rfl

theorem piecemeal_prefix {σ : Sched} (hσ : σ.Valid) {deps : AMap} {b : List (Nat × Nat)} {g : Scc}
    (hinv0 : Scc.Inv deps b [] g) (script : List Nat)
    (hscript : ∀ (k : Nat) (gk : Scc) (id : Nat),
        (script.take k).foldlM (Scc.releaseOne σ) g = .ok gk → script[k]? = some id →
        ∃ grp ∈ gk.top σ, id ∈ grp) (k : Nat) (hk : k ≤ script.length) :
    ∃ gk, (script.take k).foldlM (Scc.releaseOne σ) g = .ok gk ∧
      Scc.Inv deps b (script.take k).reverse gk := by
  induction k with
  | zero => exact ⟨g, rfl, hinv0⟩
  | succ k ih =>
    obtain ⟨gk, hgk, hinv⟩ := ih (Nat.le_of_succ_le hk)
    have hlt : k < script.length := hk
    have hid : script[k]? = some script[k] := List.getElem?_eq_getElem hlt
    obtain ⟨grp, hgrp, hmem⟩ := hscript k gk _ hgk hid
    obtain ⟨c, hc, _, hroot, _, _⟩ := hinv.of_mem_top hσ hgrp
    obtain ⟨g', hg', hinv'⟩ := Scc.releaseOne_preserves_inv hσ hinv ((hc _).mp hmem).1
      ((hc _).mp hmem).2 hroot
    refine ⟨g', ?_, ?_⟩
    · rw [foldlM_take_succ _ _ _ _ _ _ hid hgk]
      exact hg'
    · have : (List.take (k + 1) script).reverse = script[k] :: (List.take k script).reverse := by
        rw [List.take_add_one, hid]
        simp
      rw [this]
      exact hinv'

end ZV.Graph

namespace ZV.Graph
open ZV.Props.C08

/-- **C08, piecemeal release.** -/
theorem release_piecemeal_safe_pf (_hT : Statement.kosaraju_total) (hK : Statement.kosaraju_correct) :
    Statement.release_piecemeal_safe := by
  intro σ deps g script hσ hwf hg hscript
  obtain ⟨b, _, hlab, hinv0⟩ := kosaraju_inv hK hσ hwf hg
  obtain ⟨g', hg', hinv⟩ := piecemeal_prefix hσ hinv0 script hscript script.length (Nat.le_refl _)
  rw [List.take_length] at hg' hinv
  refine ⟨g', hg', ?_⟩
  intro grp hgrp u hu v he hns
  obtain ⟨c, hc, _, hroot, _, _⟩ := hinv.of_mem_top hσ hgrp
  obtain ⟨d, hd, hcd⟩ := hlab.cedge_of_edge ((hc u).mp hu).1 he hns
  have := not_alive_iff.mp (hroot d hcd) v hd
  simpa using this

end ZV.Graph

/-! ## Sinks of finite acyclic relations; the condensation is acyclic -/

namespace ZV.Graph

/-- Reflexive-transitive closure. -/
inductive DrainRTC {α : Type} (E : α → α → Prop) : α → α → Prop
  | refl (a : α) : DrainRTC E a a
  | step {a b c : α} : E a b → DrainRTC E b c → DrainRTC E a c

theorem DrainRTC.trans {α : Type} {E : α → α → Prop} {a b c : α} (h1 : DrainRTC E a b) (h2 : DrainRTC E b c) :
    DrainRTC E a c := by
  induction h1 with
  | refl => exact h2
  | step e _ ih => exact DrainRTC.step e (ih h2)

theorem DrainRTC.single {α : Type} {E : α → α → Prop} {a b : α} (h : E a b) : DrainRTC E a b :=
  DrainRTC.step h (DrainRTC.refl b)

open Classical in
/-- Number of elements of `U` satisfying `p`. -/
private noncomputable def cnt {α : Type} (U : List α) (p : α → Prop) : Nat :=
  (U.filter fun x => decide (p x)).length

private theorem cnt_le {α : Type} (U : List α) (p q : α → Prop) (hpq : ∀ x ∈ U, p x → q x) :
    cnt U p ≤ cnt U q := by
  unfold cnt
  induction U with
  | nil => simp
  | cons a U ih =>
    have ih' := ih (fun x hx => hpq x (List.mem_cons_of_mem _ hx))
    simp only [List.filter_cons]
    by_cases hp : p a
    · have hq := hpq a List.mem_cons_self hp
      simp only [hp, hq, decide_true, if_true, List.length_cons]
      omega
    · by_cases hq : q a
      · simp only [hp, hq, decide_true, decide_false, if_true, List.length_cons]
        simp only [Bool.false_eq_true, if_false]
        omega
      · simp only [hp, hq, decide_false, Bool.false_eq_true, if_false]
        exact ih'

private theorem cnt_lt {α : Type} (U : List α) (p q : α → Prop) (hpq : ∀ x ∈ U, p x → q x)
    (x : α) (hx : x ∈ U) (hqx : q x) (hpx : ¬ p x) : cnt U p < cnt U q := by
  induction U with
  | nil => simp at hx
  | cons a U ih =>
    have hle := cnt_le U p q (fun x hx => hpq x (List.mem_cons_of_mem _ hx))
    unfold cnt at *
    simp only [List.filter_cons]
    rcases List.mem_cons.mp hx with rfl | hx'
    · simp only [hpx, hqx, decide_true, decide_false, if_true, List.length_cons]
      simp only [Bool.false_eq_true, if_false]
      omega
    · have ih' := ih (fun x hx => hpq x (List.mem_cons_of_mem _ hx)) hx'
      by_cases hp : p a
      · have hq := hpq a List.mem_cons_self hp
        simp only [hp, hq, decide_true, if_true, List.length_cons]
        omega
      · by_cases hq : q a
        · simp only [hp, hq, decide_true, decide_false, if_true, List.length_cons]
          simp only [Bool.false_eq_true, if_false]
          omega
        · simp only [hp, hq, decide_false, Bool.false_eq_true, if_false]
          exact ih'

/-- In a finite acyclic relation, every non-empty set `P` has an element without a successor
in `P`. -/
private theorem exists_sink {α : Type} (U : List α) (E : α → α → Prop) (P : α → Prop)
    (hU : ∀ x, P x → x ∈ U)
    (hacyc : ∀ x y, E x y → ¬ DrainRTC E y x)
    (x0 : α) (hx0 : P x0) : ∃ r, P r ∧ ∀ d, E r d → ¬ P d := by
  have key : ∀ n x, P x → cnt U (DrainRTC E x) ≤ n → ∃ r, P r ∧ ∀ d, E r d → ¬ P d := by
    intro n
    induction n with
    | zero =>
      intro x hx hn
      by_cases hall : ∀ d, E x d → ¬ P d
      · exact ⟨x, hx, hall⟩
      · exfalso
        have : cnt U (fun _ => False) < cnt U (DrainRTC E x) :=
          cnt_lt U _ _ (fun _ _ h => h.elim) x (hU x hx) (DrainRTC.refl x) (fun h => h)
        omega
    | succ n ih =>
      intro x hx hn
      by_cases hall : ∀ d, E x d → ¬ P d
      · exact ⟨x, hx, hall⟩
      · have : ∃ d, E x d ∧ P d := by
          apply Classical.byContradiction
          intro hne
          apply hall
          intro d hd hp
          exact hne ⟨d, hd, hp⟩
        obtain ⟨d, hd, hpd⟩ := this
        apply ih d hpd
        have : cnt U (DrainRTC E d) < cnt U (DrainRTC E x) :=
          cnt_lt U _ _ (fun y _ h => DrainRTC.step hd h) x (hU x hx) (DrainRTC.refl x) (hacyc x d hd)
        omega
  exact key _ x0 hx0 (Nat.le_refl _)

/-! ### Acyclicity of the condensation -/

private theorem Reach.trans {deps : AMap} {u v w : Nat} (h1 : Reach deps u v) (h2 : Reach deps v w) :
    Reach deps u w := by
  induction h1 with
  | refl => exact h2
  | step e _ ih => exact Reach.step e (ih h2)

private theorem Reach.eq_or_mem_allNodes {deps : AMap} {u v : Nat} (h : Reach deps u v) :
    u = v ∨ v ∈ allNodes deps := by
  induction h with
  | refl => exact Or.inl rfl
  | step e _ ih =>
    rcases ih with rfl | h
    · exact Or.inr e.mem_allNodes_right
    · exact Or.inr h

theorem IsSccLabeling.reach_of_same {deps : AMap} {b : List (Nat × Nat)} (hb : IsSccLabeling deps b)
    {u v c : Nat} (hu : lookup b u = some c) (hv : lookup b v = some c) : Reach deps u v :=
  ((hb.2.2 u v c c hu hv).mp rfl).1

theorem IsSccLabeling.reach_of_cedge {deps : AMap} {b : List (Nat × Nat)} (hb : IsSccLabeling deps b)
    {c d : Nat} (h : CEdge deps b c d) {u v : Nat} (hu : lookup b u = some c)
    (hv : lookup b v = some d) : Reach deps u v := by
  obtain ⟨_, u', v', hu', hv', he⟩ := h
  exact (hb.reach_of_same hu hu').trans (Reach.step he (hb.reach_of_same hv' hv))

theorem IsSccLabeling.reach_of_creach {deps : AMap} {b : List (Nat × Nat)} (hb : IsSccLabeling deps b)
    {c d : Nat} (h : DrainRTC (CEdge deps b) c d) {u v : Nat} (hu : lookup b u = some c)
    (hv : lookup b v = some d) : Reach deps u v := by
  induction h generalizing u with
  | refl => exact hb.reach_of_same hu hv
  | step e _ ih =>
    have e' := e
    obtain ⟨_, _, w, _, hw, _⟩ := e'
    exact (hb.reach_of_cedge e hu hw).trans (ih hw hv)

theorem IsSccLabeling.acyclic {deps : AMap} {b : List (Nat × Nat)} (hb : IsSccLabeling deps b)
    (c d : Nat) (h : CEdge deps b c d) : ¬ DrainRTC (CEdge deps b) d c := by
  intro hr
  have h' := h
  obtain ⟨hne, u, v, hu, hv, _⟩ := h'
  have h1 := hb.reach_of_cedge h hu hv
  have h2 := hb.reach_of_creach hr hv hu
  exact hne ((hb.2.2 u v c d hu hv).mpr ⟨h1, h2⟩)

/-- While a component is alive, some alive component has all its dependencies released. -/
theorem IsSccLabeling.exists_root {deps : AMap} {b : List (Nat × Nat)} (hb : IsSccLabeling deps b)
    (gone : List Nat) (c : Nat) (hc : Alive b gone c) :
    ∃ r, Alive b gone r ∧ ∀ d, CEdge deps b r d → ¬ Alive b gone d := by
  apply exists_sink (b.map (·.2)) (CEdge deps b) (Alive b gone) _ hb.acyclic c hc
  intro x hx
  obtain ⟨v, hv, _⟩ := hx
  exact List.mem_map.mpr ⟨(v, x), lookup_mem hv, rfl⟩

end ZV.Graph

/-! ## Releasing whole rounds; the emitted sequence -/

namespace ZV.Graph

private theorem nodup_eraseDups (l : List Nat) : l.eraseDups.Nodup := by
  generalize hn : l.length = n
  induction n using Nat.strongRecOn generalizing l with
  | _ n ih =>
    cases l with
    | nil => simp
    | cons a as =>
      rw [List.eraseDups_cons, List.nodup_cons]
      refine ⟨?_, ih (as.filter fun b => !b == a).length ?_ _ rfl⟩
      · rw [List.mem_eraseDups]; simp
      · subst hn
        simp only [List.length_cons]
        exact Nat.lt_succ_of_le (List.length_filter_le _ _)

private theorem length_eraseDups_of_nodup {l : List Nat} (h : l.Nodup) : l.eraseDups.length = l.length :=
  ((List.perm_ext_iff_of_nodup (nodup_eraseDups l) h).mpr (fun _ => List.mem_eraseDups)).length_eq

/-- Releasing a duplicate-free list of ids, each an unreleased member of a component whose
dependencies are all gone. -/
theorem Scc.release_list {σ : Sched} (hσ : σ.Valid) {deps : AMap} {b : List (Nat × Nat)}
    (L : List Nat) (hL : L.Nodup) {gone : List Nat} {g : Scc} (hinv : Scc.Inv deps b gone g)
    (hmem : ∀ id ∈ L, id ∉ gone ∧
      ∃ c, lookup b id = some c ∧ ∀ d, CEdge deps b c d → ¬ Alive b gone d) :
    ∃ g', L.foldlM (Scc.releaseOne σ) g = .ok g' ∧ Scc.Inv deps b (L.reverse ++ gone) g' := by
  induction L generalizing gone g with
  | nil => exact ⟨g, rfl, by simpa using hinv⟩
  | cons id L ih =>
    obtain ⟨hng, c, hc, hroot⟩ := hmem id List.mem_cons_self
    obtain ⟨g1, hg1, hinv1⟩ := Scc.releaseOne_preserves_inv hσ hinv hc hng hroot
    rw [List.nodup_cons] at hL
    obtain ⟨g', hg', hinv'⟩ := ih hL.2 hinv1 (by
      intro id' hid'
      obtain ⟨hng', c', hc', hroot'⟩ := hmem id' (List.mem_cons_of_mem _ hid')
      refine ⟨?_, c', hc', ?_⟩
      · simp only [List.mem_cons, not_or]
        exact ⟨fun h => hL.1 (h ▸ hid'), hng'⟩
      · intro d hd ha
        exact hroot' d hd (Alive.mono (fun x hx => List.mem_cons_of_mem _ hx) ha))
    refine ⟨g', ?_, ?_⟩
    · simp only [List.foldlM_cons, hg1, bind, Except.bind]
      exact hg'
    · have : (id :: L).reverse ++ gone = L.reverse ++ id :: gone := by simp
      rw [this]
      exact hinv'

theorem Scc.release_spec {σ : Sched} (hσ : σ.Valid) {deps : AMap} {b : List (Nat × Nat)}
    (ids : List Nat) {gone : List Nat} {g : Scc} (hinv : Scc.Inv deps b gone g)
    (hmem : ∀ id ∈ ids, id ∉ gone ∧
      ∃ c, lookup b id = some c ∧ ∀ d, CEdge deps b c d → ¬ Alive b gone d) :
    ∃ g', g.release σ ids = .ok g' ∧
      Scc.Inv deps b ((σ ids.eraseDups).reverse ++ gone) g' := by
  unfold Scc.release
  apply Scc.release_list hσ _ (hσ.nodup.mpr (nodup_eraseDups ids)) hinv
  intro id hid
  rw [hσ.mem, List.mem_eraseDups] at hid
  exact hmem id hid

/-! ### The sequence of emitted groups -/

structure Good (deps : AMap) (b : List (Nat × Nat)) (gone : List Nat) (E : List IdSet) : Prop where
  nodup : (E.flatMap id).Nodup
  mem : ∀ u, u ∈ gone ↔ u ∈ E.flatMap id
  comp : ∀ grp ∈ E, grp ≠ [] ∧ ∃ c, ∀ u, u ∈ grp ↔ lookup b u = some c
  ordered : ∀ i grp, E[i]? = some grp → ∀ u ∈ grp, ∀ v, Edge deps u v → ¬ SameScc deps u v →
    v ∈ (E.take i).flatMap id

theorem Good.nil (deps : AMap) (b : List (Nat × Nat)) : Good deps b [] [] := by
  constructor
  · simp
  · simp
  · simp
  · intro i grp h; simp at h

/-- Released components are released entirely. -/
theorem Good.whole {deps : AMap} {b : List (Nat × Nat)} {gone : List Nat} {E : List IdSet}
    (hg : Good deps b gone E) {c : Nat} (hc : Alive b gone c) {u : Nat} (hu : lookup b u = some c) :
    u ∉ gone := by
  intro hug
  rw [hg.mem, List.mem_flatMap] at hug
  obtain ⟨grp, hgrp, hmem⟩ := hug
  obtain ⟨_, c', hc'⟩ := hg.comp grp hgrp
  have : lookup b u = some c' := (hc' u).mp hmem
  rw [hu] at this
  cases this
  obtain ⟨v, hv, hvn⟩ := hc
  apply hvn
  rw [hg.mem, List.mem_flatMap]
  exact ⟨grp, hgrp, (hc' v).mpr hv⟩

/-- The groups offered by `top` when only whole components have been released. -/
theorem Scc.Inv.top_spec {σ : Sched} (hσ : σ.Valid) {deps : AMap} {b : List (Nat × Nat)}
    {gone : List Nat} {g : Scc} {E : List IdSet}
    (hinv : Scc.Inv deps b gone g) (hgood : Good deps b gone E) :
    (∀ grp ∈ g.top σ, grp ≠ [] ∧ grp.Nodup ∧ ∃ c, (∀ u, u ∈ grp ↔ lookup b u = some c) ∧
      Alive b gone c ∧ ∀ d, CEdge deps b c d → ¬ Alive b gone d) ∧
    ((g.top σ).flatMap id).Nodup := by
  have h1 : ∀ grp ∈ g.top σ, grp ≠ [] ∧ grp.Nodup ∧ ∃ c, (∀ u, u ∈ grp ↔ lookup b u = some c) ∧
      Alive b gone c ∧ ∀ d, CEdge deps b c d → ¬ Alive b gone d := by
    intro grp hgrp
    obtain ⟨c, hc, halive, hroot, hnd, _⟩ := hinv.of_mem_top hσ hgrp
    have hc' : ∀ u, u ∈ grp ↔ lookup b u = some c := by
      intro u
      rw [hc]
      exact ⟨fun h => h.1, fun h => ⟨h, hgood.whole halive h⟩⟩
    refine ⟨?_, hnd, c, hc', halive, hroot⟩
    obtain ⟨v, hv, _⟩ := halive
    intro hnil
    have := (hc' v).mpr hv
    rw [hnil] at this
    simp at this
  refine ⟨h1, ?_⟩
  have : List.Nodup ((g.top σ).flatMap id) ↔ List.Pairwise (· ≠ ·) ((g.top σ).flatMap id) := Iff.rfl
  rw [this, List.pairwise_flatMap]
  refine ⟨fun grp hgrp => (h1 grp hgrp).2.1, ?_⟩
  unfold Scc.top
  apply List.Pairwise.filterMap (R := (· ≠ ·))
  · intro r r' hne grp hgrp grp' hgrp' x hx y hy
    cases hs : g.strongs.get? r with
    | none => rw [hs] at hgrp; simp at hgrp
    | some s =>
      cases hs' : g.strongs.get? r' with
      | none => rw [hs'] at hgrp'; simp at hgrp'
      | some s' =>
        rw [hs] at hgrp
        rw [hs'] at hgrp'
        simp only [Option.map_some, Option.some.injEq] at hgrp hgrp'
        subst hgrp; subst hgrp'
        simp only [id] at hx hy
        rw [hσ.mem] at hx hy
        have hx' := (hinv.strongs_query r x).mp (by rw [AMap.query_eq_of_get? hs]; exact hx)
        have hy' := (hinv.strongs_query r' y).mp (by rw [AMap.query_eq_of_get? hs']; exact hy)
        exact lookup_ne_of_comp_ne hx'.1 hy'.1 hne
  · exact hσ.nodup.mpr hinv.roots_nodup

/-- `top` is non-empty while a component is alive. -/
theorem Scc.Inv.top_ne_nil {σ : Sched} (hσ : σ.Valid) {deps : AMap} {b : List (Nat × Nat)}
    (hb : IsSccLabeling deps b) {gone : List Nat} {g : Scc}
    (hinv : Scc.Inv deps b gone g) {c : Nat} (hc : Alive b gone c) : g.top σ ≠ [] := by
  obtain ⟨r, hr, hroot⟩ := hb.exists_root gone c hc
  obtain ⟨s, hs⟩ := Option.isSome_iff_exists.mp ((hinv.strongs_isSome r).mpr hr)
  have : σ s ∈ g.top σ :=
    (Scc.mem_top hσ).mpr ⟨r, (hinv.roots r).mpr ⟨hr, hroot⟩, s, hs, rfl⟩
  intro h
  rw [h] at this
  simp at this

private theorem length_le_flatMap_id (l : List IdSet) (h : ∀ g ∈ l, g ≠ []) :
    l.length ≤ (l.flatMap id).length := by
  induction l with
  | nil => simp
  | cons a l ih =>
    simp only [List.flatMap_cons, List.length_cons, List.length_append, id]
    have := ih (fun g hg => h g (List.mem_cons_of_mem _ hg))
    have ha : a ≠ [] := h a List.mem_cons_self
    have : 0 < a.length := List.length_pos_iff.mpr ha
    omega

/-- One round: appending the offered groups (in any order) to the emitted sequence. -/
theorem Good.round {σ : Sched} (hσ : σ.Valid) {deps : AMap} {b : List (Nat × Nat)}
    (hb : IsSccLabeling deps b) {gone gone' : List Nat} {g : Scc} {E R : List IdSet}
    (hinv : Scc.Inv deps b gone g) (hgood : Good deps b gone E)
    (hR : R.Perm (g.top σ))
    (hgone' : ∀ u, u ∈ gone' ↔ (u ∈ (g.top σ).flatMap id ∨ u ∈ gone)) :
    Good deps b gone' (E ++ R) := by
  obtain ⟨htop, htopnd⟩ := hinv.top_spec hσ hgood
  have hRmem : ∀ u, u ∈ R.flatMap id ↔ u ∈ (g.top σ).flatMap id :=
    fun u => (hR.flatMap_right id).mem_iff
  have hfresh : ∀ u, u ∈ R.flatMap id → u ∉ gone := by
    intro u hu
    rw [hRmem, List.mem_flatMap] at hu
    obtain ⟨grp, hgrp, hmem⟩ := hu
    obtain ⟨_, _, c, hc, halive, _⟩ := htop grp hgrp
    exact hgood.whole halive ((hc u).mp hmem)
  constructor
  · rw [List.flatMap_append, List.nodup_append]
    refine ⟨hgood.nodup, (hR.flatMap_right id).nodup_iff.mpr htopnd, ?_⟩
    intro x hx y hy hxy
    subst hxy
    exact hfresh x hy ((hgood.mem x).mpr hx)
  · intro u
    rw [hgone', List.flatMap_append, List.mem_append, hRmem, hgood.mem]
    exact Or.comm
  · intro grp hgrp
    rcases List.mem_append.mp hgrp with h | h
    · exact hgood.comp grp h
    · obtain ⟨hne, _, c, hc, _, _⟩ := htop grp (hR.mem_iff.mp h)
      exact ⟨hne, c, hc⟩
  · intro i grp hi u hu v he hns
    by_cases hlt : i < E.length
    · rw [List.getElem?_append_left hlt] at hi
      rw [List.take_append_of_le_length (Nat.le_of_lt hlt)]
      exact hgood.ordered i grp hi u hu v he hns
    · have hle : E.length ≤ i := Nat.le_of_not_lt hlt
      rw [List.getElem?_append_right hle] at hi
      have hgrp : grp ∈ g.top σ := hR.mem_iff.mp (List.mem_of_getElem? hi)
      obtain ⟨_, _, c, hc, _, hroot⟩ := htop grp hgrp
      obtain ⟨d, hd, hcd⟩ := hb.cedge_of_edge ((hc u).mp hu) he hns
      have hvg : v ∈ gone := not_alive_iff.mp (hroot d hcd) v hd
      rw [List.take_append, List.flatMap_append, List.mem_append, List.take_of_length_le hle]
      exact Or.inl ((hgood.mem v).mp hvg)

/-! ### `drainGroups` -/

theorem drainGroups_pop (σ : Sched) (fuel : Nat) (comps : Scc) (ready out : List IdSet)
    (g : IdSet) (rest : List IdSet) (h : ready.reverse = g :: rest) :
    drainGroups σ (fuel + 1) comps ready out = drainGroups σ fuel comps rest.reverse (out ++ [g]) := by
  rw [drainGroups]
  simp only [h]

theorem drainGroups_done (σ : Sched) (fuel : Nat) (comps : Scc) (out : List IdSet)
    (h : comps.top σ = []) :
    drainGroups σ (fuel + 1) comps [] out = .ok out := by
  rw [drainGroups]
  simp [h]

theorem drainGroups_round (σ : Sched) (fuel : Nat) (comps comps' : Scc) (out : List IdSet)
    (g : IdSet) (rest : List IdSet) (h : (comps.top σ).reverse = g :: rest)
    (hrel : comps.release σ ((comps.top σ).flatMap id) = .ok comps') :
    drainGroups σ (fuel + 1) comps [] out = drainGroups σ fuel comps' rest.reverse (out ++ [g]) := by
  rw [drainGroups]
  have hne : (comps.top σ).isEmpty = false := by
    cases ht : comps.top σ with
    | nil => rw [ht] at h; simp at h
    | cons a l => rfl
  simp only [List.reverse_nil, hne, Bool.false_eq_true, if_false, hrel, bind, Except.bind, h]

end ZV.Graph

/-! ## `drainGroups` terminates and yields a dependency-respecting decomposition -/

namespace ZV.Graph

theorem Scc.Inv.gone_length_le {deps : AMap} {b : List (Nat × Nat)} {gone : List Nat} {g : Scc}
    (hinv : Scc.Inv deps b gone g) : gone.length ≤ b.length := by
  have := hinv.gone_nodup.length_le_of_subset (l₂ := b.map (·.1))
    (fun u hu => lookup_isSome.mp (hinv.gone_sub u hu))
  simpa using this

theorem drain_spec {σ : Sched} (hσ : σ.Valid) {deps : AMap} {b : List (Nat × Nat)}
    (hb : IsSccLabeling deps b) :
    ∀ (fuel : Nat) (comps : Scc) (ready out : List IdSet) (gone : List Nat),
      Scc.Inv deps b gone comps → Good deps b gone (out ++ ready.reverse) →
      (b.length - gone.length) + ready.length + 1 ≤ fuel →
      ∃ groups gone', drainGroups σ fuel comps ready out = .ok groups ∧
        Good deps b gone' groups ∧ ∀ c, ¬ Alive b gone' c := by
  intro fuel
  induction fuel with
  | zero => intro comps ready out gone _ _ h; omega
  | succ fuel ih =>
    intro comps ready out gone hinv hgood hfuel
    cases hr : ready.reverse with
    | cons g rest =>
      rw [drainGroups_pop σ fuel comps ready out g rest hr]
      apply ih comps rest.reverse (out ++ [g]) gone hinv
      · rw [List.reverse_reverse, List.append_assoc, List.singleton_append, ← hr]
        exact hgood
      · have : ready.length = rest.length + 1 := by
          rw [← List.length_reverse, hr]; rfl
        rw [List.length_reverse]
        omega
    | nil =>
      have hready : ready = [] := by simpa using hr
      subst hready
      simp only [List.reverse_nil, List.append_nil] at hgood
      cases ht : (comps.top σ).reverse with
      | nil =>
        have ht' : comps.top σ = [] := by simpa using ht
        rw [drainGroups_done σ fuel comps out ht']
        refine ⟨out, gone, rfl, hgood, ?_⟩
        intro c hc
        exact hinv.top_ne_nil hσ hb hc ht'
      | cons g rest =>
        obtain ⟨htop, htopnd⟩ := hinv.top_spec hσ hgood
        obtain ⟨comps', hrel, hinv'⟩ := Scc.release_spec hσ ((comps.top σ).flatMap id) hinv (by
          intro id hid
          rw [List.mem_flatMap] at hid
          obtain ⟨grp, hgrp, hmem⟩ := hid
          obtain ⟨_, _, c, hc, halive, hroot⟩ := htop grp hgrp
          exact ⟨hgood.whole halive ((hc id).mp hmem), c, (hc id).mp hmem, hroot⟩)
        rw [drainGroups_round σ fuel comps comps' out g rest ht hrel]
        apply ih comps' rest.reverse (out ++ [g]) _ hinv'
        · rw [List.reverse_reverse, List.append_assoc, List.singleton_append, ← ht]
          apply Good.round hσ hb hinv hgood (List.reverse_perm _)
          intro u
          rw [List.mem_append, List.mem_reverse, hσ.mem, List.mem_eraseDups]
        · have hlen := hinv'.gone_length_le
          rw [List.length_append, List.length_reverse, hσ.length,
            length_eraseDups_of_nodup htopnd] at hlen ⊢
          have h1 := length_le_flatMap_id (comps.top σ) (fun g hg => (htop g hg).1)
          have h2 : (comps.top σ).length = rest.length + 1 := by
            rw [← List.length_reverse, ht]; rfl
          rw [List.length_reverse]
          simp only [List.length_nil] at hfuel
          omega

/-- A complete emitted sequence is a dependency-respecting decomposition. -/
theorem Good.isDepsFirst {deps : AMap} {b : List (Nat × Nat)} (hb : IsSccLabeling deps b)
    {gone : List Nat} {E : List IdSet} (hgood : Good deps b gone E)
    (hdone : ∀ c, ¬ Alive b gone c) : IsDepsFirst deps E := by
  refine ⟨hgood.nodup, ?_, ?_, ?_⟩
  · intro u
    rw [hb.2.1 u, ← hgood.mem]
    constructor
    · intro h
      obtain ⟨c, hc⟩ := Option.isSome_iff_exists.mp h
      exact not_alive_iff.mp (hdone c) u hc
    · intro h
      rw [hgood.mem, List.mem_flatMap] at h
      obtain ⟨grp, hgrp, hmem⟩ := h
      obtain ⟨_, c, hc⟩ := hgood.comp grp hgrp
      rw [(hc u).mp hmem]
      rfl
  · intro grp hgrp
    obtain ⟨hne, c, hc⟩ := hgood.comp grp hgrp
    refine ⟨hne, ?_⟩
    intro u hu v
    have hu' := (hc u).mp hu
    rw [hc v]
    constructor
    · intro hv
      exact (hb.2.2 u v c c hu' hv).mp rfl
    · intro hs
      have hvl : (lookup b v).isSome = true := by
        rcases hs.1.eq_or_mem_allNodes with rfl | h
        · rw [hu']; rfl
        · exact (hb.2.1 v).mp h
      obtain ⟨d, hd⟩ := Option.isSome_iff_exists.mp hvl
      rw [hd, ← (hb.2.2 u v c d hu' hd).mpr hs]
  · intro i j gi gj hi hj u hu v hv he hns
    have hv' := hgood.ordered i gi hi u hu v he hns
    apply Classical.byContradiction
    intro hnot
    have hle : i ≤ j := Nat.le_of_not_lt hnot
    have hj' : (E.drop i)[j - i]? = some gj := by
      rw [List.getElem?_drop, Nat.add_sub_cancel' hle]
      exact hj
    have hv'' : v ∈ (E.drop i).flatMap id :=
      List.mem_flatMap.mpr ⟨gj, List.mem_of_getElem? hj', hv⟩
    have hnd := hgood.nodup
    rw [← List.take_append_drop i E, List.flatMap_append, List.nodup_append] at hnd
    exact hnd.2.2 v hv' v hv'' rfl

end ZV.Graph

namespace ZV.Graph
open ZV.Props.C08

/-- **C08, draining `top`/`release` to exhaustion.** -/
theorem drain_deps_first_pf (_hT : Statement.kosaraju_total) (hK : Statement.kosaraju_correct) :
    Statement.drain_deps_first := by
  intro σ deps g hσ hwf hg
  obtain ⟨b, _, hlab, hinv0⟩ := kosaraju_inv hK hσ hwf hg
  have hlen : b.length ≤ (allNodes deps).length := by
    have := hlab.1.length_le_of_subset (l₂ := allNodes deps)
      (fun u hu => (hlab.2.1 u).mpr (lookup_isSome.mpr hu))
    simpa using this
  obtain ⟨groups, gone', hdrain, hgood, hdone⟩ :=
    drain_spec hσ hlab (2 * (allNodes deps).length + 2) g [] [] [] hinv0
      (by simpa using Good.nil deps b) (by simp only [List.length_nil]; omega)
  exact ⟨groups, hdrain, hgood.isDepsFirst hlab hdone⟩

end ZV.Graph

/-! ## Sorting, uniqueness of sorted lists, release levels -/

namespace ZV.Graph

/-! ### `sortByKey` -/

private theorem sortByKey_ins_perm (key : Nat → Nat) (x : Nat) (ys : List Nat) :
    (sortByKey.ins key x ys).Perm (x :: ys) := by
  induction ys with
  | nil => exact List.Perm.refl _
  | cons y ys ih =>
    unfold sortByKey.ins
    split
    · exact List.Perm.refl _
    · exact (List.Perm.cons y ih).trans (List.Perm.swap x y ys)

private theorem sortByKey_perm (key : Nat → Nat) (xs : List Nat) : (sortByKey key xs).Perm xs := by
  induction xs with
  | nil => exact List.Perm.refl _
  | cons x xs ih =>
    unfold sortByKey
    exact (sortByKey_ins_perm key x _).trans (List.Perm.cons x ih)

private theorem sortByKey_ins_sorted (key : Nat → Nat) (x : Nat) (ys : List Nat)
    (h : ys.Pairwise fun a b => key a ≤ key b) :
    (sortByKey.ins key x ys).Pairwise fun a b => key a ≤ key b := by
  induction ys with
  | nil => unfold sortByKey.ins; simp
  | cons y ys ih =>
    unfold sortByKey.ins
    rw [List.pairwise_cons] at h
    split
    · rename_i hlt
      rw [List.pairwise_cons]
      refine ⟨?_, List.pairwise_cons.mpr h⟩
      intro a ha
      rcases List.mem_cons.mp ha with rfl | ha
      · exact Nat.le_of_lt hlt
      · exact Nat.le_trans (Nat.le_of_lt hlt) (h.1 a ha)
    · rename_i hnlt
      rw [List.pairwise_cons]
      refine ⟨?_, ih h.2⟩
      intro a ha
      rcases List.mem_cons.mp ((sortByKey_ins_perm key x ys).mem_iff.mp ha) with rfl | ha
      · exact Nat.le_of_not_lt hnlt
      · exact h.1 a ha

private theorem sortByKey_sorted (key : Nat → Nat) (xs : List Nat) :
    (sortByKey key xs).Pairwise fun a b => key a ≤ key b := by
  induction xs with
  | nil => unfold sortByKey; simp
  | cons x xs ih =>
    unfold sortByKey
    exact sortByKey_ins_sorted key x _ ih

/-- With keys injective on the list, sorting a duplicate-free list yields a strictly sorted one. -/
private theorem sortByKey_strict (key : Nat → Nat) (xs : List Nat) (hnd : xs.Nodup)
    (hinj : ∀ a ∈ xs, ∀ b ∈ xs, key a = key b → a = b) :
    (sortByKey key xs).Pairwise fun a b => key a < key b := by
  have h1 := sortByKey_sorted key xs
  have h2 : (sortByKey key xs).Nodup := (sortByKey_perm key xs).nodup_iff.mpr hnd
  have h3 : (sortByKey key xs).Pairwise fun a b => a ∈ xs ∧ b ∈ xs := by
    rw [List.pairwise_iff_forall_sublist]
    intro a b hab
    have := hab.subset
    exact ⟨(sortByKey_perm key xs).mem_iff.mp (this (by simp)),
      (sortByKey_perm key xs).mem_iff.mp (this (by simp))⟩
  have h12 := h1.imp₂ (fun a b (h : key a ≤ key b) (h' : a ≠ b) => And.intro h h') h2
  refine h12.imp₂ (fun a b h h' => ?_) h3
  rcases Nat.lt_or_eq_of_le h.1 with hlt | heq
  · exact hlt
  · exact absurd (hinj a h'.1 b h'.2 heq) h.2

/-! ### Uniqueness of a strictly sorted list with given elements -/

private theorem eq_of_pairwise_of_mem_iff {α : Type} (R : α → α → Prop) :
    ∀ (l₁ l₂ : List α), l₁.Pairwise R → l₂.Pairwise R →
    (∀ x ∈ l₁, ∀ y ∈ l₁, R x y → R y x → False) →
    (∀ x, x ∈ l₁ ↔ x ∈ l₂) → l₁ = l₂ := by
  intro l₁
  induction l₁ with
  | nil =>
    intro l₂ _ _ _ hmem
    cases l₂ with
    | nil => rfl
    | cons b l₂ => exact absurd ((hmem b).mpr List.mem_cons_self) (by simp)
  | cons a l₁ ih =>
    intro l₂ h1 h2 hasym hmem
    cases l₂ with
    | nil => exact absurd ((hmem a).mp List.mem_cons_self) (by simp)
    | cons b l₂ =>
      rw [List.pairwise_cons] at h1 h2
      have hirr : ∀ x, x ∈ a :: l₁ → ¬ R x x := fun x hx hr => hasym x hx x hx hr hr
      have hab : a = b := by
        apply Classical.byContradiction
        intro hne
        have ha2 : a ∈ l₂ := by
          rcases List.mem_cons.mp ((hmem a).mp List.mem_cons_self) with h | h
          · exact absurd h hne
          · exact h
        have hb1 : b ∈ l₁ := by
          rcases List.mem_cons.mp ((hmem b).mpr List.mem_cons_self) with h | h
          · exact absurd h.symm hne
          · exact h
        exact hasym a List.mem_cons_self b (List.mem_cons_of_mem _ hb1) (h1.1 b hb1) (h2.1 a ha2)
      subst hab
      congr 1
      apply ih l₂ h1.2 h2.2
      · intro x hx y hy
        exact hasym x (List.mem_cons_of_mem _ hx) y (List.mem_cons_of_mem _ hy)
      · intro x
        constructor
        · intro hx
          rcases List.mem_cons.mp ((hmem x).mp (List.mem_cons_of_mem _ hx)) with h | h
          · subst h
            exact absurd (h1.1 x hx) (hirr x List.mem_cons_self)
          · exact h
        · intro hx
          rcases List.mem_cons.mp ((hmem x).mpr (List.mem_cons_of_mem _ hx)) with h | h
          · subst h
            exact absurd (h2.1 x hx) (hirr x List.mem_cons_self)
          · exact h

/-! ### Release levels -/

/-- `Lvl G k u`: the component of `u` is released in one of the first `k` rounds when every
round releases all components on offer. -/
def Lvl (G : AMap) : Nat → Nat → Prop
  | 0, _ => False
  | k + 1, u => u ∈ allNodes G ∧
      ∀ u' v, SameScc G u u' → Edge G u' v → ¬ SameScc G u' v → Lvl G k v

theorem Lvl.mono {G : AMap} {k : Nat} {u : Nat} (h : Lvl G k u) : Lvl G (k + 1) u := by
  induction k generalizing u with
  | zero => exact h.elim
  | succ k ih =>
    obtain ⟨h1, h2⟩ := h
    exact ⟨h1, fun u' v hs he hn => ih (h2 u' v hs he hn)⟩

theorem Lvl.mono_le {G : AMap} {k k' : Nat} {u : Nat} (hk : k ≤ k') (h : Lvl G k u) : Lvl G k' u := by
  induction hk with
  | refl => exact h
  | step _ ih => exact ih.mono

/-- Released exactly in round `k`. -/
def AtLvl (G : AMap) (k u : Nat) : Prop := Lvl G (k + 1) u ∧ ¬ Lvl G k u

theorem Lvl.exists_at {G : AMap} {k : Nat} {u : Nat} (h : Lvl G k u) : ∃ j, j < k ∧ AtLvl G j u := by
  induction k with
  | zero => exact h.elim
  | succ k ih =>
    by_cases hk : Lvl G k u
    · obtain ⟨j, hj, hat⟩ := ih hk
      exact ⟨j, Nat.lt_succ_of_lt hj, hat⟩
    · exact ⟨k, Nat.lt_succ_self k, h, hk⟩

theorem AtLvl.unique {G : AMap} {k k' u : Nat} (h : AtLvl G k u) (h' : AtLvl G k' u) : k = k' := by
  rcases Nat.lt_trichotomy k k' with hlt | heq | hgt
  · exact absurd (Lvl.mono_le hlt h.1) h'.2
  · exact heq
  · exact absurd (Lvl.mono_le hgt h'.1) h.2

private theorem SameScc.symm {G : AMap} {u v : Nat} (h : SameScc G u v) : SameScc G v u := ⟨h.2, h.1⟩

private theorem SameScc.trans {G : AMap} {u v w : Nat} (h : SameScc G u v) (h' : SameScc G v w) :
    SameScc G u w := ⟨h.1.trans h'.1, h'.2.trans h.2⟩

private theorem SameScc.refl (G : AMap) (u : Nat) : SameScc G u u := ⟨Reach.refl u, Reach.refl u⟩

private theorem SameScc.mem_allNodes {G : AMap} {u v : Nat} (h : SameScc G u v) (hu : u ∈ allNodes G) :
    v ∈ allNodes G := by
  rcases h.1.eq_or_mem_allNodes with rfl | h
  · exact hu
  · exact h

/-- Levels are constant on strongly connected components. -/
theorem Lvl.of_sameScc {G : AMap} {k u w : Nat} (hs : SameScc G u w) (h : Lvl G k u) : Lvl G k w := by
  cases k with
  | zero => exact h.elim
  | succ k =>
    obtain ⟨h1, h2⟩ := h
    exact ⟨hs.mem_allNodes h1, fun u' v hs' he hn => h2 u' v (hs.trans hs') he hn⟩

end ZV.Graph

/-! ## The `topoLoop` on a graph whose components are singletons -/

namespace ZV.Graph

private theorem flatMap_singleton_map (l : List Nat) : (l.map fun n => [n]).flatMap id = l := by
  induction l with
  | nil => rfl
  | cons a l ih => simp only [List.map_cons, List.flatMap_cons, id, ih, List.singleton_append]

private theorem mapM_ok_of_forall {α β : Type} (f : α → Except String β) (g : α → β) (l : List α)
    (h : ∀ x ∈ l, f x = .ok (g x)) : l.mapM f = .ok (l.map g) := by
  induction l with
  | nil => rfl
  | cons a l ih =>
    rw [List.mapM_cons, h a List.mem_cons_self, ih (fun x hx => h x (List.mem_cons_of_mem _ hx))]
    rfl

/-- The ids on offer in round `k` are exactly those of level `k`. -/
theorem Scc.Inv.top_lvl {σ : Sched} (hσ : σ.Valid) {G : AMap} {b : List (Nat × Nat)}
    (hb : IsSccLabeling G b) {gone : List Nat} {t : Scc} {E : List IdSet}
    (hinv : Scc.Inv G b gone t) (hgood : Good G b gone E) {k : Nat}
    (hk : ∀ n, n ∈ gone ↔ Lvl G k n) (u : Nat) :
    u ∈ (t.top σ).flatMap id ↔ AtLvl G k u := by
  obtain ⟨htop, _⟩ := hinv.top_spec hσ hgood
  constructor
  · intro hu
    rw [List.mem_flatMap] at hu
    obtain ⟨grp, hgrp, hmem⟩ := hu
    obtain ⟨_, _, c, hc, halive, hroot⟩ := htop grp hgrp
    have huc := (hc u).mp hmem
    refine ⟨⟨(hb.2.1 u).mpr (by rw [huc]; rfl), ?_⟩, ?_⟩
    · intro u' v hs he hn
      have hu'all : u' ∈ allNodes G := hs.mem_allNodes ((hb.2.1 u).mpr (by rw [huc]; rfl))
      obtain ⟨c', hc'⟩ := Option.isSome_iff_exists.mp ((hb.2.1 u').mp hu'all)
      have : c = c' := (hb.2.2 u u' c c' huc hc').mpr hs
      subst this
      obtain ⟨d, hd, hcd⟩ := hb.cedge_of_edge hc' he hn
      exact (hk v).mp (not_alive_iff.mp (hroot d hcd) v hd)
    · intro hl
      exact hgood.whole halive huc ((hk u).mpr hl)
  · rintro ⟨⟨hall, hsucc⟩, hnot⟩
    obtain ⟨c, hc⟩ := Option.isSome_iff_exists.mp ((hb.2.1 u).mp hall)
    have hug : u ∉ gone := fun h => hnot ((hk u).mp h)
    have halive : Alive b gone c := ⟨u, hc, hug⟩
    have hroot : ∀ d, CEdge G b c d → ¬ Alive b gone d := by
      rintro d ⟨hne, u', v', hu', hv', he⟩ hd
      have hs : SameScc G u u' := (hb.2.2 u u' c c hc hu').mp rfl
      have hn : ¬ SameScc G u' v' := fun h => hne ((hb.2.2 u' v' c d hu' hv').mpr h)
      exact hgood.whole hd hv' ((hk v').mpr (hsucc u' v' hs he hn))
    obtain ⟨s, hs⟩ := Option.isSome_iff_exists.mp ((hinv.strongs_isSome c).mpr halive)
    rw [List.mem_flatMap]
    refine ⟨σ s, (Scc.mem_top hσ).mpr ⟨c, (hinv.roots c).mpr ⟨halive, hroot⟩, s, hs, rfl⟩, ?_⟩
    simp only [id]
    rw [hσ.mem, ← AMap.query_eq_of_get? hs, hinv.strongs_query]
    exact ⟨hc, hug⟩

/-- `BindingContext::ready` succeeds when all components are singletons. -/
theorem Ctx.ready_spec {σ : Sched} (hσ : σ.Valid) {G : AMap} {b : List (Nat × Nat)}
    (hb : IsSccLabeling G b) (hsing : ∀ n m, SameScc G n m → n = m)
    {gone : List Nat} {t : Scc} {E : List IdSet}
    (hinv : Scc.Inv G b gone t) (hgood : Good G b gone E) (bindings : List (Nat × Nat)) (c : Ctx) :
    ∃ tops, c.ready σ bindings t = .ok (sortByKey (c.nodeOrder bindings) tops) ∧
      t.top σ = tops.map fun n => [n] := by
  obtain ⟨htop, _⟩ := hinv.top_spec hσ hgood
  have hsingle : ∀ grp ∈ t.top σ, grp = [grp.headD 0] := by
    intro grp hgrp
    obtain ⟨hne, hnd, c, hc, _, _⟩ := htop grp hgrp
    cases grp with
    | nil => exact absurd rfl hne
    | cons x rest =>
      cases rest with
      | nil => rfl
      | cons y rest =>
        exfalso
        have hx := (hc x).mp List.mem_cons_self
        have hy := (hc y).mp (List.mem_cons_of_mem _ List.mem_cons_self)
        have : x = y := hsing x y ((hb.2.2 x y c c hx hy).mp rfl)
        subst this
        rw [List.nodup_cons] at hnd
        exact hnd.1 List.mem_cons_self
  refine ⟨(t.top σ).map fun grp => grp.headD 0, ?_, ?_⟩
  · unfold Ctx.ready
    rw [mapM_ok_of_forall _ (fun grp => grp.headD 0)]
    · rfl
    · intro grp hgrp
      have := hsingle grp hgrp
      generalize grp.headD 0 = n at this
      subst this
      rfl
  · rw [List.map_map]
    conv => lhs; rw [← List.map_id (t.top σ)]
    apply List.map_congr_left
    intro grp hgrp
    exact hsingle grp hgrp

/-- The order in which the loop emits ids: by level, then by key. -/
def BeforeBy (G : AMap) (key : Nat → Nat) (n m : Nat) : Prop :=
  ∃ k k', AtLvl G k n ∧ AtLvl G k' m ∧ (k < k' ∨ (k = k' ∧ key n < key m))

theorem topoLoop_succ (σ : Sched) (bindings : List (Nat × Nat)) (c : Ctx) (fuel : Nat) (t : Scc)
    (out : List Nat) :
    c.topoLoop σ bindings (fuel + 1) t out =
      (c.ready σ bindings t).bind fun ready =>
        if ready.isEmpty then pure out
        else (t.release σ ready).bind fun t => c.topoLoop σ bindings fuel t (out ++ ready) := by
  rw [Ctx.topoLoop]
  rfl

theorem topo_spec {σ : Sched} (hσ : σ.Valid) {G : AMap} {b : List (Nat × Nat)}
    (hb : IsSccLabeling G b) (hsing : ∀ n m, SameScc G n m → n = m)
    (bindings : List (Nat × Nat)) (c : Ctx)
    (hkey : ∀ n m, n ∈ allNodes G → m ∈ allNodes G →
      c.nodeOrder bindings n = c.nodeOrder bindings m → n = m) :
    ∀ (fuel : Nat) (t : Scc) (out gone : List Nat) (k : Nat),
      Scc.Inv G b gone t → Good G b gone (out.map fun n => [n]) →
      (∀ n, n ∈ gone ↔ Lvl G k n) →
      out.Pairwise (BeforeBy G (c.nodeOrder bindings)) →
      (b.length - gone.length) + 1 ≤ fuel →
      ∃ order gone', c.topoLoop σ bindings fuel t out = .ok order ∧
        Good G b gone' (order.map fun n => [n]) ∧ (∀ c, ¬ Alive b gone' c) ∧
        order.Pairwise (BeforeBy G (c.nodeOrder bindings)) := by
  intro fuel
  induction fuel with
  | zero => intro t out gone k _ _ _ _ h; omega
  | succ fuel ih =>
    intro t out gone k hinv hgood hk hpw hfuel
    obtain ⟨tops, hready, htops⟩ := Ctx.ready_spec hσ hb hsing hinv hgood bindings c
    obtain ⟨htop, htopnd⟩ := hinv.top_spec hσ hgood
    have hflat : (t.top σ).flatMap id = tops := by rw [htops, flatMap_singleton_map]
    have hperm := sortByKey_perm (c.nodeOrder bindings) tops
    rw [topoLoop_succ, hready]
    simp only [Except.bind]
    by_cases hempty : (sortByKey (c.nodeOrder bindings) tops).isEmpty = true
    · rw [if_pos hempty]
      refine ⟨out, gone, rfl, hgood, ?_, hpw⟩
      intro c' hc'
      apply hinv.top_ne_nil hσ hb hc'
      have : sortByKey (c.nodeOrder bindings) tops = [] := List.isEmpty_iff.mp hempty
      have : tops = [] := by
        have := hperm.length_eq
        rw [‹sortByKey (c.nodeOrder bindings) tops = []›] at this
        exact List.length_eq_zero_iff.mp this.symm
      rw [htops, this]
      rfl
    · rw [if_neg hempty]
      have hmemtops : ∀ x, x ∈ sortByKey (c.nodeOrder bindings) tops ↔ x ∈ (t.top σ).flatMap id := by
        intro x
        rw [hflat]
        exact hperm.mem_iff
      obtain ⟨t', hrel, hinv'⟩ := Scc.release_spec hσ (sortByKey (c.nodeOrder bindings) tops) hinv (by
        intro x hid
        rw [hmemtops, List.mem_flatMap] at hid
        obtain ⟨grp, hgrp, hmem⟩ := hid
        obtain ⟨_, _, c', hc', halive, hroot⟩ := htop grp hgrp
        exact ⟨hgood.whole halive ((hc' x).mp hmem), c', (hc' x).mp hmem, hroot⟩)
      rw [hrel]
      simp only []
      have hat : ∀ n, n ∈ sortByKey (c.nodeOrder bindings) tops ↔ AtLvl G k n := by
        intro n
        rw [hmemtops]
        exact hinv.top_lvl hσ hb hgood hk n
      have htopsnd : tops.Nodup := by rw [← hflat]; exact htopnd
      have hsnd : (sortByKey (c.nodeOrder bindings) tops).Nodup := hperm.nodup_iff.mpr htopsnd
      apply ih t' (out ++ sortByKey (c.nodeOrder bindings) tops) _ (k + 1) hinv'
      · rw [List.map_append]
        apply Good.round hσ hb hinv hgood
        · rw [htops]
          exact hperm.map _
        · intro u
          rw [List.mem_append, List.mem_reverse, hσ.mem, List.mem_eraseDups, hmemtops]
      · intro n
        rw [List.mem_append, List.mem_reverse, hσ.mem, List.mem_eraseDups, hat, hk]
        constructor
        · rintro (h | h)
          · exact h.1
          · exact h.mono
        · intro h
          by_cases hl : Lvl G k n
          · exact Or.inr hl
          · exact Or.inl ⟨h, hl⟩
      · rw [List.pairwise_append]
        refine ⟨hpw, ?_, ?_⟩
        · have hstrict := sortByKey_strict (c.nodeOrder bindings) tops htopsnd (by
            intro a ha b' hb' heq
            have ha' : AtLvl G k a := (hat a).mp (hperm.mem_iff.mpr ha)
            have hb'' : AtLvl G k b' := (hat b').mp (hperm.mem_iff.mpr hb')
            exact hkey a b' ha'.1.1 hb''.1.1 heq)
          have hall : (sortByKey (c.nodeOrder bindings) tops).Pairwise fun a b' =>
              AtLvl G k a ∧ AtLvl G k b' := by
            rw [List.pairwise_iff_forall_sublist]
            intro a b' hab
            have := hab.subset
            exact ⟨(hat a).mp (this (by simp)), (hat b').mp (this (by simp))⟩
          exact hstrict.imp₂ (fun a b' h h' => ⟨k, k, h'.1, h'.2, Or.inr ⟨rfl, h⟩⟩) hall
        · intro a ha b' hb'
          have hag : a ∈ gone := by
            rw [hgood.mem, List.mem_flatMap]
            exact ⟨[a], List.mem_map.mpr ⟨a, ha, rfl⟩, by simp⟩
          obtain ⟨j, hj, hja⟩ := ((hk a).mp hag).exists_at
          exact ⟨j, k, hja, (hat b').mp hb', Or.inl hj⟩
      · have hlen := hinv'.gone_length_le
        rw [List.length_append, List.length_reverse, hσ.length,
          length_eraseDups_of_nodup hsnd] at hlen ⊢
        have : 0 < (sortByKey (c.nodeOrder bindings) tops).length := by
          apply List.length_pos_iff.mpr
          intro h
          rw [h] at hempty
          exact hempty rfl
        omega

end ZV.Graph

/-! ## `fromBindings`: unfolding, the group fold, the binding-to-node table -/

namespace ZV.Graph

def bindOrder (bindings : List (Nat × Nat)) (id : Nat) : Nat := (lookup bindings id).getD 0

/-- The `recursive` flag computed from the sorted member list. -/
def recOf (deps : AMap) (ids : List Nat) : Bool :=
  decide (ids.length > 1) ||
    (match ids.head? with
     | some id => (deps.query id).contains id
     | none => false)

def mkNode (bindings : List (Nat × Nat)) (deps : AMap) (group : IdSet) : Node :=
  { members := sortByKey (bindOrder bindings) group,
    recursive := recOf deps (sortByKey (bindOrder bindings) group) }

def groupStepM (bindings : List (Nat × Nat)) (deps : AMap)
    (acc : List Node × List (Nat × Nat) × List (Nat × Nat)) (group : IdSet) :
    Except String (List Node × List (Nat × Nat) × List (Nat × Nat)) := do
  let order (id : Nat) : Nat := (lookup bindings id).getD 0
  let (nodes, nodeFor, remaining) := acc
  let ids := sortByKey order group
  if ids.any fun id => !(remaining.any (·.1 == id)) then
    throw "each binding belongs to exactly one context component"
  let recursive := ids.length > 1 ||
    (match ids.head? with
     | some id => (deps.query id).contains id
     | none => false)
  if ids.isEmpty then throw "an SCC cannot be empty"
  let nodeId := nodes.length
  pure (nodes ++ [{ members := ids, recursive }],
        nodeFor ++ ids.map (fun b => (b, nodeId)),
        remaining.filter fun (b, _) => !ids.contains b)

theorem groupStepM_ok (bindings : List (Nat × Nat)) (deps : AMap)
    (nodes : List Node) (nodeFor remaining : List (Nat × Nat)) (group : IdSet)
    (hne : group ≠ []) (hall : ∀ u ∈ group, u ∈ remaining.map (·.1)) :
    groupStepM bindings deps (nodes, nodeFor, remaining) group = .ok
      (nodes ++ [mkNode bindings deps group],
       nodeFor ++ (sortByKey (bindOrder bindings) group).map (fun b => (b, nodes.length)),
       remaining.filter fun p => !(sortByKey (bindOrder bindings) group).contains p.1) := by
  have hperm := sortByKey_perm (bindOrder bindings) group
  have h1 : ((sortByKey (bindOrder bindings) group).any fun id => !(remaining.any (·.1 == id))) = false := by
    rw [List.any_eq_false]
    intro x hx
    have := hall x (hperm.mem_iff.mp hx)
    obtain ⟨p, hp, hpx⟩ := List.mem_map.mp this
    simp only [Bool.not_eq_true, Bool.not_eq_false', List.any_eq_true]
    exact ⟨p, hp, by simpa using hpx⟩
  have h2 : (sortByKey (bindOrder bindings) group).isEmpty = false := by
    cases hs : sortByKey (bindOrder bindings) group with
    | nil =>
      have := hperm.length_eq
      rw [hs] at this
      exact absurd (List.length_eq_zero_iff.mp this.symm) hne
    | cons a l => rfl
  unfold groupStepM
  simp only [bind, Except.bind, pure, Except.pure]
  have h1' : ((sortByKey (fun id => (lookup bindings id).getD 0) group).any fun id => !(remaining.any (·.1 == id))) = false := h1
  have h2' : (sortByKey (fun id => (lookup bindings id).getD 0) group).isEmpty = false := h2
  simp only [h1', h2', Bool.false_eq_true, if_false]
  rfl

def nodeDepsStepM (σ : Sched) (deps : AMap) (nodeFor : List (Nat × Nat)) (m : AMap) (binding : Nat) :
    Except String AMap := do
  let some node := lookup nodeFor binding | throw "node_for_binding[&binding]"
  let ds ← (σ (deps.query binding)).mapM fun d =>
    match lookup nodeFor d with
    | some n => pure n
    | none => throw "node_for_binding[&dependency]"
  pure (m.add node (ds.filter (· != node)))

def nodeDeps0 (n : Nat) : AMap := (List.range n).foldl (fun m n => m.add n []) []

def fromBindingsTail (σ : Sched) (deps : AMap)
    (r : List Node × List (Nat × Nat) × List (Nat × Nat)) : Except String Ctx := do
  let (nodes, nodeFor, remaining) := r
  if !remaining.isEmpty then throw "all context bindings must occur in the dependency graph"
  let nodeDeps ← (σ deps.keys).foldlM (nodeDepsStepM σ deps nodeFor) (nodeDeps0 nodes.length)
  let graph ← kosaraju σ nodeDeps
  pure { nodes, graph }

theorem fromBindings_unfold (σ : Sched) (bindings : List (Nat × Nat)) (deps : AMap) :
    fromBindings σ bindings deps =
      (kosaraju σ deps).bind fun components =>
      (drainGroups σ (2 * (allNodes deps).length + 2) components [] []).bind fun groups =>
      (groups.foldlM (groupStepM bindings deps) ([], [], bindings)).bind (fromBindingsTail σ deps) := by
  rfl


/-! ### The group fold -/

private theorem contains_eq_false_iff {l : List Nat} {x : Nat} : l.contains x = false ↔ x ∉ l := by
  rw [← List.contains_iff_mem]
  simp

/-- The binding-to-node table built by the group fold, starting at node id `n`. -/
def nodeForOf (bindings : List (Nat × Nat)) : Nat → List IdSet → List (Nat × Nat)
  | _, [] => []
  | n, g :: gs => (sortByKey (bindOrder bindings) g).map (fun b => (b, n)) ++
      nodeForOf bindings (n + 1) gs

theorem groupFold_ok (bindings : List (Nat × Nat)) (deps : AMap) :
    ∀ (groups : List IdSet) (nodes : List Node) (nodeFor remaining : List (Nat × Nat)),
      (∀ g ∈ groups, g ≠ []) → (groups.flatMap id).Nodup →
      (∀ u ∈ groups.flatMap id, u ∈ remaining.map (·.1)) →
      ∃ remaining', groups.foldlM (groupStepM bindings deps) (nodes, nodeFor, remaining) = .ok
        (nodes ++ groups.map (mkNode bindings deps),
         nodeFor ++ nodeForOf bindings nodes.length groups, remaining') ∧
        ∀ p, p ∈ remaining' ↔ (p ∈ remaining ∧ p.1 ∉ groups.flatMap id) := by
  intro groups
  induction groups with
  | nil =>
    intro nodes nodeFor remaining _ _ _
    refine ⟨remaining, ?_, ?_⟩
    · simp [nodeForOf, pure, Except.pure]
    · simp
  | cons g gs ih =>
    intro nodes nodeFor remaining hne hnd hall
    have hperm := sortByKey_perm (bindOrder bindings) g
    simp only [List.flatMap_cons, id] at hnd hall
    rw [List.nodup_append] at hnd
    have hstep := groupStepM_ok bindings deps nodes nodeFor remaining g (hne g List.mem_cons_self)
      (fun u hu => hall u (List.mem_append_left _ hu))
    obtain ⟨remaining', hfold, hrem⟩ := ih (nodes ++ [mkNode bindings deps g])
      (nodeFor ++ (sortByKey (bindOrder bindings) g).map (fun b => (b, nodes.length)))
      (remaining.filter fun p => !(sortByKey (bindOrder bindings) g).contains p.1)
      (fun g' hg' => hne g' (List.mem_cons_of_mem _ hg')) hnd.2.1
      (by
        intro u hu
        obtain ⟨p, hp, hpu⟩ := List.mem_map.mp (hall u (List.mem_append_right _ hu))
        refine List.mem_map.mpr ⟨p, ?_, hpu⟩
        rw [List.mem_filter]
        refine ⟨hp, ?_⟩
        rw [Bool.not_eq_true', hpu, contains_eq_false_iff]
        intro hmem
        exact hnd.2.2 u (hperm.mem_iff.mp hmem) u hu rfl)
    refine ⟨remaining', ?_, ?_⟩
    · simp only [List.foldlM_cons, hstep, bind, Except.bind]
      rw [hfold]
      simp only [List.length_append, List.length_cons, List.length_nil, List.map_cons, nodeForOf,
        List.append_assoc, List.singleton_append, Nat.zero_add]
    · intro p
      rw [hrem, List.mem_filter]
      simp only [List.flatMap_cons, id, List.mem_append, not_or, Bool.not_eq_true',
        contains_eq_false_iff]
      constructor
      · rintro ⟨⟨h1, h2⟩, h3⟩
        exact ⟨h1, fun h => h2 (hperm.mem_iff.mpr h), h3⟩
      · rintro ⟨h1, h2, h3⟩
        exact ⟨⟨h1, fun h => h2 (hperm.mem_iff.mp h)⟩, h3⟩

/-! ### Lookups in the table -/

private theorem lookup_append (l₁ l₂ : List (Nat × Nat)) (u : Nat) :
    lookup (l₁ ++ l₂) u = (lookup l₁ u).or (lookup l₂ u) := by
  induction l₁ with
  | nil => simp [lookup_nil]
  | cons p l₁ ih =>
    simp only [List.cons_append]
    rw [lookup_cons, lookup_cons, ih]
    split <;> simp

private theorem lookup_map_const (ids : List Nat) (n u : Nat) :
    lookup (ids.map fun b => (b, n)) u = if u ∈ ids then some n else none := by
  induction ids with
  | nil => simp [lookup_nil]
  | cons a ids ih =>
    simp only [List.map_cons]
    rw [lookup_cons, ih]
    by_cases h : a = u
    · simp [h]
    · have : ¬ u = a := fun h' => h h'.symm
      simp [h, this]

theorem lookup_nodeForOf (bindings : List (Nat × Nat)) :
    ∀ (groups : List IdSet) (n : Nat), (groups.flatMap id).Nodup →
      ∀ (i : Nat) (g : IdSet), groups[i]? = some g → ∀ u ∈ g,
        lookup (nodeForOf bindings n groups) u = some (n + i) := by
  intro groups
  induction groups with
  | nil => intro n _ i g h; simp at h
  | cons g0 gs ih =>
    intro n hnd i g hi u hu
    have hperm := sortByKey_perm (bindOrder bindings) g0
    simp only [List.flatMap_cons, id] at hnd
    rw [List.nodup_append] at hnd
    unfold nodeForOf
    rw [lookup_append, lookup_map_const]
    cases i with
    | zero =>
      simp only [List.getElem?_cons_zero, Option.some.injEq] at hi
      subst hi
      simp [hperm.mem_iff.mpr hu]
    | succ i =>
      simp only [List.getElem?_cons_succ] at hi
      have hugs : u ∈ gs.flatMap id := List.mem_flatMap.mpr ⟨g, List.mem_of_getElem? hi, hu⟩
      have : u ∉ sortByKey (bindOrder bindings) g0 := fun h =>
        hnd.2.2 u (hperm.mem_iff.mp h) u hugs rfl
      rw [if_neg this, ih (n + 1) hnd.2.1 i g hi u hu]
      simp only [Option.none_or, Option.some.injEq]
      omega

theorem mem_keys_nodeForOf (bindings : List (Nat × Nat)) (groups : List IdSet) (n u : Nat) :
    u ∈ (nodeForOf bindings n groups).map (·.1) ↔ u ∈ groups.flatMap id := by
  induction groups generalizing n with
  | nil => simp [nodeForOf]
  | cons g gs ih =>
    unfold nodeForOf
    simp only [List.map_append, List.mem_append, List.map_map, List.flatMap_cons, id, ih]
    have : (List.map ((fun x => x.1) ∘ fun b => (b, n)) (sortByKey (bindOrder bindings) g)) =
        sortByKey (bindOrder bindings) g := by
      conv => rhs; rw [← List.map_id (sortByKey (bindOrder bindings) g)]
      apply List.map_congr_left
      intro a _
      rfl
    rw [this, (sortByKey_perm (bindOrder bindings) g).mem_iff]

/-- `u` lies in group number `i`. -/
def NodeOf (groups : List IdSet) (u i : Nat) : Prop := ∃ g, groups[i]? = some g ∧ u ∈ g

theorem lookup_nodeForOf_iff (bindings : List (Nat × Nat)) (groups : List IdSet)
    (hnd : (groups.flatMap id).Nodup) (u i : Nat) :
    lookup (nodeForOf bindings 0 groups) u = some i ↔ NodeOf groups u i := by
  constructor
  · intro h
    have hsome : (lookup (nodeForOf bindings 0 groups) u).isSome = true := by rw [h]; rfl
    rw [lookup_isSome, mem_keys_nodeForOf, List.mem_flatMap] at hsome
    obtain ⟨g, hg, hug⟩ := hsome
    obtain ⟨j, hj⟩ := List.getElem?_of_mem hg
    have := lookup_nodeForOf bindings groups 0 hnd j g hj u hug
    rw [h] at this
    simp only [Nat.zero_add, Option.some.injEq] at this
    subst this
    exact ⟨g, hj, hug⟩
  · rintro ⟨g, hg, hug⟩
    have := lookup_nodeForOf bindings groups 0 hnd i g hg u hug
    simpa using this

theorem NodeOf.unique {groups : List IdSet} (hnd : (groups.flatMap id).Nodup) {u i j : Nat}
    (hi : NodeOf groups u i) (hj : NodeOf groups u j) : i = j := by
  have h1 := (lookup_nodeForOf_iff [] groups hnd u i).mpr hi
  have h2 := (lookup_nodeForOf_iff [] groups hnd u j).mpr hj
  rw [h1] at h2
  exact Option.some.inj h2

theorem NodeOf.lt {groups : List IdSet} {u i : Nat} (h : NodeOf groups u i) : i < groups.length := by
  obtain ⟨g, hg, _⟩ := h
  exact (List.getElem?_eq_some_iff.mp hg).1

theorem NodeOf.exists_of_mem {groups : List IdSet} {u : Nat} (h : u ∈ groups.flatMap id) :
    ∃ i, NodeOf groups u i := by
  rw [List.mem_flatMap] at h
  obtain ⟨g, hg, hug⟩ := h
  obtain ⟨j, hj⟩ := List.getElem?_of_mem hg
  exact ⟨j, g, hj, hug⟩

end ZV.Graph

/-! ## `fromBindings`: the node-level dependency graph -/

namespace ZV.Graph

private theorem AMap.wf_add {m : AMap} (h : WfGraph m) (k : Nat) (vs : List Nat) : WfGraph (m.add k vs) := by
  refine ⟨AMap.nodup_keys_add h.1, ?_⟩
  intro k' s' hmem
  unfold AMap.add at hmem
  split at hmem
  · obtain ⟨p, hp, hpe⟩ := List.mem_map.mp hmem
    obtain ⟨pk, ps⟩ := p
    simp only [] at hpe
    split at hpe
    · have := (Prod.mk.inj hpe).2
      rw [← this]
      exact IdSet.nodup_union (h.2 pk ps hp)
    · have := (Prod.mk.inj hpe).2
      rw [← this]
      exact h.2 _ _ hp
  · rcases List.mem_append.mp hmem with h' | h'
    · exact h.2 _ _ h'
    · simp only [List.mem_singleton, Prod.mk.injEq] at h'
      rw [h'.2]
      exact IdSet.nodup_union List.nodup_nil

private theorem wf_nil : WfGraph [] := ⟨List.nodup_nil, fun _ _ h => by simp at h⟩

/-- With unique keys, the nodes are the keys and the members of the values. -/
private theorem mem_allNodes_iff {m : AMap} (hn : m.keys.Nodup) {u : Nat} :
    u ∈ allNodes m ↔ ((m.get? u).isSome = true ∨ ∃ k, u ∈ m.query k) := by
  rw [mem_allNodes]
  constructor
  · rintro ⟨p, hp, h | h⟩
    · left
      rw [← AMap.mem_keys, h]
      exact List.mem_map.mpr ⟨p, hp, rfl⟩
    · right
      refine ⟨p.1, ?_⟩
      rw [AMap.query_eq_of_get? (AMap.get?_of_mem_nodup hn (s := p.2) hp)]
      exact h
  · rintro (h | ⟨k, hk⟩)
    · obtain ⟨s, hs⟩ := Option.isSome_iff_exists.mp h
      exact ⟨(u, s), AMap.get?_mem hs, Or.inl rfl⟩
    · cases hq : m.get? k with
      | none => rw [AMap.query_eq_nil_of_get? hq] at hk; simp at hk
      | some s =>
        rw [AMap.query_eq_of_get? hq] at hk
        exact ⟨(k, s), AMap.get?_mem hq, Or.inr hk⟩

/-! ### The initial map -/

theorem nodeDeps0_get? (n x : Nat) :
    (nodeDeps0 n).get? x = if x < n then some [] else none := by
  unfold nodeDeps0
  induction n with
  | zero => simp [AMap.get?_nil]
  | succ n ih =>
    rw [List.range_succ, List.foldl_append]
    simp only [List.foldl_cons, List.foldl_nil]
    rw [AMap.get?_add, ih]
    by_cases hx : x = n
    · subst hx
      have : AMap.query (List.foldl (fun m n => m.add n []) [] (List.range x)) x = [] := by
        apply AMap.query_eq_nil_of_get?
        rw [ih]; simp
      simp [this, IdSet.union]
    · by_cases hlt : x < n
      · have : x < n + 1 := by omega
        simp [hx, hlt, this]
      · have : ¬ x < n + 1 := by omega
        simp [hx, hlt, this]

theorem nodeDeps0_wf (n : Nat) : WfGraph (nodeDeps0 n) := by
  unfold nodeDeps0
  apply foldl_inv (fun m => WfGraph m) _ _ _ _ wf_nil
  intro acc a _ h
  exact AMap.wf_add h a []

/-! ### The fold over the bindings -/

def nfOf (nodeFor : List (Nat × Nat)) (d : Nat) : Nat := (lookup nodeFor d).getD 0

def nodeDepsStep (σ : Sched) (deps : AMap) (nodeFor : List (Nat × Nat)) (m : AMap) (u : Nat) : AMap :=
  m.add (nfOf nodeFor u)
    (((σ (deps.query u)).map (nfOf nodeFor)).filter (· != nfOf nodeFor u))

theorem nodeDepsStepM_ok (σ : Sched) (deps : AMap) (nodeFor : List (Nat × Nat)) (m : AMap) (u : Nat)
    (hnode : (lookup nodeFor u).isSome = true)
    (hds : ∀ d ∈ σ (deps.query u), (lookup nodeFor d).isSome = true) :
    nodeDepsStepM σ deps nodeFor m u = .ok (nodeDepsStep σ deps nodeFor m u) := by
  obtain ⟨node, hnode⟩ := Option.isSome_iff_exists.mp hnode
  unfold nodeDepsStepM nodeDepsStep
  simp only [hnode]
  rw [mapM_ok_of_forall _ (nfOf nodeFor)]
  · simp only [bind, Except.bind, pure, Except.pure, nfOf, hnode, Option.getD_some]
  · intro d hd
    obtain ⟨n, hn⟩ := Option.isSome_iff_exists.mp (hds d hd)
    simp only [hn, nfOf, Option.getD_some]
    rfl

def nodeDepsOf (σ : Sched) (deps : AMap) (nodeFor : List (Nat × Nat)) (n : Nat) : AMap :=
  (σ deps.keys).foldl (nodeDepsStep σ deps nodeFor) (nodeDeps0 n)

theorem nodeDepsFold_ok {σ : Sched} (hσ : σ.Valid) (deps : AMap) (nodeFor : List (Nat × Nat)) (n : Nat)
    (hlab : ∀ u, u ∈ allNodes deps → (lookup nodeFor u).isSome = true) :
    (σ deps.keys).foldlM (nodeDepsStepM σ deps nodeFor) (nodeDeps0 n) =
      .ok (nodeDepsOf σ deps nodeFor n) := by
  unfold nodeDepsOf
  apply foldlM_ok_of_forall
  intro acc u hu
  rw [hσ.mem, AMap.mem_keys] at hu
  apply nodeDepsStepM_ok
  · apply hlab
    obtain ⟨s, hs⟩ := Option.isSome_iff_exists.mp hu
    exact mem_allNodes.mpr ⟨(u, s), AMap.get?_mem hs, Or.inl rfl⟩
  · intro d hd
    rw [hσ.mem] at hd
    exact hlab d (Edge.mem_allNodes_right (u := u) hd)

theorem nodeDepsOf_wf (σ : Sched) (deps : AMap) (nodeFor : List (Nat × Nat)) (n : Nat) :
    WfGraph (nodeDepsOf σ deps nodeFor n) := by
  unfold nodeDepsOf
  apply foldl_inv (fun m => WfGraph m) _ _ _ _ (nodeDeps0_wf n)
  intro acc a _ h
  exact AMap.wf_add h _ _

theorem nodeDepsOf_query {σ : Sched} (hσ : σ.Valid) (deps : AMap) (nodeFor : List (Nat × Nat))
    (n x y : Nat) :
    y ∈ (nodeDepsOf σ deps nodeFor n).query x ↔
      (x ≠ y ∧ ∃ u v, Edge deps u v ∧ nfOf nodeFor u = x ∧ nfOf nodeFor v = y) := by
  unfold nodeDepsOf
  rw [foldl_rel (fun (m : AMap) (z : Nat × Nat) => z.2 ∈ m.query z.1)
    (fun u (z : Nat × Nat) => z.1 = nfOf nodeFor u ∧
      z.2 ∈ ((σ (deps.query u)).map (nfOf nodeFor)).filter (· != nfOf nodeFor u))
    (nodeDepsStep σ deps nodeFor) _
    (fun acc a _ z => AMap.mem_query_add) (nodeDeps0 n) (x, y)]
  have h0 : y ∉ (nodeDeps0 n).query x := by
    unfold AMap.query
    rw [nodeDeps0_get?]
    split <;> simp
  simp only [h0, false_or, List.mem_filter, List.mem_map, bne_iff_ne, ne_eq]
  constructor
  · rintro ⟨u, _, hx, ⟨v, hv, hy⟩, hne⟩
    rw [hσ.mem] at hv
    subst hx
    exact ⟨fun h => hne h.symm, u, v, hv, rfl, hy⟩
  · rintro ⟨hne, u, v, he, hx, hy⟩
    subst hx
    refine ⟨u, ?_, rfl, ⟨v, hσ.mem.mpr he, hy⟩, fun h => hne h.symm⟩
    rw [hσ.mem, AMap.mem_keys]
    unfold Edge AMap.query at he
    cases hq : deps.get? u with
    | none => rw [hq] at he; simp at he
    | some s => rfl

theorem nodeDepsOf_isSome {σ : Sched} (hσ : σ.Valid) (deps : AMap) (nodeFor : List (Nat × Nat))
    (n x : Nat) :
    ((nodeDepsOf σ deps nodeFor n).get? x).isSome = true ↔
      (x < n ∨ ∃ u ∈ deps.keys, x = nfOf nodeFor u) := by
  unfold nodeDepsOf
  rw [foldl_rel (fun (m : AMap) (z : Nat) => (m.get? z).isSome = true)
    (fun u (z : Nat) => z = nfOf nodeFor u)
    (nodeDepsStep σ deps nodeFor) _
    (fun acc a _ z => AMap.isSome_get?_add) (nodeDeps0 n) x]
  rw [nodeDeps0_get?]
  constructor
  · rintro (h | ⟨u, hu, hx⟩)
    · left
      by_cases hlt : x < n
      · exact hlt
      · simp [hlt] at h
    · exact Or.inr ⟨u, hσ.mem.mp hu, hx⟩
  · rintro (h | ⟨u, hu, hx⟩)
    · left; simp [h]
    · exact Or.inr ⟨u, hσ.mem.mpr hu, hx⟩

end ZV.Graph

/-! ## The node-level graph is the acyclic condensation of the binding graph -/

namespace ZV.Graph

private theorem Reach.eq_or_mem_allNodes_left {deps : AMap} {u v : Nat} (h : Reach deps u v) :
    u = v ∨ u ∈ allNodes deps := by
  cases h with
  | refl => exact Or.inl rfl
  | step e _ => exact Or.inr e.mem_allNodes_left

/-- Facts about a dependency-respecting decomposition `groups` of `deps`. -/
structure Decomp (deps : AMap) (groups : List IdSet) : Prop where
  dfirst : IsDepsFirst deps groups

namespace Decomp

variable {deps : AMap} {groups : List IdSet}

theorem nodup (h : Decomp deps groups) : (groups.flatMap id).Nodup := h.dfirst.1

theorem nodeOf_of_mem (h : Decomp deps groups) {u : Nat} (hu : u ∈ allNodes deps) :
    ∃ i, NodeOf groups u i :=
  NodeOf.exists_of_mem ((h.dfirst.2.1 u).mp hu)

theorem mem_allNodes (h : Decomp deps groups) {u i : Nat} (hu : NodeOf groups u i) :
    u ∈ allNodes deps := by
  obtain ⟨g, hg, hug⟩ := hu
  exact (h.dfirst.2.1 u).mpr (List.mem_flatMap.mpr ⟨g, List.mem_of_getElem? hg, hug⟩)

theorem sameScc_of_same (h : Decomp deps groups) {u v i : Nat} (hu : NodeOf groups u i)
    (hv : NodeOf groups v i) : SameScc deps u v := by
  obtain ⟨g, hg, hug⟩ := hu
  obtain ⟨g', hg', hvg⟩ := hv
  rw [hg] at hg'
  cases hg'
  exact ((h.dfirst.2.2.1 g (List.mem_of_getElem? hg)).2 u hug v).mp hvg

theorem same_of_sameScc (h : Decomp deps groups) {u v i : Nat} (hu : NodeOf groups u i)
    (hs : SameScc deps u v) : NodeOf groups v i := by
  obtain ⟨g, hg, hug⟩ := hu
  exact ⟨g, hg, ((h.dfirst.2.2.1 g (List.mem_of_getElem? hg)).2 u hug v).mpr hs⟩

theorem exists_member (h : Decomp deps groups) {i : Nat} (hi : i < groups.length) :
    ∃ u, NodeOf groups u i := by
  have hg : groups[i]? = some groups[i] := List.getElem?_eq_getElem hi
  have hne := (h.dfirst.2.2.1 groups[i] (List.mem_of_getElem? hg)).1
  cases hgi : groups[i] with
  | nil => exact absurd hgi hne
  | cons a l => exact ⟨a, groups[i], hg, by rw [hgi]; exact List.mem_cons_self⟩

theorem nfOf_eq (h : Decomp deps groups) (bindings : List (Nat × Nat)) {u i : Nat}
    (hu : NodeOf groups u i) : nfOf (nodeForOf bindings 0 groups) u = i := by
  unfold nfOf
  rw [(lookup_nodeForOf_iff bindings groups h.nodup u i).mpr hu]
  rfl

theorem nodeFor_isSome (h : Decomp deps groups) (bindings : List (Nat × Nat)) {u : Nat}
    (hu : u ∈ allNodes deps) : (lookup (nodeForOf bindings 0 groups) u).isSome = true := by
  obtain ⟨i, hi⟩ := h.nodeOf_of_mem hu
  rw [(lookup_nodeForOf_iff bindings groups h.nodup u i).mpr hi]
  rfl

/-- The node-level graph built by `fromBindings`. -/
def nodeGraph (σ : Sched) (deps : AMap) (bindings : List (Nat × Nat)) (groups : List IdSet) : AMap :=
  nodeDepsOf σ deps (nodeForOf bindings 0 groups) groups.length

theorem edge_nodeGraph {σ : Sched} (hσ : σ.Valid) (h : Decomp deps groups)
    (bindings : List (Nat × Nat)) (x y : Nat) :
    Edge (nodeGraph σ deps bindings groups) x y ↔
      (x ≠ y ∧ ∃ u v, Edge deps u v ∧ NodeOf groups u x ∧ NodeOf groups v y) := by
  unfold Edge nodeGraph
  rw [nodeDepsOf_query hσ]
  constructor
  · rintro ⟨hne, u, v, he, hx, hy⟩
    obtain ⟨i, hi⟩ := h.nodeOf_of_mem he.mem_allNodes_left
    obtain ⟨j, hj⟩ := h.nodeOf_of_mem he.mem_allNodes_right
    rw [h.nfOf_eq bindings hi] at hx
    rw [h.nfOf_eq bindings hj] at hy
    subst hx; subst hy
    exact ⟨hne, u, v, he, hi, hj⟩
  · rintro ⟨hne, u, v, he, hi, hj⟩
    exact ⟨hne, u, v, he, h.nfOf_eq bindings hi, h.nfOf_eq bindings hj⟩

theorem mem_allNodes_nodeGraph {σ : Sched} (hσ : σ.Valid) (h : Decomp deps groups)
    (bindings : List (Nat × Nat)) (x : Nat) :
    x ∈ allNodes (nodeGraph σ deps bindings groups) ↔ x < groups.length := by
  have hwf : (nodeGraph σ deps bindings groups).keys.Nodup := (nodeDepsOf_wf σ deps _ _).1
  rw [mem_allNodes_iff hwf]
  constructor
  · rintro (hs | ⟨k, hk⟩)
    · unfold nodeGraph at hs
      rw [nodeDepsOf_isSome hσ] at hs
      rcases hs with hs | ⟨u, hu, hx⟩
      · exact hs
      · have hall : u ∈ allNodes deps := by
          rw [AMap.mem_keys] at hu
          obtain ⟨s, hs⟩ := Option.isSome_iff_exists.mp hu
          exact ZV.Graph.mem_allNodes.mpr ⟨(u, s), AMap.get?_mem hs, Or.inl rfl⟩
        obtain ⟨i, hi⟩ := h.nodeOf_of_mem hall
        rw [h.nfOf_eq bindings hi] at hx
        subst hx
        exact hi.lt
    · have : Edge (nodeGraph σ deps bindings groups) k x := hk
      rw [h.edge_nodeGraph hσ] at this
      obtain ⟨_, _, _, _, _, hv⟩ := this
      exact hv.lt
  · intro hx
    left
    unfold nodeGraph
    rw [nodeDepsOf_isSome hσ]
    exact Or.inl hx

/-- Reachability in the node graph lifts to the members. -/
theorem reach_lift {σ : Sched} (hσ : σ.Valid) (h : Decomp deps groups)
    (bindings : List (Nat × Nat)) {x y : Nat}
    (hr : Reach (nodeGraph σ deps bindings groups) x y) :
    ∀ u v, NodeOf groups u x → NodeOf groups v y → Reach deps u v := by
  induction hr with
  | refl x => exact fun u v hu hv => (h.sameScc_of_same hu hv).1
  | step e _ ih =>
    intro u v hu hv
    rw [h.edge_nodeGraph hσ] at e
    obtain ⟨_, u', w, he, hu', hw⟩ := e
    exact ((h.sameScc_of_same hu hu').1.trans (Reach.step he (Reach.refl w))).trans (ih w v hw hv)

/-- All strongly connected components of the node graph are singletons. -/
theorem nodeGraph_singletons {σ : Sched} (hσ : σ.Valid) (h : Decomp deps groups)
    (bindings : List (Nat × Nat)) (x y : Nat)
    (hs : SameScc (nodeGraph σ deps bindings groups) x y) : x = y := by
  rcases hs.1.eq_or_mem_allNodes_left with hxy | hx
  · exact hxy
  · rcases hs.1.eq_or_mem_allNodes with hxy | hy
    · exact hxy
    · rw [h.mem_allNodes_nodeGraph hσ] at hx hy
      obtain ⟨u, hu⟩ := h.exists_member hx
      obtain ⟨v, hv⟩ := h.exists_member hy
      have h1 := h.reach_lift hσ bindings hs.1 u v hu hv
      have h2 := h.reach_lift hσ bindings hs.2 v u hv hu
      exact NodeOf.unique h.nodup (h.same_of_sameScc hu ⟨h1, h2⟩) hv

/-- Levels of the node graph are the levels of the members. -/
theorem lvl_nodeGraph {σ : Sched} (hσ : σ.Valid) (h : Decomp deps groups)
    (bindings : List (Nat × Nat)) (k : Nat) :
    ∀ x u, NodeOf groups u x → (Lvl (nodeGraph σ deps bindings groups) k x ↔ Lvl deps k u) := by
  induction k with
  | zero => intro x u _; exact Iff.rfl
  | succ k ih =>
    intro x u hu
    constructor
    · rintro ⟨_, hsucc⟩
      refine ⟨h.mem_allNodes hu, ?_⟩
      intro u' v hs he hn
      have hu' := h.same_of_sameScc hu hs
      obtain ⟨m, hm⟩ := h.nodeOf_of_mem he.mem_allNodes_right
      have hne : x ≠ m := by
        rintro rfl
        exact hn (h.sameScc_of_same hu' hm)
      have hedge : Edge (nodeGraph σ deps bindings groups) x m :=
        (h.edge_nodeGraph hσ bindings x m).mpr ⟨hne, u', v, he, hu', hm⟩
      have := hsucc x m (SameScc.refl _ x) hedge
        (fun hs' => hne (h.nodeGraph_singletons hσ bindings x m hs'))
      exact (ih m v hm).mp this
    · rintro ⟨_, hsucc⟩
      refine ⟨(h.mem_allNodes_nodeGraph hσ bindings x).mpr hu.lt, ?_⟩
      intro x' m hs he _
      have := h.nodeGraph_singletons hσ bindings x x' hs
      subst this
      rw [h.edge_nodeGraph hσ] at he
      obtain ⟨hne, u', v, he', hu', hm⟩ := he
      have hn : ¬ SameScc deps u' v := by
        intro hs'
        exact hne (NodeOf.unique h.nodup (h.same_of_sameScc hu' hs') hm)
      exact (ih m v hm).mpr (hsucc u' v (h.sameScc_of_same hu hu') he' hn)

theorem atLvl_nodeGraph {σ : Sched} (hσ : σ.Valid) (h : Decomp deps groups)
    (bindings : List (Nat × Nat)) (k : Nat) {x u : Nat} (hu : NodeOf groups u x) :
    AtLvl (nodeGraph σ deps bindings groups) k x ↔ AtLvl deps k u := by
  unfold AtLvl
  rw [h.lvl_nodeGraph hσ bindings (k + 1) x u hu, h.lvl_nodeGraph hσ bindings k x u hu]

end Decomp

end ZV.Graph

/-! ## `fromBindings` succeeds; node keys; canonical nodes -/

namespace ZV.Graph
open ZV.Props.C08

/-! ### `kosaraju` succeeds -/

private theorem kosaraju_of_belongs {σ : Sched} {deps : AMap} {b : List (Nat × Nat)}
    (h : kosarajuBelongs σ deps = .ok b) : kosaraju σ deps = Scc.new σ deps b := by
  unfold kosaraju
  rw [h]
  rfl

theorem kosaraju_succeeds (hT : Statement.kosaraju_total) (hK : Statement.kosaraju_correct)
    {σ : Sched} (hσ : σ.Valid) {deps : AMap} (hwf : WfGraph deps) :
    ∃ g b, kosaraju σ deps = .ok g ∧ IsSccLabeling deps b ∧ Scc.Inv deps b [] g := by
  obtain ⟨b, hb⟩ := hT σ deps hσ hwf
  have hlab := hK σ deps b hσ hwf hb
  obtain ⟨g, hg, hinv⟩ := Scc.new_spec hσ deps b hlab.target_labelled
  exact ⟨g, b, by rw [kosaraju_of_belongs hb]; exact hg, hlab, hinv⟩

/-! ### `fromBindings` succeeds -/

theorem fromBindingsTail_ok {σ : Sched} (hσ : σ.Valid) (deps : AMap) (nodes : List Node)
    (nodeFor : List (Nat × Nat)) (graph : Scc)
    (hlab : ∀ u, u ∈ allNodes deps → (lookup nodeFor u).isSome = true)
    (hk : kosaraju σ (nodeDepsOf σ deps nodeFor nodes.length) = .ok graph) :
    fromBindingsTail σ deps (nodes, nodeFor, []) = .ok { nodes := nodes, graph := graph } := by
  unfold fromBindingsTail
  simp only [List.isEmpty_nil, Bool.not_true, Bool.false_eq_true, if_false, bind, Except.bind,
    pure, Except.pure]
  rw [nodeDepsFold_ok hσ deps nodeFor nodes.length hlab]
  simp only [hk]

theorem fromBindings_ok (hT : Statement.kosaraju_total) (hK : Statement.kosaraju_correct)
    {σ : Sched} (hσ : σ.Valid) {deps : AMap} (hwf : WfGraph deps) (bindings : List (Nat × Nat))
    (hcov : ∀ u, u ∈ allNodes deps ↔ u ∈ bindings.map (·.1)) :
    ∃ groups b' graph, Decomp deps groups ∧
      fromBindings σ bindings deps =
        .ok { nodes := groups.map (mkNode bindings deps), graph := graph } ∧
      IsSccLabeling (Decomp.nodeGraph σ deps bindings groups) b' ∧
      Scc.Inv (Decomp.nodeGraph σ deps bindings groups) b' [] graph := by
  obtain ⟨comps, b, hcomps, _, _⟩ := kosaraju_succeeds hT hK hσ hwf
  obtain ⟨groups, hdrain, hdf⟩ := drain_deps_first_pf hT hK σ deps comps hσ hwf hcomps
  have hdec : Decomp deps groups := ⟨hdf⟩
  obtain ⟨remaining', hfold, hrem⟩ := groupFold_ok bindings deps groups [] [] bindings
    (fun g hg => (hdf.2.2.1 g hg).1) hdf.1
    (fun u hu => (hcov u).mp ((hdf.2.1 u).mpr hu))
  have hrem' : remaining' = [] := by
    apply List.eq_nil_iff_forall_not_mem.mpr
    intro p hp
    rw [hrem] at hp
    apply hp.2
    rw [← hdf.2.1, hcov]
    exact List.mem_map.mpr ⟨p, hp.1, rfl⟩
  subst hrem'
  simp only [List.nil_append, List.length_nil] at hfold
  obtain ⟨graph, b', hgraph, hlab', hinv'⟩ :=
    kosaraju_succeeds hT hK hσ (nodeDepsOf_wf σ deps (nodeForOf bindings 0 groups) groups.length)
  refine ⟨groups, b', graph, hdec, ?_, hlab', hinv'⟩
  rw [fromBindings_unfold, hcomps]
  simp only [Except.bind]
  rw [hdrain]
  simp only []
  rw [hfold]
  simp only []
  apply fromBindingsTail_ok hσ
  · intro u hu
    exact hdec.nodeFor_isSome bindings hu
  · rw [List.length_map]
    exact hgraph

/-! ### Keys of the nodes -/

/-- The sort key of a node: the minimum source order of its members. -/
def nodeKey (bindings : List (Nat × Nat)) (nd : Node) : Nat :=
  (nd.members.map (bindOrder bindings)).foldl min
    ((nd.members.head?.map (bindOrder bindings)).getD 0)

theorem nodeOrder_eq (bindings : List (Nat × Nat)) (c : Ctx) (n : Nat) :
    c.nodeOrder bindings n =
      match c.nodes[n]? with
      | some nd => nodeKey bindings nd
      | none => 0 := rfl

private theorem foldl_min_mem (l : List Nat) (a : Nat) : l.foldl min a = a ∨ l.foldl min a ∈ l := by
  induction l generalizing a with
  | nil => exact Or.inl rfl
  | cons x l ih =>
    simp only [List.foldl_cons]
    rcases ih (min a x) with h | h
    · rw [h]
      rcases Nat.le_total a x with hax | hxa
      · exact Or.inl (Nat.min_eq_left hax)
      · rw [Nat.min_eq_right hxa]; exact Or.inr List.mem_cons_self
    · exact Or.inr (List.mem_cons_of_mem _ h)

theorem nodeKey_mem (bindings : List (Nat × Nat)) (nd : Node) (hne : nd.members ≠ []) :
    ∃ u ∈ nd.members, nodeKey bindings nd = bindOrder bindings u := by
  unfold nodeKey
  cases hm : nd.members with
  | nil => exact absurd hm hne
  | cons a l =>
    simp only [List.head?_cons, Option.map_some, Option.getD_some]
    rcases foldl_min_mem ((a :: l).map (bindOrder bindings)) (bindOrder bindings a) with h | h
    · exact ⟨a, List.mem_cons_self, h⟩
    · obtain ⟨u, hu, hue⟩ := List.mem_map.mp h
      exact ⟨u, hu, hue.symm⟩

private theorem fst_eq_of_nodup_snd {l : List (Nat × Nat)} (hn : (l.map (·.2)).Nodup) {a a' c : Nat}
    (h : (a, c) ∈ l) (h' : (a', c) ∈ l) : a = a' := by
  induction l with
  | nil => simp at h
  | cons p l ih =>
    simp only [List.map_cons, List.nodup_cons] at hn
    rcases List.mem_cons.mp h with rfl | h1
    · rcases List.mem_cons.mp h' with h2 | h2
      · exact (Prod.mk.inj h2).1.symm
      · exact absurd (List.mem_map.mpr ⟨(a', c), h2, rfl⟩) hn.1
    · rcases List.mem_cons.mp h' with rfl | h2
      · exact absurd (List.mem_map.mpr ⟨(a, c), h1, rfl⟩) hn.1
      · exact ih hn.2 h1 h2

theorem bindOrder_inj {bindings : List (Nat × Nat)} (ho : (bindings.map (·.2)).Nodup) {u v : Nat}
    (hu : u ∈ bindings.map (·.1)) (hv : v ∈ bindings.map (·.1))
    (h : bindOrder bindings u = bindOrder bindings v) : u = v := by
  obtain ⟨ou, hou⟩ := Option.isSome_iff_exists.mp (lookup_isSome.mpr hu)
  obtain ⟨ov, hov⟩ := Option.isSome_iff_exists.mp (lookup_isSome.mpr hv)
  unfold bindOrder at h
  rw [hou, hov] at h
  simp only [Option.getD_some] at h
  subst h
  exact fst_eq_of_nodup_snd ho (lookup_mem hou) (lookup_mem hov)

/-! ### `recOf` -/

theorem recOf_iff (deps : AMap) (ids : List Nat) :
    recOf deps ids = true ↔ (ids.length > 1 ∨ ∃ u ∈ ids, Edge deps u u) := by
  unfold recOf
  cases ids with
  | nil => simp
  | cons a l =>
    cases l with
    | nil =>
      simp only [List.length_cons, List.length_nil, Nat.zero_add, gt_iff_lt, Nat.lt_irrefl,
        decide_false, List.head?_cons, Bool.false_or, List.contains_iff_mem, false_or,
        List.mem_singleton, exists_eq_left]
      rfl
    | cons b l =>
      simp only [List.length_cons, gt_iff_lt, List.head?_cons]
      have : 1 < l.length + 1 + 1 := by omega
      simp [this]

/-! ### The canonical description of a node -/

def NodeAt (deps : AMap) (k : Nat) (nd : Node) : Prop := ∃ u ∈ nd.members, AtLvl deps k u

def NodeBefore (deps : AMap) (bindings : List (Nat × Nat)) (nd nd' : Node) : Prop :=
  ∃ k k', NodeAt deps k nd ∧ NodeAt deps k' nd' ∧
    (k < k' ∨ (k = k' ∧ nodeKey bindings nd < nodeKey bindings nd'))

def Canon (deps : AMap) (bindings : List (Nat × Nat)) (nd : Node) : Prop :=
  nd.members ≠ [] ∧
  nd.members.Pairwise (fun a b => bindOrder bindings a < bindOrder bindings b) ∧
  (∀ u ∈ nd.members, u ∈ allNodes deps ∧ ∀ v, v ∈ nd.members ↔ SameScc deps u v) ∧
  nd.recursive = recOf deps nd.members

theorem AtLvl.of_sameScc {G : AMap} {k u w : Nat} (hs : SameScc G u w) (h : AtLvl G k u) :
    AtLvl G k w :=
  ⟨h.1.of_sameScc hs, fun hw => h.2 (hw.of_sameScc hs.symm)⟩

theorem NodeAt.unique {deps : AMap} {bindings : List (Nat × Nat)} {nd : Node}
    (hc : Canon deps bindings nd) {k k' : Nat} (h : NodeAt deps k nd) (h' : NodeAt deps k' nd) :
    k = k' := by
  obtain ⟨u, hu, hat⟩ := h
  obtain ⟨u', hu', hat'⟩ := h'
  have hs : SameScc deps u u' := ((hc.2.2.1 u hu).2 u').mp hu'
  exact (hat.of_sameScc hs).unique hat'

theorem NodeBefore.asymm {deps : AMap} {bindings : List (Nat × Nat)} {nd nd' : Node}
    (hc : Canon deps bindings nd) (hc' : Canon deps bindings nd')
    (h : NodeBefore deps bindings nd nd') (h' : NodeBefore deps bindings nd' nd) : False := by
  obtain ⟨k, k', hk, hk', hlt⟩ := h
  obtain ⟨j', j, hj', hj, hlt'⟩ := h'
  have e1 := NodeAt.unique hc hk hj
  have e2 := NodeAt.unique hc' hk' hj'
  subst e1; subst e2
  omega

/-- A canonical node is determined by any of its members. -/
theorem Canon.eq_of_common_member {deps : AMap} {bindings : List (Nat × Nat)} {nd nd' : Node}
    (hc : Canon deps bindings nd) (hc' : Canon deps bindings nd') {u : Nat}
    (hu : u ∈ nd.members) (hu' : u ∈ nd'.members) : nd = nd' := by
  have hmem : nd.members = nd'.members := by
    apply eq_of_pairwise_of_mem_iff _ _ _ hc.2.1 hc'.2.1
    · intro x _ y _ h1 h2
      exact Nat.lt_asymm h1 h2
    · intro v
      rw [(hc.2.2.1 u hu).2 v, (hc'.2.2.1 u hu').2 v]
  cases nd with
  | mk m r =>
    cases nd' with
    | mk m' r' =>
      simp only [] at hmem
      subst hmem
      have h1 := hc.2.2.2
      have h2 := hc'.2.2.2
      simp only [] at h1 h2
      rw [h1, h2]

end ZV.Graph

/-! ## The context order: validity and scheduler independence -/

namespace ZV.Graph
open ZV.Props.C08

theorem contextOrder_unfold (σ : Sched) (bindings : List (Nat × Nat)) (deps : AMap) :
    contextOrder σ bindings deps =
      (fromBindings σ bindings deps).bind fun c =>
        (c.topoLoop σ bindings (c.nodes.length + 1) c.graph []).bind fun order =>
          .ok (order.filterMap fun n => c.nodes[n]?) := rfl

private theorem filterMap_eq_map_of_forall {α β : Type} (f : α → Option β) (g : α → β) (l : List α)
    (h : ∀ x ∈ l, f x = some (g x)) : l.filterMap f = l.map g := by
  induction l with
  | nil => rfl
  | cons a l ih =>
    rw [List.filterMap_cons, h a List.mem_cons_self, List.map_cons,
      ih (fun x hx => h x (List.mem_cons_of_mem _ hx))]

private theorem nodup_of_mem_flatMap_nodup {groups : List IdSet} (h : (groups.flatMap id).Nodup)
    {g : IdSet} (hg : g ∈ groups) : g.Nodup := by
  have : List.Pairwise (· ≠ ·) (groups.flatMap id) := h
  rw [List.pairwise_flatMap] at this
  exact this.1 g hg

/-- The node built for group number `n`. -/
def nodeAt (bindings : List (Nat × Nat)) (deps : AMap) (groups : List IdSet) (n : Nat) : Node :=
  mkNode bindings deps (groups[n]?.getD [])

section
variable {deps : AMap} {groups : List IdSet} (bindings : List (Nat × Nat))

theorem nodes_getElem? {n : Nat} (hn : n < groups.length) :
    (groups.map (mkNode bindings deps))[n]? = some (nodeAt bindings deps groups n) := by
  rw [List.getElem?_map, List.getElem?_eq_getElem hn]
  unfold nodeAt
  rw [List.getElem?_eq_getElem hn]
  rfl

theorem mem_nodeAt {n : Nat} (hn : n < groups.length) (u : Nat) :
    u ∈ (nodeAt bindings deps groups n).members ↔ NodeOf groups u n := by
  unfold nodeAt mkNode NodeOf
  simp only []
  rw [(sortByKey_perm _ _).mem_iff, List.getElem?_eq_getElem hn]
  simp

theorem canon_nodeAt (h : Decomp deps groups)
    (ho : (bindings.map (·.2)).Nodup) (hcov : ∀ u, u ∈ allNodes deps ↔ u ∈ bindings.map (·.1))
    {n : Nat} (hn : n < groups.length) : Canon deps bindings (nodeAt bindings deps groups n) := by
  have hmem := mem_nodeAt (deps := deps) bindings hn
  refine ⟨?_, ?_, ?_, rfl⟩
  · obtain ⟨u, hu⟩ := h.exists_member hn
    intro hnil
    have := (hmem u).mpr hu
    rw [hnil] at this
    simp at this
  · have hg : groups[n]? = some groups[n] := List.getElem?_eq_getElem hn
    unfold nodeAt mkNode
    simp only [hg, Option.getD_some]
    apply sortByKey_strict
    · exact nodup_of_mem_flatMap_nodup h.nodup (List.mem_of_getElem? hg)
    · intro a ha b hb heq
      have ha' : a ∈ allNodes deps := h.mem_allNodes ⟨groups[n], hg, ha⟩
      have hb' : b ∈ allNodes deps := h.mem_allNodes ⟨groups[n], hg, hb⟩
      exact bindOrder_inj ho ((hcov a).mp ha') ((hcov b).mp hb') heq
  · intro u hu
    rw [hmem] at hu
    refine ⟨h.mem_allNodes hu, ?_⟩
    intro v
    rw [hmem]
    exact ⟨fun hv => h.sameScc_of_same hu hv, fun hs => h.same_of_sameScc hu hs⟩

end

/-- Everything we know about the result of `contextOrder`. -/
theorem contextOrder_spec (hT : Statement.kosaraju_total) (hK : Statement.kosaraju_correct)
    {σ : Sched} (hσ : σ.Valid) {deps : AMap} (hwf : WfGraph deps) (bindings : List (Nat × Nat))
    (ho : (bindings.map (·.2)).Nodup)
    (hcov : ∀ u, u ∈ allNodes deps ↔ u ∈ bindings.map (·.1)) :
    ∃ L, contextOrder σ bindings deps = .ok L ∧ IsDepsFirst deps (L.map (·.members)) ∧
      (∀ nd, nd ∈ L ↔ Canon deps bindings nd) ∧ L.Pairwise (NodeBefore deps bindings) := by
  obtain ⟨groups, b', graph, hdec, hfrom, hlab', hinv'⟩ := fromBindings_ok hT hK hσ hwf bindings hcov
  have hsing := hdec.nodeGraph_singletons hσ bindings
  have hall := hdec.mem_allNodes_nodeGraph hσ bindings
  have hcanon := fun {n : Nat} (hn : n < groups.length) => canon_nodeAt bindings hdec ho hcov hn
  have hmemN := fun {n : Nat} (hn : n < groups.length) => mem_nodeAt (deps := deps) bindings hn
  -- the sort key of a node id
  have hkeyeq : ∀ n, n < groups.length →
      Ctx.nodeOrder bindings { nodes := groups.map (mkNode bindings deps), graph := graph } n =
        nodeKey bindings (nodeAt bindings deps groups n) := by
    intro n hn
    rw [nodeOrder_eq]
    simp only [nodes_getElem? bindings hn]
  have hkey : ∀ n m, n ∈ allNodes (Decomp.nodeGraph σ deps bindings groups) →
      m ∈ allNodes (Decomp.nodeGraph σ deps bindings groups) →
      Ctx.nodeOrder bindings { nodes := groups.map (mkNode bindings deps), graph := graph } n =
        Ctx.nodeOrder bindings { nodes := groups.map (mkNode bindings deps), graph := graph } m →
      n = m := by
    intro n m hn hm heq
    rw [hall] at hn hm
    rw [hkeyeq n hn, hkeyeq m hm] at heq
    obtain ⟨u, hu, hku⟩ := nodeKey_mem bindings _ (hcanon hn).1
    obtain ⟨v, hv, hkv⟩ := nodeKey_mem bindings _ (hcanon hm).1
    rw [hku, hkv] at heq
    rw [hmemN hn] at hu
    rw [hmemN hm] at hv
    have := bindOrder_inj ho ((hcov u).mp (hdec.mem_allNodes hu)) ((hcov v).mp (hdec.mem_allNodes hv)) heq
    subst this
    exact NodeOf.unique hdec.nodup hu hv
  have hblen : b'.length ≤ groups.length := by
    have := hlab'.1.length_le_of_subset (l₂ := List.range groups.length) (by
      intro x hx
      rw [List.mem_range, ← hall, hlab'.2.1]
      exact lookup_isSome.mpr hx)
    simpa using this
  obtain ⟨order, gone', htopo, hgood, hdone, hpw⟩ :=
    topo_spec hσ hlab' hsing bindings { nodes := groups.map (mkNode bindings deps), graph := graph }
      hkey (groups.length + 1) graph [] [] 0 hinv' (by simpa using Good.nil _ b')
      (by intro n; simp [Lvl]) List.Pairwise.nil (by simp only [List.length_nil]; omega)
  have hIDF := hgood.isDepsFirst hlab' hdone
  have hordnd : order.Nodup := by
    have := hIDF.1
    rwa [flatMap_singleton_map] at this
  have hordmem : ∀ n, n ∈ order ↔ n < groups.length := by
    intro n
    have := hIDF.2.1 n
    rw [flatMap_singleton_map, hall] at this
    exact this.symm
  have hL : contextOrder σ bindings deps = .ok (order.map (nodeAt bindings deps groups)) := by
    rw [contextOrder_unfold, hfrom]
    simp only [Except.bind, List.length_map]
    rw [htopo]
    simp only []
    rw [filterMap_eq_map_of_forall _ (nodeAt bindings deps groups)]
    intro n hn
    exact nodes_getElem? bindings ((hordmem n).mp hn)
  refine ⟨_, hL, ?_, ?_, ?_⟩
  · -- dependency-respecting decomposition
    rw [List.map_map]
    refine ⟨?_, ?_, ?_, ?_⟩
    · have : List.Nodup ((order.map ((·.members) ∘ nodeAt bindings deps groups)).flatMap id) ↔
          List.Pairwise (· ≠ ·) ((order.map ((·.members) ∘ nodeAt bindings deps groups)).flatMap id) :=
        Iff.rfl
      rw [this, List.pairwise_flatMap]
      constructor
      · intro g hg
        obtain ⟨n, hn, rfl⟩ := List.mem_map.mp hg
        exact ((hcanon ((hordmem n).mp hn)).2.1.imp (fun h => Nat.ne_of_lt h)).imp
          (fun {a b} (h : bindOrder bindings a ≠ bindOrder bindings b) => fun hab => h (by rw [hab]))
      · rw [List.pairwise_map]
        apply List.Pairwise.imp_of_mem _ hordnd
        intro n m hn hm hne x hx y hy hxy
        simp only [id, Function.comp] at hx hy
        rw [hmemN ((hordmem n).mp hn)] at hx
        rw [hmemN ((hordmem m).mp hm)] at hy
        subst hxy
        exact hne (NodeOf.unique hdec.nodup hx hy)
    · intro u
      rw [List.mem_flatMap]
      constructor
      · intro hu
        obtain ⟨n, hn⟩ := hdec.nodeOf_of_mem hu
        refine ⟨_, List.mem_map.mpr ⟨n, (hordmem n).mpr hn.lt, rfl⟩, ?_⟩
        simp only [id, Function.comp]
        exact (hmemN hn.lt u).mpr hn
      · rintro ⟨g, hg, hug⟩
        obtain ⟨n, hn, rfl⟩ := List.mem_map.mp hg
        simp only [id, Function.comp] at hug
        exact hdec.mem_allNodes ((hmemN ((hordmem n).mp hn) u).mp hug)
    · intro g hg
      obtain ⟨n, hn, rfl⟩ := List.mem_map.mp hg
      have hc := hcanon ((hordmem n).mp hn)
      exact ⟨hc.1, fun u hu v => (hc.2.2.1 u hu).2 v⟩
    · intro i j gi gj hi hj u hu v hv he hns
      rw [List.getElem?_map] at hi hj
      cases hoi : order[i]? with
      | none => rw [hoi] at hi; simp at hi
      | some n =>
        cases hoj : order[j]? with
        | none => rw [hoj] at hj; simp at hj
        | some m =>
          rw [hoi] at hi
          rw [hoj] at hj
          simp only [Option.map_some, Option.some.injEq, Function.comp] at hi hj
          subst hi; subst hj
          have hn := (hordmem n).mp (List.mem_of_getElem? hoi)
          have hm := (hordmem m).mp (List.mem_of_getElem? hoj)
          rw [hmemN hn] at hu
          rw [hmemN hm] at hv
          have hne : n ≠ m := by
            rintro rfl
            exact hns (hdec.sameScc_of_same hu hv)
          have hedge : Edge (Decomp.nodeGraph σ deps bindings groups) n m :=
            (hdec.edge_nodeGraph hσ bindings n m).mpr ⟨hne, u, v, he, hu, hv⟩
          apply hIDF.2.2.2 i j [n] [m] _ _ n (by simp) m (by simp) hedge
            (fun hs => hne (hsing n m hs))
          · rw [List.getElem?_map, hoi]; rfl
          · rw [List.getElem?_map, hoj]; rfl
  · -- the nodes are exactly the canonical ones
    intro nd
    constructor
    · intro hnd
      obtain ⟨n, hn, rfl⟩ := List.mem_map.mp hnd
      exact hcanon ((hordmem n).mp hn)
    · intro hc
      cases hm : nd.members with
      | nil => exact absurd hm hc.1
      | cons u l =>
        have hu : u ∈ nd.members := by rw [hm]; exact List.mem_cons_self
        obtain ⟨n, hn⟩ := hdec.nodeOf_of_mem (hc.2.2.1 u hu).1
        have : nd = nodeAt bindings deps groups n :=
          hc.eq_of_common_member (hcanon hn.lt) hu ((hmemN hn.lt u).mpr hn)
        rw [this]
        exact List.mem_map.mpr ⟨n, (hordmem n).mpr hn.lt, rfl⟩
  · -- sorted by level, then by key
    rw [List.pairwise_map]
    apply List.Pairwise.imp_of_mem _ hpw
    intro n m hn hm hbef
    have hn' := (hordmem n).mp hn
    have hm' := (hordmem m).mp hm
    obtain ⟨k, k', hk, hk', hlt⟩ := hbef
    obtain ⟨u, hu⟩ := hdec.exists_member hn'
    obtain ⟨v, hv⟩ := hdec.exists_member hm'
    refine ⟨k, k', ⟨u, (hmemN hn' u).mpr hu, (hdec.atLvl_nodeGraph hσ bindings k hu).mp hk⟩,
      ⟨v, (hmemN hm' v).mpr hv, (hdec.atLvl_nodeGraph hσ bindings k' hv).mp hk'⟩, ?_⟩
    rw [hkeyeq n hn', hkeyeq m hm'] at hlt
    exact hlt

/-- **C08, validity of the context order.** -/
theorem context_order_valid_pf (hT : Statement.kosaraju_total) (hK : Statement.kosaraju_correct) :
    Statement.context_order_valid := by
  intro σ bindings deps hσ hwf _ ho hcov
  obtain ⟨L, hL, hdf, hcanon, _⟩ := contextOrder_spec hT hK hσ hwf bindings ho hcov
  refine ⟨L, hL, hdf, ?_⟩
  intro n hn
  have hc := (hcanon n).mp hn
  rw [hc.2.2.2, recOf_iff]

/-- **C08, the context order does not depend on the iteration order of hash maps.** -/
theorem topo_deterministic_pf (hT : Statement.kosaraju_total) (hK : Statement.kosaraju_correct) :
    Statement.topo_deterministic := by
  intro σ σ' bindings deps hσ hσ' hwf _ ho hcov
  obtain ⟨L, hL, _, hcanon, hpw⟩ := contextOrder_spec hT hK hσ hwf bindings ho hcov
  obtain ⟨L', hL', _, hcanon', hpw'⟩ := contextOrder_spec hT hK hσ' hwf bindings ho hcov
  rw [hL, hL']
  congr 1
  apply eq_of_pairwise_of_mem_iff _ _ _ hpw hpw'
  · intro x hx y hy h1 h2
    exact NodeBefore.asymm ((hcanon x).mp hx) ((hcanon y).mp hy) h1 h2
  · intro nd
    rw [hcanon, hcanon']

end ZV.Graph

