/-
Helper lemmas for C04 (exhaustiveness checking): the matrix algorithm `uncovered` of
`ZV/Model/Coverage.lean` is sound (an empty report means every typed value vector is matched) and
its witnesses are genuine (every reported row denotes an unmatched typed value vector, provided
every type is inhabited). Core Lean only.
-/
import ZV.Model.CoverageSem

namespace ZV.Coverage

/-! ### Constructors of values and of types -/

/-- The head constructor of a value with its fields (`opaque` values have none). -/
def Val.con : Val → Option (Con × List Val)
  | .unit => some (.unit, [])
  | .ctor n v => some (.data n, [v])
  | .pair a b => some (.prod, [a, b])
  | .named f v => some (.named f, [v])
  | .pack v => some (.pack, [v])
  | .opaque _ => none

/-- `c` is a constructor of the type `τ` with argument types `as`. -/
inductive ConTy (Δ : TSig) : Con → Ty → List Ty → Prop
  | data {d : Nat} {n : String} {a : Ty} : (n, a) ∈ Δ.ctorsOf d → ConTy Δ (.data n) (.data d) [a]
  | unit : ConTy Δ .unit .unit []
  | prod {a b : Ty} : ConTy Δ .prod (.prod a b) [a, b]
  | named {f : String} {a : Ty} : ConTy Δ (.named f) (.named f a) [a]
  | pack {a : Ty} : ConTy Δ .pack (.pack a) [a]

/-- The head space `space` is the head space of the type `τ`. -/
def SpaceTy : Head → Ty → Prop
  | .data d, τ => τ = .data d
  | .unit, τ => τ = .unit
  | .prod, τ => ∃ a b, τ = .prod a b
  | .named f, τ => ∃ a, τ = .named f a
  | .pack, τ => ∃ a, τ = .pack a

/-- Some row of the matrix matches the value vector. -/
def covers (m : Matrix) (vs : List Val) : Bool := m.any fun row => rowMatches row vs

theorem covers_eq_true {m : Matrix} {vs : List Val} :
    covers m vs = true ↔ ∃ row ∈ m, rowMatches row vs = true := by
  simp [covers]

theorem covers_eq_false {m : Matrix} {vs : List Val} :
    covers m vs = false ↔ ∀ row ∈ m, rowMatches row vs = false := by
  simp [covers]

@[simp] theorem covers_nil (vs : List Val) : covers [] vs = false := rfl

@[simp] theorem covers_cons (row : List MPat) (m : Matrix) (vs : List Val) :
    covers (row :: m) vs = (rowMatches row vs || covers m vs) := by
  simp [covers]

/-! ### `All₂` -/

theorem All₂.length_eq {α β : Type} {R : α → β → Prop} {as : List α} {bs : List β}
    (h : All₂ R as bs) : as.length = bs.length := by
  induction h with
  | nil => rfl
  | cons _ _ ih => simp [ih]

theorem All₂.append {α β : Type} {R : α → β → Prop} {as : List α} {bs : List β}
    {as' : List α} {bs' : List β} (h : All₂ R as bs) (h' : All₂ R as' bs') :
    All₂ R (as ++ as') (bs ++ bs') := by
  induction h with
  | nil => simpa using h'
  | cons hab _ ih => exact All₂.cons hab ih

theorem All₂.split {α β : Type} {R : α → β → Prop} :
    ∀ {xs : List α} {bs bs' : List β}, All₂ R xs (bs ++ bs') →
      ∃ as as', xs = as ++ as' ∧ All₂ R as bs ∧ All₂ R as' bs'
  | xs, [], bs', h => ⟨[], xs, rfl, All₂.nil, h⟩
  | _, b :: bs, bs', h => by
    cases h with
    | cons hab htl =>
      obtain ⟨as, as', rfl, h1, h2⟩ := All₂.split htl
      exact ⟨_ :: as, as', rfl, All₂.cons hab h1, h2⟩

theorem all₂_replicate_wild (Δ : TSig) : ∀ (as : List Ty),
    All₂ (PatTy Δ) (List.replicate as.length MPat.wild) as
  | [] => All₂.nil
  | _ :: as => All₂.cons PatTy.wild (all₂_replicate_wild Δ as)

/-! ### Signature lookups -/

theorem erase_ctors (Δ : TSig) (d : Nat) :
    Δ.erase.ctors d = (Δ.ctorsOf d).map Prod.fst := by
  simp only [Sig.ctors, TSig.erase, TSig.ctorsOf, List.getElem?_map]
  cases Δ[d]? <;> simp

theorem mem_data_constructors (Δ : TSig) (d : Nat) (c : Con) :
    c ∈ (Head.data d).constructors Δ.erase ↔ ∃ n a, c = .data n ∧ (n, a) ∈ Δ.ctorsOf d := by
  simp only [Head.constructors, erase_ctors, List.mem_map, List.mem_eraseDups]
  constructor
  · rintro ⟨n, ⟨⟨n', a⟩, hmem, rfl⟩, rfl⟩
    exact ⟨n', a, rfl, hmem⟩
  · rintro ⟨n, a, rfl, hmem⟩
    exact ⟨n, ⟨(n, a), hmem, rfl⟩, rfl⟩

theorem nodup_fst_unique {l : List (String × Ty)} (h : (l.map Prod.fst).Nodup)
    {n : String} {a b : Ty} (ha : (n, a) ∈ l) (hb : (n, b) ∈ l) : a = b := by
  induction l with
  | nil => cases ha
  | cons x xs ih =>
    rw [List.map_cons, List.nodup_cons] at h
    have hnot : ∀ c, (n, c) ∈ xs → x.fst ≠ n := by
      intro c hc heq
      exact h.1 (heq ▸ List.mem_map_of_mem (f := Prod.fst) hc)
    rcases List.mem_cons.1 ha with rfl | ha'
    · rcases List.mem_cons.1 hb with hb' | hb'
      · cases hb'; rfl
      · exact absurd rfl (hnot _ hb')
    · rcases List.mem_cons.1 hb with rfl | hb'
      · exact absurd rfl (hnot _ ha')
      · exact ih h.2 ha' hb'

/-! ### Lengths -/

theorem ConTy.length_eq {Δ : TSig} {c : Con} {τ : Ty} {as : List Ty} (h : ConTy Δ c τ as) :
    as.length = c.arity := by
  cases h <;> rfl

theorem Val.con_length {v : Val} {c : Con} {args : List Val} (h : v.con = some (c, args)) :
    args.length = c.arity := by
  cases v <;> simp [Val.con] at h <;> obtain ⟨rfl, rfl⟩ := h <;> rfl

theorem specialize_length {c : Con} {p : MPat} {fields : List MPat}
    (h : c.specialize p = some fields) : fields.length = c.arity := by
  cases c <;> cases p <;> simp [Con.specialize] at h <;>
    first
      | (subst h; simp [Con.arity])
      | (obtain ⟨_, rfl⟩ := h; simp [Con.arity])

/-! ### Matching and specialisation -/

theorem rowMatches_length : ∀ {ps : List MPat} {vs : List Val},
    rowMatches ps vs = true → ps.length = vs.length
  | [], [], _ => rfl
  | [], _ :: _, h => by simp [rowMatches] at h
  | _ :: _, [], h => by simp [rowMatches] at h
  | _ :: ps, _ :: vs, h => by
    simp only [rowMatches, Bool.and_eq_true] at h
    simp [rowMatches_length h.2]

theorem rowMatches_append : ∀ (ps : List MPat) (vs : List Val) (ps' : List MPat) (vs' : List Val),
    ps.length = vs.length →
    rowMatches (ps ++ ps') (vs ++ vs') = (rowMatches ps vs && rowMatches ps' vs')
  | [], [], _, _, _ => by simp [rowMatches]
  | [], _ :: _, _, _, h => by simp at h
  | _ :: _, [], _, _, h => by simp at h
  | p :: ps, v :: vs, ps', vs', h => by
    have := rowMatches_append ps vs ps' vs' (by simpa using h)
    simp [rowMatches, this, Bool.and_assoc]

theorem rowMatches_replicate_wild : ∀ (vs : List Val),
    rowMatches (List.replicate vs.length MPat.wild) vs = true
  | [] => rfl
  | _ :: vs => by simp [List.replicate_succ, rowMatches, MPat.matches, rowMatches_replicate_wild vs]

/-- Matching a value whose head constructor is `c` is matching its fields after specialisation. -/
theorem matches_specialize {v : Val} {c : Con} {args : List Val} (h : v.con = some (c, args))
    (p : MPat) :
    p.matches v = (match c.specialize p with
      | some fields => rowMatches fields args
      | none => false) := by
  cases v <;> simp [Val.con] at h <;> obtain ⟨rfl, rfl⟩ := h <;> cases p <;>
    simp [Con.specialize, MPat.matches, rowMatches, Con.arity, List.replicate]
  · next n' v d n q =>
    by_cases hn : n' = n
    · subst hn; simp [rowMatches]
    · have : ¬ n = n' := fun e => hn e.symm
      simp [hn, this]
  · next f' v f q =>
    by_cases hn : f' = f
    · subst hn; simp [rowMatches]
    · have : ¬ f = f' := fun e => hn e.symm
      simp [hn, this]

theorem covers_specializeM {v : Val} {c : Con} {args : List Val} (h : v.con = some (c, args))
    (vs : List Val) : ∀ (m : Matrix), covers m (v :: vs) = covers (specializeM c m) (args ++ vs)
  | [] => by simp [specializeM]
  | [] :: m => by simp [specializeM, rowMatches, covers_specializeM h vs m]
  | (p :: tl) :: m => by
    have ih := covers_specializeM h vs m
    have hm := matches_specialize h p
    simp only [specializeM, covers_cons, rowMatches]
    cases hs : c.specialize p with
    | none => simp [hs] at hm; simp [hm, ih]
    | some fields =>
      simp only [hs] at hm
      have hl : fields.length = args.length := by
        rw [specialize_length hs, Val.con_length h]
      simp [rowMatches_append _ _ _ _ hl, hm, ih]

theorem headSpace_eq_none {p : MPat} (h : p.headSpace = none) : p = .wild := by
  cases p <;> simp [MPat.headSpace] at h; rfl

theorem covers_defaultM (v : Val) (vs : List Val) : ∀ (m : Matrix), firstHead m = none →
    covers m (v :: vs) = covers (defaultM m) vs
  | [], _ => by simp [defaultM]
  | [] :: m, h => by
    simp only [firstHead] at h
    simp [defaultM, rowMatches, covers_defaultM v vs m h]
  | (p :: tl) :: m, h => by
    simp only [firstHead] at h
    cases hp : p.headSpace with
    | some hd => simp [hp] at h
    | none =>
      simp only [hp] at h
      have := headSpace_eq_none hp
      subst this
      simp [defaultM, rowMatches, MPat.matches, covers_defaultM v vs m h]

/-! ### Typing preservation -/

theorem specialize_typed {Δ : TSig} (hwf : WfSig Δ) {c : Con} {τ : Ty} {as : List Ty}
    (hc : ConTy Δ c τ as) {p : MPat} (hp : PatTy Δ p τ) {fields : List MPat}
    (hs : c.specialize p = some fields) : All₂ (PatTy Δ) fields as := by
  cases hp with
  | wild =>
    simp [Con.specialize] at hs
    subst hs
    rw [← hc.length_eq]
    exact all₂_replicate_wild Δ as
  | ctor hmem hq =>
    cases hc with
    | data hmem' =>
      simp [Con.specialize] at hs
      obtain ⟨rfl, rfl⟩ := hs
      have := nodup_fst_unique (hwf _) hmem hmem'
      subst this
      exact All₂.cons hq All₂.nil
  | unit =>
    cases hc; simp [Con.specialize] at hs; subst hs; exact All₂.nil
  | prod h1 h2 =>
    cases hc; simp [Con.specialize] at hs; subst hs
    exact All₂.cons h1 (All₂.cons h2 All₂.nil)
  | named h1 =>
    cases hc; simp [Con.specialize] at hs; subst hs; exact All₂.cons h1 All₂.nil
  | pack h1 =>
    cases hc; simp [Con.specialize] at hs; subst hs; exact All₂.cons h1 All₂.nil

theorem specializeM_typed {Δ : TSig} (hwf : WfSig Δ) {c : Con} {τ : Ty} {as : List Ty}
    (hc : ConTy Δ c τ as) {τs : List Ty} : ∀ (m : Matrix),
    (∀ row ∈ m, All₂ (PatTy Δ) row (τ :: τs)) →
    ∀ row ∈ specializeM c m, All₂ (PatTy Δ) row (as ++ τs)
  | [], _, row, h => by simp [specializeM] at h
  | [] :: m, hm, row, h => by
    have := hm [] (by simp)
    cases this
  | (p :: tl) :: m, hm, row, h => by
    have ih := specializeM_typed hwf hc m (fun r hr => hm r (by simp [hr])) row
    have hrow := hm (p :: tl) (by simp)
    cases hrow with
    | cons hp htl =>
      simp only [specializeM] at h
      cases hs : c.specialize p with
      | none => simp only [hs] at h; exact ih h
      | some fields =>
        simp only [hs, List.mem_cons] at h
        rcases h with rfl | h
        · exact (specialize_typed hwf hc hp hs).append htl
        · exact ih h

theorem mem_defaultM {row : List MPat} : ∀ {m : Matrix}, row ∈ defaultM m ↔ (MPat.wild :: row) ∈ m
  | [] => by simp [defaultM]
  | [] :: m => by simp [defaultM, mem_defaultM (m := m)]
  | (p :: tl) :: m => by
    cases p <;> simp [defaultM, mem_defaultM (m := m)]

theorem defaultM_typed {Δ : TSig} {τ : Ty} {τs : List Ty} {m : Matrix}
    (hm : ∀ row ∈ m, All₂ (PatTy Δ) row (τ :: τs)) :
    ∀ row ∈ defaultM m, All₂ (PatTy Δ) row τs := by
  intro row h
  have := hm _ (mem_defaultM.1 h)
  cases this with
  | cons _ htl => exact htl

theorem firstHead_some {space : Head} : ∀ {m : Matrix}, firstHead m = some space →
    ∃ p tl, (p :: tl) ∈ m ∧ p.headSpace = some space
  | [], h => by simp [firstHead] at h
  | [] :: m, h => by
    simp only [firstHead] at h
    obtain ⟨p, tl, hmem, hp⟩ := firstHead_some (m := m) h
    exact ⟨p, tl, by simp [hmem], hp⟩
  | (p :: tl) :: m, h => by
    simp only [firstHead] at h
    cases hp : p.headSpace with
    | some hd =>
      simp only [hp, Option.some.injEq] at h
      subst h
      exact ⟨p, tl, by simp, hp⟩
    | none =>
      simp only [hp] at h
      obtain ⟨p', tl', hmem, hp'⟩ := firstHead_some (m := m) h
      exact ⟨p', tl', by simp [hmem], hp'⟩

theorem headSpace_spaceTy {Δ : TSig} {p : MPat} {τ : Ty} {space : Head} (hp : PatTy Δ p τ)
    (hs : p.headSpace = some space) : SpaceTy space τ := by
  cases hp <;> simp [MPat.headSpace] at hs <;> subst hs <;> simp [SpaceTy]

theorem firstHead_spaceTy {Δ : TSig} {τ : Ty} {τs : List Ty} {space : Head} {m : Matrix}
    (hm : ∀ row ∈ m, All₂ (PatTy Δ) row (τ :: τs)) (h : firstHead m = some space) :
    SpaceTy space τ := by
  obtain ⟨p, tl, hmem, hp⟩ := firstHead_some h
  have := hm _ hmem
  cases this with
  | cons hpt _ => exact headSpace_spaceTy hpt hp

/-! ### Head spaces and constructors of a type -/

theorem space_complete {Δ : TSig} {space : Head} {τ : Ty} {v : Val} (hsp : SpaceTy space τ)
    (hv : HasTy Δ v τ) :
    ∃ c args as, v.con = some (c, args) ∧ c ∈ space.constructors Δ.erase ∧ ConTy Δ c τ as ∧
      All₂ (HasTy Δ) args as := by
  cases space with
  | data d =>
    simp only [SpaceTy] at hsp
    subst hsp
    cases hv with
    | ctor hmem hv' =>
      exact ⟨_, _, _, rfl, (mem_data_constructors Δ d _).2 ⟨_, _, rfl, hmem⟩, ConTy.data hmem,
        All₂.cons hv' All₂.nil⟩
  | unit =>
    simp only [SpaceTy] at hsp
    subst hsp
    cases hv
    exact ⟨_, _, _, rfl, by simp [Head.constructors], ConTy.unit, All₂.nil⟩
  | prod =>
    obtain ⟨a, b, rfl⟩ := hsp
    cases hv with
    | pair h1 h2 =>
      exact ⟨_, _, _, rfl, by simp [Head.constructors], ConTy.prod, All₂.cons h1 (All₂.cons h2 All₂.nil)⟩
  | named f =>
    obtain ⟨a, rfl⟩ := hsp
    cases hv with
    | named h1 =>
      exact ⟨_, _, _, rfl, by simp [Head.constructors], ConTy.named, All₂.cons h1 All₂.nil⟩
  | pack =>
    obtain ⟨a, rfl⟩ := hsp
    cases hv with
    | pack h1 =>
      exact ⟨_, _, _, rfl, by simp [Head.constructors], ConTy.pack, All₂.cons h1 All₂.nil⟩

theorem space_sound {Δ : TSig} {space : Head} {τ : Ty} {c : Con} (hsp : SpaceTy space τ)
    (hc : c ∈ space.constructors Δ.erase) : ∃ as, ConTy Δ c τ as := by
  cases space with
  | data d =>
    simp only [SpaceTy] at hsp
    subst hsp
    obtain ⟨n, a, rfl, hmem⟩ := (mem_data_constructors Δ d c).1 hc
    exact ⟨_, ConTy.data hmem⟩
  | unit =>
    simp only [SpaceTy] at hsp
    subst hsp
    simp [Head.constructors] at hc
    subst hc
    exact ⟨_, ConTy.unit⟩
  | prod =>
    obtain ⟨a, b, rfl⟩ := hsp
    simp [Head.constructors] at hc
    subst hc
    exact ⟨_, ConTy.prod⟩
  | named f =>
    obtain ⟨a, rfl⟩ := hsp
    simp [Head.constructors] at hc
    subst hc
    exact ⟨_, ConTy.named⟩
  | pack =>
    obtain ⟨a, rfl⟩ := hsp
    simp [Head.constructors] at hc
    subst hc
    exact ⟨_, ConTy.pack⟩

theorem con_build {Δ : TSig} {c : Con} {τ : Ty} {as : List Ty} {args : List Val}
    (hc : ConTy Δ c τ as) (ha : All₂ (HasTy Δ) args as) :
    ∃ v, HasTy Δ v τ ∧ v.con = some (c, args) := by
  cases hc with
  | data hmem =>
    cases ha with
    | cons h1 h2 => cases h2; exact ⟨_, HasTy.ctor hmem h1, rfl⟩
  | unit => cases ha; exact ⟨_, HasTy.unit, rfl⟩
  | prod =>
    cases ha with
    | cons h1 h2 =>
      cases h2 with
      | cons h2 h3 => cases h3; exact ⟨_, HasTy.pair h1 h2, rfl⟩
  | named =>
    cases ha with
    | cons h1 h2 => cases h2; exact ⟨_, HasTy.named h1, rfl⟩
  | pack =>
    cases ha with
    | cons h1 h2 => cases h2; exact ⟨_, HasTy.pack h1, rfl⟩

/-! ### Soundness of the matrix algorithm -/

theorem take_succ_eq_nil {α : Type} {l : List α} {n : Nat} (h : l.take (n + 1) = []) : l = [] := by
  rcases List.take_eq_nil_iff.1 h with h | h
  · omega
  · exact h

/-- One `uncovered_finite` step of the soundness proof, given soundness of the recursive calls. -/
theorem finite_sound (Δ : TSig) (hwf : WfSig Δ) (m : Matrix) (space : Head) (τ : Ty)
    (τs : List Ty) (n : Nat) (hn : n = (τ :: τs).length) (hsp : SpaceTy space τ)
    (hm : ∀ row ∈ m, All₂ (PatTy Δ) row (τ :: τs))
    (ih : ∀ c : Con, ∀ τs' : List Ty, n - 1 + c.arity = τs'.length →
      (∀ row ∈ specializeM c m, All₂ (PatTy Δ) row τs') →
      uncovered Δ.erase (specializeM c m) (n - 1 + c.arity) = [] →
      ∀ vs, All₂ (HasTy Δ) vs τs' → ∃ row ∈ specializeM c m, rowMatches row vs = true)
    (he : uncoveredFinite Δ.erase m n space = []) :
    ∀ v vs, HasTy Δ v τ → All₂ (HasTy Δ) vs τs → ∃ row ∈ m, rowMatches row (v :: vs) = true := by
  intro v vs hv hvs
  obtain ⟨c, args, as, hcon, hcmem, hcty, hargs⟩ := space_complete hsp hv
  have he' := take_succ_eq_nil he
  rw [List.flatMap_eq_nil_iff] at he'
  have hc := he' c hcmem
  rw [List.map_eq_nil_iff] at hc
  have hlen : n - 1 + c.arity = (as ++ τs).length := by
    simp [hn, hcty.length_eq]; omega
  have := ih c (as ++ τs) hlen (specializeM_typed hwf hcty m hm) hc (args ++ vs) (hargs.append hvs)
  rw [← covers_eq_true] at this ⊢
  rw [covers_specializeM hcon]
  exact this

theorem uncovered_sound_aux (Δ : TSig) (hwf : WfSig Δ) (m : Matrix) (columns : Nat) :
    ∀ τs : List Ty, columns = τs.length → (∀ row ∈ m, All₂ (PatTy Δ) row τs) →
      uncovered Δ.erase m columns = [] →
      ∀ vs, All₂ (HasTy Δ) vs τs → ∃ row ∈ m, rowMatches row vs = true := by
  fun_induction uncovered Δ.erase m columns with
  | case1 m hm => intro τs _ _ h; simp at h
  | case2 m hm =>
    intro τs hlen hrows _ vs hvs
    cases τs with
    | cons _ _ => simp at hlen
    | nil =>
      cases hvs
      cases m with
      | nil => simp at hm
      | cons row rest =>
        have := hrows row (by simp)
        cases this
        exact ⟨[], by simp, rfl⟩
  | case3 m columns hc hm => intro τs _ _ h; simp at h
  | case4 m columns hc hm space hfh ih =>
    intro τs hlen hrows he vs hvs
    cases hvs with
    | nil => simp at hlen; exact absurd hlen hc
    | @cons v τ vs τs hv hvs =>
      exact finite_sound Δ hwf m space τ τs columns hlen (firstHead_spaceTy hrows hfh) hrows ih he
        v vs hv hvs
  | case5 m columns hc hm hfh ih =>
    intro τs hlen hrows he vs hvs
    cases hvs with
    | nil => simp at hlen; exact absurd hlen hc
    | @cons v τ vs τs hv hvs =>
      have he' := take_succ_eq_nil he
      rw [List.map_eq_nil_iff] at he'
      have := ih τs (by simp at hlen; omega) (defaultM_typed hrows) he' vs hvs
      rw [← covers_eq_true] at this ⊢
      rw [covers_defaultM v vs m hfh]
      exact this

/-! ### The outermost call and `validate_pattern_matrix` -/

theorem validateMatch_eq_none {Δ : Sig} {arms : List MPat} {e : Option Head} :
    validateMatch Δ arms e = none ↔ uncoveredTop Δ (arms.map fun p => [p]) e = [] := by
  unfold validateMatch
  simp [List.take_eq_nil_iff, maxReported]

theorem expectedOk_cases {e : Option Head} {τ : Ty} (h : ExpectedOk e τ) :
    e = none ∨ ∃ space, e = some space ∧ SpaceTy space τ := by
  rcases h with h | ⟨d, h, rfl⟩ | ⟨a, h, rfl⟩
  · exact Or.inl h
  · exact Or.inr ⟨_, h, rfl⟩
  · exact Or.inr ⟨_, h, a, rfl⟩

theorem singleton_rows_typed {Δ : TSig} {arms : List MPat} {τ : Ty}
    (hp : ∀ p ∈ arms, PatTy Δ p τ) :
    ∀ row ∈ arms.map (fun p => [p]), All₂ (PatTy Δ) row [τ] := by
  intro row hrow
  obtain ⟨p, hpm, rfl⟩ := List.mem_map.1 hrow
  exact All₂.cons (hp p hpm) All₂.nil

theorem covers_singletons (arms : List MPat) (v : Val) :
    covers (arms.map fun p => [p]) [v] = arms.any fun p => p.matches v := by
  induction arms with
  | nil => rfl
  | cons p ps ih => simp [rowMatches, ih]

theorem top_sound (Δ : TSig) (hwf : WfSig Δ) (arms : List MPat) (τ : Ty) (e : Option Head)
    (he : ExpectedOk e τ) (hp : ∀ p ∈ arms, PatTy Δ p τ)
    (h : uncoveredTop Δ.erase (arms.map fun p => [p]) e = []) :
    ∀ v, HasTy Δ v τ → ∃ p ∈ arms, p.matches v = true := by
  intro v hv
  have hrows := singleton_rows_typed hp
  have hcov : ∃ row ∈ arms.map (fun p => [p]), rowMatches row [v] = true := by
    rcases expectedOk_cases he with rfl | ⟨space, rfl, hsp⟩
    · exact uncovered_sound_aux Δ hwf _ 1 [τ] rfl hrows h [v] (All₂.cons hv All₂.nil)
    · exact finite_sound Δ hwf _ space τ [] 1 rfl hsp hrows
        (fun c => uncovered_sound_aux Δ hwf _ _) h v [] hv All₂.nil
  rw [← covers_eq_true, covers_singletons] at hcov
  simpa using hcov

/-! ### Witnesses -/

theorem rowDenotes_replicate_wild : ∀ (vs : List Val),
    rowDenotes (List.replicate vs.length CPat.wild) vs = true
  | [] => rfl
  | _ :: vs => by simp [List.replicate_succ, rowDenotes, CPat.denotes, rowDenotes_replicate_wild vs]

theorem rebuild_denotes {v : Val} {c : Con} {args : List Val} (h : v.con = some (c, args))
    {w : List CPat} {vs : List Val} (hw : rowDenotes w (args ++ vs) = true) :
    rowDenotes (c.rebuild w) (v :: vs) = true := by
  cases v <;> simp [Val.con] at h <;> obtain ⟨rfl, rfl⟩ := h
  · simpa [Con.rebuild, Con.arity, rowDenotes, CPat.denotes] using hw
  · cases w with
    | nil => simp [rowDenotes] at hw
    | cons x rest =>
      simpa [Con.rebuild, Con.arity, rowDenotes, CPat.denotes] using hw
  · cases w with
    | nil => simp [rowDenotes] at hw
    | cons x rest =>
      cases rest with
      | nil => simp [rowDenotes] at hw
      | cons y rest =>
        simpa [Con.rebuild, Con.arity, rowDenotes, CPat.denotes, Bool.and_assoc] using hw
  · cases w with
    | nil => simp [rowDenotes] at hw
    | cons x rest =>
      simpa [Con.rebuild, Con.arity, rowDenotes, CPat.denotes] using hw
  · cases w with
    | nil => simp [rowDenotes] at hw
    | cons x rest =>
      simpa [Con.rebuild, Con.arity, rowDenotes, CPat.denotes] using hw

theorem inhabitants {Δ : TSig} (hinh : AllInhabited Δ) : ∀ (τs : List Ty),
    (∀ τ ∈ τs, τ.WfIn Δ.length) → ∃ vs, All₂ (HasTy Δ) vs τs
  | [], _ => ⟨[], All₂.nil⟩
  | τ :: τs, h => by
    obtain ⟨v, hv⟩ := hinh τ (h τ (by simp))
    obtain ⟨vs, hvs⟩ := inhabitants hinh τs (fun σ hσ => h σ (by simp [hσ]))
    exact ⟨v :: vs, All₂.cons hv hvs⟩

/-- The argument types of a constructor of a well-scoped type are well-scoped. -/
theorem ConTy.wfIn {Δ : TSig} (hcl : Δ.Closed) {c : Con} {τ : Ty} {as : List Ty}
    (hc : ConTy Δ c τ as) (hτ : τ.WfIn Δ.length) : ∀ a ∈ as, a.WfIn Δ.length := by
  cases hc with
  | data hmem =>
    intro a ha
    simp only [List.mem_singleton] at ha
    subst ha
    exact hcl _ _ _ hmem
  | unit => intro a ha; cases ha
  | prod =>
    intro a ha
    simp only [Ty.WfIn] at hτ
    simp only [List.mem_cons, List.not_mem_nil, or_false] at ha
    rcases ha with rfl | rfl
    · exact hτ.1
    · exact hτ.2
  | named =>
    intro a ha
    simp only [List.mem_singleton] at ha
    subst ha
    exact hτ
  | pack =>
    intro a ha
    simp only [List.mem_singleton] at ha
    subst ha
    exact hτ

/-- One `uncovered_finite` step of the witness proof. -/
theorem finite_witness (Δ : TSig) (hwf : WfSig Δ) (hcl : Δ.Closed) (m : Matrix) (space : Head)
    (τ : Ty) (τs : List Ty) (n : Nat) (hn : n = (τ :: τs).length) (hsp : SpaceTy space τ)
    (hsc : ∀ σ ∈ τ :: τs, σ.WfIn Δ.length)
    (hm : ∀ row ∈ m, All₂ (PatTy Δ) row (τ :: τs))
    (ih : ∀ c : Con, ∀ τs' : List Ty, n - 1 + c.arity = τs'.length →
      (∀ σ ∈ τs', σ.WfIn Δ.length) →
      (∀ row ∈ specializeM c m, All₂ (PatTy Δ) row τs') →
      ∀ w ∈ uncovered Δ.erase (specializeM c m) (n - 1 + c.arity),
        ∃ vs, All₂ (HasTy Δ) vs τs' ∧ rowDenotes w vs = true ∧ covers (specializeM c m) vs = false) :
    ∀ w ∈ uncoveredFinite Δ.erase m n space,
      ∃ vs, All₂ (HasTy Δ) vs (τ :: τs) ∧ rowDenotes w vs = true ∧ covers m vs = false := by
  intro w hw
  have hw' := List.mem_of_mem_take hw
  rw [List.mem_flatMap] at hw'
  obtain ⟨c, hcmem, hw''⟩ := hw'
  obtain ⟨w', hw'mem, rfl⟩ := List.mem_map.1 hw''
  obtain ⟨as, hcty⟩ := space_sound hsp hcmem
  have hlen : n - 1 + c.arity = (as ++ τs).length := by
    simp [hn, hcty.length_eq]; omega
  have hsc' : ∀ σ ∈ as ++ τs, σ.WfIn Δ.length := by
    intro σ hσ
    rcases List.mem_append.1 hσ with h | h
    · exact hcty.wfIn hcl (hsc τ (by simp)) σ h
    · exact hsc σ (by simp [h])
  obtain ⟨vs'', hty, hden, hcov⟩ :=
    ih c (as ++ τs) hlen hsc' (specializeM_typed hwf hcty m hm) w' hw'mem
  obtain ⟨args, vs, rfl, hargs, hvs⟩ := All₂.split hty
  obtain ⟨v, hv, hcon⟩ := con_build hcty hargs
  refine ⟨v :: vs, All₂.cons hv hvs, rebuild_denotes hcon hden, ?_⟩
  rw [covers_specializeM hcon]
  exact hcov

theorem uncovered_witness_aux (Δ : TSig) (hwf : WfSig Δ) (hcl : Δ.Closed) (hinh : AllInhabited Δ)
    (m : Matrix) (columns : Nat) :
    ∀ τs : List Ty, columns = τs.length → (∀ σ ∈ τs, σ.WfIn Δ.length) →
      (∀ row ∈ m, All₂ (PatTy Δ) row τs) →
      ∀ w ∈ uncovered Δ.erase m columns,
        ∃ vs, All₂ (HasTy Δ) vs τs ∧ rowDenotes w vs = true ∧ covers m vs = false := by
  fun_induction uncovered Δ.erase m columns with
  | case1 m hm =>
    intro τs hlen _ _ w hw
    cases τs with
    | cons _ _ => simp at hlen
    | nil =>
      simp at hw
      subst hw
      cases m with
      | nil => exact ⟨[], All₂.nil, rfl, rfl⟩
      | cons _ _ => simp at hm
  | case2 m hm => intro τs _ _ _ w hw; simp at hw
  | case3 m columns hc hm =>
    intro τs hlen hsc _ w hw
    simp at hw
    subst hw
    obtain ⟨vs, hvs⟩ := inhabitants hinh τs hsc
    refine ⟨vs, hvs, ?_, ?_⟩
    · rw [hlen, ← hvs.length_eq]
      exact rowDenotes_replicate_wild vs
    · cases m with
      | nil => rfl
      | cons _ _ => simp at hm
  | case4 m columns hc hm space hfh ih =>
    intro τs hlen hsc hrows w hw
    cases τs with
    | nil => simp at hlen; exact absurd hlen hc
    | cons τ τs =>
      exact finite_witness Δ hwf hcl m space τ τs columns hlen (firstHead_spaceTy hrows hfh) hsc
        hrows ih w hw
  | case5 m columns hc hm hfh ih =>
    intro τs hlen hsc hrows w hw
    cases τs with
    | nil => simp at hlen; exact absurd hlen hc
    | cons τ τs =>
      have hw' := List.mem_of_mem_take hw
      obtain ⟨w', hw'mem, rfl⟩ := List.mem_map.1 hw'
      obtain ⟨vs, hvs, hden, hcov⟩ := ih τs (by simp at hlen; omega)
        (fun σ hσ => hsc σ (by simp [hσ])) (defaultM_typed hrows) w' hw'mem
      obtain ⟨v, hv⟩ := hinh τ (hsc τ (by simp))
      refine ⟨v :: vs, All₂.cons hv hvs, ?_, ?_⟩
      · simpa [rowDenotes, CPat.denotes] using hden
      · rw [covers_defaultM v vs m hfh]
        exact hcov

theorem top_witness (Δ : TSig) (hwf : WfSig Δ) (hcl : Δ.Closed) (hinh : AllInhabited Δ)
    (arms : List MPat) (τ : Ty) (hτ : τ.WfIn Δ.length)
    (e : Option Head) (he : ExpectedOk e τ) (hp : ∀ p ∈ arms, PatTy Δ p τ) :
    ∀ row ∈ uncoveredTop Δ.erase (arms.map fun p => [p]) e,
      ∃ v, HasTy Δ v τ ∧ (row.headD .wild).denotes v = true ∧ ∀ p ∈ arms, p.matches v = false := by
  intro row hrow
  have hrows := singleton_rows_typed hp
  have hw : ∃ vs, All₂ (HasTy Δ) vs [τ] ∧ rowDenotes row vs = true ∧
      covers (arms.map fun p => [p]) vs = false := by
    have hsc : ∀ σ ∈ [τ], σ.WfIn Δ.length := by
      intro σ hσ
      simp only [List.mem_singleton] at hσ
      exact hσ ▸ hτ
    rcases expectedOk_cases he with rfl | ⟨space, rfl, hsp⟩
    · exact uncovered_witness_aux Δ hwf hcl hinh _ 1 [τ] rfl hsc hrows row hrow
    · exact finite_witness Δ hwf hcl _ space τ [] 1 rfl hsp hsc hrows
        (fun c => uncovered_witness_aux Δ hwf hcl hinh _ _) row hrow
  obtain ⟨vs, hvs, hden, hcov⟩ := hw
  cases hvs with
  | cons hv hnil =>
    cases hnil
    rw [covers_singletons] at hcov
    refine ⟨_, hv, ?_, by simpa using hcov⟩
    cases row with
    | nil => simp [rowDenotes] at hden
    | cons x rest =>
      simp only [rowDenotes, Bool.and_eq_true] at hden
      exact hden.1

theorem validateMatch_missing {Δ : Sig} {arms : List MPat} {e : Option Head} {r : MatchReport}
    (h : validateMatch Δ arms e = some r) :
    r.missing ≠ [] ∧
    ∀ w ∈ r.missing, ∃ row ∈ uncoveredTop Δ (arms.map fun p => [p]) e, w = row.headD .wild := by
  unfold validateMatch at h
  simp only at h
  split at h
  · cases h
  · next hne =>
    cases h
    refine ⟨by simpa using hne, ?_⟩
    intro w hw
    obtain ⟨row, hrow, rfl⟩ := List.mem_map.1 hw
    exact ⟨row, List.mem_of_mem_take hrow, rfl⟩

/-! ### Row lengths -/

theorem rebuild_length (c : Con) (row : List CPat) :
    (c.rebuild row).length = row.length - c.arity + 1 := by
  simp [Con.rebuild]

/-- Every row reported for a matrix of `columns` columns has `columns` entries (so the `expect`s
of `Constructor::rebuild` cannot fire). -/
theorem uncovered_length (Δ : Sig) (m : Matrix) (columns : Nat) :
    ∀ row ∈ uncovered Δ m columns, row.length = columns := by
  fun_induction uncovered Δ m columns with
  | case1 m hm => intro row h; simp at h; simp [h]
  | case2 m hm => intro row h; simp at h
  | case3 m columns hc hm => intro row h; simp at h; simp [h]
  | case4 m columns hc hm space hfh ih =>
    intro row h
    have h' := List.mem_of_mem_take h
    rw [List.mem_flatMap] at h'
    obtain ⟨c, _, h''⟩ := h'
    obtain ⟨w, hw, rfl⟩ := List.mem_map.1 h''
    rw [rebuild_length, ih c w hw]
    omega
  | case5 m columns hc hm hfh ih =>
    intro row h
    have h' := List.mem_of_mem_take h
    obtain ⟨w, hw, rfl⟩ := List.mem_map.1 h'
    simp [ih w hw]
    omega

/-! ### `validate_comatch` -/

theorem dups_nil_iff : ∀ (seen arms : List String),
    validateComatch.dups seen [] arms = [] ↔ (∀ a ∈ arms, a ∉ seen) ∧ arms.Nodup
  | seen, [] => by simp [validateComatch.dups]
  | seen, a :: rest => by
    by_cases ha : a ∈ seen
    · simp [validateComatch.dups, ha]
    · have ih := dups_nil_iff (a :: seen) rest
      simp only [validateComatch.dups, List.contains_eq_mem, ha, decide_false, Bool.false_eq_true,
        if_false, ih, List.mem_cons, not_or, List.nodup_cons, forall_eq_or_imp, not_false_eq_true,
        true_and]
      constructor
      · rintro ⟨h1, h2⟩
        exact ⟨fun b hb => (h1 b hb).2, fun hmem => (h1 a hmem).1 rfl, h2⟩
      · rintro ⟨h1, h2, h3⟩
        exact ⟨fun b hb => ⟨fun e => h2 (e ▸ hb), h1 b hb⟩, h3⟩

/-! ### Evaluation lemmas (to run `uncovered` on concrete matrices inside the kernel) -/

theorem uncovered_zero (Δ : Sig) (m : Matrix) :
    uncovered Δ m 0 = if m.isEmpty then [[]] else [] := by
  rw [uncovered]; simp

theorem uncovered_nil_succ (Δ : Sig) (n : Nat) :
    uncovered Δ [] (n + 1) = [List.replicate (n + 1) .wild] := by
  rw [uncovered]; simp

theorem uncovered_cons_succ (Δ : Sig) (row : List MPat) (rest : Matrix) (n : Nat) :
    uncovered Δ (row :: rest) (n + 1) =
      match firstHead (row :: rest) with
      | some space => uncoveredFinite Δ (row :: rest) (n + 1) space
      | none =>
        ((uncovered Δ (defaultM (row :: rest)) n).map fun r => CPat.wild :: r).take
          (maxReported + 1) := by
  rw [uncovered]
  simp only [Nat.add_one_ne_zero, if_false, List.isEmpty_cons, Bool.false_eq_true,
    Nat.add_sub_cancel]
  split <;> next h => simp [h, uncoveredFinite]

end ZV.Coverage
