/-
C20, part one: the vocabulary of the simulation between a computation and its translation at the
identity monad. Values are related up to the translation of the code inside closures; the
administrative redexes the translation inserts are computed once and for all.
-/
import ZV.Props.C20Statements

namespace ZV.ZCore.Mo
open ZV.ZCore ZV.Numeric ZV.Machine

/-- what an evaluation gives: nothing (out of fuel) or a terminal form and the bytes written -/
abbrev Res := Option (RTerm × Host.Bytes)

theorem renv_get_cons (E : REnv) (x : Nat) (v : RVal) (y : Nat) :
    REnv.get? ((x, v) :: E) y = if x = y then some v else REnv.get? E y := by
  simp only [REnv.get?, List.find?_cons]
  by_cases h : x = y
  · simp [h]
  · have : (x == y) = false := by simpa using h
    simp [h, this]

/-! ### One step of the reference evaluation, constructor by constructor -/

/-- how `do` continues after its bindee -/
def bindK (r : Res) (k : RVal → Host.Bytes → Res) : Res :=
  match r with
  | some (.ret v, o) => k v o
  | some (.trap, o) => some (.trap, o)
  | some (.exit c, o) => some (.exit c, o)
  | some (_, o) => some (.wrong, o)
  | none => none

/-- how an application continues after its head -/
def appK (r : Res) (k : Nat → C → REnv → Host.Bytes → Res) : Res :=
  match r with
  | some (.lam x body E, o) => k x body E o
  | some (.trap, o) => some (.trap, o)
  | some (.exit c, o) => some (.exit c, o)
  | some (_, o) => some (.wrong, o)
  | none => none

/-- how a destructor continues after its head -/
def dtorK (r : Res) (k : List (String × C) → REnv → Host.Bytes → Res) : Res :=
  match r with
  | some (.cocase arms E, o) => k arms E o
  | some (.trap, o) => some (.trap, o)
  | some (.exit c, o) => some (.exit c, o)
  | some (_, o) => some (.wrong, o)
  | none => none

theorem evalRC_bind (n : Nat) (E : REnv) (x : Nat) (a : VTy) (m n2 : C) (out : Host.Bytes) :
    evalRC (n + 1) E (.bind x a m n2) out
      = bindK (evalRC n E m out) (fun v o => evalRC n ((x, v) :: E) n2 o) := by
  simp only [evalRC]
  cases evalRC n E m out with
  | none => rfl
  | some p => obtain ⟨t, o⟩ := p; cases t <;> rfl

theorem evalRC_app (n : Nat) (E : REnv) (m : C) (v : V) (a : RVal) (out : Host.Bytes)
    (hv : evalRV E v = some a) :
    evalRC (n + 1) E (.app m v) out
      = appK (evalRC n E m out) (fun x body E1 o => evalRC n ((x, a) :: E1) body o) := by
  simp only [evalRC, hv]
  cases evalRC n E m out with
  | none => rfl
  | some p => obtain ⟨t, o⟩ := p; cases t <;> rfl

theorem evalRC_app_none (n : Nat) (E : REnv) (m : C) (v : V) (out : Host.Bytes)
    (hv : evalRV E v = none) : evalRC (n + 1) E (.app m v) out = some (.wrong, out) := by
  simp only [evalRC, hv]

theorem evalRC_dtor (n : Nat) (E : REnv) (m : C) (k : String) (out : Host.Bytes) :
    evalRC (n + 1) E (.dtor m k) out
      = dtorK (evalRC n E m out) (fun arms E1 o =>
          match arms.find? (·.1 == k) with
          | some (_, body) => evalRC n E1 body o
          | none => some (.wrong, o)) := by
  simp only [evalRC]
  cases evalRC n E m out with
  | none => rfl
  | some p => obtain ⟨t, o⟩ := p; cases t <;> rfl

theorem evalRC_fn (n : Nat) (E : REnv) (x : Nat) (a : VTy) (m : C) (out : Host.Bytes) :
    evalRC (n + 1) E (.fn x a m) out = some (.lam x m E, out) := by
  simp only [evalRC]

theorem evalRC_force (n : Nat) (E E1 : REnv) (v : V) (m : C) (out : Host.Bytes)
    (hv : evalRV E v = some (.thunk m E1)) :
    evalRC (n + 1) E (.force v) out = evalRC n E1 m out := by
  simp only [evalRC, hv]

theorem evalRC_ret (n : Nat) (E : REnv) (v : V) (a : RVal) (out : Host.Bytes)
    (hv : evalRV E v = some a) : evalRC (n + 1) E (.ret v) out = some (.ret a, out) := by
  simp only [evalRC, hv]

/-! ### The administrative redexes -/

/-- the translated `do` -/
def lbind (x : Nat) (a : VTy) (m' n' : C) : C :=
  .app (.app idBind (.thunk m' (.ret a))) (.thunk (.fn x a n') (.ret a))

/-- the body of the identity `bind` -/
def bindBody : C := .bind 2 .unit (.force (.var 0)) (.app (.force (.var 1)) (.var 2))

theorem lbind_head (f : Nat) (E : REnv) (a : VTy) (m' : C) (out : Host.Bytes) :
    evalRC (f + 2) E (.app idBind (.thunk m' (.ret a))) out
      = some (.lam 1 bindBody ((0, .thunk m' E) :: E), out) := by
  rw [evalRC_app (f + 1) E idBind _ (.thunk m' E) out rfl]
  rw [show evalRC (f + 1) E idBind out = some (.lam 0 (.fn 1 .unit bindBody) E, out) from
    evalRC_fn f E 0 .unit _ out]
  simp only [appK]
  exact evalRC_fn f _ 1 .unit bindBody out

theorem lbind_small (E : REnv) (x : Nat) (a : VTy) (m' n' : C) (out : Host.Bytes) :
    ∀ f, f < 4 → evalRC f E (lbind x a m' n') out = none
  | 0, _ => rfl
  | 1, _ => by
    rw [lbind, evalRC_app 0 E _ _ (.thunk (.fn x a n') E) out rfl]; rfl
  | 2, _ => by
    rw [lbind, evalRC_app 1 E _ _ (.thunk (.fn x a n') E) out rfl,
      evalRC_app 0 E _ _ (.thunk m' E) out rfl]; rfl
  | 3, _ => by
    rw [lbind, evalRC_app 2 E _ _ (.thunk (.fn x a n') E) out rfl, lbind_head 0 E a m' out]
    simp only [appK]
    rw [bindBody, evalRC_bind, evalRC_force 0 _ E (.var 0) m' out rfl]
    rfl
  | f + 4, h => by omega

theorem lbind_eq (f : Nat) (E : REnv) (x : Nat) (a : VTy) (m' n' : C) (out : Host.Bytes) :
    evalRC (f + 4) E (lbind x a m' n') out
      = bindK (evalRC (f + 1) E m' out) (fun v o =>
          match f with
          | 0 => none
          | _ + 1 => evalRC (f + 1) ((x, v) :: E) n' o) := by
  rw [lbind, evalRC_app (f + 3) E _ _ (.thunk (.fn x a n') E) out rfl, lbind_head (f + 1) E a m' out]
  simp only [appK]
  rw [bindBody, evalRC_bind, evalRC_force (f + 1) _ E (.var 0) m' out rfl]
  congr 1
  funext v o
  rw [evalRC_app (f + 1) _ _ (.var 2) v o rfl]
  cases f with
  | zero => rfl
  | succ f =>
    rw [evalRC_force (f + 1) _ E (.var 1) (.fn x a n') o rfl, evalRC_fn]
    rfl

theorem lret_none (k : Nat) (E : REnv) (v : V) (out : Host.Bytes) (hv : evalRV E v = none) :
    evalRC (k + 1) E (.app idReturn v) out = some (.wrong, out) :=
  evalRC_app_none k E _ v out hv

theorem lret_one (E : REnv) (v : V) (a : RVal) (out : Host.Bytes) (hv : evalRV E v = some a) :
    evalRC 1 E (.app idReturn v) out = none := by
  rw [evalRC_app 0 E _ v a out hv]; rfl

theorem lret_some (k : Nat) (E : REnv) (v : V) (a : RVal) (out : Host.Bytes)
    (hv : evalRV E v = some a) : evalRC (k + 2) E (.app idReturn v) out = some (.ret a, out) := by
  rw [evalRC_app (k + 1) E _ v a out hv]
  rw [show evalRC (k + 1) E idReturn out = some (.lam 0 (.ret (.var 0)) E, out) from
    evalRC_fn k E 0 .unit _ out]
  simp only [appK]
  exact evalRC_ret k _ (.var 0) a out rfl

end ZV.ZCore.Mo
