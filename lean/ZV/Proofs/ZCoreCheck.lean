/-
C03: the executable ZCore checker decides exactly the declared typing rules.
Core Lean only.
-/
import ZV.Model.ZCore
import ZV.Model.ZCoreSpec
import ZV.Props.C03Statements

namespace ZV.ZCore
open ZV.Numeric

/-! ### Type equality is exact -/

mutual
  theorem VTy.eq_of_beq : ∀ (a b : VTy), VTy.beq a b = true → a = b
    | .unit, b, h => by cases b <;> simp_all [VTy.beq]
    | .int t, b, h => by cases b <;> simp_all [VTy.beq]
    | .str, b, h => by cases b <;> simp_all [VTy.beq]
    | .prod a1 a2, b, h => by
      cases b <;> simp [VTy.beq] at h
      rw [VTy.eq_of_beq a1 _ h.1, VTy.eq_of_beq a2 _ h.2]
    | .data d, b, h => by cases b <;> simp_all [VTy.beq]
    | .thk c, b, h => by
      cases b <;> simp [VTy.beq] at h
      rw [CTy.eq_of_beq c _ h]
  theorem CTy.eq_of_beq : ∀ (a b : CTy), CTy.beq a b = true → a = b
    | .ret a, b, h => by
      cases b <;> simp [CTy.beq] at h
      rw [VTy.eq_of_beq a _ h]
    | .arr a1 a2, b, h => by
      cases b <;> simp [CTy.beq] at h
      rw [VTy.eq_of_beq a1 _ h.1, CTy.eq_of_beq a2 _ h.2]
    | .codata c, b, h => by cases b <;> simp_all [CTy.beq]
    | .os, b, h => by cases b <;> simp_all [CTy.beq]
end

mutual
  theorem VTy.beq_refl : ∀ (a : VTy), VTy.beq a a = true
    | .unit => by simp [VTy.beq]
    | .int t => by simp [VTy.beq]
    | .str => by simp [VTy.beq]
    | .prod a1 a2 => by simp [VTy.beq, VTy.beq_refl a1, VTy.beq_refl a2]
    | .data d => by simp [VTy.beq]
    | .thk c => by simp [VTy.beq, CTy.beq_refl c]
  theorem CTy.beq_refl : ∀ (a : CTy), CTy.beq a a = true
    | .ret a => by simp [CTy.beq, VTy.beq_refl a]
    | .arr a1 a2 => by simp [CTy.beq, VTy.beq_refl a1, CTy.beq_refl a2]
    | .codata c => by simp [CTy.beq]
    | .os => by simp [CTy.beq]
end

theorem VTy.beq_iff (a b : VTy) : (a == b) = true ↔ a = b :=
  ⟨VTy.eq_of_beq a b, fun h => h ▸ VTy.beq_refl a⟩
theorem CTy.beq_iff (a b : CTy) : (a == b) = true ↔ a = b :=
  ⟨CTy.eq_of_beq a b, fun h => h ▸ CTy.beq_refl a⟩

theorem beq_exact_pf : ZV.Props.C03.Statement.beq_exact :=
  ⟨VTy.beq_iff, CTy.beq_iff⟩


/-! ### Soundness -/

theorem bind_ok {ε α β : Type} {x : Except ε α} {f : α → Except ε β} {b : β}
    (h : (x >>= f) = .ok b) : ∃ a, x = .ok a ∧ f a = .ok b := by
  cases x with
  | error e => cases h
  | ok a => exact ⟨a, rfl, h⟩

mutual
  theorem soundV (Δ : Sig) : ∀ (v : V) (Γ : Ctx) (a : VTy), inferV Δ Γ v = .ok a → HasTyV Δ Γ v a
    | .var x, Γ, a, h => by
      simp only [inferV] at h
      split at h
      · cases h; exact .var ‹_›
      · cases h
    | .unit, Γ, a, h => by simp only [inferV] at h; cases h; exact .unit
    | .int t x, Γ, a, h => by simp only [inferV] at h; cases h; exact .int t x
    | .str s, Γ, a, h => by simp only [inferV] at h; cases h; exact .str s
    | .pair p q, Γ, a, h => by
      simp only [inferV] at h
      obtain ⟨ta, h1, h⟩ := bind_ok h
      obtain ⟨tb, h2, h⟩ := bind_ok h
      cases h
      exact .pair (soundV Δ p Γ ta h1) (soundV Δ q Γ tb h2)
    | .ctor d k arg, Γ, a, h => by
      simp only [inferV] at h
      split at h
      · cases h
      · rename_i a0 hk
        obtain ⟨ta, h1, h⟩ := bind_ok h
        split at h
        · rename_i e
          cases h
          have := (VTy.beq_iff _ _).1 e
          subst this
          exact .ctor hk (soundV Δ arg Γ ta h1)
        · cases h
    | .thunk m b, Γ, a, h => by
      simp only [inferV] at h
      obtain ⟨b', h1, h⟩ := bind_ok h
      split at h
      · rename_i e
        cases h
        have := (CTy.beq_iff _ _).1 e
        subst this
        exact .thunk (soundC Δ m Γ b' h1)
      · cases h
  theorem soundC (Δ : Sig) : ∀ (m : C) (Γ : Ctx) (b : CTy), inferC Δ Γ m = .ok b → HasTyC Δ Γ m b
    | .ret v, Γ, b, h => by
      simp only [inferC] at h
      obtain ⟨a, h1, h⟩ := bind_ok h
      cases h
      exact .ret (soundV Δ v Γ a h1)
    | .bind x a m n, Γ, b, h => by
      simp only [inferC] at h
      obtain ⟨tm, h1, h2⟩ := bind_ok h
      split at h2
      · rename_i e
        have := (CTy.beq_iff _ _).1 e
        subst this
        exact .bind (soundC Δ m Γ _ h1) (soundC Δ n _ b h2)
      · cases h2
    | .clet x v m, Γ, b, h => by
      simp only [inferC] at h
      obtain ⟨a, h1, h2⟩ := bind_ok h
      exact .clet (soundV Δ v Γ a h1) (soundC Δ m _ b h2)
    | .letPair x y v m, Γ, b, h => by
      simp only [inferC] at h
      obtain ⟨a, h1, h2⟩ := bind_ok h
      split at h2
      · exact .letPair (soundV Δ v Γ _ h1) (soundC Δ m _ b h2)
      · cases h2
    | .fn x a m, Γ, b, h => by
      simp only [inferC] at h
      obtain ⟨b0, h1, h2⟩ := bind_ok h
      cases h2
      exact .fn (soundC Δ m _ b0 h1)
    | .app m v, Γ, b, h => by
      simp only [inferC] at h
      obtain ⟨tm, h1, h2⟩ := bind_ok h
      obtain ⟨tv, h3, h4⟩ := bind_ok h2
      split at h4
      · split at h4
        · rename_i e
          cases h4
          have := (VTy.beq_iff _ _).1 e
          subst this
          exact .app (soundC Δ m Γ _ h1) (soundV Δ v Γ _ h3)
        · cases h4
      · cases h4
    | .force v, Γ, b, h => by
      simp only [inferC] at h
      obtain ⟨a, h1, h2⟩ := bind_ok h
      split at h2
      · cases h2
        exact .force (soundV Δ v Γ _ h1)
      · cases h2
    | .fix f b0 m, Γ, b, h => by
      simp only [inferC] at h
      obtain ⟨tb, h1, h2⟩ := bind_ok h
      split at h2
      · rename_i e
        cases h2
        have := (CTy.beq_iff _ _).1 e
        subst this
        exact .fix (soundC Δ m _ _ h1)
      · cases h2
    | .case v d arms b0, Γ, b, h => by
      simp only [inferC] at h
      obtain ⟨a, h1, h2⟩ := bind_ok h
      split at h2
      · rename_i d'
        split at h2
        · cases h2
        · rename_i hd
          have hd' : d' = d := by simpa using hd
          subst hd'
          split at h2
          · cases h2
          · rename_i ctors hc
            split at h2
            · cases h2
            · rename_i hall
              split at h2
              · cases h2
              · obtain ⟨u, h3, h4⟩ := bind_ok h2
                cases h4
                refine .case (soundV Δ v Γ _ h1) hc ?_ (soundArms Δ arms Γ d' _ h3)
                intro k a hmem
                simp only [Bool.not_eq_true, Bool.not_eq_false', List.all_eq_true] at hall
                simpa using hall (k, a) hmem
      · cases h2
    | .comatch c arms, Γ, b, h => by
      simp only [inferC] at h
      split at h
      · cases h
      · rename_i dtors hc
        split at h
        · cases h
        · rename_i hall
          split at h
          · cases h
          · obtain ⟨u, h3, h4⟩ := bind_ok h
            cases h4
            refine .comatch hc ?_ (soundCoArms Δ arms Γ c h3)
            intro k a hmem
            simp only [Bool.not_eq_true, Bool.not_eq_false', List.all_eq_true] at hall
            simpa using hall (k, a) hmem
    | .dtor m k, Γ, b, h => by
      simp only [inferC] at h
      obtain ⟨tm, h1, h2⟩ := bind_ok h
      split at h2
      · split at h2
        · rename_i hk
          cases h2
          exact .dtor (soundC Δ m Γ _ h1) hk
        · cases h2
      · cases h2
    | .arith t op p q, Γ, b, h => by
      simp only [inferC] at h
      obtain ⟨ta, h1, h2⟩ := bind_ok h
      obtain ⟨tb, h3, h4⟩ := bind_ok h2
      split at h4
      · rename_i e
        cases h4
        simp only [Bool.and_eq_true, VTy.beq_iff] at e
        obtain ⟨e1, e2⟩ := e
        subst e1 e2
        exact .arith t op (soundV Δ p Γ _ h1) (soundV Δ q Γ _ h3)
      · cases h4
    | .cmp t op p q res yes no, Γ, b, h => by
      simp only [inferC] at h
      obtain ⟨ta, h1, h2⟩ := bind_ok h
      obtain ⟨tb, h3, h4⟩ := bind_ok h2
      obtain ⟨ty, h5, h6⟩ := bind_ok h4
      obtain ⟨tn, h7, h8⟩ := bind_ok h6
      split at h8
      · rename_i e
        cases h8
        simp only [Bool.and_eq_true, VTy.beq_iff, CTy.beq_iff] at e
        obtain ⟨⟨⟨e1, e2⟩, e3⟩, e4⟩ := e
        subst e1 e2 e3 e4
        exact .cmp t op (soundV Δ p Γ _ h1) (soundV Δ q Γ _ h3) (soundC Δ yes Γ _ h5)
          (soundC Δ no Γ _ h7)
      · cases h8
    | .toStr t p, Γ, b, h => by
      simp only [inferC] at h
      obtain ⟨ta, h1, h2⟩ := bind_ok h
      split at h2
      · rename_i e
        cases h2
        have := (VTy.beq_iff _ _).1 e
        subst this
        exact .toStr t (soundV Δ p Γ _ h1)
      · cases h2
    | .strAppend p q, Γ, b, h => by
      simp only [inferC] at h
      obtain ⟨ta, h1, h2⟩ := bind_ok h
      obtain ⟨tb, h3, h4⟩ := bind_ok h2
      split at h4
      · rename_i e
        cases h4
        simp only [Bool.and_eq_true, VTy.beq_iff] at e
        obtain ⟨e1, e2⟩ := e
        subst e1 e2
        exact .strAppend (soundV Δ p Γ _ h1) (soundV Δ q Γ _ h3)
      · cases h4
    | .writeLine p k, Γ, b, h => by
      simp only [inferC] at h
      obtain ⟨ta, h1, h2⟩ := bind_ok h
      obtain ⟨tk, h3, h4⟩ := bind_ok h2
      split at h4
      · rename_i e
        cases h4
        simp only [Bool.and_eq_true, VTy.beq_iff, CTy.beq_iff] at e
        obtain ⟨e1, e2⟩ := e
        subst e1 e2
        exact .writeLine (soundV Δ p Γ _ h1) (soundC Δ k Γ _ h3)
      · cases h4
    | .exit p, Γ, b, h => by
      simp only [inferC] at h
      obtain ⟨ta, h1, h2⟩ := bind_ok h
      split at h2
      · rename_i e
        cases h2
        have := (VTy.beq_iff _ _).1 e
        subst this
        exact .exit (soundV Δ p Γ _ h1)
      · cases h2
  theorem soundArms (Δ : Sig) : ∀ (arms : List (String × Nat × C)) (Γ : Ctx) (d : Nat) (b : CTy),
      checkArms Δ Γ d arms b = .ok () → ArmsTy Δ Γ d arms b
    | [], Γ, d, b, h => .nil
    | (k, x, m) :: rest, Γ, d, b, h => by
      simp only [checkArms] at h
      split at h
      · cases h
      · rename_i a hk
        obtain ⟨b', h1, h2⟩ := bind_ok h
        split at h2
        · rename_i e
          have := (CTy.beq_iff _ _).1 e
          subst this
          exact .cons hk (soundC Δ m _ _ h1) (soundArms Δ rest Γ d b' h2)
        · cases h2
  theorem soundCoArms (Δ : Sig) : ∀ (arms : List (String × C)) (Γ : Ctx) (c : Nat),
      checkCoArms Δ Γ c arms = .ok () → CoArmsTy Δ Γ c arms
    | [], Γ, c, h => .nil
    | (k, m) :: rest, Γ, c, h => by
      simp only [checkCoArms] at h
      split at h
      · cases h
      · rename_i b hk
        obtain ⟨b', h1, h2⟩ := bind_ok h
        split at h2
        · rename_i e
          have := (CTy.beq_iff _ _).1 e
          subst this
          exact .cons hk (soundC Δ m _ _ h1) (soundCoArms Δ rest Γ c h2)
        · cases h2
end

theorem check_sound_pf : ZV.Props.C03.Statement.check_sound :=
  fun Δ Γ _ => ⟨fun v a h => soundV Δ v Γ a h, fun m b h => soundC Δ m Γ b h⟩

/-! ### Completeness -/

@[simp] theorem VTy.beq_self (a : VTy) : (a == a) = true := VTy.beq_refl a
@[simp] theorem CTy.beq_self (a : CTy) : (a == a) = true := CTy.beq_refl a

theorem ctor?_any {Δ : Sig} {d : Nat} {k : String} {a : VTy} {ctors : List (String × VTy)}
    (h : Δ.ctor? d k = some a) (hc : Δ.datas[d]? = some ctors) :
    ctors.any (·.1 == k) = true := by
  simp only [Sig.ctor?, hc, Option.bind_some, Option.map_eq_some_iff] at h
  obtain ⟨p, hp, _⟩ := h
  exact List.any_eq_true.2 ⟨p, List.mem_of_find?_eq_some hp, List.find?_some (p := fun x => Prod.fst x == k) hp⟩

theorem dtor?_any {Δ : Sig} {c : Nat} {k : String} {b : CTy} {dtors : List (String × CTy)}
    (h : Δ.dtor? c k = some b) (hc : Δ.codatas[c]? = some dtors) :
    dtors.any (·.1 == k) = true := by
  simp only [Sig.dtor?, hc, Option.bind_some, Option.map_eq_some_iff] at h
  obtain ⟨p, hp, _⟩ := h
  exact List.any_eq_true.2 ⟨p, List.mem_of_find?_eq_some hp, List.find?_some (p := fun x => Prod.fst x == k) hp⟩

theorem ArmsTy.known {Δ : Sig} {ctors : List (String × VTy)} :
    ∀ {arms : List (String × Nat × C)} {Γ : Ctx} {d : Nat} {b : CTy},
      ArmsTy Δ Γ d arms b → Δ.datas[d]? = some ctors →
      (arms.all fun (k, _, _) => ctors.any (·.1 == k)) = true
  | [], _, _, _, _, _ => rfl
  | (k, x, m) :: rest, _, _, _, h, hc => by
    cases h with
    | cons hk _ hr =>
      simp only [List.all_cons, Bool.and_eq_true]
      exact ⟨ctor?_any hk hc, ArmsTy.known hr hc⟩

theorem CoArmsTy.known {Δ : Sig} {dtors : List (String × CTy)} :
    ∀ {arms : List (String × C)} {Γ : Ctx} {c : Nat},
      CoArmsTy Δ Γ c arms → Δ.codatas[c]? = some dtors →
      (arms.all fun (k, _) => dtors.any (·.1 == k)) = true
  | [], _, _, _, _ => rfl
  | (k, m) :: rest, _, _, h, hc => by
    cases h with
    | cons hk _ hr =>
      simp only [List.all_cons, Bool.and_eq_true]
      exact ⟨dtor?_any hk hc, CoArmsTy.known hr hc⟩

mutual
  theorem completeV (Δ : Sig) : ∀ {Γ : Ctx} {v : V} {a : VTy}, HasTyV Δ Γ v a → inferV Δ Γ v = .ok a
    | _, _, _, .var h => by simp [inferV, h]
    | _, _, _, .unit => by simp [inferV]
    | _, _, _, .int t x => by simp [inferV]
    | _, _, _, .str s => by simp [inferV]
    | _, _, _, .pair h1 h2 => by
      simp [inferV, completeV Δ h1, completeV Δ h2, bind, Except.bind]
    | _, _, _, .ctor hk h1 => by
      simp [inferV, hk, completeV Δ h1, bind, Except.bind]
    | _, _, _, .thunk h1 => by
      simp [inferV, completeC Δ h1, bind, Except.bind]
  theorem completeC (Δ : Sig) : ∀ {Γ : Ctx} {m : C} {b : CTy}, HasTyC Δ Γ m b → inferC Δ Γ m = .ok b
    | _, _, _, .ret h1 => by simp [inferC, completeV Δ h1, bind, Except.bind]
    | _, _, _, .bind h1 h2 => by simp [inferC, completeC Δ h1, completeC Δ h2, bind, Except.bind]
    | _, _, _, .clet h1 h2 => by simp [inferC, completeV Δ h1, completeC Δ h2, bind, Except.bind]
    | _, _, _, .letPair h1 h2 => by simp [inferC, completeV Δ h1, completeC Δ h2, bind, Except.bind]
    | _, _, _, .fn h1 => by simp [inferC, completeC Δ h1, bind, Except.bind]
    | _, _, _, .app h1 h2 => by simp [inferC, completeC Δ h1, completeV Δ h2, bind, Except.bind]
    | _, _, _, .force h1 => by simp [inferC, completeV Δ h1, bind, Except.bind]
    | _, _, _, .fix h1 => by simp [inferC, completeC Δ h1, bind, Except.bind]
    | _, _, _, .case (ctors := ctors) (arms := arms) h1 hc hcov harms => by
      have hall : (ctors.all fun (k, _) => (arms.filter (·.1 == k)).length == 1) = true := by
        rw [List.all_eq_true]
        rintro ⟨k, a⟩ hmem
        simpa using hcov k a hmem
      have hknown := ArmsTy.known harms hc
      simp [inferC, completeV Δ h1, hc, hall, hknown, completeArms Δ harms, bind, Except.bind]
    | _, _, _, .comatch (dtors := dtors) (arms := arms) hc hcov harms => by
      have hall : (dtors.all fun (k, _) => (arms.filter (·.1 == k)).length == 1) = true := by
        rw [List.all_eq_true]
        rintro ⟨k, a⟩ hmem
        simpa using hcov k a hmem
      have hknown := CoArmsTy.known harms hc
      simp [inferC, hc, hall, hknown, completeCoArms Δ harms, bind, Except.bind]
    | _, _, _, .dtor h1 hk => by simp [inferC, completeC Δ h1, hk, bind, Except.bind]
    | _, _, _, .arith t op h1 h2 => by
      simp [inferC, completeV Δ h1, completeV Δ h2, bind, Except.bind]
    | _, _, _, .cmp t op h1 h2 h3 h4 => by
      simp [inferC, completeV Δ h1, completeV Δ h2, completeC Δ h3, completeC Δ h4, bind, Except.bind]
    | _, _, _, .toStr t h1 => by simp [inferC, completeV Δ h1, bind, Except.bind]
    | _, _, _, .strAppend h1 h2 => by
      simp [inferC, completeV Δ h1, completeV Δ h2, bind, Except.bind]
    | _, _, _, .writeLine h1 h2 => by
      simp [inferC, completeV Δ h1, completeC Δ h2, bind, Except.bind]
    | _, _, _, .exit h1 => by simp [inferC, completeV Δ h1, bind, Except.bind]
  theorem completeArms (Δ : Sig) : ∀ {Γ : Ctx} {d : Nat} {arms : List (String × Nat × C)} {b : CTy},
      ArmsTy Δ Γ d arms b → checkArms Δ Γ d arms b = .ok ()
    | _, _, _, _, .nil => by simp [checkArms]
    | _, _, _, _, .cons hk h1 hr => by
      simp [checkArms, hk, completeC Δ h1, completeArms Δ hr, bind, Except.bind]
  theorem completeCoArms (Δ : Sig) : ∀ {Γ : Ctx} {c : Nat} {arms : List (String × C)},
      CoArmsTy Δ Γ c arms → checkCoArms Δ Γ c arms = .ok ()
    | _, _, _, .nil => by simp [checkCoArms]
    | _, _, _, .cons hk h1 hr => by
      simp [checkCoArms, hk, completeC Δ h1, completeCoArms Δ hr, bind, Except.bind]
end

theorem check_complete_pf : ZV.Props.C03.Statement.check_complete :=
  fun Δ _ _ => ⟨fun _ _ h => completeV Δ h, fun _ _ h => completeC Δ h⟩

/-! ### Consequences -/

theorem type_unique_pf : ZV.Props.C03.Statement.type_unique := by
  intro Δ Γ _
  refine ⟨fun v a a' h h' => ?_, fun m b b' h h' => ?_⟩
  · have e := (completeV Δ h).symm.trans (completeV Δ h')
    exact Except.ok.inj e
  · have e := (completeC Δ h).symm.trans (completeC Δ h')
    exact Except.ok.inj e

theorem rejected_has_no_type_pf : ZV.Props.C03.Statement.rejected_has_no_type := by
  intro Δ Γ m e _ herr ⟨b, hb⟩
  rw [completeC Δ hb] at herr
  cases herr

theorem program_accepted_iff_pf : ZV.Props.C03.Statement.program_accepted_iff := by
  intro Δ body _
  constructor
  · intro h
    apply soundC
    unfold checkProgram at h
    split at h
    · assumption
    · cases h
    · cases h
  · intro h
    simp [checkProgram, completeC Δ h]

end ZV.ZCore
