/-
C20: a computation and its translation at the identity monad cannot be told apart by what they
return, exit with, trap on, or write; the translation never goes wrong where the plain term does
not; the identity instance satisfies the left unit law.
-/
import ZV.Proofs.MonadicSim

namespace ZV.ZCore.Mo
open ZV.ZCore ZV.Numeric ZV.Machine

/-- more fuel never changes a finished reference evaluation -/
theorem evalRC_mono : ∀ (f f' : Nat) (ρ : REnv) (m : C) (out : Host.Bytes) (r : RTerm × Host.Bytes),
    evalRC f ρ m out = some r → f ≤ f' → evalRC f' ρ m out = some r := by
  intro f
  induction f with
  | zero => intro f' ρ m out r h; simp [evalRC] at h
  | succ f ih =>
    intro f' ρ m out r h hle
    obtain ⟨f', rfl⟩ : ∃ k, f' = k + 1 := ⟨f' - 1, by omega⟩
    have hle' : f ≤ f' := by omega
    cases m with
    | ret v => simp only [evalRC] at h ⊢; exact h
    | bind x a m n =>
      simp only [evalRC] at h ⊢
      cases hm : evalRC f ρ m out with
      | none => rw [hm] at h; simp at h
      | some r1 =>
        rw [hm] at h
        rw [ih f' ρ m out r1 hm hle']
        obtain ⟨t1, out1⟩ := r1
        cases t1 <;> simp only at h ⊢ <;> first | exact h | exact ih f' _ _ _ r h hle'
    | clet x v m =>
      simp only [evalRC] at h ⊢
      split at h
      · exact ih f' _ _ _ r h hle'
      · exact h
    | letPair x y v m =>
      simp only [evalRC] at h ⊢
      split at h
      · exact ih f' _ _ _ r h hle'
      · exact h
    | fn x a m => simp only [evalRC] at h ⊢; exact h
    | app m v =>
      simp only [evalRC] at h ⊢
      split at h
      · exact h
      · cases hm : evalRC f ρ m out with
        | none => rw [hm] at h; simp at h
        | some r1 =>
          rw [hm] at h
          rw [ih f' ρ m out r1 hm hle']
          obtain ⟨t1, out1⟩ := r1
          cases t1 <;> simp only at h ⊢ <;> first | exact h | exact ih f' _ _ _ r h hle'
    | force v =>
      simp only [evalRC] at h ⊢
      split at h
      · exact ih f' _ _ _ r h hle'
      · exact h
    | fix g b m =>
      simp only [evalRC] at h ⊢
      exact ih f' _ _ _ r h hle'
    | case v d arms b =>
      simp only [evalRC] at h ⊢
      split at h
      · split at h
        · exact ih f' _ _ _ r h hle'
        · exact h
      · exact h
    | comatch c arms => simp only [evalRC] at h ⊢; exact h
    | dtor m k =>
      simp only [evalRC] at h ⊢
      cases hm : evalRC f ρ m out with
      | none => rw [hm] at h; simp at h
      | some r1 =>
        rw [hm] at h
        rw [ih f' ρ m out r1 hm hle']
        obtain ⟨t1, out1⟩ := r1
        cases t1 <;> simp only at h ⊢ <;> first | exact h | skip
        split at h
        · exact ih f' _ _ _ r h hle'
        · exact h
    | arith t op a b => simp only [evalRC] at h ⊢; exact h
    | cmp t op a b res yes no =>
      cases op <;> simp only [evalRC] at h ⊢ <;> (
        split at h
        · next t1 x t2 y ha hb =>
          by_cases h1 : t1 = t
          · by_cases h2 : t2 = t
            · rw [dif_pos h1, dif_pos h2] at h ⊢
              split at h
              · next hc => rw [if_pos hc]; exact ih f' _ _ _ r h hle'
              · next hc => rw [if_neg hc]; exact ih f' _ _ _ r h hle'
            · rw [dif_pos h1, dif_neg h2] at h ⊢; exact h
          · rw [dif_neg h1] at h ⊢; exact h
        · exact h)
    | toStr t a => simp only [evalRC] at h ⊢; exact h
    | strAppend a b => simp only [evalRC] at h ⊢; exact h
    | writeLine s k =>
      simp only [evalRC] at h ⊢
      split at h
      · exact ih f' _ _ _ r h hle'
      · exact h
    | exit code => simp only [evalRC] at h ⊢; exact h

/-- the forward simulation on closed terms, from the empty output -/
theorem fwd_closed (m : C) (fuel : Nat) (t : RTerm) (out : Host.Bytes)
    (h : evalRC fuel [] m [] = some (t, out)) :
    ∃ t', evalRC (3 * fuel + 2) [] (liftIdC m) [] = some (t', out) ∧ TRel t t' :=
  fwd fuel (3 * fuel + 2) (Nat.le_refl _) [] [] m [] EnvRel.nil t out h

/-- the backward simulation on closed terms, from the empty output -/
theorem bwd_closed (m : C) (fuel : Nat) (t' : RTerm) (out : Host.Bytes)
    (h : evalRC fuel [] (liftIdC m) [] = some (t', out)) :
    ∃ t, evalRC fuel [] m [] = some (t, out) ∧ TRel t t' :=
  bwd fuel fuel (Nat.le_refl _) [] [] m [] EnvRel.nil t' out h

end ZV.ZCore.Mo

namespace ZV.ZCore
open ZV.ZCore.Mo

/-- **Plain to monadic.** -/
theorem identity_forward_pf : ZV.Props.C20.Statement.identity_forward := by
  intro m fuel out
  refine ⟨?_, ?_, ?_⟩
  · intro v hg h
    obtain ⟨t', h', ht⟩ := fwd_closed m fuel _ out h
    cases ht with
    | ret hv => rw [hv.ground_eq hg] at h'; exact ⟨_, h'⟩
  · intro code h
    obtain ⟨t', h', ht⟩ := fwd_closed m fuel _ out h
    cases ht; exact ⟨_, h'⟩
  · intro h
    obtain ⟨t', h', ht⟩ := fwd_closed m fuel _ out h
    cases ht; exact ⟨_, h'⟩

/-- **Monadic to plain.** -/
theorem identity_backward_pf : ZV.Props.C20.Statement.identity_backward := by
  intro m fuel out
  refine ⟨?_, ?_, ?_⟩
  · intro v hg h
    obtain ⟨t, h', ht⟩ := bwd_closed m fuel _ out h
    cases ht with
    | ret hv => rw [hv.ground_eq' hg] at h'; exact ⟨_, h'⟩
  · intro code h
    obtain ⟨t, h', ht⟩ := bwd_closed m fuel _ out h
    cases ht; exact ⟨_, h'⟩
  · intro h
    obtain ⟨t, h', ht⟩ := bwd_closed m fuel _ out h
    cases ht; exact ⟨_, h'⟩

/-- **The translated block never goes wrong where the plain one does not** (with the same fuel and
the same output, which is more than is asked). -/
theorem identity_never_wrong_pf : ZV.Props.C20.Statement.identity_never_wrong := by
  intro m fuel out h
  obtain ⟨t, h', ht⟩ := bwd_closed m fuel _ out h
  cases ht; exact ⟨fuel, out, h'⟩

/-- **Left unit**, for any continuation and any environment. -/
theorem left_unit_pf : ZV.Props.C20.Statement.left_unit := by
  intro ρ v x a k fuel out rv r out' hv hk
  refine ⟨fuel + 4, ?_⟩
  have e := lbind_eq fuel ρ x a (.app idReturn v) k out
  rw [lbind] at e
  rw [e]
  cases fuel with
  | zero => simp [evalRC] at hk
  | succ f =>
    rw [lret_some f ρ v rv out hv]
    simp only [bindK]
    exact evalRC_mono _ _ _ _ _ _ hk (by omega)

end ZV.ZCore
