/-
Proofs of the C18 statements: the validator of first-order SPS programs decides exactly the stated
invariants over the free-variable specification (`ZV/Model/SpsLowFree.lean`). Core Lean only.
-/
import ZV.Props.C18Statements
import ZV.Proofs.SpsLow

namespace ZV.SpsLow
open ZV.Props.C18

/-! ### Lists of variables -/

theorem mem_minus {x : Nat} {xs b : List Nat} : x ∈ minus xs b ↔ x ∈ xs ∧ x ∉ b := by
  unfold minus
  simp [List.mem_filter]

theorem nodupNat_iff : ∀ (l : List Nat), nodupNat l = true ↔ l.Nodup := by
  intro l
  induction l with
  | nil => simp [nodupNat]
  | cons x xs ih =>
    rw [nodupNat, Bool.and_eq_true, ih, List.nodup_cons]
    simp

/-! ### The scope check is containment of the free variables -/

/-- no block of the table has a free variable other than its own label -/
def NoCap (t : Table) : Prop := ∀ l b, (l, b) ∈ t → ∀ x ∈ fvC b, x = l

/-- every block of the table passes the scope check under its own label -/
def ScopeOK (t : Table) : Prop := ∀ l b, (l, b) ∈ t → scopeC [l] b = true

theorem NoCap_append {a b : Table} : NoCap (a ++ b) ↔ NoCap a ∧ NoCap b := by
  unfold NoCap
  constructor
  · intro h
    exact ⟨fun l c hm => h l c (List.mem_append_left _ hm),
      fun l c hm => h l c (List.mem_append_right _ hm)⟩
  · intro h l c hm
    rcases List.mem_append.1 hm with h' | h'
    · exact h.1 l c h'
    · exact h.2 l c h'

theorem ScopeOK_append {a b : Table} : ScopeOK (a ++ b) ↔ ScopeOK a ∧ ScopeOK b := by
  unfold ScopeOK
  constructor
  · intro h
    exact ⟨fun l c hm => h l c (List.mem_append_left _ hm),
      fun l c hm => h l c (List.mem_append_right _ hm)⟩
  · intro h l c hm
    rcases List.mem_append.1 hm with h' | h'
    · exact h.1 l c h'
    · exact h.2 l c h'

/-- a scope check `s` that accepts exactly the lists containing `fv` -/
def SubIff (s : List Nat → Bool) (fv : List Nat) : Prop :=
  ∀ bound, s bound = true ↔ ∀ x ∈ fv, x ∈ bound

theorem SubIff.nil : SubIff (fun _ => true) [] := by
  intro bound; simp

theorem SubIff.and {s₁ s₂ : List Nat → Bool} {f₁ f₂ : List Nat} (h₁ : SubIff s₁ f₁)
    (h₂ : SubIff s₂ f₂) : SubIff (fun b => s₁ b && s₂ b) (f₁ ++ f₂) := by
  intro bound
  simp only [Bool.and_eq_true]
  rw [h₁ bound, h₂ bound]
  constructor
  · intro h x hx
    rcases List.mem_append.1 hx with h' | h'
    · exact h.1 x h'
    · exact h.2 x h'
  · intro h
    exact ⟨fun x hx => h x (List.mem_append_left _ hx), fun x hx => h x (List.mem_append_right _ hx)⟩

theorem SubIff.bind {s : List Nat → Bool} {f : List Nat} (ps : List Nat) (h : SubIff s f) :
    SubIff (fun b => s (ps ++ b)) (minus f ps) := by
  intro bound
  show s (ps ++ bound) = true ↔ _
  rw [h (ps ++ bound)]
  constructor
  · intro hh x hx
    have hm := mem_minus.1 hx
    rcases List.mem_append.1 (hh x hm.1) with h' | h'
    · exact (hm.2 h').elim
    · exact h'
  · intro hh x hx
    by_cases hp : x ∈ ps
    · exact List.mem_append_left _ hp
    · exact List.mem_append_right _ (hh x (mem_minus.2 ⟨hx, hp⟩))

theorem SubIff.bind2 {s : List Nat → Bool} {f : List Nat} (pe pc : List Nat) (h : SubIff s f) :
    SubIff (fun b => s (pc ++ (pe ++ b))) (minus (minus f pe) pc) := by
  intro bound
  show s (pc ++ (pe ++ bound)) = true ↔ _
  rw [h (pc ++ (pe ++ bound))]
  constructor
  · intro hh x hx
    have hm := mem_minus.1 hx
    have hm' := mem_minus.1 hm.1
    rcases List.mem_append.1 (hh x hm'.1) with h' | h'
    · exact (hm.2 h').elim
    · rcases List.mem_append.1 h' with h'' | h''
      · exact (hm'.2 h'').elim
      · exact h''
  · intro hh x hx
    by_cases hc : x ∈ pc
    · exact List.mem_append_left _ hc
    · by_cases he : x ∈ pe
      · exact List.mem_append_right _ (List.mem_append_left _ he)
      · exact List.mem_append_right _ (List.mem_append_right _
          (hh x (mem_minus.2 ⟨mem_minus.2 ⟨hx, he⟩, hc⟩)))

theorem scopeC_subIff (c : Comp) : NoCap (blocksC c) → SubIff (fun b => scopeC b c) (fvC c) := by
  refine blocksC.induct
    (motive_1 := fun v => NoCap (blocksV v) → SubIff (fun b => scopeV b v) (fvV v))
    (motive_2 := fun vs => NoCap (blocksVs vs) → SubIff (fun b => scopeVs b vs) (fvVs vs))
    (motive_3 := fun c => NoCap (blocksC c) → SubIff (fun b => scopeC b c) (fvC c))
    (motive_4 := fun arms => NoCap (blocksCoArms arms) →
      SubIff (fun b => scopeCoArms b arms) (fvCoArms arms))
    (motive_5 := fun arms => NoCap (blocksArms arms) →
      SubIff (fun b => scopeArms b arms) (fvArms arms))
    (motive_6 := fun s => NoCap (blocksS s) → SubIff (fun b => scopeS b s) (fvS s))
    ?_ ?_ ?_ ?_ ?_ ?_ ?_ ?_ ?_ ?_ ?_ ?_ ?_ ?_ ?_ ?_ ?_ ?_ ?_ ?_ ?_ ?_ ?_ ?_ ?_ ?_ ?_ ?_ ?_ ?_ c
  -- values
  · intro l body _ hn bound
    rw [blocksV] at hn
    simp only [scopeV, fvV, true_iff]
    intro x hx
    have hm := mem_minus.1 hx
    have := hn l body (List.mem_cons_self ..) x hm.1
    exact (hm.2 (by simp [this])).elim
  · intro e c ih1 ih2 hn bound
    rw [blocksV, NoCap_append] at hn
    simp only [scopeV, fvV]
    exact SubIff.and (ih1 hn.1) (ih2 hn.2) bound
  · intro idx a ih hn bound
    rw [blocksV] at hn
    simp only [scopeV, fvV]
    exact ih hn bound
  · intro items arity ih hn bound
    rw [blocksV] at hn
    simp only [scopeV, fvV]
    exact ih hn bound
  · intro op args ih hn bound
    rw [blocksV] at hn
    simp only [scopeV, fvV]
    exact ih hn bound
  · intro _ bound; simp [scopeV, fvV]
  · intro x _ bound; simp [scopeV, fvV]
  · intro _ bound; simp [scopeV, fvV]
  · intro l _ bound; simp [scopeV, fvV]
  -- stacks
  · intro _ bound; simp [scopeS, fvS]
  · intro v rest ih1 ih2 hn bound
    rw [blocksS, NoCap_append] at hn
    simp only [scopeS, fvS]
    exact SubIff.and (ih1 hn.1) (ih2 hn.2) bound
  · intro idx rest ih hn bound
    rw [blocksS] at hn
    simp only [scopeS, fvS]
    exact ih hn bound
  · intro v rest ih1 ih2 hn bound
    rw [blocksS, NoCap_append] at hn
    simp only [scopeS, fvS]
    exact SubIff.and (ih1 hn.1) (ih2 hn.2) bound
  -- computations
  · intro s ih hn bound
    rw [blocksC] at hn
    simp only [scopeC, fvC]
    exact ih hn bound
  · intro t s ih1 ih2 hn bound
    rw [blocksC, NoCap_append] at hn
    simp only [scopeC, fvC]
    exact SubIff.and (ih1 hn.1) (ih2 hn.2) bound
  · intro v p b ih1 ih2 hn bound
    rw [blocksC, NoCap_append] at hn
    simp only [scopeC, fvC]
    exact SubIff.and (ih1 hn.1) (SubIff.bind p.vars (ih2 hn.2)) bound
  · intro v arms ih1 ih2 hn bound
    rw [blocksC, NoCap_append] at hn
    simp only [scopeC, fvC]
    exact SubIff.and (ih1 hn.1) (ih2 hn.2) bound
  · intro p v b ih1 ih2 hn bound
    rw [blocksC, NoCap_append] at hn
    simp only [scopeC, fvC]
    exact SubIff.and (ih1 hn.1) (SubIff.bind p.vars (ih2 hn.2)) bound
  · intro s b ih1 ih2 hn bound
    rw [blocksC, NoCap_append] at hn
    simp only [scopeC, fvC]
    exact SubIff.and (ih1 hn.1) (ih2 hn.2) bound
  · intro p s b ih1 ih2 hn bound
    rw [blocksC, NoCap_append] at hn
    simp only [scopeC, fvC]
    exact SubIff.and (ih1 hn.1) (SubIff.bind p.vars (ih2 hn.2)) bound
  · intro s arms ih1 ih2 hn bound
    rw [blocksC, NoCap_append] at hn
    simp only [scopeC, fvC]
    exact SubIff.and (ih1 hn.1) (ih2 hn.2) bound
  · intro v pe pc b ih1 ih2 hn bound
    rw [blocksC, NoCap_append] at hn
    simp only [scopeC, fvC]
    exact SubIff.and (ih1 hn.1) (SubIff.bind2 pe.vars pc.vars (ih2 hn.2)) bound
  · intro s pc b ih1 ih2 hn bound
    rw [blocksC, NoCap_append] at hn
    simp only [scopeC, fvC]
    exact SubIff.and (ih1 hn.1) (SubIff.bind pc.vars (ih2 hn.2)) bound
  · intro role arity s ih hn bound
    rw [blocksC] at hn
    simp only [scopeC, fvC]
    exact ih hn bound
  -- lists of values
  · intro _ bound; simp [scopeVs, fvVs]
  · intro v vs ih1 ih2 hn bound
    rw [blocksVs, NoCap_append] at hn
    simp only [scopeVs, fvVs]
    exact SubIff.and (ih1 hn.1) (ih2 hn.2) bound
  -- arms
  · intro _ bound; simp [scopeArms, fvArms]
  · intro p body rest ih1 ih2 hn bound
    rw [blocksArms, NoCap_append] at hn
    simp only [scopeArms, fvArms]
    exact SubIff.and (SubIff.bind p.vars (ih1 hn.1)) (ih2 hn.2) bound
  · intro _ bound; simp [scopeCoArms, fvCoArms]
  · intro i b rest ih1 ih2 hn bound
    rw [blocksCoArms, NoCap_append] at hn
    simp only [scopeCoArms, fvCoArms]
    exact SubIff.and (ih1 hn.1) (ih2 hn.2) bound

theorem scope_iff_free_pf : Statement.scope_iff_free := by
  intro c hn bound
  exact scopeC_subIff c hn bound

/-! ### The scope form of "no implicit capture" gives the free-variable form -/

/-- for this table the scope form implies the free-variable form -/
def CapGood (t : Table) : Prop := ScopeOK t → NoCap t

theorem CapGood.nil : CapGood [] := by
  intro _ l b h; cases h

theorem CapGood.append {a b : Table} (ha : CapGood a) (hb : CapGood b) : CapGood (a ++ b) := by
  intro h
  rw [ScopeOK_append] at h
  exact NoCap_append.2 ⟨ha h.1, hb h.2⟩

theorem CapGood.block {l : Nat} {body : Comp} (h : CapGood (blocksC body)) :
    CapGood ((l, body) :: blocksC body) := by
  intro hs
  have hrest : NoCap (blocksC body) := h fun l' b' hm => hs l' b' (List.mem_cons_of_mem _ hm)
  intro l' b' hm x hx
  rcases List.mem_cons.1 hm with heq | hm
  · simp only [Prod.mk.injEq] at heq
    obtain ⟨rfl, rfl⟩ := heq
    have := (scopeC_subIff b' hrest [l']).1 (hs l' b' (List.mem_cons_self ..)) x hx
    simpa using this
  · exact hrest l' b' hm x hx

theorem blocksC_capGood (c : Comp) : CapGood (blocksC c) := by
  refine blocksC.induct
    (motive_1 := fun v => CapGood (blocksV v))
    (motive_2 := fun vs => CapGood (blocksVs vs))
    (motive_3 := fun c => CapGood (blocksC c))
    (motive_4 := fun arms => CapGood (blocksCoArms arms))
    (motive_5 := fun arms => CapGood (blocksArms arms))
    (motive_6 := fun s => CapGood (blocksS s))
    ?_ ?_ ?_ ?_ ?_ ?_ ?_ ?_ ?_ ?_ ?_ ?_ ?_ ?_ ?_ ?_ ?_ ?_ ?_ ?_ ?_ ?_ ?_ ?_ ?_ ?_ ?_ ?_ ?_ ?_ c
  all_goals intros
  all_goals simp only [blocksV, blocksVs, blocksS, blocksC, blocksArms, blocksCoArms]
  all_goals first
    | exact CapGood.nil
    | assumption
    | (apply CapGood.block; assumption)
    | (apply CapGood.append <;> assumption)

/-! ### The validator decides the invariants -/

theorem validate_clause4 (p : Program) :
    (p.blocks.all fun lb => (blocksC lb.2).all fun lb' => p.blocks.labels.contains lb'.1) = true := by
  rw [List.all_eq_true]
  intro lb hm
  rw [List.all_eq_true]
  intro lb' hm'
  exact List.contains_iff_mem.2
    (List.mem_map.2 ⟨lb', nested_blocks_in_table_pf p lb hm lb' hm', rfl⟩)

theorem validate_iff_invariants_pf : Statement.validate_iff_invariants := by
  intro p
  unfold validate Invariants
  simp only [Bool.and_eq_true, validate_clause4, and_true]
  constructor
  · rintro ⟨⟨⟨h1, h2⟩, h3⟩, h5⟩
    have hso : ScopeOK (blocksC p.root) := fun l b hm => List.all_eq_true.1 h3 (l, b) hm
    have hnc : NoCap (blocksC p.root) := blocksC_capGood p.root hso
    refine ⟨(nodupNat_iff _).1 h1, ?_, hnc, h5⟩
    intro x hx
    have := (scopeC_subIff p.root hnc []).1 h2 x hx
    cases this
  · rintro ⟨h1, h2, h3, h5⟩
    have hnc : NoCap (blocksC p.root) := h3
    refine ⟨⟨⟨(nodupNat_iff _).2 h1, ?_⟩, ?_⟩, h5⟩
    · exact (scopeC_subIff p.root hnc []).2 fun x hx => (h2 x hx).elim
    · rw [List.all_eq_true]
      intro lb hm
      have hnb : NoCap (blocksC lb.2) := fun l b hm' =>
        h3 l b (nested_blocks_in_table_pf p lb hm (l, b) hm')
      refine (scopeC_subIff lb.2 hnb [lb.1]).2 fun x hx => ?_
      have := h3 lb.1 lb.2 hm x hx
      simp [this]

end ZV.SpsLow
