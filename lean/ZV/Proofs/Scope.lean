/-
C07: bound names can be renamed freely. The five statements of `ZV/Props/C07Statements.lean`,
proved from the generalised lemmas of `ScopeBasic` (idempotence, closedness), `ScopeAccept`
(the checker) and `ScopeSim` (the reference semantics).
-/
import ZV.Props.C07Statements
import ZV.Proofs.ScopeSim

namespace ZV.ZCore
open ZV.Props.C07.Statement

theorem canon_idempotent_pf : canon_idempotent := by
  intro m c h
  exact Sc.idemC m 0 [] [] c h Sc.IdOn.nil

theorem accepted_is_closed_pf : accepted_is_closed := by
  intro Δ m h
  unfold checkProgram at h
  cases hi : inferC Δ [] m with
  | error e => rw [hi] at h; cases h
  | ok b =>
    obtain ⟨m', hm⟩ := Sc.closedC Δ m [] b 0 [] hi Sc.Dom.nil
    simp [canon, hm]

theorem canon_acceptance_pf : canon_acceptance := by
  intro Δ m m' h
  rw [Sc.check_canon Δ m m' h]

theorem canon_behaviour_pf : canon_behaviour := by
  intro m m' fuel out h
  exact Sc.resrel_observe (Sc.eval_canon m m' fuel h) out

theorem alpha_invariance_pf : alpha_invariance := by
  intro Δ m₁ m₂ c fuel out h1 h2
  obtain ⟨e1, t1, _⟩ := canon_behaviour_pf m₁ c fuel out h1
  obtain ⟨e2, t2, _⟩ := canon_behaviour_pf m₂ c fuel out h2
  refine ⟨?_, ?_, ?_⟩
  · rw [← Sc.check_canon Δ m₁ c h1, ← Sc.check_canon Δ m₂ c h2]
  · intro code; exact (e1 code).trans (e2 code).symm
  · exact t1.trans t2.symm

end ZV.ZCore
