import ZV.Model.Decimal

namespace ZV.Decimal

theorem digitVal?_digitChar {d : Nat} (h : d < 10) : digitVal? (digitChar d) = some d := by
  have : (digitChar d).toNat = 48 + d := by
    unfold digitChar
    have : (48 + d).isValidChar := by
      left; omega
    simp [Char.ofNat, this, Char.ofNatAux, Char.toNat]
    omega
  simp [digitVal?, this]
  omega

theorem valRev_revDigitsFuel (fuel n : Nat) (h : n ≤ fuel ∨ n < 10) :
    valRev (revDigitsFuel fuel n) = some n := by
  induction fuel generalizing n with
  | zero =>
    have : n < 10 := by omega
    simp [revDigitsFuel, valRev, Nat.mod_eq_of_lt this, digitVal?_digitChar this]
  | succ fuel ih =>
    unfold revDigitsFuel
    split
    · next h => simp [valRev, digitVal?_digitChar h]
    · next h' =>
      have h1 : n % 10 < 10 := Nat.mod_lt _ (by decide)
      have h2 : n / 10 ≤ fuel ∨ n / 10 < 10 := by omega
      simp [valRev, digitVal?_digitChar h1, ih _ h2]
      omega

theorem valRev_revDigits (n : Nat) : valRev (revDigits n) = some n :=
  valRev_revDigitsFuel n n (Or.inl (Nat.le_refl _))

theorem revDigits_ne_nil (n : Nat) : revDigits n ≠ [] := by
  unfold revDigits; cases n <;> simp [revDigitsFuel]; split <;> simp

theorem readNat_showNat (n : Nat) : readNat (showNat n) = some n := by
  simp [readNat, showNat, valRev_revDigits, revDigits_ne_nil]

theorem revDigitsFuel_all_digit (fuel n : Nat) :
    ∀ c ∈ revDigitsFuel fuel n, (digitVal? c).isSome := by
  induction fuel generalizing n with
  | zero =>
    have h1 : n % 10 < 10 := Nat.mod_lt _ (by decide)
    simp [revDigitsFuel, digitVal?_digitChar h1]
  | succ fuel ih =>
    unfold revDigitsFuel
    split
    · next h => simp [digitVal?_digitChar h]
    · next h =>
      have h1 : n % 10 < 10 := Nat.mod_lt _ (by decide)
      intro c hc
      simp at hc
      rcases hc with rfl | hc
      · simp [digitVal?_digitChar h1]
      · exact ih _ c hc

theorem revDigits_all_digit (n : Nat) : ∀ c ∈ revDigits n, (digitVal? c).isSome :=
  revDigitsFuel_all_digit n n

theorem showNat_head_not_sign (n : Nat) : ∀ c, (showNat n).head? = some c → c ≠ '-' ∧ c ≠ '+' := by
  intro c hc
  have hm : c ∈ revDigits n := by
    have : c ∈ showNat n := List.mem_of_mem_head? (by simpa using hc)
    simpa [showNat] using this
  have := revDigits_all_digit n c hm
  constructor <;> (intro h; subst h; simp [digitVal?] at this)

/-- Printing then parsing any integer inside the accepted range returns it. -/
theorem parseBounded_showInt (lo hi z : Int) (h : lo ≤ z ∧ z ≤ hi) :
    parseBounded lo hi (showInt z) = some z := by
  cases z with
  | ofNat n =>
    simp only [showInt]
    have hne : showNat n ≠ [] := by simp [showNat, revDigits_ne_nil]
    match hs : showNat n with
    | [] => exact absurd hs hne
    | c :: cs =>
      have := showNat_head_not_sign n c (by simp [hs])
      have hr := readNat_showNat n
      rw [hs] at hr
      unfold parseBounded
      split
      · next ds heq => simp at heq; exact absurd heq.1 this.1
      · next ds heq => simp at heq; exact absurd heq.1 this.2
      · simp [hr]; exact h
  | negSucc n =>
    simp only [showInt]
    unfold parseBounded
    simp [readNat_showNat]
    have : -((n : Int) + 1) = Int.negSucc n := by omega
    rw [this]
    simp [h]

end ZV.Decimal
