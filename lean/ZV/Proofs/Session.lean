/-
Proofs about the session's input side (`ZV/Model/Session.lean`).
-/
import ZV.Model.Session
import ZV.Props.C15Statements

namespace ZV.Session

/-- Every known input's disk text is the current disk contents, except possibly for the one
path whose `refresh_disk` is due. -/
def SyncedExcept (s : State) (pend : Option Path) : Prop :=
  ∀ (p : Path) (i : Input), s.files p = some i → some p ≠ pend → i.disk = s.fs p

theorem synced_init (fs : Path → Option Text) (pend : Option Path) : SyncedExcept (init fs) pend := by
  intro p i h; simp [init] at h

theorem synced_setOverlay (s : State) (p : Path) (t : Text) (hs : SyncedExcept s none) :
    SyncedExcept (step s (.setOverlay p t)) none := by
  intro q i hq _
  simp only [step] at hq
  by_cases hqp : q = p
  · subst hqp
    simp only [upd_same, Option.some.injEq] at hq
    subst hq
    cases hf : s.files q with
    | none => simp [step]
    | some i0 => simpa [step] using hs q i0 hf (by simp)
  · rw [upd_other _ _ _ _ hqp] at hq
    simpa [step] using hs q i hq (by simp)

/-- `clear_overlay p` re-reads the disk of a known path: it repairs the pending path too (an
unknown pending path needs no repair). -/
theorem synced_clearOverlay (s : State) (p : Path) (pend : Option Path)
    (hs : SyncedExcept s pend) (hp : pend = none ∨ pend = some p) :
    SyncedExcept (step s (.clearOverlay p)) none := by
  intro q i hq _
  simp only [step] at hq
  cases hf : s.files p with
  | none =>
    simp only [hf] at hq
    have hne : some q ≠ pend := by
      rcases hp with h | h
      · simp [h]
      · intro hc; rw [h] at hc; cases hc; rw [hf] at hq; cases hq
    simpa [step, hf] using hs q i hq hne
  | some i0 =>
    simp only [hf] at hq
    by_cases hqp : q = p
    · subst hqp
      simp only [upd_same, Option.some.injEq] at hq
      subst hq
      simp [step, hf]
    · rw [upd_other _ _ _ _ hqp] at hq
      have hne : some q ≠ pend := by
        rcases hp with h | h <;> simp [h, hqp]
      simpa [step, hf] using hs q i hq hne

/-- `refresh_disk p` repairs the pending path, and breaks nothing. -/
theorem synced_refreshDisk (s : State) (p : Path) (pend : Option Path)
    (hs : SyncedExcept s pend) (hp : pend = none ∨ pend = some p) :
    SyncedExcept (step s (.refreshDisk p)) none := by
  intro q i hq _
  have hfs : (step s (.refreshDisk p)).fs = s.fs := by
    simp only [step, sourceInput]; cases s.files p <;> rfl
  rw [hfs]
  by_cases hqp : q = p
  · subst hqp
    simp only [step, sourceInput] at hq
    cases hf : s.files q with
    | none => simp [hf] at hq; subst hq; rfl
    | some i0 => simp [hf] at hq; subst hq; rfl
  · have hne : some q ≠ pend := by
      rcases hp with h | h <;> simp [h, hqp]
    simp only [step, sourceInput] at hq
    cases hf : s.files p with
    | none =>
      simp only [hf] at hq
      rw [upd_other _ _ _ _ hqp, upd_other _ _ _ _ hqp] at hq
      exact hs q i hq hne
    | some i0 =>
      simp only [hf] at hq
      rw [upd_other _ _ _ _ hqp] at hq
      exact hs q i hq hne

theorem synced_lookup (s : State) (p : Path) (hs : SyncedExcept s none) :
    SyncedExcept (step s (.lookup p)) none := by
  intro q i hq _
  simp only [step, sourceInput] at hq ⊢
  cases hf : s.files p with
  | some i0 =>
    simp only [hf] at hq ⊢
    exact hs q i hq (by simp)
  | none =>
    simp only [hf] at hq ⊢
    by_cases hqp : q = p
    · subst hqp
      simp only [upd_same, Option.some.injEq] at hq
      subst hq; rfl
    · rw [upd_other _ _ _ _ hqp] at hq
      exact hs q i hq (by simp)

theorem synced_write (s : State) (p : Path) (t : Text) (hs : SyncedExcept s none) :
    SyncedExcept (step s (.write p t)) (some p) := by
  intro q i hq hne
  have hqp : q ≠ p := fun h => hne (by rw [h])
  simp only [step] at hq ⊢
  rw [upd_other _ _ _ _ hqp]
  exact hs q i hq (by simp)

theorem synced_delete (s : State) (p : Path) (hs : SyncedExcept s none) :
    SyncedExcept (step s (.delete p)) (some p) := by
  intro q i hq hne
  have hqp : q ≠ p := fun h => hne (by rw [h])
  simp only [step] at hq ⊢
  rw [upd_other _ _ _ _ hqp]
  exact hs q i hq (by simp)

/-- The invariant along a well-formed history (with the pending refresh carried along). -/
theorem synced_run : ∀ (h : List Op) (s : State) (pend : Option Path),
    SyncedExcept s pend → wfAux pend h = true → SyncedExcept (run s h) none := by
  intro h
  induction h with
  | nil =>
    intro s pend hs hw
    cases pend with
    | none => simpa [run] using hs
    | some p => simp [wfAux] at hw
  | cons op r ih =>
    intro s pend hs hw
    have hrun : run s (op :: r) = run (step s op) r := by simp [run]
    rw [hrun]
    cases pend with
    | none =>
      cases op with
      | setOverlay p t => exact ih _ none (synced_setOverlay s p t hs) (by simpa [wfAux] using hw)
      | clearOverlay p =>
        exact ih _ none (synced_clearOverlay s p none hs (Or.inl rfl)) (by simpa [wfAux] using hw)
      | refreshDisk p =>
        exact ih _ none (synced_refreshDisk s p none hs (Or.inl rfl)) (by simpa [wfAux] using hw)
      | lookup p => exact ih _ none (synced_lookup s p hs) (by simpa [wfAux] using hw)
      | write p t => exact ih _ (some p) (synced_write s p t hs) (by simpa [wfAux] using hw)
      | delete p => exact ih _ (some p) (synced_delete s p hs) (by simpa [wfAux] using hw)
    | some p =>
      cases op with
      | refreshDisk q =>
        simp only [wfAux, Bool.and_eq_true, beq_iff_eq] at hw
        obtain ⟨hpq, hw⟩ := hw
        subst hpq
        exact ih _ none (synced_refreshDisk s p (some p) hs (Or.inr rfl)) hw
      | clearOverlay q =>
        simp only [wfAux, Bool.and_eq_true, beq_iff_eq] at hw
        obtain ⟨hpq, hw⟩ := hw
        subst hpq
        exact ih _ none (synced_clearOverlay s p (some p) hs (Or.inr rfl)) hw
      | setOverlay _ _ => simp [wfAux] at hw
      | lookup _ => simp [wfAux] at hw
      | write _ _ => simp [wfAux] at hw
      | delete _ => simp [wfAux] at hw

theorem effective_of_synced (s : State) (hs : SyncedExcept s none) (p : Path) :
    effective s p = (overlayOf s p <|> s.fs p) := by
  simp only [effective, overlayOf]
  cases hf : s.files p with
  | none => simp
  | some i =>
    have := hs p i hf (by simp)
    simp [this]

/-! ### Bookkeeping of disk and overlays -/

theorem step_fs (s : State) (op : Op) :
    (step s op).fs = match op with
      | .write p t => upd s.fs p (some t)
      | .delete p => upd s.fs p none
      | _ => s.fs := by
  cases op with
  | setOverlay p t => rfl
  | clearOverlay p => simp only [step]; cases s.files p <;> rfl
  | refreshDisk p => simp only [step, sourceInput]; cases s.files p <;> rfl
  | lookup p => simp only [step, sourceInput]; cases s.files p <;> rfl
  | write p t => rfl
  | delete p => rfl

theorem run_fs_pf : ZV.Props.C15.Statement.run_fs := by
  intro h
  induction h with
  | nil => intro s; rfl
  | cons op r ih =>
    intro s
    have hrun : run s (op :: r) = run (step s op) r := by simp [run]
    rw [hrun, ih, step_fs]
    cases op <;> rfl

theorem step_overlay (s : State) (op : Op) (q : Path) :
    overlayOf (step s op) q = (match op with
      | .setOverlay p t => upd (overlayOf s) p (some t)
      | .clearOverlay p => upd (overlayOf s) p none
      | _ => overlayOf s) q := by
  cases op with
  | setOverlay p t =>
    simp only [step, overlayOf]
    by_cases hqp : q = p
    · subst hqp; simp
    · rw [upd_other _ _ _ _ hqp, upd_other _ _ _ _ hqp]; rfl
  | clearOverlay p =>
    simp only [step, overlayOf]
    cases hf : s.files p with
    | none =>
      by_cases hqp : q = p
      · subst hqp; simp [hf]
      · simp only []; rw [upd_other _ _ _ _ hqp]; rfl
    | some i0 =>
      by_cases hqp : q = p
      · subst hqp; simp
      · simp only []; rw [upd_other _ _ _ _ hqp, upd_other _ _ _ _ hqp]; rfl
  | refreshDisk p =>
    simp only [step, sourceInput, overlayOf]
    cases hf : s.files p with
    | none =>
      by_cases hqp : q = p
      · subst hqp; simp [hf]
      · simp only []; rw [upd_other _ _ _ _ hqp, upd_other _ _ _ _ hqp]
    | some i0 =>
      by_cases hqp : q = p
      · subst hqp; simp [hf]
      · simp only []; rw [upd_other _ _ _ _ hqp]
  | lookup p =>
    simp only [step, sourceInput, overlayOf]
    cases hf : s.files p with
    | none =>
      by_cases hqp : q = p
      · subst hqp; simp [hf]
      · simp only []; rw [upd_other _ _ _ _ hqp]
    | some i0 => rfl
  | write p t => rfl
  | delete p => rfl

theorem specOv_congr (h : List Op) : ∀ (a b : Path → Option Text), (∀ p, a p = b p) →
    ∀ p, specOv a h p = specOv b h p := by
  induction h with
  | nil => intro a b hab p; exact hab p
  | cons op r ih =>
    intro a b hab p
    cases op with
    | setOverlay q t =>
      exact ih _ _ (fun x => by simp only [upd]; split <;> simp [hab]) p
    | clearOverlay q =>
      exact ih _ _ (fun x => by simp only [upd]; split <;> simp [hab]) p
    | refreshDisk q => exact ih _ _ hab p
    | lookup q => exact ih _ _ hab p
    | write q t => exact ih _ _ hab p
    | delete q => exact ih _ _ hab p

theorem run_overlay_pf : ZV.Props.C15.Statement.run_overlay := by
  intro h
  induction h with
  | nil => intro s p; rfl
  | cons op r ih =>
    intro s p
    have hrun : run s (op :: r) = run (step s op) r := by simp [run]
    rw [hrun, ih]
    cases op with
    | setOverlay q t => exact specOv_congr r _ _ (fun x => step_overlay s _ x) p
    | clearOverlay q => exact specOv_congr r _ _ (fun x => step_overlay s _ x) p
    | refreshDisk q => exact specOv_congr r _ _ (fun x => step_overlay s _ x) p
    | lookup q => exact specOv_congr r _ _ (fun x => step_overlay s _ x) p
    | write q t => exact specOv_congr r _ _ (fun x => step_overlay s _ x) p
    | delete q => exact specOv_congr r _ _ (fun x => step_overlay s _ x) p

theorem effective_spec_pf : ZV.Props.C15.Statement.effective_spec := by
  intro fs0 h p hw
  have hs := synced_run h (init fs0) none (synced_init fs0 none) hw
  rw [effective_of_synced _ hs, run_fs_pf, run_overlay_pf]
  rfl

/-! ### The fresh session -/

theorem wf_overlays (ovs : List (Path × Text)) : WF (ovOps ovs) = true := by
  induction ovs with
  | nil => rfl
  | cons x r ih => simpa [WF, ovOps, wfAux] using ih

theorem specFs_overlays (fs : Path → Option Text) (ovs : List (Path × Text)) :
    specFs fs (ovOps ovs) = fs := by
  induction ovs with
  | nil => rfl
  | cons x r ih => simpa [ovOps, specFs] using ih

theorem specOv_overlays (ovs : List (Path × Text)) : ∀ (ov : Path → Option Text) (p : Path),
    specOv ov (ovOps ovs) p = (overlayIn ovs p <|> ov p) := by
  induction ovs with
  | nil => intro ov p; simp [ovOps, specOv, overlayIn]
  | cons x r ih =>
    intro ov p
    obtain ⟨q, t⟩ := x
    simp only [ovOps, List.map_cons, specOv, overlayIn]
    have ih' := ih
    simp only [ovOps] at ih' 
    rw [ih']
    cases overlayIn r p with
    | some t' => simp
    | none =>
      by_cases hpq : p = q
      · subst hpq; simp
      · simp [hpq, upd_other _ _ _ _ hpq]

theorem fresh_effective_pf : ZV.Props.C15.Statement.fresh_effective := by
  intro fs ovs p
  have h := effective_spec_pf fs (ovOps ovs) p (wf_overlays ovs)
  simp only [fresh]
  rw [h, specFs_overlays, specOv_overlays]
  cases overlayIn ovs p <;> simp

theorem incremental_eq_fresh_pf : ZV.Props.C15.Statement.incremental_eq_fresh := by
  intro fs0 h ovs hw hov p
  have hs := synced_run h (init fs0) none (synced_init fs0 none) hw
  rw [effective_of_synced _ hs, fresh_effective_pf, hov]

/-! ### Lookups are invisible -/

theorem wf_filter : ∀ (h : List Op) (pend : Option Path), wfAux pend h = true →
    wfAux pend (h.filter notLookup) = true := by
  intro h
  induction h with
  | nil => intro pend hw; simpa using hw
  | cons op r ih =>
    intro pend hw
    cases pend with
    | none =>
      cases op with
      | lookup p => simpa [List.filter_cons, notLookup, wfAux] using ih none (by simpa [wfAux] using hw)
      | setOverlay p t => simpa [List.filter_cons, notLookup, wfAux] using ih none (by simpa [wfAux] using hw)
      | clearOverlay p => simpa [List.filter_cons, notLookup, wfAux] using ih none (by simpa [wfAux] using hw)
      | refreshDisk p => simpa [List.filter_cons, notLookup, wfAux] using ih none (by simpa [wfAux] using hw)
      | write p t => simpa [List.filter_cons, notLookup, wfAux] using ih (some p) (by simpa [wfAux] using hw)
      | delete p => simpa [List.filter_cons, notLookup, wfAux] using ih (some p) (by simpa [wfAux] using hw)
    | some p =>
      cases op with
      | refreshDisk q =>
        simp only [wfAux, Bool.and_eq_true, beq_iff_eq] at hw
        simpa [List.filter_cons, notLookup, wfAux, hw.1] using ih none hw.2
      | clearOverlay q =>
        simp only [wfAux, Bool.and_eq_true, beq_iff_eq] at hw
        simpa [List.filter_cons, notLookup, wfAux, hw.1] using ih none hw.2
      | setOverlay _ _ => simp [wfAux] at hw
      | lookup _ => simp [wfAux] at hw
      | write _ _ => simp [wfAux] at hw
      | delete _ => simp [wfAux] at hw

theorem specFs_filter : ∀ (h : List Op) (fs : Path → Option Text),
    specFs fs (h.filter notLookup) = specFs fs h := by
  intro h
  induction h with
  | nil => intro fs; rfl
  | cons op r ih => intro fs; cases op <;> simp [List.filter_cons, notLookup, specFs, ih]

theorem specOv_filter : ∀ (h : List Op) (ov : Path → Option Text),
    specOv ov (h.filter notLookup) = specOv ov h := by
  intro h
  induction h with
  | nil => intro ov; rfl
  | cons op r ih => intro ov; cases op <;> simp [List.filter_cons, notLookup, specOv, ih]

theorem lookups_irrelevant_pf : ZV.Props.C15.Statement.lookups_irrelevant := by
  intro fs0 h p hw
  rw [effective_spec_pf fs0 h p hw, effective_spec_pf fs0 _ p (wf_filter h none hw),
    specFs_filter, specOv_filter]

end ZV.Session
