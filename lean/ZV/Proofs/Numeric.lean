/- Width-generic helper lemmas about `BitVec` used by `ZV/Props/C05.lean`. -/
import ZV.Model.Numeric

namespace ZV.Numeric

theorem toNat_add_int {w} (x y : BitVec w) :
    ((x + y).toNat : Int) = ((x.toNat : Int) + y.toNat) % (2 ^ w : Int) := by
  rw [BitVec.toNat_add]; norm_cast

theorem toNat_mul_int {w} (x y : BitVec w) :
    ((x * y).toNat : Int) = ((x.toNat : Int) * y.toNat) % (2 ^ w : Int) := by
  rw [BitVec.toNat_mul]; norm_cast

theorem toNat_sub_int {w} (x y : BitVec w) :
    ((x - y).toNat : Int) = ((x.toNat : Int) - y.toNat) % (2 ^ w : Int) := by
  rw [BitVec.toNat_sub]
  have hy := y.isLt
  have : ((2 ^ w - y.toNat + x.toNat : Nat) : Int) = ((x.toNat : Int) - y.toNat) + (2 ^ w : Int) := by
    rw [Int.natCast_add, Int.natCast_sub (Nat.le_of_lt hy)]
    simp
    omega
  rw [Int.natCast_emod, this]
  simp

theorem toNat_udiv_int {w} (x y : BitVec w) :
    ((x / y).toNat : Int) = (Int.tdiv (x.toNat : Int) y.toNat) % (2 ^ w : Int) := by
  rw [BitVec.toNat_udiv]
  have hx := x.isLt
  have h1 : Int.tdiv (x.toNat : Int) (y.toNat : Int) = ((x.toNat / y.toNat : Nat) : Int) := by
    rw [Int.ofNat_tdiv]
  rw [h1]
  have h2 : x.toNat / y.toNat < 2 ^ w := Nat.lt_of_le_of_lt (Nat.div_le_self _ _) hx
  rw [Int.emod_eq_of_lt (Int.natCast_nonneg _) (by exact_mod_cast h2)]

theorem toNat_umod_int {w} (x y : BitVec w) :
    ((x % y).toNat : Int) = Int.tmod (x.toNat : Int) y.toNat := by
  rw [BitVec.toNat_umod, Int.ofNat_tmod]

theorem eq_zero_iff_toInt {w} (b : BitVec w) : b = 0 ↔ b.toInt = 0 := by
  constructor
  · intro h; subst h; simp
  · intro h; apply BitVec.eq_of_toInt_eq; simpa using h

theorem eq_zero_iff_toNat {w} (b : BitVec w) : b = 0 ↔ (b.toNat : Int) = 0 := by
  constructor
  · intro h; subst h; simp
  · intro h; apply BitVec.eq_of_toNat_eq; simp; omega

theorem eq_zero_iff_val (t : IntTy) (b : BitVec t.width) : b = 0 ↔ val t b = 0 := by
  unfold val; split
  · exact eq_zero_iff_toInt b
  · exact eq_zero_iff_toNat b

end ZV.Numeric
