/- Proofs for C12, grouping elision (`ZV/Props/C12GroupingStatements.lean`). Core Lean only. -/
import ZV.Props.C12GroupingStatements

namespace ZV.Grouping
open ZV.Props.C12.Grouping

/-! ## The checker decides the derivation relation -/

theorem Derives.mono {m t} (h : Derives m t) : ∀ {n}, m ≤ n → Derives n t := by
  intro n hmn
  induction hmn with
  | refl => exact h
  | step _ ih => exact .up ih

theorem derivesB_iff (n : Nat) (t : T) : derivesB n t = true ↔ own t ≤ n ∧ wf t = true := by
  simp [derivesB]

theorem derivesB_of_derives {n t} (h : Derives n t) : derivesB n t = true := by
  induction h with
  | up _ ih => rw [derivesB_iff] at *; exact ⟨by omega, ih.2⟩
  | _ => simp_all [derivesB_iff, wf, own, gram]

theorem derives_of_wf : ∀ (t : T), wf t = true → Derives (own t) t := by
  intro t
  induction t with
  | leaf k => intro _; exact .leaf k
  | box k t ih =>
    intro h; simp only [wf, gram, Bool.and_eq_true, Nat.ble_eq] at h
    exact .box k ((ih h.2).mono h.1)
  | block t ih =>
    intro h; simp only [wf, gram, Bool.and_eq_true, Nat.ble_eq] at h
    exact .block ((ih h.2).mono h.1)
  | pair a b iha ihb =>
    intro h; simp only [wf, gram, Bool.and_eq_true, Nat.ble_eq] at h
    exact .pair ((iha h.1.2).mono h.1.1) ((ihb h.2.2).mono h.2.1)
  | mtch s t ihs iht =>
    intro h; simp only [wf, gram, Bool.and_eq_true, Nat.ble_eq] at h
    exact .mtch ((ihs h.1.2).mono h.1.1) ((iht h.2.2).mono h.2.1)
  | paren t ih =>
    intro h; simp only [wf, gram, Bool.and_eq_true, Nat.ble_eq] at h
    exact .paren ((ih h.2).mono h.1)
  | pre k t ih =>
    intro h; simp only [wf, gram, Bool.and_eq_true, Nat.ble_eq] at h
    exact .pre k ((ih h.2).mono (by omega))
  | ctor t ih =>
    intro h; simp only [wf, Bool.and_eq_true, Nat.ble_eq] at h
    exact .ctor ((ih h.2).mono (by omega))
  | proj t ih =>
    intro h; simp only [wf, gram, Bool.and_eq_true, Nat.ble_eq] at h
    exact .proj ((ih h.2).mono h.1)
  | app f a ihf iha =>
    intro h; simp only [wf, gram, Bool.and_eq_true, Nat.ble_eq] at h
    exact .app ((ihf h.1.2).mono h.1.1) ((iha h.2.2).mono h.2.1)
  | dtor t ih =>
    intro h; simp only [wf, gram, Bool.and_eq_true, Nat.ble_eq] at h
    exact .dtor ((ih h.2).mono h.1)
  | prod a b iha ihb =>
    intro h; simp only [wf, gram, Bool.and_eq_true, Nat.ble_eq] at h
    exact .prod ((iha h.1.2).mono h.1.1) ((ihb h.2.2).mono h.2.1)
  | arrow a b iha ihb =>
    intro h; simp only [wf, gram, Bool.and_eq_true, Nat.ble_eq] at h
    exact .arrow ((iha h.1.2).mono h.1.1) ((ihb h.2.2).mono h.2.1)
  | quant k t ih =>
    intro h; simp only [wf, gram, Bool.and_eq_true, Nat.ble_eq] at h
    exact .quant k ((ih h.2).mono h.1)
  | ex t ih =>
    intro h; simp only [wf, gram, Bool.and_eq_true, Nat.ble_eq] at h
    exact .ex ((ih h.2).mono h.1)
  | tail k t ih =>
    intro h; simp only [wf, gram, Bool.and_eq_true, Nat.ble_eq] at h
    exact .tail k ((ih h.2).mono h.1)
  | doB b t ihb iht =>
    intro h; simp only [wf, gram, Bool.and_eq_true, Nat.ble_eq] at h
    exact .doB ((ihb h.1.2).mono h.1.1) ((iht h.2.2).mono h.2.1)
  | letB k b t ihb iht =>
    intro h; simp only [wf, gram, Bool.and_eq_true, Nat.ble_eq] at h
    exact .letB k ((ihb h.1.2).mono h.1.1) ((iht h.2.2).mono h.2.1)
  | letT ty b t ihty ihb iht =>
    intro h; simp only [wf, gram, Bool.and_eq_true, Nat.ble_eq] at h
    exact .letT ((ihty h.1.1.2).mono h.1.1.1) ((ihb h.1.2.2).mono h.1.2.1) ((iht h.2.2).mono h.2.1)
  | ann t ty iht ihty =>
    intro h; simp only [wf, gram, Bool.and_eq_true, Nat.ble_eq] at h
    exact .ann ((iht h.1.2).mono h.1.1) ((ihty h.2.2).mono h.2.1)
  | named k t ih =>
    intro h; simp only [wf, gram, Bool.and_eq_true, Nat.ble_eq] at h
    exact .named k ((ih h.2).mono h.1)

theorem derives_of_derivesB {n t} (h : derivesB n t = true) : Derives n t := by
  rw [derivesB_iff] at h
  exact (derives_of_wf t h.2).mono h.1

theorem derives_iff_pf : Statement.derives_iff :=
  fun _ _ => ⟨derivesB_of_derives, derives_of_derivesB⟩

instance (n : Nat) (t : T) : Decidable (Derives n t) :=
  decidable_of_iff _ (derives_iff_pf n t).symm

/-! ## The tables -/

theorem req_le_gram_pf : Statement.req_le_gram := by
  intro p; cases p <;> decide

theorem elide_complete_at_pf : Statement.elide_complete_at := by
  intro p; cases p <;> decide

theorem tableOK_reqOf : Statement.TableOK reqOf := fun p => (req_le_gram_pf p).1

/-! ## Elision yields derivations -/

theorem own_le_seven (t : T) : own t ≤ 7 := by cases t <;> simp [own]

/-- the class of a tree that is neither an annotation nor a name is its level -/
theorem accepts_level {c : Ctx} {u : T} (hu : ∀ a b, u ≠ .ann a b) (h : c.accepts (cls u) = true) :
    own u ≤ c.level := by
  cases c with
  | group => simp [Ctx.accepts] at h
  | req r =>
    cases u <;> first
      | exact absurd rfl (hu _ _)
      | (cases r with
         | any => simp_all [Ctx.accepts, accepts, cls, own, Ctx.level, Req.level]
         | annotated => simp [own, Ctx.level, Req.level]
         | through m =>
           cases m <;> simp_all [Ctx.accepts, accepts, cls, own, Ctx.level, Req.level, Prec.toNat])

theorem derivesB_paren (n : Nat) (u : T) (h : wf u = true) : derivesB n (.paren u) = true := by
  rw [derivesB_iff]
  refine ⟨Nat.zero_le _, ?_⟩
  show (Nat.ble (own u) 7 && wf u) = true
  simp only [Bool.and_eq_true, Nat.ble_eq]
  exact ⟨own_le_seven u, h⟩

theorem close_req_of_not_ann (r : Req) (u : T) (hu : ∀ a b, u ≠ .ann a b) :
    close (.req r) u = if accepts r (cls u) then u else .paren u := by
  cases u <;> first | rfl | exact absurd rfl (hu _ _)

theorem close_req_ann (r : Req) (a b : T) :
    close (.req r) (.ann a b) = if Ctx.req r = .req .annotated then .ann a b else .paren (.ann a b) := rfl

/-- as a constructor argument: a tuple as it is, anything else in parentheses -/
theorem close_group (u : T) : close .group u = u ∧ own u = 0 ∨ close .group u = .paren u := by
  cases u with
  | leaf k => cases k <;> first | exact .inl ⟨rfl, rfl⟩ | exact .inr rfl
  | pair a b => exact .inl ⟨rfl, rfl⟩
  | _ => exact .inr rfl

theorem close_derivesB (c : Ctx) (u : T) (h : wf u = true) : derivesB c.level (close c u) = true := by
  cases c with
  | group =>
    rcases close_group u with ⟨h1, h2⟩ | h1
    · rw [h1, derivesB_iff]; exact ⟨by simp [h2, Ctx.level], h⟩
    · rw [h1]; exact derivesB_paren _ _ h
  | req r =>
    by_cases hu : ∀ a b, u ≠ .ann a b
    · rw [close_req_of_not_ann r u hu]
      split
      · next hacc => rw [derivesB_iff]; exact ⟨accepts_level (c := .req r) hu hacc, h⟩
      · exact derivesB_paren _ _ h
    · have : ∃ a b, u = .ann a b := by
        apply Classical.byContradiction
        intro hne; apply hu; intro a b hab; exact hne ⟨a, b, hab⟩
      obtain ⟨a, b, rfl⟩ := this
      rw [close_req_ann]
      split
      · next hc => cases hc; rw [derivesB_iff]; exact ⟨Nat.le_refl _, h⟩
      · exact derivesB_paren _ _ h

theorem elideAt_derivesB (tbl : Pos → Req) (htbl : Statement.TableOK tbl) :
    ∀ (t : T) (ch : Choice) (c : Ctx), derivesB c.level (elideAt tbl ch c t) = true := by
  have key : ∀ (p : Pos) (u : T), derivesB (Ctx.req (tbl p)).level u = true →
      own u ≤ gram p ∧ wf u = true := by
    intro p u h
    rw [derivesB_iff] at h
    exact ⟨Nat.le_trans h.1 (htbl p), h.2⟩
  intro t
  induction t with
  | paren t ih =>
    intro ch c
    simp only [elideAt]
    split
    · exact ih _ _
    · have := ih (ch.sub 0) (.req .annotated)
      rw [derivesB_iff] at this ⊢
      simp [own, wf, gram, Ctx.level, Req.level] at this ⊢
      exact this
  | leaf k => intro ch c; simp only [elideAt]; exact close_derivesB _ _ rfl
  | ctor t ih =>
    intro ch c
    simp only [elideAt]
    apply close_derivesB
    have := ih (ch.sub 0) .group
    rw [derivesB_iff] at this
    simp [wf, Ctx.level] at this ⊢
    exact this
  | box k t ih | block t ih | pre k t ih | proj t ih | dtor t ih | quant k t ih | ex t ih
  | tail k t ih | named k t ih =>
    intro ch c
    simp only [elideAt]
    apply close_derivesB
    simp only [wf, Bool.and_eq_true, Nat.ble_eq]
    exact key _ _ (ih _ _)
  | pair a b iha ihb | mtch a b iha ihb | app a b iha ihb | prod a b iha ihb | arrow a b iha ihb
  | doB a b iha ihb | letB k a b iha ihb | ann a b iha ihb =>
    intro ch c
    simp only [elideAt]
    apply close_derivesB
    simp only [wf, Bool.and_eq_true, Nat.ble_eq]
    exact ⟨key _ _ (iha _ _), key _ _ (ihb _ _)⟩
  | letT a b d iha ihb ihd =>
    intro ch c
    simp only [elideAt]
    apply close_derivesB
    simp only [wf, Bool.and_eq_true, Nat.ble_eq]
    exact ⟨⟨key _ _ (iha _ _), key _ _ (ihb _ _)⟩, key _ _ (ihd _ _)⟩

theorem elide_derives_table_pf : Statement.elide_derives_table :=
  fun tbl htbl ch c t => derives_of_derivesB (elideAt_derivesB tbl htbl t ch c)

theorem elide_total_pf : Statement.elide_total :=
  fun ch t => elide_derives_table_pf reqOf tableOK_reqOf ch (.req .any) t

theorem elide_derives_pf : Statement.elide_derives := fun ch t _ => elide_total_pf ch t

theorem elide_derives_ann_pf : Statement.elide_derives_ann :=
  fun ch t _ => elide_derives_table_pf reqOf tableOK_reqOf ch (.req .annotated) t

/-! ## Only parentheses change -/

theorem strip_close (c : Ctx) (u : T) : strip (close c u) = strip u := by
  cases c with
  | group =>
    rcases close_group u with ⟨h1, _⟩ | h1
    · rw [h1]
    · rw [h1]; rfl
  | req r =>
    by_cases hu : ∀ a b, u ≠ .ann a b
    · rw [close_req_of_not_ann r u hu]; split <;> rfl
    · have : ∃ a b, u = .ann a b := by
        apply Classical.byContradiction
        intro hne; apply hu; intro a b hab; exact hne ⟨a, b, hab⟩
      obtain ⟨a, b, rfl⟩ := this
      rw [close_req_ann]; split <;> rfl

theorem elide_strip_pf : Statement.elide_strip := by
  intro tbl ch c t
  induction t generalizing ch c with
  | paren t ih =>
    simp only [elideAt]
    split
    · simp [strip, ih]
    · simp [strip, ih]
  | _ => simp_all [elideAt, strip_close, strip]

/-! ## Exactness -/

theorem accepts_iff_derives_pf : Statement.accepts_iff_derives := by
  intro p t hwf hann
  rw [derives_iff_pf, derivesB_iff]
  constructor
  · intro h
    have := accepts_level (c := .req (reqOf p)) hann (by simpa [Ctx.accepts] using h)
    exact ⟨Nat.le_trans this (tableOK_reqOf p), hwf⟩
  · intro ⟨h, _⟩
    cases t <;> first
      | exact absurd rfl (hann _ _)
      | (cases p <;> simp_all [accepts, cls, own, gram, reqOf, Prec.toNat])

theorem isGroup_close_group (u : T) : isGroup (close .group u) = true := by
  cases u with
  | leaf k => cases k <;> rfl
  | _ => rfl

theorem ctor_argument_grouped_pf : Statement.ctor_argument_grouped := by
  intro tbl ch t
  cases t <;> first
    | exact isGroup_close_group _
    | (simp only [elideAt, Ctx.accepts, Bool.false_and]; rfl)

/-! ## A widened table is unsafe -/

theorem unsafe_when_widened_pf : Statement.unsafe_when_widened := by
  refine ⟨?_, .arrow (.paren (.arrow (.leaf .var) (.leaf .hole))) (.leaf .lit), by decide, by decide,
    .arrow (.leaf .var) (.arrow (.leaf .hole) (.leaf .lit)), by decide, by decide, by decide⟩
  intro h
  exact absurd (h .arrowL) (by decide)

end ZV.Grouping
