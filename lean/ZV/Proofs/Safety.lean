/-
C01: type safety of accepted ZCore programs on the model of the interpreter.

Typing of run-time configurations (semantic values, environments, stacks, the machine's current
computation including the run-time-only forms and the partially applied primitive spine), one-step
safety (`step_safe`), its lift to `run`, and the three statements of `ZV/Props/C01Statements.lean`.
Core Lean only.
-/
import ZV.Model.ZCore
import ZV.Model.ZCoreSpec
import ZV.Props.C01Statements
import ZV.Proofs.Host

set_option linter.unusedSimpArgs false

namespace ZV.ZCore
open ZV.Numeric ZV.Machine ZV.Host

/-! ### Products: flattening along the right spine -/

def isVcons : SemVal → Bool
  | .vcons _ _ => true
  | _ => false

theorem ipf_vcons_vcons (items i2 : List SemVal) (t2 : SemVal) :
    intoProductFields (.vcons items (.vcons i2 t2)) =
      (intoProductFields (.vcons i2 t2)).map (items ++ ·) := by
  rw [intoProductFields]

theorem ipf_vcons_other (items : List SemVal) (t : SemVal) (h : isVcons t = false) :
    intoProductFields (.vcons items t) = some (items ++ [t]) := by
  rw [intoProductFields]
  intro i2 t2 e; subst e; simp [isVcons] at h

/-- The fields of a product value end in a non-product. -/
theorem ipf_last : ∀ (v : SemVal) (l : List SemVal), intoProductFields v = some l →
    ∃ init lst, l = init ++ [lst] ∧ isVcons lst = false
  | .vcons items (.vcons i2 t2), l, h => by
    rw [ipf_vcons_vcons] at h
    cases h' : intoProductFields (.vcons i2 t2) with
    | none => rw [h'] at h; cases h
    | some l' =>
      rw [h'] at h
      obtain ⟨init, lst, rfl, hl⟩ := ipf_last _ _ h'
      refine ⟨items ++ init, lst, ?_, hl⟩
      simp at h; rw [← h, List.append_assoc]
  | .vcons items .triv, l, h => by
    rw [ipf_vcons_other _ _ rfl] at h; cases h; exact ⟨_, _, rfl, rfl⟩
  | .vcons items (.closure ..), l, h => by
    rw [ipf_vcons_other _ _ rfl] at h; cases h; exact ⟨_, _, rfl, rfl⟩
  | .vcons items (.thunk ..), l, h => by
    rw [ipf_vcons_other _ _ rfl] at h; cases h; exact ⟨_, _, rfl, rfl⟩
  | .vcons items (.ctor ..), l, h => by
    rw [ipf_vcons_other _ _ rfl] at h; cases h; exact ⟨_, _, rfl, rfl⟩
  | .vcons items (.lit ..), l, h => by
    rw [ipf_vcons_other _ _ rfl] at h; cases h; exact ⟨_, _, rfl, rfl⟩
  | .vcons items (.bytes ..), l, h => by
    rw [ipf_vcons_other _ _ rfl] at h; cases h; exact ⟨_, _, rfl, rfl⟩
  | .vcons items (.reader ..), l, h => by
    rw [ipf_vcons_other _ _ rfl] at h; cases h; exact ⟨_, _, rfl, rfl⟩
  | .vcons items (.writer ..), l, h => by
    rw [ipf_vcons_other _ _ rfl] at h; cases h; exact ⟨_, _, rfl, rfl⟩
  | .triv, _, h | .closure .., _, h | .thunk .., _, h | .ctor .., _, h | .lit .., _, h
  | .bytes .., _, h | .reader .., _, h | .writer .., _, h => by simp [intoProductFields] at h

theorem fpf_snoc (init : List SemVal) (lst : SemVal) (hne : init ≠ []) :
    fromProductFields (init ++ [lst]) = .vcons init lst := by
  cases init with
  | nil => exact absurd rfl hne
  | cons a as =>
    unfold fromProductFields
    split
    · simp at *
    · next h => simp at h
    · rw [List.dropLast_concat, List.getLast?_concat]; rfl

/-! ### Typing of run-time values, environments, stacks and computations -/

mutual
  /-- A semantic value has a value type. Products are typed through their flattened fields: the
  first field has the first component's type, the value rebuilt from the remaining fields the
  second component's. -/
  inductive VTyped (Δ : Sig) : SemVal → VTy → Prop
    | triv : VTyped Δ .triv .unit
    | int (t : IntTy) (x : BitVec t.width) : VTyped Δ (.lit (.int t x)) (.int t)
    | str (s : List Char) : VTyped Δ (.lit (.str s)) .str
    | ctor {d k a v} : Δ.ctor? d k = some a → VTyped Δ v a → VTyped Δ (.ctor k v) (.data d)
    | thunk {body env Γ m b} : body = eraseC m → EnvTyped Δ env Γ → HasTyC Δ Γ m b →
        VTyped Δ (.thunk body env) (.thk b)
    | prod {items tail f fs a b} : intoProductFields (.vcons items tail) = some (f :: fs) → fs ≠ [] →
        VTyped Δ f a → VTyped Δ (fromProductFields fs) b → VTyped Δ (.vcons items tail) (.prod a b)
  /-- The environment binds the variables of the context, in the same order, to typed values. -/
  inductive EnvTyped (Δ : Sig) : Env → Ctx → Prop
    | nil : EnvTyped Δ [] []
    | cons {x v a env Γ} : VTyped Δ v a → EnvTyped Δ env Γ → EnvTyped Δ ((x, v) :: env) ((x, a) :: Γ)
end

/-- The type of the thunk behind a primitive role, as far as ZCore uses it. -/
inductive PrimTy : String → Nat → CTy → Prop
  | arith (t : IntTy) (op : ArithOp) :
      PrimTy (t.sourceName ++ "_" ++ op.name) 2 (.arr (.int t) (.arr (.int t) (.ret (.int t))))
  | cmp (t : IntTy) (op : CmpOp) (res : CTy) :
      PrimTy (t.sourceName ++ "_" ++ op.name) 4
        (.arr (.int t) (.arr (.int t) (.arr (.thk res) (.arr (.thk res) res))))
  | toStr (t : IntTy) : PrimTy (t.sourceName ++ "_to_string") 1 (.arr (.int t) (.ret .str))
  | strAppend : PrimTy "str_append" 2 (.arr .str (.arr .str (.ret .str)))
  | writeLine : PrimTy "write_line" 2 (.arr .str (.arr (.thk .os) .os))
  | exit : PrimTy "exit" 1 (.arr (.int .i64) .os)

/-- The machine's current computation, in its environment, has a computation type. -/
inductive MTyped (Δ : Sig) : Env → Comp → CTy → Prop
  | term {env Γ m b} : EnvTyped Δ env Γ → HasTyC Δ Γ m b → MTyped Δ env (eraseC m) b
  | vapp {env Γ f v a b} : MTyped Δ env f (.arr a b) → EnvTyped Δ env Γ → HasTyV Δ Γ v a →
      MTyped Δ env (.vapp f (eraseV v)) b
  | forcePrim {env role arity b} : PrimTy role arity b → MTyped Δ env (.force (primThunk role arity)) b
  | prim {env role arity b} : PrimTy role arity b → MTyped Δ env (.prim role arity) b
  | retSem {env v a} : VTyped Δ v a → MTyped Δ env (.retSem v) (.ret a)
  | callSem {env k b} : VTyped Δ k (.thk b) → MTyped Δ env (.callSem k []) b

/-- The stack accepts a computation of the given type, and the whole configuration is an `OS`
program: the empty stack accepts `OS` only. -/
inductive StackTyped (Δ : Sig) : List Frame → CTy → Prop
  | nil : StackTyped Δ [] .os
  | kont {env Γ x a n b rest} : EnvTyped Δ env Γ → HasTyC Δ ((x, a) :: Γ) n b → StackTyped Δ rest b →
      StackTyped Δ (.kont (eraseC n) env (.var x) :: rest) (.ret a)
  | app {v a b rest} : VTyped Δ v a → StackTyped Δ rest b → StackTyped Δ (.app v :: rest) (.arr a b)
  | dtor {c k b rest} : Δ.dtor? c k = some b → StackTyped Δ rest b →
      StackTyped Δ (.dtor k :: rest) (.codata c)

/-- Well-typed configurations. -/
def WT (Δ : Sig) (c : Comp) (st : State) : Prop :=
  ∃ b, MTyped Δ st.env c b ∧ StackTyped Δ st.stack b


/-! ### Values -/

theorem EnvTyped.lookup {Δ : Sig} {x : Nat} {a : VTy} : ∀ {env : Env} {Γ : Ctx}, EnvTyped Δ env Γ →
    Ctx.get? Γ x = some a → ∃ v, Env.get? env x = some v ∧ VTyped Δ v a
  | _, [], h, hx => by simp [Ctx.get?] at hx
  | env, (y, a') :: Γ, h, hx => by
    cases h with
    | @cons _ v _ env _ hv htl =>
      unfold Ctx.get? at hx
      unfold Env.get?
      rw [List.find?_cons] at hx ⊢
      by_cases hy : (y == x) = true
      · simp only [hy] at hx ⊢
        simp only [Option.map_some, Option.some.injEq] at hx
        subst hx
        exact ⟨v, rfl, hv⟩
      · simp only [hy] at hx ⊢
        exact EnvTyped.lookup htl hx

/-- A pair of typed values is a typed product value (up to flattening). -/
theorem VTyped.pair {Δ : Sig} {va vb : SemVal} {ta tb : VTy} (ha : VTyped Δ va ta) (hb : VTyped Δ vb tb) :
    VTyped Δ (.vcons [va] vb) (.prod ta tb) := by
  cases hvb : isVcons vb with
  | false =>
    exact .prod (f := va) (fs := [vb]) (ipf_vcons_other _ _ hvb) (by simp) ha hb
  | true =>
    cases hb with
    | prod hf hne hf1 hf2 =>
      rename_i items tail f fs a b
      obtain ⟨init, lst, hl, hlst⟩ := ipf_last _ _ hf
      have hinit : init ≠ [] := by
        intro e; subst e
        cases fs with
        | nil => exact hne rfl
        | cons g gs => simp at hl
      refine .prod (f := va) (fs := f :: fs) ?_ (by simp) ha ?_
      · rw [ipf_vcons_vcons, hf]; rfl
      · rw [hl, fpf_snoc _ _ hinit]
        refine .prod (f := f) (fs := fs) ?_ hne hf1 hf2
        rw [ipf_vcons_other _ _ hlst, hl]
    | triv | int | str | ctor | thunk => simp [isVcons] at hvb

theorem evalVs_single (fuel : Nat) (env : Env) (v : Val) :
    evalVs fuel env [v] = (evalV fuel env v).bind fun x => .ok [x] := by
  rw [evalVs, evalVs]
  cases evalV fuel env v <;> rfl

/-- Erased values evaluate, with any fuel above their size, to a value of their type. -/
theorem evalV_erase {Δ : Sig} {env : Env} {Γ : Ctx} (he : EnvTyped Δ env Γ) :
    ∀ (v : V) (a : VTy), HasTyV Δ Γ v a → ∀ fuel, (eraseV v).size < fuel →
      ∃ sv, evalV fuel env (eraseV v) = .ok sv ∧ VTyped Δ sv a
  | .var x, a, h, fuel, hf => by
    cases h with
    | var hx =>
      obtain ⟨sv, h1, h2⟩ := he.lookup hx
      cases fuel with
      | zero => cases hf
      | succ n => exact ⟨sv, by simp [eraseV, evalV, h1], h2⟩
  | .unit, a, h, fuel, hf => by
    cases h
    cases fuel with
    | zero => cases hf
    | succ n => exact ⟨.triv, by simp [eraseV, evalV], .triv⟩
  | .int t x, a, h, fuel, hf => by
    cases h
    cases fuel with
    | zero => cases hf
    | succ n => exact ⟨_, by simp [eraseV, evalV], .int t x⟩
  | .str s, a, h, fuel, hf => by
    cases h
    cases fuel with
    | zero => cases hf
    | succ n => exact ⟨_, by simp [eraseV, evalV], .str s⟩
  | .pair p q, a, h, fuel, hf => by
    cases h with
    | pair hp hq =>
      cases fuel with
      | zero => cases hf
      | succ n =>
        simp only [eraseV, Val.size, Val.sizes] at hf
        obtain ⟨sp, h1, h2⟩ := evalV_erase he p _ hp n (by omega)
        obtain ⟨sq, h3, h4⟩ := evalV_erase he q _ hq n (by omega)
        refine ⟨.vcons [sp] sq, ?_, VTyped.pair h2 h4⟩
        simp [eraseV, evalV, evalVs_single, h1, h3, bind, Except.bind]
  | .ctor d k arg, a, h, fuel, hf => by
    cases h with
    | ctor hk harg =>
      cases fuel with
      | zero => cases hf
      | succ n =>
        simp only [eraseV, Val.size] at hf
        obtain ⟨sp, h1, h2⟩ := evalV_erase he arg _ harg n (by omega)
        refine ⟨.ctor k sp, ?_, .ctor hk h2⟩
        simp [eraseV, evalV, h1, bind, Except.bind]
  | .thunk m b, a, h, fuel, hf => by
    cases h with
    | thunk hm =>
      cases fuel with
      | zero => cases hf
      | succ n =>
        exact ⟨.thunk (eraseC m) env, by simp [eraseV, evalV], .thunk rfl he hm⟩

theorem valFuel_gt (v : Val) : v.size < valFuel v := by
  unfold valFuel; omega

/-- What `step`'s `value` helper finds for an erased, typed value. -/
theorem evalV_valFuel {Δ : Sig} {env : Env} {Γ : Ctx} (he : EnvTyped Δ env Γ) {v : V} {a : VTy}
    (h : HasTyV Δ Γ v a) : ∃ sv, evalV (valFuel (eraseV v)) env (eraseV v) = .ok sv ∧ VTyped Δ sv a :=
  evalV_erase he v a h _ (valFuel_gt _)


/-! ### The six primitive forms on well-classified arguments -/

def intOps : List String := ["add", "sub", "mul", "div", "mod", "eq", "lt", "gt", "to_string"]

/-- The role `<int type>_<op>` is no special arm of `hostOp`, splits at its first underscore into
the type's name and the operation, and the type's name parses back. -/
def roleOk (t : IntTy) (op : String) : Bool :=
  ZV.Host.armIndex (t.sourceName ++ "_" ++ op) == 0 &&
  (match splitRole (t.sourceName ++ "_" ++ op) with
   | ty :: parts => ty == t.sourceName && "_".intercalate parts == op
   | [] => false) && (parseIntTy t.sourceName == some t)

theorem roleOk_all : ∀ t ∈ IntTy.all, ∀ op ∈ intOps, roleOk t op = true := by
  decide +kernel

theorem hostOp_int (t : IntTy) (op : String) (hop : op ∈ intOps) (args : List HV) (σ : Host) :
    hostOp (t.sourceName ++ "_" ++ op) args σ = (σ, intOp t op args) := by
  have ht : t ∈ IntTy.all := by cases t <;> decide
  have h := roleOk_all t ht op hop
  unfold roleOk at h
  simp only [Bool.and_eq_true, beq_iff_eq] at h
  obtain ⟨⟨h0, h1⟩, h2⟩ := h
  split at h1
  · next ty parts hsp =>
    simp only [Bool.and_eq_true, beq_iff_eq] at h1
    obtain ⟨rfl, hi⟩ := h1
    have hsplit : (t.sourceName ++ "_" ++ op).splitOn "_" = t.sourceName :: parts := by
      rw [splitOn_underscore]; exact hsp
    rw [hostOp_numeric h0, numericOp_int hsplit h2, hi]
  · cases h1

theorem hostOp_arith (t : IntTy) (op : ArithOp) (x y : BitVec t.width) (σ : Host) :
    ∃ o, hostOp (t.sourceName ++ "_" ++ op.name) [.int t x, .int t y] σ = (σ, o) ∧
      ((∃ r, o = .ret (.int t r)) ∨ o = .trap) := by
  refine ⟨_, hostOp_int t op.name (by cases op <;> decide) _ σ, ?_⟩
  rw [intOp_eq]
  have key : ∀ o : AOp, (∃ r, intArith t o [.int t x, .int t y] = .ret (.int t r)) ∨
      intArith t o [.int t x, .int t y] = .trap := by
    intro o
    simp only [intArith, dite_true]
    cases Numeric.arith t o x y with
    | ok r => exact .inl ⟨r, rfl⟩
    | trap => exact .inr rfl
  cases op <;> exact key _

theorem hostOp_cmp (t : IntTy) (op : CmpOp) (x y : BitVec t.width) (i j : Nat) (σ : Host) :
    ∃ o, hostOp (t.sourceName ++ "_" ++ op.name) [.int t x, .int t y, .thunk i, .thunk j] σ = (σ, o) ∧
      (o = .call 2 [] ∨ o = .call 3 []) := by
  refine ⟨_, hostOp_int t op.name (by cases op <;> decide) _ σ, ?_⟩
  rw [intOp_eq]
  have key : ∀ o : COp, intBranch t o [.int t x, .int t y, .thunk i, .thunk j] = .call 2 [] ∨
      intBranch t o [.int t x, .int t y, .thunk i, .thunk j] = .call 3 [] := by
    intro o
    simp only [intBranch, dite_true]
    cases Numeric.cmp t o x y
    · exact .inr rfl
    · exact .inl rfl
  cases op <;> exact key _

theorem hostOp_toStr (t : IntTy) (x : BitVec t.width) (σ : Host) :
    hostOp (t.sourceName ++ "_to_string") [.int t x] σ = (σ, .ret (.str (Numeric.toStr t x))) := by
  have e : t.sourceName ++ "_to_string" = t.sourceName ++ "_" ++ "to_string" := by
    cases t <;> decide
  rw [e, hostOp_int t "to_string" (by decide), intOp_eq]
  simp [intToStr]

theorem hostOp_strAppend (a b : List Char) (σ : Host) :
    hostOp "str_append" [.str a, .str b] σ = (σ, .ret (.str (a ++ b))) := rfl

theorem hostOp_writeLine (s : List Char) (i : Nat) (σ : Host) :
    hostOp "write_line" [.str s, .thunk i] σ =
      ({ σ with output := σ.output ++ encodeUtf8 s ++ [10] }, .call 1 []) := rfl

theorem hostOp_exit (n : BitVec IntTy.i64.width) (σ : Host) :
    hostOp "exit" [.int .i64 n] σ = (σ, .exit ((BitVec.ofInt 32 (valI64 n)).toInt)) := rfl


/-! ### One-step safety -/

/-- How an `OS` configuration may end. -/
def Good (o : Outcome) : Prop := (∃ code, o = .exit code) ∨ o = .trap

/-- A step result is safe: the next configuration is well typed, or the run ended well. -/
def Safe (Δ : Sig) : StepResult → Prop
  | .next c st => WT Δ c st
  | .done o _ => Good o

variable {Δ : Sig}

theorem safe_retSem {env : Env} {stack : List Frame} {host : Host} {um : Bool} {sv : SemVal} {a : VTy}
    (hv : VTyped Δ sv a) (hs : StackTyped Δ stack (.ret a)) :
    Safe Δ (step (.retSem sv) ⟨env, stack, host, um⟩) := by
  cases hs with
  | kont he' hn hrest =>
    simp only [step, assignExpect, assign, Env.bind, Safe]
    exact ⟨_, .term (.cons hv he') hn, hrest⟩

theorem safe_vapp {env : Env} {stack : List Frame} {host : Host} {um : Bool} {Γ : Ctx} {f : Comp} {v : V}
    {a : VTy} {b : CTy} (hf : MTyped Δ env f (.arr a b)) (he : EnvTyped Δ env Γ) (hv : HasTyV Δ Γ v a)
    (hs : StackTyped Δ stack b) :
    Safe Δ (step (.vapp f (eraseV v)) ⟨env, stack, host, um⟩) := by
  obtain ⟨sv, h1, h2⟩ := evalV_valFuel he hv
  simp only [step, h1, Safe]
  exact ⟨_, hf, .app h2 hs⟩

theorem safe_callSem {env : Env} {stack : List Frame} {host : Host} {um : Bool} {k : SemVal} {b : CTy}
    (hk : VTyped Δ k (.thk b)) (hs : StackTyped Δ stack b) :
    Safe Δ (step (.callSem k []) ⟨env, stack, host, um⟩) := by
  cases hk with
  | thunk hb he hm =>
    subst hb
    simp only [step, List.map_nil, List.nil_append, Safe]
    exact ⟨_, .term he hm, hs⟩

theorem ctor_mem {d : Nat} {k : String} {a : VTy} {ctors : List (String × VTy)}
    (hd : Δ.datas[d]? = some ctors) (hk : Δ.ctor? d k = some a) : (k, a) ∈ ctors := by
  unfold Sig.ctor? at hk
  rw [hd] at hk
  simp only [Option.bind_some, Option.map_eq_some_iff] at hk
  obtain ⟨p, hp, rfl⟩ := hk
  have h1 := List.mem_of_find?_eq_some hp
  have h2 := List.find?_some hp
  simp only [beq_iff_eq] at h2
  obtain ⟨p1, p2⟩ := p
  simp only at h2
  subst h2
  exact h1

theorem exists_of_filter_length_one {α : Type} {p : α → Bool} {l : List α}
    (h : (l.filter p).length = 1) : ∃ x ∈ l, p x = true := by
  cases hf : l.filter p with
  | nil => rw [hf] at h; cases h
  | cons x xs =>
    have : x ∈ l.filter p := by rw [hf]; exact List.mem_cons_self
    rw [List.mem_filter] at this
    exact ⟨x, this.1, this.2⟩

/-- The arm search of `match` finds the arm of the scrutinee's constructor. -/
theorem safe_go {env : Env} {Γ : Ctx} {st : State} {d : Nat} {k' : String} {a : VTy} {body : SemVal}
    {b : CTy} (hk : Δ.ctor? d k' = some a) (hb : VTyped Δ body a) (he : EnvTyped Δ env Γ)
    (hs : StackTyped Δ st.stack b) :
    ∀ arms : List (String × Nat × C), ArmsTy Δ Γ d arms b → (∃ arm ∈ arms, arm.1 = k') →
      Safe Δ (step.go st (.ctor k' body) env (eraseArms arms))
  | [], _, hex => by
    obtain ⟨arm, hm, _⟩ := hex
    cases hm
  | (k, x, m) :: rest, hty, hex => by
    cases hty with
    | cons hka hm hrest =>
      simp only [eraseArms, step.go, assign]
      by_cases hkk : k = k'
      · subst hkk
        rw [hk] at hka
        cases hka
        simp only [if_true, Env.bind, Safe]
        exact ⟨_, .term (.cons hb he) hm, hs⟩
      · simp only [hkk, if_false]
        refine safe_go hk hb he hs rest hrest ?_
        obtain ⟨arm, hmem, harm⟩ := hex
        cases hmem with
        | head => exact absurd harm hkk
        | tail _ h => exact ⟨arm, h, harm⟩

/-- The arm lookup of `comatch` finds the arm of the destructor on the stack. -/
theorem coarm_find {Γ : Ctx} {c : Nat} {k : String} {b : CTy} (hk : Δ.dtor? c k = some b) :
    ∀ arms : List (String × C), CoArmsTy Δ Γ c arms → (∃ arm ∈ arms, arm.1 = k) →
      ∃ k' m, (eraseCoArms arms).find? (·.1 == k) = some (k', eraseC m) ∧ HasTyC Δ Γ m b
  | [], _, hex => by
    obtain ⟨arm, hm, _⟩ := hex
    cases hm
  | (k₁, m) :: rest, hty, hex => by
    cases hty with
    | cons hkb hm hrest =>
      simp only [eraseCoArms, List.find?_cons]
      by_cases hkk : k₁ = k
      · subst hkk
        rw [hk] at hkb
        cases hkb
        simp only [beq_self_eq_true]
        exact ⟨_, _, rfl, hm⟩
      · have : (k₁ == k) = false := by simpa using hkk
        simp only [this]
        refine coarm_find hk rest hrest ?_
        obtain ⟨arm, hmem, harm⟩ := hex
        cases hmem with
        | head => exact absurd harm hkk
        | tail _ h => exact ⟨arm, h, harm⟩

theorem dtor_mem {c : Nat} {k : String} {b : CTy} {dtors : List (String × CTy)}
    (hd : Δ.codatas[c]? = some dtors) (hk : Δ.dtor? c k = some b) : (k, b) ∈ dtors := by
  unfold Sig.dtor? at hk
  rw [hd] at hk
  simp only [Option.bind_some, Option.map_eq_some_iff] at hk
  obtain ⟨p, hp, rfl⟩ := hk
  have h1 := List.mem_of_find?_eq_some hp
  have h2 := List.find?_some hp
  simp only [beq_iff_eq] at h2
  obtain ⟨p1, p2⟩ := p
  simp only at h2
  subst h2
  exact h1

/-- `let (x, y) = v`: the pattern binds the first field and the value rebuilt from the rest. -/
theorem assign_pair {x y : Nat} {v : SemVal} {ta tb : VTy} {env : Env} (hv : VTyped Δ v (.prod ta tb)) :
    ∃ f r, assign (.vcons [.var x] (.var y)) v env = .ok ((y, r) :: (x, f) :: env) ∧
      VTyped Δ f ta ∧ VTyped Δ r tb := by
  cases hv with
  | prod hf hne h1 h2 =>
    rename_i items tail f fs
    refine ⟨f, fromProductFields fs, ?_, h1, h2⟩
    cases fs with
    | nil => exact absurd rfl hne
    | cons g gs =>
      simp [assign, hf, assignZip, Env.bind]

/-- The primitive pops well-classified arguments: the host operation answers within its type. -/
theorem safe_prim {env : Env} {stack : List Frame} {host : Host} {um : Bool} {role : String} {arity : Nat}
    {b : CTy} (hp : PrimTy role arity b) (hs : StackTyped Δ stack b) :
    Safe Δ (step (.prim role arity) ⟨env, stack, host, um⟩) := by
  cases hp with
  | arith t op =>
    cases hs with
    | app h1 hs =>
    cases hs with
    | app h2 hs =>
    cases h1 with
    | int _ x =>
    cases h2 with
    | int _ y =>
    obtain ⟨o, ho, hcase⟩ := hostOp_arith t op x y host
    simp only [step, step.pop, List.reverse_cons, List.reverse_nil, List.nil_append, List.cons_append,
      argsToHV, toHV, ho]
    rcases hcase with ⟨r, rfl⟩ | rfl
    · simp only [Safe, ofHV]
      exact ⟨_, .retSem (.int t r), hs⟩
    · exact .inr rfl
  | cmp t op res =>
    cases hs with
    | app h1 hs =>
    cases hs with
    | app h2 hs =>
    cases hs with
    | app h3 hs =>
    cases hs with
    | app h4 hs =>
    cases h1 with
    | int _ x =>
    cases h2 with
    | int _ y =>
    cases h3 with
    | thunk e3 he3 hm3 =>
    cases h4 with
    | thunk e4 he4 hm4 =>
    obtain ⟨o, ho, hcase⟩ := hostOp_cmp t op x y 2 3 host
    simp only [step, step.pop, List.reverse_cons, List.reverse_nil, List.nil_append, List.cons_append,
      argsToHV, toHV, ho]
    rcases hcase with rfl | rfl
    · simp only [Safe, List.map_nil]
      exact ⟨_, .callSem (.thunk e3 he3 hm3), hs⟩
    · simp only [Safe, List.map_nil]
      exact ⟨_, .callSem (.thunk e4 he4 hm4), hs⟩
  | toStr t =>
    cases hs with
    | app h1 hs =>
    cases h1 with
    | int _ x =>
    simp only [step, step.pop, List.reverse_cons, List.reverse_nil, List.nil_append, List.cons_append,
      argsToHV, toHV, hostOp_toStr, Safe, ofHV]
    exact ⟨_, .retSem (.str _), hs⟩
  | strAppend =>
    cases hs with
    | app h1 hs =>
    cases hs with
    | app h2 hs =>
    cases h1 with
    | str x =>
    cases h2 with
    | str y =>
    simp only [step, step.pop, List.reverse_cons, List.reverse_nil, List.nil_append, List.cons_append,
      argsToHV, toHV, hostOp_strAppend, Safe, ofHV]
    exact ⟨_, .retSem (.str _), hs⟩
  | writeLine =>
    cases hs with
    | app h1 hs =>
    cases hs with
    | app h2 hs =>
    cases h1 with
    | str x =>
    cases h2 with
    | thunk e2 he2 hm2 =>
    simp only [step, step.pop, List.reverse_cons, List.reverse_nil, List.nil_append, List.cons_append,
      argsToHV, toHV, hostOp_writeLine, Safe, List.map_nil]
    exact ⟨_, .callSem (.thunk e2 he2 hm2), hs⟩
  | exit =>
    cases hs with
    | app h1 hs =>
    cases h1 with
    | int _ x =>
    simp only [step, step.pop, List.reverse_cons, List.reverse_nil, List.nil_append, List.cons_append,
      argsToHV, toHV, hostOp_exit, Safe]
    exact .inl ⟨_, rfl⟩


/-- **One-step safety**: a well-typed configuration steps to a well-typed configuration or ends
with an exit code or the arithmetic trap; it is never stuck and never returns. -/
theorem step_safe {c : Comp} {st : State} (h : WT Δ c st) : Safe Δ (step c st) := by
  obtain ⟨env, stack, host, um⟩ := st
  obtain ⟨b, hm, hs⟩ := h
  simp only at hm hs
  cases hm with
  | vapp hf he hv => exact safe_vapp hf he hv hs
  | forcePrim hp =>
    simp only [step, primThunk, valFuel, Val.size, evalV, Safe]
    have : max vmFuel (1 + 1) = (max vmFuel (1 + 1) - 1) + 1 := by unfold vmFuel; omega
    rw [this]
    simp only [evalV]
    exact ⟨_, .prim hp, hs⟩
  | prim hp => exact safe_prim hp hs
  | retSem hv => exact safe_retSem hv hs
  | callSem hk => exact safe_callSem hk hs
  | term he hty =>
    cases hty with
    | ret hv =>
      obtain ⟨sv, h1, h2⟩ := evalV_valFuel he hv
      have := safe_retSem (env := env) (host := host) (um := um) h2 hs
      simp only [step, eraseC, h1] at this ⊢
      exact this
    | bind hm hn =>
      simp only [eraseC, step, Safe]
      exact ⟨_, .term he hm, .kont he hn hs⟩
    | clet hv hm =>
      obtain ⟨sv, h1, h2⟩ := evalV_valFuel he hv
      simp only [eraseC, step, h1, assignExpect, assign, Env.bind, Safe]
      exact ⟨_, .term (.cons h2 he) hm, hs⟩
    | @letPair _ x y v ta tb m _ hv hm =>
      obtain ⟨sv, h1, h2⟩ := evalV_valFuel he hv
      obtain ⟨f, r, h3, h4, h5⟩ := assign_pair (x := x) (y := y) (env := env) h2
      simp only [eraseC, step, h1, assignExpect, h3, Safe]
      exact ⟨_, .term (.cons h5 (.cons h4 he)) hm, hs⟩
    | fn hm =>
      cases hs with
      | app hv hrest =>
        simp only [eraseC, step, assignExpect, assign, Env.bind, Safe]
        exact ⟨_, .term (.cons hv he) hm, hrest⟩
    | app hm hv => exact safe_vapp (.term he hm) he hv hs
    | force hv =>
      obtain ⟨sv, h1, h2⟩ := evalV_valFuel he hv
      cases h2 with
      | thunk hb he' hm' =>
        subst hb
        simp only [eraseC, step, h1, Safe]
        exact ⟨_, .term he' hm', hs⟩
    | fix hm =>
      simp only [eraseC, step, assignExpect, assign, Env.bind, Safe]
      exact ⟨_, .term (.cons (.thunk (m := .fix _ _ _) rfl he (.fix hm)) he) hm, hs⟩
    | case hv hd hcov harms =>
      obtain ⟨sv, h1, h2⟩ := evalV_valFuel he hv
      cases h2 with
      | ctor hk hbody =>
        simp only [eraseC, step, h1]
        refine safe_go hk hbody he hs _ harms ?_
        have := exists_of_filter_length_one (hcov _ _ (ctor_mem hd hk))
        obtain ⟨arm, hmem, harm⟩ := this
        exact ⟨arm, hmem, by simpa using harm⟩
    | comatch hd hcov harms =>
      cases hs with
      | dtor hk hrest =>
        have := exists_of_filter_length_one (hcov _ _ (dtor_mem hd hk))
        obtain ⟨arm, hmem, harm⟩ := this
        obtain ⟨k', m, hfind, hm⟩ := coarm_find hk _ harms ⟨arm, hmem, by simpa using harm⟩
        simp only [eraseC, step, hfind, Safe]
        exact ⟨_, .term he hm, hrest⟩
    | dtor hm hk =>
      simp only [eraseC, step, Safe]
      exact ⟨_, .term he hm, .dtor hk hs⟩
    | arith t op ha hb =>
      exact safe_vapp (.vapp (.forcePrim (.arith t op)) he ha) he hb hs
    | cmp t op ha hb hy hn =>
      exact safe_vapp (v := .thunk _ _)
        (.vapp (v := .thunk _ _) (.vapp (.vapp (.forcePrim (.cmp t op _)) he ha) he hb) he (.thunk hy))
        he (.thunk hn) hs
    | toStr t ha => exact safe_vapp (.forcePrim (.toStr t)) he ha hs
    | strAppend ha hb => exact safe_vapp (.vapp (.forcePrim .strAppend) he ha) he hb hs
    | writeLine ha hk =>
      exact safe_vapp (v := .thunk _ _) (.vapp (.forcePrim .writeLine) he ha) he (.thunk hk) hs
    | exit ha => exact safe_vapp (.forcePrim .exit) he ha hs


/-! ### Runs -/

/-- A run from a well-typed configuration, if it finishes, finishes well. -/
theorem runFrom_safe : ∀ (n : Nat) (c : Comp) (st : State) (k : Nat) (o : Outcome) (st' : State) (k' : Nat),
    WT Δ c st → runFrom n c st k = (some o, st', k') → Good o
  | 0, _, _, _, _, _, _, _, h => by simp [runFrom] at h
  | n + 1, c, st, k, o, st', k', hwt, h => by
    have hsafe := step_safe hwt
    unfold runFrom at h
    cases hstep : step c st with
    | next c₁ st₁ =>
      rw [hstep] at h hsafe
      exact runFrom_safe n c₁ st₁ (k + 1) o st' k' hsafe h
    | done o₁ st₁ =>
      rw [hstep] at h hsafe
      simp only [Prod.mk.injEq, Option.some.injEq] at h
      rw [← h.1]
      exact hsafe

theorem checkProgram_ok {body : C} (h : checkProgram Δ body = .ok ()) : inferC Δ [] body = .ok .os := by
  unfold checkProgram at h
  split at h
  · assumption
  · cases h
  · cases h

/-- The initial configuration of a derivable `OS` program is well typed. -/
theorem WT_init {body : C} (h : HasTyC Δ [] body .os) (host : Host) :
    WT Δ (eraseC body) { host := host } :=
  ⟨.os, .term .nil h, .nil⟩

/-- Derivable `OS` programs, if they finish, finish with an exit code or the arithmetic trap. -/
theorem typed_program_good {body : C} (h : HasTyC Δ [] body .os) (n : Nat) (stdin : Host.Bytes)
    (argv : List (List Char)) (o : Outcome) (st : State) (k : Nat)
    (hrun : runProgram n body stdin argv = (some o, st, k)) : Good o :=
  runFrom_safe n _ _ 0 o st k (WT_init h _) hrun

theorem Good.not_stuck {o : Outcome} (h : Good o) (s : Stuck) : o ≠ .stuck s := by
  rcases h with ⟨code, rfl⟩ | rfl <;> intro e <;> cases e

/-- Safety, given checker soundness. -/
theorem accepted_never_stuck_of_sound (hs : ZV.Props.C01.Statement.check_sound) :
    ZV.Props.C01.Statement.accepted_never_stuck := by
  intro Δ body hwf hchk n stdin argv o st k hrun s
  exact (typed_program_good (hs Δ [] body .os hwf (checkProgram_ok hchk)) n stdin argv o st k hrun).not_stuck s

theorem os_program_exits_of_sound (hs : ZV.Props.C01.Statement.check_sound) :
    ZV.Props.C01.Statement.os_program_exits := by
  intro Δ body hwf hchk n stdin argv o st k hrun
  rcases typed_program_good (hs Δ [] body .os hwf (checkProgram_ok hchk)) n stdin argv o st k hrun with
    ⟨code, rfl⟩ | rfl
  · exact .inl ⟨code, rfl⟩
  · exact .inr (.inl rfl)


/-! ### Soundness of the checker for the declared rules -/

mutual
  theorem VTy.eq_of_beq_s : ∀ {a b : VTy}, VTy.beq a b = true → a = b
    | .unit, .unit, _ => rfl
    | .int t, .int t', h => by simp only [VTy.beq, beq_iff_eq] at h; rw [h]
    | .str, .str, _ => rfl
    | .prod a b, .prod a' b', h => by
      simp only [VTy.beq, Bool.and_eq_true] at h; rw [VTy.eq_of_beq_s h.1, VTy.eq_of_beq_s h.2]
    | .data d, .data d', h => by simp only [VTy.beq, beq_iff_eq] at h; rw [h]
    | .thk b, .thk b', h => by simp only [VTy.beq] at h; rw [CTy.eq_of_beq_s h]
    | .unit, .int _, h | .unit, .str, h | .unit, .prod _ _, h | .unit, .data _, h | .unit, .thk _, h
    | .int _, .unit, h | .int _, .str, h | .int _, .prod _ _, h | .int _, .data _, h | .int _, .thk _, h
    | .str, .unit, h | .str, .int _, h | .str, .prod _ _, h | .str, .data _, h | .str, .thk _, h
    | .prod _ _, .unit, h | .prod _ _, .int _, h | .prod _ _, .str, h | .prod _ _, .data _, h | .prod _ _, .thk _, h
    | .data _, .unit, h | .data _, .int _, h | .data _, .str, h | .data _, .prod _ _, h | .data _, .thk _, h
    | .thk _, .unit, h | .thk _, .int _, h | .thk _, .str, h | .thk _, .prod _ _, h | .thk _, .data _, h => by
      simp [VTy.beq] at h
  theorem CTy.eq_of_beq_s : ∀ {a b : CTy}, CTy.beq a b = true → a = b
    | .ret a, .ret a', h => by simp only [CTy.beq] at h; rw [VTy.eq_of_beq_s h]
    | .arr a b, .arr a' b', h => by
      simp only [CTy.beq, Bool.and_eq_true] at h; rw [VTy.eq_of_beq_s h.1, CTy.eq_of_beq_s h.2]
    | .codata c, .codata c', h => by simp only [CTy.beq, beq_iff_eq] at h; rw [h]
    | .os, .os, _ => rfl
    | .ret _, .arr _ _, h | .ret _, .codata _, h | .ret _, .os, h
    | .arr _ _, .ret _, h | .arr _ _, .codata _, h | .arr _ _, .os, h
    | .codata _, .ret _, h | .codata _, .arr _ _, h | .codata _, .os, h
    | .os, .ret _, h | .os, .arr _ _, h | .os, .codata _, h => by simp [CTy.beq] at h
end

theorem VTy.eq_of_beq_s' {a b : VTy} (h : (a == b) = true) : a = b := VTy.eq_of_beq_s h
theorem CTy.eq_of_beq_s' {a b : CTy} (h : (a == b) = true) : a = b := CTy.eq_of_beq_s h

theorem bind_ok {ε α β : Type} {x : Except ε α} {f : α → Except ε β} {b : β}
    (h : (x >>= f) = .ok b) : ∃ a, x = .ok a ∧ f a = .ok b := by
  cases x with
  | error e => cases h
  | ok a => exact ⟨a, rfl, h⟩


theorem if_ok {ε α : Type} {c : Bool} {x : Except ε α} {e : ε} {b : α}
    (h : (if c = true then x else .error e) = .ok b) : c = true ∧ x = .ok b := by
  cases c with
  | false => cases h
  | true => exact ⟨rfl, h⟩

theorem cover_of_all {α β : Type} {ctors : List (String × α)} {arms : List (String × β)}
    (h : (ctors.all fun (k, _) => (arms.filter (·.1 == k)).length == 1) = true) :
    ∀ k a, (k, a) ∈ ctors → (arms.filter (·.1 == k)).length = 1 := by
  intro k a hm
  rw [List.all_eq_true] at h
  have := h (k, a) hm
  simpa using this

mutual
  theorem inferV_sound (Δ : Sig) : ∀ (Γ : Ctx) (v : V) (a : VTy), inferV Δ Γ v = .ok a → HasTyV Δ Γ v a
    | Γ, .var x, a, h => by
      rw [inferV] at h
      split at h
      · next a' hx => cases h; exact .var hx
      · cases h
    | Γ, .unit, a, h => by rw [inferV] at h; cases h; exact .unit
    | Γ, .int t x, a, h => by rw [inferV] at h; cases h; exact .int t x
    | Γ, .str s, a, h => by rw [inferV] at h; cases h; exact .str s
    | Γ, .pair p q, a, h => by
      rw [inferV] at h
      obtain ⟨ta, h1, h⟩ := bind_ok h
      obtain ⟨tb, h2, h⟩ := bind_ok h
      cases h
      exact .pair (inferV_sound Δ Γ p ta h1) (inferV_sound Δ Γ q tb h2)
    | Γ, .ctor d k arg, a, h => by
      rw [inferV] at h
      split at h
      · cases h
      · next a' hk =>
        obtain ⟨ta, h1, h⟩ := bind_ok h
        obtain ⟨hc, h⟩ := if_ok h
        cases h
        have := VTy.eq_of_beq_s' hc
        subst this
        exact .ctor hk (inferV_sound Δ Γ arg ta h1)
    | Γ, .thunk m b, a, h => by
      rw [inferV] at h
      obtain ⟨b', h1, h⟩ := bind_ok h
      obtain ⟨hc, h⟩ := if_ok h
      cases h
      have := CTy.eq_of_beq_s' hc
      subst this
      exact .thunk (inferC_sound Δ Γ m b' h1)
  theorem inferC_sound (Δ : Sig) : ∀ (Γ : Ctx) (m : C) (b : CTy), inferC Δ Γ m = .ok b → HasTyC Δ Γ m b
    | Γ, .ret v, b, h => by
      rw [inferC] at h
      obtain ⟨a, h1, h⟩ := bind_ok h
      cases h
      exact .ret (inferV_sound Δ Γ v a h1)
    | Γ, .bind x a m n, b, h => by
      rw [inferC] at h
      obtain ⟨tm, h1, h⟩ := bind_ok h
      obtain ⟨hc, h'⟩ := if_ok h
      have := CTy.eq_of_beq_s' hc
      subst this
      exact .bind (inferC_sound Δ Γ m _ h1) (inferC_sound Δ _ n b h')
    | Γ, .clet x v m, b, h => by
      rw [inferC] at h
      obtain ⟨a, h1, h⟩ := bind_ok h
      exact .clet (inferV_sound Δ Γ v a h1) (inferC_sound Δ _ m b h)
    | Γ, .letPair x y v m, b, h => by
      rw [inferC] at h
      obtain ⟨a, h1, h⟩ := bind_ok h
      split at h
      · exact .letPair (inferV_sound Δ Γ v _ h1) (inferC_sound Δ _ m b h)
      · cases h
    | Γ, .fn x a m, b, h => by
      rw [inferC] at h
      obtain ⟨b', h1, h⟩ := bind_ok h
      cases h
      exact .fn (inferC_sound Δ _ m b' h1)
    | Γ, .app m v, b, h => by
      rw [inferC] at h
      obtain ⟨tm, h1, h⟩ := bind_ok h
      obtain ⟨tv, h2, h⟩ := bind_ok h
      split at h
      · obtain ⟨hc, h⟩ := if_ok h
        cases h
        have := VTy.eq_of_beq_s' hc
        subst this
        exact .app (inferC_sound Δ Γ m _ h1) (inferV_sound Δ Γ v _ h2)
      · cases h
    | Γ, .force v, b, h => by
      rw [inferC] at h
      obtain ⟨a, h1, h⟩ := bind_ok h
      split at h
      · cases h
        exact .force (inferV_sound Δ Γ v _ h1)
      · cases h
    | Γ, .fix f b' m, b, h => by
      rw [inferC] at h
      obtain ⟨tb, h1, h⟩ := bind_ok h
      obtain ⟨hc, h⟩ := if_ok h
      cases h
      have := CTy.eq_of_beq_s' hc
      subst this
      exact .fix (inferC_sound Δ _ m _ h1)
    | Γ, .case v d arms b', b, h => by
      rw [inferC] at h
      obtain ⟨a, h1, h⟩ := bind_ok h
      split at h
      · next d' =>
        split at h
        · cases h
        · next hd' =>
          have hdd : d' = d := by simpa using hd'
          subst hdd
          split at h
          · cases h
          · next ctors hct =>
            split at h
            · cases h
            · next hall =>
              split at h
              · cases h
              · obtain ⟨u, h2, h⟩ := bind_ok h
                cases h
                cases u
                refine .case (inferV_sound Δ Γ v _ h1) hct (cover_of_all (by simpa using hall))
                  (checkArms_sound Δ Γ _ arms _ h2)
      · cases h
    | Γ, .comatch c arms, b, h => by
      rw [inferC] at h
      split at h
      · cases h
      · next dtors hdt =>
        split at h
        · cases h
        · next hall =>
          split at h
          · cases h
          · obtain ⟨u, h2, h⟩ := bind_ok h
            cases h
            cases u
            exact .comatch hdt (cover_of_all (by simpa using hall)) (checkCoArms_sound Δ Γ c arms h2)
    | Γ, .dtor m k, b, h => by
      rw [inferC] at h
      obtain ⟨tm, h1, h⟩ := bind_ok h
      split at h
      · split at h
        · next hk => cases h; exact .dtor (inferC_sound Δ Γ m _ h1) hk
        · cases h
      · cases h
    | Γ, .arith t op p q, b, h => by
      rw [inferC] at h
      obtain ⟨ta, h1, h⟩ := bind_ok h
      obtain ⟨tb, h2, h⟩ := bind_ok h
      obtain ⟨hc, h⟩ := if_ok h
      cases h
      simp only [Bool.and_eq_true] at hc
      have e1 := VTy.eq_of_beq_s' hc.1
      have e2 := VTy.eq_of_beq_s' hc.2
      subst e1 e2
      exact .arith t op (inferV_sound Δ Γ p _ h1) (inferV_sound Δ Γ q _ h2)
    | Γ, .cmp t op p q res yes no, b, h => by
      rw [inferC] at h
      obtain ⟨ta, h1, h⟩ := bind_ok h
      obtain ⟨tb, h2, h⟩ := bind_ok h
      obtain ⟨ty, h3, h⟩ := bind_ok h
      obtain ⟨tn, h4, h⟩ := bind_ok h
      obtain ⟨hc, h⟩ := if_ok h
      cases h
      simp only [Bool.and_eq_true] at hc
      have e1 := VTy.eq_of_beq_s' hc.1.1.1
      have e2 := VTy.eq_of_beq_s' hc.1.1.2
      have e3 := CTy.eq_of_beq_s' hc.1.2
      have e4 := CTy.eq_of_beq_s' hc.2
      subst e1 e2 e3
      exact .cmp t op (inferV_sound Δ Γ p _ h1) (inferV_sound Δ Γ q _ h2) (inferC_sound Δ Γ yes _ h3)
        (e4 ▸ inferC_sound Δ Γ no _ h4)
    | Γ, .toStr t p, b, h => by
      rw [inferC] at h
      obtain ⟨ta, h1, h⟩ := bind_ok h
      obtain ⟨hc, h⟩ := if_ok h
      cases h
      have e1 := VTy.eq_of_beq_s' hc
      subst e1
      exact .toStr t (inferV_sound Δ Γ p _ h1)
    | Γ, .strAppend p q, b, h => by
      rw [inferC] at h
      obtain ⟨ta, h1, h⟩ := bind_ok h
      obtain ⟨tb, h2, h⟩ := bind_ok h
      obtain ⟨hc, h⟩ := if_ok h
      cases h
      simp only [Bool.and_eq_true] at hc
      have e1 := VTy.eq_of_beq_s' hc.1
      have e2 := VTy.eq_of_beq_s' hc.2
      subst e1 e2
      exact .strAppend (inferV_sound Δ Γ p _ h1) (inferV_sound Δ Γ q _ h2)
    | Γ, .writeLine p k, b, h => by
      rw [inferC] at h
      obtain ⟨ts, h1, h⟩ := bind_ok h
      obtain ⟨tk, h2, h⟩ := bind_ok h
      obtain ⟨hc, h⟩ := if_ok h
      cases h
      simp only [Bool.and_eq_true] at hc
      have e1 := VTy.eq_of_beq_s' hc.1
      have e2 := CTy.eq_of_beq_s' hc.2
      subst e1 e2
      exact .writeLine (inferV_sound Δ Γ p _ h1) (inferC_sound Δ Γ k _ h2)
    | Γ, .exit p, b, h => by
      rw [inferC] at h
      obtain ⟨tc, h1, h⟩ := bind_ok h
      obtain ⟨hc, h⟩ := if_ok h
      cases h
      have e1 := VTy.eq_of_beq_s' hc
      subst e1
      exact .exit (inferV_sound Δ Γ p _ h1)
  theorem checkArms_sound (Δ : Sig) : ∀ (Γ : Ctx) (d : Nat) (arms : List (String × Nat × C)) (b : CTy),
      checkArms Δ Γ d arms b = .ok () → ArmsTy Δ Γ d arms b
    | Γ, d, [], b, _ => .nil
    | Γ, d, (k, x, m) :: rest, b, h => by
      rw [checkArms] at h
      split at h
      · cases h
      · next a hk =>
        obtain ⟨b', h1, h⟩ := bind_ok h
        obtain ⟨hc, h'⟩ := if_ok h
        have e1 := CTy.eq_of_beq_s' hc
        subst e1
        exact .cons hk (inferC_sound Δ _ m _ h1) (checkArms_sound Δ Γ d rest _ h')
  theorem checkCoArms_sound (Δ : Sig) : ∀ (Γ : Ctx) (c : Nat) (arms : List (String × C)),
      checkCoArms Δ Γ c arms = .ok () → CoArmsTy Δ Γ c arms
    | Γ, c, [], _ => .nil
    | Γ, c, (k, m) :: rest, h => by
      rw [checkCoArms] at h
      split at h
      · cases h
      · next b hk =>
        obtain ⟨tb, h1, h⟩ := bind_ok h
        obtain ⟨hc, h'⟩ := if_ok h
        have e1 := CTy.eq_of_beq_s' hc
        subst e1
        exact .cons hk (inferC_sound Δ Γ m _ h1) (checkCoArms_sound Δ Γ c rest h')
end

/-! ### The statements of C01 -/

theorem check_sound_c01_pf : ZV.Props.C01.Statement.check_sound :=
  fun Δ Γ m b _ h => inferC_sound Δ Γ m b h

theorem accepted_never_stuck_pf : ZV.Props.C01.Statement.accepted_never_stuck :=
  accepted_never_stuck_of_sound check_sound_c01_pf

theorem os_program_exits_pf : ZV.Props.C01.Statement.os_program_exits :=
  os_program_exits_of_sound check_sound_c01_pf

end ZV.ZCore
