/-
Helper lemmas about the host-operation mirror (`ZV/Model/Host.lean`) used by `ZV/Props/C06.lean`.
Core Lean only.
-/
import ZV.Model.Host
import ZV.Model.Abi
import ZV.Proofs.Decimal
import ZV.Proofs.Numeric

namespace ZV.Host
open ZV.Numeric ZV.Abi

/-! ### Text contracts -/

theorem splitAtScalar_iff (s a b : List Char) (i : Nat) :
    splitAtScalar s i = some (a, b) ↔ (i ≤ scalarLen s ∧ a ++ b = s ∧ scalarLen a = i) := by
  unfold splitAtScalar scalarLen
  constructor
  · intro h
    split at h
    · next hi =>
      simp only [Option.some.injEq, Prod.mk.injEq] at h
      obtain ⟨rfl, rfl⟩ := h
      refine ⟨hi, List.take_append_drop i s, ?_⟩
      simp [List.length_take]; omega
    · cases h
  · rintro ⟨hi, rfl, rfl⟩
    simp

theorem hostOp_str_split_at (s : List Char) (z : BitVec IntTy.i64.width) (σ : Host) (k₁ k₂ : Nat) :
    hostOp "str_split_at" [.str s, .int .i64 z, .thunk k₁, .thunk k₂] σ =
      (σ, optionalPair ((index? (valI64 z)).bind (splitAtScalar s)) 2 3) := by
  rfl

theorem hostOp_str_get (s : List Char) (z : BitVec IntTy.i64.width) (σ : Host) (k₁ k₂ : Nat) :
    hostOp "str_get" [.str s, .int .i64 z, .thunk k₁, .thunk k₂] σ =
      (σ, optional (((index? (valI64 z)).bind (scalarAt s)).map HV.chr) 2 3) := by
  rfl

theorem str_split_at_contract (s : List Char) (z : BitVec IntTy.i64.width) (σ : Host) (k₁ k₂ : Nat) :
    let out := (hostOp "str_split_at" [.str s, .int .i64 z, .thunk k₁, .thunk k₂] σ).2
    (out = .call 2 [] ∧ (val .i64 z < 0 ∨ (scalarLen s : Int) < val .i64 z)) ∨
    (∃ a b, out = .call 3 [.str a, .str b] ∧ a ++ b = s ∧ (scalarLen a : Int) = val .i64 z) := by
  intro out
  have hout : out = optionalPair ((index? (valI64 z)).bind (splitAtScalar s)) 2 3 := by
    simp only [out, hostOp_str_split_at]
  rw [hout]
  simp only [index?, valI64, scalarLen]
  by_cases h0 : 0 ≤ val .i64 z
  · by_cases h1 : (val .i64 z).toNat ≤ s.length
    · right
      refine ⟨s.take (val .i64 z).toNat, s.drop (val .i64 z).toNat, ?_, List.take_append_drop _ _, ?_⟩
      · simp [h0, h1, optionalPair, splitAtScalar]
      · simp [List.length_take]; omega
    · left
      refine ⟨?_, Or.inr (by omega)⟩
      simp [h0, h1, optionalPair, splitAtScalar]
  · left
    refine ⟨?_, Or.inl (by omega)⟩
    simp [h0, optionalPair]

theorem str_get_contract (s : List Char) (z : BitVec IntTy.i64.width) (σ : Host) (k₁ k₂ : Nat) :
    let out := (hostOp "str_get" [.str s, .int .i64 z, .thunk k₁, .thunk k₂] σ).2
    (out = .call 2 [] ∧ (val .i64 z < 0 ∨ (scalarLen s : Int) ≤ val .i64 z)) ∨
    (∃ c, out = .call 3 [.chr c] ∧ 0 ≤ val .i64 z ∧ s[(val .i64 z).toNat]? = some c) := by
  intro out
  have hout : out = optional (((index? (valI64 z)).bind (scalarAt s)).map HV.chr) 2 3 := by
    simp only [out, hostOp_str_get]
  rw [hout]
  simp only [index?, valI64, scalarLen]
  by_cases h0 : 0 ≤ val .i64 z
  · cases hc : s[(val .i64 z).toNat]? with
    | none =>
      left
      refine ⟨by simp [h0, hc, optional, scalarAt], Or.inr ?_⟩
      have := List.getElem?_eq_none_iff.1 hc
      omega
    | some c =>
      right
      exact ⟨c, by simp [h0, hc, optional, scalarAt], h0, rfl⟩
  · left
    exact ⟨by simp [h0, optional], Or.inl (by omega)⟩

theorem fromCodepoint_spec (n : Int) :
    (∀ c, fromCodepoint n = some c → (c.toNat : Int) = n) ∧
    ((fromCodepoint n).isSome = true ↔ (0 ≤ n ∧ n ≤ 0x10FFFF ∧ ¬ (0xD800 ≤ n ∧ n ≤ 0xDFFF))) := by
  unfold fromCodepoint
  constructor
  · intro c hc
    split at hc
    · next h =>
      simp only at hc
      split at hc
      · next hv =>
        cases hc
        have : n.toNat < 4294967296 := by omega
        simp [Char.toNat, Nat.toUInt32, UInt32.toNat_ofNat', Nat.mod_eq_of_lt this]
        omega
      · cases hc
    · cases hc
  · split
    · next h =>
      simp only
      split
      · next hv =>
        simp only [Option.isSome_some, true_iff]
        simp only [Nat.isValidChar] at hv
        omega
      · next hv =>
        simp only [Option.isSome_none, Bool.false_eq_true, false_iff]
        simp only [Nat.isValidChar] at hv
        omega
    · next h =>
      simp only [Option.isSome_none, Bool.false_eq_true, false_iff]
      omega

theorem parseBounded_range (lo hi : Int) (s : List Char) (z : Int)
    (h : Decimal.parseBounded lo hi s = some z) : lo ≤ z ∧ z ≤ hi := by
  unfold Decimal.parseBounded at h
  split at h <;>
  · simp only [Option.bind_eq_some_iff] at h
    obtain ⟨n, _, hn⟩ := h
    split at hn
    · next hr => cases hn; exact hr
    · cases hn

theorem parseI64_spec :
  (∀ z : Int, -(2 ^ 63) ≤ z ∧ z ≤ 2 ^ 63 - 1 → Decimal.parseI64 (Decimal.showInt z) = some z) ∧
  (∀ (s : List Char) (z : Int), Decimal.parseI64 s = some z → -(2 ^ 63) ≤ z ∧ z ≤ 2 ^ 63 - 1) ∧
  Decimal.parseI64 [] = none ∧ Decimal.parseI64 ['-'] = none ∧ Decimal.parseI64 ['+'] = none := by
  refine ⟨fun z h => Decimal.parseBounded_showInt _ _ z h, fun s z h => parseBounded_range _ _ s z h,
    ?_, ?_, ?_⟩ <;> decide

theorem span_loop_eq {α} (p : α → Bool) (as acc : List α) :
    List.span.loop p as acc = (acc.reverse ++ as.takeWhile p, as.dropWhile p) := by
  induction as generalizing acc with
  | nil => simp [List.span.loop]
  | cons a as ih =>
    unfold List.span.loop
    cases h : p a
    · simp [h]
    · simp [h, ih]

theorem span_eq_takeWhile_dropWhile {α} (p : α → Bool) (as : List α) :
    as.span p = (as.takeWhile p, as.dropWhile p) := by
  simp [List.span, span_loop_eq]

theorem splitOnce_nil (sep : Char) : splitOnce [] sep = none := rfl

theorem splitOnce_cons (c : Char) (s : List Char) (sep : Char) :
    splitOnce (c :: s) sep =
      if c = sep then some ([], s) else (splitOnce s sep).map fun p => (c :: p.1, p.2) := by
  unfold splitOnce
  simp only [span_eq_takeWhile_dropWhile]
  by_cases h : c = sep
  · subst h; simp
  · have : (c != sep) = true := by simpa using h
    simp only [List.takeWhile_cons, List.dropWhile_cons, this, if_true, h, if_false]
    split <;> simp_all

theorem splitOnce_eq_none (s : List Char) (sep : Char) : splitOnce s sep = none ↔ sep ∉ s := by
  induction s with
  | nil => simp [splitOnce_nil]
  | cons c s ih =>
    rw [splitOnce_cons]
    by_cases h : c = sep
    · subst h; simp
    · simp only [h, if_false, Option.map_eq_none_iff, ih, List.mem_cons, not_or]
      constructor
      · intro h'; exact ⟨fun e => h e.symm, h'⟩
      · intro h'; exact h'.2

theorem splitOnce_eq_some (s : List Char) (sep : Char) (a b : List Char)
    (h : splitOnce s sep = some (a, b)) : s = a ++ sep :: b ∧ sep ∉ a := by
  induction s generalizing a with
  | nil => simp [splitOnce_nil] at h
  | cons c s ih =>
    rw [splitOnce_cons] at h
    by_cases hc : c = sep
    · subst hc; simp at h; obtain ⟨rfl, rfl⟩ := h; simp
    · simp only [hc, if_false, Option.map_eq_some_iff] at h
      obtain ⟨⟨a', b'⟩, hp, he⟩ := h
      simp only [Prod.mk.injEq] at he
      obtain ⟨rfl, rfl⟩ := he
      obtain ⟨rfl, hn⟩ := ih a' hp
      refine ⟨by simp, ?_⟩
      simp only [List.mem_cons, not_or]
      exact ⟨fun e => hc e.symm, hn⟩

theorem std_streams_never_close (σ : Host) (k₁ k₂ : Nat) :
    (hostOp "io_close_reader" [.reader 0, .thunk k₁, .thunk k₂] σ) = (σ, .call 2 []) ∧
    (hostOp "io_close_writer" [.writer 0, .thunk k₁, .thunk k₂] σ) = (σ, .call 2 []) ∧
    (hostOp "io_close_writer" [.writer 1, .thunk k₁, .thunk k₂] σ) = (σ, .call 2 []) :=
  ⟨rfl, rfl, rfl⟩

/-! ### UTF-8 -/

theorem byteArray_toList_loop (b : ByteArray) (i : Nat) (r : List UInt8) :
    ByteArray.toList.loop b i r = r.reverse ++ b.data.toList.drop i := by
  fun_induction ByteArray.toList.loop b i r with
  | case1 i r h ih =>
    rw [ih]
    have hi' : i < b.data.size := h
    have hi : i < b.data.toList.length := by simpa using hi'
    rw [List.drop_eq_getElem_cons hi]
    simp [ByteArray.get!, getElem!_def]
    rw [Array.getElem?_eq_getElem hi']
  | case2 i r h =>
    have h' : ¬ i < b.data.size := h
    have : b.data.toList.length ≤ i := by simpa using h' 
    simp [List.drop_eq_nil_of_le this]

theorem byteArray_toList_eq (b : ByteArray) : b.toList = b.data.toList := by
  simp [ByteArray.toList, byteArray_toList_loop]

theorem byteArray_mk_toList_toArray (b : ByteArray) : ByteArray.mk b.toList.toArray = b := by
  simp [byteArray_toList_eq]

theorem decodeUtf8_encodeUtf8 (s : List Char) : decodeUtf8 (encodeUtf8 s) = some s := by
  simp [decodeUtf8, encodeUtf8, byteArray_mk_toList_toArray]

theorem encodeUtf8_of_decodeUtf8 (b : Bytes) (s : List Char) (h : decodeUtf8 b = some s) :
    encodeUtf8 s = b := by
  unfold decodeUtf8 at h
  unfold encodeUtf8
  rw [Option.map_eq_some_iff] at h
  obtain ⟨a, ha, rfl⟩ := h
  have hs : (ByteArray.mk b.toArray).utf8Decode?.isSome := by simp [ha]
  have := ByteArray.utf8Encode_get_utf8Decode? (b := ByteArray.mk b.toArray) (h := hs)
  simp only [ha, Option.get_some] at this
  simp [this, byteArray_toList_eq]

theorem length_encodeUtf8 (s : List Char) : (encodeUtf8 s).length = byteLen s := by
  simp only [encodeUtf8, byteArray_toList_eq, String.toByteArray_ofList, byteLen]
  induction s with
  | nil => simp
  | cons c s ih =>
    rw [List.utf8Encode_cons, ByteArray.toList_data_append, List.length_append, ih]
    simp [List.utf8Encode_singleton]

theorem byteLen_bounds (s : List Char) : scalarLen s ≤ byteLen s ∧ byteLen s ≤ 4 * scalarLen s := by
  unfold scalarLen byteLen
  induction s with
  | nil => simp
  | cons c s ih =>
    have h1 := Char.utf8Size_pos c
    have h2 := Char.utf8Size_le_four c
    simp only [List.length_cons, List.map_cons, List.sum_cons]
    omega

/-! ### Case analysis on `hostOp`'s big match -/

/-- Position of a role among the arms of `hostOp`'s big match (`0`: none, the numeric fall-through). -/
def armIndex (role : String) : Nat :=
  if role = "str_scalar_length" then 1
  else if role = "str_byte_length" then 2
  else if role = "str_append" then 3
  else if role = "str_split_once" then 4
  else if role = "str_split_at" then 5
  else if role = "str_eq" then 6
  else if role = "str_get" then 7
  else if role = "char_to_str" then 8
  else if role = "char_codepoint" then 9
  else if role = "char_from_codepoint" then 10
  else if role = "str_parse_int" then 11
  else if role = "bytes_empty" then 12
  else if role = "bytes_length" then 13
  else if role = "bytes_append" then 14
  else if role = "bytes_from_str" then 15
  else if role = "bytes_to_str" then 16
  else if role = "stdin" then 17
  else if role = "stdout" then 18
  else if role = "stderr" then 19
  else if role = "io_read" then 20
  else if role = "io_read_line" then 21
  else if role = "io_read_all" then 22
  else if role = "io_write_all" then 23
  else if role = "io_flush" then 24
  else if role = "io_close_reader" then 25
  else if role = "io_close_writer" then 26
  else if role = "fs_open_reader" then 27
  else if role = "fs_create_writer" then 28
  else if role = "fs_append_writer" then 29
  else if role = "write_str" then 30
  else if role = "write_int" then 31
  else if role = "write_line" then 32
  else if role = "read_line" then 33
  else if role = "read_line_as_int" then 34
  else if role = "read_till_eof" then 35
  else if role = "arg_list" then 36
  else if role = "random_int" then 37
  else if role = "exit" then 38
  else 0

/-- The classifier each non-numeric arm was proved against (checked against the regenerated table
in `ZV/Props/C06.lean`). -/
def armAbi : Nat → Option VC
  | 1 => some (.thunk (.arrow (.atom .str) (.ret (.atom (.int .i64)))))
  | 2 => some (.thunk (.arrow (.atom .str) (.ret (.atom (.int .i64)))))
  | 3 => some (.thunk (.arrow (.atom .str) (.arrow (.atom .str) (.ret (.atom .str)))))
  | 4 => some (.thunk (.forallC (.arrow (.atom .str) (.arrow (.atom .chr) (.arrow (.thunk (.bound 0)) (.arrow (.thunk (.arrow (.atom .str) (.arrow (.atom .str) (.bound 0)))) (.bound 0)))))))
  | 5 => some (.thunk (.forallC (.arrow (.atom .str) (.arrow (.atom (.int .i64)) (.arrow (.thunk (.bound 0)) (.arrow (.thunk (.arrow (.atom .str) (.arrow (.atom .str) (.bound 0)))) (.bound 0)))))))
  | 6 => some (.thunk (.forallC (.arrow (.atom .str) (.arrow (.atom .str) (.arrow (.thunk (.bound 0)) (.arrow (.thunk (.bound 0)) (.bound 0)))))))
  | 7 => some (.thunk (.forallC (.arrow (.atom .str) (.arrow (.atom (.int .i64)) (.arrow (.thunk (.bound 0)) (.arrow (.thunk (.arrow (.atom .chr) (.bound 0))) (.bound 0)))))))
  | 8 => some (.thunk (.arrow (.atom .chr) (.ret (.atom .str))))
  | 9 => some (.thunk (.arrow (.atom .chr) (.ret (.atom (.int .i64)))))
  | 10 => some (.thunk (.forallC (.arrow (.atom (.int .i64)) (.arrow (.thunk (.bound 0)) (.arrow (.thunk (.arrow (.atom .chr) (.bound 0))) (.bound 0))))))
  | 11 => some (.thunk (.forallC (.arrow (.atom .str) (.arrow (.thunk (.bound 0)) (.arrow (.thunk (.arrow (.atom (.int .i64)) (.bound 0))) (.bound 0))))))
  | 12 => some (.thunk (.ret (.atom .bytes)))
  | 13 => some (.thunk (.arrow (.atom .bytes) (.ret (.atom (.int .i64)))))
  | 14 => some (.thunk (.arrow (.atom .bytes) (.arrow (.atom .bytes) (.ret (.atom .bytes)))))
  | 15 => some (.thunk (.arrow (.atom .str) (.ret (.atom .bytes))))
  | 16 => some (.thunk (.forallC (.arrow (.atom .bytes) (.arrow (.thunk (.bound 0)) (.arrow (.thunk (.arrow (.atom .str) (.bound 0))) (.bound 0))))))
  | 17 => some (.thunk (.ret (.atom .reader)))
  | 18 => some (.thunk (.ret (.atom .writer)))
  | 19 => some (.thunk (.ret (.atom .writer)))
  | 20 => some (.thunk (.arrow (.atom .reader) (.arrow (.atom (.int .i64)) (.arrow (.thunk (.arrow (.atom (.int .i64)) (.arrow (.atom .str) .os))) (.arrow (.thunk (.arrow (.atom .bytes) .os)) .os)))))
  | 21 => some (.thunk (.arrow (.atom .reader) (.arrow (.thunk (.arrow (.atom (.int .i64)) (.arrow (.atom .str) .os))) (.arrow (.thunk .os) (.arrow (.thunk (.arrow (.atom .bytes) .os)) .os)))))
  | 22 => some (.thunk (.arrow (.atom .reader) (.arrow (.thunk (.arrow (.atom (.int .i64)) (.arrow (.atom .str) .os))) (.arrow (.thunk (.arrow (.atom .bytes) .os)) .os))))
  | 23 => some (.thunk (.arrow (.atom .writer) (.arrow (.atom .bytes) (.arrow (.thunk (.arrow (.atom (.int .i64)) (.arrow (.atom .str) .os))) (.arrow (.thunk .os) .os)))))
  | 24 => some (.thunk (.arrow (.atom .writer) (.arrow (.thunk (.arrow (.atom (.int .i64)) (.arrow (.atom .str) .os))) (.arrow (.thunk .os) .os))))
  | 25 => some (.thunk (.arrow (.atom .reader) (.arrow (.thunk (.arrow (.atom (.int .i64)) (.arrow (.atom .str) .os))) (.arrow (.thunk .os) .os))))
  | 26 => some (.thunk (.arrow (.atom .writer) (.arrow (.thunk (.arrow (.atom (.int .i64)) (.arrow (.atom .str) .os))) (.arrow (.thunk .os) .os))))
  | 27 => some (.thunk (.arrow (.atom .str) (.arrow (.thunk (.arrow (.atom (.int .i64)) (.arrow (.atom .str) .os))) (.arrow (.thunk (.arrow (.atom .reader) .os)) .os))))
  | 28 => some (.thunk (.arrow (.atom .str) (.arrow (.thunk (.arrow (.atom (.int .i64)) (.arrow (.atom .str) .os))) (.arrow (.thunk (.arrow (.atom .writer) .os)) .os))))
  | 29 => some (.thunk (.arrow (.atom .str) (.arrow (.thunk (.arrow (.atom (.int .i64)) (.arrow (.atom .str) .os))) (.arrow (.thunk (.arrow (.atom .writer) .os)) .os))))
  | 30 => some (.thunk (.arrow (.atom .str) (.arrow (.thunk .os) .os)))
  | 31 => some (.thunk (.arrow (.atom (.int .i64)) (.arrow (.thunk .os) .os)))
  | 32 => some (.thunk (.arrow (.atom .str) (.arrow (.thunk .os) .os)))
  | 33 => some (.thunk (.arrow (.thunk (.arrow (.atom .str) .os)) .os))
  | 34 => some (.thunk (.arrow (.thunk .os) (.arrow (.thunk (.arrow (.atom (.int .i64)) .os)) .os)))
  | 35 => some (.thunk (.arrow (.thunk (.arrow (.atom .str) .os)) .os))
  | 36 => some (.thunk (.forallC (.arrow (.thunk (.bound 0)) (.arrow (.thunk (.arrow (.atom .str) (.arrow (.thunk (.bound 0)) (.bound 0)))) (.bound 0)))))
  | 37 => some (.thunk (.arrow (.thunk (.arrow (.atom (.int .i64)) .os)) .os))
  | 38 => some (.thunk (.arrow (.atom (.int .i64)) .os))
  | _ => none

/-- Do the arguments have the classes the arm for `role` was proved against? -/
def shapeMatch (role : String) (args : List HV) : Bool :=
  match (armAbi (armIndex role)).bind VC.opParams with
  | some ps => argsHaveClass args ps
  | none => false

theorem shapeMatch_of_index {role : String} {args : List HV} {k : Nat} {b : Bool} (hi : armIndex role = k)
    (h : (match (armAbi k).bind VC.opParams with
      | some ps => argsHaveClass args ps
      | none => false) = b) : shapeMatch role args = b := by
  unfold shapeMatch; rw [hi]; exact h

/-- Case analysis on the remaining argument pattern of one arm of `hostOp`'s big match. -/
syntax "zv_peel_arm " term:max ident ident : tactic
macro_rules
  | `(tactic| zv_peel_arm $H:term $F:ident $hi:ident) => `(tactic|
      repeat' (first
        | exact $F (shapeMatch_of_index $hi rfl) _ _
        | exact $H
        | cases ‹IntTy›
        | cases ‹HV›
        | cases ‹List HV›))

/-- Elimination principle for `hostOp`'s big match: a property holds of the result if it holds of
every arm; the arms know which role and argument shape selected them, the fall-through arm knows
that no special role with well-classified arguments selected it. -/
theorem match20_elim {α : Type} (P : α → Prop) (role : String) (args : List HV)
    (h_1 : List Char → α)
    (h_2 : List Char → α)
    (h_3 : List Char → List Char → α)
    (h_4 : List Char → Char → Nat → Nat → α)
    (h_5 : List Char → BitVec IntTy.i64.width → Nat → Nat → α)
    (h_6 : List Char → List Char → Nat → Nat → α)
    (h_7 : List Char → BitVec IntTy.i64.width → Nat → Nat → α)
    (h_8 : Char → α)
    (h_9 : Char → α)
    (h_10 : BitVec IntTy.i64.width → Nat → Nat → α)
    (h_11 : List Char → Nat → Nat → α)
    (h_12 : Unit → α)
    (h_13 : Bytes → α)
    (h_14 : Bytes → Bytes → α)
    (h_15 : List Char → α)
    (h_16 : Bytes → Nat → Nat → α)
    (h_17 : Unit → α)
    (h_18 : Unit → α)
    (h_19 : Unit → α)
    (h_20 : Nat → BitVec IntTy.i64.width → Nat → Nat → α)
    (h_21 : Nat → Nat → Nat → Nat → α)
    (h_22 : Nat → Nat → Nat → α)
    (h_23 : Nat → Bytes → Nat → Nat → α)
    (h_24 : Nat → Nat → Nat → α)
    (h_25 : Nat → Nat → Nat → α)
    (h_26 : Nat → Nat → Nat → α)
    (h_27 : List Char → Nat → Nat → α)
    (h_28 : List Char → Nat → Nat → α)
    (h_29 : List Char → Nat → Nat → α)
    (h_30 : List Char → Nat → α)
    (h_31 : BitVec IntTy.i64.width → Nat → α)
    (h_32 : List Char → Nat → α)
    (h_33 : Nat → α)
    (h_34 : Nat → Nat → α)
    (h_35 : Nat → α)
    (h_36 : Nat → Nat → α)
    (h_37 : HV → α)
    (h_38 : BitVec IntTy.i64.width → α)
    (h_39 : String → List HV → α)
    (H_1 : armIndex role = 1 → role = "str_scalar_length" → ∀ x0, args = [.str x0] → P (h_1 x0))
    (H_2 : armIndex role = 2 → role = "str_byte_length" → ∀ x0, args = [.str x0] → P (h_2 x0))
    (H_3 : armIndex role = 3 → role = "str_append" → ∀ x0 x1, args = [.str x0, .str x1] → P (h_3 x0 x1))
    (H_4 : armIndex role = 4 → role = "str_split_once" → ∀ x0 x1 x2 x3, args = [.str x0, .chr x1, .thunk x2, .thunk x3] → P (h_4 x0 x1 x2 x3))
    (H_5 : armIndex role = 5 → role = "str_split_at" → ∀ x0 x1 x2 x3, args = [.str x0, .int .i64 x1, .thunk x2, .thunk x3] → P (h_5 x0 x1 x2 x3))
    (H_6 : armIndex role = 6 → role = "str_eq" → ∀ x0 x1 x2 x3, args = [.str x0, .str x1, .thunk x2, .thunk x3] → P (h_6 x0 x1 x2 x3))
    (H_7 : armIndex role = 7 → role = "str_get" → ∀ x0 x1 x2 x3, args = [.str x0, .int .i64 x1, .thunk x2, .thunk x3] → P (h_7 x0 x1 x2 x3))
    (H_8 : armIndex role = 8 → role = "char_to_str" → ∀ x0, args = [.chr x0] → P (h_8 x0))
    (H_9 : armIndex role = 9 → role = "char_codepoint" → ∀ x0, args = [.chr x0] → P (h_9 x0))
    (H_10 : armIndex role = 10 → role = "char_from_codepoint" → ∀ x0 x1 x2, args = [.int .i64 x0, .thunk x1, .thunk x2] → P (h_10 x0 x1 x2))
    (H_11 : armIndex role = 11 → role = "str_parse_int" → ∀ x0 x1 x2, args = [.str x0, .thunk x1, .thunk x2] → P (h_11 x0 x1 x2))
    (H_12 : armIndex role = 12 → role = "bytes_empty" → ∀ x0, args = [] → P (h_12 x0))
    (H_13 : armIndex role = 13 → role = "bytes_length" → ∀ x0, args = [.bytes x0] → P (h_13 x0))
    (H_14 : armIndex role = 14 → role = "bytes_append" → ∀ x0 x1, args = [.bytes x0, .bytes x1] → P (h_14 x0 x1))
    (H_15 : armIndex role = 15 → role = "bytes_from_str" → ∀ x0, args = [.str x0] → P (h_15 x0))
    (H_16 : armIndex role = 16 → role = "bytes_to_str" → ∀ x0 x1 x2, args = [.bytes x0, .thunk x1, .thunk x2] → P (h_16 x0 x1 x2))
    (H_17 : armIndex role = 17 → role = "stdin" → ∀ x0, args = [] → P (h_17 x0))
    (H_18 : armIndex role = 18 → role = "stdout" → ∀ x0, args = [] → P (h_18 x0))
    (H_19 : armIndex role = 19 → role = "stderr" → ∀ x0, args = [] → P (h_19 x0))
    (H_20 : armIndex role = 20 → role = "io_read" → ∀ x0 x1 x2 x3, args = [.reader x0, .int .i64 x1, .thunk x2, .thunk x3] → P (h_20 x0 x1 x2 x3))
    (H_21 : armIndex role = 21 → role = "io_read_line" → ∀ x0 x1 x2 x3, args = [.reader x0, .thunk x1, .thunk x2, .thunk x3] → P (h_21 x0 x1 x2 x3))
    (H_22 : armIndex role = 22 → role = "io_read_all" → ∀ x0 x1 x2, args = [.reader x0, .thunk x1, .thunk x2] → P (h_22 x0 x1 x2))
    (H_23 : armIndex role = 23 → role = "io_write_all" → ∀ x0 x1 x2 x3, args = [.writer x0, .bytes x1, .thunk x2, .thunk x3] → P (h_23 x0 x1 x2 x3))
    (H_24 : armIndex role = 24 → role = "io_flush" → ∀ x0 x1 x2, args = [.writer x0, .thunk x1, .thunk x2] → P (h_24 x0 x1 x2))
    (H_25 : armIndex role = 25 → role = "io_close_reader" → ∀ x0 x1 x2, args = [.reader x0, .thunk x1, .thunk x2] → P (h_25 x0 x1 x2))
    (H_26 : armIndex role = 26 → role = "io_close_writer" → ∀ x0 x1 x2, args = [.writer x0, .thunk x1, .thunk x2] → P (h_26 x0 x1 x2))
    (H_27 : armIndex role = 27 → role = "fs_open_reader" → ∀ x0 x1 x2, args = [.str x0, .thunk x1, .thunk x2] → P (h_27 x0 x1 x2))
    (H_28 : armIndex role = 28 → role = "fs_create_writer" → ∀ x0 x1 x2, args = [.str x0, .thunk x1, .thunk x2] → P (h_28 x0 x1 x2))
    (H_29 : armIndex role = 29 → role = "fs_append_writer" → ∀ x0 x1 x2, args = [.str x0, .thunk x1, .thunk x2] → P (h_29 x0 x1 x2))
    (H_30 : armIndex role = 30 → role = "write_str" → ∀ x0 x1, args = [.str x0, .thunk x1] → P (h_30 x0 x1))
    (H_31 : armIndex role = 31 → role = "write_int" → ∀ x0 x1, args = [.int .i64 x0, .thunk x1] → P (h_31 x0 x1))
    (H_32 : armIndex role = 32 → role = "write_line" → ∀ x0 x1, args = [.str x0, .thunk x1] → P (h_32 x0 x1))
    (H_33 : armIndex role = 33 → role = "read_line" → ∀ x0, args = [.thunk x0] → P (h_33 x0))
    (H_34 : armIndex role = 34 → role = "read_line_as_int" → ∀ x0 x1, args = [.thunk x0, .thunk x1] → P (h_34 x0 x1))
    (H_35 : armIndex role = 35 → role = "read_till_eof" → ∀ x0, args = [.thunk x0] → P (h_35 x0))
    (H_36 : armIndex role = 36 → role = "arg_list" → ∀ x0 x1, args = [.thunk x0, .thunk x1] → P (h_36 x0 x1))
    (H_37 : armIndex role = 37 → role = "random_int" → ∀ x0, args = [x0] → P (h_37 x0))
    (H_38 : armIndex role = 38 → role = "exit" → ∀ x0, args = [.int .i64 x0] → P (h_38 x0))
    (H_39 : shapeMatch role args = false → ∀ x y, P (h_39 x y)) :
    P (hostOp.match_20 (fun _ _ => α) role args h_1 h_2 h_3 h_4 h_5 h_6 h_7 h_8 h_9 h_10 h_11 h_12 h_13 h_14 h_15 h_16 h_17 h_18 h_19 h_20 h_21 h_22 h_23 h_24 h_25 h_26 h_27 h_28 h_29 h_30 h_31 h_32 h_33 h_34 h_35 h_36 h_37 h_38 h_39) := by
  unfold hostOp.match_20
  by_cases c1 : role = "str_scalar_length"
  · have hi : armIndex role = 1 := by unfold armIndex; rw [if_pos c1]
    rw [dif_pos c1]; subst c1; zv_peel_arm (H_1 hi rfl _ rfl) H_39 hi
  rw [dif_neg c1]
  by_cases c2 : role = "str_byte_length"
  · have hi : armIndex role = 2 := by unfold armIndex; rw [if_neg c1, if_pos c2]
    rw [dif_pos c2]; subst c2; zv_peel_arm (H_2 hi rfl _ rfl) H_39 hi
  rw [dif_neg c2]
  by_cases c3 : role = "str_append"
  · have hi : armIndex role = 3 := by unfold armIndex; rw [if_neg c1, if_neg c2, if_pos c3]
    rw [dif_pos c3]; subst c3; zv_peel_arm (H_3 hi rfl _ _ rfl) H_39 hi
  rw [dif_neg c3]
  by_cases c4 : role = "str_split_once"
  · have hi : armIndex role = 4 := by unfold armIndex; rw [if_neg c1, if_neg c2, if_neg c3, if_pos c4]
    rw [dif_pos c4]; subst c4; zv_peel_arm (H_4 hi rfl _ _ _ _ rfl) H_39 hi
  rw [dif_neg c4]
  by_cases c5 : role = "str_split_at"
  · have hi : armIndex role = 5 := by unfold armIndex; rw [if_neg c1, if_neg c2, if_neg c3, if_neg c4, if_pos c5]
    rw [dif_pos c5]; subst c5; zv_peel_arm (H_5 hi rfl _ _ _ _ rfl) H_39 hi
  rw [dif_neg c5]
  by_cases c6 : role = "str_eq"
  · have hi : armIndex role = 6 := by unfold armIndex; rw [if_neg c1, if_neg c2, if_neg c3, if_neg c4, if_neg c5, if_pos c6]
    rw [dif_pos c6]; subst c6; zv_peel_arm (H_6 hi rfl _ _ _ _ rfl) H_39 hi
  rw [dif_neg c6]
  by_cases c7 : role = "str_get"
  · have hi : armIndex role = 7 := by unfold armIndex; rw [if_neg c1, if_neg c2, if_neg c3, if_neg c4, if_neg c5, if_neg c6, if_pos c7]
    rw [dif_pos c7]; subst c7; zv_peel_arm (H_7 hi rfl _ _ _ _ rfl) H_39 hi
  rw [dif_neg c7]
  by_cases c8 : role = "char_to_str"
  · have hi : armIndex role = 8 := by unfold armIndex; rw [if_neg c1, if_neg c2, if_neg c3, if_neg c4, if_neg c5, if_neg c6, if_neg c7, if_pos c8]
    rw [dif_pos c8]; subst c8; zv_peel_arm (H_8 hi rfl _ rfl) H_39 hi
  rw [dif_neg c8]
  by_cases c9 : role = "char_codepoint"
  · have hi : armIndex role = 9 := by unfold armIndex; rw [if_neg c1, if_neg c2, if_neg c3, if_neg c4, if_neg c5, if_neg c6, if_neg c7, if_neg c8, if_pos c9]
    rw [dif_pos c9]; subst c9; zv_peel_arm (H_9 hi rfl _ rfl) H_39 hi
  rw [dif_neg c9]
  by_cases c10 : role = "char_from_codepoint"
  · have hi : armIndex role = 10 := by unfold armIndex; rw [if_neg c1, if_neg c2, if_neg c3, if_neg c4, if_neg c5, if_neg c6, if_neg c7, if_neg c8, if_neg c9, if_pos c10]
    rw [dif_pos c10]; subst c10; zv_peel_arm (H_10 hi rfl _ _ _ rfl) H_39 hi
  rw [dif_neg c10]
  by_cases c11 : role = "str_parse_int"
  · have hi : armIndex role = 11 := by unfold armIndex; rw [if_neg c1, if_neg c2, if_neg c3, if_neg c4, if_neg c5, if_neg c6, if_neg c7, if_neg c8, if_neg c9, if_neg c10, if_pos c11]
    rw [dif_pos c11]; subst c11; zv_peel_arm (H_11 hi rfl _ _ _ rfl) H_39 hi
  rw [dif_neg c11]
  by_cases c12 : role = "bytes_empty"
  · have hi : armIndex role = 12 := by unfold armIndex; rw [if_neg c1, if_neg c2, if_neg c3, if_neg c4, if_neg c5, if_neg c6, if_neg c7, if_neg c8, if_neg c9, if_neg c10, if_neg c11, if_pos c12]
    rw [dif_pos c12]; subst c12; zv_peel_arm (H_12 hi rfl _ rfl) H_39 hi
  rw [dif_neg c12]
  by_cases c13 : role = "bytes_length"
  · have hi : armIndex role = 13 := by unfold armIndex; rw [if_neg c1, if_neg c2, if_neg c3, if_neg c4, if_neg c5, if_neg c6, if_neg c7, if_neg c8, if_neg c9, if_neg c10, if_neg c11, if_neg c12, if_pos c13]
    rw [dif_pos c13]; subst c13; zv_peel_arm (H_13 hi rfl _ rfl) H_39 hi
  rw [dif_neg c13]
  by_cases c14 : role = "bytes_append"
  · have hi : armIndex role = 14 := by unfold armIndex; rw [if_neg c1, if_neg c2, if_neg c3, if_neg c4, if_neg c5, if_neg c6, if_neg c7, if_neg c8, if_neg c9, if_neg c10, if_neg c11, if_neg c12, if_neg c13, if_pos c14]
    rw [dif_pos c14]; subst c14; zv_peel_arm (H_14 hi rfl _ _ rfl) H_39 hi
  rw [dif_neg c14]
  by_cases c15 : role = "bytes_from_str"
  · have hi : armIndex role = 15 := by unfold armIndex; rw [if_neg c1, if_neg c2, if_neg c3, if_neg c4, if_neg c5, if_neg c6, if_neg c7, if_neg c8, if_neg c9, if_neg c10, if_neg c11, if_neg c12, if_neg c13, if_neg c14, if_pos c15]
    rw [dif_pos c15]; subst c15; zv_peel_arm (H_15 hi rfl _ rfl) H_39 hi
  rw [dif_neg c15]
  by_cases c16 : role = "bytes_to_str"
  · have hi : armIndex role = 16 := by unfold armIndex; rw [if_neg c1, if_neg c2, if_neg c3, if_neg c4, if_neg c5, if_neg c6, if_neg c7, if_neg c8, if_neg c9, if_neg c10, if_neg c11, if_neg c12, if_neg c13, if_neg c14, if_neg c15, if_pos c16]
    rw [dif_pos c16]; subst c16; zv_peel_arm (H_16 hi rfl _ _ _ rfl) H_39 hi
  rw [dif_neg c16]
  by_cases c17 : role = "stdin"
  · have hi : armIndex role = 17 := by unfold armIndex; rw [if_neg c1, if_neg c2, if_neg c3, if_neg c4, if_neg c5, if_neg c6, if_neg c7, if_neg c8, if_neg c9, if_neg c10, if_neg c11, if_neg c12, if_neg c13, if_neg c14, if_neg c15, if_neg c16, if_pos c17]
    rw [dif_pos c17]; subst c17; zv_peel_arm (H_17 hi rfl _ rfl) H_39 hi
  rw [dif_neg c17]
  by_cases c18 : role = "stdout"
  · have hi : armIndex role = 18 := by unfold armIndex; rw [if_neg c1, if_neg c2, if_neg c3, if_neg c4, if_neg c5, if_neg c6, if_neg c7, if_neg c8, if_neg c9, if_neg c10, if_neg c11, if_neg c12, if_neg c13, if_neg c14, if_neg c15, if_neg c16, if_neg c17, if_pos c18]
    rw [dif_pos c18]; subst c18; zv_peel_arm (H_18 hi rfl _ rfl) H_39 hi
  rw [dif_neg c18]
  by_cases c19 : role = "stderr"
  · have hi : armIndex role = 19 := by unfold armIndex; rw [if_neg c1, if_neg c2, if_neg c3, if_neg c4, if_neg c5, if_neg c6, if_neg c7, if_neg c8, if_neg c9, if_neg c10, if_neg c11, if_neg c12, if_neg c13, if_neg c14, if_neg c15, if_neg c16, if_neg c17, if_neg c18, if_pos c19]
    rw [dif_pos c19]; subst c19; zv_peel_arm (H_19 hi rfl _ rfl) H_39 hi
  rw [dif_neg c19]
  by_cases c20 : role = "io_read"
  · have hi : armIndex role = 20 := by unfold armIndex; rw [if_neg c1, if_neg c2, if_neg c3, if_neg c4, if_neg c5, if_neg c6, if_neg c7, if_neg c8, if_neg c9, if_neg c10, if_neg c11, if_neg c12, if_neg c13, if_neg c14, if_neg c15, if_neg c16, if_neg c17, if_neg c18, if_neg c19, if_pos c20]
    rw [dif_pos c20]; subst c20; zv_peel_arm (H_20 hi rfl _ _ _ _ rfl) H_39 hi
  rw [dif_neg c20]
  by_cases c21 : role = "io_read_line"
  · have hi : armIndex role = 21 := by unfold armIndex; rw [if_neg c1, if_neg c2, if_neg c3, if_neg c4, if_neg c5, if_neg c6, if_neg c7, if_neg c8, if_neg c9, if_neg c10, if_neg c11, if_neg c12, if_neg c13, if_neg c14, if_neg c15, if_neg c16, if_neg c17, if_neg c18, if_neg c19, if_neg c20, if_pos c21]
    rw [dif_pos c21]; subst c21; zv_peel_arm (H_21 hi rfl _ _ _ _ rfl) H_39 hi
  rw [dif_neg c21]
  by_cases c22 : role = "io_read_all"
  · have hi : armIndex role = 22 := by unfold armIndex; rw [if_neg c1, if_neg c2, if_neg c3, if_neg c4, if_neg c5, if_neg c6, if_neg c7, if_neg c8, if_neg c9, if_neg c10, if_neg c11, if_neg c12, if_neg c13, if_neg c14, if_neg c15, if_neg c16, if_neg c17, if_neg c18, if_neg c19, if_neg c20, if_neg c21, if_pos c22]
    rw [dif_pos c22]; subst c22; zv_peel_arm (H_22 hi rfl _ _ _ rfl) H_39 hi
  rw [dif_neg c22]
  by_cases c23 : role = "io_write_all"
  · have hi : armIndex role = 23 := by unfold armIndex; rw [if_neg c1, if_neg c2, if_neg c3, if_neg c4, if_neg c5, if_neg c6, if_neg c7, if_neg c8, if_neg c9, if_neg c10, if_neg c11, if_neg c12, if_neg c13, if_neg c14, if_neg c15, if_neg c16, if_neg c17, if_neg c18, if_neg c19, if_neg c20, if_neg c21, if_neg c22, if_pos c23]
    rw [dif_pos c23]; subst c23; zv_peel_arm (H_23 hi rfl _ _ _ _ rfl) H_39 hi
  rw [dif_neg c23]
  by_cases c24 : role = "io_flush"
  · have hi : armIndex role = 24 := by unfold armIndex; rw [if_neg c1, if_neg c2, if_neg c3, if_neg c4, if_neg c5, if_neg c6, if_neg c7, if_neg c8, if_neg c9, if_neg c10, if_neg c11, if_neg c12, if_neg c13, if_neg c14, if_neg c15, if_neg c16, if_neg c17, if_neg c18, if_neg c19, if_neg c20, if_neg c21, if_neg c22, if_neg c23, if_pos c24]
    rw [dif_pos c24]; subst c24; zv_peel_arm (H_24 hi rfl _ _ _ rfl) H_39 hi
  rw [dif_neg c24]
  by_cases c25 : role = "io_close_reader"
  · have hi : armIndex role = 25 := by unfold armIndex; rw [if_neg c1, if_neg c2, if_neg c3, if_neg c4, if_neg c5, if_neg c6, if_neg c7, if_neg c8, if_neg c9, if_neg c10, if_neg c11, if_neg c12, if_neg c13, if_neg c14, if_neg c15, if_neg c16, if_neg c17, if_neg c18, if_neg c19, if_neg c20, if_neg c21, if_neg c22, if_neg c23, if_neg c24, if_pos c25]
    rw [dif_pos c25]; subst c25; zv_peel_arm (H_25 hi rfl _ _ _ rfl) H_39 hi
  rw [dif_neg c25]
  by_cases c26 : role = "io_close_writer"
  · have hi : armIndex role = 26 := by unfold armIndex; rw [if_neg c1, if_neg c2, if_neg c3, if_neg c4, if_neg c5, if_neg c6, if_neg c7, if_neg c8, if_neg c9, if_neg c10, if_neg c11, if_neg c12, if_neg c13, if_neg c14, if_neg c15, if_neg c16, if_neg c17, if_neg c18, if_neg c19, if_neg c20, if_neg c21, if_neg c22, if_neg c23, if_neg c24, if_neg c25, if_pos c26]
    rw [dif_pos c26]; subst c26; zv_peel_arm (H_26 hi rfl _ _ _ rfl) H_39 hi
  rw [dif_neg c26]
  by_cases c27 : role = "fs_open_reader"
  · have hi : armIndex role = 27 := by unfold armIndex; rw [if_neg c1, if_neg c2, if_neg c3, if_neg c4, if_neg c5, if_neg c6, if_neg c7, if_neg c8, if_neg c9, if_neg c10, if_neg c11, if_neg c12, if_neg c13, if_neg c14, if_neg c15, if_neg c16, if_neg c17, if_neg c18, if_neg c19, if_neg c20, if_neg c21, if_neg c22, if_neg c23, if_neg c24, if_neg c25, if_neg c26, if_pos c27]
    rw [dif_pos c27]; subst c27; zv_peel_arm (H_27 hi rfl _ _ _ rfl) H_39 hi
  rw [dif_neg c27]
  by_cases c28 : role = "fs_create_writer"
  · have hi : armIndex role = 28 := by unfold armIndex; rw [if_neg c1, if_neg c2, if_neg c3, if_neg c4, if_neg c5, if_neg c6, if_neg c7, if_neg c8, if_neg c9, if_neg c10, if_neg c11, if_neg c12, if_neg c13, if_neg c14, if_neg c15, if_neg c16, if_neg c17, if_neg c18, if_neg c19, if_neg c20, if_neg c21, if_neg c22, if_neg c23, if_neg c24, if_neg c25, if_neg c26, if_neg c27, if_pos c28]
    rw [dif_pos c28]; subst c28; zv_peel_arm (H_28 hi rfl _ _ _ rfl) H_39 hi
  rw [dif_neg c28]
  by_cases c29 : role = "fs_append_writer"
  · have hi : armIndex role = 29 := by unfold armIndex; rw [if_neg c1, if_neg c2, if_neg c3, if_neg c4, if_neg c5, if_neg c6, if_neg c7, if_neg c8, if_neg c9, if_neg c10, if_neg c11, if_neg c12, if_neg c13, if_neg c14, if_neg c15, if_neg c16, if_neg c17, if_neg c18, if_neg c19, if_neg c20, if_neg c21, if_neg c22, if_neg c23, if_neg c24, if_neg c25, if_neg c26, if_neg c27, if_neg c28, if_pos c29]
    rw [dif_pos c29]; subst c29; zv_peel_arm (H_29 hi rfl _ _ _ rfl) H_39 hi
  rw [dif_neg c29]
  by_cases c30 : role = "write_str"
  · have hi : armIndex role = 30 := by unfold armIndex; rw [if_neg c1, if_neg c2, if_neg c3, if_neg c4, if_neg c5, if_neg c6, if_neg c7, if_neg c8, if_neg c9, if_neg c10, if_neg c11, if_neg c12, if_neg c13, if_neg c14, if_neg c15, if_neg c16, if_neg c17, if_neg c18, if_neg c19, if_neg c20, if_neg c21, if_neg c22, if_neg c23, if_neg c24, if_neg c25, if_neg c26, if_neg c27, if_neg c28, if_neg c29, if_pos c30]
    rw [dif_pos c30]; subst c30; zv_peel_arm (H_30 hi rfl _ _ rfl) H_39 hi
  rw [dif_neg c30]
  by_cases c31 : role = "write_int"
  · have hi : armIndex role = 31 := by unfold armIndex; rw [if_neg c1, if_neg c2, if_neg c3, if_neg c4, if_neg c5, if_neg c6, if_neg c7, if_neg c8, if_neg c9, if_neg c10, if_neg c11, if_neg c12, if_neg c13, if_neg c14, if_neg c15, if_neg c16, if_neg c17, if_neg c18, if_neg c19, if_neg c20, if_neg c21, if_neg c22, if_neg c23, if_neg c24, if_neg c25, if_neg c26, if_neg c27, if_neg c28, if_neg c29, if_neg c30, if_pos c31]
    rw [dif_pos c31]; subst c31; zv_peel_arm (H_31 hi rfl _ _ rfl) H_39 hi
  rw [dif_neg c31]
  by_cases c32 : role = "write_line"
  · have hi : armIndex role = 32 := by unfold armIndex; rw [if_neg c1, if_neg c2, if_neg c3, if_neg c4, if_neg c5, if_neg c6, if_neg c7, if_neg c8, if_neg c9, if_neg c10, if_neg c11, if_neg c12, if_neg c13, if_neg c14, if_neg c15, if_neg c16, if_neg c17, if_neg c18, if_neg c19, if_neg c20, if_neg c21, if_neg c22, if_neg c23, if_neg c24, if_neg c25, if_neg c26, if_neg c27, if_neg c28, if_neg c29, if_neg c30, if_neg c31, if_pos c32]
    rw [dif_pos c32]; subst c32; zv_peel_arm (H_32 hi rfl _ _ rfl) H_39 hi
  rw [dif_neg c32]
  by_cases c33 : role = "read_line"
  · have hi : armIndex role = 33 := by unfold armIndex; rw [if_neg c1, if_neg c2, if_neg c3, if_neg c4, if_neg c5, if_neg c6, if_neg c7, if_neg c8, if_neg c9, if_neg c10, if_neg c11, if_neg c12, if_neg c13, if_neg c14, if_neg c15, if_neg c16, if_neg c17, if_neg c18, if_neg c19, if_neg c20, if_neg c21, if_neg c22, if_neg c23, if_neg c24, if_neg c25, if_neg c26, if_neg c27, if_neg c28, if_neg c29, if_neg c30, if_neg c31, if_neg c32, if_pos c33]
    rw [dif_pos c33]; subst c33; zv_peel_arm (H_33 hi rfl _ rfl) H_39 hi
  rw [dif_neg c33]
  by_cases c34 : role = "read_line_as_int"
  · have hi : armIndex role = 34 := by unfold armIndex; rw [if_neg c1, if_neg c2, if_neg c3, if_neg c4, if_neg c5, if_neg c6, if_neg c7, if_neg c8, if_neg c9, if_neg c10, if_neg c11, if_neg c12, if_neg c13, if_neg c14, if_neg c15, if_neg c16, if_neg c17, if_neg c18, if_neg c19, if_neg c20, if_neg c21, if_neg c22, if_neg c23, if_neg c24, if_neg c25, if_neg c26, if_neg c27, if_neg c28, if_neg c29, if_neg c30, if_neg c31, if_neg c32, if_neg c33, if_pos c34]
    rw [dif_pos c34]; subst c34; zv_peel_arm (H_34 hi rfl _ _ rfl) H_39 hi
  rw [dif_neg c34]
  by_cases c35 : role = "read_till_eof"
  · have hi : armIndex role = 35 := by unfold armIndex; rw [if_neg c1, if_neg c2, if_neg c3, if_neg c4, if_neg c5, if_neg c6, if_neg c7, if_neg c8, if_neg c9, if_neg c10, if_neg c11, if_neg c12, if_neg c13, if_neg c14, if_neg c15, if_neg c16, if_neg c17, if_neg c18, if_neg c19, if_neg c20, if_neg c21, if_neg c22, if_neg c23, if_neg c24, if_neg c25, if_neg c26, if_neg c27, if_neg c28, if_neg c29, if_neg c30, if_neg c31, if_neg c32, if_neg c33, if_neg c34, if_pos c35]
    rw [dif_pos c35]; subst c35; zv_peel_arm (H_35 hi rfl _ rfl) H_39 hi
  rw [dif_neg c35]
  by_cases c36 : role = "arg_list"
  · have hi : armIndex role = 36 := by unfold armIndex; rw [if_neg c1, if_neg c2, if_neg c3, if_neg c4, if_neg c5, if_neg c6, if_neg c7, if_neg c8, if_neg c9, if_neg c10, if_neg c11, if_neg c12, if_neg c13, if_neg c14, if_neg c15, if_neg c16, if_neg c17, if_neg c18, if_neg c19, if_neg c20, if_neg c21, if_neg c22, if_neg c23, if_neg c24, if_neg c25, if_neg c26, if_neg c27, if_neg c28, if_neg c29, if_neg c30, if_neg c31, if_neg c32, if_neg c33, if_neg c34, if_neg c35, if_pos c36]
    rw [dif_pos c36]; subst c36; zv_peel_arm (H_36 hi rfl _ _ rfl) H_39 hi
  rw [dif_neg c36]
  by_cases c37 : role = "random_int"
  · have hi : armIndex role = 37 := by unfold armIndex; rw [if_neg c1, if_neg c2, if_neg c3, if_neg c4, if_neg c5, if_neg c6, if_neg c7, if_neg c8, if_neg c9, if_neg c10, if_neg c11, if_neg c12, if_neg c13, if_neg c14, if_neg c15, if_neg c16, if_neg c17, if_neg c18, if_neg c19, if_neg c20, if_neg c21, if_neg c22, if_neg c23, if_neg c24, if_neg c25, if_neg c26, if_neg c27, if_neg c28, if_neg c29, if_neg c30, if_neg c31, if_neg c32, if_neg c33, if_neg c34, if_neg c35, if_neg c36, if_pos c37]
    rw [dif_pos c37]; subst c37; zv_peel_arm (H_37 hi rfl _ rfl) H_39 hi
  rw [dif_neg c37]
  by_cases c38 : role = "exit"
  · have hi : armIndex role = 38 := by unfold armIndex; rw [if_neg c1, if_neg c2, if_neg c3, if_neg c4, if_neg c5, if_neg c6, if_neg c7, if_neg c8, if_neg c9, if_neg c10, if_neg c11, if_neg c12, if_neg c13, if_neg c14, if_neg c15, if_neg c16, if_neg c17, if_neg c18, if_neg c19, if_neg c20, if_neg c21, if_neg c22, if_neg c23, if_neg c24, if_neg c25, if_neg c26, if_neg c27, if_neg c28, if_neg c29, if_neg c30, if_neg c31, if_neg c32, if_neg c33, if_neg c34, if_neg c35, if_neg c36, if_neg c37, if_pos c38]
    rw [dif_pos c38]; subst c38; zv_peel_arm (H_38 hi rfl _ rfl) H_39 hi
  rw [dif_neg c38]
  have hi : armIndex role = 0 := by unfold armIndex; rw [if_neg c1, if_neg c2, if_neg c3, if_neg c4, if_neg c5, if_neg c6, if_neg c7, if_neg c8, if_neg c9, if_neg c10, if_neg c11, if_neg c12, if_neg c13, if_neg c14, if_neg c15, if_neg c16, if_neg c17, if_neg c18, if_neg c19, if_neg c20, if_neg c21, if_neg c22, if_neg c23, if_neg c24, if_neg c25, if_neg c26, if_neg c27, if_neg c28, if_neg c29, if_neg c30, if_neg c31, if_neg c32, if_neg c33, if_neg c34, if_neg c35, if_neg c36, if_neg c37, if_neg c38]
  exact H_39 (shapeMatch_of_index hi rfl) _ _


/-- The fall-through arm of `hostOp` (numeric roles), generic in what is done with the outcome. -/
def numericK {β : Type} (k : Out → β) (role : String) (args : List HV) : β :=
    match role.splitOn "_" with
    | ty :: opParts =>
      let op := "_".intercalate opParts
      match parseIntTy ty with
      | some t => k (intOp t op args)
      | none =>
        match ty, args with
        | "float32", [.f32 _] => k (if op == "to_string" then .ret (.str ['?']) else .shapeError)
        | "float64", [.f64 _] => k (if op == "to_string" then .ret (.str ['?']) else .shapeError)
        | "float32", [.f32 a, .f32 b] => k ((f32op op a b).getD .shapeError)
        | "float64", [.f64 a, .f64 b] => k ((f64op op a b).getD .shapeError)
        | "float32", [.f32 a, .f32 b, .thunk _, .thunk _] =>
          let x := Float32.ofBits a; let y := Float32.ofBits b
          match op with
          | "eq" => k (if x == y then .call 2 [] else .call 3 [])
          | "lt" => k (if x < y then .call 2 [] else .call 3 [])
          | "gt" => k (if x > y then .call 2 [] else .call 3 [])
          | _ => k .shapeError
        | "float64", [.f64 a, .f64 b, .thunk _, .thunk _] =>
          let x := Float.ofBits a; let y := Float.ofBits b
          match op with
          | "eq" => k (if x == y then .call 2 [] else .call 3 [])
          | "lt" => k (if x < y then .call 2 [] else .call 3 [])
          | "gt" => k (if x > y then .call 2 [] else .call 3 [])
          | _ => k .shapeError
        | _, _ => k .shapeError
    | [] => k .shapeError

def numericOp (role : String) (args : List HV) : Out := numericK id role args

theorem numericK_eq {β : Type} (k : Out → β) (role : String) (args : List HV) :
    numericK k role args = k (numericOp role args) := by
  unfold numericOp numericK
  split
  · simp only
    split
    · rfl
    · split
      all_goals first | rfl | (split <;> rfl)
  · rfl


/-! ### Handle table -/

def rkeys (σ : Host) : List Nat := σ.readers.map (·.1)
def wkeys (σ : Host) : List Nat := σ.writers.map (·.1)

/-- What a single host operation can do to the handle table. -/
inductive Step (σ σ' : Host) : Prop
  | same (h1 : σ'.nextReader = σ.nextReader) (h2 : σ'.nextWriter = σ.nextWriter)
      (h3 : rkeys σ' = rkeys σ) (h4 : wkeys σ' = wkeys σ)
  | closeR (h : Nat) (h1 : σ'.nextReader = σ.nextReader) (h2 : σ'.nextWriter = σ.nextWriter)
      (h3 : rkeys σ' = (rkeys σ).filter (· != h)) (h4 : wkeys σ' = wkeys σ)
  | closeW (h : Nat) (h1 : σ'.nextReader = σ.nextReader) (h2 : σ'.nextWriter = σ.nextWriter)
      (h3 : rkeys σ' = rkeys σ) (h4 : wkeys σ' = (wkeys σ).filter (· != h))
  | openR (h1 : σ'.nextReader = σ.nextReader + 1) (h2 : σ'.nextWriter = σ.nextWriter)
      (h3 : rkeys σ' = rkeys σ ++ [σ.nextReader]) (h4 : wkeys σ' = wkeys σ)
  | openW (h1 : σ'.nextReader = σ.nextReader) (h2 : σ'.nextWriter = σ.nextWriter + 1)
      (h3 : rkeys σ' = rkeys σ) (h4 : wkeys σ' = wkeys σ ++ [σ.nextWriter])

theorem Step.refl (σ : Host) : Step σ σ := .same rfl rfl rfl rfl

theorem rkeys_setReader (σ : Host) (h : Nat) (rest : Bytes) : rkeys (σ.setReader h rest) = rkeys σ := by
  simp only [rkeys, Host.setReader, List.map_map]
  apply List.map_congr_left
  intro x _
  obtain ⟨k, b⟩ := x
  simp only [Function.comp]
  split <;> rfl

theorem writeFile_fields (σ : Host) (p : List Char) (f : Bytes → Bytes) :
    (σ.writeFile p f).nextReader = σ.nextReader ∧ (σ.writeFile p f).nextWriter = σ.nextWriter ∧
    (σ.writeFile p f).readers = σ.readers ∧ (σ.writeFile p f).writers = σ.writers := by
  unfold Host.writeFile; split <;> exact ⟨rfl, rfl, rfl, rfl⟩

theorem Step.writeFile (σ : Host) (p : List Char) (f : Bytes → Bytes) : Step σ (σ.writeFile p f) := by
  obtain ⟨h1, h2, h3, h4⟩ := writeFile_fields σ p f
  exact .same h1 h2 (by simp [rkeys, h3]) (by simp [wkeys, h4])

theorem Step.readWith {σ σ' : Host} {h : Nat} {take : Bytes → Bytes × Bytes} {got : Bytes}
    (e : readWith σ h take = some (got, σ')) : Step σ σ' := by
  unfold ZV.Host.readWith at e
  split at e
  · simp only [Option.some.injEq, Prod.mk.injEq] at e
    obtain ⟨_, rfl⟩ := e
    exact .same rfl rfl rfl rfl
  · split at e
    · simp only [Option.some.injEq, Prod.mk.injEq] at e
      obtain ⟨_, rfl⟩ := e
      exact .same rfl rfl (rkeys_setReader _ _ _) rfl
    · cases e

theorem Step.writeTo {σ σ' : Host} {h : Nat} {b : Bytes} (e : writeTo σ h b = some σ') : Step σ σ' := by
  unfold ZV.Host.writeTo at e
  split at e
  · cases e; exact .same rfl rfl rfl rfl
  · split at e
    · cases e; exact Step.writeFile _ _ _
    · cases e

/-- One host operation, whatever its role and arguments, changes the handle table in one of the
five ways of `Step`. -/
theorem hostOp_step (role : String) (args : List HV) (σ : Host) : Step σ (hostOp role args σ).1 := by
  unfold hostOp
  apply match20_elim (P := fun r : Host × Out => Step σ r.1)
  all_goals intros
  all_goals try exact Step.refl σ
  case H_20 =>
    simp only
    split
    · exact Step.refl σ
    · split
      · next e => exact Step.readWith e
      · exact Step.refl σ
  case H_21 =>
    split
    · next e => split <;> exact Step.readWith e
    · exact Step.refl σ
  case H_22 =>
    split
    · next e => exact Step.readWith e
    · exact Step.refl σ
  case H_23 =>
    split
    · next e => exact Step.writeTo e
    · exact Step.refl σ
  case H_24 =>
    split
    · next e => exact Step.writeTo e
    · exact Step.refl σ
  case H_25 =>
    rename_i hd _ _ _
    split
    · exact Step.refl σ
    · split
      · exact .closeR hd rfl rfl (by simp [rkeys, List.filter_map, Function.comp_def]) rfl
      · exact Step.refl σ
  case H_26 =>
    rename_i hd _ _ _
    split
    · exact Step.refl σ
    · split
      · exact .closeW hd rfl rfl rfl (by simp [wkeys, List.filter_map, Function.comp_def])
      · exact Step.refl σ
  case H_27 =>
    split
    · exact .openR rfl rfl (by simp [rkeys]) rfl
    · exact Step.refl σ
  case H_28 =>
    obtain ⟨h1, h2, h3, h4⟩ := writeFile_fields σ _ (fun _ => [])
    exact .openW h1 rfl (by simp [rkeys, h3]) (by simp [wkeys])
  case H_29 =>
    obtain ⟨h1, h2, h3, h4⟩ := writeFile_fields σ _ id
    exact .openW h1 rfl (by simp [rkeys, h3]) (by simp [wkeys])
  case H_30 => exact .same rfl rfl rfl rfl
  case H_31 => exact .same rfl rfl rfl rfl
  case H_32 => exact .same rfl rfl rfl rfl
  case H_33 =>
    split
    split
    · split
      · exact .same rfl rfl rfl rfl
      · exact Step.refl σ
    · exact Step.refl σ
  case H_34 =>
    split
    split
    · split <;> exact .same rfl rfl rfl rfl
    · exact Step.refl σ
  case H_35 =>
    split
    · exact .same rfl rfl rfl rfl
    · exact Step.refl σ
  case H_39 =>
    show Step σ (numericK (fun o => (σ, o)) role args).1
    rw [numericK_eq]
    exact Step.refl σ

/-- The handle-table invariant (the same proposition as `Statement.HandleInv`). -/
def Inv (σ : Host) : Prop :=
  1 ≤ σ.nextReader ∧ 2 ≤ σ.nextWriter ∧
  (∀ h ∈ σ.readers.map (·.1), 1 ≤ h ∧ h < σ.nextReader) ∧
  (∀ h ∈ σ.writers.map (·.1), 2 ≤ h ∧ h < σ.nextWriter) ∧
  (σ.readers.map (·.1)).Nodup ∧ (σ.writers.map (·.1)).Nodup

theorem nodup_append_singleton {l : List Nat} {a : Nat} (hl : l.Nodup) (ha : a ∉ l) :
    (l ++ [a]).Nodup := by
  rw [List.nodup_append]
  refine ⟨hl, by simp, ?_⟩
  intro x hx y hy
  simp only [List.mem_singleton] at hy
  subst hy
  intro e; subst e; exact ha hx

theorem Step.inv {σ σ' : Host} (st : Step σ σ') (hi : Inv σ) : Inv σ' := by
  obtain ⟨i1, i2, i3, i4, i5, i6⟩ := hi
  change ∀ h ∈ rkeys σ, _ at i3
  change ∀ h ∈ wkeys σ, _ at i4
  change (rkeys σ).Nodup at i5
  change (wkeys σ).Nodup at i6
  unfold Inv
  change _ ∧ _ ∧ (∀ h ∈ rkeys σ', _) ∧ (∀ h ∈ wkeys σ', _) ∧ (rkeys σ').Nodup ∧ (wkeys σ').Nodup
  cases st with
  | same h1 h2 h3 h4 => rw [h1, h2, h3, h4]; exact ⟨i1, i2, i3, i4, i5, i6⟩
  | closeR h h1 h2 h3 h4 =>
    rw [h1, h2, h3, h4]
    exact ⟨i1, i2, fun x hx => i3 x (List.mem_filter.1 hx).1, i4, i5.filter _, i6⟩
  | closeW h h1 h2 h3 h4 =>
    rw [h1, h2, h3, h4]
    exact ⟨i1, i2, i3, fun x hx => i4 x (List.mem_filter.1 hx).1, i5, i6.filter _⟩
  | openR h1 h2 h3 h4 =>
    rw [h1, h2, h3, h4]
    refine ⟨by omega, i2, ?_, i4, ?_, i6⟩
    · intro x hx
      rcases List.mem_append.1 hx with hx | hx
      · have := i3 x hx; omega
      · simp only [List.mem_singleton] at hx; omega
    · exact nodup_append_singleton i5 (fun hm => by have := i3 _ hm; omega)
  | openW h1 h2 h3 h4 =>
    rw [h1, h2, h3, h4]
    refine ⟨i1, by omega, i3, ?_, i5, ?_⟩
    · intro x hx
      rcases List.mem_append.1 hx with hx | hx
      · have := i4 x hx; omega
      · simp only [List.mem_singleton] at hx; omega
    · exact nodup_append_singleton i6 (fun hm => by have := i4 _ hm; omega)

theorem Step.mono {σ σ' : Host} (st : Step σ σ') :
    σ.nextReader ≤ σ'.nextReader ∧ σ.nextWriter ≤ σ'.nextWriter := by
  cases st <;> omega

theorem Step.closedR {σ σ' : Host} (st : Step σ σ') {h : Nat} (hlt : h < σ.nextReader)
    (hc : h ∉ rkeys σ) : h ∉ rkeys σ' := by
  cases st with
  | same h1 h2 h3 h4 => rwa [h3]
  | closeR k h1 h2 h3 h4 => rw [h3]; exact fun hm => hc (List.mem_filter.1 hm).1
  | closeW k h1 h2 h3 h4 => rwa [h3]
  | openR h1 h2 h3 h4 =>
    rw [h3]; intro hm
    rcases List.mem_append.1 hm with hm | hm
    · exact hc hm
    · simp only [List.mem_singleton] at hm; omega
  | openW h1 h2 h3 h4 => rwa [h3]

theorem Step.closedW {σ σ' : Host} (st : Step σ σ') {h : Nat} (hlt : h < σ.nextWriter)
    (hc : h ∉ wkeys σ) : h ∉ wkeys σ' := by
  cases st with
  | same h1 h2 h3 h4 => rwa [h4]
  | closeR k h1 h2 h3 h4 => rwa [h4]
  | closeW k h1 h2 h3 h4 => rw [h4]; exact fun hm => hc (List.mem_filter.1 hm).1
  | openR h1 h2 h3 h4 => rwa [h4]
  | openW h1 h2 h3 h4 =>
    rw [h4]; intro hm
    rcases List.mem_append.1 hm with hm | hm
    · exact hc hm
    · simp only [List.mem_singleton] at hm; omega

theorem reader?_eq_none_iff (σ : Host) (h : Nat) : σ.reader? h = none ↔ h ∉ rkeys σ := by
  simp only [Host.reader?, Option.map_eq_none_iff, List.find?_eq_none, rkeys, List.mem_map, not_exists,
    not_and, beq_iff_eq]

theorem writer?_eq_none_iff (σ : Host) (h : Nat) : σ.writer? h = none ↔ h ∉ wkeys σ := by
  simp only [Host.writer?, Option.map_eq_none_iff, List.find?_eq_none, wkeys, List.mem_map, not_exists,
    not_and, beq_iff_eq]

/-- Run a sequence of operations (the same function as `Statement.runOps`). -/
def run (ops : List (String × List HV)) (σ : Host) : Host :=
  ops.foldl (fun σ op => (hostOp op.1 op.2 σ).1) σ

theorem run_cons (op : String × List HV) (ops : List (String × List HV)) (σ : Host) :
    run (op :: ops) σ = run ops (hostOp op.1 op.2 σ).1 := rfl

theorem run_inv (ops : List (String × List HV)) (σ : Host) (hi : Inv σ) :
    Inv (run ops σ) ∧ σ.nextReader ≤ (run ops σ).nextReader ∧ σ.nextWriter ≤ (run ops σ).nextWriter := by
  induction ops generalizing σ with
  | nil => exact ⟨hi, Nat.le_refl _, Nat.le_refl _⟩
  | cons op ops ih =>
    rw [run_cons]
    have st := hostOp_step op.1 op.2 σ
    obtain ⟨a, b, c⟩ := ih _ (st.inv hi)
    have := st.mono
    exact ⟨a, by omega, by omega⟩

theorem run_closedR (ops : List (String × List HV)) (σ : Host) (h : Nat)
    (hlt : h < σ.nextReader) (hc : σ.reader? h = none) : (run ops σ).reader? h = none := by
  induction ops generalizing σ with
  | nil => exact hc
  | cons op ops ih =>
    rw [run_cons]
    have st := hostOp_step op.1 op.2 σ
    apply ih
    · have := st.mono; omega
    · rw [reader?_eq_none_iff] at hc ⊢; exact st.closedR hlt hc

theorem run_closedW (ops : List (String × List HV)) (σ : Host) (h : Nat)
    (hlt : h < σ.nextWriter) (hc : σ.writer? h = none) : (run ops σ).writer? h = none := by
  induction ops generalizing σ with
  | nil => exact hc
  | cons op ops ih =>
    rw [run_cons]
    have st := hostOp_step op.1 op.2 σ
    apply ih
    · have := st.mono; omega
    · rw [writer?_eq_none_iff] at hc ⊢; exact st.closedW hlt hc

theorem inv_init : Inv {} := by
  refine ⟨Nat.le_refl _, Nat.le_refl _, ?_, ?_, ?_, ?_⟩ <;> simp

/-- Operations on a closed reader report `Closed`. -/
theorem closed_reader_ops (σ : Host) (h : Nat) (h0 : h ≠ 0) (hc : σ.reader? h = none) (k₁ k₂ k₃ : Nat) :
    (hostOp "io_read_all" [.reader h, .thunk k₁, .thunk k₂] σ).2 = closedError 1 ∧
    (hostOp "io_read_line" [.reader h, .thunk k₁, .thunk k₂, .thunk k₃] σ).2 = closedError 1 ∧
    (hostOp "io_close_reader" [.reader h, .thunk k₁, .thunk k₂] σ).2 = closedError 1 := by
  have hr : ∀ take, readWith σ h take = none := by
    intro take; simp [readWith, h0, hc]
  refine ⟨?_, ?_, ?_⟩
  · show (match readWith σ h (fun b => (b, [])) with
      | some (got, σ') => (σ', Out.call 2 [.bytes got])
      | none => (σ, closedError 1)).2 = _
    rw [hr]
  · show (match readWith σ h takeLine with
      | some (got, σ') => if got.isEmpty then (σ', Out.call 2 []) else (σ', .call 3 [.bytes (stripEol got)])
      | none => (σ, closedError 1)).2 = _
    rw [hr]
  · show (if h = 0 then (σ, Out.call 2 [])
      else if (σ.reader? h).isSome then
        ({ σ with readers := σ.readers.filter (·.1 != h) }, .call 2 [])
      else (σ, closedError 1)).2 = _
    simp [h0, hc]

theorem closed_writer_ops (σ : Host) (h : Nat) (h0 : h ≠ 0) (h1 : h ≠ 1) (hc : σ.writer? h = none)
    (b : Bytes) (k₁ k₂ : Nat) :
    (hostOp "io_write_all" [.writer h, .bytes b, .thunk k₁, .thunk k₂] σ).2 = closedError 2 ∧
    (hostOp "io_flush" [.writer h, .thunk k₁, .thunk k₂] σ).2 = closedError 1 ∧
    (hostOp "io_close_writer" [.writer h, .thunk k₁, .thunk k₂] σ).2 = closedError 1 := by
  have hw : ∀ b, writeTo σ h b = none := by
    intro b; simp [writeTo, h0, h1, hc]
  refine ⟨?_, ?_, ?_⟩
  · show (match writeTo σ h b with
      | some σ' => (σ', Out.call 3 [])
      | none => (σ, closedError 2)).2 = _
    rw [hw]
  · show (match writeTo σ h [] with
      | some σ' => (σ', Out.call 2 [])
      | none => (σ, closedError 1)).2 = _
    rw [hw]
  · show (if h = 0 ∨ h = 1 then (σ, Out.call 2 [])
      else if (σ.writer? h).isSome then
        ({ σ with writers := σ.writers.filter (·.1 != h) }, .call 2 [])
      else (σ, closedError 1)).2 = _
    simp [h0, h1, hc]

open String (Pos.Raw)

/-! ### `String.splitOn` on a one-character separator, in terms of lists -/

theorem utf8ByteSize_ofList (cs : List Char) : (String.ofList cs).utf8ByteSize = byteLen cs := by
  rw [← length_encodeUtf8, encodeUtf8, byteArray_toList_eq, Array.length_toList]
  rfl

theorem byteLen_nil : byteLen [] = 0 := rfl
theorem byteLen_cons (c : Char) (cs : List Char) : byteLen (c :: cs) = c.utf8Size + byteLen cs := by
  simp [byteLen]
theorem byteLen_append (a b : List Char) : byteLen (a ++ b) = byteLen a + byteLen b := by
  simp [byteLen]

theorem utf8GetAux_of_valid (cs cs' : List Char) (i : Nat) :
    Pos.Raw.utf8GetAux (cs ++ cs') ⟨i⟩ ⟨i + byteLen cs⟩ = cs'.headD default := by
  induction cs generalizing i with
  | nil => cases cs' <;> simp [Pos.Raw.utf8GetAux, byteLen_nil]
  | cons c cs ih =>
    have hp := Char.utf8Size_pos c
    simp only [List.cons_append, Pos.Raw.utf8GetAux, byteLen_cons, Pos.Raw.ext_iff, Pos.Raw.add_char_eq]
    rw [if_neg (by omega)]
    have := ih (i + c.utf8Size)
    rwa [Nat.add_assoc] at this

theorem get_of_valid (cs cs' : List Char) :
    Pos.Raw.get (String.ofList (cs ++ cs')) ⟨byteLen cs⟩ = cs'.headD default := by
  rw [Pos.Raw.get, String.toList_ofList]
  simpa using utf8GetAux_of_valid cs cs' 0

theorem next_of_valid (cs : List Char) (c : Char) (cs' : List Char) :
    Pos.Raw.next (String.ofList (cs ++ c :: cs')) ⟨byteLen cs⟩ = ⟨byteLen cs + c.utf8Size⟩ := by
  simp only [Pos.Raw.next, get_of_valid, List.headD_cons, Pos.Raw.add_char_eq]

theorem atEnd_of_valid (cs cs' : List Char) :
    Pos.Raw.atEnd (String.ofList (cs ++ cs')) ⟨byteLen cs⟩ = true ↔ cs' = [] := by
  simp only [Pos.Raw.atEnd, utf8ByteSize_ofList, byteLen_append, decide_eq_true_eq]
  cases cs' with
  | nil => simp [byteLen_nil]
  | cons c cs' =>
    have hp := Char.utf8Size_pos c
    simp only [byteLen_cons, reduceCtorEq, iff_false]
    omega

theorem go₂_append_left (s t : List Char) (i : Nat) :
    Pos.Raw.extract.go₂ (s ++ t) ⟨i⟩ ⟨i + byteLen s⟩ = s := by
  induction s generalizing i with
  | nil => cases t <;> simp [Pos.Raw.extract.go₂, byteLen_nil]
  | cons c cs ih =>
    have hp := Char.utf8Size_pos c
    simp only [List.cons_append, Pos.Raw.extract.go₂, byteLen_cons, Pos.Raw.ext_iff, Pos.Raw.add_char_eq]
    rw [if_neg (by omega)]
    have := ih (i + c.utf8Size)
    rw [Nat.add_assoc] at this
    rw [this]

theorem go₁_append_right (s t : List Char) (i : Nat) (e : Pos.Raw) :
    Pos.Raw.extract.go₁ (s ++ t) ⟨i⟩ ⟨i + byteLen s⟩ e = Pos.Raw.extract.go₂ t ⟨i + byteLen s⟩ e := by
  induction s generalizing i with
  | nil =>
    cases t with
    | nil => simp [Pos.Raw.extract.go₁, Pos.Raw.extract.go₂]
    | cons c t => simp only [List.nil_append, Pos.Raw.extract.go₁, byteLen_nil, Nat.add_zero, if_true]
  | cons c cs ih =>
    have hp := Char.utf8Size_pos c
    simp only [List.cons_append, Pos.Raw.extract.go₁, byteLen_cons, Pos.Raw.ext_iff, Pos.Raw.add_char_eq]
    rw [if_neg (by omega)]
    have := ih (i + c.utf8Size)
    rwa [Nat.add_assoc] at this

theorem extract_of_valid (l m r : List Char) :
    Pos.Raw.extract (String.ofList (l ++ (m ++ r))) ⟨byteLen l⟩ ⟨byteLen l + byteLen m⟩ = String.ofList m := by
  simp only [Pos.Raw.extract]
  split
  · next h =>
    have : byteLen m = 0 := by omega
    cases m with
    | nil => rfl
    | cons c m => have hp := Char.utf8Size_pos c; rw [byteLen_cons] at this; omega
  · congr 1
    rw [String.toList_ofList]
    have h1 := go₁_append_right l (m ++ r) 0 ⟨byteLen l + byteLen m⟩
    simp only [Nat.zero_add] at h1
    show Pos.Raw.extract.go₁ (l ++ (m ++ r)) ⟨0⟩ _ _ = _
    rw [h1]
    exact go₂_append_left m r (byteLen l)

/-- Splitting a list at every occurrence of `sep`; `acc` is the current piece, reversed. -/
def splitL (sep : Char) : List Char → List Char → List (List Char)
  | [], acc => [acc.reverse]
  | c :: cs, acc => if c = sep then acc.reverse :: splitL sep cs [] else splitL sep cs (c :: acc)

theorem splitOnAux_of_valid (sep : Char) (s : String) (l m r : List Char) (acc : List String) (b i : Nat)
    (hs : s = String.ofList (l ++ (m ++ r))) (hb : b = byteLen l) (hi : i = byteLen l + byteLen m) :
    String.splitOnAux s (String.ofList [sep]) ⟨b⟩ ⟨i⟩ 0 acc =
      acc.reverse ++ (splitL sep r m.reverse).map String.ofList := by
  induction r generalizing s l m acc b i with
  | nil =>
    rw [String.splitOnAux]
    have hE : Pos.Raw.atEnd s ⟨i⟩ = true := by
      have := (atEnd_of_valid (l ++ m) []).2 rfl
      rw [byteLen_append, ← hi] at this
      rw [hs]; simpa using this
    rw [if_pos hE]
    have hx := extract_of_valid l m []
    rw [← hs, ← hi, ← hb] at hx
    simp only [hx, splitL, List.reverse_reverse, List.map_cons, List.map_nil, List.reverse_cons]
  | cons c r ih =>
    rw [String.splitOnAux]
    have hs' : s = String.ofList ((l ++ m) ++ c :: r) := by rw [hs, List.append_assoc]
    have hi' : i = byteLen (l ++ m) := by rw [hi, byteLen_append]
    have hE : ¬ Pos.Raw.atEnd s ⟨i⟩ = true := by
      rw [hs', hi', atEnd_of_valid]; exact List.cons_ne_nil _ _
    rw [if_neg hE]
    have hget : Pos.Raw.get s ⟨i⟩ = c := by
      rw [hs', hi', get_of_valid]; rfl
    have hnext : Pos.Raw.next s ⟨i⟩ = ⟨i + c.utf8Size⟩ := by
      rw [hs', hi', next_of_valid]
    have hsep : Pos.Raw.get (String.ofList [sep]) 0 = sep := get_of_valid [] [sep]
    have hnsep : Pos.Raw.next (String.ofList [sep]) 0 = ⟨sep.utf8Size⟩ := by
      have := next_of_valid [] sep []
      simpa [byteLen_nil] using this
    have hendsep : Pos.Raw.atEnd (String.ofList [sep]) ⟨sep.utf8Size⟩ = true := by
      have := (atEnd_of_valid [sep] []).2 rfl
      simpa [byteLen_cons, byteLen_nil] using this
    have hx := extract_of_valid l m (c :: r)
    rw [← hs, ← hi, ← hb] at hx
    simp only [hget, hsep, hnsep, hendsep, if_true, hnext]
    by_cases hc : c = sep
    · subst hc
      simp only [beq_self_eq_true, if_true, Pos.Raw.unoffsetBy, Nat.add_sub_cancel, hx]
      rw [ih s (l ++ m ++ [c]) [] (String.ofList m :: acc) (i + c.utf8Size) (i + c.utf8Size)
        (by rw [hs]; simp) (by rw [hi]; simp [byteLen_append, byteLen_cons, byteLen_nil]; omega)
        (by rw [hi]; simp [byteLen_append, byteLen_cons, byteLen_nil]; omega)]
      simp [splitL]
    · have hb' : (c == sep) = false := by simpa using hc
      simp only [hb', Bool.false_eq_true, if_false, Pos.Raw.unoffsetBy]
      show String.splitOnAux s (String.ofList [sep]) ⟨b⟩ (Pos.Raw.next s ⟨i⟩) 0 acc = _
      rw [hnext, ih s l (m ++ [c]) acc b (i + c.utf8Size)
        (by rw [hs]; simp) hb
        (by rw [hi]; simp [byteLen_append, byteLen_cons, byteLen_nil]; omega)]
      simp [splitL, hc]

theorem splitOn_singleton (sep : Char) (s : String) :
    s.splitOn (String.ofList [sep]) = (splitL sep s.toList []).map String.ofList := by
  unfold String.splitOn
  have hne : (String.ofList [sep] == "") = false := by
    rw [beq_eq_false_iff_ne]; intro h
    have := congrArg String.toList h
    simp at this
  rw [hne]
  simp only [Bool.false_eq_true, if_false]
  have := splitOnAux_of_valid sep s [] [] s.toList [] 0 0 (by simp) rfl rfl
  simpa using this

theorem splitOn_underscore (s : String) :
    s.splitOn "_" = (splitL '_' s.toList []).map String.ofList :=
  splitOn_singleton '_' s


theorem splitL_ne_nil (sep : Char) (l acc : List Char) : splitL sep l acc ≠ [] := by
  induction l generalizing acc with
  | nil => simp [splitL]
  | cons c cs ih => unfold splitL; split <;> simp [ih]

theorem intercalate_splitL (sep : Char) (l acc : List Char) :
    (String.ofList [sep]).intercalate ((splitL sep l acc).map String.ofList) =
      String.ofList (acc.reverse ++ l) := by
  induction l generalizing acc with
  | nil => simp [splitL]
  | cons c cs ih =>
    unfold splitL
    split
    · next h =>
      subst h
      rw [List.map_cons, String.intercalate_cons_of_ne_nil (by simpa using splitL_ne_nil c cs []), ih]
      simp only [List.reverse_nil, List.nil_append, ← String.ofList_append]
      congr 1
      simp
    · rw [ih]; simp

theorem intercalate_splitOn_underscore (s : String) : "_".intercalate (s.splitOn "_") = s := by
  rw [splitOn_underscore]
  have := intercalate_splitL '_' s.toList []
  simpa using this

theorem parseIntTy_eq_some {ty : String} {t : IntTy} (h : parseIntTy ty = some t) : ty = t.sourceName := by
  unfold parseIntTy at h
  have := List.find?_some h
  exact (by simpa using this : t.sourceName = ty).symm

/-- What a role whose numeric part is `<ty>_<op>` looks like. -/
theorem role_eq_of_splitOn {role ty op : String} {opParts : List String}
    (h : role.splitOn "_" = ty :: opParts) (hop : "_".intercalate opParts = op) (hne : op ≠ "") :
    role = ty ++ "_" ++ op := by
  have := intercalate_splitOn_underscore role
  rw [h] at this
  have hp : opParts ≠ [] := by
    intro e; subst e; simp at hop; exact hne hop
  rw [String.intercalate_cons_of_ne_nil hp, hop] at this
  exact this.symm

theorem f32op_ne_trap (op : String) (a b : UInt32) : (f32op op a b).getD .shapeError ≠ .trap := by
  unfold f32op; simp only; split <;> simp

theorem f64op_ne_trap (op : String) (a b : UInt64) : (f64op op a b).getD .shapeError ≠ .trap := by
  unfold f64op; simp only; split <;> simp

/-- `intOp`'s arithmetic arm. -/
def intArith (t : IntTy) (o : AOp) (args : List HV) : Out :=
  match args with
  | [.int t1 a, .int t2 b] =>
    if h1 : t1 = t then if h2 : t2 = t then
      match Numeric.arith t o (h1 ▸ a) (h2 ▸ b) with
      | .ok r => .ret (.int t r)
      | .trap => .trap
    else .shapeError else .shapeError
  | _ => .shapeError

/-- `intOp`'s comparison arm. -/
def intBranch (t : IntTy) (o : COp) (args : List HV) : Out :=
  match args with
  | [.int t1 a, .int t2 b, .thunk _, .thunk _] =>
    if h1 : t1 = t then if h2 : t2 = t then
      if Numeric.cmp t o (h1 ▸ a) (h2 ▸ b) then .call 2 [] else .call 3 []
    else .shapeError else .shapeError
  | _ => .shapeError

/-- `intOp`'s `to_string` arm. -/
def intToStr (t : IntTy) (args : List HV) : Out :=
  match args with
  | [.int t1 a] => if h1 : t1 = t then .ret (.str (Numeric.toStr t (h1 ▸ a))) else .shapeError
  | _ => .shapeError

theorem intOp_eq (t : IntTy) (op : String) (args : List HV) :
    intOp t op args =
      match op with
      | "add" => intArith t .add args | "sub" => intArith t .sub args | "mul" => intArith t .mul args
      | "div" => intArith t .div args | "mod" => intArith t .rem args
      | "eq" => intBranch t .eq args | "lt" => intBranch t .lt args | "gt" => intBranch t .gt args
      | "to_string" => intToStr t args
      | _ => .shapeError := rfl

theorem intArith_trap {t : IntTy} {o : AOp} {args : List HV} (h : intArith t o args = .trap) :
    ∃ (a b : BitVec t.width), args = [.int t a, .int t b] ∧ b = 0 ∧ (o = .div ∨ o = .rem) := by
  unfold intArith at h
  split at h
  · next t1 a t2 b =>
    split at h
    · next h1 =>
      split at h
      · next h2 =>
        subst h1; subst h2
        split at h
        · cases h
        · next e =>
          refine ⟨a, b, rfl, ?_⟩
          cases o <;> simp [Numeric.arith] at e <;> simp [e]
      · cases h
    · cases h
  · cases h

theorem intBranch_ne_trap (t : IntTy) (o : COp) (args : List HV) : intBranch t o args ≠ .trap := by
  unfold intBranch; repeat' split
  all_goals simp

theorem intToStr_ne_trap (t : IntTy) (args : List HV) : intToStr t args ≠ .trap := by
  unfold intToStr; repeat' split
  all_goals simp

theorem intOp_trap {t : IntTy} {op : String} {args : List HV} (h : intOp t op args = .trap) :
    ∃ (a b : BitVec t.width), args = [.int t a, .int t b] ∧ b = 0 ∧ (op = "div" ∨ op = "mod") := by
  rw [intOp_eq] at h
  split at h
  · obtain ⟨a, b, e, hb, ho⟩ := intArith_trap h; simp at ho
  · obtain ⟨a, b, e, hb, ho⟩ := intArith_trap h; simp at ho
  · obtain ⟨a, b, e, hb, ho⟩ := intArith_trap h; simp at ho
  · obtain ⟨a, b, e, hb, ho⟩ := intArith_trap h; exact ⟨a, b, e, hb, Or.inl rfl⟩
  · obtain ⟨a, b, e, hb, ho⟩ := intArith_trap h; exact ⟨a, b, e, hb, Or.inr rfl⟩
  · exact absurd h (intBranch_ne_trap _ _ _)
  · exact absurd h (intBranch_ne_trap _ _ _)
  · exact absurd h (intBranch_ne_trap _ _ _)
  · exact absurd h (intToStr_ne_trap _ _)
  · cases h

theorem numericOp_trap {role : String} {args : List HV} (h : numericOp role args = .trap) :
    ∃ (ty : String) (opParts : List String) (t : IntTy), role.splitOn "_" = ty :: opParts ∧
      parseIntTy ty = some t ∧ intOp t ("_".intercalate opParts) args = .trap := by
  unfold numericOp numericK at h
  split at h
  · next ty opParts hsp =>
    simp only [id] at h
    split at h
    · next t ht => exact ⟨ty, opParts, t, hsp, ht, h⟩
    · exfalso
      revert h
      split
      all_goals first
        | exact f32op_ne_trap _ _ _
        | exact f64op_ne_trap _ _ _
        | (repeat' split) <;> simp
  · cases h


theorem optional_ne_trap (v : Option HV) (a b : Nat) : ZV.Host.optional v a b ≠ .trap := by
  unfold ZV.Host.optional; split <;> simp

theorem optionalPair_ne_trap (v : Option (List Char × List Char)) (a b : Nat) : optionalPair v a b ≠ .trap := by
  unfold optionalPair; split <;> simp

/-- A trap can only come from the numeric fall-through arm. -/
theorem hostOp_trap {role : String} {args : List HV} {σ : Host} (h : (hostOp role args σ).2 = .trap) :
    numericOp role args = .trap := by
  revert h
  unfold hostOp
  apply match20_elim (P := fun r : Host × Out => r.2 = .trap → numericOp role args = .trap)
  case H_39 =>
    intro _ _ _
    show (numericK (fun o => (σ, o)) role args).2 = .trap → _
    rw [numericK_eq]; exact id
  all_goals intros
  all_goals exfalso
  all_goals rename_i h
  all_goals revert h
  all_goals first
    | exact optional_ne_trap _ _ _
    | exact optionalPair_ne_trap _ _ _
    | (simp only []; (repeat' split) <;> simp [closedError])

theorem trap_only_div_by_zero (role : String) (args : List HV) (σ : Host)
    (h : (hostOp role args σ).2 = .trap) :
    ∃ (t : IntTy) (a b : BitVec t.width), args = [.int t a, .int t b] ∧ val t b = 0 ∧
      (role = t.sourceName ++ "_div" ∨ role = t.sourceName ++ "_mod") := by
  obtain ⟨ty, opParts, t, hsp, ht, hint⟩ := numericOp_trap (hostOp_trap h)
  obtain ⟨a, b, hargs, hb, hop⟩ := intOp_trap hint
  have hty := parseIntTy_eq_some ht
  refine ⟨t, a, b, hargs, (eq_zero_iff_val t b).1 hb, ?_⟩
  rcases hop with hop | hop
  · left
    have := role_eq_of_splitOn hsp hop (by decide)
    rw [this, hty, String.append_assoc]; rfl
  · right
    have := role_eq_of_splitOn hsp hop (by decide)
    rw [this, hty, String.append_assoc]; rfl

/-! ### Every role honours its classifier -/

/-- A role (by source name) honours a classifier: called with arguments of the declared classes,
its outcome is one the classifier allows. -/
def Respects (role : String) (abi : VC) : Prop :=
  ∀ (ps : List VC) (res : CC), abi.opParams = some ps → abi.opResult = some res →
    ∀ (args : List HV) (σ : Host), argsHaveClass args ps = true →
      outAllowed ps res (hostOp role args σ).2 = true

theorem optional_map {α : Type} (f : α → HV) (x : Option α) (k₁ k₂ : Nat) :
    ZV.Host.optional (x.map f) k₁ k₂ =
      match x with
      | none => .call k₁ []
      | some a => .call k₂ [f a] := by
  cases x <;> rfl

/-- The non-numeric arms. -/
theorem special_respects {role : String} {k : Nat} {abi : VC} (hk : armIndex role = k)
    (ha : armAbi k = some abi) : Respects role abi := by
  intro ps res hps hres args σ hargs
  have hsm : shapeMatch role args = true := by
    apply shapeMatch_of_index hk
    simp [ha, hps, hargs]
  unfold hostOp
  apply match20_elim (P := fun r : Host × Out => outAllowed ps res r.2 = true)
  case H_39 => intro h; rw [hsm] at h; cases h
  all_goals
    intro hi _
    rw [hk] at hi
    subst hi
    cases ha
    cases hps
    cases hres
    intros
  all_goals first
    | rfl
    | (simp only [optional_map, optionalPair]; (repeat' split) <;> rfl)


/-- Roles outside the 38 special arms run the numeric fall-through. -/
theorem hostOp_numeric {role : String} (h0 : armIndex role = 0) (args : List HV) (σ : Host) :
    hostOp role args σ = (σ, numericOp role args) := by
  unfold hostOp
  apply match20_elim (P := fun r : Host × Out => r = (σ, numericOp role args))
  case H_39 =>
    intro _ _ _
    show numericK (fun o => (σ, o)) role args = _
    rw [numericK_eq]
  all_goals
    intro hi
    rw [h0] at hi
    cases hi

theorem numericOp_int {role ty : String} {opParts : List String} {t : IntTy}
    (hsp : role.splitOn "_" = ty :: opParts) (ht : parseIntTy ty = some t) (args : List HV) :
    numericOp role args = intOp t ("_".intercalate opParts) args := by
  unfold numericOp numericK
  rw [hsp]
  simp only [ht, id]

/-! Classifier shapes of the numeric roles. -/

def arithAbi (a : Atom) : VC := .thunk (.arrow (.atom a) (.arrow (.atom a) (.ret (.atom a))))
def branchAbi (a : Atom) : VC :=
  .thunk (.forallC (.arrow (.atom a) (.arrow (.atom a)
    (.arrow (.thunk (.bound 0)) (.arrow (.thunk (.bound 0)) (.bound 0))))))
def toStrAbi (a : Atom) : VC := .thunk (.arrow (.atom a) (.ret (.atom .str)))

theorem hasClass_int {v : HV} {t : IntTy} (h : hasClass v (.atom (.int t)) = true) :
    ∃ x : BitVec t.width, v = .int t x := by
  cases v <;> simp [hasClass] at h
  next t' x => subst h; exact ⟨x, rfl⟩

theorem hasClass_f32 {v : HV} (h : hasClass v (.atom .f32) = true) : ∃ x, v = .f32 x := by
  cases v <;> simp [hasClass] at h
  exact ⟨_, rfl⟩

theorem hasClass_f64 {v : HV} (h : hasClass v (.atom .f64) = true) : ∃ x, v = .f64 x := by
  cases v <;> simp [hasClass] at h
  exact ⟨_, rfl⟩

theorem hasClass_thunk {v : HV} {c : CC} (h : hasClass v (.thunk c) = true) : ∃ k, v = .thunk k := by
  cases v <;> simp [hasClass] at h
  exact ⟨_, rfl⟩

theorem args_nil {args : List HV} (h : argsHaveClass args [] = true) : args = [] := by
  cases args with
  | nil => rfl
  | cons v vs => simp [argsHaveClass] at h

theorem args_cons {args : List HV} {c : VC} {cs : List VC} (h : argsHaveClass args (c :: cs) = true) :
    ∃ v vs, args = v :: vs ∧ hasClass v c = true ∧ argsHaveClass vs cs = true := by
  cases args with
  | nil => simp [argsHaveClass] at h
  | cons v vs => simp [argsHaveClass] at h; exact ⟨v, vs, rfl, h⟩

theorem args1 {args : List HV} {c : VC} (h : argsHaveClass args [c] = true) :
    ∃ v, args = [v] ∧ hasClass v c = true := by
  obtain ⟨v, vs, rfl, hv, h⟩ := args_cons h
  cases args_nil h
  exact ⟨v, rfl, hv⟩

theorem args2 {args : List HV} {c d : VC} (h : argsHaveClass args [c, d] = true) :
    ∃ v w, args = [v, w] ∧ hasClass v c = true ∧ hasClass w d = true := by
  obtain ⟨v, vs, rfl, hv, h⟩ := args_cons h
  obtain ⟨w, rfl, hw⟩ := args1 h
  exact ⟨v, w, rfl, hv, hw⟩

theorem args4 {args : List HV} {c d e f : VC} (h : argsHaveClass args [c, d, e, f] = true) :
    ∃ v w x y, args = [v, w, x, y] ∧ hasClass v c = true ∧ hasClass w d = true ∧
      hasClass x e = true ∧ hasClass y f = true := by
  obtain ⟨v, vs, rfl, hv, h⟩ := args_cons h
  obtain ⟨w, vs, rfl, hw, h⟩ := args_cons h
  obtain ⟨x, y, rfl, hx, hy⟩ := args2 h
  exact ⟨v, w, x, y, rfl, hv, hw, hx, hy⟩

theorem intArith_ok (t : IntTy) (o : AOp) {args : List HV}
    (h : argsHaveClass args [.atom (.int t), .atom (.int t)] = true) :
    outAllowed [.atom (.int t), .atom (.int t)] (.ret (.atom (.int t))) (intArith t o args) = true := by
  obtain ⟨v, w, rfl, hv, hw⟩ := args2 h
  obtain ⟨a, rfl⟩ := hasClass_int hv
  obtain ⟨b, rfl⟩ := hasClass_int hw
  simp only [intArith, dite_true]
  split
  · simp [outAllowed, hasClass]
  · rfl

theorem intBranch_ok (t : IntTy) (o : COp) {args : List HV}
    (h : argsHaveClass args [.atom (.int t), .atom (.int t), .thunk (.bound 0), .thunk (.bound 0)] = true) :
    outAllowed [.atom (.int t), .atom (.int t), .thunk (.bound 0), .thunk (.bound 0)] (.bound 0)
      (intBranch t o args) = true := by
  obtain ⟨v, w, x, y, rfl, hv, hw, hx, hy⟩ := args4 h
  obtain ⟨a, rfl⟩ := hasClass_int hv
  obtain ⟨b, rfl⟩ := hasClass_int hw
  obtain ⟨k, rfl⟩ := hasClass_thunk hx
  obtain ⟨k', rfl⟩ := hasClass_thunk hy
  simp only [intBranch, dite_true]
  split <;> rfl

theorem intToStr_ok (t : IntTy) {args : List HV} (h : argsHaveClass args [.atom (.int t)] = true) :
    outAllowed [.atom (.int t)] (.ret (.atom .str)) (intToStr t args) = true := by
  obtain ⟨v, rfl, hv⟩ := args1 h
  obtain ⟨a, rfl⟩ := hasClass_int hv
  simp only [intToStr, dite_true]
  rfl

/-- The integer roles `<ty>_<op>`. -/
theorem int_respects {role ty : String} {opParts : List String} {t : IntTy} {op : String}
    (h0 : armIndex role = 0) (hsp : role.splitOn "_" = ty :: opParts) (ht : parseIntTy ty = some t)
    (hop : "_".intercalate opParts = op) :
    (op ∈ ["add", "sub", "mul", "div", "mod"] → Respects role (arithAbi (.int t))) ∧
    (op ∈ ["eq", "lt", "gt"] → Respects role (branchAbi (.int t))) ∧
    (op = "to_string" → Respects role (toStrAbi (.int t))) := by
  have hn : ∀ args σ, (hostOp role args σ).2 = intOp t op args := by
    intro args σ
    rw [hostOp_numeric h0, numericOp_int hsp ht, hop]
  refine ⟨?_, ?_, ?_⟩
  · intro hm ps res hps hres args σ hargs
    cases hps; cases hres
    rw [hn, intOp_eq]
    simp only [List.mem_cons, List.not_mem_nil, or_false] at hm
    rcases hm with rfl | rfl | rfl | rfl | rfl <;> exact intArith_ok t _ hargs
  · intro hm ps res hps hres args σ hargs
    cases hps; cases hres
    rw [hn, intOp_eq]
    simp only [List.mem_cons, List.not_mem_nil, or_false] at hm
    rcases hm with rfl | rfl | rfl <;> exact intBranch_ok t _ hargs
  · intro hm ps res hps hres args σ hargs
    cases hps; cases hres
    subst hm
    rw [hn, intOp_eq]
    exact intToStr_ok t hargs


/-- What the fall-through arm does on a `float32_*` / `float64_*` role. -/
def floatOp (ty op : String) (args : List HV) : Out :=
  match ty, args with
  | "float32", [.f32 _] => if op == "to_string" then .ret (.str ['?']) else .shapeError
  | "float64", [.f64 _] => if op == "to_string" then .ret (.str ['?']) else .shapeError
  | "float32", [.f32 a, .f32 b] => (f32op op a b).getD .shapeError
  | "float64", [.f64 a, .f64 b] => (f64op op a b).getD .shapeError
  | "float32", [.f32 a, .f32 b, .thunk _, .thunk _] =>
    let x := Float32.ofBits a; let y := Float32.ofBits b
    match op with
    | "eq" => if x == y then .call 2 [] else .call 3 []
    | "lt" => if x < y then .call 2 [] else .call 3 []
    | "gt" => if x > y then .call 2 [] else .call 3 []
    | _ => .shapeError
  | "float64", [.f64 a, .f64 b, .thunk _, .thunk _] =>
    let x := Float.ofBits a; let y := Float.ofBits b
    match op with
    | "eq" => if x == y then .call 2 [] else .call 3 []
    | "lt" => if x < y then .call 2 [] else .call 3 []
    | "gt" => if x > y then .call 2 [] else .call 3 []
    | _ => .shapeError
  | _, _ => .shapeError

theorem numericOp_float {role ty : String} {opParts : List String}
    (hsp : role.splitOn "_" = ty :: opParts) (ht : parseIntTy ty = none) (args : List HV) :
    numericOp role args = floatOp ty ("_".intercalate opParts) args := by
  unfold numericOp numericK
  rw [hsp]
  simp only [ht, id]
  rfl

theorem float_respects {role ty : String} {opParts : List String} {op : String}
    (h0 : armIndex role = 0) (hsp : role.splitOn "_" = ty :: opParts)
    (hop : "_".intercalate opParts = op) :
    (ty = "float32" → op ∈ ["add", "sub", "mul", "div"] → Respects role (arithAbi .f32)) ∧
    (ty = "float32" → op ∈ ["eq", "lt", "gt"] → Respects role (branchAbi .f32)) ∧
    (ty = "float32" → op = "to_string" → Respects role (toStrAbi .f32)) ∧
    (ty = "float64" → op ∈ ["add", "sub", "mul", "div"] → Respects role (arithAbi .f64)) ∧
    (ty = "float64" → op ∈ ["eq", "lt", "gt"] → Respects role (branchAbi .f64)) ∧
    (ty = "float64" → op = "to_string" → Respects role (toStrAbi .f64)) := by
  have hn : ∀ args σ, parseIntTy ty = none → (hostOp role args σ).2 = floatOp ty op args := by
    intro args σ ht
    rw [hostOp_numeric h0, numericOp_float hsp ht, hop]
  refine ⟨?_, ?_, ?_, ?_, ?_, ?_⟩
  · rintro rfl hm ps res hps hres args σ hargs
    cases hps; cases hres
    rw [hn _ _ (by decide)]
    obtain ⟨v, w, rfl, hv, hw⟩ := args2 hargs
    obtain ⟨a, rfl⟩ := hasClass_f32 hv
    obtain ⟨b, rfl⟩ := hasClass_f32 hw
    simp only [List.mem_cons, List.not_mem_nil, or_false] at hm
    rcases hm with rfl | rfl | rfl | rfl <;> rfl
  · rintro rfl hm ps res hps hres args σ hargs
    cases hps; cases hres
    rw [hn _ _ (by decide)]
    obtain ⟨v, w, x, y, rfl, hv, hw, hx, hy⟩ := args4 hargs
    obtain ⟨a, rfl⟩ := hasClass_f32 hv
    obtain ⟨b, rfl⟩ := hasClass_f32 hw
    obtain ⟨k, rfl⟩ := hasClass_thunk hx
    obtain ⟨k', rfl⟩ := hasClass_thunk hy
    simp only [List.mem_cons, List.not_mem_nil, or_false] at hm
    rcases hm with rfl | rfl | rfl
    all_goals
      show outAllowed _ _ (if _ then Out.call 2 [] else Out.call 3 []) = true
      split <;> rfl
  · rintro rfl rfl ps res hps hres args σ hargs
    cases hps; cases hres
    rw [hn _ _ (by decide)]
    obtain ⟨v, rfl, hv⟩ := args1 hargs
    obtain ⟨a, rfl⟩ := hasClass_f32 hv
    rfl
  · rintro rfl hm ps res hps hres args σ hargs
    cases hps; cases hres
    rw [hn _ _ (by decide)]
    obtain ⟨v, w, rfl, hv, hw⟩ := args2 hargs
    obtain ⟨a, rfl⟩ := hasClass_f64 hv
    obtain ⟨b, rfl⟩ := hasClass_f64 hw
    simp only [List.mem_cons, List.not_mem_nil, or_false] at hm
    rcases hm with rfl | rfl | rfl | rfl <;> rfl
  · rintro rfl hm ps res hps hres args σ hargs
    cases hps; cases hres
    rw [hn _ _ (by decide)]
    obtain ⟨v, w, x, y, rfl, hv, hw, hx, hy⟩ := args4 hargs
    obtain ⟨a, rfl⟩ := hasClass_f64 hv
    obtain ⟨b, rfl⟩ := hasClass_f64 hw
    obtain ⟨k, rfl⟩ := hasClass_thunk hx
    obtain ⟨k', rfl⟩ := hasClass_thunk hy
    simp only [List.mem_cons, List.not_mem_nil, or_false] at hm
    rcases hm with rfl | rfl | rfl
    all_goals
      show outAllowed _ _ (if _ then Out.call 2 [] else Out.call 3 []) = true
      split <;> rfl
  · rintro rfl rfl ps res hps hres args σ hargs
    cases hps; cases hres
    rw [hn _ _ (by decide)]
    obtain ⟨v, rfl, hv⟩ := args1 hargs
    obtain ⟨a, rfl⟩ := hasClass_f64 hv
    rfl


/-! ### The reflection: a checker that recognises a table row as one of the proved shapes -/

mutual
  theorem VC.eq_of_beq : ∀ {a b : VC}, VC.beq a b = true → a = b
    | .atom a, .atom b, h => by simp only [VC.beq, beq_iff_eq] at h; rw [h]
    | .thunk c, .thunk d, h => by simp only [VC.beq] at h; rw [CC.eq_of_beq h]
    | .atom _, .thunk _, h => by simp [VC.beq] at h
    | .thunk _, .atom _, h => by simp [VC.beq] at h
  theorem CC.eq_of_beq : ∀ {a b : CC}, CC.beq a b = true → a = b
    | .os, .os, _ => rfl
    | .bound n, .bound m, h => by simp only [CC.beq, beq_iff_eq] at h; rw [h]
    | .ret v, .ret w, h => by simp only [CC.beq] at h; rw [VC.eq_of_beq h]
    | .arrow v c, .arrow w d, h => by
      simp only [CC.beq, Bool.and_eq_true] at h; rw [VC.eq_of_beq h.1, CC.eq_of_beq h.2]
    | .forallC c, .forallC d, h => by simp only [CC.beq] at h; rw [CC.eq_of_beq h]
    | .os, .bound _, h | .os, .ret _, h | .os, .arrow _ _, h | .os, .forallC _, h => by simp [CC.beq] at h
    | .bound _, .os, h | .bound _, .ret _, h | .bound _, .arrow _ _, h | .bound _, .forallC _, h => by
      simp [CC.beq] at h
    | .ret _, .os, h | .ret _, .bound _, h | .ret _, .arrow _ _, h | .ret _, .forallC _, h => by
      simp [CC.beq] at h
    | .arrow _ _, .os, h | .arrow _ _, .bound _, h | .arrow _ _, .ret _, h | .arrow _ _, .forallC _, h => by
      simp [CC.beq] at h
    | .forallC _, .os, h | .forallC _, .bound _, h | .forallC _, .ret _, h | .forallC _, .arrow _ _, h => by
      simp [CC.beq] at h
end

/-- The list-level split of a role name at `_` (what `String.splitOn` computes, by
`splitOn_underscore`; unlike `String.splitOn` this reduces inside the kernel). -/
def splitRole (role : String) : List String := (splitL '_' role.toList []).map String.ofList

/-- Is the row `(source, abi)` one of the shapes proved above? -/
def rowOk (source : String) (abi : VC) : Bool :=
  let k := armIndex source
  if k != 0 then
    match armAbi k with
    | some a => VC.beq a abi
    | none => false
  else
    match splitRole source with
    | ty :: opParts =>
      let op := "_".intercalate opParts
      match parseIntTy ty with
      | some t =>
        (decide (op ∈ ["add", "sub", "mul", "div", "mod"]) && VC.beq (arithAbi (.int t)) abi) ||
        (decide (op ∈ ["eq", "lt", "gt"]) && VC.beq (branchAbi (.int t)) abi) ||
        (decide (op = "to_string") && VC.beq (toStrAbi (.int t)) abi)
      | none =>
        (decide (ty = "float32") &&
          ((decide (op ∈ ["add", "sub", "mul", "div"]) && VC.beq (arithAbi .f32) abi) ||
           (decide (op ∈ ["eq", "lt", "gt"]) && VC.beq (branchAbi .f32) abi) ||
           (decide (op = "to_string") && VC.beq (toStrAbi .f32) abi))) ||
        (decide (ty = "float64") &&
          ((decide (op ∈ ["add", "sub", "mul", "div"]) && VC.beq (arithAbi .f64) abi) ||
           (decide (op ∈ ["eq", "lt", "gt"]) && VC.beq (branchAbi .f64) abi) ||
           (decide (op = "to_string") && VC.beq (toStrAbi .f64) abi)))
    | [] => false

theorem rowOk_sound {source : String} {abi : VC} (h : rowOk source abi = true) : Respects source abi := by
  unfold rowOk at h
  simp only at h
  split at h
  · next hk =>
    split at h
    · next a ha => cases VC.eq_of_beq h; exact special_respects rfl ha
    · cases h
  · next hk =>
    have h0 : armIndex source = 0 := by simpa using hk
    have hsplit : source.splitOn "_" = splitRole source := splitOn_underscore source
    split at h
    · next ty opParts hsp =>
      rw [← hsplit] at hsp
      split at h
      · next t ht =>
        obtain ⟨h1, h2, h3⟩ := int_respects h0 hsp ht rfl
        simp only [Bool.or_eq_true, Bool.and_eq_true, decide_eq_true_eq] at h
        rcases h with (⟨hm, hb⟩ | ⟨hm, hb⟩) | ⟨hm, hb⟩
        · cases VC.eq_of_beq hb; exact h1 hm
        · cases VC.eq_of_beq hb; exact h2 hm
        · cases VC.eq_of_beq hb; exact h3 hm
      · next ht =>
        obtain ⟨h1, h2, h3, h4, h5, h6⟩ := float_respects h0 hsp rfl
        simp only [Bool.or_eq_true, Bool.and_eq_true, decide_eq_true_eq] at h
        rcases h with ⟨hty, (⟨hm, hb⟩ | ⟨hm, hb⟩) | ⟨hm, hb⟩⟩ | ⟨hty, (⟨hm, hb⟩ | ⟨hm, hb⟩) | ⟨hm, hb⟩⟩
        · cases VC.eq_of_beq hb; exact h1 hty hm
        · cases VC.eq_of_beq hb; exact h2 hty hm
        · cases VC.eq_of_beq hb; exact h3 hty hm
        · cases VC.eq_of_beq hb; exact h4 hty hm
        · cases VC.eq_of_beq hb; exact h5 hty hm
        · cases VC.eq_of_beq hb; exact h6 hty hm
    · cases h


/-! ### Line reads -/

theorem takeLine_nil : takeLine [] = ([], []) := by
  simp [takeLine, span_eq_takeWhile_dropWhile]

theorem takeLine_cons (a : UInt8) (t : Bytes) :
    takeLine (a :: t) = if a = 10 then ([10], t) else (a :: (takeLine t).1, (takeLine t).2) := by
  unfold takeLine
  simp only [span_eq_takeWhile_dropWhile]
  by_cases h : a = 10
  · subst h; simp
  · have : (a != 10) = true := by simpa using h
    simp only [List.takeWhile_cons, List.dropWhile_cons, this, if_true, h, if_false]
    generalize List.dropWhile (fun x => x != 10) t = d
    cases d <;> simp

theorem takeLine_append (b : Bytes) : (takeLine b).1 ++ (takeLine b).2 = b := by
  induction b with
  | nil => simp [takeLine_nil]
  | cons a t ih => rw [takeLine_cons]; split <;> simp_all

theorem takeLine_nil_iff (b : Bytes) : (takeLine b).1 = [] ↔ b = [] := by
  cases b with
  | nil => simp [takeLine_nil]
  | cons a t => rw [takeLine_cons]; split <;> simp

theorem takeLine_of_newline (l rest : Bytes) (hl : 10 ∉ l) :
    takeLine (l ++ 10 :: rest) = (l ++ [10], rest) := by
  induction l with
  | nil => simp [takeLine_cons]
  | cons a t ih =>
    have ha : a ≠ 10 := fun e => hl (by simp [e])
    have ht : 10 ∉ t := fun m => hl (List.mem_cons_of_mem _ m)
    simp [takeLine_cons, ha, ih ht]

theorem takeLine_no_newline (b : Bytes) (hb : 10 ∉ b) : takeLine b = (b, []) := by
  induction b with
  | nil => simp [takeLine_nil]
  | cons a t ih =>
    have ha : a ≠ 10 := fun e => hb (by simp [e])
    have ht : 10 ∉ t := fun m => hb (List.mem_cons_of_mem _ m)
    simp [takeLine_cons, ha, ih ht]

theorem stripEol_newline (l : Bytes) :
    stripEol (l ++ [10]) = if l.getLast? = some 13 then l.dropLast else l := by
  simp [stripEol]

theorem stripEol_no_newline (b : Bytes) (hb : 10 ∉ b) : stripEol b = b := by
  unfold stripEol
  have : b.getLast? ≠ some 10 := by
    intro h; exact hb (List.mem_of_getLast? h)
  simp [this]

theorem io_read_line_stdin (σ : Host) (k₁ k₂ k₃ : Nat) :
    hostOp "io_read_line" [.reader 0, .thunk k₁, .thunk k₂, .thunk k₃] σ =
      if σ.stdin = [] then (σ, .call 2 [])
      else ({ σ with stdin := (takeLine σ.stdin).2 }, .call 3 [.bytes (stripEol (takeLine σ.stdin).1)]) := by
  show (match readWith σ 0 takeLine with
      | some (got, σ') => if got.isEmpty then (σ', Out.call 2 []) else (σ', .call 3 [.bytes (stripEol got)])
      | none => (σ, closedError 1)) = _
  simp only [readWith, if_true]
  by_cases h : σ.stdin = []
  · cases σ; simp_all [takeLine_nil]
  · have : (takeLine σ.stdin).1 ≠ [] := fun e => h ((takeLine_nil_iff _).1 e)
    simp [h, this]

end ZV.Host
