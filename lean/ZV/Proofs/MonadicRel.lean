/-
C20, part two: values, environments and terminal forms up to the translation of captured code;
the two directions of observation a simulation can be read in.
-/
import ZV.Proofs.MonadicBase

namespace ZV.ZCore.Mo
open ZV.ZCore ZV.Numeric ZV.Machine

/-- Values up to the translation of the code they capture: a closure over `m` is related to a
closure over `liftIdC m` whose environment is related name by name. -/
inductive VRel : RVal → RVal → Prop
  | unit : VRel .unit .unit
  | int (t : IntTy) (x : BitVec t.width) : VRel (.int t x) (.int t x)
  | str (s : List Char) : VRel (.str s) (.str s)
  | pair {a a' b b' : RVal} : VRel a a' → VRel b b' → VRel (.pair a b) (.pair a' b')
  | ctor (k : String) {a a' : RVal} : VRel a a' → VRel (.ctor k a) (.ctor k a')
  | thunk {m : C} {E E' : REnv} :
      (∀ x, (REnv.get? E x).isSome = (REnv.get? E' x).isSome) →
      (∀ x v v', REnv.get? E x = some v → REnv.get? E' x = some v' → VRel v v') →
      VRel (.thunk m E) (.thunk (liftIdC m) E')

/-- environments bind the same names to related values -/
def EnvRel (E E' : REnv) : Prop :=
  ∀ x, (REnv.get? E x = none ∧ REnv.get? E' x = none) ∨
    ∃ v v', REnv.get? E x = some v ∧ REnv.get? E' x = some v' ∧ VRel v v'

theorem EnvRel.nil : EnvRel [] [] := fun _ => .inl ⟨rfl, rfl⟩

theorem EnvRel.cons {E E' : REnv} (h : EnvRel E E') (x : Nat) {v v' : RVal} (hv : VRel v v') :
    EnvRel ((x, v) :: E) ((x, v') :: E') := by
  intro y
  rw [renv_get_cons, renv_get_cons]
  by_cases hxy : x = y
  · simp only [hxy, if_true]
    exact .inr ⟨v, v', rfl, rfl, hv⟩
  · simp only [hxy, if_false]
    exact h y

theorem EnvRel.of_raw {E E' : REnv}
    (h1 : ∀ x, (REnv.get? E x).isSome = (REnv.get? E' x).isSome)
    (h2 : ∀ x v v', REnv.get? E x = some v → REnv.get? E' x = some v' → VRel v v') :
    EnvRel E E' := by
  intro x
  have e := h1 x
  cases ha : REnv.get? E x with
  | none =>
    cases hb : REnv.get? E' x with
    | none => exact .inl ⟨rfl, rfl⟩
    | some b => rw [ha, hb] at e; cases e
  | some a =>
    cases hb : REnv.get? E' x with
    | none => rw [ha, hb] at e; cases e
    | some b => exact .inr ⟨a, b, rfl, rfl, h2 x a b ha hb⟩

theorem VRel.mkThunk {m : C} {E E' : REnv} (he : EnvRel E E') :
    VRel (.thunk m E) (.thunk (liftIdC m) E') := by
  refine .thunk ?_ ?_
  · intro x
    rcases he x with ⟨h1, h2⟩ | ⟨v, v', h1, h2, _⟩ <;> simp [h1, h2]
  · intro x v v' g1 g2
    rcases he x with ⟨h1, h2⟩ | ⟨w, w', h1, h2, hw⟩
    · rw [h1] at g1; cases g1
    · rw [h1] at g1; rw [h2] at g2; cases g1; cases g2; exact hw

/-- related values with nothing hidden inside are equal -/
theorem VRel.ground_eq {v v' : RVal} (h : VRel v v') : v.ground = true → v' = v := by
  induction h with
  | unit => intro _; rfl
  | int t x => intro _; rfl
  | str s => intro _; rfl
  | pair _ _ iha ihb =>
    intro g
    simp only [RVal.ground, Bool.and_eq_true] at g
    rw [iha g.1, ihb g.2]
  | ctor k _ ih =>
    intro g
    simp only [RVal.ground] at g
    rw [ih g]
  | thunk _ _ _ => intro g; simp [RVal.ground] at g

theorem VRel.ground_eq' {v v' : RVal} (h : VRel v v') : v'.ground = true → v = v' := by
  induction h with
  | unit => intro _; rfl
  | int t x => intro _; rfl
  | str s => intro _; rfl
  | pair _ _ iha ihb =>
    intro g
    simp only [RVal.ground, Bool.and_eq_true] at g
    rw [iha g.1, ihb g.2]
  | ctor k _ ih =>
    intro g
    simp only [RVal.ground] at g
    rw [ih g]
  | thunk _ _ _ => intro g; simp [RVal.ground] at g

/-- a value and its translation, in related environments: both unbound somewhere, or related -/
theorem relV : ∀ (v : V) (E E' : REnv), EnvRel E E' →
    (evalRV E v = none ∧ evalRV E' (liftIdV v) = none) ∨
    ∃ a a', evalRV E v = some a ∧ evalRV E' (liftIdV v) = some a' ∧ VRel a a'
  | .var x, E, E', he => by
    simp only [liftIdV, evalRV]
    exact he x
  | .unit, E, E', he => .inr ⟨_, _, rfl, rfl, .unit⟩
  | .int t x, E, E', he => .inr ⟨_, _, rfl, rfl, .int t x⟩
  | .str s, E, E', he => .inr ⟨_, _, rfl, rfl, .str s⟩
  | .pair p q, E, E', he => by
    simp only [liftIdV, evalRV]
    rcases relV p E E' he with ⟨h1, h2⟩ | ⟨a, a', h1, h2, hr⟩
    · simp [h1, h2]
    · rcases relV q E E' he with ⟨g1, g2⟩ | ⟨b, b', g1, g2, gr⟩
      · simp [h1, h2, g1, g2]
      · simp only [h1, h2, g1, g2]
        exact .inr ⟨_, _, rfl, rfl, .pair hr gr⟩
  | .ctor d k arg, E, E', he => by
    simp only [liftIdV, evalRV]
    rcases relV arg E E' he with ⟨h1, h2⟩ | ⟨a, a', h1, h2, hr⟩
    · simp [h1, h2]
    · simp only [h1, h2, Option.map_some]
      exact .inr ⟨_, _, rfl, rfl, .ctor k hr⟩
  | .thunk m b, E, E', he => by
    simp only [liftIdV, evalRV]
    exact .inr ⟨_, _, rfl, rfl, .mkThunk he⟩

/-- terminal forms up to the translation of captured code -/
inductive TRel : RTerm → RTerm → Prop
  | ret {v v' : RVal} : VRel v v' → TRel (.ret v) (.ret v')
  | lam {x : Nat} {m : C} {E E' : REnv} : EnvRel E E' → TRel (.lam x m E) (.lam x (liftIdC m) E')
  | cocase {arms : List (String × C)} {E E' : REnv} : EnvRel E E' →
      TRel (.cocase arms E) (.cocase (liftIdCoArms arms) E')
  | exit (code : Int) : TRel (.exit code) (.exit code)
  | trap : TRel .trap .trap
  | wrong : TRel .wrong .wrong

theorem arms_find : ∀ (arms : List (String × Nat × C)) (k : String),
    (arms.find? (·.1 == k) = none ∧ (liftIdArms arms).find? (·.1 == k) = none) ∨
    ∃ k0 x m, arms.find? (·.1 == k) = some (k0, x, m) ∧
      (liftIdArms arms).find? (·.1 == k) = some (k0, x, liftIdC m)
  | [], k => .inl ⟨rfl, rfl⟩
  | (k0, x, m) :: rest, k => by
    simp only [liftIdArms, List.find?_cons]
    by_cases hk : (k0 == k) = true
    · simp only [hk]
      exact .inr ⟨k0, x, m, rfl, rfl⟩
    · have hk' : (k0 == k) = false := by simpa using hk
      simp only [hk']
      exact arms_find rest k

theorem coarms_find : ∀ (arms : List (String × C)) (k : String),
    (arms.find? (·.1 == k) = none ∧ (liftIdCoArms arms).find? (·.1 == k) = none) ∨
    ∃ k0 m, arms.find? (·.1 == k) = some (k0, m) ∧
      (liftIdCoArms arms).find? (·.1 == k) = some (k0, liftIdC m)
  | [], k => .inl ⟨rfl, rfl⟩
  | (k0, m) :: rest, k => by
    simp only [liftIdCoArms, List.find?_cons]
    by_cases hk : (k0 == k) = true
    · simp only [hk]
      exact .inr ⟨k0, m, rfl, rfl⟩
    · have hk' : (k0 == k) = false := by simpa using hk
      simp only [hk']
      exact coarms_find rest k

/-! ### Reading a simulation in one direction -/

/-- what a way of comparing two results has to offer for the constructor-by-constructor argument:
finished evaluations with related terminal forms and equal output are comparable, and comparable
results are of that shape unless the side that is being followed ran out of fuel, in which case
nothing is claimed. -/
structure Good (D : Res → Res → Prop) : Prop where
  ok : ∀ {t t' : RTerm} {o : Host.Bytes}, TRel t t' → D (some (t, o)) (some (t', o))
  inv : ∀ {r r' : Res}, D r r' →
    (r = none ∧ ∀ x, D none x) ∨ (r' = none ∧ ∀ x, D x none) ∨
    ∃ t t' o, r = some (t, o) ∧ r' = some (t', o) ∧ TRel t t'

/-- plain to translated: whatever the plain run finishes with, the translated run finishes with -/
def Fwd (r r' : Res) : Prop := ∀ t o, r = some (t, o) → ∃ t', r' = some (t', o) ∧ TRel t t'

/-- translated to plain -/
def Bwd (r r' : Res) : Prop := ∀ t' o, r' = some (t', o) → ∃ t, r = some (t, o) ∧ TRel t t'

theorem Fwd.none_left (x : Res) : Fwd none x := fun _ _ h => by cases h
theorem Bwd.none_right (x : Res) : Bwd x none := fun _ _ h => by cases h

theorem goodFwd : Good Fwd where
  ok := fun ht _ _ h => by cases h; exact ⟨_, rfl, ht⟩
  inv := by
    intro r r' h
    cases r with
    | none => exact .inl ⟨rfl, Fwd.none_left⟩
    | some p =>
      obtain ⟨t, o⟩ := p
      obtain ⟨t', rfl, ht⟩ := h t o rfl
      exact .inr (.inr ⟨t, t', o, rfl, rfl, ht⟩)

theorem goodBwd : Good Bwd where
  ok := fun ht _ _ h => by cases h; exact ⟨_, rfl, ht⟩
  inv := by
    intro r r' h
    cases r' with
    | none => exact .inr (.inl ⟨rfl, Bwd.none_right⟩)
    | some p =>
      obtain ⟨t', o⟩ := p
      obtain ⟨t, rfl, ht⟩ := h t' o rfl
      exact .inr (.inr ⟨t, t', o, rfl, rfl, ht⟩)

section
variable {D : Res → Res → Prop} (hD : Good D)
include hD

theorem bindK_sim {r r' : Res} {k k' : RVal → Host.Bytes → Res} (h : D r r')
    (hk : ∀ v v' o, VRel v v' → D (k v o) (k' v' o)) : D (bindK r k) (bindK r' k') := by
  rcases hD.inv h with ⟨rfl, hn⟩ | ⟨rfl, hn⟩ | ⟨t, t', o, rfl, rfl, ht⟩
  · exact hn _
  · exact hn _
  · cases ht with
    | ret hv => exact hk _ _ _ hv
    | lam _ => exact hD.ok .wrong
    | cocase _ => exact hD.ok .wrong
    | exit code => exact hD.ok (.exit code)
    | trap => exact hD.ok .trap
    | wrong => exact hD.ok .wrong

theorem appK_sim {r r' : Res} {k k' : Nat → C → REnv → Host.Bytes → Res} (h : D r r')
    (hk : ∀ x m E E' o, EnvRel E E' → D (k x m E o) (k' x (liftIdC m) E' o)) :
    D (appK r k) (appK r' k') := by
  rcases hD.inv h with ⟨rfl, hn⟩ | ⟨rfl, hn⟩ | ⟨t, t', o, rfl, rfl, ht⟩
  · exact hn _
  · exact hn _
  · cases ht with
    | ret _ => exact hD.ok .wrong
    | lam he => exact hk _ _ _ _ _ he
    | cocase _ => exact hD.ok .wrong
    | exit code => exact hD.ok (.exit code)
    | trap => exact hD.ok .trap
    | wrong => exact hD.ok .wrong

theorem dtorK_sim {r r' : Res} {k k' : List (String × C) → REnv → Host.Bytes → Res} (h : D r r')
    (hk : ∀ arms E E' o, EnvRel E E' → D (k arms E o) (k' (liftIdCoArms arms) E' o)) :
    D (dtorK r k) (dtorK r' k') := by
  rcases hD.inv h with ⟨rfl, hn⟩ | ⟨rfl, hn⟩ | ⟨t, t', o, rfl, rfl, ht⟩
  · exact hn _
  · exact hn _
  · cases ht with
    | ret _ => exact hD.ok .wrong
    | lam _ => exact hD.ok .wrong
    | cocase he => exact hk _ _ _ _ he
    | exit code => exact hD.ok (.exit code)
    | trap => exact hD.ok .trap
    | wrong => exact hD.ok .wrong

end

end ZV.ZCore.Mo
