/- Proofs of the C12 statements (string literal spelling). -/
import ZV.Props.C12Statements

namespace ZV.Escape
open ZV.Props.C12.Statement

theorem read_spell_pf : read_spell := by
  intro s
  fun_induction spell s with
  | case1 => simp [read]
  | case2 rest ih => simp [read, ih]
  | case3 rest ih => simp [read, ih]
  | case4 rest ih => simp [read, ih]
  | case5 rest ih => simp [read, ih]
  | case6 rest ih => simp [read, ih]
  | case7 c rest h1 h2 h3 h4 h5 ih =>
    rw [read.eq_7]
    · simp [ih]
    · intro h _; exact h1 h
    · intro c' r' h _; exact h1 h

theorem spell_lexes_pf : spell_lexes := by
  intro s
  fun_induction spell s with
  | case1 => simp [lexes]
  | case2 rest ih => simp [lexes, ih]
  | case3 rest ih => simp [lexes, ih]
  | case4 rest ih => simp [lexes, ih]
  | case5 rest ih => simp [lexes, ih]
  | case6 rest ih => simp [lexes, ih]
  | case7 c rest h1 h2 h3 h4 h5 ih =>
    rw [lexes.eq_5]
    · exact ih
    · intro h _; exact h1 h
    · intro c' r' h _; exact h1 h
    · exact h2

theorem read_escape_isSome (c : Char) (rest : List Char) :
    (read ('\\' :: c :: rest)).isSome = (read rest).isSome := by
  by_cases hn : c = 'n'
  · subst hn; simp [read]
  by_cases hr : c = 'r'
  · subst hr; simp [read]
  by_cases ht : c = 't'
  · subst ht; simp [read]
  rw [read.eq_6 c rest hn hr ht]; simp

theorem read_total_pf : read_total := by
  intro b
  fun_induction lexes b with
  | case1 => simp [read]
  | case2 => intro h; cases h
  | case3 c rest ih =>
    intro h
    simp only [Bool.and_eq_true] at h
    rw [read_escape_isSome, ih h.2]
  | case4 rest => intro h; cases h
  | case5 c rest h1 h2 h3 ih =>
    intro h
    rw [read.eq_7 c rest h1 h2]
    simp [ih h]

theorem respell_idempotent_pf : respell_idempotent := by
  intro b s s' _ h
  rw [read_spell_pf s] at h
  cases h
  rfl

theorem spell_injective_pf : spell_injective := by
  intro s t h
  have hs := read_spell_pf s
  rw [h, read_spell_pf t] at hs
  cases hs
  rfl

end ZV.Escape

#print axioms ZV.Escape.read_spell_pf
#print axioms ZV.Escape.spell_lexes_pf
#print axioms ZV.Escape.read_total_pf
#print axioms ZV.Escape.respell_idempotent_pf
#print axioms ZV.Escape.spell_injective_pf
