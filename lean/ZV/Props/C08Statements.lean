/-
C08 — full statements of the property theorems (kept apart from the proofs so that nothing is
silently weakened). `ZV/Props/C08.lean` proves them.
-/
import ZV.Model.Graph
import ZV.Model.GraphSpec

namespace ZV.Props.C08
open ZV.Graph

namespace Statement

/-- The fuel of the two depth-first searches always suffices (no hang, no spurious failure) and
the labelling step never fails, for every graph and every iteration order. -/
def kosaraju_total : Prop :=
  ∀ (σ : Sched) (deps : AMap), σ.Valid → WfGraph deps → ∃ b, kosarajuBelongs σ deps = .ok b

/-- Kosaraju's labelling is exactly the strongly connected components, for every iteration order. -/
def kosaraju_correct : Prop :=
  ∀ (σ : Sched) (deps : AMap) (b : List (Nat × Nat)), σ.Valid → WfGraph deps →
    kosarajuBelongs σ deps = .ok b → IsSccLabeling deps b

/-- Draining `top`/`release` to exhaustion (the loop of `from_bindings`) never hits one of the
`unreachable!`/`unwrap` sites, terminates, and yields every component exactly once with all the
components it depends on earlier — for any graph, cyclic or not, and any iteration order. -/
def drain_deps_first : Prop :=
  ∀ (σ : Sched) (deps : AMap) (g : Scc), σ.Valid → WfGraph deps → kosaraju σ deps = .ok g →
    ∃ groups, drainGroups σ (2 * (allNodes deps).length + 2) g [] [] = .ok groups ∧
      IsDepsFirst deps groups

/-- The same for the one-id-at-a-time discipline (piecemeal release of a component): releasing
the members of offered groups one id at a time, in any order, never hits an `unreachable!` site,
keeps a partially released component offered until its last member is gone, and offers every
node only after all its dependencies outside its component were released. `script` is any list of
ids in which every id, at the moment it is released, belongs to a group currently offered by
`top`. -/
def release_piecemeal_safe : Prop :=
  ∀ (σ : Sched) (deps : AMap) (g : Scc) (script : List Nat), σ.Valid → WfGraph deps →
    kosaraju σ deps = .ok g →
    -- the script only releases what is on offer
    (∀ (k : Nat) (gk : Scc) (id : Nat),
        (script.take k).foldlM (Scc.releaseOne σ) g = .ok gk → script[k]? = some id →
        ∃ grp ∈ gk.top σ, id ∈ grp) →
    ∃ g', script.foldlM (Scc.releaseOne σ) g = .ok g' ∧
      ∀ grp ∈ g'.top σ, ∀ u ∈ grp, ∀ v, Edge deps u v → ¬ SameScc deps u v → v ∈ script

/-- The order handed to block elaboration does not depend on hash-map iteration order. -/
def topo_deterministic : Prop :=
  ∀ (σ σ' : Sched) (bindings : List (Nat × Nat)) (deps : AMap), σ.Valid → σ'.Valid → WfGraph deps →
    (bindings.map (·.1)).Nodup → (bindings.map (·.2)).Nodup →
    (∀ u, u ∈ allNodes deps ↔ u ∈ bindings.map (·.1)) →
    contextOrder σ bindings deps = contextOrder σ' bindings deps

/-- The order handed to block elaboration is a dependency-respecting decomposition into strongly
connected components, each classified `recursive` iff it has more than one member or a self-edge. -/
def context_order_valid : Prop :=
  ∀ (σ : Sched) (bindings : List (Nat × Nat)) (deps : AMap), σ.Valid → WfGraph deps →
    (bindings.map (·.1)).Nodup → (bindings.map (·.2)).Nodup →
    (∀ u, u ∈ allNodes deps ↔ u ∈ bindings.map (·.1)) →
    ∃ nodes, contextOrder σ bindings deps = .ok nodes ∧
      IsDepsFirst deps (nodes.map (·.members)) ∧
      ∀ n ∈ nodes, (n.recursive = true ↔ (n.members.length > 1 ∨ ∃ u ∈ n.members, Edge deps u u))

end Statement

end ZV.Props.C08
