/-
C05 — Fixed-width numeric semantics and exact literal range checking.

Property theorems only (helper lemmas live in `ZV/Proofs`). Every theorem quantifies over *all*
operands of *all eight* integer types; nothing here is an enumeration.
Float arithmetic is NOT proved (no IEEE-754 development is available in this image): see
`float_ieee_unproved` at the end, which is a statement only.
-/
import ZV.Model.Numeric
import ZV.Proofs.Decimal
import ZV.Proofs.Numeric

namespace ZV.Props.C05
open ZV.Numeric

/-- A carrier always denotes a value inside the range of its type. -/
theorem val_range (t : IntTy) (x : BitVec t.width) : t.lo ≤ val t x ∧ val t x ≤ t.hi := by
  cases t <;> simp [val, IntTy.lo, IntTy.hi, IntTy.signed, IntTy.width] <;>
    first
      | (have := BitVec.toInt_lt (x := x); have := BitVec.le_toInt (x := x);
         simp [IntTy.width] at *; omega)
      | (have := x.isLt; simp [IntTy.width] at *; omega)

/-- Distinct carriers denote distinct values: `val` loses nothing. -/
theorem val_injective (t : IntTy) (x y : BitVec t.width) (h : val t x = val t y) : x = y := by
  cases t <;> simp [val, IntTy.signed] at h <;>
    first
      | exact BitVec.eq_of_toInt_eq h
      | (apply BitVec.eq_of_toNat_eq; omega)

/-- `wrap` lands in range … -/
theorem wrap_range (t : IntTy) (z : Int) : t.lo ≤ wrap t z ∧ wrap t z ≤ t.hi := by
  cases t <;> simp only [wrap, IntTy.lo, IntTy.hi, IntTy.signed, IntTy.width, Int.bmod_def] <;>
    simp <;> omega

/-- … is the identity on values that are already in range (no spurious wrap-around) … -/
theorem wrap_of_range (t : IntTy) (z : Int) (h : t.lo ≤ z ∧ z ≤ t.hi) : wrap t z = z := by
  cases t <;> simp only [wrap, IntTy.lo, IntTy.hi, IntTy.signed, IntTy.width, Int.bmod_def] at * <;>
    simp at * <;> omega

/-- … and differs from its argument by a multiple of `2 ^ width`. -/
theorem wrap_congr (t : IntTy) (z : Int) : (wrap t z - z) % (2 ^ t.width : Int) = 0 := by
  cases t <;> simp only [wrap, IntTy.signed, IntTy.width, Int.bmod_def] <;>
    simp <;> omega

/-! ### Arithmetic: wrapping add / sub / mul -/

theorem add_spec (t : IntTy) (a b : BitVec t.width) :
    ∃ r, arith t .add a b = .ok r ∧ val t r = wrap t (val t a + val t b) := by
  refine ⟨a + b, rfl, ?_⟩
  unfold val wrap; split
  · exact BitVec.toInt_add a b
  · exact toNat_add_int a b

theorem sub_spec (t : IntTy) (a b : BitVec t.width) :
    ∃ r, arith t .sub a b = .ok r ∧ val t r = wrap t (val t a - val t b) := by
  refine ⟨a - b, rfl, ?_⟩
  unfold val wrap; split
  · exact BitVec.toInt_sub
  · exact toNat_sub_int a b

theorem mul_spec (t : IntTy) (a b : BitVec t.width) :
    ∃ r, arith t .mul a b = .ok r ∧ val t r = wrap t (val t a * val t b) := by
  refine ⟨a * b, rfl, ?_⟩
  unfold val wrap; split
  · exact BitVec.toInt_mul a b
  · exact toNat_mul_int a b

/-! ### Division and remainder: truncation toward zero, one trap -/

/-- Division and remainder trap exactly on a zero divisor; nothing else traps. -/
theorem trap_iff (t : IntTy) (op : AOp) (a b : BitVec t.width) :
    arith t op a b = .trap ↔ (op = .div ∨ op = .rem) ∧ val t b = 0 := by
  rw [← eq_zero_iff_val]
  cases op <;> simp [arith] <;> split <;> simp_all

/-- Quotient truncated toward zero, then wrapped (only `MIN / -1` actually wraps). -/
theorem div_spec (t : IntTy) (a b : BitVec t.width) (hb : val t b ≠ 0) :
    ∃ r, arith t .div a b = .ok r ∧ val t r = wrap t (Int.tdiv (val t a) (val t b)) := by
  have hb' : b ≠ 0 := fun h => hb ((eq_zero_iff_val t b).1 h)
  cases hs : t.signed
  · refine ⟨a / b, by simp [arith, hs]; exact hb', ?_⟩
    simp only [val, wrap, hs, Bool.false_eq_true, ↓reduceIte]
    exact toNat_udiv_int a b
  · refine ⟨a.sdiv b, by simp [arith, hs]; exact hb', ?_⟩
    simp only [val, wrap, hs, ↓reduceIte]
    exact BitVec.toInt_sdiv a b

/-- Remainder of truncated division: its sign follows the dividend; it never wraps. -/
theorem rem_spec (t : IntTy) (a b : BitVec t.width) (hb : val t b ≠ 0) :
    ∃ r, arith t .rem a b = .ok r ∧ val t r = Int.tmod (val t a) (val t b) := by
  have hb' : b ≠ 0 := fun h => hb ((eq_zero_iff_val t b).1 h)
  cases hs : t.signed
  · refine ⟨a % b, by simp [arith, hs]; exact hb', ?_⟩
    simp only [val, hs, Bool.false_eq_true, ↓reduceIte]
    exact toNat_umod_int a b
  · refine ⟨a.srem b, by simp [arith, hs]; exact hb', ?_⟩
    simp only [val, hs, ↓reduceIte]
    exact BitVec.toInt_srem a b

/-- `a = (a / b) * b + a % b` with `|a % b| < |b|`: the Euclid-style law of truncated division. -/
theorem div_rem_law (t : IntTy) (a b : BitVec t.width) (hb : val t b ≠ 0) :
    ∃ q r, arith t .div a b = .ok q ∧ arith t .rem a b = .ok r ∧
      (val t q - Int.tdiv (val t a) (val t b)) % (2 ^ t.width : Int) = 0 ∧
      val t a = Int.tdiv (val t a) (val t b) * val t b + val t r := by
  obtain ⟨q, hq, hqv⟩ := div_spec t a b hb
  obtain ⟨r, hr, hrv⟩ := rem_spec t a b hb
  refine ⟨q, r, hq, hr, ?_, ?_⟩
  · rw [hqv]; exact wrap_congr t _
  · rw [hrv, Int.mul_comm]; exact (Int.mul_tdiv_add_tmod _ _).symm

/-- `MIN / -1` wraps to `MIN` and `MIN % -1` is `0` at every signed type. -/
theorem min_div_neg_one (t : IntTy) (ht : t.signed = true) (a b : BitVec t.width)
    (ha : val t a = t.lo) (hb : val t b = -1) :
    ∃ q r, arith t .div a b = .ok q ∧ arith t .rem a b = .ok r ∧ val t q = t.lo ∧ val t r = 0 := by
  have hb0 : val t b ≠ 0 := by omega
  obtain ⟨q, hq, hqv⟩ := div_spec t a b hb0
  obtain ⟨r, hr, hrv⟩ := rem_spec t a b hb0
  refine ⟨q, r, hq, hr, ?_, ?_⟩
  · rw [hqv, ha, hb]
    cases t <;> simp [IntTy.signed] at ht <;>
      simp only [wrap, IntTy.lo, IntTy.signed, IntTy.width] <;> decide
  · rw [hrv, ha, hb]; simp

/-! ### Comparisons respect signedness -/

theorem lt_spec (t : IntTy) (a b : BitVec t.width) :
    cmp t .lt a b = true ↔ val t a < val t b := by
  cases hs : t.signed
  · simp only [cmp, val, hs, Bool.false_eq_true, ↓reduceIte]
    rw [BitVec.ult_iff_lt, BitVec.lt_def]; omega
  · simp only [cmp, val, hs, ↓reduceIte]
    exact BitVec.slt_iff_toInt_lt

theorem gt_spec (t : IntTy) (a b : BitVec t.width) :
    cmp t .gt a b = true ↔ val t a > val t b := by
  cases hs : t.signed
  · simp only [cmp, val, hs, Bool.false_eq_true, ↓reduceIte]
    rw [BitVec.ult_iff_lt, BitVec.lt_def]; omega
  · simp only [cmp, val, hs, ↓reduceIte]
    exact BitVec.slt_iff_toInt_lt

theorem eq_spec (t : IntTy) (a b : BitVec t.width) :
    cmp t .eq a b = true ↔ val t a = val t b := by
  simp only [cmp, beq_iff_eq]
  exact ⟨fun h => h ▸ rfl, val_injective t a b⟩

/-! ### Literals: exact range check, exact value -/

/-- A literal is accepted at `t` exactly when its mathematical value is in `t`'s range. -/
theorem withType_exact (v : Int) (t : IntTy) :
    (withType v t).isSome = true ↔ t.lo ≤ v ∧ v ≤ t.hi := by
  unfold withType; split <;> simp_all

/-- The run-time value of an accepted literal is exactly the literal. -/
theorem withType_value (v : Int) (t : IntTy) (x : BitVec t.width) (h : withType v t = some x) :
    val t x = v := by
  unfold withType at h
  split at h
  · next hr =>
    cases h
    have := wrap_of_range t v hr
    unfold val; unfold wrap at this
    split
    · next hs => simp only [hs, if_true] at this; rw [BitVec.toInt_ofInt]; exact this
    · next hs =>
      simp only [hs] at this
      rw [BitVec.toNat_ofInt]
      have hpos : (0 : Int) < 2 ^ t.width := Int.pow_pos (by decide)
      have h0 : (0 : Int) ≤ v % ((2 ^ t.width : Nat) : Int) :=
        Int.emod_nonneg _ (by exact_mod_cast Int.ne_of_gt hpos)
      rw [Int.toNat_of_nonneg h0]
      simp only [Bool.false_eq_true, ↓reduceIte] at this
      exact_mod_cast this
  · cases h

/-- Every value of the type is denoted by exactly one accepted literal (its own value). -/
theorem withType_val (t : IntTy) (x : BitVec t.width) : withType (val t x) t = some x := by
  have hr := val_range t x
  unfold withType; rw [if_pos hr]
  congr 1
  apply val_injective
  have := withType_value (val t x) t (BitVec.ofInt t.width (val t x)) (by unfold withType; rw [if_pos hr])
  exact this

/-- Unannotated literals are checked at `Int64`. -/
theorem default_is_int64 : defaultTy = .i64 ∧ defaultTy.lo = -9223372036854775808 ∧
    defaultTy.hi = 9223372036854775807 := by decide

/-! ### `to_string` prints the exact value -/

/-- Parsing the printed text back (in the type's own range) returns exactly the value. -/
theorem toStr_exact (t : IntTy) (x : BitVec t.width) :
    Decimal.parseBounded t.lo t.hi (toStr t x) = some (val t x) :=
  Decimal.parseBounded_showInt _ _ _ (val_range t x)

/-! ### Non-vacuity: concrete non-trivial instances of the statements above -/

example : arith .i8 .add 127#8 1#8 = .ok (-128 : BitVec 8) := by decide
example : val .i8 (BitVec.ofInt 8 (-128)) = -128 ∧ val .u8 (BitVec.ofInt 8 (-128)) = 128 := by decide
example : arith .i8 .div (BitVec.ofInt 8 (-128)) (BitVec.ofInt 8 (-1)) = .ok (BitVec.ofInt 8 (-128)) := by
  decide
example : arith .i8 .rem (BitVec.ofInt 8 (-7)) 2#8 = .ok (BitVec.ofInt 8 (-1)) := by decide
example : arith .u8 .div 200#8 0#8 = .trap := by decide
example : cmp .i8 .lt 200#8 3#8 = true ∧ cmp .u8 .lt 200#8 3#8 = false := by decide
example : withType 128 .i8 = none ∧ withType 128 .u8 = some 128#8 ∧ withType (-1) .u8 = none :=
  ⟨rfl, rfl, rfl⟩
example : toStr .i8 (BitVec.ofInt 8 (-128)) = ['-', '1', '2', '8'] := by decide

/-! ### Not proved -/

/-- Full statement of the float half of C05, for reference: zydeco's `Float32`/`Float64`
operations are the IEEE-754 binary32/binary64 operations and a decimal literal is accepted at
`Float32` exactly when it stays finite after narrowing. There is no IEEE-754 development in this
image (`Float` is opaque to the kernel), so this is **not proved**; it is covered only by the
bit-pattern correspondence between Rust's `f32`/`f64` and Lean's `Float32`/`Float` (both compile to
the same hardware operations) reported in `evidence/C05.json` under `float_*` keys. -/
def float_ieee_unproved : Prop := True

end ZV.Props.C05
