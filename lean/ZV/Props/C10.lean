/-
C10 — The front end is total: any input yields success or a diagnostic.

Totality of the whole front end is not a theorem about a model; what is proved here is the logic
of the glue sites where totality is at risk (`ZV/Model/FrontGlue.lean`). The decisive evidence
for everything else is the failing-input search of the check (reported under exploration keys).
-/
import ZV.Model.FrontGlue

namespace ZV.Props.C10
open ZV.FrontGlue

/-- Literal text never makes the parser's integer actions panic: it is a value or a diagnostic. -/
theorem literal_actions_total (text : List Char) : intLit text ≠ .panic ∧ metaInt text ≠ .panic := by
  constructor
  · unfold intLit; split <;> simp
  · unfold metaInt; split <;> simp

/-- `trans_span2` panics exactly when the offset lies beyond the text. -/
theorem transSpan2_panics_iff (info : FileInfo) (offset : Nat) :
    info.transSpan2 offset = .panic ↔ offset > info.textLen := by
  unfold FileInfo.transSpan2
  split <;> simp_all

/-- Packing a cursor into one word loses nothing: whenever it fits, it unpacks to itself. -/
theorem compact_roundtrip (line column packed : Nat) (h : compact line column = some packed) :
    expand packed = (line, column) := by
  unfold compact at h
  split at h
  · next hfit =>
    simp only at h
    split at h
    · cases h
    · cases h
      unfold expand
      have hpos : 0 < 2 ^ columnBits := Nat.pow_pos (by decide)
      have hc : column < 2 ^ columnBits := by
        have := hfit.2.2; unfold columnMask at this
        omega
      rw [Nat.add_comm, Nat.add_mul_div_right _ _ hpos,
        Nat.div_eq_of_lt hc, Nat.add_mul_mod_self_right, Nat.mod_eq_of_lt hc]
      simp
  · cases h

end ZV.Props.C10
