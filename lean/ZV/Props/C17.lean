/-
C17 — Concurrent analyses on session snapshots are isolated and consistent.
Full statements: `ZV/Props/C17Statements.lean`; a statement counts as proved only when a `theorem`
of exactly that proposition appears below. The models (`ZV/Model/Concurrency.lean`) are labelled
transition systems; every theorem is an invariant of ALL reachable states (every interleaving,
any number of threads or tasks), proved by induction over reachability - nothing is enumerated.

What the kernel-checked part does NOT say: that the Rust code refines these systems. The operating
system's scheduler, salsa's storage (cancellation, memo validation), dashmap, and memory ordering are
outside the models; the harness (`harness/src/c17.rs`) is what confronts the real code.
-/
import ZV.Model.Concurrency
import ZV.Props.C17Statements
import ZV.Proofs.Concurrency

namespace ZV.Props.C17
open ZV.Concurrency

/-- Under every interleaving of the compare-exchange loops of any number of threads, the key spaces
returned by `KeySpaceId::fresh` are pairwise distinct, non-zero, at most `u64::MAX`, and exactly
`1 .. counter` (none skipped). -/
theorem keyspace_unique : Statement.keyspace_unique := keyspace_unique_pf

/-- At `u64::MAX` the counter stays put and nothing more is issued (the code panics; it never wraps
around to an identity already in use). -/
theorem keyspace_exhaustion : Statement.keyspace_exhaustion := keyspace_exhaustion_pf

/-- `(key space, raw)` pairs issued by any allocators under any interleaving are pairwise distinct;
distinct allocators have distinct key spaces; raw slots stay below `u32::MAX`. -/
theorem id_injective : Statement.id_injective := id_injective_pf

/-- `CompactKeySpaceId::new(id).expand() == id` for every `u64`. -/
theorem compact_roundtrip : Statement.compact_roundtrip := compact_roundtrip_pf

/-- Every completed task holds the analysis of the contents of exactly one revision: the one its
snapshot was taken at. -/
theorem snapshot_isolation : Statement.snapshot_isolation := snapshot_isolation_pf

/-- Every result accepted by the editor's commit rule is the analysis of one revision not later than
the commit, in which an open document has the text it has at the commit. -/
theorem commit_consistent : Statement.commit_consistent := commit_consistent_pf

/-- With one registry of inputs shared by all handles, memoised analyses accepted by dependency
validation are exact for the snapshot that receives them. -/
theorem registry_shared_consistent : Statement.registry_shared_consistent :=
  registry_shared_consistent_pf

/-- With the registry copied by `snapshot()` (the code as it is), a snapshot can be answered with the
analysis of contents it did not see. -/
theorem registry_copied_stale : Statement.registry_copied_stale := registry_copied_stale_pf

/-! ### non-vacuity -/
namespace Demo
set_option linter.unusedSimpArgs false

/-- Two threads interleave inside `fresh`: both load 0, the first wins, the second fails its
compare-exchange, is handed 1 and wins with 2. -/
theorem two_threads_interleave : ∃ s : Ks, Ks.Reach s ∧ s.issued = [(1, 2), (0, 1)] := by
  have r0 := Ks.Reach.init
  have r1 := Ks.Reach.step r0 (Ks.Step.load 0 0 rfl (Nat.le_refl _))
  have r2 := Ks.Reach.step r1 (Ks.Step.load 1 0 (by simp [Ks.init, upd]) (Nat.le_refl _))
  have r3 := Ks.Reach.step r2 (Ks.Step.casOk 0 0 (by simp [Ks.init, upd]) rfl (by decide))
  have r4 := Ks.Reach.step r3 (Ks.Step.casFail 1 0 1 (by simp [Ks.init, upd]) (by decide) (Nat.le_refl _))
  have r5 := Ks.Reach.step r4 (Ks.Step.casOk 1 1 (by simp [Ks.init, upd]) rfl (by decide))
  exact ⟨_, r5, rfl⟩

/-- Two allocators are created and allocate in turn: identifiers `(1,0)`, `(2,0)`, `(1,1)`. -/
theorem two_allocators_allocate :
    ∃ s : Sys, Sys.Reach s ∧ s.ids = [(0, 1, 1), (1, 2, 0), (0, 1, 0)] := by
  have r0 := Sys.Reach.init
  have r1 := Sys.Reach.step r0 (Sys.Step.internal (Ks.Step.load 0 0 rfl (Nat.le_refl _)) rfl)
  have r2 := Sys.Reach.step r1 (Sys.Step.create (t := 0) (v := 1)
    (Ks.Step.casOk 0 0 (by simp [Sys.init, Ks.init, upd]) rfl (by decide)) rfl)
  have r3 := Sys.Reach.step r2 (Sys.Step.internal
    (Ks.Step.load 5 1 (by simp [Sys.init, Ks.init, upd]) (Nat.le_refl _)) rfl)
  have r4 := Sys.Reach.step r3 (Sys.Step.create (t := 5) (v := 2)
    (Ks.Step.casOk 5 1 (by simp [Sys.init, Ks.init, upd]) rfl (by decide)) rfl)
  have r5 := Sys.Reach.step r4 (Sys.Step.alloc 0 ⟨1, 0⟩ rfl (by decide))
  have r6 := Sys.Reach.step r5 (Sys.Step.alloc 1 ⟨2, 0⟩ rfl (by decide))
  have r7 := Sys.Reach.step r6 (Sys.Step.alloc 0 ⟨1, 1⟩ rfl (by decide))
  exact ⟨_, r7, rfl⟩

/-- The commit rule looks at the document only: a result can be committed although a dependency has
moved on. Files: `true` = the document, `false` = its dependency; the analysis adds both. -/
theorem document_only_commit_can_be_older_than_a_dependency : ∃ s : St Bool Nat Unit Nat,
    Reach (fun c _ => c true + c false) (fun _ => true) (fun _ => 0) s ∧
    ∃ c ∈ s.log, c.result ≠ s.inputs true + s.inputs false := by
  have r0 : Reach (fun (c : Bool → Nat) (_ : Unit) => c true + c false) (fun _ => true) (fun _ => 0)
      (St.init (fun _ => 0)) := Reach.init
  have r1 := Reach.step r0 (Step.request ())
  have r2 := Reach.step r1 (Step.snapshot 0 () none rfl)
  have r3 := Reach.step r2 (Step.complete 0 _ () none rfl)
  have r4 := Reach.step r3 (Step.edit false 7 (by simp [St.init, Task.isRunning]))
  have r5 := Reach.step r4 (Step.commit 0 _ () none _ rfl (by simp [St.init, upd]))
  refine ⟨_, r5, _, List.mem_cons_self, ?_⟩
  simp [St.init, upd]

/-- An edit of the document between the request and the commit is refused: the task ends
superseded and nothing is committed. -/
theorem edit_of_the_document_supersedes : ∃ s : St Bool Nat Unit Nat,
    Reach (fun c _ => c true + c false) (fun _ => true) (fun _ => 0) s ∧
    s.tasks = [.superseded] ∧ s.log = [] := by
  have r0 : Reach (fun (c : Bool → Nat) (_ : Unit) => c true + c false) (fun _ => true) (fun _ => 0)
      (St.init (fun _ => 0)) := Reach.init
  have r1 := Reach.step r0 (Step.request ())
  have r2 := Reach.step r1 (Step.snapshot 0 () none rfl)
  have r3 := Reach.step r2 (Step.complete 0 _ () none rfl)
  have r4 := Reach.step r3 (Step.edit true 7 (by simp [St.init, Task.isRunning]))
  have r5 := Reach.step r4 (Step.supersede 0 _ () none _ rfl (by simp [St.init, upd]))
  exact ⟨_, r5, rfl, rfl⟩

/-- With the shared registry the failing history of `registry_copied_stale` ends differently: the
owner's edit goes to the input the snapshot registered, the memo is invalid, the analysis is
recomputed and the answer is right (both answers are in `returned`). -/
theorem shared_registry_recomputes : ∃ s : RSt Unit Nat Nat,
    RReach (fun c => c ()) true [()] (fun _ => 0) 0 s ∧ s.returned = [(5, 5), (0, 0)] := by
  have r0 : RReach (fun c : Unit → Nat => c ()) true [()] (fun _ => 0) 0 (RSt.init (fun _ => 0) 0) :=
    RReach.init
  have r1 := RReach.step r0 RStep.snapshot
  have r2 := RReach.step r1 (RStep.load 0 (fun _ => none) (fun _ => 0) () rfl (by simp) rfl)
  have r3 := RReach.step r2 (RStep.compute 0 (fun _ => none) (fun _ => 0) [((), 0)] rfl
    ⟨rfl, by simp [upd, RSt.init]⟩ (by intro m hm; cases hm))
  have r4 := RReach.step r3 (RStep.drop 0)
  have r5 := RReach.step r4 (RStep.editKnown () 0 5 rfl (by simp [upd, RSt.init]))
  have r6 := RReach.step r5 RStep.snapshot
  have r7 := RReach.step r6 (RStep.compute 0 _ _ [((), 0)] rfl
    ⟨rfl, by simp [upd, RSt.init]⟩
    (by intro m hm; cases hm; exact ⟨((), 0), by simp, by simp [upd, RSt.init]⟩))
  refine ⟨_, r7, ?_⟩
  simp [RSt.effective, RSt.init, upd]

end Demo

end ZV.Props.C17
