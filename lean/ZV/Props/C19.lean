/-
C19 — Compilation to first-order stack-passing form preserves behaviour.

The property itself is checked by running: the first-order program the real compiler produces
(`BackendProgram::lower`) is executed by the reference machine below and must end like the
interpreter's run of the source program (`zv-harness c19`). The lowering passes (`sps/lower.rs`,
`sps_low/convert.rs`) are not mirrored in Lean; what is proved here is about the reference machine
the comparison rests on: it is a function, a run's result does not depend on the step bound, and a
program satisfying the first-order invariants never looks up a code address or a variable that does
not exist (so a `stuck:unknownLabel` / `stuck:unbound` answer on a compiler-produced program is
always a violated invariant, never an artefact of the machine).

Full statements: `ZV/Props/C19Statements.lean`; a statement counts as proved only when a `theorem`
of exactly that proposition appears below.
-/
import ZV.Model.SpsLow
import ZV.Props.C19Statements
import ZV.Proofs.SpsLow

namespace ZV.Props.C19
open ZV.SpsLow

/-- The machine is a function: one state has one successor or one outcome. -/
theorem low_deterministic : Statement.low_deterministic := ZV.SpsLow.low_deterministic_pf

/-- Fuel monotonicity of the run. -/
theorem run_fuel_mono : Statement.run_fuel_mono := ZV.SpsLow.run_fuel_mono_pf

/-- Two bounded runs that both ended agree on outcome, final state (output included) and length. -/
theorem run_deterministic : Statement.run_deterministic := ZV.SpsLow.run_deterministic_pf

/-- In a valid program a block's label denotes that block's own body. -/
theorem validated_block_lookup : Statement.validated_block_lookup := ZV.SpsLow.validated_block_lookup_pf

/-- Blocks nested in blocks of the table are in the table. -/
theorem nested_blocks_in_table : Statement.nested_blocks_in_table := ZV.SpsLow.nested_blocks_in_table_pf

/-- **No lookup failure** for valid programs, for every host, input and number of steps. -/
theorem validated_no_lookup_failure : Statement.validated_no_lookup_failure :=
  ZV.SpsLow.validated_no_lookup_failure_pf

namespace Demo
open ZV.Machine (Lit)

/-- `jump (block 0 -> open-continuation • as k in jump k ! arg(()) :: •) ! •`: a block that returns
unit to the initial continuation. -/
def retUnit : Program :=
  { root := .jump (.block 0 (.openKont .bullet (.var 1) (.jump (.var 1) (.arg .triv .bullet)))) .bullet }

example : validate retUnit = true := by decide
example : (retUnit.run 10 {}).2.2 = 5 := by decide
example : (match (retUnit.run 10 {}).1 with | some (.ret .triv) => true | _ => false) = true := by decide

/-- The same block referring to a variable of its context: an implicit capture, invalid, and the
machine gets stuck on the unbound variable. -/
def captures : Program :=
  { root := .letValue (.var 5) .triv
      (.jump (.block 0 (.openKont .bullet (.var 1) (.jump (.var 1) (.arg (.var 5) .bullet)))) .bullet) }

example : validate captures = false := by decide
example : validateWhy captures = "implicit-capture" := by decide
example : (match (captures.run 10 {}).1 with | some (.stuck (.unbound 5)) => true | _ => false) = true := by
  decide

/-- Flat products: `(1, r)` under arity 3 splices the fields of `r`; a pattern with two items on a
three-field product binds its last item to the suffix. -/
example :
    (match matchPat (.vcons [.var 0, .var 1] 3) (.prod [.triv, .triv, .triv]) [] with
     | .ok ρ => ρ.length == 2 | _ => false) = true := by decide
example :
    (match matchPat (.vcons [.var 0, .var 1] 2) (.prod [.triv, .triv, .triv]) [] with
     | .stuck .layout => true | _ => false) = true := by decide

end Demo

end ZV.Props.C19
