/-
C19 (and the invariant part of C18): statements about the reference machine of the first-order
stack-passing language (`ZV/Model/SpsLow.lean`). A statement counts as proved only when a `theorem`
of exactly that proposition appears in `ZV/Props/C19.lean`.
-/
import ZV.Model.SpsLow

namespace ZV.Props.C19.Statement
open ZV.SpsLow

/-- The machine is a function: one state has one successor or one outcome. -/
def low_deterministic : Prop :=
  ∀ (tbl : Table) (st : State) (r₁ r₂ : StepResult), step tbl st = r₁ → step tbl st = r₂ → r₁ = r₂

/-- Fuel monotonicity: a run that has ended within `n` steps ends in the same outcome, the same
final state and after the same number of steps under every larger bound. -/
def run_fuel_mono : Prop :=
  ∀ (tbl : Table) (n m : Nat) (st : State) (k : Nat) (o : Outcome) (st' : State) (k' : Nat),
    n ≤ m → runFrom tbl n st k = (some o, st', k') → runFrom tbl m st k = (some o, st', k')

/-- Two bounded runs of one program on one host that both ended agree on everything observable. -/
def run_deterministic : Prop :=
  ∀ (p : Program) (host : ZV.Host.Host) (n m : Nat) (o₁ o₂ : Outcome) (s₁ s₂ : State) (k₁ k₂ : Nat),
    p.run n host = (some o₁, s₁, k₁) → p.run m host = (some o₂, s₂, k₂) →
    o₁ = o₂ ∧ s₁ = s₂ ∧ k₁ = k₂

/-- In a valid program the code a block value denotes is that block's own body: looking a block's
label up in the table returns its body (labels are unique). -/
def validated_block_lookup : Prop :=
  ∀ (p : Program), validate p = true →
    ∀ (l : Nat) (b : Comp), (l, b) ∈ p.blocks → p.blocks.get? l = some b

/-- Every block nested in the body of a block of the table is itself in the table (the fourth clause
of `validate` holds for every program). -/
def nested_blocks_in_table : Prop :=
  ∀ (p : Program) (lb : Nat × Comp), lb ∈ p.blocks → ∀ lb' ∈ blocksC lb.2, lb' ∈ p.blocks

/-- **No lookup failure**: a valid program (unique labels, closed root, no implicit capture) never
reaches, for any host state, any standard input and any number of steps, a jump to a code address
without a block or a variable that is not in the environment. What arrives through the stack is
all a block ever needs. -/
def validated_no_lookup_failure : Prop :=
  ∀ (p : Program), validate p = true →
    ∀ (n : Nat) (host : ZV.Host.Host) (s : Stuck) (st : State) (k : Nat),
      p.run n host = (some (.stuck s), st, k) →
      (∀ l, s ≠ .unknownLabel l) ∧ (∀ x, s ≠ .unbound x)

/-! Stronger statements that are *not* proved here (no theorem exists for them):

* behaviour preservation itself (the C19 property) needs models of `sps/lower.rs` and
  `sps_low/convert.rs`; it is checked by running, not proved;
* absence of the *shape* stuck kinds (`layout`, `patShape`, `letArgShape`, ...) needs the type
  system of the intermediate language, which the repository does not define. -/

end ZV.Props.C19.Statement
