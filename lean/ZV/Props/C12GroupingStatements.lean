/- Full statements for C12, grouping elision: which redundant parentheses the formatter drops.
   Model: `ZV/Model/Grouping.lean`. -/
import ZV.Model.Grouping

namespace ZV.Props.C12.Grouping.Statement
open ZV.Grouping

/-- The computable checker used by the driver decides the derivation relation transcribed from
`parser.lalrpop` (two transcriptions of the grammar table, one with the levels written out rule
by rule, one through `own` / `gram`, agree). -/
def derives_iff : Prop := ∀ (n : Nat) (t : T), Derives n t ↔ derivesB n t = true

/-- What elision needs of a requirement table: at every child position the formatter asks for a
level that the grammar accepts there. -/
def TableOK (tbl : Pos → Req) : Prop := ∀ p : Pos, (tbl p).level ≤ gram p

/-- The table fact everything rests on: at every child position the requirement passed by the
formatter is at most the level the grammar accepts there; `Any` is passed only where the grammar
has the whole `Term`, `Annotated` only where it has `TermAnn`. -/
def req_le_gram : Prop :=
  ∀ p : Pos, (reqOf p).level ≤ gram p ∧ (reqOf p = .any → gram p = 6) ∧ (reqOf p = .annotated → gram p = 7)

/-- Elision under any table that satisfies `TableOK`, any oracle, anywhere (with a requirement or
as a constructor argument): whatever tree goes in - a derivation or not - what comes out is a
derivation of the level asked for. (The formatter puts parentheses around what its requirement
does not accept, so this holds for every tree, not only for parser output.) -/
def elide_derives_table : Prop :=
  ∀ tbl : Pos → Req, TableOK tbl → ∀ (ch : Choice) (c : Ctx) (t : T), Derives c.level (elideAt tbl ch c t)

/-- For every derivation `t` of `Term` and EVERY oracle, the formatted tree is again a derivation
of `Term`. The grammar is LALR(1), generated without conflicts, hence unambiguous: the printed
text of `elide ch t` has exactly one derivation, so it parses to exactly that tree. That last step
is trusted, not proved here (the correspondence stream checks it on every generated tree). -/
def elide_derives : Prop := ∀ (ch : Choice) (t : T), Derives 6 t → Derives 6 (elide ch t)

/-- The same for `TermAnn` (inside parentheses, blocks, labels). -/
def elide_derives_ann : Prop :=
  ∀ (ch : Choice) (t : T), Derives 7 t → Derives 7 (elideAt reqOf ch (.req .annotated) t)

/-- No hypothesis on the input is needed: also a tree that is not a derivation (built by a tool,
not by the parser) is printed as one. -/
def elide_total : Prop := ∀ (ch : Choice) (t : T), Derives 6 (elide ch t)

/-- Nothing but singleton parentheses changes: for every table, oracle and place. -/
def elide_strip : Prop :=
  ∀ (tbl : Pos → Req) (ch : Choice) (c : Ctx) (t : T), strip (elideAt tbl ch c t) = strip t

/-- The positions where the formatter's requirement is strictly tighter than the grammar: none.
(The argument of a constructor is not a position with a requirement; see `ctor_argument_grouped`.) -/
def elide_complete_at : Prop := ∀ p : Pos, (reqOf p).level < gram p ↔ p ∈ ([] : List Pos)

/-- Hence the formatter's test is exact: at every child position, a well-formed tree other than
an annotation is acceptable without parentheses exactly when the grammar derives it there. (An
annotation is always "accepted" and then prints its own parentheses unless the position is
`Annotated`.) -/
def accepts_iff_derives : Prop :=
  ∀ (p : Pos) (t : T), wf t = true → (∀ a b, t ≠ .ann a b) →
    (accepts (reqOf p) (cls t) = true ↔ Derives (gram p) t)

/-- The one place that keeps parentheses the grammar does not need: the argument of a constructor
always comes out as a group - `(t)`, `()` or `(a, b)` (`+K x` is printed `+K(x)`). -/
def ctor_argument_grouped : Prop :=
  ∀ (tbl : Pos → Req) (ch : Choice) (t : T), isGroup (elideAt tbl ch .group t) = true

/-- With every acceptable parenthesis dropped, formatting a second time changes nothing. -/
def elide_idempotent : Prop :=
  ∀ (c : Ctx) (t : T), elideAt reqOf dropAll c (elideAt reqOf dropAll c t) = elideAt reqOf dropAll c t

/-- The hypothesis `TableOK` matters. With the arrow's left operand asked for at the arrow's own
level, `(x -> _) -> 1` loses its parentheses; the result is not a derivation, its tokens
`x -> _ -> 1` are those of the derivation `x -> (_ -> 1)`, which is what the parser reads, and
that is a different term. -/
def unsafe_when_widened : Prop :=
  ¬ TableOK widened ∧
  ∃ t : T, Derives 6 t ∧ ¬ Derives 6 (elideWith widened dropAll t) ∧
    ∃ v : T, Derives 6 v ∧ toks v = toks (elideWith widened dropAll t) ∧ strip v ≠ strip t

end ZV.Props.C12.Grouping.Statement
