/-
C06 — Every host operation honours its declared type and contract.

Theorems about the mirror of `impls.rs` / `host.rs` / `text.rs` (`ZV/Model/Host.lean`), the ABI
classifiers (`ZV/Model/Abi.lean`) and the role table regenerated from the code on every run
(`ZV/Generated/Roles.lean`). Full statements are kept as `def … : Prop` in `Statement`; a statement
counts as proved only when a `theorem` of exactly that proposition appears below.
-/
import ZV.Model.Host
import ZV.Model.Abi
import ZV.Generated.Roles

namespace ZV.Props.C06
open ZV.Host ZV.Abi ZV.Generated ZV.Numeric

namespace Statement

/-- **Every role honours its declared classifier, for all argument values and all host states.**
Called with arguments of the classes its ABI declares, an operation never falls through to an
`unreachable!` (`shapeError`) and its outcome is one the classifier permits: `ret v` with `v` of
the declared result atom, or exactly one of the declared continuations applied to arguments of
that continuation's own declared classes, or (for `OS` effects) an exit / a legacy-stream failure;
the arithmetic trap is the only other outcome. Quantifies over the regenerated table. -/
def hostOp_respects_abi : Prop :=
  ∀ r ∈ roles, ∀ (ps : List VC) (res : CC), r.abi.opParams = some ps → r.abi.opResult = some res →
    ∀ (args : List HV) (σ : Host), argsHaveClass args ps = true →
      outAllowed ps res (hostOp r.source args σ).2 = true

/-- Only integer division and remainder can trap, and only on a zero divisor. -/
def trap_only_div_by_zero : Prop :=
  ∀ (role : String) (args : List HV) (σ : Host), (hostOp role args σ).2 = .trap →
    ∃ (t : IntTy) (a b : BitVec t.width), args = [.int t a, .int t b] ∧ val t b = 0 ∧
      (role = t.sourceName ++ "_div" ∨ role = t.sourceName ++ "_mod")

/-- `split_at_scalar` splits at a scalar-value boundary exactly when the index is in range. -/
def splitAtScalar_spec : Prop :=
  ∀ (s a b : List Char) (i : Nat),
    splitAtScalar s i = some (a, b) ↔ (i ≤ scalarLen s ∧ a ++ b = s ∧ scalarLen a = i)

/-- `str_split_at` takes its `none` branch, never fails, on negative and out-of-range positions,
and otherwise hands over the two halves. -/
def str_split_at_contract : Prop :=
  ∀ (s : List Char) (z : BitVec IntTy.i64.width) (σ : Host) (k₁ k₂ : Nat),
    let out := (hostOp "str_split_at" [.str s, .int .i64 z, .thunk k₁, .thunk k₂] σ).2
    (out = .call 2 [] ∧ (val .i64 z < 0 ∨ (scalarLen s : Int) < val .i64 z)) ∨
    (∃ a b, out = .call 3 [.str a, .str b] ∧ a ++ b = s ∧ (scalarLen a : Int) = val .i64 z)

/-- `str_get` indexes by Unicode scalar value and takes `none` out of range. -/
def str_get_contract : Prop :=
  ∀ (s : List Char) (z : BitVec IntTy.i64.width) (σ : Host) (k₁ k₂ : Nat),
    let out := (hostOp "str_get" [.str s, .int .i64 z, .thunk k₁, .thunk k₂] σ).2
    (out = .call 2 [] ∧ (val .i64 z < 0 ∨ (scalarLen s : Int) ≤ val .i64 z)) ∨
    (∃ c, out = .call 3 [.chr c] ∧ 0 ≤ val .i64 z ∧ s[(val .i64 z).toNat]? = some c)

/-- A code point is accepted exactly when it is a Unicode scalar value, and the character has
that code point. -/
def fromCodepoint_spec : Prop :=
  ∀ n : Int,
    (∀ c, fromCodepoint n = some c → (c.toNat : Int) = n) ∧
    ((fromCodepoint n).isSome = true ↔ (0 ≤ n ∧ n ≤ 0x10FFFF ∧ ¬ (0xD800 ≤ n ∧ n ≤ 0xDFFF)))

/-- `str_parse_int` accepts exactly optional sign + at least one digit + value in range; in
particular it inverts `to_string` on every `Int64`, and what it accepts is in range. -/
def parseI64_spec : Prop :=
  (∀ z : Int, -(2 ^ 63) ≤ z ∧ z ≤ 2 ^ 63 - 1 → Decimal.parseI64 (Decimal.showInt z) = some z) ∧
  (∀ (s : List Char) (z : Int), Decimal.parseI64 s = some z → -(2 ^ 63) ≤ z ∧ z ≤ 2 ^ 63 - 1) ∧
  Decimal.parseI64 [] = none ∧ Decimal.parseI64 ['-'] = none ∧ Decimal.parseI64 ['+'] = none

/-- Bytes and strings: encoding then decoding is the identity; whatever decodes re-encodes to the
same bytes (so `bytes_to_str` takes its `invalid` branch exactly on byte strings that are not the
UTF-8 encoding of any string). -/
def utf8_roundtrip : Prop :=
  (∀ s : List Char, decodeUtf8 (encodeUtf8 s) = some s) ∧
  (∀ (b : Bytes) (s : List Char), decodeUtf8 b = some s → encodeUtf8 s = b)

/-- The two notions of length: bytes of the encoding, and scalar values. -/
def lengths_spec : Prop :=
  ∀ s : List Char, byteLen s = (encodeUtf8 s).length ∧ scalarLen s ≤ byteLen s ∧ byteLen s ≤ 4 * scalarLen s

/-- `split_once` splits at the first occurrence of the separator, and only then. -/
def splitOnce_spec : Prop :=
  ∀ (s : List Char) (sep : Char),
    (splitOnce s sep = none ↔ sep ∉ s) ∧
    (∀ a b, splitOnce s sep = some (a, b) → s = a ++ sep :: b ∧ sep ∉ a)

/-- Handle-table invariant: every open handle was issued by this runtime (readers from 1, writers
from 2, below the next counter) and no handle is open twice. -/
def HandleInv (σ : Host) : Prop :=
  1 ≤ σ.nextReader ∧ 2 ≤ σ.nextWriter ∧
  (∀ h ∈ σ.readers.map (·.1), 1 ≤ h ∧ h < σ.nextReader) ∧
  (∀ h ∈ σ.writers.map (·.1), 2 ≤ h ∧ h < σ.nextWriter) ∧
  (σ.readers.map (·.1)).Nodup ∧ (σ.writers.map (·.1)).Nodup

/-- Run a sequence of operations, threading the host state. -/
def runOps (ops : List (String × List HV)) (σ : Host) : Host :=
  ops.foldl (fun σ op => (hostOp op.1 op.2 σ).1) σ

/-- The invariant holds initially and after every sequence of operations whatsoever (any roles,
any arguments, well-classified or not); the counters never decrease. -/
def handle_invariant : Prop :=
  HandleInv {} ∧
  ∀ (ops : List (String × List HV)) (σ : Host), HandleInv σ →
    HandleInv (runOps ops σ) ∧ σ.nextReader ≤ (runOps ops σ).nextReader ∧
      σ.nextWriter ≤ (runOps ops σ).nextWriter

/-- **Closed handles stay closed**: a reader (writer) handle below the counter that is not open
is not open after any sequence of operations — handles are never reissued — and every operation
on it reports the `Closed` error through the operation's error continuation. -/
def closed_stays_closed : Prop :=
  ∀ (ops : List (String × List HV)) (σ : Host) (h : Nat), HandleInv σ →
    (h < σ.nextReader → σ.reader? h = none → (runOps ops σ).reader? h = none) ∧
    (h < σ.nextWriter → σ.writer? h = none → (runOps ops σ).writer? h = none) ∧
    (h ≠ 0 → σ.reader? h = none → ∀ k₁ k₂ k₃,
      (hostOp "io_read_all" [.reader h, .thunk k₁, .thunk k₂] σ).2 = closedError 1 ∧
      (hostOp "io_read_line" [.reader h, .thunk k₁, .thunk k₂, .thunk k₃] σ).2 = closedError 1 ∧
      (hostOp "io_close_reader" [.reader h, .thunk k₁, .thunk k₂] σ).2 = closedError 1) ∧
    (h ≠ 0 → h ≠ 1 → σ.writer? h = none → ∀ b k₁ k₂,
      (hostOp "io_write_all" [.writer h, .bytes b, .thunk k₁, .thunk k₂] σ).2 = closedError 2 ∧
      (hostOp "io_flush" [.writer h, .thunk k₁, .thunk k₂] σ).2 = closedError 1 ∧
      (hostOp "io_close_writer" [.writer h, .thunk k₁, .thunk k₂] σ).2 = closedError 1)

/-- Standard input, output and error never close. -/
def std_streams_never_close : Prop :=
  ∀ (σ : Host) (k₁ k₂ : Nat),
    (hostOp "io_close_reader" [.reader 0, .thunk k₁, .thunk k₂] σ) = (σ, .call 2 []) ∧
    (hostOp "io_close_writer" [.writer 0, .thunk k₁, .thunk k₂] σ) = (σ, .call 2 []) ∧
    (hostOp "io_close_writer" [.writer 1, .thunk k₁, .thunk k₂] σ) = (σ, .call 2 [])

end Statement

/-- The regenerated table has one row per role the code enumerates. -/
theorem role_count : roles.length = roleCount := by decide +kernel

/-- **Arity agrees with the ABI**: for every role, the number of arguments the interpreter pops
(`arity()`) is the number of value parameters of the role's declared classifier. -/
theorem arity_matches_abi : ∀ r ∈ roles, (r.abi.opParams).map List.length = some r.arity := by
  decide +kernel

/-- Role names are pairwise distinct, so dispatch by name is unambiguous. -/
theorem source_names_nodup : (roles.map (·.source)).Nodup := by decide +kernel

theorem host_names_nodup : (roles.map (·.host)).Nodup := by decide +kernel

end ZV.Props.C06
