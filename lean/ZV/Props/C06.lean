/-
C06 — Every host operation honours its declared type and contract.

Theorems about the mirror of `impls.rs` / `host.rs` / `text.rs` (`ZV/Model/Host.lean`), the ABI
classifiers (`ZV/Model/Abi.lean`) and the role table regenerated from the code on every run
(`ZV/Generated/Roles.lean`). Full statements are kept as `def … : Prop` in `Statement`; a statement
counts as proved only when a `theorem` of exactly that proposition appears below.
-/
import ZV.Model.Host
import ZV.Model.Abi
import ZV.Generated.Roles
import ZV.Proofs.Host

namespace ZV.Props.C06
open ZV.Host ZV.Abi ZV.Generated ZV.Numeric

namespace Statement

/-- **Every role honours its declared classifier, for all argument values and all host states.**
Called with arguments of the classes its ABI declares, an operation never falls through to an
`unreachable!` (`shapeError`) and its outcome is one the classifier permits: `ret v` with `v` of
the declared result atom, or exactly one of the declared continuations applied to arguments of
that continuation's own declared classes, or (for `OS` effects) an exit / a legacy-stream failure;
the arithmetic trap is the only other outcome. Quantifies over the regenerated table. -/
def hostOp_respects_abi : Prop :=
  ∀ r ∈ roles, ∀ (ps : List VC) (res : CC), r.abi.opParams = some ps → r.abi.opResult = some res →
    ∀ (args : List HV) (σ : Host), argsHaveClass args ps = true →
      outAllowed ps res (hostOp r.source args σ).2 = true

/-- Only integer division and remainder can trap, and only on a zero divisor. -/
def trap_only_div_by_zero : Prop :=
  ∀ (role : String) (args : List HV) (σ : Host), (hostOp role args σ).2 = .trap →
    ∃ (t : IntTy) (a b : BitVec t.width), args = [.int t a, .int t b] ∧ val t b = 0 ∧
      (role = t.sourceName ++ "_div" ∨ role = t.sourceName ++ "_mod")

/-- `split_at_scalar` splits at a scalar-value boundary exactly when the index is in range. -/
def splitAtScalar_spec : Prop :=
  ∀ (s a b : List Char) (i : Nat),
    splitAtScalar s i = some (a, b) ↔ (i ≤ scalarLen s ∧ a ++ b = s ∧ scalarLen a = i)

/-- `str_split_at` takes its `none` branch, never fails, on negative and out-of-range positions,
and otherwise hands over the two halves. -/
def str_split_at_contract : Prop :=
  ∀ (s : List Char) (z : BitVec IntTy.i64.width) (σ : Host) (k₁ k₂ : Nat),
    let out := (hostOp "str_split_at" [.str s, .int .i64 z, .thunk k₁, .thunk k₂] σ).2
    (out = .call 2 [] ∧ (val .i64 z < 0 ∨ (scalarLen s : Int) < val .i64 z)) ∨
    (∃ a b, out = .call 3 [.str a, .str b] ∧ a ++ b = s ∧ (scalarLen a : Int) = val .i64 z)

/-- `str_get` indexes by Unicode scalar value and takes `none` out of range. -/
def str_get_contract : Prop :=
  ∀ (s : List Char) (z : BitVec IntTy.i64.width) (σ : Host) (k₁ k₂ : Nat),
    let out := (hostOp "str_get" [.str s, .int .i64 z, .thunk k₁, .thunk k₂] σ).2
    (out = .call 2 [] ∧ (val .i64 z < 0 ∨ (scalarLen s : Int) ≤ val .i64 z)) ∨
    (∃ c, out = .call 3 [.chr c] ∧ 0 ≤ val .i64 z ∧ s[(val .i64 z).toNat]? = some c)

/-- A code point is accepted exactly when it is a Unicode scalar value, and the character has
that code point. -/
def fromCodepoint_spec : Prop :=
  ∀ n : Int,
    (∀ c, fromCodepoint n = some c → (c.toNat : Int) = n) ∧
    ((fromCodepoint n).isSome = true ↔ (0 ≤ n ∧ n ≤ 0x10FFFF ∧ ¬ (0xD800 ≤ n ∧ n ≤ 0xDFFF)))

/-- `str_parse_int` accepts exactly optional sign + at least one digit + value in range; in
particular it inverts `to_string` on every `Int64`, and what it accepts is in range. -/
def parseI64_spec : Prop :=
  (∀ z : Int, -(2 ^ 63) ≤ z ∧ z ≤ 2 ^ 63 - 1 → Decimal.parseI64 (Decimal.showInt z) = some z) ∧
  (∀ (s : List Char) (z : Int), Decimal.parseI64 s = some z → -(2 ^ 63) ≤ z ∧ z ≤ 2 ^ 63 - 1) ∧
  Decimal.parseI64 [] = none ∧ Decimal.parseI64 ['-'] = none ∧ Decimal.parseI64 ['+'] = none

/-- Bytes and strings: encoding then decoding is the identity; whatever decodes re-encodes to the
same bytes (so `bytes_to_str` takes its `invalid` branch exactly on byte strings that are not the
UTF-8 encoding of any string). -/
def utf8_roundtrip : Prop :=
  (∀ s : List Char, decodeUtf8 (encodeUtf8 s) = some s) ∧
  (∀ (b : Bytes) (s : List Char), decodeUtf8 b = some s → encodeUtf8 s = b)

/-- The two notions of length: bytes of the encoding, and scalar values. -/
def lengths_spec : Prop :=
  ∀ s : List Char, byteLen s = (encodeUtf8 s).length ∧ scalarLen s ≤ byteLen s ∧ byteLen s ≤ 4 * scalarLen s

/-- `split_once` splits at the first occurrence of the separator, and only then. -/
def splitOnce_spec : Prop :=
  ∀ (s : List Char) (sep : Char),
    (splitOnce s sep = none ↔ sep ∉ s) ∧
    (∀ a b, splitOnce s sep = some (a, b) → s = a ++ sep :: b ∧ sep ∉ a)

/-- Handle-table invariant: every open handle was issued by this runtime (readers from 1, writers
from 2, below the next counter) and no handle is open twice. -/
def HandleInv (σ : Host) : Prop :=
  1 ≤ σ.nextReader ∧ 2 ≤ σ.nextWriter ∧
  (∀ h ∈ σ.readers.map (·.1), 1 ≤ h ∧ h < σ.nextReader) ∧
  (∀ h ∈ σ.writers.map (·.1), 2 ≤ h ∧ h < σ.nextWriter) ∧
  (σ.readers.map (·.1)).Nodup ∧ (σ.writers.map (·.1)).Nodup

/-- Run a sequence of operations, threading the host state. -/
def runOps (ops : List (String × List HV)) (σ : Host) : Host :=
  ops.foldl (fun σ op => (hostOp op.1 op.2 σ).1) σ

/-- The invariant holds initially and after every sequence of operations whatsoever (any roles,
any arguments, well-classified or not); the counters never decrease. -/
def handle_invariant : Prop :=
  HandleInv {} ∧
  ∀ (ops : List (String × List HV)) (σ : Host), HandleInv σ →
    HandleInv (runOps ops σ) ∧ σ.nextReader ≤ (runOps ops σ).nextReader ∧
      σ.nextWriter ≤ (runOps ops σ).nextWriter

/-- **Closed handles stay closed**: a reader (writer) handle below the counter that is not open
is not open after any sequence of operations — handles are never reissued — and every operation
on it reports the `Closed` error through the operation's error continuation. -/
def closed_stays_closed : Prop :=
  ∀ (ops : List (String × List HV)) (σ : Host) (h : Nat), HandleInv σ →
    (h < σ.nextReader → σ.reader? h = none → (runOps ops σ).reader? h = none) ∧
    (h < σ.nextWriter → σ.writer? h = none → (runOps ops σ).writer? h = none) ∧
    (h ≠ 0 → σ.reader? h = none → ∀ k₁ k₂ k₃,
      (hostOp "io_read_all" [.reader h, .thunk k₁, .thunk k₂] σ).2 = closedError 1 ∧
      (hostOp "io_read_line" [.reader h, .thunk k₁, .thunk k₂, .thunk k₃] σ).2 = closedError 1 ∧
      (hostOp "io_close_reader" [.reader h, .thunk k₁, .thunk k₂] σ).2 = closedError 1) ∧
    (h ≠ 0 → h ≠ 1 → σ.writer? h = none → ∀ b k₁ k₂,
      (hostOp "io_write_all" [.writer h, .bytes b, .thunk k₁, .thunk k₂] σ).2 = closedError 2 ∧
      (hostOp "io_flush" [.writer h, .thunk k₁, .thunk k₂] σ).2 = closedError 1 ∧
      (hostOp "io_close_writer" [.writer h, .thunk k₁, .thunk k₂] σ).2 = closedError 1)

/-- Standard input, output and error never close. -/
def std_streams_never_close : Prop :=
  ∀ (σ : Host) (k₁ k₂ : Nat),
    (hostOp "io_close_reader" [.reader 0, .thunk k₁, .thunk k₂] σ) = (σ, .call 2 []) ∧
    (hostOp "io_close_writer" [.writer 0, .thunk k₁, .thunk k₂] σ) = (σ, .call 2 []) ∧
    (hostOp "io_close_writer" [.writer 1, .thunk k₁, .thunk k₂] σ) = (σ, .call 2 [])

/-- **Line reads select their continuation by the input, not by the line.** On standard input the
line read takes the end-of-input continuation exactly when nothing is left to read (a blank line
is a line); otherwise the line continuation receives the bytes up to the first `\n` with one
`\n` or `\r\n` terminator removed (everything, unchanged, when no `\n` is left) and the rest of the
input stays unread; nothing is lost or invented. -/
def line_read_contract : Prop :=
  (∀ (σ : Host) (k₁ k₂ k₃ : Nat),
    hostOp "io_read_line" [.reader 0, .thunk k₁, .thunk k₂, .thunk k₃] σ =
      if σ.stdin = [] then (σ, .call 2 [])
      else ({ σ with stdin := (takeLine σ.stdin).2 },
            .call 3 [.bytes (stripEol (takeLine σ.stdin).1)])) ∧
  (∀ b : Bytes, (takeLine b).1 ++ (takeLine b).2 = b ∧ ((takeLine b).1 = [] ↔ b = [])) ∧
  (∀ l rest : Bytes, 10 ∉ l →
    takeLine (l ++ 10 :: rest) = (l ++ [10], rest) ∧
    stripEol (l ++ [10]) = if l.getLast? = some 13 then l.dropLast else l) ∧
  (∀ b : Bytes, 10 ∉ b → takeLine b = (b, []) ∧ stripEol b = b)

end Statement

/-- The regenerated table has one row per role the code enumerates. -/
theorem role_count : roles.length = roleCount := by decide +kernel

/-- **Arity agrees with the ABI**: for every role, the number of arguments the interpreter pops
(`arity()`) is the number of value parameters of the role's declared classifier. -/
theorem arity_matches_abi : ∀ r ∈ roles, (r.abi.opParams).map List.length = some r.arity := by
  decide +kernel

/-- Role names are pairwise distinct, so dispatch by name is unambiguous. -/
theorem source_names_nodup : (roles.map (·.source)).Nodup := by decide +kernel

theorem host_names_nodup : (roles.map (·.host)).Nodup := by decide +kernel

/-! ### Text and number contracts -/

theorem splitAtScalar_spec : Statement.splitAtScalar_spec :=
  fun s a b i => ZV.Host.splitAtScalar_iff s a b i

theorem str_split_at_contract : Statement.str_split_at_contract :=
  fun s z σ k₁ k₂ => ZV.Host.str_split_at_contract s z σ k₁ k₂

theorem str_get_contract : Statement.str_get_contract :=
  fun s z σ k₁ k₂ => ZV.Host.str_get_contract s z σ k₁ k₂

theorem fromCodepoint_spec : Statement.fromCodepoint_spec :=
  fun n => ZV.Host.fromCodepoint_spec n

theorem parseI64_spec : Statement.parseI64_spec := ZV.Host.parseI64_spec

theorem splitOnce_spec : Statement.splitOnce_spec :=
  fun s sep => ⟨ZV.Host.splitOnce_eq_none s sep, fun a b h => ZV.Host.splitOnce_eq_some s sep a b h⟩

theorem std_streams_never_close : Statement.std_streams_never_close :=
  fun σ k₁ k₂ => ZV.Host.std_streams_never_close σ k₁ k₂

theorem line_read_contract : Statement.line_read_contract :=
  ⟨ZV.Host.io_read_line_stdin,
   fun b => ⟨ZV.Host.takeLine_append b, ZV.Host.takeLine_nil_iff b⟩,
   fun l rest h => ⟨ZV.Host.takeLine_of_newline l rest h, ZV.Host.stripEol_newline l⟩,
   fun b h => ⟨ZV.Host.takeLine_no_newline b h, ZV.Host.stripEol_no_newline b h⟩⟩

/-! ### UTF-8 -/

theorem utf8_roundtrip : Statement.utf8_roundtrip :=
  ⟨ZV.Host.decodeUtf8_encodeUtf8, ZV.Host.encodeUtf8_of_decodeUtf8⟩

theorem lengths_spec : Statement.lengths_spec :=
  fun s => ⟨(ZV.Host.length_encodeUtf8 s).symm, ZV.Host.byteLen_bounds s⟩

/-! ### The handle table -/

theorem handle_invariant : Statement.handle_invariant :=
  ⟨ZV.Host.inv_init, fun ops σ hi => ZV.Host.run_inv ops σ hi⟩

theorem closed_stays_closed : Statement.closed_stays_closed :=
  fun ops σ h _ =>
    ⟨fun hlt hc => ZV.Host.run_closedR ops σ h hlt hc,
     fun hlt hc => ZV.Host.run_closedW ops σ h hlt hc,
     fun h0 hc k₁ k₂ k₃ => ZV.Host.closed_reader_ops σ h h0 hc k₁ k₂ k₃,
     fun h0 h1 hc b k₁ k₂ => ZV.Host.closed_writer_ops σ h h0 h1 hc b k₁ k₂⟩

/-! ### The arithmetic trap -/

theorem trap_only_div_by_zero : Statement.trap_only_div_by_zero :=
  fun role args σ h => ZV.Host.trap_only_div_by_zero role args σ h

/-! ### Every role honours its classifier -/

/-- Every row of the regenerated table is recognised by the checker `rowOk` as one of the shapes
proved in `ZV/Proofs/Host.lean` (re-evaluated by the kernel whenever the table changes). -/
theorem all_rows_recognised : ∀ r ∈ roles, ZV.Host.rowOk r.source r.abi = true := by decide +kernel

theorem hostOp_respects_abi : Statement.hostOp_respects_abi :=
  fun r hr ps res hps hres args σ hargs =>
    ZV.Host.rowOk_sound (all_rows_recognised r hr) ps res hps hres args σ hargs

/-! ### Non-vacuity: concrete, non-trivial instances -/
namespace Demo

theorem split_at_mid :
    (hostOp "str_split_at" [.str ['h', 'é', 'λ'], i64 2, .thunk 7, .thunk 8] {}).2 =
      .call 3 [.str ['h', 'é'], .str ['λ']] := by decide

theorem split_at_negative_or_past_end :
    (hostOp "str_split_at" [.str ['h', 'é', 'λ'], i64 (-1), .thunk 7, .thunk 8] {}).2 = .call 2 [] ∧
    (hostOp "str_split_at" [.str ['h', 'é', 'λ'], i64 4, .thunk 7, .thunk 8] {}).2 = .call 2 [] ∧
    (hostOp "str_get" [.str ['h', 'é', 'λ'], i64 3, .thunk 7, .thunk 8] {}).2 = .call 2 [] ∧
    (hostOp "str_get" [.str ['h', 'é', 'λ'], i64 2, .thunk 7, .thunk 8] {}).2 = .call 3 [.chr 'λ'] := by
  decide

theorem codepoints :
    fromCodepoint 0xD800 = none ∧ fromCodepoint 0x110000 = none ∧ fromCodepoint (-1) = none ∧
    fromCodepoint 0x3BB = some 'λ' ∧ (fromCodepoint 0x10FFFF).isSome = true := by decide

theorem parse_examples :
    Decimal.parseI64 ['+', '7'] = some 7 ∧ Decimal.parseI64 ['-', '0', '0', '7'] = some (-7) ∧
    Decimal.parseI64 "9223372036854775808".toList = none ∧
    Decimal.parseI64 "-9223372036854775808".toList = some (-9223372036854775808) ∧
    Decimal.parseI64 ['1', ' '] = none := by decide

theorem lengths_example : byteLen ['h', 'é', 'λ'] = 5 ∧ scalarLen ['h', 'é', 'λ'] = 3 ∧
    encodeUtf8 ['h', 'é', 'λ'] = [104, 195, 169, 206, 187] := by decide +kernel

theorem invalid_utf8_rejected : decodeUtf8 [0xFF] = none ∧ decodeUtf8 [0xC3] = none ∧
    decodeUtf8 [195, 169] = some ['é'] := by decide +kernel

theorem split_once_example :
    splitOnce ['a', '=', 'b', '=', 'c'] '=' = some (['a'], ['b', '=', 'c']) ∧ splitOnce ['a'] '=' = none := by
  decide

/-- A blank line is a line, not the end of input: `alpha`, blank, `beta` are three reads. -/
theorem blank_line_is_a_line :
    takeLine [97, 10, 10, 98, 10] = ([97, 10], [10, 98, 10]) ∧ takeLine [10, 98, 10] = ([10], [98, 10]) ∧
    stripEol [10] = [] ∧ stripEol [13, 10] = [] ∧ stripEol [120, 13, 10] = [120] ∧
    (hostOp "io_read_line" [.reader 0, .thunk 1, .thunk 2, .thunk 3] { stdin := [10, 98, 10] }).2
      = .call 3 [.bytes []] ∧
    (hostOp "io_read_line" [.reader 0, .thunk 1, .thunk 2, .thunk 3] { stdin := [] }).2 = .call 2 [] := by
  decide

/-- Division by zero is the arithmetic trap, at a concrete role of the table. -/
theorem div_by_zero_traps (σ : Host) :
    (hostOp "int8_div" [.int .i8 7#8, .int .i8 0#8] σ).2 = .trap ∧
    (hostOp "int8_div" [.int .i8 7#8, .int .i8 2#8] σ).2 = .ret (.int .i8 3#8) ∧
    (hostOp "uint8_mod" [.int .u8 7#8, .int .u8 0#8] σ).2 = .trap := by
  have h1 : "int8_div".splitOn "_" = ["int8", "div"] := by rw [ZV.Host.splitOn_underscore]; decide +kernel
  have h2 : "uint8_mod".splitOn "_" = ["uint8", "mod"] := by rw [ZV.Host.splitOn_underscore]; decide +kernel
  refine ⟨?_, ?_, ?_⟩
  · rw [ZV.Host.hostOp_numeric (by decide), ZV.Host.numericOp_int h1 (t := .i8) (by decide)]; rfl
  · rw [ZV.Host.hostOp_numeric (by decide), ZV.Host.numericOp_int h1 (t := .i8) (by decide)]; rfl
  · rw [ZV.Host.hostOp_numeric (by decide), ZV.Host.numericOp_int h2 (t := .u8) (by decide)]; rfl

/-- The checker behind `hostOp_respects_abi` is not trivially true: it rejects a role with the wrong
classifier, an unknown operation, and an I/O role declared with a different shape. -/
theorem checker_rejects :
    ZV.Host.rowOk "int8_add" (ZV.Host.toStrAbi (.int .i8)) = false ∧
    ZV.Host.rowOk "int8_add" (ZV.Host.arithAbi (.int .i16)) = false ∧
    ZV.Host.rowOk "int8_pow" (ZV.Host.arithAbi (.int .i8)) = false ∧
    ZV.Host.rowOk "float32_mod" (ZV.Host.arithAbi .f32) = false ∧
    ZV.Host.rowOk "io_read" (.thunk .os) = false ∧
    ZV.Host.rowOk "int8_add" (ZV.Host.arithAbi (.int .i8)) = true := by decide +kernel

/-- A script on the handle table: open a file (handle 1), close it, read from it (`Closed`), open the
file again (handle 2, never 1 again). -/
theorem handle_script :
    let σ₀ : Host := { files := [(['f'], [104, 105])] }
    let open1 := hostOp "fs_open_reader" [.str ['f'], .thunk 0, .thunk 1] σ₀
    let close1 := hostOp "io_close_reader" [.reader 1, .thunk 0, .thunk 1] open1.1
    let read1 := hostOp "io_read_all" [.reader 1, .thunk 0, .thunk 1] close1.1
    let open2 := hostOp "fs_open_reader" [.str ['f'], .thunk 0, .thunk 1] read1.1
    let read2 := hostOp "io_read_all" [.reader 2, .thunk 0, .thunk 1] open2.1
    open1.2 = .call 2 [.reader 1] ∧ close1.2 = .call 2 [] ∧ read1.2 = closedError 1 ∧
    open2.2 = .call 2 [.reader 2] ∧ read2.2 = .call 2 [.bytes [104, 105]] ∧
    Statement.HandleInv read2.1 := by
  refine ⟨by decide, by decide, by decide, by decide, by decide, ?_⟩
  have h0 : Statement.HandleInv { files := [(['f'], [104, 105])] } := by
    refine ⟨Nat.le_refl _, Nat.le_refl _, ?_, ?_, ?_, ?_⟩ <;> simp
  exact (handle_invariant.2
    [("fs_open_reader", [.str ['f'], .thunk 0, .thunk 1]), ("io_close_reader", [.reader 1, .thunk 0, .thunk 1]),
     ("io_read_all", [.reader 1, .thunk 0, .thunk 1]), ("fs_open_reader", [.str ['f'], .thunk 0, .thunk 1]),
     ("io_read_all", [.reader 2, .thunk 0, .thunk 1])] _ h0).1

end Demo

end ZV.Props.C06
