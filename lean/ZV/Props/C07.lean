/-
C07 — Lexical scoping and import hygiene: bound names can be renamed freely.
Full statements: `ZV/Props/C07Statements.lean`; a statement counts as proved only when a `theorem`
of exactly that proposition appears below.
-/
import ZV.Props.C07Statements
import ZV.Proofs.Scope

namespace ZV.Props.C07
open ZV.ZCore

/-- A free occurrence has no canonical form whatever its name: an unbound variable stays unbound. -/
theorem free_occurrence_has_no_canon (x : Nat) : canon (.ret (.var x)) = none := by
  simp [canon, canonC, canonV, Ren.get?]

/-- A binder never captures an occurrence of a different name. -/
theorem binder_does_not_capture (x y : Nat) (v : V) (h : x ≠ y) (hv : (canonV 0 [] v).isSome) :
    canon (.clet x v (.ret (.var y))) = none := by
  obtain ⟨v', hv'⟩ := Option.isSome_iff_exists.mp hv
  have : (x == y) = false := by simpa using h
  simp [canon, canonC, canonV, Ren.get?, hv', List.find?, this]

/-- Acceptance does not depend on the choice of bound names. -/
theorem canon_acceptance : Statement.canon_acceptance := ZV.ZCore.canon_acceptance_pf

/-- Behaviour (exit code or trap, output; also going wrong) does not depend on the choice of bound
names, at every fuel. -/
theorem canon_behaviour : Statement.canon_behaviour := ZV.ZCore.canon_behaviour_pf

/-- Two programs with the same canonical form are accepted together and behave alike. -/
theorem alpha_invariance : Statement.alpha_invariance := ZV.ZCore.alpha_invariance_pf

/-- The canonical form is canonical. -/
theorem canon_idempotent : Statement.canon_idempotent := ZV.ZCore.canon_idempotent_pf

/-- An accepted program is closed: it has a canonical form. -/
theorem accepted_is_closed : Statement.accepted_is_closed := ZV.ZCore.accepted_is_closed_pf

namespace Demo
/-- non-vacuity: two namings of `let a = () in let b = () in ret a` - one of them shadowing -
have the same canonical form; the capturing renaming has a different one -/
theorem alpha_example :
    canon (.clet 5 .unit (.clet 7 .unit (.ret (.var 5)))) =
      canon (.clet 1 .unit (.clet 0 .unit (.ret (.var 1)))) ∧
    (canon (.clet 5 .unit (.clet 7 .unit (.ret (.var 5))))).isSome := by
  simp [canon, canonC, canonV, Ren.get?, List.find?]
end Demo

end ZV.Props.C07
