/-
C13 — Formatting never loses source text.
The accounting oracle that decides each formatted file is `ZV.Account.accounts`; these theorems
say what its verdict means. Full statements: `ZV/Props/C13Statements.lean`.
-/
import ZV.Props.C13Statements
import ZV.Proofs.Account

namespace ZV.Props.C13
open ZV.Account

/-- `essential` keeps comments and content tokens and nothing else. -/
theorem essential_keeps (l : List Item) :
    ∀ x ∈ essential l, (∃ t, x = .content t) ∨ (∃ k t, x = .comment k t) := by
  induction l with
  | nil => simp [essential]
  | cons a rest ih =>
    cases a <;> simp_all [essential]

/-- `firstDiff` finds a difference exactly when there is one. -/
theorem firstDiff_none_iff : Statement.firstDiff_none_iff := ZV.Account.firstDiff_none_iff_pf

/-- The oracle accepts a formatter that changes nothing. -/
theorem accounts_refl : Statement.accounts_refl := ZV.Account.accounts_refl_pf

/-- What `ok` means: exactly the input's comments and content tokens, in order, and no comment
moved in front of a content token it followed. -/
theorem accounts_ok_iff : Statement.accounts_ok_iff := ZV.Account.accounts_ok_iff_pf

/-- Punctuation and keywords never decide the verdict. -/
theorem essential_ignores_layout_tokens : Statement.essential_ignores_layout_tokens :=
  ZV.Account.essential_ignores_layout_tokens_pf

/-- A dropped comment is always reported. -/
theorem dropped_comment_detected : Statement.dropped_comment_detected :=
  ZV.Account.dropped_comment_detected_pf

/-- A duplicated comment is always reported. -/
theorem duplicated_comment_detected : Statement.duplicated_comment_detected :=
  ZV.Account.duplicated_comment_detected_pf

/-- Comment capture loses nothing and invents nothing, and its `expect` never fires. -/
theorem capture_partition : Statement.capture_partition := ZV.Capture.capture_partition_pf

/-- A leading comment is attached to the next entity that starts after it. -/
theorem leading_anchor_is_next : Statement.leading_anchor_is_next := ZV.Capture.leading_anchor_is_next_pf

namespace Demo
open Item in
/-- non-vacuity: punctuation and keywords drop out, comments and content stay, in order -/
theorem essential_example :
    essential [content "x", comment 'L' "-- c", punct "(", keyword "fn", content "y", punct ")"]
      = [content "x", comment 'L' "-- c", content "y"] := rfl

open Item in
/-- non-vacuity: offsets count the content tokens in front of each comment -/
theorem offsets_example :
    offsets [content "x", comment 'L' "a", content "y", content "z", comment 'B' "b"] = [1, 3] := rfl
end Demo

end ZV.Props.C13
