/-
C12 - Formatting preserves the parse: grouping elision.
The textual syntax tree keeps the parentheses of the source; the formatter prints a singleton
parenthesis without its delimiters when the requirement of the child position accepts the class
of what it encloses (`pretty.rs` `term_with_requirement`, `pretty/context.rs`). Modelled on term
skeletons (`ZV/Model/Grouping.lean`) with the grammar table transcribed from `parser.lalrpop`.
Full statements: `ZV/Props/C12GroupingStatements.lean`; proofs: `ZV/Proofs/Grouping.lean`.
-/
import ZV.Props.C12GroupingStatements
import ZV.Proofs.Grouping
import ZV.Proofs.GroupingIdem

namespace ZV.Props.C12.Grouping
open ZV.Grouping

/-- The checker the driver answers with decides the derivation relation. -/
theorem derives_iff : Statement.derives_iff := ZV.Grouping.derives_iff_pf

/-- At every child position the formatter asks for at most what the grammar accepts there. -/
theorem req_le_gram : Statement.req_le_gram := ZV.Grouping.req_le_gram_pf

/-- Under every table with that property, every oracle, at every place: the output is a derivation. -/
theorem elide_derives_table : Statement.elide_derives_table := ZV.Grouping.elide_derives_table_pf

/-- Formatting a derivation of `Term` gives a derivation of `Term`, whichever acceptable
parentheses the layout conditions choose to drop. -/
theorem elide_derives : Statement.elide_derives := ZV.Grouping.elide_derives_pf

/-- The same for `TermAnn`. -/
theorem elide_derives_ann : Statement.elide_derives_ann := ZV.Grouping.elide_derives_ann_pf

/-- Even a tree that is not a derivation is printed as one. -/
theorem elide_total : Statement.elide_total := ZV.Grouping.elide_total_pf

/-- Nothing but parentheses changes. -/
theorem elide_strip : Statement.elide_strip := ZV.Grouping.elide_strip_pf

/-- No child position asks for strictly less than the grammar accepts. -/
theorem elide_complete_at : Statement.elide_complete_at := ZV.Grouping.elide_complete_at_pf

/-- The acceptance test coincides with derivability at the position. -/
theorem accepts_iff_derives : Statement.accepts_iff_derives := ZV.Grouping.accepts_iff_derives_pf

/-- A constructor argument always comes out parenthesized. -/
theorem ctor_argument_grouped : Statement.ctor_argument_grouped := ZV.Grouping.ctor_argument_grouped_pf

/-- Formatting twice (every acceptable parenthesis dropped) is formatting once. -/
theorem elide_idempotent : Statement.elide_idempotent := ZV.Grouping.elide_idempotent_pf

/-- With the arrow's left requirement widened, `(x -> _) -> 1` is printed as `x -> _ -> 1`. -/
theorem unsafe_when_widened : Statement.unsafe_when_widened := ZV.Grouping.unsafe_when_widened_pf

namespace Demo
private abbrev x : T := .leaf .var
private abbrev h : T := .leaf .hole
private abbrev one : T := .leaf .lit

/-- `f ((g x))` becomes `f (g x)`: the outer pair goes, the inner one is needed. -/
theorem double_parens :
    elide dropAll (.app x (.paren (.paren (.app x x)))) = .app x (.paren (.app x x)) := by decide

/-- `(x -> _) -> 1` keeps its parentheses; `x -> (_ -> 1)` loses them. -/
theorem arrow_left_kept :
    elide dropAll (.arrow (.paren (.arrow x h)) one) = .arrow (.paren (.arrow x h)) one := by decide
theorem arrow_right_dropped :
    elide dropAll (.arrow x (.paren (.arrow h one))) = .arrow x (.arrow h one) := by decide

/-- `! (f x)` keeps its parentheses, `! ((x))` loses both pairs. -/
theorem force_application : elide dropAll (.pre .force (.paren (.app x x))) = .pre .force (.paren (.app x x)) := by
  decide
theorem force_atom : elide dropAll (.pre .force (.paren (.paren x))) = .pre .force x := by decide

/-- `f (x : _)`: the annotation is accepted as an atom and prints its own parentheses;
inside a block it stands bare. -/
theorem annotation_argument :
    elide dropAll (.app x (.paren (.ann x h))) = .app x (.paren (.ann x h)) := by decide
theorem annotation_block : elide dropAll (.block (.paren (.ann x h))) = .block (.ann x h) := by decide

/-- `(fn y => x) 1` keeps its parentheses; `{ (fn y => x) }` loses them. -/
theorem function_head :
    elide dropAll (.app (.paren (.tail .lam x)) one) = .app (.paren (.tail .lam x)) one := by decide
theorem function_thunk : elide dropAll (.box .thunk (.paren (.tail .lam x))) = .box .thunk (.tail .lam x) := by
  decide

/-- `+K x` is printed `+K(x)`, `+K ((x))` as well. -/
theorem constructor_argument : elide dropAll (.ctor x) = .ctor (.paren x) ∧
    elide dropAll (.ctor (.paren (.paren x))) = .ctor (.paren x) := by decide

/-- the layout oracle: a `do` sequence keeps the parentheses that `dropAll` removes -/
theorem layout_keeps_sequence :
    elide layoutChoice (.box .thunk (.paren (.doB x h))) = .box .thunk (.paren (.doB x h)) ∧
    elide dropAll (.box .thunk (.paren (.doB x h))) = .box .thunk (.doB x h) := by decide

/-- all of these are derivations, and `f fn y => x` is not -/
theorem derivations :
    Derives 6 (.app x (.paren (.paren (.app x x)))) ∧ Derives 6 (.arrow (.paren (.arrow x h)) one) ∧
    Derives 6 (.app (.paren (.tail .lam x)) one) ∧ ¬ Derives 6 (.app x (.tail .lam x)) ∧
    ¬ Derives 6 (.arrow (.arrow x h) one) ∧ ¬ Derives 6 (.app x (.ann x h)) := by decide
end Demo

end ZV.Props.C12.Grouping
