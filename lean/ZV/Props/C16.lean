/-
C16 — Tool output is a deterministic function of the sources.

What can be modelled is the discipline that makes an emitter independent of hash-map iteration
order: iterate in key order. The theorems below are about `ZV.Graph.sortByKey` (the `sort_by_key`
of `BindingContext::ready`) and about the block-elaboration order of C08. Process-level
nondeterminism (addresses, time, scheduling) is not in any model; only the repetition of real
processes can show it (reported under exploration keys).
-/
import ZV.Model.Graph
import ZV.Props.C08

namespace ZV.Props.C16
open ZV.Graph

theorem ins_perm (key : Nat → Nat) (x : Nat) (ys : List Nat) :
    (sortByKey.ins key x ys).Perm (x :: ys) := by
  induction ys with
  | nil => exact List.Perm.refl _
  | cons y ys ih =>
    unfold sortByKey.ins
    split
    · exact List.Perm.refl _
    · exact (List.Perm.cons y ih).trans (List.Perm.swap x y ys)

theorem sort_perm (key : Nat → Nat) (xs : List Nat) : (sortByKey key xs).Perm xs := by
  induction xs with
  | nil => exact List.Perm.refl _
  | cons x xs ih =>
    unfold sortByKey
    exact (ins_perm key x _).trans (List.Perm.cons x ih)

theorem ins_sorted (key : Nat → Nat) (x : Nat) (ys : List Nat)
    (h : ys.Pairwise fun a b => key a ≤ key b) :
    (sortByKey.ins key x ys).Pairwise fun a b => key a ≤ key b := by
  induction ys with
  | nil => unfold sortByKey.ins; simp
  | cons y ys ih =>
    unfold sortByKey.ins
    rw [List.pairwise_cons] at h
    split
    · rename_i hlt
      rw [List.pairwise_cons]
      refine ⟨?_, List.pairwise_cons.mpr h⟩
      intro a ha
      rcases List.mem_cons.mp ha with rfl | ha
      · exact Nat.le_of_lt hlt
      · exact Nat.le_trans (Nat.le_of_lt hlt) (h.1 a ha)
    · rename_i hnlt
      rw [List.pairwise_cons]
      refine ⟨?_, ih h.2⟩
      intro a ha
      rcases List.mem_cons.mp ((ins_perm key x ys).mem_iff.mp ha) with rfl | ha
      · exact Nat.le_of_not_lt hnlt
      · exact h.1 a ha

/-- The result of `sort_by_key` is sorted. -/
theorem sort_sorted (key : Nat → Nat) (xs : List Nat) :
    (sortByKey key xs).Pairwise fun a b => key a ≤ key b := by
  induction xs with
  | nil => unfold sortByKey; simp
  | cons x xs ih =>
    unfold sortByKey
    exact ins_sorted key x _ ih

/-- **Sorted emission is independent of iteration order**: whatever order a hash collection hands
its elements over in (`l₁` and `l₂` are permutations of each other), sorting by a key that is
injective on the elements yields one and the same sequence — so anything emitted by walking the
sorted sequence is the same text in every process. -/
theorem sorted_emit_invariant (key : Nat → Nat) (l₁ l₂ : List Nat) (hp : l₁.Perm l₂)
    (hinj : ∀ a ∈ l₁, ∀ b ∈ l₁, key a = key b → a = b) :
    sortByKey key l₁ = sortByKey key l₂ := by
  have p : (sortByKey key l₁).Perm (sortByKey key l₂) :=
    (sort_perm key l₁).trans (hp.trans (sort_perm key l₂).symm)
  refine List.Perm.eq_of_pairwise (le := fun a b => key a ≤ key b) ?_ (sort_sorted key l₁)
    (sort_sorted key l₂) p
  intro a b ha hb h1 h2
  have ha' : a ∈ l₁ := (sort_perm key l₁).mem_iff.mp ha
  have hb' : b ∈ l₁ := hp.mem_iff.mpr ((sort_perm key l₂).mem_iff.mp hb)
  exact hinj a ha' b hb' (Nat.le_antisymm h1 h2)

/-- The emitted text of any per-element emitter over the sorted sequence. -/
theorem emitted_text_invariant {β : Type} (emit : Nat → β) (key : Nat → Nat) (l₁ l₂ : List Nat)
    (hp : l₁.Perm l₂) (hinj : ∀ a ∈ l₁, ∀ b ∈ l₁, key a = key b → a = b) :
    (sortByKey key l₁).map emit = (sortByKey key l₂).map emit := by
  rw [sorted_emit_invariant key l₁ l₂ hp hinj]

/-- The order of elaborated block bindings does not depend on hash-map iteration order (C08). -/
theorem block_order_deterministic : ZV.Props.C08.Statement.topo_deterministic :=
  ZV.Props.C08.topo_deterministic

/-- Non-vacuity: two different iteration orders of the same set. -/
example : sortByKey (fun x => 100 - x) [3, 1, 2] = sortByKey (fun x => 100 - x) [2, 3, 1] := by decide

end ZV.Props.C16
