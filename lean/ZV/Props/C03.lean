/-
C03 — The checker decides exactly the declared typing rules on the core language.
Full statements: `ZV/Props/C03Statements.lean`; a statement counts as proved only when a
`theorem` of exactly that proposition appears below.
-/
import ZV.Model.ZCore
import ZV.Model.ZCoreSpec
import ZV.Props.C03Statements

namespace ZV.Props.C03
open ZV.ZCore

/-- A program is accepted only at `OS`. -/
theorem accepted_only_at_os (Δ : Sig) (body : C) (h : checkProgram Δ body = .ok ()) :
    inferC Δ [] body = .ok .os := by
  unfold checkProgram at h
  split at h <;> simp_all

end ZV.Props.C03
