/-
C03 — The checker decides exactly the declared typing rules on the core language.
Full statements: `ZV/Props/C03Statements.lean`; a statement counts as proved only when a
`theorem` of exactly that proposition appears below.
-/
import ZV.Model.ZCore
import ZV.Model.ZCoreSpec
import ZV.Props.C03Statements
import ZV.Proofs.ZCoreCheck
import ZV.Proofs.Lub

namespace ZV.Props.C03
open ZV.ZCore

/-- A program is accepted only at `OS`. -/
theorem accepted_only_at_os (Δ : Sig) (body : C) (h : checkProgram Δ body = .ok ()) :
    inferC Δ [] body = .ok .os := by
  unfold checkProgram at h
  split at h <;> simp_all

/-- Type equality tests are exact. -/
theorem beq_exact : Statement.beq_exact := ZV.ZCore.beq_exact_pf

/-- **Soundness**: every accepted term is derivable in the declared rules. -/
theorem check_sound : Statement.check_sound := ZV.ZCore.check_sound_pf

/-- **Completeness**: every derivable term is accepted, at that type. -/
theorem check_complete : Statement.check_complete := ZV.ZCore.check_complete_pf

/-- Types are unique. -/
theorem type_unique : Statement.type_unique := ZV.ZCore.type_unique_pf

/-- **Definite errors**: whatever the checker rejects has no derivation at any type. -/
theorem rejected_has_no_type : Statement.rejected_has_no_type := ZV.ZCore.rejected_has_no_type_pf

/-- Acceptance of a program is derivability of `⊢ body : OS`. -/
theorem program_accepted_iff : Statement.program_accepted_iff := ZV.ZCore.program_accepted_iff_pf

/-- The level discipline of `lub.rs` and its by-name comparison of the arms of `data` / `codata`
declarations decide exactly alpha-equivalence up to the declaration order of arms (for every pair
of types whose declarations repeat no name; the naming discipline of binders is not even needed). -/
theorem lub_iff_alpha : LubStatement.lub_iff_alpha := ZV.Lub.lub_iff_alpha_pf

/-- the same, with `WF` as the only side condition -/
theorem lubEq_iff_alphaEq (a b : ZV.Lub.Ty) (wa : ZV.Lub.WF a = true) (wb : ZV.Lub.WF b = true) :
    ZV.Lub.lubEq {} a b = true ↔ ZV.Lub.alphaEq a b = true := ZV.Lub.lubEq_iff_alphaEq a b wa wb

/-- the same below arbitrary binder stacks of equal length -/
theorem lubEq_iff_toDB (a b : ZV.Lub.Ty) (envL envR : List Nat) (h : envL.length = envR.length)
    (wa : ZV.Lub.WF a = true) (wb : ZV.Lub.WF b = true) :
    ZV.Lub.lubEq (ZV.Lub.ctxOf envL envR) a b = true ↔ ZV.Lub.toDB envL a = ZV.Lub.toDB envR b :=
  ZV.Lub.lubEq_iff_toDB a b envL envR h wa wb

/-- Comparison is reflexive (no repeated names in declarations). -/
theorem lub_refl : LubStatement.lub_refl := ZV.Lub.lub_refl_pf

/-- Without that side condition it is not: a declaration that repeats a name with two types
differs from itself. -/
theorem lub_not_refl_on_repeated_name : LubStatement.lub_not_refl_on_repeated_name :=
  ZV.Lub.lub_not_refl_on_repeated_name_pf

/-- Alpha-equivalence is an equivalence relation. -/
theorem alpha_equiv : LubStatement.alpha_equiv := ZV.Lub.alpha_equiv_pf

/-- The specification of declarations without any order: same set of names, and name by name
equal nameless forms. -/
theorem alpha_decl_spec : LubStatement.alpha_decl_spec := ZV.Lub.alpha_decl_spec_pf

/-- the same at top level -/
theorem alpha_decl_spec_top : LubStatement.alpha_decl_spec_top := ZV.Lub.alpha_decl_spec_top_pf

/-- Permuting the arms of declarations anywhere inside a type yields an equivalent type. -/
theorem arm_order_irrelevant : LubStatement.arm_order_irrelevant := ZV.Lub.arm_order_irrelevant_pf

/-- The comparison is by name: same names, positionally equal result types, different types. -/
theorem positional_comparison_differs : LubStatement.positional_comparison_differs :=
  ZV.Lub.positional_comparison_differs_pf

/-- ... while the positional variant would accept that pair. -/
theorem positional_variant_accepts :
    ZV.Lub.lubEqZip {} LubStatement.personL LubStatement.personR = true :=
  ZV.Lub.positional_variant_accepts

/-- `forall X Y. X` and `forall X Y. Y` differ. -/
theorem permuted_binders_differ : LubStatement.permuted_binders_differ := ZV.Lub.permuted_binders_differ_pf

/-- A bound variable is never equal to a free one. -/
theorem bound_vs_free_differ : LubStatement.bound_vs_free_differ := ZV.Lub.bound_vs_free_differ_pf

-- Non-vacuity: the hypotheses are satisfiable on types with binders and declarations, and the
-- comparison does accept reordered declarations and reject exchanged arm types.
namespace Demo
open ZV.Lub

/-- `forall (X : VType) . codata | .0 : X -> Ret (data | +0 : X | +1 : Int end) | .1 : Ret String end` -/
def left : Ty := .all 0 7 (.codata (.cons 0 (.arr (.var 7) (.ret (.data (.cons 0 (.var 7) (.cons 1 .int .nil)))))
  (.cons 1 (.ret .str) .nil)))
/-- the same with another binder identity and both declarations reordered -/
def right : Ty := .all 0 9 (.codata (.cons 1 (.ret .str)
  (.cons 0 (.arr (.var 9) (.ret (.data (.cons 1 .int (.cons 0 (.var 9) .nil))))) .nil)))
/-- `right` with the types of the inner declaration's arms exchanged (names stay) -/
def exchanged : Ty := .all 0 9 (.codata (.cons 1 (.ret .str)
  (.cons 0 (.arr (.var 9) (.ret (.data (.cons 1 (.var 9) (.cons 0 .int .nil))))) .nil)))

theorem wf : WF left = true ∧ WF right = true ∧ WF exchanged = true := by decide
theorem fresh_left : Fresh left := by
  refine ⟨by decide, ?_⟩
  intro x hx
  have : x = 7 := by simpa [left, binders, bindersArms] using hx
  subst this
  decide
theorem reordered_equal : lubEq {} left right = true ∧ lubEq {} right left = true := by decide
theorem reordered_alpha : alphaEq left right = true := by decide
theorem exchanged_differs : lubEq {} left exchanged = false ∧ alphaEq left exchanged = false := by decide
-- the nameless form keeps arms sorted by name whatever the declaration order
theorem nameless_sorted : toDB [] right = .all 0 (.codata
    (.cons 0 (.arr (.bound 0) (.ret (.data (.cons 0 (.bound 0) (.cons 1 .int .nil)))))
    (.cons 1 (.ret .str) .nil))) := by decide
-- a permutation of the inner declaration reached through `codata_head` below a binder
theorem nested_permutation : ArmPerm
    (.all 0 7 (.codata (.cons 0 (.ret (.data (.cons 0 .int (.cons 1 .str .nil)))) .nil)))
    (.all 0 7 (.codata (.cons 0 (.ret (.data (.cons 1 .str (.cons 0 .int .nil)))) .nil))) :=
  .all (.codata_head (.ret (.data_perm (List.Perm.swap _ _ _))))
-- `left` and `right` are related by `ArmPerm` only up to the binder identity; with the same identity:
theorem arm_order_instance :
    lubEq {} (.codata (.cons 0 (.ret .int) (.cons 1 (.ret .str) .nil)))
      (.codata (.cons 1 (.ret .str) (.cons 0 (.ret .int) .nil))) = true :=
  (arm_order_irrelevant (.codata (.cons 0 (.ret .int) (.cons 1 (.ret .str) .nil)))
    (.codata (.cons 1 (.ret .str) (.cons 0 (.ret .int) .nil))) (by decide)
    (.codata_perm (List.Perm.swap _ _ _))).1
-- a declaration that repeats a name is outside `WF`
theorem repeated_name_not_wf : WF (.data (.cons 0 .int (.cons 0 .str .nil))) = false := by decide

end Demo

end ZV.Props.C03
