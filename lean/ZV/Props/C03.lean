/-
C03 — The checker decides exactly the declared typing rules on the core language.
Full statements: `ZV/Props/C03Statements.lean`; a statement counts as proved only when a
`theorem` of exactly that proposition appears below.
-/
import ZV.Model.ZCore
import ZV.Model.ZCoreSpec
import ZV.Props.C03Statements
import ZV.Proofs.ZCoreCheck
import ZV.Proofs.Lub

namespace ZV.Props.C03
open ZV.ZCore

/-- A program is accepted only at `OS`. -/
theorem accepted_only_at_os (Δ : Sig) (body : C) (h : checkProgram Δ body = .ok ()) :
    inferC Δ [] body = .ok .os := by
  unfold checkProgram at h
  split at h <;> simp_all

/-- Type equality tests are exact. -/
theorem beq_exact : Statement.beq_exact := ZV.ZCore.beq_exact_pf

/-- **Soundness**: every accepted term is derivable in the declared rules. -/
theorem check_sound : Statement.check_sound := ZV.ZCore.check_sound_pf

/-- **Completeness**: every derivable term is accepted, at that type. -/
theorem check_complete : Statement.check_complete := ZV.ZCore.check_complete_pf

/-- Types are unique. -/
theorem type_unique : Statement.type_unique := ZV.ZCore.type_unique_pf

/-- **Definite errors**: whatever the checker rejects has no derivation at any type. -/
theorem rejected_has_no_type : Statement.rejected_has_no_type := ZV.ZCore.rejected_has_no_type_pf

/-- Acceptance of a program is derivability of `⊢ body : OS`. -/
theorem program_accepted_iff : Statement.program_accepted_iff := ZV.ZCore.program_accepted_iff_pf

/-- The level discipline of `lub.rs` decides exactly alpha-equivalence (for every pair of types;
the naming discipline is not even needed). -/
theorem lub_iff_alpha : LubStatement.lub_iff_alpha := ZV.Lub.lub_iff_alpha_pf

/-- the same, with no side condition at all -/
theorem lubEq_iff_alphaEq (a b : ZV.Lub.Ty) :
    ZV.Lub.lubEq {} a b = true ↔ ZV.Lub.alphaEq a b = true := ZV.Lub.lubEq_iff_alphaEq a b

/-- Comparison is reflexive. -/
theorem lub_refl : LubStatement.lub_refl := ZV.Lub.lub_refl_pf

/-- Alpha-equivalence is an equivalence relation. -/
theorem alpha_equiv : LubStatement.alpha_equiv := ZV.Lub.alpha_equiv_pf

/-- `forall X Y. X` and `forall X Y. Y` differ. -/
theorem permuted_binders_differ : LubStatement.permuted_binders_differ := ZV.Lub.permuted_binders_differ_pf

/-- A bound variable is never equal to a free one. -/
theorem bound_vs_free_differ : LubStatement.bound_vs_free_differ := ZV.Lub.bound_vs_free_differ_pf

end ZV.Props.C03
