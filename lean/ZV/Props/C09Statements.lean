/-
C09 — full statements of the property theorems about the mirror of loader.rs / graph.rs.
-/
import ZV.Model.SourceGraph
import ZV.Model.SourceGraphSpec

namespace ZV.Props.C09
open ZV.SourceGraph

namespace Statement

/-- Loading never runs out of fuel, deduplicates by canonical identity, and produces a
well-formed graph: each canonical identity is one node (`dedup`), and a node's import and
signature edges are exactly what its file says. -/
def load_spec : Prop :=
  ∀ (w : World) (root : Nat) (g : Graph) (r : Nat),
    (∀ (f : Nat) (spec : FileSpec), w[f]? = some spec → (∀ t ∈ spec.imports, ∀ x, t = some x → x < w.length) ∧
       (∀ c, spec.companion = some c → c < w.length)) →
    loadFile w (w.length + 1) {} root = .ok (g, r) →
    g.Wf ∧ (g.sources.map (·.file)).Nodup ∧ (g.sources[r]?.map (·.file)) = some root ∧
    ∀ (s : Nat) (n : Node), g.sources[s]? = some n → ∃ spec, w[n.file]? = some spec ∧
      (n.imports.map fun i => (g.imports[i]?.bind fun e => g.sources[e.2]?.map (·.file))) =
        spec.imports ∧
      (n.signature.bind fun t => g.sources[t]?.map (·.file)) = spec.companion

/-- Loading fails only because an import does not exist (never because of fuel), and then names
an importer. -/
def load_total : Prop :=
  ∀ (w : World) (root : Nat) (e : LoadError),
    (∀ (f : Nat) (spec : FileSpec), w[f]? = some spec → (∀ c, spec.companion = some c → c < w.length)) →
    root < w.length →
    loadFile w (w.length + 1) {} root = .error e → ∃ f pos, e = .missingImport f pos

/-- **Cycle reports are sound**: the reported steps really form a cycle of the graph. -/
def cycle_sound : Prop :=
  ∀ (g : Graph) (root : Nat) (steps : List Dep), g.Wf → root < g.sources.length →
    detectCycle g root = some steps → g.IsCycle steps

/-- **Cycle detection is complete**: if nothing is reported, no cycle is reachable from the root. -/
def cycle_complete : Prop :=
  ∀ (g : Graph) (root : Nat), g.Wf → root < g.sources.length →
    detectCycle g root = none → ¬ ∃ a, g.Reach root a ∧ g.Reach1 a a

/-- **Providers come first**: on an acyclic graph the provider order lists every file reachable
from the root exactly once, each provider before every consumer, the root last. -/
def provider_order_topo : Prop :=
  ∀ (g : Graph) (root : Nat), g.Wf → root < g.sources.length → detectCycle g root = none →
    let o := providerOrder g root
    o.Nodup ∧ (∀ a, a ∈ o ↔ g.Reach root a) ∧ o.getLast? = some root ∧
    ∀ (i j : Nat) (a b : Nat), o[i]? = some a → o[j]? = some b → g.Edge a b → j < i

end Statement

end ZV.Props.C09
