/-
C11 — A source is parsed in full or rejected: no silent truncation.

The theorems are about the mirror of `impl Iterator for Lexer` / `LexicalTokens`
(`ZV/Model/Lexer.lean`), for every raw token stream (no bound on length or nesting).
Together with the trusted LALRPOP fact "an `Ok` parse consumed every token its iterator yielded"
they give the property: what the parser accepted is the whole file outside comments.
-/
import ZV.Model.Lexer
import ZV.Proofs.Lexer

namespace ZV.Props.C11
open ZV.Lexer

/-- **Completeness of the parser's token stream.** A raw token reaches the parser exactly when it
is program text (`significant`) standing outside every comment — wherever it is in the file, in
particular after a stray comment terminator, an unknown character or anything else. -/
theorem lexer_complete (raw : List Raw) (h : Raw.err ∉ raw) (k : Nat) :
    k ∈ lex raw ↔ ∃ t, raw[k]? = some t ∧ significant t = true ∧ depthBefore raw 0 k = 0 := by
  unfold lex
  rw [lexAux_mem_iff raw 0 0 k h]
  constructor
  · rintro ⟨j, rfl, hj⟩; simpa [Emits] using hj
  · intro hk; exact ⟨k, by omega, by simpa [Emits] using hk⟩

/-- Tokens reach the parser in source order and none twice. -/
theorem lexer_ordered (raw : List Raw) : (lex raw).Pairwise (· < ·) :=
  lexAux_sorted raw 0 0

/-- A terminator without an opener is itself handed to the parser (which has no production for
it), so the text after it cannot be dropped silently. -/
theorem stray_close_reaches_parser (raw : List Raw) (h : Raw.err ∉ raw) (k : Nat)
    (hk : raw[k]? = some Raw.commentClose) (hd : depthBefore raw 0 k = 0) : k ∈ lex raw :=
  (lexer_complete raw h k).2 ⟨_, hk, rfl, hd⟩

/-- Nothing inside a comment reaches the parser (this includes everything after an unterminated
comment opener, which is comment text by the language's own tooling view). -/
theorem comment_text_skipped (raw : List Raw) (h : Raw.err ∉ raw) (k : Nat) (hk : k ∈ lex raw) :
    depthBefore raw 0 k = 0 := by
  obtain ⟨_, _, _, hd⟩ := (lexer_complete raw h k).1 hk
  exact hd

/-- **The two lexers agree**: the tooling view (used by the formatter's comment capture and by the
editor) reports as code exactly the tokens the parser received, except the catch-all `Unknown`
token, which the tooling view does not classify (and which the parser rejects). -/
theorem lexers_agree (raw : List Raw) (h : Raw.err ∉ raw) :
    toolCode (toolLex raw) = (lex raw).filter (fun k => raw[k]? != some Raw.unknown) := by
  unfold toolLex lex
  rw [toolCode_toolAux raw 0 0 none h]
  exact lexKnownAux_eq_filter raw raw 0 0 (by intro j; simp)

/-! ### Non-vacuity -/

-- a (b (c) d) e ) f with comment brackets: the stray close (index 9) and the token after it reach the parser
example :
    lex [.code, .commentOpen, .code, .commentOpen, .code, .commentClose, .code, .commentClose,
         .code, .commentClose, .code] = [0, 8, 9, 10] := by decide

-- an unterminated comment swallows the rest, and the tooling view says so
example : lex [.code, .commentOpen, .code, .unknown] = [0] ∧
    toolLex [.code, .commentOpen, .code, .unknown] = [.tok 0 .code, .comment 1 none] := by decide

end ZV.Props.C11
