/-
C02 — full statements (the interpreter model computes what call-by-push-value evaluation of the
source term prescribes).
-/
import ZV.Model.ZCore
import ZV.Model.ZCoreSpec

namespace ZV.Props.C02
open ZV.ZCore ZV.Machine

namespace Statement

/-- The machine is deterministic and more fuel never changes a finished outcome. -/
def run_mono : Prop :=
  ∀ (n m : Nat) (c : Comp) (st : State) (o : Outcome) (st' : State) (k : Nat),
    run n c st = (some o, st', k) → n ≤ m → run m c st = (some o, st', k)

/-- **Reference to machine.** Whatever the reference semantics computes for a closed, well-typed
`OS` program — the bytes written and the exit code, or the arithmetic trap — the interpreter
model computes too, after erasure of all types, annotations and data-type names. -/
def ref_to_machine : Prop :=
  ∀ (Δ : Sig) (body : C) (fuel : Nat) (out : Host.Bytes), Δ.Wf → checkProgram Δ body = .ok () →
    (∀ code, evalRC fuel [] body [] = some (.exit code, out) →
      ∃ n st k, runProgram n body [] [] = (some (.exit code), st, k) ∧ st.host.output = out) ∧
    (evalRC fuel [] body [] = some (.trap, out) →
      ∃ n st k, runProgram n body [] [] = (some .trap, st, k) ∧ st.host.output = out)

/-- **Machine to reference** (converse): a finished run of the interpreter model on an accepted
program is what the reference semantics computes. -/
def machine_to_ref : Prop :=
  ∀ (Δ : Sig) (body : C) (n : Nat) (st : State) (k : Nat), Δ.Wf → checkProgram Δ body = .ok () →
    (∀ code, runProgram n body [] [] = (some (.exit code), st, k) →
      ∃ fuel, evalRC fuel [] body [] = some (.exit code, st.host.output)) ∧
    (runProgram n body [] [] = (some .trap, st, k) →
      ∃ fuel, evalRC fuel [] body [] = some (.trap, st.host.output))

/-- The reference semantics never goes `wrong` on an accepted program. -/
def ref_never_wrong : Prop :=
  ∀ (Δ : Sig) (body : C) (fuel : Nat) (out : Host.Bytes), Δ.Wf → checkProgram Δ body = .ok () →
    evalRC fuel [] body [] ≠ some (.wrong, out)

/-- n-ary products are matched by position along the right spine, whatever the grouping:
`intoProductFields` of a right-nested product lists its components in order, and
`fromProductFields` rebuilds a value with the same components. -/
def product_fields_roundtrip : Prop :=
  ∀ (vs : List SemVal) (last : SemVal), vs ≠ [] → (∀ i t, last ≠ .vcons i t) →
    (∀ v ∈ vs, ∀ i t, v ≠ .vcons i t) →
    intoProductFields (fromProductFields (vs ++ [last])) = some (vs ++ [last])

/-- **First-match semantics of `match`.** With the scrutinee evaluated, every earlier arm failing
to match and the arm `(p, tail)` matching, the machine continues with `tail` under the bindings
of `p` - whatever arms follow, overlapping or not. -/
def match_takes_first : Prop :=
  ∀ (st : State) (scrut : Val) (sv : SemVal) (env' : Env) (before rest : List (Pat × Comp))
    (p : Pat) (tail : Comp),
    evalV (valFuel scrut) st.env scrut = .ok sv →
    (∀ q ∈ before, assign q.1 sv st.env = .fail) →
    assign p sv st.env = .ok env' →
    step (.cmatch scrut (before ++ (p, tail) :: rest)) st = .next tail { st with env := env' }

end Statement

end ZV.Props.C02
