/- Full statements for C20 (identity instance of the algebra translation), on ZCore. -/
import ZV.Model.Monadic
import ZV.Model.ZCoreSpec

namespace ZV.ZCore
/-- values without thunks inside: what a program can print -/
def RVal.ground : RVal → Bool
  | .unit | .int .. | .str _ => true
  | .pair a b => a.ground && b.ground
  | .ctor _ a => a.ground
  | .thunk .. => false
end ZV.ZCore

namespace ZV.Props.C20.Statement
open ZV.ZCore

/-- **Plain to monadic.** Whatever a closed computation returns (a ground value), exits with or
traps with, its translation at the identity monad does too, with the same output. -/
def identity_forward : Prop := ∀ (m : C) (fuel : Nat) (out : Host.Bytes),
  (∀ v, v.ground = true → evalRC fuel [] m [] = some (.ret v, out) →
    ∃ fuel', evalRC fuel' [] (liftIdC m) [] = some (.ret v, out)) ∧
  (∀ code, evalRC fuel [] m [] = some (.exit code, out) →
    ∃ fuel', evalRC fuel' [] (liftIdC m) [] = some (.exit code, out)) ∧
  (evalRC fuel [] m [] = some (.trap, out) →
    ∃ fuel', evalRC fuel' [] (liftIdC m) [] = some (.trap, out))

/-- **Monadic to plain** (converse). -/
def identity_backward : Prop := ∀ (m : C) (fuel : Nat) (out : Host.Bytes),
  (∀ v, v.ground = true → evalRC fuel [] (liftIdC m) [] = some (.ret v, out) →
    ∃ fuel', evalRC fuel' [] m [] = some (.ret v, out)) ∧
  (∀ code, evalRC fuel [] (liftIdC m) [] = some (.exit code, out) →
    ∃ fuel', evalRC fuel' [] m [] = some (.exit code, out)) ∧
  (evalRC fuel [] (liftIdC m) [] = some (.trap, out) →
    ∃ fuel', evalRC fuel' [] m [] = some (.trap, out))

/-- The translated block never goes wrong where the plain one does not. -/
def identity_never_wrong : Prop := ∀ (m : C) (fuel : Nat) (out : Host.Bytes),
  evalRC fuel [] (liftIdC m) [] = some (.wrong, out) → ∃ fuel' out', evalRC fuel' [] m [] = some (.wrong, out')

/-- The identity instance satisfies the left unit law observably: `bind {return v} {fn x => k}`
behaves as `k` with `x := v`. -/
def left_unit : Prop := ∀ (ρ : REnv) (v : V) (x : Nat) (a : VTy) (k : C) (fuel : Nat) (out : Host.Bytes)
    (rv : RVal) (r : RTerm) (out' : Host.Bytes),
  evalRV ρ v = some rv → evalRC fuel ((x, rv) :: ρ) k out = some (r, out') →
  ∃ fuel', evalRC fuel' ρ
    (.app (.app idBind (.thunk (.app idReturn v) (.ret a))) (.thunk (.fn x a k) (.ret a))) out = some (r, out')

end ZV.Props.C20.Statement
