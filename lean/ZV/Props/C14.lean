/-
C14 — Formatting is idempotent and canonical.
The printer as a whole is not modelled (see DESIGN.md); the kernel-checked part is the command-line
adapter: `fmt --check` against `fmt`. Full statements: `ZV/Props/C14Statements.lean`.
-/
import ZV.Props.C14Statements
import ZV.Proofs.FmtCli

namespace ZV.Props.C14
open ZV.FmtCli

/-- `fmt --check` reports a file as changed exactly when `fmt` modifies it; both report the same
outcome; `--check` never writes. -/
theorem check_iff_write : Statement.check_iff_write := by
  intro r f
  unfold checkPath formatPath
  cases h : r f with
  | none => simp
  | some o => by_cases h2 : o = f <;> simp [h2]

/-- A file that does not parse is left as it is, and the failure is reported. -/
theorem unparseable_untouched : Statement.unparseable_untouched := by
  intro r f h; simp [formatPath, checkPath, h]

/-- What `fmt` writes is what the renderer produced. -/
theorem written_is_rendered : Statement.written_is_rendered := ZV.FmtCli.written_is_rendered_pf

/-- With an idempotent renderer, a file `fmt` has written is reported unchanged by `--check`. -/
theorem format_then_check : Statement.format_then_check := ZV.FmtCli.format_then_check_pf

/-- `fmt --check` exits 1 exactly when some file would change; plain `fmt` exits 0; `--check`
leaves every file as it was. -/
theorem exit_status : Statement.exit_status := ZV.FmtCli.exit_status_pf

namespace Demo
/-- non-vacuity: a renderer that trims a trailing blank -/
theorem check_iff_write_example :
    let r : String → Option String := fun s => if s = "bad" then none else some "ret 1\n"
    (checkPath r "ret  1").1 = some .changed ∧ (formatPath r "ret  1").2 = "ret 1\n" ∧
    (checkPath r "ret 1\n").1 = some .unchanged ∧ formatPath r "bad" = (none, "bad") := by
  decide
end Demo

end ZV.Props.C14
