/- Full statements for C07 (bound names can be renamed freely), on ZCore. -/
import ZV.Model.Scope
import ZV.Model.ZCoreSpec

namespace ZV.Props.C07.Statement
open ZV.ZCore

/-- Acceptance does not depend on the choice of bound names: a closed program and its canonical
renaming are accepted or rejected together. -/
def canon_acceptance : Prop := ∀ (Δ : Sig) (m m' : C), canon m = some m' →
  (checkProgram Δ m = .ok () ↔ checkProgram Δ m' = .ok ())

/-- Behaviour does not depend on the choice of bound names: the reference semantics computes the
same exit code or trap and the same output for a closed program and its canonical renaming, at
every fuel. -/
def canon_behaviour : Prop := ∀ (m m' : C) (fuel : Nat) (out : Host.Bytes), canon m = some m' →
  (∀ code, evalRC fuel [] m [] = some (.exit code, out) ↔ evalRC fuel [] m' [] = some (.exit code, out)) ∧
  (evalRC fuel [] m [] = some (.trap, out) ↔ evalRC fuel [] m' [] = some (.trap, out)) ∧
  (evalRC fuel [] m [] = some (.wrong, out) ↔ evalRC fuel [] m' [] = some (.wrong, out))

/-- Hence two programs that differ only in bound names - same canonical form - are accepted
together and behave alike. -/
def alpha_invariance : Prop := ∀ (Δ : Sig) (m₁ m₂ c : C) (fuel : Nat) (out : Host.Bytes),
  canon m₁ = some c → canon m₂ = some c →
  (checkProgram Δ m₁ = .ok () ↔ checkProgram Δ m₂ = .ok ()) ∧
  (∀ code, evalRC fuel [] m₁ [] = some (.exit code, out) ↔ evalRC fuel [] m₂ [] = some (.exit code, out)) ∧
  (evalRC fuel [] m₁ [] = some (.trap, out) ↔ evalRC fuel [] m₂ [] = some (.trap, out))

/-- The canonical form is canonical: renaming it again changes nothing. -/
def canon_idempotent : Prop := ∀ m c : C, canon m = some c → canon c = some c

/-- A program with an unbound variable has no canonical form and is rejected as such whatever
surrounds the occurrence: `canon` fails exactly when the checker can meet an unbound variable,
never on an accepted program. -/
def accepted_is_closed : Prop := ∀ (Δ : Sig) (m : C), checkProgram Δ m = .ok () → (canon m).isSome

end ZV.Props.C07.Statement
