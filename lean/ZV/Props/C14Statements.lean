/- Full statements for C14 (`fmt --check` against `fmt`, exit status). -/
import ZV.Model.FmtCli

namespace ZV.Props.C14.Statement
open ZV.FmtCli

/-- `fmt --check` reports a file as changed exactly when `fmt` modifies it; both report the same
outcome; `--check` never writes. -/
def check_iff_write : Prop := ∀ (render : String → Option String) (file : String),
  (checkPath render file).1 = (formatPath render file).1 ∧
  (checkPath render file).2 = file ∧
  ((checkPath render file).1 = some .changed ↔ (formatPath render file).2 ≠ file)

/-- A file that does not parse is left as it is, and the failure is reported. -/
def unparseable_untouched : Prop := ∀ (render : String → Option String) (file : String),
  render file = none → formatPath render file = (none, file) ∧ checkPath render file = (none, file)

/-- What `fmt` writes is what the renderer produced. -/
def written_is_rendered : Prop := ∀ (render : String → Option String) (file out : String),
  render file = some out → (formatPath render file).2 = out

/-- With an idempotent renderer, a file `fmt` has written is reported unchanged by `--check`. -/
def format_then_check : Prop := ∀ (render : String → Option String) (file : String),
  (∀ s out, render s = some out → render out = some out) →
  (formatPath render file).1.isSome →
  (checkPath render (formatPath render file).2).1 = some .unchanged

/-- `fmt --check` over several files exits 1 exactly when some file would change, and 0 otherwise
(when every file parses); plain `fmt` exits 0. The files after `--check` are the files before. -/
def exit_status : Prop := ∀ (render : String → Option String) (files : List String),
  (∀ f ∈ files, (render f).isSome) →
  (formatSources render true files false).1 =
      some (if files.any fun f => (checkPath render f).1 == some .changed then 1 else 0) ∧
  (formatSources render true files false).2 = files ∧
  (formatSources render false files false).1 = some 0

end ZV.Props.C14.Statement
