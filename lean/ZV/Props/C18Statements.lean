/-
C18 (invariant part): statements about the validator of first-order SPS programs
(`ZV.SpsLow.validate`, run by the driver on every program the real compiler produces). A statement
counts as proved only when a `theorem` of exactly that proposition appears in `ZV/Props/C18.lean`.
-/
import ZV.Model.SpsLow
import ZV.Model.SpsLowFree

namespace ZV.Props.C18.Statement
open ZV.SpsLow

/-- The validator decides exactly the stated invariants: unique labels, closed root, no implicit
capture (in terms of the free-variable specification of `sps_low/variables.rs`), joins only at
coproduct branches. -/
def validate_iff_invariants : Prop :=
  ∀ (p : Program), validate p = true ↔ Invariants p

/-- The scope check against a list of bound variables is containment of the free variables, for
terms all of whose nested blocks capture nothing implicitly. -/
def scope_iff_free : Prop :=
  ∀ (c : Comp), (∀ l b, (l, b) ∈ blocksC c → ∀ x ∈ fvC b, x = l) →
    ∀ (bound : List Nat), scopeC bound c = true ↔ ∀ x ∈ fvC c, x ∈ bound

end ZV.Props.C18.Statement
