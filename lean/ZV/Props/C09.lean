/-
C09 — Imports are hygienic splices over an acyclic, deduplicated source graph.
Full statements: `ZV/Props/C09Statements.lean`; a statement counts as proved only when a `theorem`
of exactly that proposition appears below.
-/
import ZV.Model.SourceGraph
import ZV.Model.SourceGraphSpec
import ZV.Props.C09Statements
import ZV.Proofs.SourceGraph

namespace ZV.Props.C09
open ZV.SourceGraph

/-- The dependencies of a source are its signature first, then its imports in order. -/
theorem dependencies_order (g : Graph) (sid : Nat) (n : Node) (h : g.sources[sid]? = some n) :
    g.dependencies sid =
      (match n.signature with | some s => [Dep.signature sid s] | none => []) ++ n.imports.map Dep.import := by
  simp only [Graph.dependencies, h]; cases n.signature <;> rfl

/-- Reported cycles are real: the steps are dependency edges of the graph forming a closed walk. -/
theorem cycle_sound : Statement.cycle_sound := ZV.SourceGraph.cycle_sound_pf

/-- Nothing reported means no cycle is reachable from the root. -/
theorem cycle_complete : Statement.cycle_complete := ZV.SourceGraph.cycle_complete_pf

/-- On an acyclic graph the provider order lists every reachable file once, providers first. -/
theorem provider_order_topo : Statement.provider_order_topo := ZV.SourceGraph.provider_order_topo_pf

/-- Loading fails only on a missing import, never for lack of fuel. -/
theorem load_total : Statement.load_total := ZV.SourceGraph.load_total_pf

/-- Loading deduplicates by canonical identity and records exactly the edges the files declare. -/
theorem load_spec : Statement.load_spec := ZV.SourceGraph.load_spec_pf

end ZV.Props.C09
