/-
C09 — Imports are hygienic splices over an acyclic, deduplicated source graph.
Full statements: `ZV/Props/C09Statements.lean`; a statement counts as proved only when a `theorem`
of exactly that proposition appears below.
-/
import ZV.Model.SourceGraph
import ZV.Model.SourceGraphSpec
import ZV.Props.C09Statements

namespace ZV.Props.C09
open ZV.SourceGraph

/-- The dependencies of a source are its signature first, then its imports in order. -/
theorem dependencies_order (g : Graph) (sid : Nat) (n : Node) (h : g.sources[sid]? = some n) :
    g.dependencies sid =
      (match n.signature with | some s => [Dep.signature sid s] | none => []) ++ n.imports.map Dep.import := by
  simp only [Graph.dependencies, h]; cases n.signature <;> rfl

end ZV.Props.C09
