/-
C20 — Monadic blocks instantiated at the identity monad compute the same result.
Full statements: `ZV/Props/C20Statements.lean`; a statement counts as proved only when a `theorem`
of exactly that proposition appears below.
-/
import ZV.Props.C20Statements
import ZV.Proofs.Monadic

namespace ZV.Props.C20
open ZV.ZCore

/-- The translation leaves host operations, and everything that is not `ret` or `do`, in place. -/
theorem liftId_homomorphic (x : Nat) (a : VTy) (m : C) (v : V) :
    liftIdC (.fn x a m) = .fn x a (liftIdC m) ∧
    liftIdC (.app m v) = .app (liftIdC m) (liftIdV v) ∧
    liftIdC (.force v) = .force (liftIdV v) ∧
    liftIdC (.clet x v m) = .clet x (liftIdV v) (liftIdC m) := by
  simp [liftIdC]

/-- Whatever a closed computation returns (a ground value), exits with or traps with, its
translation at the identity monad does too, with the same output. -/
theorem identity_forward : Statement.identity_forward := ZV.ZCore.identity_forward_pf

/-- The converse. -/
theorem identity_backward : Statement.identity_backward := ZV.ZCore.identity_backward_pf

/-- The translated block goes wrong only where the plain one does. -/
theorem identity_never_wrong : Statement.identity_never_wrong := ZV.ZCore.identity_never_wrong_pf

/-- The identity instance satisfies the left unit law observably. -/
theorem left_unit : Statement.left_unit := ZV.ZCore.left_unit_pf

namespace Demo
/-- non-vacuity: `do 0 <- ret (); ret 0` (a user variable named like the instance's own binders)
and its translation both return `()` -/
theorem identity_example :
    evalRC 20 [] (liftIdC (.bind 0 .unit (.ret .unit) (.ret (.var 0)))) [] = some (.ret .unit, []) ∧
    evalRC 20 [] (.bind 0 .unit (.ret .unit) (.ret (.var 0))) [] = some (.ret .unit, []) := by
  constructor <;> rfl
end Demo

end ZV.Props.C20
