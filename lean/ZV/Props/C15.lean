/-
C15 — Incremental answers equal from-scratch answers after any edit history.
Full statements: `ZV/Props/C15Statements.lean`; a statement counts as proved only when a `theorem`
of exactly that proposition appears below.

Two models. `ZV/Model/Session.lean` is the input side of `CompilerSession` (lazily created
inputs, overlays, disk refreshes); `ZV/Model/Memo.lean` is a revisioned memo table with recorded
dependencies and eviction. The harness (`harness/src/c15.rs`) compares the real session with a
fresh one after every query of every history, and the real effective texts with the first model.
-/
import ZV.Model.Session
import ZV.Model.Memo
import ZV.Props.C15Statements
import ZV.Proofs.Session
import ZV.Proofs.Memo

namespace ZV.Props.C15

/-- The file system after any history is what plain bookkeeping says. -/
theorem run_fs : Statement.run_fs := ZV.Session.run_fs_pf

/-- The overlays after any history are what plain bookkeeping says. -/
theorem run_overlay : Statement.run_overlay := ZV.Session.run_overlay_pf

/-- After every well-formed history, every path shows its overlay, else the current disk. -/
theorem effective_spec : Statement.effective_spec := ZV.Session.effective_spec_pf

/-- A fresh session given overlays shows each overlay, else the disk. -/
theorem fresh_effective : Statement.fresh_effective := ZV.Session.fresh_effective_pf

/-- After every well-formed history the long-lived session shows what a fresh session over the
final file system and the same overlays shows. -/
theorem incremental_eq_fresh : Statement.incremental_eq_fresh := ZV.Session.incremental_eq_fresh_pf

/-- Lookups (queries) never change an effective text. -/
theorem lookups_irrelevant : Statement.lookups_irrelevant := ZV.Session.lookups_irrelevant_pf

/-- Input values of the memo table follow plain bookkeeping. -/
theorem values_spec : MemoStatement.values_spec := ZV.Memo.values_spec_pf

/-- After any history of sets, queries and evictions, a query answers the from-scratch result. -/
theorem memo_sound : MemoStatement.memo_sound := ZV.Memo.memo_sound_pf

namespace Demo
open ZV.Session

/-- A file looked up while absent, then created and refreshed, is seen. -/
theorem created_after_absent_lookup_is_seen :
    effective (run (init fun _ => none) [.lookup 0, .write 0 7, .refreshDisk 0]) 0 = some 7 := by
  decide

/-- An overlay installed on a file that does not exist yet and removed again leaves nothing. -/
theorem overlay_on_absent_file_then_cleared :
    effective (run (init fun _ => none) [.lookup 1, .setOverlay 1 3, .clearOverlay 1]) 1 = none := by
  decide

/-- A disk change announced only by `clear_overlay` is seen. -/
theorem disk_change_announced_by_clear :
    effective (run (init fun _ => none) [.lookup 0, .setOverlay 0 1, .write 0 7, .clearOverlay 0]) 0 = some 7 := by
  decide

/-- Well-formedness is needed: a write the session is not told about stays invisible for a path
that was looked up before, so the session differs from a fresh one. -/
theorem unannounced_write_differs_from_fresh :
    effective (run (init fun _ => none) [.lookup 0, .write 0 7]) 0 ≠
      effective (fresh (run (init fun _ => none) [.lookup 0, .write 0 7]).fs []) 0 := by
  decide

/-- The same write is visible when the path was never looked up (lazy creation reads it). -/
theorem unannounced_write_before_first_lookup_is_seen :
    effective (run (init fun _ => none) [.write 0 7]) 0 = some 7 := by decide

theorem wf_examples :
    WF [.lookup 0, .write 0 7, .refreshDisk 0, .delete 0, .clearOverlay 0] = true ∧
    WF [.lookup 0, .write 0 7] = false ∧
    WF [.write 0 7, .lookup 0, .refreshDisk 0] = false := by decide

open ZV.Memo in
/-- The hypothesis of `memo_sound` is needed: a computation that reads input 0 without recording
it (a probe that bypasses the inputs) returns a stale answer after input 0 changes. -/
theorem unrecorded_read_goes_stale :
    let compute : Unit → (Nat → Nat) → List Nat × Nat := fun _ f => ([], f 0)
    let db : Db Nat Nat Nat Unit := ZV.Memo.run compute (ZV.Memo.init fun _ => 0) [.query (), .set 0 5]
    (query compute db ()).1 = 0 ∧ (compute () (values db)).2 = 5 := by
  decide

open ZV.Memo in
/-- With the read recorded, the same history answers the new value, also after an eviction. -/
theorem recorded_read_is_fresh :
    let compute : Unit → (Nat → Nat) → List Nat × Nat := fun _ f => ([0], f 0)
    let db : Db Nat Nat Nat Unit :=
      ZV.Memo.run compute (ZV.Memo.init fun _ => 0) [.query (), .set 0 5, .query (), .evict (), .set 0 6]
    (query compute db ()).1 = 6 := by
  decide

end Demo
end ZV.Props.C15
