/- Full statements for C13 (accounting oracle, comment capture). -/
import ZV.Model.Account
import ZV.Model.Capture

namespace ZV.Props.C13.Statement
open ZV.Account

/-- `firstDiff` finds a difference exactly when there is one. -/
def firstDiff_none_iff : Prop := ∀ (a b : List Item) (i : Nat), firstDiff a b i = none ↔ a = b

/-- The oracle accepts a formatter that changes nothing. -/
def accounts_refl : Prop := ∀ l : List Item, accounts l l = .ok

/-- What `ok` means: the output carries exactly the input's comments (none lost, duplicated,
altered or reordered) and exactly its content tokens, in order, and no comment has moved in front
of a content token it followed. -/
def accounts_ok_iff : Prop := ∀ inp out : List Item,
  accounts inp out = .ok ↔
    (comments (normalize inp) = comments (normalize out) ∧
     contents (normalize inp) = contents (normalize out) ∧
     firstBack (offsets (normalize inp)) (offsets (normalize out)) 0 = none)

/-- Punctuation and keywords never decide the verdict: they may be added or dropped anywhere. -/
def essential_ignores_layout_tokens : Prop := ∀ (l₁ l₂ : List Item) (t : String),
  essential (l₁ ++ .punct t :: l₂) = essential (l₁ ++ l₂) ∧
  essential (l₁ ++ .keyword t :: l₂) = essential (l₁ ++ l₂)

/-- A dropped comment is always reported: removing one comment from an otherwise untouched stream
is not accepted. -/
def dropped_comment_detected : Prop := ∀ (l₁ l₂ : List Item) (k : Char) (t : String),
  accounts (l₁ ++ .comment k t :: l₂) (l₁ ++ l₂) ≠ .ok

/-- A duplicated comment is always reported. -/
def duplicated_comment_detected : Prop := ∀ (l₁ l₂ : List Item) (k : Char) (t : String),
  accounts (l₁ ++ .comment k t :: l₂) (l₁ ++ .comment k t :: .comment k t :: l₂) ≠ .ok

open ZV.Capture in
/-- Comment capture loses nothing and invents nothing: the leading comments followed by the
trailing comments are the source's comments, in order; and the `expect` never fires. -/
def capture_partition : Prop := ∀ (es : List Entity) (cs : List Comment),
  (capture es cs).panicked = false ∧
  (capture es cs).leading.map (·.2) ++ (capture es cs).trailing = cs

open ZV.Capture in
/-- A leading comment is attached to an entity that starts at or after the comment's end, and no
entity that qualifies starts earlier. -/
def leading_anchor_is_next : Prop := ∀ (es : List Entity) (cs : List Comment) (e : Entity) (c : Comment),
  (e, c) ∈ (capture es cs).leading →
    e ∈ es ∧ c.stop ≤ e.start ∧ ∀ e' ∈ es, c.stop ≤ e'.start → e.start ≤ e'.start

end ZV.Props.C13.Statement
