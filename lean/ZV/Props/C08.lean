/-
C08 — Block contributions are ordered by dependency, not by position.

Theorems about the scheduler-parametrised mirror of `graph.rs` / `BindingContext`
(`ZV/Model/Graph.lean`) against the declarative notions of `ZV/Model/GraphSpec.lean`.
Full statements are kept as `def … : Prop` in `ZV/Props/C08Statements.lean` (namespace
`Statement`); a statement counts as proved only when a `theorem` of exactly that proposition
appears below.
-/
import ZV.Model.Graph
import ZV.Model.GraphSpec
import ZV.Props.C08Statements
import ZV.Proofs.Kosaraju

namespace ZV.Props.C08
open ZV.Graph



/-- `sort_by_key` returns a permutation of its input (so no binding is lost or duplicated by the
source-order tie-break). -/
theorem sortByKey_perm (key : Nat → Nat) (xs : List Nat) : (sortByKey key xs).Perm xs := by
  induction xs with
  | nil => exact List.Perm.refl _
  | cons x xs ih =>
    have hins : ∀ (ys : List Nat), (sortByKey.ins key x ys).Perm (x :: ys) := by
      intro ys
      induction ys with
      | nil => exact List.Perm.refl _
      | cons y ys ih2 =>
        unfold sortByKey.ins
        split
        · exact List.Perm.refl _
        · exact (List.Perm.cons y ih2).trans (List.Perm.swap x y ys)
    unfold sortByKey
    exact (hins _).trans (List.Perm.cons x ih)

/-- The two depth-first searches never run out of fuel and the labelling never fails. -/
theorem kosaraju_total : Statement.kosaraju_total := ZV.Graph.kosaraju_total_pf

/-- Kosaraju's labelling is exactly the strongly connected components, whatever the hash-map
iteration order. -/
theorem kosaraju_correct : Statement.kosaraju_correct := ZV.Graph.kosaraju_correct_pf

end ZV.Props.C08
