/-
C08 — Block contributions are ordered by dependency, not by position.
(Work in progress.)
-/
import ZV.Model.Graph

namespace ZV.Props.C08
open ZV.Graph

/-- `sort_by_key` returns a permutation of its input (so no binding is lost or duplicated by the
source-order tie-break). -/
theorem sortByKey_perm (key : Nat → Nat) (xs : List Nat) : (sortByKey key xs).Perm xs := by
  induction xs with
  | nil => exact List.Perm.refl _
  | cons x xs ih =>
    have hins : ∀ (ys : List Nat), (sortByKey.ins key x ys).Perm (x :: ys) := by
      intro ys
      induction ys with
      | nil => exact List.Perm.refl _
      | cons y ys ih2 =>
        unfold sortByKey.ins
        split
        · exact List.Perm.refl _
        · exact (List.Perm.cons y ih2).trans (List.Perm.swap x y ys)
    unfold sortByKey
    exact (hins _).trans (List.Perm.cons x ih)

end ZV.Props.C08
