/-
C08 — Block contributions are ordered by dependency, not by position.

Theorems about the scheduler-parametrised mirror of `graph.rs` / `BindingContext`
(`ZV/Model/Graph.lean`) against the declarative notions of `ZV/Model/GraphSpec.lean`.
Full statements are kept as `def … : Prop` in `ZV/Props/C08Statements.lean` (namespace
`Statement`); a statement counts as proved only when a `theorem` of exactly that proposition
appears below.
-/
import ZV.Model.Graph
import ZV.Model.GraphSpec
import ZV.Props.C08Statements
import ZV.Proofs.Kosaraju
import ZV.Proofs.SccDrain

namespace ZV.Props.C08
open ZV.Graph



/-- `sort_by_key` returns a permutation of its input (so no binding is lost or duplicated by the
source-order tie-break). -/
theorem sortByKey_perm (key : Nat → Nat) (xs : List Nat) : (sortByKey key xs).Perm xs := by
  induction xs with
  | nil => exact List.Perm.refl _
  | cons x xs ih =>
    have hins : ∀ (ys : List Nat), (sortByKey.ins key x ys).Perm (x :: ys) := by
      intro ys
      induction ys with
      | nil => exact List.Perm.refl _
      | cons y ys ih2 =>
        unfold sortByKey.ins
        split
        · exact List.Perm.refl _
        · exact (List.Perm.cons y ih2).trans (List.Perm.swap x y ys)
    unfold sortByKey
    exact (hins _).trans (List.Perm.cons x ih)

/-- The two depth-first searches never run out of fuel and the labelling never fails. -/
theorem kosaraju_total : Statement.kosaraju_total := ZV.Graph.kosaraju_total_pf

/-- Kosaraju's labelling is exactly the strongly connected components, whatever the hash-map
iteration order. -/
theorem kosaraju_correct : Statement.kosaraju_correct := ZV.Graph.kosaraju_correct_pf

/-- Draining `top`/`release` to exhaustion never hits an `unreachable!`, terminates, and yields
every strongly connected component exactly once, dependencies first — any graph, any iteration
order. -/
theorem drain_deps_first : Statement.drain_deps_first :=
  ZV.Graph.drain_deps_first_pf kosaraju_total kosaraju_correct

/-- Piecemeal (one id at a time) release is safe. -/
theorem release_piecemeal_safe : Statement.release_piecemeal_safe :=
  ZV.Graph.release_piecemeal_safe_pf kosaraju_total kosaraju_correct

/-- The order handed to block elaboration is a dependency-respecting decomposition into strongly
connected components with the right `recursive` classification. -/
theorem context_order_valid : Statement.context_order_valid :=
  ZV.Graph.context_order_valid_pf kosaraju_total kosaraju_correct

/-- **Determinism**: that order does not depend on hash-map iteration order. -/
theorem topo_deterministic : Statement.topo_deterministic :=
  ZV.Graph.topo_deterministic_pf kosaraju_total kosaraju_correct

end ZV.Props.C08
