/-
C15 — full statements of the property theorems about the session's input side
(`ZV/Model/Session.lean`) and the revisioned memo table (`ZV/Model/Memo.lean`).
-/
import ZV.Model.Session
import ZV.Model.Memo

namespace ZV.Props.C15

namespace Statement
open ZV.Session

/-- The file system after any history is what plain bookkeeping of the writes and deletes says
(the session never writes). -/
def run_fs : Prop :=
  ∀ (h : List Op) (s : State), (run s h).fs = specFs s.fs h

/-- The overlays the session holds after any history are what plain bookkeeping of
`set_overlay` / `clear_overlay` says: lookups, refreshes and lazy creation never touch them. -/
def run_overlay : Prop :=
  ∀ (h : List Op) (s : State) (p : Path), overlayOf (run s h) p = specOv (overlayOf s) h p

/-- **Effective texts after any well-formed history.** Starting from a session that has looked
nothing up, after every history in which each write / delete is immediately followed by
`refresh_disk` or `clear_overlay` of that path, the text every query sees for every path is the overlay if one is
installed and the current disk contents otherwise, whatever was looked up (and so lazily
created from an older disk state) in between. -/
def effective_spec : Prop :=
  ∀ (fs0 : Path → Option Text) (h : List Op) (p : Path), WF h = true →
    effective (run (init fs0) h) p = (specOv (fun _ => none) h p <|> specFs fs0 h p)

/-- A fresh session over a file system, given a list of overlays, sees for every path the
overlay the list installs, else the disk. -/
def fresh_effective : Prop :=
  ∀ (fs : Path → Option Text) (ovs : List (Path × Text)) (p : Path),
    effective (fresh fs ovs) p = (overlayIn ovs p <|> fs p)

/-- **Incremental equals fresh on the input side.** After every well-formed history the
long-lived session shows, for every path, the text that a fresh session shows when it is
created over the final file system and given the long-lived session's current overlays. -/
def incremental_eq_fresh : Prop :=
  ∀ (fs0 : Path → Option Text) (h : List Op) (ovs : List (Path × Text)), WF h = true →
    (∀ p, overlayIn ovs p = overlayOf (run (init fs0) h) p) →
    ∀ p, effective (run (init fs0) h) p = effective (fresh (run (init fs0) h).fs ovs) p

/-- Queries are invisible on the input side: dropping every lookup from a well-formed history
changes no effective text. -/
def lookups_irrelevant : Prop :=
  ∀ (fs0 : Path → Option Text) (h : List Op) (p : Path), WF h = true →
    effective (run (init fs0) h) p =
      effective (run (init fs0) (h.filter notLookup)) p

end Statement

namespace MemoStatement
open ZV.Memo

/-- The input values after any history are what plain bookkeeping says. -/
def values_spec : Prop :=
  ∀ {K V R Q : Type} [DecidableEq K] [DecidableEq V] [DecidableEq Q]
    (compute : Q → (K → V) → List K × R) (v0 : K → V) (h : List (Op K V Q)),
    values (run compute (init v0) h) = specValues v0 h

/-- **The memo table is sound.** If the recorded inputs are all a computation depends on, then
after ANY history of input changes, queries and evictions, every query answers exactly what
computing from scratch on the current inputs answers. -/
def memo_sound : Prop :=
  ∀ {K V R Q : Type} [DecidableEq K] [DecidableEq V] [DecidableEq Q]
    (compute : Q → (K → V) → List K × R), ReadsRecorded compute →
    ∀ (v0 : K → V) (h : List (Op K V Q)) (q : Q),
      (query compute (run compute (init v0) h) q).1 =
        (compute q (values (run compute (init v0) h))).2

end MemoStatement
end ZV.Props.C15
