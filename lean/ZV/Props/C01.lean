/-
C01 — Type safety: accepted programs never go wrong in the interpreter. Full statements: `ZV/Props/C01Statements.lean`; a statement counts as proved only when a
`theorem` of exactly that proposition appears below.
-/
import ZV.Model.Machine
import ZV.Model.ZCore
import ZV.Model.ZCoreSpec
import ZV.Props.C01Statements

namespace ZV.Props.C01
open ZV.Machine

/-- The machine is a function: one state has one successor (determinism of `step`). -/
theorem step_deterministic (c : Comp) (st : State) (r₁ r₂ : StepResult)
    (h₁ : step c st = r₁) (h₂ : step c st = r₂) : r₁ = r₂ := h₁ ▸ h₂ ▸ rfl

end ZV.Props.C01
