/-
C01 — Type safety: accepted programs never go wrong in the interpreter. Full statements: `ZV/Props/C01Statements.lean`; a statement counts as proved only when a
`theorem` of exactly that proposition appears below.
-/
import ZV.Model.Machine
import ZV.Model.ZCore
import ZV.Model.ZCoreSpec
import ZV.Props.C01Statements
import ZV.Proofs.Safety

namespace ZV.Props.C01
open ZV.Machine

/-- The machine is a function: one state has one successor (determinism of `step`). -/
theorem step_deterministic (c : Comp) (st : State) (r₁ r₂ : StepResult)
    (h₁ : step c st = r₁) (h₂ : step c st = r₂) : r₁ = r₂ := h₁ ▸ h₂ ▸ rfl

/-- The checker is sound for the declared rules. -/
theorem check_sound : Statement.check_sound := ZV.ZCore.check_sound_c01_pf

/-- **Type safety**: a program the checker accepts never reaches an undefined state of the
interpreter model, for every standard input, argument vector and finite prefix of its execution. -/
theorem accepted_never_stuck : Statement.accepted_never_stuck := ZV.ZCore.accepted_never_stuck_pf

/-- A finished run of an accepted `OS` program ended by exiting, in the arithmetic trap or in a
host failure. -/
theorem os_program_exits : Statement.os_program_exits := ZV.ZCore.os_program_exits_pf

end ZV.Props.C01
